/-
C19, faithful model: histories of several additions with a sentinel, part 1 — substitution lemmas: the
pending-stack semantics commutes with filling the sentinel (`finalRootF_sigma`); with one sentinel
pending, filling the *first* sentinel (`assemble`) is filling *the* sentinel (`substFirst_of_one`).
-/
import ClvmProofs.Lemmas.TreeCacheRegion

namespace Clvm.TreeCacheProofs
open Clvm Clvm.Serde Clvm.Serde.Backref Clvm.Serde.TreeCache Clvm.Backref
open Clvm.Serde.Incremental (substFirst assembleFrom assemble noSentinel)
open Clvm.Incremental (CurOk)

theorem cnt_substAll (m : Bytes) (x : Tree) : ∀ (t : Tree), cnt m (substAll m x t) = cnt m t * cnt m x := by
  intro t
  induction t with
  | atom b =>
    simp only [substAll, cnt]
    split <;> simp [cnt, *]
  | pair l r ihl ihr =>
    simp only [substAll, cnt, ihl, ihr, Nat.add_mul]

theorem substFirst_clean (m : Bytes) (x : Tree) : ∀ (t : Tree), cnt m t = 0 → substFirst m x t = none := by
  intro t
  induction t with
  | atom b =>
    intro h
    simp only [cnt] at h
    split at h
    · cases h
    · rename_i hb; simp [substFirst, hb]
  | pair l r ihl ihr =>
    intro h
    simp only [cnt] at h
    simp [substFirst, ihl (by omega), ihr (by omega)]

/-- with exactly one sentinel, replacing the first one replaces all -/
theorem substFirst_of_one (m : Bytes) (x : Tree) : ∀ (t : Tree), cnt m t = 1 →
    substFirst m x t = some (substAll m x t) := by
  intro t
  induction t with
  | atom b =>
    intro h
    simp only [cnt] at h
    split at h
    · rename_i hb; simp [substFirst, substAll, hb]
    · cases h
  | pair l r ihl ihr =>
    intro h
    simp only [cnt] at h
    by_cases hl : cnt m l = 1
    · have hr : cnt m r = 0 := by omega
      simp [substFirst, substAll, ihl hl, substAll_clean m x r hr]
    · have hl0 : cnt m l = 0 := by omega
      have hr : cnt m r = 1 := by omega
      simp [substFirst, substAll, substFirst_clean m x l hl0, ihr hr, substAll_clean m x l hl0]

theorem noSentinel_of_cnt (m : Bytes) : ∀ (t : Tree), cnt m t = 0 → noSentinel (some m) t = true := by
  intro t
  induction t with
  | atom b =>
    intro h
    simp only [cnt] at h
    split at h
    · cases h
    · rename_i hb
      simp only [noSentinel, Bool.not_eq_true', beq_eq_false_iff_ne, ne_eq, Option.some.injEq]
      exact fun e => hb e.symm
  | pair l r ihl ihr =>
    intro h
    simp only [cnt] at h
    simp [noSentinel, ihl (by omega), ihr (by omega)]

/-- the pending-stack semantics commutes with filling the sentinel -/
theorem finalRootF_sigma (m : Bytes) (x : Tree) (K K' : Key → Tree) : ∀ (ops : List FReadOp) (ws : List Tree) (V R : Tree),
    (∀ n, FReadOp.cons n ∈ ops → K' n.key = substAll m x (K n.key)) → finalRootF K ops ws V = some R →
    finalRootF K' ops (ws.map (substAll m x)) (substAll m x V) = some (substAll m x R) := by
  intro ops
  induction ops with
  | nil =>
    intro ws V R _ h
    cases ws with
    | nil => simp only [finalRootF, Option.some.injEq] at h; subst h; rfl
    | cons _ _ => simp [finalRootF] at h
  | cons op ops ih =>
    intro ws V R hk h
    cases op with
    | parse =>
      cases ws with
      | nil => simp [finalRootF] at h
      | cons t ws' =>
        simp only [finalRootF, List.map_cons] at h ⊢
        exact ih ws' _ R (fun n hn => hk n (List.mem_cons_of_mem _ hn)) h
    | cons n =>
      cases V with
      | atom b => simp [finalRootF] at h
      | pair r rest1 =>
        cases rest1 with
        | atom b => simp [finalRootF] at h
        | pair l rest =>
          simp only [finalRootF] at h
          split at h
          · rename_i hchk
            have hk' : K' n.key = substAll m x (K n.key) := hk n List.mem_cons_self
            have : finalRootF K' (.cons n :: ops) (ws.map (substAll m x)) (substAll m x (Tree.pair r (Tree.pair l rest))) =
                finalRootF K' ops (ws.map (substAll m x)) (substAll m x (Tree.pair (Tree.pair l r) rest)) := by
              simp only [substAll, finalRootF]
              rw [if_pos (by rw [hk', ← hchk]; rfl)]
            rw [this]
            exact ih ws _ R (fun n' hn => hk n' (List.mem_cons_of_mem _ hn)) h
          · cases h

/-! ### the state between additions -/

/-- contents of keys: content keys are canonical, `F` gives the contents of the fresh `NodePtr`s -/
def KF (F : Nat → Tree) : Key → Tree
  | .atom b => .atom b
  | .shared t => t
  | .fresh n => F n

def IdsBelow (next : Nat) (n : Node) : Prop := ∀ s, s ∈ subs n → ∀ id, s.key = Key.fresh id → id < next
def SharedClean (m : Bytes) (n : Node) : Prop := ∀ s, s ∈ subs n → ∀ t, s.key = Key.shared t → cnt m t = 0

/-- nodes still to be written -/
def Qw (m : Bytes) (F : Nat → Tree) (next : Nat) (n : Node) : Prop :=
  KOk (KF F) n ∧ IdsBelow next n ∧ SharedClean m n

/-- nodes of pending `Cons` operations -/
def Qo (m : Bytes) (next : Nat) (n : Node) : Prop :=
  (∀ id, n.key = Key.fresh id → id < next) ∧ (∀ t, n.key = Key.shared t → cnt m t = 0)

theorem subs_trans : ∀ (n s s' : Node), s ∈ subs n → s' ∈ subs s → s' ∈ subs n := by
  intro n
  induction n with
  | atom b =>
    intro s s' h h'
    simp only [subs, List.mem_singleton] at h
    subst h; exact h'
  | pair id l r ihl ihr =>
    intro s s' h h'
    simp only [subs, List.mem_cons, List.mem_append] at h
    rcases h with rfl | h | h
    · exact h'
    · simp only [subs, List.mem_cons, List.mem_append]; exact .inr (.inl (ihl s s' h h'))
    · simp only [subs, List.mem_cons, List.mem_append]; exact .inr (.inr (ihr s s' h h'))

theorem Qw.children {m F next id l r} (h : Qw m F next (.pair id l r)) : Qw m F next l ∧ Qw m F next r := by
  obtain ⟨h1, h2, h3⟩ := h
  have hl : ∀ s, s ∈ subs l → s ∈ subs (Node.pair id l r) := fun s hs => by simp [subs, hs]
  have hr : ∀ s, s ∈ subs r → s ∈ subs (Node.pair id l r) := fun s hs => by simp [subs, hs]
  exact ⟨⟨h1.left, fun s hs => h2 s (hl s hs), fun s hs => h3 s (hl s hs)⟩,
    ⟨h1.right, fun s hs => h2 s (hr s hs), fun s hs => h3 s (hr s hs)⟩⟩

theorem Qw.toQo {m F next n} (h : Qw m F next n) : Qo m next n :=
  ⟨fun id hk => h.2.1 n (self_mem_subs n) id hk, fun t hk => h.2.2 n (self_mem_subs n) t hk⟩

/-- the invariant of a serializer that waits for the next addition; `A` = the tree assembled so far, with
the pending sentinel as the marker -/
structure RI (m : Bytes) (F : Nat → Tree) (next : Nat) (C : Nat → Tree) (s : FSer) (A : Tree) : Prop where
  uinv : UInv (some m) (KF F) C s.tc
  cur : CurOk s.output
  wsQ : ∀ n, n ∈ s.writeStack → Qw m F next n
  wsClean : tot m s.writeStack = 0
  opsQ : ∀ n, FReadOp.cons n ∈ s.readOpStack → Qo m next n
  opsPairs : OpsPairs s.readOpStack
  head : HeadNotConsF s.readOpStack
  stackOk : StackOk s.tc
  clean : Clean (some m) (M C s.tc)
  psim : PSim s.output.buf (opsOfF s.readOpStack) (M C s.tc)
  freshLt : ∀ id i, alGet s.tc.nodeMap (Key.fresh id) = some i → id < next
  sharedCl : ∀ t i, alGet s.tc.nodeMap (Key.shared t) = some i → cnt m t = 0
  pend : ∀ s0, alGet s.tc.nodeMap (Key.atom m) = some s0 → C s0 = Tree.atom m
  fin : finalRootF (KF F) s.readOpStack (Tree.atom m :: s.writeStack.map Node.tree) (M C s.tc) = some (Tree.pair A Tree.nil)
  cntA : cnt m A = 1

theorem ri_new (m : Bytes) (hm : m ≠ []) : RI m (fun _ => Tree.nil) 0 (fun _ => Tree.nil) (FSer.new (some m)) (Tree.atom m) where
  uinv := uinv_new (some m) _
  cur := rfl
  wsQ := by intro n hn; simp [FSer.new] at hn
  wsClean := rfl
  opsQ := by intro n hn; simp [FSer.new] at hn
  opsPairs := by intro n hn; simp [FSer.new] at hn
  head := trivial
  stackOk := by intro i hi; simp [FSer.new, TC.new] at hi
  clean := by
    intro m' hm'
    simp only [Option.some.injEq] at hm'
    subst hm'
    show cnt m Tree.nil = 0
    simp only [Tree.nil, cnt]
    rw [if_neg (fun e => hm e.symm)]
  psim := fun _ _ hc => Steps.refl hc
  freshLt := by intro id i h; simp [FSer.new, TC.new, alGet] at h
  sharedCl := by intro t i h; simp [FSer.new, TC.new, alGet] at h
  pend := by intro s0 h; simp [FSer.new, TC.new, alGet] at h
  fin := rfl
  cntA := by simp [cnt]

/-! ### the key-content function after an addition -/

/-- contents of the fresh `NodePtr`s after `node` (tree `t`) was added: the nodes of `node` have their own
contents, older ones are refined -/
def nextF (m : Bytes) (t : Tree) (shared : Bool) (next : Nat) (F : Nat → Tree) (node : Node) : Nat → Tree :=
  fun id => if shared then substAll m t (F id)
            else if next ≤ id then KFind node (Key.fresh id) else substAll m t (F id)

theorem kOk_build (m : Bytes) (t : Tree) (shared : Bool) (next : Nat) (F : Nat → Tree) :
    KOk (KF (nextF m t shared next F (buildNode shared t next).1)) (buildNode shared t next).1 := by
  unfold buildNode
  cases shared with
  | true =>
    simp only [if_true]
    intro s hs
    obtain ⟨t', rfl⟩ := subs_labelShared t s hs
    cases t' with
    | atom b => rfl
    | pair l r => simp [labelShared, Node.key, Node.tree, KF]
  | false =>
    simp only [Bool.false_eq_true, if_false]
    intro s hs
    have hk := kOk_labelFresh t next s hs
    rcases key_cases s with ⟨b, hb, hkb⟩ | ⟨id, l, r, he⟩
    · rw [hkb, hb]; rfl
    · obtain ⟨id', e1, e2, _⟩ := (labelFresh_ids t next).2 s hs id l r he
      subst e1
      have hkey : s.key = Key.fresh id' := by rw [he]; rfl
      rw [hkey] at hk ⊢
      simp only [KF, nextF, Bool.false_eq_true, if_false, if_pos e2]
      exact hk

theorem build_keys (shared : Bool) (t : Tree) (next : Nat) :
    next ≤ (buildNode shared t next).2 ∧
    ∀ s, s ∈ subs (buildNode shared t next).1 →
      (∀ id, s.key = Key.fresh id → shared = false ∧ next ≤ id ∧ id < (buildNode shared t next).2) ∧
      (∀ t', s.key = Key.shared t' → shared = true ∧ t' = s.tree) := by
  unfold buildNode
  cases shared with
  | true =>
    simp only [if_true]
    refine ⟨Nat.le_refl _, fun s hs => ?_⟩
    obtain ⟨t', rfl⟩ := subs_labelShared t s hs
    cases t' with
    | atom b =>
      refine ⟨?_, ?_⟩
      · intro id h; simp [labelShared, Node.key] at h
      · intro t' h; simp [labelShared, Node.key] at h
    | pair l r =>
      refine ⟨?_, ?_⟩
      · intro id h; simp [labelShared, Node.key] at h
      · intro t' h
        simp only [labelShared, Node.key, Key.shared.injEq] at h
        refine ⟨trivial, ?_⟩
        rw [← h]; rfl
  | false =>
    simp only [Bool.false_eq_true, if_false]
    refine ⟨(labelFresh_ids t next).1, fun s hs => ?_⟩
    rcases key_cases s with ⟨b, hb, hkb⟩ | ⟨id, l, r, he⟩
    · rw [hkb]
      refine ⟨?_, ?_⟩
      · intro id h; cases h
      · intro t' h; cases h
    · obtain ⟨id', e1, e2, e3⟩ := (labelFresh_ids t next).2 s hs id l r he
      subst e1
      have hkey : s.key = Key.fresh id' := by rw [he]; rfl
      rw [hkey]
      refine ⟨?_, ?_⟩
      · intro id h
        simp only [Key.fresh.injEq] at h
        subst h
        exact ⟨trivial, e2, e3⟩
      · intro t' h; cases h

theorem build_tree (shared : Bool) (t : Tree) (next : Nat) : (buildNode shared t next).1.tree = t :=
  (buildNode_ok shared t next).2

/-! ### helper lemmas for one addition -/

theorem tot_zero_mem (m : Bytes) : ∀ (ws : List Node), tot m ws = 0 → ∀ n, n ∈ ws → cnt m n.tree = 0 := by
  intro ws
  induction ws with
  | nil => intro _ n hn; cases hn
  | cons x r ih =>
    intro h n hn
    simp only [tot, List.map_cons, List.sum_cons] at h
    simp only [List.mem_cons] at hn
    rcases hn with rfl | hn
    · omega
    · exact ih (by simp only [tot]; omega) n hn

theorem map_sigma_clean (m : Bytes) (x : Tree) : ∀ (ws : List Node), tot m ws = 0 →
    (ws.map Node.tree).map (substAll m x) = ws.map Node.tree := by
  intro ws
  induction ws with
  | nil => intro _; rfl
  | cons n r ih =>
    intro h
    have h0 := tot_zero_mem m (n :: r) h n List.mem_cons_self
    have hr : tot m r = 0 := by simp only [tot, List.map_cons, List.sum_cons] at h ⊢; omega
    simp only [List.map_cons, substAll_clean m x _ h0, ih hr]

theorem mirror_nil_cnt (m : Bytes) (C : Nat → Tree) : ∀ (st : List Nat), cnt m (mirror C st) = 0 → cnt m Tree.nil = 0 := by
  intro st
  induction st with
  | nil => intro h; exact h
  | cons i r ih =>
    intro h
    simp only [mirror, cnt] at h
    exact ih (by omega)

/-- a clean parse stack is untouched by the refinement -/
theorem mirror_refine (m : Bytes) (x : Tree) (C C' : Nat → Tree) : ∀ (st : List Nat),
    (∀ i, i ∈ st → C' i = substAll m x (C i)) → cnt m (mirror C st) = 0 → mirror C' st = mirror C st := by
  intro st
  induction st with
  | nil => intro _ _; rfl
  | cons i r ih =>
    intro hc h
    simp only [mirror, cnt] at h
    simp only [mirror]
    rw [hc i List.mem_cons_self, substAll_clean m x _ (by omega), ih (fun j hj => hc j (List.mem_cons_of_mem _ hj)) (by omega)]

theorem Qw_transport {m : Bytes} {t : Tree} {shared : Bool} {next next' : Nat} {F : Nat → Tree} {node n : Node}
    (h : Qw m F next n) (hcl : cnt m n.tree = 0) (hle : next ≤ next') :
    Qw m (nextF m t shared next F node) next' n := by
  obtain ⟨h1, h2, h3⟩ := h
  refine ⟨?_, fun s hs id hk => Nat.lt_of_lt_of_le (h2 s hs id hk) hle, h3⟩
  intro s hs
  have hold := h1 s hs
  have hcs : cnt m s.tree = 0 := by have := subs_cnt m n s hs; omega
  cases hk : s.key with
  | atom b => rw [hk] at hold; exact hold
  | shared t' => rw [hk] at hold; exact hold
  | fresh id =>
    rw [hk] at hold
    have hlt := h2 s hs id hk
    simp only [KF] at hold ⊢
    unfold nextF
    cases shared with
    | true => simp only [if_true]; rw [hold, substAll_clean m t _ hcs]
    | false =>
      simp only [Bool.false_eq_true, if_false]
      rw [if_neg (by omega), hold, substAll_clean m t _ hcs]

theorem Qo_agree {m : Bytes} {t : Tree} {shared : Bool} {next : Nat} {F : Nat → Tree} {node n : Node}
    (hp : IsPair n) (h : Qo m next n) :
    KF (nextF m t shared next F node) n.key = substAll m t (KF F n.key) := by
  obtain ⟨h1, h2⟩ := h
  cases hk : n.key with
  | atom b =>
    cases n with
    | atom _ => cases hp
    | pair id l r => cases id <;> simp [Node.key] at hk
  | shared t' => simp only [KF]; rw [substAll_clean m t _ (h2 t' hk)]
  | fresh id =>
    have hlt := h1 id hk
    simp only [KF]
    unfold nextF
    cases shared with
    | true => simp
    | false =>
      simp only [Bool.false_eq_true, if_false]
      rw [if_neg (by omega)]

/-! ### one addition -/

/-- **one `add` in the region**: from a waiting serializer, adding a tree with at most one sentinel —
built with fresh `NodePtr`s if it has one — either completes (the decoder then holds the assembled tree,
free of sentinels) or leaves a waiting serializer again, with the assembled tree refined. -/
theorem add_step (m : Bytes) (F : Nat → Tree) (next : Nat) (C : Nat → Tree) (s : FSer) (A : Tree)
    (hri : RI m F next C s A) (shared : Bool) (t : Tree) (hc1 : cnt m t ≤ 1) (hsh : cnt m t = 1 → shared = false)
    (s' : FSer) (d : Bool) (u : FUndo) (h : s.add (buildNode shared t next).1 = .ok (s', d, u)) :
    (d = true → s'.readOpStack = [] ∧ cnt m (substAll m t A) = 0 ∧
      PSim s'.output.buf [] (Tree.pair (substAll m t A) Tree.nil)) ∧
    (d = false → ∃ F' C', RI m F' (buildNode shared t next).2 C' s' (substAll m t A)) := by
  obtain ⟨hnext, hkeys⟩ := build_keys shared t next
  have htree := build_tree shared t next
  have hkok := kOk_build m t shared next F
  generalize hnode : (buildNode shared t next).1 = node at h hkeys htree hkok
  generalize hnext' : (buildNode shared t next).2 = next' at hnext hkeys
  -- the new key-content function
  have hK'def : ∀ k, KF (nextF m t shared next F node) k = KF (nextF m t shared next F node) k := fun _ => rfl
  generalize hF' : nextF m t shared next F node = F' at hkok hK'def
  have hnf : ∀ (x : Node) (hx : Qw m F next x) (hcl : cnt m x.tree = 0), Qw m F' next' x := by
    intro x hx hcl; rw [← hF']; exact Qw_transport hx hcl hnext
  have hagreeOps : ∀ n, IsPair n → Qo m next n → KF F' n.key = substAll m t (KF F n.key) := by
    intro n hp hq; rw [← hF']; exact Qo_agree hp hq
  have hops_ne : s.readOpStack ≠ [] := by
    intro he
    have := hri.fin
    rw [he] at this
    simp [finalRootF] at this
  unfold FSer.add at h
  have hemp : s.readOpStack.isEmpty = false := by
    cases hro : s.readOpStack with
    | nil => exact absurd hro hops_ne
    | cons _ _ => rfl
  simp only [hemp, Bool.false_eq_true, if_false] at h
  cases hu : s.tc.update node with
  | error e => simp [hu] at h
  | ok tc1 =>
    simp only [hu] at h
    have hagree : ∀ k i, alGet s.tc.nodeMap k = some i → ¬ IsSK (some m) k →
        KF F' k = sigma (some m) node.tree (KF F k) := by
      intro k i hki hns
      rw [htree]
      show KF F' k = substAll m t (KF F k)
      cases k with
      | atom b =>
        have hb : b ≠ m := fun e => hns ⟨m, rfl, by rw [e]⟩
        simp [KF, substAll, hb]
      | shared t' =>
        simp only [KF]
        rw [substAll_clean m t _ (hri.sharedCl t' i hki)]
      | fresh id =>
        have hlt := hri.freshLt id i hki
        simp only [KF]
        rw [← hF']
        unfold nextF
        cases shared with
        | true => simp
        | false => simp only [Bool.false_eq_true, if_false]; rw [if_neg (by omega)]
    obtain ⟨C', i1, hsame, hst, hgrow, hfreshk, hsentNew, hsentHit⟩ :=
      update_spec hri.uinv node (KF F') hkok
        (fun m' hm' => by simp only [Option.some.injEq] at hm'; subst hm'; rw [htree]; exact hc1)
        hagree (fun m' s0 hm' hs0 => by simp only [Option.some.injEq] at hm'; subst hm'; exact hri.pend s0 hs0) hu
    rw [htree] at hsame
    have hsame' : ∀ j, j < s.tc.entries.size → C' j = substAll m t (C j) := hsame
    -- the parse stack is untouched
    have hMeq : M C' tc1 = M C s.tc := by
      unfold M
      rw [hst]
      exact mirror_refine m t C C' _ (fun i hi => hsame' i (hri.stackOk i hi)) (hri.clean m rfl)
    have hnil : cnt m Tree.nil = 0 := mirror_nil_cnt m C _ (hri.clean m rfl)
    generalize (List.map Node.size (node :: s.writeStack)).sum + 2 = fuel at h
    cases hl : fAddLoop fuel { s with tc := tc1, writeStack := node :: s.writeStack } with
    | error e => rw [hl] at h; cases h
    | ok r =>
      obtain ⟨s1, d1⟩ := r
      rw [hl] at h
      simp only [Except.ok.injEq, Prod.mk.injEq] at h
      obtain ⟨rfl, rfl, _⟩ := h
      have hwscl : ∀ n, n ∈ s.writeStack → cnt m n.tree = 0 := tot_zero_mem m _ hri.wsClean
      -- the new node
      have hqnode : Qw m F' next' node := by
        refine ⟨hkok, fun x hx id hk => ((hkeys x hx).1 id hk).2.2, ?_⟩
        intro x hx t' hk
        obtain ⟨hsh', ht'⟩ := (hkeys x hx).2 t' hk
        have hct : cnt m t = 0 := by
          cases hz : cnt m t with
          | zero => rfl
          | succ k =>
            have : cnt m t = 1 := by omega
            rw [hsh this] at hsh'; cases hsh'
        have := subs_cnt m node x hx
        rw [htree, hct] at this
        rw [ht']; omega
      have hfin' : finalRootF (KF F') s.readOpStack ((node :: s.writeStack).map Node.tree) (M C' tc1) =
          some (Tree.pair (substAll m t A) Tree.nil) := by
        have := finalRootF_sigma m t (KF F) (KF F') s.readOpStack _ _ _
          (fun n hn => hagreeOps n (hri.opsPairs n hn) (hri.opsQ n hn)) hri.fin
        simp only [List.map_cons, substAll, if_true, map_sigma_clean m t _ hri.wsClean] at this
        rw [substAll_clean m t _ (hri.clean m rfl), substAll_clean m t Tree.nil hnil] at this
        rw [hMeq, List.map_cons, htree]
        exact this
      have hpost := fAddLoop_sim (some m) (KF F') C' (Qw m F' next') (Qo m next')
        (fun id l r hq => hq.children) (fun n hq => hq.1) (fun n hq => hq.toQo) _ _ s1 d1 _ hl i1 hri.cur
        (by
          intro n hn
          simp only [List.mem_cons] at hn
          rcases hn with rfl | hn
          · exact hqnode
          · exact hnf n (hri.wsQ n hn) (hwscl n hn))
        (fun n hn => ⟨fun id hk => Nat.lt_of_lt_of_le ((hri.opsQ n hn).1 id hk) hnext, (hri.opsQ n hn).2⟩)
        hri.opsPairs hri.head
        (by intro m' hm'; simp only [Option.some.injEq] at hm'; subst hm'; show cnt m (M C' tc1) = 0; rw [hMeq]; exact hri.clean m rfl)
        (by show PSim s.output.buf (opsOfF s.readOpStack) (M C' tc1); rw [hMeq]; exact hri.psim)
        hfin'
        (by
          intro i hi
          show i < tc1.entries.size
          have : i ∈ s.tc.stack.reverse := by rw [← hst]; exact hi
          have := hri.stackOk i this
          omega)
      obtain ⟨p1, p2, p3, p4, p5, ⟨p6, p7⟩, p8, p9, p10, p11, p12⟩ := hpost
      have htot := p11 m rfl
      simp only [tot, List.map_cons, List.sum_cons, htree] at htot
      have hws0 : (s.writeStack.map (fun n => cnt m n.tree)).sum = 0 := hri.wsClean
      rw [hws0] at htot
      refine ⟨fun hd => ?_, fun hd => ?_⟩
      · subst hd
        rw [if_pos rfl] at p12
        obtain ⟨q1, _, q3⟩ := p12
        have hcl := p8 m rfl
        rw [q3] at hcl
        simp only [cnt] at hcl
        refine ⟨q1, by omega, ?_⟩
        rw [q1, q3] at p9
        exact p9
      · subst hd
        rw [if_neg (by simp)] at p12
        obtain ⟨m0, hm0, q2, q3⟩ := p12
        simp only [Option.some.injEq] at hm0
        subst hm0
        simp only [Bool.false_eq_true, if_false] at htot
        have hct1 : cnt m t = 1 := by omega
        have hshf : shared = false := hsh hct1
        have htw : tot m s1.writeStack = 0 := by simp only [tot]; omega
        refine ⟨F', C', ⟨p1, p2, p3, htw, p4, p5, q2, p6, p8, p9, ?_, ?_, ?_, q3, ?_⟩⟩
        · -- freshLt
          intro id i hreg
          rw [p10] at hreg
          rcases hfreshk (Key.fresh id) (by rw [hreg]; simp) with hh | ⟨x, hx, hkx⟩
          · cases hg : alGet s.tc.nodeMap (Key.fresh id) with
            | none => exact absurd hg hh
            | some i0 => exact Nat.lt_of_lt_of_le (hri.freshLt id i0 hg) hnext
          · exact ((hkeys x hx).1 id hkx).2.2
        · -- sharedCl
          intro t' i hreg
          rw [p10] at hreg
          rcases hfreshk (Key.shared t') (by rw [hreg]; simp) with hh | ⟨x, hx, hkx⟩
          · cases hg : alGet s.tc.nodeMap (Key.shared t') with
            | none => exact absurd hg hh
            | some i0 => exact hri.sharedCl t' i0 hg
          · have := ((hkeys x hx).2 t' hkx).1
            rw [hshf] at this; cases this
        · -- pend
          intro s0 hs0
          rw [p10] at hs0
          obtain ⟨j, hj, hcj⟩ := hsentHit m rfl (by rw [htree]; exact hct1) (by
            intro x hx hp hcx
            cases x with
            | atom _ => cases hp
            | pair id l r =>
              cases id with
              | none =>
                have := ((hkeys _ hx).2 _ rfl).1
                rw [hshf] at this; cases this
              | some id0 =>
                have hge := ((hkeys _ hx).1 id0 rfl).2.1
                cases hg : alGet s.tc.nodeMap (Node.pair (some id0) l r).key with
                | none => rfl
                | some i0 =>
                  have := hri.freshLt id0 i0 hg
                  omega)
          rw [hj] at hs0
          simp only [Option.some.injEq] at hs0
          subst hs0
          exact hcj
        · -- cntA
          rw [cnt_substAll, hri.cntA, hct1]

/-! ### histories -/

/-- **the region of this theorem** (decidable on the request): the sentinel is not the empty atom, the
history consists of additions only (no `restore`), every addition contains the sentinel at most once, and
an addition that contains it is built with `NodePtr`s of its own (`add:`; `adds:` — nodes shared by content
— only for sentinel-free additions).  It is contained in `DefectFree` (`defectFreeFresh_sub`). -/
def DefectFreeFresh (m : Bytes) (adds : List (Bool × Tree)) : Bool :=
  m != [] && adds.all (fun a => decide (cnt m a.2 ≤ 1) && (decide (cnt m a.2 ≠ 1) || !a.1))

/-- `A` is the tree assembled from `ts`, or the bare sentinel when nothing was added yet -/
def AsmRel (m : Bytes) : List Tree → Tree → Prop
  | [], A => A = Tree.atom m
  | t0 :: r, A => assembleFrom (some m) t0 r = some A

theorem asmRel_snoc {m : Bytes} {ts : List Tree} {A : Tree} (h : AsmRel m ts A) (hc : cnt m A = 1) (t : Tree) :
    AsmRel m (ts ++ [t]) (substAll m t A) := by
  cases ts with
  | nil =>
    simp only [AsmRel] at h
    subst h
    simp [AsmRel, assembleFrom, substAll]
  | cons t0 r =>
    simp only [AsmRel] at h
    show assembleFrom (some m) t0 (r ++ [t]) = _
    rw [Clvm.Incremental.assembleFrom_snoc, h]
    exact substFirst_of_one m t A hc

theorem run_region (m : Bytes) : ∀ (rest : List (Bool × Tree)) (s : FSer) (next : Nat) (F : Nat → Tree) (C : Nat → Tree)
    (A : Tree) (ts : List Tree) (sf : FSer),
    RI m F next C s A → AsmRel m ts A →
    (∀ a, a ∈ rest → cnt m a.2 ≤ 1 ∧ (cnt m a.2 = 1 → a.1 = false)) →
    fRunAdds s next false rest = .ok (sf, true) →
    ∃ Af, AsmRel m (ts ++ rest.map (·.2)) Af ∧ (ts ++ rest.map (·.2)) ≠ [] ∧ cnt m Af = 0 ∧
      PSim sf.output.buf [] (Tree.pair Af Tree.nil) := by
  intro rest
  induction rest with
  | nil =>
    intro s next F C A ts sf _ _ _ h
    simp [fRunAdds] at h
  | cons a rest ih =>
    intro s next F C A ts sf hri hasm hreg h
    obtain ⟨shared, t⟩ := a
    simp only [fRunAdds] at h
    cases ha : s.add (buildNode shared t next).1 with
    | error e => simp [ha] at h
    | ok r =>
      obtain ⟨s', d, u⟩ := r
      simp only [ha] at h
      obtain ⟨hc1, hsh⟩ := hreg (shared, t) List.mem_cons_self
      obtain ⟨hd1, hd0⟩ := add_step m F next C s A hri shared t hc1 hsh s' d u ha
      have hasm' := asmRel_snoc hasm hri.cntA t
      cases d with
      | true =>
        obtain ⟨q1, q2, q3⟩ := hd1 rfl
        cases rest with
        | nil =>
          simp only [fRunAdds, Except.ok.injEq, Prod.mk.injEq] at h
          obtain ⟨rfl, _⟩ := h
          exact ⟨_, by simpa using hasm', by simp, q2, q3⟩
        | cons b rest2 =>
          obtain ⟨sh2, t2⟩ := b
          simp only [fRunAdds] at h
          have : s'.add (buildNode sh2 t2 (buildNode shared t next).2).1 =
              .error (.Panic "assertion failed: !self.read_op_stack.is_empty()") := by
            unfold FSer.add
            simp [q1]
          rw [this] at h
          cases h
      | false =>
        obtain ⟨F', C', hri'⟩ := hd0 rfl
        obtain ⟨Af, r1, r2, r3, r4⟩ := ih s' _ F' C' _ (ts ++ [t]) sf hri' hasm'
          (fun a ha => hreg a (List.mem_cons_of_mem _ ha)) h
        refine ⟨Af, ?_, ?_, r3, r4⟩
        · simpa [List.append_assoc] using r1
        · simpa [List.append_assoc] using r2

/-- **`Statement` for the faithful model on the region `DefectFreeFresh`, unconditionally.** -/
theorem faithful_statement_fresh_region (m : Bytes) (adds : List (Bool × Tree)) (hreg : DefectFreeFresh m adds = true) :
    FaithfulDecodes (some m) adds := by
  intro s h
  unfold DefectFreeFresh at hreg
  simp only [Bool.and_eq_true, bne_iff_ne, ne_eq, List.all_eq_true, decide_eq_true_eq, Bool.or_eq_true,
    Bool.not_eq_true'] at hreg
  obtain ⟨hm, hall⟩ := hreg
  obtain ⟨Af, r1, r2, r3, r4⟩ := run_region m adds _ 0 _ _ _ [] s (ri_new m hm) rfl (by
    intro a ha
    obtain ⟨h1, h2⟩ := hall a ha
    refine ⟨h1, fun h3 => ?_⟩
    rcases h2 with h2 | h2
    · exact absurd h3 h2
    · exact h2) h
  simp only [List.nil_append] at r1 r2
  have hasm : assemble (some m) (adds.map (·.2)) = some Af := by
    cases hl : adds.map (·.2) with
    | nil => exact absurd hl r2
    | cons t0 r => rw [hl] at r1; exact r1
  refine ⟨Af, hasm, noSentinel_of_cnt m Af r3, fun rest c hc => ?_⟩
  have hold : (∃ e, deBrOld (s.output.buf ++ rest) [.sexp] Tree.nil c = .error e ∧ limitErr e) ∨
      ∃ c', deBrOld (s.output.buf ++ rest) [.sexp] Tree.nil c = .ok (Af, rest, c') := by
    rcases r4 rest c hc with ⟨e, he, hle⟩ | ⟨c', _, he⟩
    · exact .inl ⟨e, he, hle⟩
    · exact .inr ⟨c', by rw [he]; exact Clvm.Incremental.deBrOld_done Af rest c'⟩
  exact ⟨hold, Clvm.Incremental.new_of_old _ c hc Af rest hold⟩

/-! ### the region is part of `DefectFree` -/

theorem cnt_eq_countMarker (m : Bytes) : ∀ (t : Tree), Clvm.Proto.countMarker m t = cnt m t := by
  intro t
  induction t with
  | atom b => rfl
  | pair l r ihl ihr => simp [Clvm.Proto.countMarker, cnt, ihl, ihr]

theorem holedPairs_clean (m : Bytes) : ∀ (t : Tree) (acc : List Tree), cnt m t = 0 →
    Clvm.Proto.holedPairs m t acc = (false, acc) := by
  intro t
  induction t with
  | atom b =>
    intro acc h
    simp only [cnt] at h
    split at h
    · cases h
    · rename_i hb; simp [Clvm.Proto.holedPairs, hb]
  | pair l r ihl ihr =>
    intro acc h
    simp only [cnt] at h
    simp [Clvm.Proto.holedPairs, ihl acc (by omega), ihr acc (by omega)]

theorem defectFreeFresh_sub (m : Bytes) (adds : List (Bool × Tree)) (h : DefectFreeFresh m adds = true) :
    DefectFree (some m) adds = true := by
  unfold DefectFreeFresh at h
  simp only [Bool.and_eq_true, bne_iff_ne, ne_eq, List.all_eq_true, decide_eq_true_eq, Bool.or_eq_true,
    Bool.not_eq_true'] at h
  obtain ⟨_, hall⟩ := h
  unfold DefectFree
  simp only [Bool.and_eq_true, List.all_eq_true, decide_eq_true_eq, Bool.not_eq_true']
  refine ⟨fun a ha => by rw [cnt_eq_countMarker]; exact (hall a ha).1, ?_⟩
  have hfold : ∀ (l : List (Bool × Tree)), (∀ a, a ∈ l → a ∈ adds) →
      l.foldl (fun acc a => if a.1 then (Clvm.Proto.holedPairs m a.2 acc).2 else acc) [] = [] := by
    intro l
    induction l with
    | nil => intro _; rfl
    | cons a r ih =>
      intro hsub
      simp only [List.foldl_cons]
      have ha := hall a (hsub a List.mem_cons_self)
      have hstep : (if a.1 = true then (Clvm.Proto.holedPairs m a.2 []).2 else []) = [] := by
        cases hsh : a.1 with
        | false => simp
        | true =>
          simp only [if_true]
          have hc0 : cnt m a.2 = 0 := by
            rcases ha.2 with h2 | h2
            · have := ha.1; omega
            · rw [hsh] at h2; cases h2
          rw [holedPairs_clean m a.2 [] hc0]
      rw [hstep]
      exact ih (fun b hb => hsub b (List.mem_cons_of_mem _ hb))
  rw [hfold adds (fun a ha => ha)]
  rfl

end Clvm.TreeCacheProofs
