/-
C19, faithful model: histories of several additions with a sentinel, part 1 — substitution lemmas: the
pending-stack semantics commutes with filling the sentinel (`finalRootF_sigma`); with one sentinel
pending, filling the *first* sentinel (`assemble`) is filling *the* sentinel (`substFirst_of_one`).
-/
import ClvmProofs.Lemmas.TreeCacheLabel

namespace Clvm.TreeCacheProofs
open Clvm Clvm.Serde Clvm.Serde.Backref Clvm.Serde.TreeCache Clvm.Backref
open Clvm.Serde.Incremental (substFirst assembleFrom assemble noSentinel)

theorem cnt_substAll (m : Bytes) (x : Tree) : ∀ (t : Tree), cnt m (substAll m x t) = cnt m t * cnt m x := by
  intro t
  induction t with
  | atom b =>
    simp only [substAll, cnt]
    split <;> simp [cnt, *]
  | pair l r ihl ihr =>
    simp only [substAll, cnt, ihl, ihr, Nat.add_mul]

theorem substFirst_clean (m : Bytes) (x : Tree) : ∀ (t : Tree), cnt m t = 0 → substFirst m x t = none := by
  intro t
  induction t with
  | atom b =>
    intro h
    simp only [cnt] at h
    split at h
    · cases h
    · rename_i hb; simp [substFirst, hb]
  | pair l r ihl ihr =>
    intro h
    simp only [cnt] at h
    simp [substFirst, ihl (by omega), ihr (by omega)]

/-- with exactly one sentinel, replacing the first one replaces all -/
theorem substFirst_of_one (m : Bytes) (x : Tree) : ∀ (t : Tree), cnt m t = 1 →
    substFirst m x t = some (substAll m x t) := by
  intro t
  induction t with
  | atom b =>
    intro h
    simp only [cnt] at h
    split at h
    · rename_i hb; simp [substFirst, substAll, hb]
    · cases h
  | pair l r ihl ihr =>
    intro h
    simp only [cnt] at h
    by_cases hl : cnt m l = 1
    · have hr : cnt m r = 0 := by omega
      simp [substFirst, substAll, ihl hl, substAll_clean m x r hr]
    · have hl0 : cnt m l = 0 := by omega
      have hr : cnt m r = 1 := by omega
      simp [substFirst, substAll, substFirst_clean m x l hl0, ihr hr, substAll_clean m x l hl0]

theorem noSentinel_of_cnt (m : Bytes) : ∀ (t : Tree), cnt m t = 0 → noSentinel (some m) t = true := by
  intro t
  induction t with
  | atom b =>
    intro h
    simp only [cnt] at h
    split at h
    · cases h
    · rename_i hb
      simp only [noSentinel, Bool.not_eq_true', beq_eq_false_iff_ne, ne_eq, Option.some.injEq]
      exact fun e => hb e.symm
  | pair l r ihl ihr =>
    intro h
    simp only [cnt] at h
    simp [noSentinel, ihl (by omega), ihr (by omega)]

/-- the pending-stack semantics commutes with filling the sentinel -/
theorem finalRootF_sigma (m : Bytes) (x : Tree) (K K' : Key → Tree) : ∀ (ops : List FReadOp) (ws : List Tree) (V R : Tree),
    (∀ n, FReadOp.cons n ∈ ops → K' n.key = substAll m x (K n.key)) → finalRootF K ops ws V = some R →
    finalRootF K' ops (ws.map (substAll m x)) (substAll m x V) = some (substAll m x R) := by
  intro ops
  induction ops with
  | nil =>
    intro ws V R _ h
    cases ws with
    | nil => simp only [finalRootF, Option.some.injEq] at h; subst h; rfl
    | cons _ _ => simp [finalRootF] at h
  | cons op ops ih =>
    intro ws V R hk h
    cases op with
    | parse =>
      cases ws with
      | nil => simp [finalRootF] at h
      | cons t ws' =>
        simp only [finalRootF, List.map_cons] at h ⊢
        exact ih ws' _ R (fun n hn => hk n (List.mem_cons_of_mem _ hn)) h
    | cons n =>
      cases V with
      | atom b => simp [finalRootF] at h
      | pair r rest1 =>
        cases rest1 with
        | atom b => simp [finalRootF] at h
        | pair l rest =>
          simp only [finalRootF] at h
          split at h
          · rename_i hchk
            have hk' : K' n.key = substAll m x (K n.key) := hk n List.mem_cons_self
            have : finalRootF K' (.cons n :: ops) (ws.map (substAll m x)) (substAll m x (Tree.pair r (Tree.pair l rest))) =
                finalRootF K' ops (ws.map (substAll m x)) (substAll m x (Tree.pair (Tree.pair l r) rest)) := by
              simp only [substAll, finalRootF]
              rw [if_pos (by rw [hk', ← hchk]; rfl)]
            rw [this]
            exact ih ws _ R (fun n' hn => hk n' (List.mem_cons_of_mem _ hn)) h
          · cases h

end Clvm.TreeCacheProofs
