import ClvmProofs.Lemmas.RefSim

/-!
# C01 — domain restrictions only ever end a run with `outOfDomain`

`Adapter.guardsOf` and `Adapter.restrictCalls` restrict the *domain* of the machine-level theorem.  This
file shows that they do nothing else: a run of the reference under the restricted adapters is the run
under the unrestricted ones, or it ends in `RefErr.outOfDomain`.  So a run of `coreAd` that does not
end in `outOfDomain` *is* the run of `adaptedRun true` (the adapters of the REF stream).
-/

namespace Clvm.Ref
open Clvm Clvm.Interp

/-- `ad'` is `ad` with a smaller domain: same machine, but an operator call or the entry into a guard
may end the run with `outOfDomain` -/
structure Narrows (ad' ad : Adapters) : Prop where
  sf : ad'.softfork = ad.softfork
  sl : ad'.stackLimit = ad.stackLimit
  ll : ad'.lenientLists = ad.lenientLists
  ni : ad'.noInnerForm = ad.noInnerForm
  ns : ad'.noSoftfork = ad.noSoftfork
  lk : ∀ g f ob t, ad'.lookup g f ob t = ad.lookup g f ob t ∨ ad'.lookup g f ob t = .error .outOfDomain
  gd : ∀ ext, ad.guardDomain ext = true

variable {ad' ad : Adapters}

theorem Narrows.push (h : Narrows ad' ad) (st : St) (v : Tree) : St.push ad' st v = St.push ad st v := by
  unfold St.push; rw [h.sl]

theorem Narrows.pushOperands (h : Narrows ad' ad) (env : Tree) (t : Tree) (st : St) :
    Ref.pushOperands ad' env t st = Ref.pushOperands ad env t st := by
  induction t generalizing st with
  | atom b => rfl
  | pair a b _ ihb =>
    simp only [Ref.pushOperands, h.push]
    cases St.push ad st (.pair a env) with
    | error e => rfl
    | ok s => exact ihb _

theorem Narrows.evalOp (h : Narrows ad' ad) (st : St) : Ref.evalOp ad' st = Ref.evalOp ad st := by
  unfold Ref.evalOp
  simp only [h.push, h.pushOperands, h.ni, h.ll]

theorem Narrows.softforkApply (h : Narrows ad' ad) (cfg : SoftforkCfg) (st : St) (t : Tree) (c : Nat) (r : Option Nat) :
    Ref.softforkApply ad' cfg st t c r = Ref.softforkApply ad cfg st t c r ∨
    Ref.softforkApply ad' cfg st t c r = .error .outOfDomain := by
  unfold Ref.softforkApply
  cases softforkCost t r with
  | error e => exact Or.inl rfl
  | ok expected =>
    simp only
    cases softforkGuarded cfg t with
    | none => simp only [h.push]; exact Or.inl trivial
    | some x =>
      obtain ⟨ext, prog, env⟩ := x
      simp only [h.gd, Bool.not_true, Bool.false_eq_true, if_false, h.evalOp]
      cases ad'.guardDomain ext with
      | true => exact Or.inl rfl
      | false => exact Or.inr rfl

theorem Narrows.applyOp (h : Narrows ad' ad) (st : St) (c : Nat) (r : Option Nat) :
    Ref.applyOp ad' st c r = Ref.applyOp ad st c r ∨ Ref.applyOp ad' st c r = .error .outOfDomain := by
  unfold Ref.applyOp
  cases st.valueStack with
  | nil => exact Or.inl rfl
  | cons operandList vs =>
    cases vs with
    | nil => exact Or.inl rfl
    | cons operator vs =>
      simp only
      cases operator with
      | pair _ _ => exact Or.inl rfl
      | atom op =>
        simp only [h.push, h.ns, h.sf, h.ll]
        by_cases h2 : (op.map UInt8.toNat == [0x02]) = true
        · simp only [h2, if_true]; exact Or.inl trivial
        · simp only [h2, Bool.false_eq_true, if_false]
          by_cases h3 : (ad.noSoftfork && op.map UInt8.toNat == [0x24]) = true
          · simp only [h3, if_true]; exact Or.inl trivial
          · simp only [h3, Bool.false_eq_true, if_false]
            cases hsf : ad.softfork with
            | some cfg =>
              cases h36 : (op.map UInt8.toNat == [0x24]) with
              | true => exact h.softforkApply cfg _ _ _ _
              | false =>
                simp only
                rcases h.lk (st.guards.head?.map Guard.extension) operatorLookup op
                  (if ad.lenientLists = true then truncateList operandList else operandList) with hl | hl
                · rw [hl]; exact Or.inl rfl
                · rw [hl]; exact Or.inr rfl
            | none =>
              simp only
              rcases h.lk (st.guards.head?.map Guard.extension) operatorLookup op
                (if ad.lenientLists = true then truncateList operandList else operandList) with hl | hl
              · rw [hl]; exact Or.inl rfl
              · rw [hl]; exact Or.inr rfl

/-- the main loop under the narrower adapters: the same run, or `outOfDomain` -/
theorem Narrows.runLoop (h : Narrows ad' ad) (mc : Option Nat) (fuel : Nat) (st : St) (cost : Nat) :
    Ref.runLoop ad' mc fuel st cost = Ref.runLoop ad mc fuel st cost ∨
    Ref.runLoop ad' mc fuel st cost = some (.error .outOfDomain) := by
  induction fuel generalizing st cost with
  | zero => exact Or.inl rfl
  | succ n ih =>
    unfold Ref.runLoop
    cases hops : st.opStack with
    | nil => exact Or.inl rfl
    | cons f ops =>
      simp only
      cases f with
      | eval =>
        simp only [h.evalOp]
        cases Ref.evalOp ad _ with
        | error e => exact Or.inl rfl
        | ok r =>
          obtain ⟨c, s⟩ := r
          simp only
          cases effectiveMax s mc with
          | none => exact ih _ _
          | some m => simp only; split; exact Or.inl rfl; exact ih _ _
      | apply =>
        simp only
        rcases h.applyOp { st with opStack := ops } cost
          ((effectiveMax { st with opStack := ops } mc).map (· - cost)) with ha | ha
        · rw [ha]
          cases Ref.applyOp ad _ _ _ with
          | error e => exact Or.inl rfl
          | ok r =>
            obtain ⟨c, s⟩ := r
            simp only
            cases effectiveMax s mc with
            | none => exact ih _ _
            | some m => simp only; split; exact Or.inl rfl; exact ih _ _
        · rw [ha]; exact Or.inr rfl
      | cons =>
        simp only
        cases Ref.consOp _ with
        | error e => exact Or.inl rfl
        | ok r =>
          obtain ⟨c, s⟩ := r
          simp only
          cases effectiveMax s mc with
          | none => exact ih _ _
          | some m => simp only; split; exact Or.inl rfl; exact ih _ _
      | swap =>
        simp only
        cases Ref.swapOp _ with
        | error e => exact Or.inl rfl
        | ok r =>
          obtain ⟨c, s⟩ := r
          simp only
          cases effectiveMax s mc with
          | none => exact ih _ _
          | some m => simp only; split; exact Or.inl rfl; exact ih _ _
      | exitGuard =>
        simp only
        cases Ref.exitGuardOp _ _ with
        | error e => exact Or.inl rfl
        | ok r =>
          obtain ⟨c, s⟩ := r
          simp only
          cases effectiveMax s mc with
          | none => exact ih _ _
          | some m => simp only; split; exact Or.inl rfl; exact ih _ _

theorem Narrows.runWith (h : Narrows ad' ad) (fuel : Nat) (prog env : Tree) (mc : Option Nat) :
    Ref.runWith ad' fuel prog env mc = Ref.runWith ad fuel prog env mc ∨
    Ref.runWith ad' fuel prog env mc = some (.error .outOfDomain) :=
  h.runLoop _ _ _ _

/-- `coreAd` is the REF stream's adapter set (lenient reading) with a smaller domain -/
theorem coreAd_narrows : Narrows coreAd (Proto.c01Adapters true) where
  sf := rfl
  sl := rfl
  ll := rfl
  ni := rfl
  ns := rfl
  lk := by
    intro g f ob t
    show (if exclCall ob t = true then _ else _) = _ ∨ (if exclCall ob t = true then _ else _) = _
    by_cases hex : exclCall ob t = true
    · rw [if_pos hex]; exact Or.inr rfl
    · rw [if_neg hex]; exact Or.inl rfl
  gd := fun _ => rfl

/-- **the bridge**: a run inside the domain of `coreAd` is the run of the REF stream's reference -/
theorem coreAd_bridge (fuel : Nat) (prog env : Tree) (budget : Nat)
    (hdom : Ref.runWith coreAd fuel prog env (Adapter.u64Budget budget) ≠ some (.error .outOfDomain)) :
    Ref.runWith coreAd fuel prog env (Adapter.u64Budget budget) = adaptedRun true fuel prog env budget := by
  rcases coreAd_narrows.runWith fuel prog env (Adapter.u64Budget budget) with h | h
  · exact h
  · exact absurd h hdom

end Clvm.Ref
