/-
C01, layer 3: simulation between the reference's op-stack machine (`Ref.runLoop`, adapters of the
core fragment) and the implementation model's (`Interp.runLoop`, default flags).

Both machines keep a stack of pending operations and a stack of values; the reference keeps the
environment of a pending operand inside the value (`(operand . env)`), the model on a separate
environment stack.  Between iterations the two are described by the same *continuation* — a list
of call frames (operands still to be evaluated, environment, operator, argument list built so
far) — in one of two positions: a value has just been produced (`RetRel`) or an argument list has
just been extended (`ArgsRel`).  One iteration of the model (`SwapEval`, `Cons`, `Apply`)
corresponds to one or two of the reference (`swap; eval`, `cons`, `apply [; eval]`).

Softfork guards are part of the continuation: a guard frame (`KE.guard`: declared total, saved
allocator state) stands for `ExitGuard` / `exit_guard` on the op stacks and one entry of the guard
stacks (`sfM` / `gR`); the budget in force on both sides is the innermost guard's declared total
(`eff`).  Entering a guard is one step on both sides (`softfork_agree`); inside a guard with extension
0 both dispatch tables are the ones outside a guard (`guard_ctx`, `lookup_guard0`, `dial_op_bls`).
-/
import ClvmProofs.Lemmas.RefMachine
import ClvmProofs.Lemmas.RefLoops
import ClvmProofs.Lemmas.RefBits
import ClvmProofs.Lemmas.RefUnknown
import ClvmProofs.Lemmas.RefTerm
import ClvmProofs.Lemmas.Interp.MachineStepWf
import ClvmProofs.Lemmas.Interp.LiftCore

namespace Clvm.Ref
open Clvm Clvm.Interp Clvm.Alloc

/-- all consensus adapters with the lenient reading of operand lists; softfork guards are inside for
extension 0, a guard with another known extension is outside the domain (`Adapter.guardsOf`) -/
def coreAd0 : Adapters := Adapter.guardsOf (fun ext => ext == 0) (Proto.c01Adapters true)

/-- opcodes of the classic operators whose per-operator agreement (`ref_op_eq_*`) is proved -/
def provedOps : List Nat := [3, 4, 5, 6, 7, 8, 9, 10, 11, 12, 13, 14, 16, 17, 18, 19, 20, 21, 22, 23, 24, 25, 26, 27, 32, 33, 34]

/-- the operator atom is the opcode of a classic operator with its own `op_` function -/
def knownKey (ob : Bytes) : Bool := provedOps.any (fun k => ob == [UInt8.ofNat k])

/-- the region of finding B: an unknown operator whose cost product `base · (multiplier + 1)` —
computed the reference's way — reaches `2^64` (there the pre-hard-fork `op_unknown` wraps) -/
def wraps (ob : Bytes) (t : Tree) : Bool :=
  match unknownBaseCost (unknownCostFunction ob) t with
  | .ok cost => decide (cost * unknownCostMultiplier ob ≥ 2 ^ 64)
  | .error _ => false

/-- calls that end the comparison: an unknown operator inside the region of finding B -/
def exclCall (ob : Bytes) (t : Tree) : Bool := !knownKey ob && wraps ob t

/-- the adapters of the machine-level theorem: guards of extension 0 inside, finding-B region excluded -/
def coreAd : Adapters := Adapter.restrictCalls exclCall coreAd0

/-- `ChiaDialect::new(ClvmFlags::empty())` -/
def dial : Dialect := chiaDialect {} Proto.noExtra 0

/-- a call in progress -/
structure Frame where
  /-- operands not yet evaluated, next one first -/
  pending : List Val
  env : Val
  operator : Val
  /-- the argument list built so far -/
  acc : Val

def Frame.Ok (f : Frame) : Prop :=
  (∀ x ∈ f.pending, x.wf = true) ∧ f.env.wf = true ∧ f.operator.wf = true ∧ f.acc.wf = true ∧
  ∃ ob oi, f.operator = .atom ob oi

/-- `[swap, eval, cons]` once per pending operand -/
def sec : Nat → List Op
  | 0 => []
  | n + 1 => .swap :: .eval :: .cons :: sec n

/-- the stacks below the position "the arguments of `f` are being collected" -/
def argsOpsM (f : Frame) (below : List Operation) : List Operation :=
  List.replicate f.pending.length .SwapEval ++ .Apply :: below
def argsValsM (f : Frame) (below : List Val) : List Val := f.pending ++ f.operator :: below
def argsOpsR (f : Frame) (below : List Op) : List Op := sec f.pending.length ++ .apply :: below
def argsValsR (f : Frame) (below : List Tree) : List Tree :=
  f.pending.map (fun a => .pair a.erase f.env.erase) ++ f.operator.erase :: below

/-- an element of the continuation: a call in progress, or a softfork guard in progress (the total
cost the run must have when the guard is left, and the allocator counters saved by the model) -/
inductive KE where
  | call (f : Frame)
  | guard (expected : Nat) (saved : Ctr)

def KE.Ok : KE → Prop
  | .call f => f.Ok
  | .guard e _ => e < 2 ^ 64

def opsM : List KE → List Operation
  | [] => []
  | .call f :: K => .Cons :: argsOpsM f (opsM K)
  | .guard _ _ :: K => .ExitGuard :: opsM K
def valsM : List KE → List Val
  | [] => []
  | .call f :: K => f.acc :: argsValsM f (valsM K)
  | .guard _ _ :: K => valsM K
def envsM : List KE → List Val
  | [] => []
  | .call f :: K => f.env :: envsM K
  | .guard _ _ :: K => envsM K
def opsR : List KE → List Op
  | [] => []
  | .call f :: K => .cons :: argsOpsR f (opsR K)
  | .guard _ _ :: K => .exitGuard :: opsR K
def valsR : List KE → List Tree
  | [] => []
  | .call f :: K => f.acc.erase :: argsValsR f (valsR K)
  | .guard _ _ :: K => valsR K
/-- the model's softfork stack (default flags: extension 0 is the operator set `Bls`) -/
def sfM : List KE → List SoftforkGuard
  | [] => []
  | .call _ :: K => sfM K
  | .guard e c :: K => { expectedCost := e, allocatorState := c, operatorSet := .Bls } :: sfM K
/-- the reference's guard stack -/
def gR : List KE → List Guard
  | [] => []
  | .call _ :: K => gR K
  | .guard e _ :: K => { expectedCost := e, extension := 0 } :: gR K

/-- the budget in force: the declared total of the innermost guard, else `B` -/
def eff (B : Nat) : List KE → Nat
  | [] => B
  | .call _ :: K => eff B K
  | .guard e _ :: _ => e

theorem eff_lt {B : Nat} (hB : B < 2 ^ 64) {K : List KE} (hK : ∀ e ∈ K, e.Ok) : eff B K < 2 ^ 64 := by
  induction K with
  | nil => exact hB
  | cons e K ih =>
    cases e with
    | call f => exact ih (fun x hx => hK x (List.mem_cons_of_mem _ hx))
    | guard e c => exact hK (.guard e c) (List.mem_cons_self)

/-- the innermost guard, as each machine reads it: none on both sides, or extension 0 / the BLS set -/
theorem guard_ctx (K : List KE) (sm : MState) (h : sm.softforkStack = sfM K) :
    (((gR K).head?.map Guard.extension = none) ∧ curExt sm = .Default) ∨
    (((gR K).head?.map Guard.extension = some 0) ∧ curExt sm = .Bls) := by
  induction K with
  | nil => exact Or.inl ⟨rfl, by unfold curExt; rw [h]; rfl⟩
  | cons e K ih =>
    cases e with
    | call f => exact ih h
    | guard e c => exact Or.inr ⟨rfl, by unfold curExt; rw [h]; rfl⟩

theorem sfM_head (B : Nat) (K : List KE) :
    (match sfM K with | sf :: _ => sf.expectedCost | [] => B) = eff B K := by
  induction K with
  | nil => rfl
  | cons x K ih =>
    cases x with
    | call f => simpa [sfM, eff] using ih
    | guard e c => rfl

theorem gR_head (B : Nat) (K : List KE) :
    (match gR K with | g :: _ => some g.expectedCost | [] => some B) = some (eff B K) := by
  induction K with
  | nil => rfl
  | cons x K ih =>
    cases x with
    | call f => simpa [gR, eff] using ih
    | guard e c => rfl

theorem effMax_of {B : Nat} {K : List KE} {sm : MState} (h : sm.softforkStack = sfM K) : effMax B sm = eff B K := by
  unfold effMax; rw [h]; exact sfM_head B K

theorem effectiveMax_of {B : Nat} {K : List KE} {sr : St} (h : sr.guards = gR K) :
    effectiveMax sr (some B) = some (eff B K) := by
  unfold effectiveMax; rw [h]; exact gR_head B K

theorem effectiveMax_gR (B : Nat) (K : List KE) (o : List Op) (v : List Tree) (d : Nat) :
    effectiveMax ⟨o, v, gR K, d⟩ (some B) = some (eff B K) := effectiveMax_of rfl

/-- a value `v` has just been pushed; the continuation is `K` -/
structure RetRel (K : List KE) (v : Val) (sr : St) (sm : MState) : Prop where
  ro : sr.opStack = opsR K
  rv : sr.valueStack = v.erase :: valsR K
  rg : sr.guards = gR K
  mo : sm.opStack = opsM K
  mv : sm.valStack = v :: valsM K
  me : sm.envStack = envsM K
  ms : sm.softforkStack = sfM K
  wf : v.wf = true
  ok : ∀ e ∈ K, e.Ok

/-- the argument list of `f` has just been extended (or started); the continuation of the call is `K` -/
structure ArgsRel (f : Frame) (K : List KE) (sr : St) (sm : MState) : Prop where
  ro : sr.opStack = argsOpsR f (opsR K)
  rv : sr.valueStack = f.acc.erase :: argsValsR f (valsR K)
  rg : sr.guards = gR K
  mo : sm.opStack = argsOpsM f (opsM K)
  mv : sm.valStack = f.acc :: argsValsM f (valsM K)
  me : sm.envStack = f.env :: envsM K
  ms : sm.softforkStack = sfM K
  fok : f.Ok
  ok : ∀ e ∈ K, e.Ok

/-- outcomes of the reference that end the comparison -/
def BadR (e : RefErr) : Prop := e = .outOfDomain ∨ e = .stack
/-- outcomes of the model that end the comparison: an allocator limit, a stack limit, an operator the
model does not implement -/
def BadM : Stop → Prop
  | .unsupported => True
  | .err e => isLimit e = true ∨ e = .ValueStackLimitReached ∨ e = .EnvironmentStackLimitReached

/-- agreement of one (macro) step started at accumulated cost `cost` under budget `B` -/
def StepAgree (cost B : Nat) (Next : St → MState → Prop)
    (rr : Except RefErr (Nat × St)) (mr : M (Nat × MState)) : Prop :=
  match rr, mr with
  | .ok (c, sr), .ok (c', sm) => c = c' ∧ Next sr sm
  | .error _, .error _ => True
  | .error e, .ok _ => BadR e
  | .ok (c, sr), .error e' =>
    BadM e' ∨ (e' = .err .CostExceeded ∧ ∃ m, effectiveMax sr (some B) = some m ∧ cost + c > m)

theorem StepAgree.stack {cost B : Nat} {Next : St → MState → Prop} (mr : M (Nat × MState)) :
    StepAgree cost B Next (.error .stack) mr := by
  cases mr with
  | error _ => trivial
  | ok _ => exact Or.inr rfl

/-! ### primitives -/

theorem push_cases (s : MState) (v : Val) :
    s.push v = .error (.err .ValueStackLimitReached) ∨
    s.push v = .ok { s with valStack := v :: s.valStack, valLen := s.valLen + 1 } := by
  unfold MState.push; split <;> simp

theorem pushEnv_cases (s : MState) (v : Val) :
    s.pushEnv v = .error (.err .EnvironmentStackLimitReached) ∨
    s.pushEnv v = .ok { s with envStack := v :: s.envStack, envLen := s.envLen + 1 } := by
  unfold MState.pushEnv; split <;> simp

theorem rpush_cases (ad : Adapters) (st : St) (v : Tree) :
    st.push ad v = .error .stack ∨
    st.push ad v = .ok { st with valueStack := v :: st.valueStack, depth := st.depth + 1 } := by
  unfold St.push
  cases ad.stackLimit with
  | none => exact Or.inr rfl
  | some lim => simp only; split <;> simp

theorem coreAd_noSoftfork : coreAd.noSoftfork = false := rfl
/-- the guard configuration of the adapter: `GUARD_COST` and the dialect's known extensions -/
def cfg0 : SoftforkCfg := Adapter.softforkGuard Gen.GUARD_COST Proto.knownExtension
theorem coreAd_softfork : coreAd.softfork = some cfg0 := rfl
theorem coreAd_guardDomain (ext : Nat) : coreAd.guardDomain ext = (ext == 0) := rfl
theorem coreAd_noInner : coreAd.noInnerForm = false := rfl
theorem coreAd_lenient : coreAd.lenientLists = true := rfl

theorem gc_false (o : Val) : dial.gcCandidate o = false := by
  simp [dial, chiaDialect, hasFlag]

/-! ### keywords -/

theorem fits_kw {ob : Bytes} {k : Nat} (hk0 : k ≠ 0) (hk : k < 128) :
    fitsInSmallAtom ob = some k ↔ ob = [UInt8.ofNat k] := by
  constructor
  · intro h
    have := fits_enc h
    rw [encodeInt_lt128 k hk0 hk] at this
    exact this
  · intro h
    subst h
    have h1 : ∀ k, k < 128 → k ≠ 0 → fitsInSmallAtom [UInt8.ofNat k] = some k := by decide +kernel
    exact h1 k hk hk0

theorem smallNumber_kw {ob : Bytes} {oi : Bool} (hw : (Val.atom ob oi).wf = true) {k : Nat} (hk0 : k ≠ 0)
    (hk : k < 128) : smallNumber (.atom ob oi) = some k ↔ ob = [UInt8.ofNat k] := by
  cases oi with
  | false => simp only [smallNumber]; exact fits_kw hk0 hk
  | true =>
    simp only [smallNumber, Option.some.injEq]
    have hf := wfInl_fits hw
    constructor
    · intro h; rw [h] at hf; exact (fits_kw hk0 hk).1 hf
    · intro h
      have := (fits_kw (ob := ob) hk0 hk).2 h
      rw [hf] at this
      exact Option.some.inj this

theorem bytes_kw (ob : Bytes) (k : Nat) (hk : k < 256) : (ob.map UInt8.toNat == [k]) = true ↔ ob = [UInt8.ofNat k] := by
  constructor
  · intro h
    have h' : ob.map UInt8.toNat = [k] := by simpa using h
    match ob, h' with
    | [x], h' =>
      simp only [List.map, List.cons.injEq, and_true] at h'
      subst h'
      simp
  · intro h; subst h; simp [Nat.mod_eq_of_lt hk]

/-! ### model side: inversion of the stack primitives and of `eval_op_atom` -/


/-- the part of a model state the simulation looks at -/
structure Shape (s' : MState) (ops : List Operation) (vals envs : List Val) (sf : List SoftforkGuard) : Prop where
  o : s'.opStack = ops
  v : s'.valStack = vals
  e : s'.envStack = envs
  s : s'.softforkStack = sf

theorem M_bind_err {α β} {x : M α} {f : α → M β} {e : Stop} (h : (x >>= f) = .error e) :
    x = .error e ∨ ∃ a, x = .ok a ∧ f a = .error e := by
  cases x with
  | error e' => left; simpa [bind, Except.bind] using h
  | ok a => right; exact ⟨a, rfl, h⟩

theorem push_ok {s s' : MState} {v : Val} (h : s.push v = .ok s') :
    Shape s' s.opStack (v :: s.valStack) s.envStack s.softforkStack := by
  rcases push_cases s v with h' | h' <;> rw [h'] at h
  · cases h
  · injection h with h; subst h; exact ⟨rfl, rfl, rfl, rfl⟩

theorem push_err {s : MState} {v : Val} {e : Stop} (h : s.push v = .error e) : BadM e := by
  rcases push_cases s v with h' | h' <;> rw [h'] at h
  · injection h with h; subst h; exact Or.inr (Or.inl rfl)
  · cases h

theorem pushEnv_ok {s s' : MState} {v : Val} (h : s.pushEnv v = .ok s') :
    Shape s' s.opStack s.valStack (v :: s.envStack) s.softforkStack := by
  rcases pushEnv_cases s v with h' | h' <;> rw [h'] at h
  · cases h
  · injection h with h; subst h; exact ⟨rfl, rfl, rfl, rfl⟩

theorem pushEnv_err {s : MState} {v : Val} {e : Stop} (h : s.pushEnv v = .error e) : BadM e := by
  rcases pushEnv_cases s v with h' | h' <;> rw [h'] at h
  · injection h with h; subst h; exact Or.inr (Or.inr rfl)
  · cases h

def termV : Val → Val
  | .pair _ r => termV r
  | v => v

theorem termV_cases (ol : Val) : ∃ i, termV ol = .atom (valTerminator ol) i := by
  induction ol with
  | atom b i => exact ⟨i, rfl⟩
  | pair f r _ ih => simpa [termV, valTerminator] using ih

theorem pushOperandsM_ok : ∀ (ol : Val) (s : MState) (t : Val) (s' : MState),
    Interp.pushOperands ol s = .ok (t, s') →
    t = termV ol ∧ Shape s' (List.replicate (argList ol).length Operation.SwapEval ++ s.opStack)
      ((argList ol).reverse ++ s.valStack) s.envStack s.softforkStack := by
  intro ol
  induction ol with
  | atom b i =>
    intro s t s' h
    simp only [Interp.pushOperands] at h
    have := M_pure_ok h
    simp only [Prod.mk.injEq] at this
    obtain ⟨rfl, rfl⟩ := this
    exact ⟨rfl, rfl, rfl, rfl, rfl⟩
  | pair f r _ ihr =>
    intro s t s' h
    simp only [Interp.pushOperands] at h
    obtain ⟨s1, h1, h⟩ := M_bind_ok h
    have sh1 := push_ok h1
    obtain ⟨rfl, sh⟩ := ihr _ _ _ h
    refine ⟨rfl, ?_, ?_, ?_, ?_⟩
    · rw [sh.o, sh1.o]; simp [MState.pushOp, argList, List.replicate_succ']
    · rw [sh.v, sh1.v]; simp [MState.pushOp, argList]
    · rw [sh.e, sh1.e]; rfl
    · rw [sh.s, sh1.s]; rfl

theorem pushOperandsM_err : ∀ (ol : Val) (s : MState) (e : Stop),
    Interp.pushOperands ol s = .error e → BadM e := by
  intro ol
  induction ol with
  | atom b i => intro s e h; simp [Interp.pushOperands, pure, Except.pure] at h
  | pair f r _ ihr =>
    intro s e h
    simp only [Interp.pushOperands] at h
    rcases M_bind_err h with h1 | ⟨s1, _, h2⟩
    · exact push_err h1
    · exact ihr _ _ h2

/-- `eval_op_atom` on a non-quote operator, success -/
theorem evalOpAtom_ok {s s' : MState} {o args env : Val} {c : Nat} (hq : smallNumber o ≠ some dial.quoteKw)
    (h : evalOpAtom dial s o args env = .ok (c, s')) :
    c = Gen.OP_COST ∧ valTerminator args = [] ∧
    Shape s' (List.replicate (argList args).length Operation.SwapEval ++ Operation.Apply :: s.opStack)
      (Val.nil :: ((argList args).reverse ++ o :: s.valStack)) (env :: s.envStack) s.softforkStack := by
  unfold evalOpAtom at h
  have hq' : (smallNumber o == some dial.quoteKw) = false := by simpa using hq
  simp only [hq', Bool.false_eq_true, if_false, gc_false] at h
  obtain ⟨s1, h1, h⟩ := M_bind_ok h
  have sh1 := pushEnv_ok h1
  obtain ⟨s2, h2, h⟩ := M_bind_ok h
  have sh2 := push_ok h2
  obtain ⟨⟨t, s3⟩, h3, h⟩ := M_bind_ok h
  obtain ⟨rfl, sh3⟩ := pushOperandsM_ok _ _ _ _ h3
  obtain ⟨ti, hti⟩ := termV_cases args
  rw [hti] at h
  simp only at h
  by_cases hn : valTerminator args = []
  · rw [hn] at h
    simp only [List.length_nil, bne_self_eq_false, Bool.false_eq_true, if_false] at h
    obtain ⟨s4, h4, h⟩ := M_bind_ok h
    have sh4 := push_ok h4
    have := M_pure_ok h
    simp only [Prod.mk.injEq] at this
    obtain ⟨rfl, rfl⟩ := this
    refine ⟨rfl, hn, ?_, ?_, ?_, ?_⟩
    · rw [sh4.o, sh3.o, sh2.o]; simp [MState.pushOp, sh1.o]
    · rw [sh4.v, sh3.v, sh2.v]; simp [MState.pushOp, sh1.v]
    · rw [sh4.e, sh3.e, sh2.e]; simp [MState.pushOp, sh1.e]
    · rw [sh4.s, sh3.s, sh2.s]; simp [MState.pushOp, sh1.s]
  · have : ((valTerminator args).length != 0) = true := by
      cases hv : valTerminator args with
      | nil => exact absurd hv hn
      | cons _ _ => rfl
    simp [this] at h

/-- `eval_op_atom` on a non-quote operator, failure -/
theorem evalOpAtom_err {s : MState} {o args env : Val} {e : Stop} (hq : smallNumber o ≠ some dial.quoteKw)
    (h : evalOpAtom dial s o args env = .error e) : BadM e ∨ valTerminator args ≠ [] := by
  unfold evalOpAtom at h
  have hq' : (smallNumber o == some dial.quoteKw) = false := by simpa using hq
  simp only [hq', Bool.false_eq_true, if_false, gc_false] at h
  rcases M_bind_err h with h1 | ⟨s1, _, h⟩
  · exact Or.inl (pushEnv_err h1)
  rcases M_bind_err h with h2 | ⟨s2, _, h⟩
  · exact Or.inl (push_err h2)
  rcases M_bind_err h with h3 | ⟨⟨t, s3⟩, h3, h⟩
  · exact Or.inl (pushOperandsM_err _ _ _ h3)
  obtain ⟨rfl, _⟩ := pushOperandsM_ok _ _ _ _ h3
  obtain ⟨ti, hti⟩ := termV_cases args
  rw [hti] at h
  simp only at h
  by_cases hn : valTerminator args = []
  · rw [hn] at h
    simp only [List.length_nil, bne_self_eq_false, Bool.false_eq_true, if_false] at h
    rcases M_bind_err h with h4 | ⟨s4, _, h⟩
    · exact Or.inl (push_err h4)
    · simp [pure, Except.pure] at h
  · exact Or.inr hn

/-! ### reference side: `pushOperands` -/

theorem sec_succ' (n : Nat) (below : List Op) : sec (n + 1) ++ below = sec n ++ (.swap :: .eval :: .cons :: below) := by
  induction n with
  | zero => rfl
  | succ n ih => simp only [sec, List.cons_append] at ih ⊢; rw [ih]

theorem pushOperandsR_cases (ad : Adapters) (env : Tree) : ∀ (ol : Val) (st : St),
    Ref.pushOperands ad env ol.erase st = .error .stack ∨
    (valTerminator ol ≠ [] ∧ Ref.pushOperands ad env ol.erase st = .error .arg) ∨
    (valTerminator ol = [] ∧ ∃ dp, Ref.pushOperands ad env ol.erase st =
      .ok { st with opStack := sec (argList ol).length ++ st.opStack,
                    valueStack := (argList ol).reverse.map (fun a => .pair a.erase env) ++ st.valueStack,
                    depth := dp }) := by
  intro ol
  induction ol with
  | atom b i =>
    intro st
    simp only [Val.erase, Ref.pushOperands, valTerminator]
    by_cases hb : b = []
    · subst hb; right; right; exact ⟨rfl, st.depth, rfl⟩
    · right; left
      refine ⟨hb, ?_⟩
      have : b.isEmpty = false := by cases b <;> simp_all
      simp [this]
  | pair f r _ ihr =>
    intro st
    simp only [Val.erase, Ref.pushOperands, valTerminator]
    rcases rpush_cases ad st (.pair f.erase env) with h | h
    · left; rw [h]
    · rw [h]
      simp only
      rcases ihr { opStack := .swap :: .eval :: .cons :: st.opStack,
                   valueStack := .pair f.erase env :: st.valueStack, guards := st.guards, depth := st.depth + 1 }
        with h2 | ⟨hn, h2⟩ | ⟨hn, dp, h2⟩
      · left; exact h2
      · right; left; exact ⟨hn, h2⟩
      · right; right
        refine ⟨hn, dp, ?_⟩
        rw [h2]
        simp only [argList, List.length_cons, List.reverse_cons, List.map_append, List.map_cons, List.map_nil,
          List.append_assoc, List.cons_append, List.nil_append, sec_succ']

/-! ### one evaluation on both machines -/

structure RShape (st' : St) (ops : List Op) (vals : List Tree) (gs : List Guard) : Prop where
  o : st'.opStack = ops
  v : st'.valueStack = vals
  g : st'.guards = gs

/-- the non-quote branch of the reference's `eval_op` -/
def refCall (ad : Adapters) (st0 : St) (operator env ol : Tree) : Except RefErr (Nat × St) :=
  match st0.push ad operator with
  | .error e => .error e
  | .ok st =>
    match Ref.pushOperands ad env ol st with
    | .error e => .error e
    | .ok st =>
      match st.push ad false_ with
      | .error e => .error e
      | .ok st => .ok (EVAL_OPERANDS_COST, st)

theorem refCall_cases (ad : Adapters) (st0 : St) (operator env : Tree) (ol : Val) :
    (∃ e, refCall ad st0 operator env ol.erase = .error e ∧ (e = .stack ∨ (e = .arg ∧ valTerminator ol ≠ []))) ∨
    (valTerminator ol = [] ∧ ∃ st', refCall ad st0 operator env ol.erase = .ok (EVAL_OPERANDS_COST, st') ∧
      RShape st' (sec (argList ol).length ++ st0.opStack)
        (false_ :: ((argList ol).reverse.map (fun a => .pair a.erase env) ++ operator :: st0.valueStack))
        st0.guards) := by
  unfold refCall
  rcases rpush_cases ad st0 operator with h | h
  · left; rw [h]; exact ⟨_, rfl, Or.inl rfl⟩
  · rw [h]
    simp only
    rcases pushOperandsR_cases ad env ol
        ({ st0 with valueStack := operator :: st0.valueStack, depth := st0.depth + 1 }) with h2 | ⟨hn, h2⟩ | ⟨hn, dp, h2⟩
    · left; rw [h2]; exact ⟨_, rfl, Or.inl rfl⟩
    · left; rw [h2]; exact ⟨_, rfl, Or.inr ⟨rfl, hn⟩⟩
    · rw [h2]
      simp only
      rcases rpush_cases ad (St.mk (sec (argList ol).length ++ st0.opStack) ((argList ol).reverse.map (fun a => Tree.pair a.erase env) ++ operator :: st0.valueStack) st0.guards dp) false_ with h3 | h3
      · left; rw [h3]; exact ⟨_, rfl, Or.inl rfl⟩
      · right; rw [h3]
        exact ⟨hn, _, rfl, rfl, rfl, rfl⟩

/-- where an evaluation leads -/
inductive Next (K : List KE) (sr : St) (sm : MState) : Prop
  | ret (v : Val) : RetRel K v sr sm → Next K sr sm
  | args (f : Frame) : ArgsRel f K sr sm → Next K sr sm

theorem evalPair_atom' (b : Bytes) (i : Bool) (hw : (Val.atom b i).wf = true) (s : MState) (env : Val) :
    evalPair {} dial s (.atom b i) env =
      (do let r ← liftE (Interp.traversePath b env)
          let s ← s.push r.2
          pure (r.1, s)) := by
  cases i with
  | false => simp only [evalPair, node, if_true]
  | true =>
    simp only [evalPair, node, if_true]
    rw [traverse_fast_wf b hw env]

theorem argList_rev_wf {ol : Val} (h : ol.wf = true) : ∀ x ∈ (argList ol).reverse, x.wf = true := by
  intro x hx; exact argList_wf h x (List.mem_reverse.1 hx)

/-- **one evaluation**: `eval_op` of the reference and `eval_pair` of the model, started with the same
program, environment and continuation -/
theorem eval_agree (K : List KE) (hK : ∀ e ∈ K, e.Ok) (prog env : Val) (hp : prog.wf = true) (he : env.wf = true)
    (sr : St) (sm : MState) (hro : sr.opStack = opsR K)
    (hrv : sr.valueStack = .pair prog.erase env.erase :: valsR K) (hrg : sr.guards = gR K)
    (hmo : sm.opStack = opsM K) (hmv : sm.valStack = valsM K) (hme : sm.envStack = envsM K)
    (hms : sm.softforkStack = sfM K) (cost B : Nat) :
    StepAgree cost B (Next K) (evalOp coreAd sr) (evalPair {} dial sm prog env) := by
  cases prog with
  | atom b i =>
    rw [evalPair_atom' b i hp]
    simp only [evalOp, hrv, Val.erase]
    have hpa := path_agree b env
    cases hm : Interp.traversePath b env with
    | error e =>
      cases hr : Ref.traversePath b env.erase with
      | error e' => simp only [liftE, bind, Except.bind]; trivial
      | ok r => rw [hm, hr] at hpa; exact hpa.elim
    | ok r =>
      obtain ⟨k, v⟩ := r
      cases hr : Ref.traversePath b env.erase with
      | error e' => rw [hm, hr] at hpa; exact hpa.elim
      | ok r' =>
        obtain ⟨k', t⟩ := r'
        rw [hm, hr] at hpa
        obtain ⟨rfl, hv⟩ := hpa
        have hvw : v.wf = true := traversePath_wf b env (k, v) he hm
        simp only [liftE, bind, Except.bind]
        rcases rpush_cases coreAd ({ sr with valueStack := valsR K, depth := sr.depth - 1 }) t with h1 | h1
        · rw [h1]
          cases hpm : sm.push v with
          | error e => trivial
          | ok s1 => exact Or.inr rfl
        · rw [h1]
          cases hpm : sm.push v with
          | error e => exact Or.inl (push_err hpm)
          | ok s1 =>
            have sh := push_ok hpm
            refine ⟨rfl, Next.ret v ⟨hro, ?_, hrg, ?_, ?_, ?_, ?_, hvw, hK⟩⟩
            · simp only [hv]
            · rw [sh.o, hmo]
            · rw [sh.v, hmv]
            · rw [sh.e, hme]
            · rw [sh.s, hms]
  | pair opNode opList =>
    simp only [Val.wf, Bool.and_eq_true] at hp
    cases opNode with
    | pair X Y =>
      -- the `((X) . operands)` form: the operand list goes to the operator unevaluated
      simp only [evalOp, hrv, Val.erase, coreAd_noInner, Bool.false_eq_true, if_false, coreAd_lenient, if_true]
      simp only [evalPair]
      cases Y with
      | pair Y1 Y2 =>
        -- more than one element in the inner list
        have hg : ∃ msg, getArgs1 (X.pair (Y1.pair Y2)) "in the ((X)...) syntax, the inner list" = .error (.InvalidOpArg msg) := by
          rcases getArgs1_cases (X.pair (Y1.pair Y2)) "in the ((X)...) syntax, the inner list" with ⟨x, b, i, hx, _⟩ | ⟨_, msg, hm⟩
          · cases hx
          · exact ⟨msg, hm⟩
        obtain ⟨msg, hg⟩ := hg
        rw [hg]
        simp only [liftE, bind, Except.bind, Val.erase, Bool.or_true, if_true]
        trivial
      | atom yb yi =>
        have hg : getArgs1 (X.pair (Val.atom yb yi)) "in the ((X)...) syntax, the inner list" = .ok X := by
          rcases getArgs1_cases (X.pair (Val.atom yb yi)) "in the ((X)...) syntax, the inner list" with ⟨x, b, i, hx, hm⟩ | ⟨hn, _⟩
          · cases hx; exact hm
          · exact absurd rfl hn
        rw [hg]
        simp only [liftE, bind, Except.bind, Val.erase, Bool.or_false]
        rw [isPair_erase]
        cases hXp : X.isPair with
        | true => simp only [if_true]; trivial
        | false =>
          simp only [Bool.false_eq_true, if_false]
          obtain ⟨xb, xi, rfl⟩ : ∃ xb xi, X = Val.atom xb xi := by
            cases X with
            | atom xb xi => exact ⟨xb, xi, rfl⟩
            | pair _ _ => simp [Val.isPair] at hXp
          simp only [Val.wf, Bool.and_eq_true] at hp
          let f : Frame := { pending := [], env := env, operator := .atom xb xi, acc := opList }
          have hf : f.Ok := ⟨by simp [f], he, hp.1.1, hp.2, xb, xi, rfl⟩
          simp only [Val.erase]
          rcases rpush_cases coreAd ({ sr with valueStack := valsR K, depth := sr.depth - 1 }) (Tree.atom xb) with h1 | h1
          · rw [h1]; exact StepAgree.stack _
          · rw [h1]
            simp only
            rcases rpush_cases coreAd ({ sr with valueStack := Tree.atom xb :: valsR K, depth := sr.depth - 1 + 1 }) opList.erase
              with h2 | h2
            · rw [h2]; exact StepAgree.stack _
            · rw [h2]
              simp only
              cases hpe : sm.pushEnv env with
              | error e => exact Or.inl (pushEnv_err hpe)
              | ok s1 =>
                have sh1 := pushEnv_ok hpe
                simp only
                cases hp1 : s1.push (Val.atom xb xi) with
                | error e => exact Or.inl (push_err hp1)
                | ok s2 =>
                  have sh2 := push_ok hp1
                  simp only
                  cases hp2 : s2.push opList with
                  | error e => exact Or.inl (push_err hp2)
                  | ok s3 =>
                    have sh3 := push_ok hp2
                    simp only [pure, Except.pure]
                    refine ⟨rfl, Next.args f ⟨?_, ?_, hrg, ?_, ?_, ?_, ?_, hf, hK⟩⟩
                    · simp only [argsOpsR, f, List.length_nil, sec, List.nil_append, hro]
                    · simp only [argsValsR, f, List.map_nil, List.nil_append, Val.erase]
                    · simp only [MState.pushOp, argsOpsM, f, List.length_nil, List.replicate_zero, List.nil_append]
                      rw [sh3.o, sh2.o, sh1.o, hmo]
                    · simp only [MState.pushOp, argsValsM, f, List.nil_append]
                      rw [sh3.v, sh2.v, sh1.v, hmv]
                    · simp only [MState.pushOp]; rw [sh3.e, sh2.e, sh1.e, hme]
                    · simp only [MState.pushOp]; rw [sh3.s, sh2.s, sh1.s, hms]
    | atom ob oi =>
      simp only [evalPair]
      by_cases hq : ob = [UInt8.ofNat 1]
      · -- quotation
        have hqm : smallNumber (Val.atom ob oi) = some dial.quoteKw := (smallNumber_kw hp.1 (by decide) (by decide)).2 hq
        have hqr : (ob.map UInt8.toNat == [0x01]) = true := (bytes_kw ob 1 (by decide)).2 hq
        simp only [evalOp, hrv, Val.erase, hqr, if_true, evalOpAtom, hqm, beq_self_eq_true]
        rcases rpush_cases coreAd ({ sr with valueStack := valsR K, depth := sr.depth - 1 }) opList.erase with h1 | h1
        · rw [h1]
          cases hpm : sm.push opList with
          | error e => simp only [bind, Except.bind]; trivial
          | ok s1 => simp only [bind, Except.bind, pure, Except.pure]; exact Or.inr rfl
        · rw [h1]
          cases hpm : sm.push opList with
          | error e => simp only [bind, Except.bind]; exact Or.inl (push_err hpm)
          | ok s1 =>
            have sh := push_ok hpm
            simp only [bind, Except.bind, pure, Except.pure]
            refine ⟨rfl, Next.ret opList ⟨hro, rfl, hrg, ?_, ?_, ?_, ?_, hp.2, hK⟩⟩
            · rw [sh.o, hmo]
            · rw [sh.v, hmv]
            · rw [sh.e, hme]
            · rw [sh.s, hms]
      · -- an operator call
        have hqm : smallNumber (Val.atom ob oi) ≠ some dial.quoteKw :=
          fun h => hq ((smallNumber_kw hp.1 (by decide) (by decide)).1 h)
        have hqr : (ob.map UInt8.toNat == [0x01]) = false := by
          cases hb : (ob.map UInt8.toNat == [0x01]) with
          | false => rfl
          | true => exact absurd ((bytes_kw ob 1 (by decide)).1 hb) hq
        have hre : evalOp coreAd sr = refCall coreAd
            ({ sr with valueStack := valsR K, depth := sr.depth - 1, opStack := .apply :: sr.opStack })
            (.atom ob) env.erase opList.erase := by
          simp only [evalOp, hrv, Val.erase, hqr, Bool.false_eq_true, if_false, refCall]
          cases St.push coreAd _ (Tree.atom ob) with
          | error e => rfl
          | ok st1 =>
            simp only
            cases Ref.pushOperands coreAd env.erase opList.erase st1 with
            | error e => rfl
            | ok st2 =>
              simp only
              cases St.push coreAd st2 false_ <;> rfl
        rw [hre]
        let f : Frame := { pending := (argList opList).reverse, env := env, operator := .atom ob oi, acc := Val.nil }
        have hf : f.Ok := ⟨argList_rev_wf hp.2, he, hp.1, nil_wf, ob, oi, rfl⟩
        rcases refCall_cases coreAd ({ sr with valueStack := valsR K, depth := sr.depth - 1, opStack := .apply :: sr.opStack })
            (.atom ob) env.erase opList with ⟨e, hr, hre'⟩ | ⟨hn, st', hr, rsh⟩
        · rw [hr]
          cases hm : evalOpAtom dial sm (Val.atom ob oi) opList env with
          | error e' => trivial
          | ok r =>
            obtain ⟨c, s'⟩ := r
            obtain ⟨_, hn, _⟩ := evalOpAtom_ok hqm hm
            rcases hre' with rfl | ⟨rfl, hne⟩
            · exact Or.inr rfl
            · exact absurd hn hne
        · rw [hr]
          cases hm : evalOpAtom dial sm (Val.atom ob oi) opList env with
          | error e' =>
            rcases evalOpAtom_err hqm hm with hb | hne
            · exact Or.inl hb
            · exact absurd hn hne
          | ok r =>
            obtain ⟨c, s'⟩ := r
            obtain ⟨rfl, _, msh⟩ := evalOpAtom_ok hqm hm
            refine ⟨rfl, Next.args f ⟨?_, ?_, rsh.g.trans hrg, ?_, ?_, ?_, ?_, hf, hK⟩⟩
            · rw [rsh.o]; simp only [argsOpsR, f, List.length_reverse, hro]
            · rw [rsh.v]; simp only [argsValsR, f, Val.erase, nil_erase]
            · rw [msh.o]; simp only [argsOpsM, f, List.length_reverse, hmo]
            · rw [msh.v]; simp only [argsValsM, f, hmv]
            · rw [msh.e, hme]
            · rw [msh.s, hms]

/-! ### the loops -/


def LoopOut (ro : Res) (mo : M (Nat × MState)) : Prop :=
  match ro, mo with
  | .ok (c, t), .ok (c', s) => c = c' ∧ ∃ v rest, s.valStack = v :: rest ∧ v.erase = t
  | .error _, .error _ => True
  | .error e, .ok _ => BadR e
  | .ok _, .error e' => BadM e'

/-- the rest of the reference's iteration once the operation has returned `r` -/
def rAfter (B fr cost : Nat) (r : Except RefErr (Nat × St)) : Option Res :=
  match r with
  | .error e => some (.error e)
  | .ok (c, st') =>
    match effectiveMax st' (some B) with
    | some m => if cost + c > m then some (.error .cost) else Ref.runLoop coreAd (some B) fr st' (cost + c)
    | none => Ref.runLoop coreAd (some B) fr st' (cost + c)

def mAfter (B fm cost : Nat) (r : M (Nat × MState)) : Option (M (Nat × MState)) :=
  match r with
  | .error e => some (.error e)
  | .ok (c, s') => Interp.runLoop {} dial B fm s' (cost + c)

theorem mloop_step {sm : MState} {op : Operation} {ops : List Operation} (B fm cost : Nat)
    (hc : cost ≤ effMax B sm) (hop : sm.opStack = op :: ops) :
    Interp.runLoop {} dial B (fm + 1) sm cost =
      mAfter B fm cost (stepOp {} dial { sm with opStack := ops } op cost (effMax B sm)) := by
  rw [runLoop_succ]
  unfold loopBody
  rw [if_neg (by omega), hop]
  simp only [mAfter]
  cases stepOp {} dial { sm with opStack := ops } op cost (effMax B sm) with
  | error e => rfl
  | ok r => rfl

theorem mloop_over {sm : MState} (B fm cost : Nat) (hc : cost > effMax B sm)
    {mo : M (Nat × MState)} (h : Interp.runLoop {} dial B fm sm cost = some mo) : ∃ e, mo = .error e := by
  cases fm with
  | zero => simp [runLoop_zero] at h
  | succ n =>
    rw [runLoop_succ] at h
    unfold loopBody at h
    rw [if_pos hc] at h
    exact ⟨_, (Option.some.inj h).symm⟩

def Rel (sr : St) (sm : MState) : Prop :=
  (∃ K v, RetRel K v sr sm) ∨ (∃ f K, ArgsRel f K sr sm)

theorem Rel.of_next {K : List KE} {sr : St} {sm : MState} (h : Next K sr sm) : Rel sr sm := by
  cases h with
  | ret v h => exact Or.inl ⟨K, v, h⟩
  | args f h => exact Or.inr ⟨f, K, h⟩

/-- related states are under the same budget -/
theorem Rel.budget (B : Nat) {sr : St} {sm : MState} (h : Rel sr sm) :
    effectiveMax sr (some B) = some (effMax B sm) := by
  rcases h with ⟨K, v, h⟩ | ⟨f, K, h⟩
  · rw [effectiveMax_of h.rg, effMax_of h.ms]
  · rw [effectiveMax_of h.rg, effMax_of h.ms]

/-- `StepAgree` with the extra information needed when only the model gives up on cost -/
def StepAgree' (cost B : Nat) (rr : Except RefErr (Nat × St)) (mr : M (Nat × MState)) : Prop :=
  match rr, mr with
  | .ok (c, sr), .ok (c', sm) => c = c' ∧ Rel sr sm
  | .error _, .error _ => True
  | .error e, .ok _ => BadR e
  | .ok (c, sr), .error e' => BadM e' ∨ (∃ m, effectiveMax sr (some B) = some m ∧ cost + c > m)

theorem StepAgree.to' {cost B : Nat} {K : List KE} {rr : Except RefErr (Nat × St)} {mr : M (Nat × MState)}
    (h : StepAgree cost B (Next K) rr mr) : StepAgree' cost B rr mr := by
  cases rr with
  | error e => cases mr <;> exact h
  | ok r =>
    obtain ⟨c, sr⟩ := r
    cases mr with
    | error e' =>
      rcases h with h | ⟨_, h⟩
      · exact Or.inl h
      · exact Or.inr h
    | ok r' => exact ⟨h.1, Rel.of_next h.2⟩

theorem after_agree {B fr fm cost : Nat} {rr : Except RefErr (Nat × St)} {mr : M (Nat × MState)} {ro : Res}
    {mo : M (Nat × MState)}
    (IH : ∀ (fr' : Nat) (sr' : St) (sm' : MState) (cost' : Nat) (ro : Res) (mo : M (Nat × MState)),
      cost' ≤ effMax B sm' → Rel sr' sm' → Ref.runLoop coreAd (some B) fr' sr' cost' = some ro →
      Interp.runLoop {} dial B fm sm' cost' = some mo → LoopOut ro mo)
    (hs : StepAgree' cost B rr mr) (hr : rAfter B fr cost rr = some ro) (hm : mAfter B fm cost mr = some mo) :
    LoopOut ro mo := by
  cases rr with
  | error e =>
    simp only [rAfter, Option.some.injEq] at hr
    subst hr
    cases mr with
    | error e' => simp only [mAfter, Option.some.injEq] at hm; subst hm; trivial
    | ok r' =>
      have hb : BadR e := hs
      cases mo with
      | error _ => trivial
      | ok _ => exact hb
  | ok r =>
    obtain ⟨c, sr'⟩ := r
    cases mr with
    | error e' =>
      simp only [mAfter, Option.some.injEq] at hm
      subst hm
      rcases hs with hb | ⟨m, hmx, hgt⟩
      · cases ro with
        | error _ => trivial
        | ok _ => exact hb
      · simp only [rAfter, hmx] at hr
        rw [if_pos hgt] at hr
        simp only [Option.some.injEq] at hr
        subst hr
        trivial
    | ok r' =>
      obtain ⟨c', sm'⟩ := r'
      obtain ⟨rfl, hrel⟩ := hs
      have hbud := hrel.budget B
      simp only [rAfter, hbud] at hr
      simp only [mAfter] at hm
      by_cases hgt : cost + c > effMax B sm'
      · rw [if_pos hgt] at hr
        simp only [Option.some.injEq] at hr
        subst hr
        obtain ⟨e, rfl⟩ := mloop_over B fm (cost + c) hgt hm
        trivial
      · rw [if_neg hgt] at hr
        exact IH fr sr' sm' (cost + c) ro mo (by omega) hrel hr hm

/-! ### `SwapEval` and `Cons` on the model -/


theorem pop_eq {s : MState} {v : Val} {rest : List Val} (hv : s.valStack = v :: rest) :
    s.pop = .ok (v, { s with valStack := rest, valLen := s.valLen - 1 }) := by
  unfold MState.pop; rw [hv]

theorem swapEval_cases {s : MState} {acc a env : Val} {rest E : List Val}
    (hv : s.valStack = acc :: a :: rest) (he : s.envStack = env :: E) :
    (∃ e, swapEvalOp {} dial s = .error e ∧ BadM e) ∨
    (∃ s2, swapEvalOp {} dial s = evalPair {} dial s2 a env ∧
      Shape s2 (Operation.Cons :: s.opStack) (acc :: rest) s.envStack s.softforkStack) := by
  unfold swapEvalOp
  rw [pop_eq hv]
  simp only [bind, Except.bind]
  rw [pop_eq (s := { s with valStack := a :: rest, valLen := s.valLen - 1 }) rfl]
  simp only [he]
  rcases push_cases ({ s with valStack := rest, valLen := s.valLen - 1 - 1, envStack := env :: E }) acc with h | h
  · left; rw [h]; exact ⟨_, rfl, Or.inr (Or.inl rfl)⟩
  · right; rw [h]
    exact ⟨_, rfl, rfl, rfl, by simp [MState.pushOp, he], rfl⟩

theorem consOp_cases {s : MState} {v1 v2 : Val} {rest : List Val} (hv : s.valStack = v1 :: v2 :: rest) :
    (∃ e, Interp.consOp s = .error e ∧ BadM e) ∨
    (∃ s', Interp.consOp s = .ok (0, s') ∧ Shape s' s.opStack (.pair v1 v2 :: rest) s.envStack s.softforkStack) := by
  unfold Interp.consOp
  rw [pop_eq hv]
  simp only [bind, Except.bind]
  rw [pop_eq (s := { s with valStack := v2 :: rest, valLen := s.valLen - 1 }) rfl]
  simp only
  rcases allocPair_cases s.ctr v1 v2 with ⟨c', h⟩ | ⟨e, h, hl⟩
  · rw [h]
    simp only [liftE]
    rcases push_cases ({ s with valStack := rest, valLen := s.valLen - 1 - 1, ctr := c' }) (.pair v1 v2) with h2 | h2
    · left; rw [h2]; exact ⟨_, rfl, Or.inr (Or.inl rfl)⟩
    · right; rw [h2]; exact ⟨_, rfl, rfl, rfl, rfl, rfl⟩
  · left; rw [h]; exact ⟨_, rfl, Or.inl hl⟩

/-! ### the simulation -/

/-- `exit_guard` of the model on a guard that is not cost-exempt -/
theorem exitGuard_cases {s : MState} {g : SoftforkGuard} {rest : List SoftforkGuard} {v : Val} {vs : List Val}
    (hsf : s.softforkStack = g :: rest) (hg : g.operatorSet = .Bls) (hv : s.valStack = v :: vs) (cost : Nat) :
    (cost ≠ g.expectedCost ∧ Interp.exitGuard s cost = .error (.err .SoftforkCostMismatch)) ∨
    (cost = g.expectedCost ∧
      ((∃ e, Interp.exitGuard s cost = .error e ∧ BadM e) ∨
       (∃ s', Interp.exitGuard s cost = .ok (0, s') ∧ Shape s' s.opStack (Val.nil :: vs) s.envStack rest))) := by
  unfold Interp.exitGuard
  rw [hsf]
  have hex : g.costExempt = false := by simp [SoftforkGuard.costExempt, hg]
  simp only [hex, Bool.not_false, Bool.true_and]
  by_cases hc : cost = g.expectedCost
  · right
    refine ⟨hc, ?_⟩
    have : (cost != g.expectedCost) = false := by simp [hc]
    simp only [this, Bool.false_eq_true, if_false, hv]
    rcases push_cases (MState.mk vs (s.valLen - 1) s.envStack s.envLen s.opStack rest s.allocatorStack { g.allocatorState with heapLimit := s.ctr.heapLimit }) Val.nil with h | h
    · left; rw [h]; exact ⟨_, rfl, Or.inr (Or.inl rfl)⟩
    · right; rw [h]; exact ⟨_, rfl, rfl, rfl, rfl, rfl⟩
  · left
    refine ⟨hc, ?_⟩
    have : (cost != g.expectedCost) = true := by simp [hc]
    simp only [this, if_true]

/-- the `Apply` position of the simulation (the three branches of `apply_op`: `a`, the softfork guard,
an ordinary operator through the dispatch tables) -/
def ApplyCase (B : Nat) : Prop :=
  ∀ (fm fr : Nat) (f : Frame) (K : List KE) (sr : St) (sm : MState) (cost : Nat) (ro : Res)
    (mo : M (Nat × MState)),
    (∀ (fr' : Nat) (sr' : St) (sm' : MState) (cost' : Nat) (ro : Res) (mo : M (Nat × MState)),
      cost' ≤ effMax B sm' → Rel sr' sm' → Ref.runLoop coreAd (some B) fr' sr' cost' = some ro →
      Interp.runLoop {} dial B fm sm' cost' = some mo → LoopOut ro mo) →
    cost ≤ effMax B sm → ArgsRel f K sr sm → f.pending = [] →
    Ref.runLoop coreAd (some B) fr sr cost = some ro →
    Interp.runLoop {} dial B (fm + 1) sm cost = some mo → LoopOut ro mo

theorem rloop_zero (B : Nat) (sr : St) (cost : Nat) : Ref.runLoop coreAd (some B) 0 sr cost = none := rfl

theorem sim (B : Nat) (hA : ApplyCase B) : ∀ (fm fr : Nat) (sr : St) (sm : MState) (cost : Nat) (ro : Res)
    (mo : M (Nat × MState)),
    cost ≤ effMax B sm → Rel sr sm → Ref.runLoop coreAd (some B) fr sr cost = some ro →
    Interp.runLoop {} dial B fm sm cost = some mo → LoopOut ro mo := by
  intro fm
  induction fm with
  | zero => intro fr sr sm cost ro mo _ _ _ hm; simp [runLoop_zero] at hm
  | succ fm ih =>
    intro fr sr sm cost ro mo hc hrel hr hm
    rcases hrel with ⟨K, v, h⟩ | ⟨f, K, h⟩
    · -- a value has been produced
      cases K with
      | nil =>
        -- both machines are done
        cases fr with
        | zero => simp [rloop_zero] at hr
        | succ fr =>
          have hro : sr.opStack = [] := h.ro
          have hmo : sm.opStack = [] := h.mo
          simp only [Ref.runLoop, hro, h.rv] at hr
          rw [runLoop_succ] at hm
          unfold loopBody at hm
          rw [if_neg (by omega), hmo] at hm
          simp only [Option.some.injEq] at hr hm
          subst hr; subst hm
          exact ⟨rfl, v, _, h.mv, rfl⟩
      | cons x K' =>
        cases fr with
        | zero => simp [rloop_zero] at hr
        | succ fr =>
        have hKok : ∀ g ∈ K', g.Ok := fun g hg => h.ok g (by simp [hg])
        cases x with
        | call f =>
          -- `Cons` / `cons`
          have hfok : f.Ok := h.ok (.call f) (by simp)
          rw [mloop_step B fm cost hc (show sm.opStack = Operation.Cons :: argsOpsM f (opsM K') from h.mo)] at hm
          have hrr : Ref.runLoop coreAd (some B) (fr + 1) sr cost = rAfter B fr cost
              (.ok (0, { sr with opStack := argsOpsR f (opsR K'),
                                 valueStack := .pair v.erase f.acc.erase :: argsValsR f (valsR K'),
                                 depth := sr.depth - 1 })) := by
            have hro : sr.opStack = .cons :: argsOpsR f (opsR K') := h.ro
            have hrv : sr.valueStack = v.erase :: f.acc.erase :: argsValsR f (valsR K') := h.rv
            simp only [Ref.runLoop, hro, Ref.consOp, hrv, rAfter, h.rg, effectiveMax_gR]
          rw [hrr] at hr
          refine after_agree (fun fr' sr' sm' cost' ro mo => ih fr' sr' sm' cost' ro mo) ?_ hr hm
          simp only [stepOp]
          rcases consOp_cases (s := { sm with opStack := argsOpsM f (opsM K') }) (v1 := v) (v2 := f.acc)
              (rest := argsValsM f (valsM K')) h.mv with ⟨e, he, hb⟩ | ⟨s', hs', sh⟩
          · rw [he]; exact Or.inl hb
          · rw [hs']
            refine ⟨rfl, Or.inr ⟨{ f with acc := .pair v f.acc }, K', ⟨rfl, rfl, h.rg, sh.o, sh.v, ?_, ?_, ?_, hKok⟩⟩⟩
            · rw [sh.e]; exact h.me
            · rw [sh.s]; exact h.ms
            · obtain ⟨h1, h2, h3, h4, h6⟩ := hfok
              exact ⟨h1, h2, h3, by simp [Val.wf, h.wf, h4], h6⟩
        | guard e c0 =>
          -- `ExitGuard` / `exit_guard`
          rw [mloop_step B fm cost hc (show sm.opStack = Operation.ExitGuard :: opsM K' from h.mo)] at hm
          have hrr : Ref.runLoop coreAd (some B) (fr + 1) sr cost = rAfter B fr cost
              (if cost != e then .error .softfork
               else .ok (0, { sr with opStack := opsR K', valueStack := false_ :: valsR K', guards := gR K' })) := by
            have hro : sr.opStack = .exitGuard :: opsR K' := h.ro
            have hrv : sr.valueStack = v.erase :: valsR K' := h.rv
            have hrg : sr.guards = { expectedCost := e, extension := 0 } :: gR K' := h.rg
            simp only [Ref.runLoop, hro, exitGuardOp, hrg, hrv, rAfter]
            by_cases hce : (cost != e) = true
            · simp only [hce, if_true]
            · simp only [hce, Bool.false_eq_true, if_false, effectiveMax_gR]
          rw [hrr] at hr
          refine after_agree (fun fr' sr' sm' cost' ro mo => ih fr' sr' sm' cost' ro mo) ?_ hr hm
          simp only [stepOp]
          rcases exitGuard_cases (s := { sm with opStack := opsM K' })
              (g := { expectedCost := e, allocatorState := c0, operatorSet := .Bls }) (rest := sfM K') (v := v)
              (vs := valsM K') h.ms rfl h.mv cost with ⟨hne, hx⟩ | ⟨heq, hx⟩
          · rw [hx]
            have : (cost != e) = true := by simpa using hne
            simp only [this, if_true]; trivial
          · have : (cost != e) = false := by simp; exact heq
            simp only [this, Bool.false_eq_true, if_false]
            rcases hx with ⟨er, hx, hb⟩ | ⟨s', hx, sh⟩
            · rw [hx]; exact Or.inl hb
            · rw [hx]
              refine ⟨rfl, Or.inl ⟨K', Val.nil, ⟨rfl, rfl, rfl, sh.o, sh.v, ?_, sh.s, nil_wf, hKok⟩⟩⟩
              rw [sh.e]; exact h.me
    · -- an argument list has been extended
      cases hpend : f.pending with
      | nil => exact hA fm fr f K sr sm cost ro mo (fun fr' sr' sm' cost' ro mo => ih fr' sr' sm' cost' ro mo) hc h hpend hr hm
      | cons a rest =>
        -- `SwapEval` / `swap; eval`
        let f' : Frame := { f with pending := rest }
        have hfok : f'.Ok := by
          obtain ⟨h1, h2, h3, h4, h6⟩ := h.fok
          exact ⟨fun x hx => h1 x (by rw [hpend]; exact List.mem_cons_of_mem _ hx), h2, h3, h4, h6⟩
        have hawf : a.wf = true := h.fok.1 a (by rw [hpend]; simp)
        have hKok : ∀ g ∈ KE.call f' :: K, g.Ok := by
          intro g hg
          simp only [List.mem_cons] at hg
          rcases hg with rfl | hg
          · exact hfok
          · exact h.ok g hg
        have hmo : sm.opStack = Operation.SwapEval :: argsOpsM f' (opsM K) := by
          rw [h.mo]; simp [argsOpsM, hpend, f', List.replicate_succ]
        have hmv : sm.valStack = f.acc :: a :: (rest ++ f.operator :: valsM K) := by
          rw [h.mv]; simp [argsValsM, hpend]
        rw [mloop_step B fm cost hc hmo] at hm
        have hro : sr.opStack = .swap :: .eval :: opsR (KE.call f' :: K) := by
          rw [h.ro]; simp [argsOpsR, opsR, hpend, f', sec]
        have hrv : sr.valueStack = f.acc.erase :: .pair a.erase f.env.erase :: (argsValsR f' (valsR K)) := by
          rw [h.rv]; simp [argsValsR, hpend, f']
        have hbud : effectiveMax sr (some B) = some (effMax B sm) := by
          rw [effectiveMax_of h.rg, effMax_of h.ms]
        cases fr with
        | zero => simp [rloop_zero] at hr
        | succ fr =>
          cases fr with
          | zero =>
            simp only [Ref.runLoop, hro, swapOp, hrv, Nat.add_zero, h.rg, effectiveMax_gR] at hr
            rw [← effMax_of h.ms, if_neg (by omega)] at hr
            simp at hr
          | succ fr =>
            have hrr : Ref.runLoop coreAd (some B) (fr + 1 + 1) sr cost = rAfter B fr cost
                (evalOp coreAd { sr with opStack := opsR (KE.call f' :: K),
                                         valueStack := .pair a.erase f.env.erase :: valsR (KE.call f' :: K) }) := by
              simp only [Ref.runLoop, hro, swapOp, hrv, Nat.add_zero, rAfter, valsR, h.rg, effectiveMax_gR]
              rw [← effMax_of h.ms, if_neg (by omega)]
              cases evalOp coreAd _ with
              | error e => rfl
              | ok r => rfl
            rw [hrr] at hr
            refine after_agree (fun fr' sr' sm' cost' ro mo => ih fr' sr' sm' cost' ro mo) ?_ hr hm
            simp only [stepOp]
            rcases swapEval_cases (s := { sm with opStack := argsOpsM f' (opsM K) }) (acc := f.acc) (a := a)
                (env := f.env) (rest := rest ++ f.operator :: valsM K) (E := envsM K) hmv h.me with
              ⟨e, he, hb⟩ | ⟨s2, hs2, sh⟩
            · rw [he]
              cases evalOp coreAd _ with
              | error e' => trivial
              | ok r => exact Or.inl hb
            · rw [hs2]
              refine (eval_agree (KE.call f' :: K) hKok a f.env hawf h.fok.2.1
                ({ sr with opStack := opsR (KE.call f' :: K), valueStack := .pair a.erase f.env.erase :: valsR (KE.call f' :: K) })
                s2 rfl rfl h.rg ?_ ?_ ?_ ?_ cost B).to'
              · rw [sh.o]; rfl
              · rw [sh.v]; rfl
              · rw [sh.e]; exact h.me
              · rw [sh.s]; exact h.ms

/-! ### the `Apply` position -/

/-- `eval_pair` does not touch the softfork stack -/
theorem evalPair_sf {s s' : MState} {p e : Val} {k : Nat} (hp : p.wf = true)
    (h : evalPair {} dial s p e = .ok (k, s')) : s'.softforkStack = s.softforkStack := by
  cases p with
  | atom b i =>
    rw [evalPair_atom' b i hp] at h
    obtain ⟨r, _, h⟩ := M_bind_ok h
    obtain ⟨s1, h1, h⟩ := M_bind_ok h
    have := M_pure_ok h
    simp only [Prod.mk.injEq] at this
    obtain ⟨_, rfl⟩ := this
    exact (push_ok h1).s
  | pair o ol =>
    cases o with
    | pair X Y =>
      simp only [evalPair] at h
      obtain ⟨inner, _, h⟩ := M_bind_ok h
      split at h
      · cases h
      · obtain ⟨s1, h1, h⟩ := M_bind_ok h
        obtain ⟨s2, h2, h⟩ := M_bind_ok h
        obtain ⟨s3, h3, h⟩ := M_bind_ok h
        have := M_pure_ok h
        simp only [Prod.mk.injEq] at this
        obtain ⟨_, rfl⟩ := this
        simp only [MState.pushOp]
        rw [(push_ok h3).s, (push_ok h2).s, (pushEnv_ok h1).s]
    | atom ob oi =>
      simp only [evalPair] at h
      by_cases hq : smallNumber (Val.atom ob oi) = some dial.quoteKw
      · unfold evalOpAtom at h
        simp only [hq, beq_self_eq_true, if_true] at h
        obtain ⟨s1, h1, h⟩ := M_bind_ok h
        have := M_pure_ok h
        simp only [Prod.mk.injEq] at this
        obtain ⟨_, rfl⟩ := this
        exact (push_ok h1).s
      · exact (evalOpAtom_ok hq h).2.2.s

/-! #### softfork: reading the arguments -/

theorem dropWhile_strip (b : Bytes) : b.dropWhile (fun x => x.toNat == 0) = stripZeros b := by
  induction b with
  | nil => rfl
  | cons x t ih =>
    simp only [List.dropWhile, stripZeros]
    by_cases h : x.toNat = 0
    · simp [h, ih]
    · have hb : (x.toNat == 0) = false := by simp [h]
      simp [hb, h]

theorem topBitSet_eq (x : UInt8) (t : Bytes) : topBitSet (x :: t) = (x.toNat &&& 0x80 != 0) := by
  simp only [topBitSet, Py.CastsLemmas.topBit]

/-- `uint_atom::<n>` (default flags) on a well-formed atom -/
theorem uintAtom_wf0 (n : Nat) (hn : 4 ≤ n) {b : Bytes} {i : Bool} (hw : (Val.atom b i).wf = true) (name : String) :
    (topBitSet b = true ∧ ∃ msg, uintAtom n (.atom b i) name 0 = .error (.InvalidOpArg msg)) ∨
    (topBitSet b = false ∧ (stripZeros b).length > n ∧ ∃ msg, uintAtom n (.atom b i) name 0 = .error (.InvalidOpArg msg)) ∨
    (topBitSet b = false ∧ (stripZeros b).length ≤ n ∧ uintAtom n (.atom b i) name 0 = .ok (beNat b)) := by
  cases i with
  | true =>
    right; right
    have hf := wf_inline hw
    have hs := beNat_stripZeros b
    refine ⟨?_, by have := hf.len4; omega, rfl⟩
    cases b with
    | nil => rfl
    | cons x t =>
      have := hf.head_lt
      simp [topBitSet]; omega
  | false =>
    cases b with
    | nil => right; right; exact ⟨rfl, by simp [stripZeros], rfl⟩
    | cons x t =>
      have hc : hasFlag 0 Gen.FLAG_CANONICAL_INTS = false := by simp [hasFlag]
      have hs := beNat_stripZeros (x :: t)
      by_cases htb : topBitSet (x :: t) = true
      · left
        refine ⟨htb, ?_⟩
        simp only [uintAtom, node, ← topBitSet_eq x t, htb, if_true]
        exact ⟨_, rfl⟩
      · have htb' : topBitSet (x :: t) = false := by simpa using htb
        by_cases hl : (stripZeros (x :: t)).length > n
        · right; left
          refine ⟨htb', hl, ?_⟩
          simp only [uintAtom, node, ← topBitSet_eq x t, htb', Bool.false_eq_true, if_false, hc, hl, if_true]
          exact ⟨_, rfl⟩
        · right; right
          refine ⟨htb', by omega, ?_⟩
          simp only [uintAtom, node, ← topBitSet_eq x t, htb', Bool.false_eq_true, if_false, hc, hl, hs.1]

theorem getArgs4_cases (a : Val) (name : String) :
    (∃ x y z w b i, a = .pair x (.pair y (.pair z (.pair w (.atom b i)))) ∧ getArgs4 a name = .ok (x, y, z, w)) ∨
    (listLen a.erase ≠ 4 ∧ ∃ msg, getArgs4 a name = .error (.InvalidOpArg msg)) := by
  unfold getArgs4
  by_cases h : listLen a.erase = 4
  · left
    rw [getArgs_of_len name h]
    have hl := argList_length a
    rw [h] at hl
    match hal : argList a, hl with
    | [x, y, z, w], _ =>
      obtain ⟨r, rfl, hr⟩ := argList_cons hal
      obtain ⟨r2, rfl, hr2⟩ := argList_cons hr
      obtain ⟨r3, rfl, hr3⟩ := argList_cons hr2
      obtain ⟨r4, rfl, hr4⟩ := argList_cons hr3
      obtain ⟨b, i, rfl⟩ := argList_nil hr4
      exact ⟨x, y, z, w, b, i, rfl, rfl⟩
  · right
    obtain ⟨msg, hm⟩ := getArgs_of_ne name h
    exact ⟨h, msg, by rw [hm]⟩

/-- extension 0 does not change the dispatch -/
theorem dial_op_bls (o al : Val) (m : Nat) (c : Ctr) : dial.op o al m .Bls c = dial.op o al m .Default c := rfl

theorem lookup_guard0 (ob : Bytes) (t : Tree) :
    coreAd.lookup (some 0) operatorLookup ob t = coreAd.lookup none operatorLookup ob t := by
  show (if exclCall ob t = true then _ else _) = (if exclCall ob t = true then _ else _)
  by_cases hex : exclCall ob t = true
  · rw [if_pos hex, if_pos hex]
  · rw [if_neg hex, if_neg hex]
    show Adapter.lookup (Proto.assignedWith 0) (fun ext => Proto.assignedWith (Proto.extensionFlags ext)) (some 0) operatorLookup ob t
      = Adapter.lookup (Proto.assignedWith 0) (fun ext => Proto.assignedWith (Proto.extensionFlags ext)) none operatorLookup ob t
    unfold Adapter.lookup Adapter.newOperators
    have h0 : Proto.assignedWith (Proto.extensionFlags 0) = Proto.assignedWith 0 := by decide
    by_cases hc : (Proto.assignedWith 0).contains ob = true
    · simp only [hc, if_true]
    · simp only [hc, Bool.false_eq_true, if_false, h0]

/-- the arguments of a softfork parse to a guard on both sides together -/
theorem parse_agree (al : Val) (hw : al.wf = true) :
    match parseSoftforkArguments dial al with
    | .error _ => softforkGuarded cfg0 al.erase = none
    | .ok (e, prog, env) =>
      ∃ ext, softforkGuarded cfg0 al.erase = some (ext, prog.erase, env.erase) ∧
        dial.softforkExtension ext = e ∧ prog.wf = true ∧ env.wf = true := by
  unfold parseSoftforkArguments
  rcases getArgs4_cases al "softfork" with ⟨x, y, z, w, b, i, rfl, hg⟩ | ⟨hn, msg, hg⟩
  · rw [hg]
    dsimp only
    simp only [Val.wf, Bool.and_eq_true] at hw
    cases y with
    | pair l r =>
      simp only [uintAtom, node]
      simp [softforkGuarded, Val.erase]
    | atom yb yi =>
      have hfl : dial.flags = 0 := rfl
      rw [hfl]
      rcases uintAtom_wf0 4 (Nat.le_refl 4) hw.2.1 "softfork" with ⟨htb, msg, hu⟩ | ⟨htb, hl, msg, hu⟩ | ⟨htb, hl, hu⟩
      · rw [hu]
        simp [softforkGuarded, Val.erase, htb]
      · rw [hu]
        simp only [softforkGuarded, Val.erase, htb, Bool.false_eq_true, if_false, dropWhile_strip]
        rw [if_pos hl]
      · rw [hu]
        simp only [softforkGuarded, Val.erase, htb, Bool.false_eq_true, if_false, dropWhile_strip]
        rw [if_neg (show ¬ (stripZeros yb).length > 4 by omega)]
        have hke : cfg0.knownExtension (unsignedFromBytes yb) = (dial.softforkExtension (beNat yb) != .Default) := rfl
        simp only [hke]
        by_cases hd : dial.softforkExtension (beNat yb) = .Default
        · simp [hd]
        · have h1 : (dial.softforkExtension (beNat yb) == OperatorSet.Default) = false := by simpa using hd
          have h2 : (dial.softforkExtension (beNat yb) != OperatorSet.Default) = true := by simp [bne, h1]
          simp only [h1, h2, Bool.false_eq_true, if_false, if_true]
          exact ⟨_, rfl, rfl, hw.2.2.1, hw.2.2.2.1⟩
  · rw [hg]
    simp only
    unfold softforkGuarded
    split
    · rename_i heq
      exfalso
      rw [heq] at hn
      simp [listLen] at hn
    · rfl

/-- the dialect's dispatch does not look at the terminator of the argument list -/
theorem dial_op_ti (o a : Val) (m : Nat) (ext : OperatorSet) (c : Ctr) :
    dial.op o (truncV a) m ext c = dial.op o a m ext c := chiaOp_ti o a 0 m ext c

/-- agreement of the two operator tables on one call -/
def DispRel (m : Nat) (mo : Option (Except Err (Nat × Val × Ctr))) (ro : Res) : Prop :=
  match mo with
  | none => ro = .error .outOfDomain
  | some mo' => ro = .error .outOfDomain ∨ OpAgree m mo' ro

/-- the dispatch tables agree: `ChiaDialect::op` under default flags, outside a guard, against the
adapted `operator_lookup` (for every operator but `a` and opcode 36, which `apply_op` handles itself) -/
def DispatchAgree : Prop :=
  ∀ (ob : Bytes) (oi : Bool) (al : Val) (m : Nat) (c : Ctr), m < 2 ^ 64 →
    (Val.atom ob oi).wf = true → al.wf = true → Proper al →
    ob ≠ [UInt8.ofNat 2] → ob ≠ [UInt8.ofNat 36] →
    DispRel m (dial.op (.atom ob oi) al m .Default c) (coreAd.lookup none operatorLookup ob al.erase)

/-- **the softfork operator** on both machines: the declared cost is read and checked alike; without a
known extension both charge it and return nil; with extension 0 both enter a guard (same declared
total, `exit_guard` pending) and evaluate the guarded program at once; another known extension is
outside the domain -/
theorem softfork_agree (B : Nat) (K : List KE) (hK : ∀ e ∈ K, e.Ok) (al : Val) (hal : al.wf = true)
    (st : St) (sb : MState) (hro : st.opStack = opsR K) (hrv : st.valueStack = valsR K) (hrg : st.guards = gR K)
    (hmo : sb.opStack = opsM K) (hmv : sb.valStack = valsM K) (hme : sb.envStack = envsM K)
    (hms : sb.softforkStack = sfM K) (cost R : Nat) (hB : B < 2 ^ 64) (hc : cost ≤ eff B K)
    (hR : R = eff B K - cost) :
    StepAgree' cost B (softforkApply coreAd cfg0 st al.erase cost (some R)) (applySoftfork {} dial sb al cost R) := by
  unfold applySoftfork softforkApply softforkCost
  cases al with
  | atom ab ai => simp only [Val.erase, Interp.first, liftE, bind, Except.bind]; trivial
  | pair x rest =>
    simp only [Val.wf, Bool.and_eq_true] at hal
    cases x with
    | pair xl xr =>
      simp only [Val.erase, Interp.first, liftE, bind, Except.bind, uintAtom, node]
      trivial
    | atom cb ci =>
      have hfl : dial.flags = 0 := rfl
      simp only [Val.erase, Interp.first, liftE, bind, Except.bind, hfl, dropWhile_strip]
      rcases uintAtom_wf0 8 (by omega) hal.1 "softfork" with ⟨htb, msg, hu⟩ | ⟨htb, hl, msg, hu⟩ | ⟨htb, hl, hu⟩
      · rw [hu]; simp only [htb, if_true]; trivial
      · rw [hu]; simp only [htb, Bool.false_eq_true, if_false, hl, if_true]; trivial
      · rw [hu]
        simp only [htb, Bool.false_eq_true, if_false, show ¬ (stripZeros cb).length > 8 by omega]
        have hexp : unsignedFromBytes cb = beNat cb := rfl
        rw [hexp]
        by_cases hgt : beNat cb > R
        · have : exceeds (beNat cb) (some R) = true := by simp [exceeds, hgt]
          simp only [hgt, if_true, this]; trivial
        · have hex : exceeds (beNat cb) (some R) = false := by simp [exceeds, hgt]
          simp only [hgt, if_false, hex, Bool.false_eq_true]
          by_cases hz : (beNat cb == 0) = true
          · simp only [hz, if_true]; trivial
          · simp only [hz, Bool.false_eq_true, if_false]
            have hpa := parse_agree (.pair (.atom cb ci) rest) (by simp [Val.wf, hal.1, hal.2])
            simp only [Val.erase] at hpa
            cases hps : parseSoftforkArguments dial (.pair (.atom cb ci) rest) with
            | error er =>
              rw [hps] at hpa
              simp only at hpa
              rw [hpa]
              have hau : dial.allowUnknownOps = true := rfl
              simp only [hau, if_true]
              rcases rpush_cases coreAd st false_ with h1 | h1
              · rw [h1]
                cases sb.push Val.nil with
                | error e => trivial
                | ok s1 => exact Or.inr rfl
              · rw [h1]
                cases hpm : sb.push Val.nil with
                | error e => exact Or.inl (push_err hpm)
                | ok s1 =>
                  have sh := push_ok hpm
                  simp only [pure, Except.pure]
                  refine ⟨rfl, Or.inl ⟨K, Val.nil, ⟨hro, ?_, hrg, ?_, ?_, ?_, ?_, nil_wf, hK⟩⟩⟩
                  · simp only [hrv]; rfl
                  · rw [sh.o, hmo]
                  · rw [sh.v, hmv]
                  · rw [sh.e, hme]
                  · rw [sh.s, hms]
            | ok r =>
              obtain ⟨e, prog, env⟩ := r
              rw [hps] at hpa
              obtain ⟨ext, hsg, hext, hpw, hew⟩ := hpa
              rw [hsg]
              simp only [coreAd_guardDomain]
              by_cases h0 : ext = 0
              · subst h0
                have he : e = .Bls := by rw [← hext]; rfl
                subst he
                have hlim : (hasFlag dial.flags Gen.FLAG_LIMIT_SOFTFORK && decide (sb.softforkStack.length ≥ Gen.softforkNestingLimit)) = false := by
                  have : hasFlag dial.flags Gen.FLAG_LIMIT_SOFTFORK = false := by decide
                  simp [this]
                simp only [hlim, Bool.false_eq_true, if_false, beq_self_eq_true, Bool.not_true]
                have hge : guardExpected sb .Bls cost R (beNat cb) = cost + beNat cb := rfl
                rw [hge]
                have hst := eval_agree (KE.guard (cost + beNat cb) sb.ctr :: K)
                  (by intro x hx; simp only [List.mem_cons] at hx; rcases hx with rfl | hx
                      · show cost + beNat cb < 2 ^ 64
                        have := eff_lt hB hK
                        omega
                      · exact hK x hx)
                  prog env hpw hew
                  ({ st with opStack := .exitGuard :: st.opStack,
                             guards := { expectedCost := cost + beNat cb, extension := 0 } :: st.guards,
                             valueStack := .pair prog.erase env.erase :: st.valueStack, depth := st.depth + 1 })
                  (enterGuard sb { expectedCost := cost + beNat cb, allocatorState := sb.ctr, operatorSet := .Bls })
                  (by simp only [opsR, hro]) (by simp only [valsR, hrv]) (by simp only [gR, hrg])
                  (by simp only [enterGuard, MState.pushOp, opsM, hmo]) (by simp only [enterGuard, MState.pushOp, valsM, hmv])
                  (by simp only [enterGuard, MState.pushOp, envsM, hme]) (by simp only [enterGuard, MState.pushOp, sfM, hms])
                  cost B
                revert hst
                generalize evalOp coreAd _ = rr
                generalize evalPair {} dial (enterGuard sb _) prog env = mr
                intro hst
                have hgc : guardCost dial = cfg0.guardCost := rfl
                cases rr with
                | error er =>
                  cases mr with
                  | error em => trivial
                  | ok rm => exact hst
                | ok r1 =>
                  obtain ⟨c1, s1⟩ := r1
                  cases mr with
                  | error em =>
                    rcases hst with hb | ⟨_, m, hm1, hm2⟩
                    · exact Or.inl hb
                    · exact Or.inr ⟨m, hm1, by omega⟩
                  | ok rm =>
                    obtain ⟨c2, s2⟩ := rm
                    obtain ⟨rfl, hn⟩ := hst
                    simp only [pure, Except.pure, hgc]
                    exact ⟨rfl, Rel.of_next hn⟩
              · have : (ext == 0) = false := by simpa using h0
                simp only [this, Bool.not_false, if_true]
                split
                · trivial
                · generalize evalPair {} dial _ prog env = mr
                  cases mr with
                  | error _ => trivial
                  | ok _ => exact Or.inl rfl

theorem rloop_succ_apply {B E fr cost : Nat} {sr : St} {ops : List Op} (hop : sr.opStack = .apply :: ops)
    (hbud : effectiveMax sr (some B) = some E) :
    Ref.runLoop coreAd (some B) (fr + 1) sr cost =
      rAfter B fr cost (Ref.applyOp coreAd { sr with opStack := ops } cost (some (E - cost))) := by
  have hb' : effectiveMax { sr with opStack := ops } (some B) = some E := hbud
  simp only [Ref.runLoop, hop, rAfter, hb', Option.map]
  cases Ref.applyOp coreAd _ cost (some (E - cost)) with
  | error e => rfl
  | ok r => rfl

theorem rloop_succ_eval {B fr cost : Nat} {sr : St} {ops : List Op} (hop : sr.opStack = .eval :: ops)
    (hg : sr.guards = []) :
    Ref.runLoop coreAd (some B) (fr + 1) sr cost = rAfter B fr cost (evalOp coreAd { sr with opStack := ops }) := by
  simp only [Ref.runLoop, hop, rAfter]
  cases evalOp coreAd _ with
  | error e => rfl
  | ok r => rfl

theorem rloop_succ_eval' (B fr cost : Nat) (ops : List Op) (vals : List Tree) (g : List Guard) (d : Nat) :
    Ref.runLoop coreAd (some B) (fr + 1) ⟨.eval :: ops, vals, g, d⟩ cost =
      rAfter B fr cost (evalOp coreAd ⟨ops, vals, g, d⟩) := by
  simp only [Ref.runLoop, rAfter]
  cases evalOp coreAd _ with
  | error e => rfl
  | ok r => rfl

theorem apply_case (hD : DispatchAgree) (B : Nat) (hB : B < 2 ^ 64) : ApplyCase B := by
  intro fm fr f K sr sm cost ro mo ih hc h hpend hr hm
  obtain ⟨hpw, hew, how, haw, ob, oi, hop⟩ := h.fok
  have hmo : sm.opStack = Operation.Apply :: opsM K := by rw [h.mo]; simp [argsOpsM, hpend]
  have hmv : sm.valStack = f.acc :: f.operator :: valsM K := by rw [h.mv]; simp [argsValsM, hpend]
  have hro : sr.opStack = .apply :: opsR K := by rw [h.ro]; simp [argsOpsR, hpend, sec]
  have hrv : sr.valueStack = f.acc.erase :: f.operator.erase :: valsR K := by rw [h.rv]; simp [argsValsR, hpend]
  have hE : effMax B sm = eff B K := effMax_of h.ms
  have hEle : eff B K ≤ B ∨ True := Or.inr trivial
  rw [mloop_step B fm cost hc hmo, hE] at hm
  rw [hE] at hc
  simp only [stepOp] at hm
  rw [applyOp_eq {} dial ({ sm with opStack := opsM K }) cost (eff B K - cost) (ol := f.acc) (o := f.operator)
    (e0 := f.env) (vals := valsM K) (envs := envsM K) hmv h.me] at hm
  cases fr with
  | zero => simp [rloop_zero] at hr
  | succ fr =>
  rw [rloop_succ_apply hro (effectiveMax_of h.rg)] at hr
  rw [hop] at hm how
  -- the model state in which `apply_op` works: operand list, operator and environment popped
  generalize hsb : MState.applyBase { sm with opStack := opsM K } (valsM K) (envsM K) = sb at hm
  have sbo : sb.opStack = opsM K := by rw [← hsb]; rfl
  have sbv : sb.valStack = valsM K := by rw [← hsb]; rfl
  have sbe : sb.envStack = envsM K := by rw [← hsb]; rfl
  have sbs : sb.softforkStack = sfM K := by rw [← hsb]; exact h.ms
  unfold applyBody at hm
  by_cases ha : ob = [UInt8.ofNat 2]
  · -- `(a P E)`
    have hkm : smallNumber (Val.atom ob oi) = some dial.applyKw := (smallNumber_kw how (by decide) (by decide)).2 ha
    have hkr : (ob.map UInt8.toNat == [0x02]) = true := (bytes_kw ob 2 (by decide)).2 ha
    simp only [hkm, beq_self_eq_true, if_true] at hm
    simp only [Ref.applyOp, hrv, hop, Val.erase, hkr, if_true] at hr
    unfold applyApply at hm
    rcases getArgs2_cases f.acc "apply" with ⟨p, e, tb, ti, hacc, hg⟩ | ⟨hn, msg, hg⟩
    · rw [hg] at hm
      simp only [liftE, bind, Except.bind] at hm
      rw [hacc] at hr haw
      simp only [Val.erase, listLen, Val.wf, Bool.and_eq_true] at hr haw
      simp only [show ((0 + 1 + 1 : Nat) != 2) = false by decide, Bool.false_eq_true, if_false] at hr
      rcases rpush_cases coreAd ({ sr with opStack := opsR K, valueStack := valsR K, depth := sr.depth - 2 })
          (.pair p.erase e.erase) with h1 | h1
      · rw [h1] at hr
        simp only [rAfter, Option.some.injEq] at hr
        subst hr
        cases mo with
        | error _ => trivial
        | ok _ => exact Or.inr rfl
      · rw [h1] at hr
        simp only [rAfter, h.rg, effectiveMax_gR] at hr
        by_cases hgt : cost + APPLY_COST > eff B K
        · rw [if_pos hgt] at hr
          simp only [Option.some.injEq] at hr
          subst hr
          -- the model must fail as well
          cases hev : evalPair {} dial sb p e with
          | error er => rw [hev] at hm; simp only [mAfter, Option.some.injEq] at hm; subst hm; trivial
          | ok r =>
            obtain ⟨k, s1⟩ := r
            rw [hev] at hm
            simp only [pure, Except.pure, mAfter] at hm
            have hsf := evalPair_sf haw.1 hev
            obtain ⟨er, rfl⟩ := mloop_over B fm _
              (by rw [effMax_of (hsf.trans sbs)]; have : Gen.APPLY_COST = APPLY_COST := rfl; omega) hm
            trivial
        · rw [if_neg hgt] at hr
          cases fr with
          | zero => simp [rloop_zero] at hr
          | succ fr =>
            rw [rloop_succ_eval'] at hr
            have hst := (eval_agree K h.ok p e haw.1 haw.2.1
              ({ opStack := opsR K, valueStack := .pair p.erase e.erase :: valsR K, guards := gR K, depth := sr.depth - 2 + 1 })
              sb rfl rfl rfl sbo sbv sbe sbs (cost + APPLY_COST) B).to'
            refine after_agree ih hst hr ?_
            cases hev : evalPair {} dial sb p e with
            | error er => rw [hev] at hm; exact hm
            | ok r =>
              obtain ⟨k, s1⟩ := r
              rw [hev] at hm
              simp only [pure, Except.pure, mAfter] at hm ⊢
              have : cost + APPLY_COST + k = cost + (k + Gen.APPLY_COST) := by
                have : Gen.APPLY_COST = APPLY_COST := rfl
                omega
              rw [this]; exact hm
    · rw [hg] at hm
      simp only [liftE, bind, Except.bind, mAfter, Option.some.injEq] at hm
      subst hm
      rw [if_pos (by simpa using hn)] at hr
      simp only [rAfter, Option.some.injEq] at hr
      subst hr
      trivial
  · have hkm : (smallNumber (Val.atom ob oi) == some dial.applyKw) = false := by
      cases hb : (smallNumber (Val.atom ob oi) == some dial.applyKw) with
      | false => rfl
      | true =>
        have hb' : smallNumber (Val.atom ob oi) = some 2 := beq_iff_eq.1 hb
        exact absurd ((smallNumber_kw how (by decide) (by decide)).1 hb') ha
    have hkr : (ob.map UInt8.toNat == [0x02]) = false := by
      cases hb : (ob.map UInt8.toNat == [0x02]) with
      | false => rfl
      | true => exact absurd ((bytes_kw ob 2 (by decide)).1 hb) ha
    simp only [hkm, Bool.false_eq_true, if_false] at hm
    simp only [Ref.applyOp, hrv, hop, Val.erase, hkr, Bool.false_eq_true, if_false, coreAd_noSoftfork, Bool.true_and] at hr
    by_cases hs : ob = [UInt8.ofNat 36]
    · -- the softfork operator: both machines enter a guard (or charge the declared cost)
      have hsr : (ob.map UInt8.toNat == [0x24]) = true := (bytes_kw ob 36 (by decide)).2 hs
      have hsm : (smallNumber (Val.atom ob oi) == some dial.softforkKw) = true := by
        have : smallNumber (Val.atom ob oi) = some 36 := (smallNumber_kw how (by decide) (by decide)).2 hs
        rw [this]; rfl
      simp only [hsm, if_true] at hm
      simp only [hsr, Bool.false_and, Bool.false_eq_true, if_false, coreAd_softfork] at hr
      exact after_agree ih (softfork_agree B K h.ok f.acc haw (St.mk (opsR K) (valsR K) sr.guards (sr.depth - 2)) sb rfl rfl h.rg sbo sbv sbe sbs cost _ hB hc rfl) hr hm
    · -- an ordinary operator
      have hsm : (smallNumber (Val.atom ob oi) == some dial.softforkKw) = false := by
        cases hb : (smallNumber (Val.atom ob oi) == some dial.softforkKw) with
        | false => rfl
        | true =>
          have hb' : smallNumber (Val.atom ob oi) = some 36 := beq_iff_eq.1 hb
          exact absurd ((smallNumber_kw how (by decide) (by decide)).1 hb') hs
      have hsr : (ob.map UInt8.toNat == [0x24]) = false := by
        cases hb : (ob.map UInt8.toNat == [0x24]) with
        | false => rfl
        | true => exact absurd ((bytes_kw ob 36 (by decide)).1 hb) hs
      simp only [hsm, Bool.false_eq_true, if_false] at hm
      simp only [hsr, Bool.and_false, Bool.false_eq_true, if_false, h.rg, coreAd_lenient, if_true] at hr
      have hctx : coreAd.lookup ((gR K).head?.map Guard.extension) operatorLookup ob (truncateList f.acc.erase)
            = coreAd.lookup none operatorLookup ob (truncateList f.acc.erase) ∧
          dial.op (Val.atom ob oi) f.acc (eff B K - cost) (curExt sb) sb.ctr
            = dial.op (Val.atom ob oi) f.acc (eff B K - cost) .Default sb.ctr := by
        rcases guard_ctx K sb sbs with ⟨h1, h2⟩ | ⟨h1, h2⟩
        · rw [h1, h2]; exact ⟨rfl, rfl⟩
        · rw [h1, h2, lookup_guard0, dial_op_bls]; exact ⟨rfl, rfl⟩
      have hrr : rAfter B fr cost
          (match coreAd.lookup none operatorLookup ob (truncateList f.acc.erase) with
           | .error e => .error e
           | .ok (additionalCost, r) =>
             match St.push coreAd ({ opStack := opsR K, valueStack := valsR K, guards := gR K, depth := sr.depth - 2 }) r with
             | .error e => .error e
             | .ok st => .ok (additionalCost, st)) = some ro := by
        rw [← hctx.1]
        cases hsf : coreAd.softfork with
        | none => rw [hsf] at hr; exact hr
        | some cfg => rw [hsf] at hr; exact hr
      clear hr
      unfold applyOrdinary at hm
      rw [hctx.2] at hm
      have hlt : eff B K - cost < 2 ^ 64 := by have := eff_lt hB h.ok; omega
      have hd := hD ob oi (truncV f.acc) (eff B K - cost) sb.ctr hlt how (truncV_wf haw) (truncV_proper _) ha hs
      rw [dial_op_ti, truncV_erase] at hd
      refine after_agree ih ?_ hrr hm
      unfold DispRel at hd
      cases hmo' : dial.op (Val.atom ob oi) f.acc (eff B K - cost) OperatorSet.Default sb.ctr with
      | none =>
        rw [hmo'] at hd
        rw [hd]; trivial
      | some mres =>
        rw [hmo'] at hd
        rcases hd with hd | hd
        · rw [hd]
          cases mres with
          | error e => trivial
          | ok r =>
            obtain ⟨oc, v, c'⟩ := r
            simp only
            cases ({ sb with ctr := c' } : MState).push v with
            | error e => trivial
            | ok s1 => exact Or.inl rfl
        · cases hro' : coreAd.lookup none operatorLookup ob (truncateList f.acc.erase) with
          | error e =>
            rw [hro'] at hd
            obtain ⟨e', he', _⟩ := hd
            rw [he']; trivial
          | ok rr =>
            obtain ⟨rc, t⟩ := rr
            rw [hro'] at hd
            simp only
            rcases hd with ⟨v, ctr, hok, hve, hvw⟩ | ⟨hlt, hce'⟩ | ⟨e, hee, hl⟩
            · rw [hok]
              simp only
              rcases rpush_cases coreAd ({ opStack := opsR K, valueStack := valsR K, guards := gR K, depth := sr.depth - 2 }) t
                with h1 | h1
              · rw [h1]
                cases ({ sb with ctr := ctr } : MState).push v with
                | error e => trivial
                | ok s1 => exact Or.inr rfl
              · rw [h1]
                cases hpm : ({ sb with ctr := ctr } : MState).push v with
                | error e => exact Or.inl (push_err hpm)
                | ok s1 =>
                  have sh := push_ok hpm
                  refine ⟨rfl, Or.inl ⟨K, v, ⟨rfl, ?_, rfl, ?_, ?_, ?_, ?_, hvw, h.ok⟩⟩⟩
                  · simp only [hve]
                  · rw [sh.o]; exact sbo
                  · rw [sh.v]; simp only [sbv]
                  · rw [sh.e]; exact sbe
                  · rw [sh.s]; exact sbs
            · rw [hce']
              simp only
              rcases rpush_cases coreAd ({ opStack := opsR K, valueStack := valsR K, guards := gR K, depth := sr.depth - 2 }) t
                with h1 | h1
              · rw [h1]; trivial
              · rw [h1]; exact Or.inr ⟨eff B K, effectiveMax_gR B K _ _ _, by omega⟩
            · rw [hee]
              simp only
              cases St.push coreAd ({ opStack := opsR K, valueStack := valsR K, guards := gR K, depth := sr.depth - 2 }) t with
              | error e' => trivial
              | ok st => exact Or.inl (Or.inl hl)

/-! ### the dispatch tables -/

theorem dial_op_eq (o al : Val) (m : Nat) (ext : OperatorSet) (c : Ctr) :
    dial.op o al m ext c = chiaOp {} Proto.noExtra 0 o al m ext c := rfl

/-- `ChiaDialect::op` on a one-byte opcode of the table without a flag requirement -/
theorem chiaOp_classic {k : Nat} {name : String} {f : OpFn} {ob : Bytes} {oi : Bool} {al : Val} {m : Nat} {c : Ctr}
    (hs : smallNumber (.atom ob oi) = some k) (hl : ob.length = 1)
    (hk : lookupOp Gen.chiaOpTable k = some (name, 0)) (hn : (name == "op_modpow") = false)
    (hf : coreOpByName {} name = some f) :
    dial.op (.atom ob oi) al m .Default c = some (f 0 m al c) := by
  rw [dial_op_eq]
  unfold chiaOp
  simp only [hl, show ((1 : Nat) == 4) = false by decide, Bool.false_eq_true, if_false,
    show ((1 : Nat) != 1) = false by decide, hs, hk, bne_self_eq_false, Bool.false_and, hn, hf]
  rfl

/-! #### operators without an `op_` function: the unknown-operator rule -/

theorem map_single {ob : Bytes} {k : Nat} (h : ob.map UInt8.toNat = [k]) : ob = [UInt8.ofNat k] := by
  match ob, h with
  | [x], h =>
    simp only [List.map, List.cons.injEq, and_true] at h
    subst h; simp

/-- the opcodes with an entry in the reference's keyword table -/
def keywordList : List Nat := provedOps ++ [29, 30, 36]

theorem operatorLookup_default (ob : Bytes) (t : Tree) (h : ∀ k ∈ keywordList, ob.map UInt8.toNat ≠ [k]) :
    operatorLookup ob t = defaultUnknownOp ob t := by
  unfold operatorLookup
  split <;> first
    | rfl
    | (rename_i heq; exact absurd heq (h _ (by decide)))

/-- what the dispatch table of the model holds for one-byte opcodes -/
def tableOK (op : Nat) : Bool :=
  match lookupOp Gen.chiaOpTable op with
  | none => true
  | some (_, req) => (req != 0 && !hasFlag 0 req) || provedOps.contains op || (Proto.assignedWith 0).contains [UInt8.ofNat op]

theorem tableOK_all : ∀ op, op < 256 → tableOK op = true := by decide +kernel
theorem knownKey_of_contains {op : Nat} (h : provedOps.contains op = true) : knownKey [UInt8.ofNat op] = true := by
  unfold knownKey
  rw [List.any_eq_true]
  exact ⟨op, by simpa using h, by simp⟩

theorem secp1 : beNat [0x13, 0xd6, 0x1f, 0x00] = 332799744 := by decide
theorem secp2 : beNat [0x1c, 0x3a, 0x8f, 0x00] = 473599744 := by decide

/-- `ChiaDialect::op` on an operator atom that is neither a proved classic opcode nor assigned:
the unknown-operator path -/
theorem chiaOp_unknown (ob : Bytes) (oi : Bool) (al : Val) (m : Nat) (c : Ctr)
    (how : (Val.atom ob oi).wf = true) (hu : knownKey ob = false)
    (hna : (Proto.assignedWith 0).contains ob = false) :
    dial.op (.atom ob oi) al m .Default c = some (unknownOperator ob al 0 m c) := by
  rw [dial_op_eq]
  unfold chiaOp
  simp only [Nat.or_self]
  by_cases h4 : ob.length = 4
  · have h4' : (ob.length == 4) = true := by simp [h4]
    simp only [h4', if_true]
    have hfind : Gen.chiaOp4Table.find? (fun e => e.1 == beNat ob) = none := by
      simp only [Gen.chiaOp4Table, List.find?]
      by_cases e1 : beNat ob = 332799744
      · exfalso
        have : ob = [0x13, 0xd6, 0x1f, 0x00] := beNat_inj ob _ h4 (by rw [e1, secp1])
        subst this
        have : (Proto.assignedWith 0).contains [0x13, 0xd6, 0x1f, 0x00] = true := by decide
        rw [this] at hna; cases hna
      · by_cases e2 : beNat ob = 473599744
        · exfalso
          have : ob = [0x1c, 0x3a, 0x8f, 0x00] := beNat_inj ob _ h4 (by rw [e2, secp2])
          subst this
          have : (Proto.assignedWith 0).contains [0x1c, 0x3a, 0x8f, 0x00] = true := by decide
          rw [this] at hna; cases hna
        · have e1' : ((332799744 : Nat) == beNat ob) = false := by simp; omega
          have e2' : ((473599744 : Nat) == beNat ob) = false := by simp; omega
          simp [e1', e2']
    rw [hfind]
  · have h4' : (ob.length == 4) = false := by simp [h4]
    simp only [h4', Bool.false_eq_true, if_false]
    by_cases h1 : ob.length = 1
    · have h1' : (ob.length != 1) = false := by simp [h1]
      simp only [h1', Bool.false_eq_true, if_false]
      cases hsn : smallNumber (Val.atom ob oi) with
      | none => rfl
      | some op =>
        simp only
        -- `ob = [x]`, `op = x.toNat`
        match ob, h1 with
        | [x], _ =>
          have hop : op = x.toNat := by
            cases oi with
            | false =>
              simp only [smallNumber] at hsn
              have := fits_beNat hsn
              simpa [beNat] using this
            | true =>
              simp only [smallNumber, Option.some.injEq] at hsn
              simpa [beNat] using hsn.symm
          have hx : [x] = [UInt8.ofNat op] := by rw [hop]; simp
          have hlt : op < 256 := by rw [hop]; exact x.toNat_lt
          have htab := tableOK_all op hlt
          unfold tableOK at htab
          cases hl : lookupOp Gen.chiaOpTable op with
          | none => rfl
          | some nr =>
            obtain ⟨name, req⟩ := nr
            rw [hl] at htab
            simp only [Bool.or_eq_true] at htab
            rcases htab with (hreq | hkey) | hasg
            · simp only [hreq, if_true]
            · exfalso
              have := knownKey_of_contains hkey
              rw [← hx, hu] at this; cases this
            · exfalso
              rw [← hx, hna] at hasg; cases hasg
    · have h1' : (ob.length != 1) = true := by simp [h1]
      simp only [h1', if_true]

theorem coreAd0_lookup (base : Bytes → Tree → Res) (ob : Bytes) (t : Tree) :
    coreAd0.lookup none base ob t =
      Adapter.lookup (Proto.assignedWith 0) (fun ext => Proto.assignedWith (Proto.extensionFlags ext)) none base ob t := rfl

/-- the adapted `operator_lookup` on such an operator atom: `default_unknown_op` -/
theorem refLookup_unknown (ob : Bytes) (t : Tree) (hu : knownKey ob = false)
    (hna : (Proto.assignedWith 0).contains ob = false) (hs : ob ≠ [UInt8.ofNat 36]) (hw : wraps ob t = false) :
    coreAd.lookup none operatorLookup ob t = defaultUnknownOp ob t := by
  have hkeys : ∀ k ∈ keywordList, ob.map UInt8.toNat ≠ [k] := by
    intro k hk heq
    have hob := map_single heq
    simp only [keywordList, List.mem_append, List.mem_cons, List.mem_nil_iff, or_false] at hk
    rcases hk with hk | rfl | rfl | rfl
    · have := knownKey_of_contains (op := k) (by simpa using hk)
      rw [← hob, hu] at this; cases this
    · subst hob
      have : (Proto.assignedWith 0).contains [UInt8.ofNat 29] = true := by decide
      rw [this] at hna; cases hna
    · subst hob
      have : (Proto.assignedWith 0).contains [UInt8.ofNat 30] = true := by decide
      rw [this] at hna; cases hna
    · exact hs hob
  have h19 : (ob.map UInt8.toNat == [0x13]) = false := by
    cases hb : (ob.map UInt8.toNat == [0x13]) with
    | false => rfl
    | true => exact absurd (by simpa using hb) (hkeys 19 (by decide))
  show (if exclCall ob t = true then _ else _) = _
  have hex : exclCall ob t = false := by simp [exclCall, hw]
  rw [hex]
  simp only [Bool.false_eq_true, if_false]
  rw [coreAd0_lookup]
  unfold Adapter.lookup Adapter.newOperators
  simp only [hna, Bool.false_eq_true, if_false, h19]
  exact operatorLookup_default ob t hkeys

theorem dispatch_unknown (ob : Bytes) (oi : Bool) (al : Val) (m : Nat) (c : Ctr) (hm : m < 2 ^ 64)
    (how : (Val.atom ob oi).wf = true) (haw : al.wf = true) (hap : Proper al)
    (ha : ob ≠ [UInt8.ofNat 2]) (hs : ob ≠ [UInt8.ofNat 36]) (hu : knownKey ob = false) :
    DispRel m (dial.op (.atom ob oi) al m .Default c) (coreAd.lookup none operatorLookup ob al.erase) := by
  unfold DispRel
  by_cases hna : (Proto.assignedWith 0).contains ob = true
  · -- assigned by a later consensus change: outside C01
    have hout : coreAd.lookup none operatorLookup ob al.erase = .error .outOfDomain := by
      show (if exclCall ob al.erase = true then _ else _) = _
      by_cases hex : exclCall ob al.erase = true
      · rw [if_pos hex]
      · rw [if_neg hex]
        rw [coreAd0_lookup]
        unfold Adapter.lookup Adapter.newOperators
        rw [if_pos hna]
    cases dial.op (Val.atom ob oi) al m OperatorSet.Default c with
    | none => exact hout
    | some _ => exact Or.inl hout
  · have hna' : (Proto.assignedWith 0).contains ob = false := by simpa using hna
    rw [chiaOp_unknown ob oi al m c how hu hna']
    by_cases hw : wraps ob al.erase = true
    · -- the region of finding B
      left
      show (if exclCall ob al.erase = true then _ else _) = _
      have hex : exclCall ob al.erase = true := by simp [exclCall, hu, hw]
      rw [if_pos hex]
    · have hw' : wraps ob al.erase = false := by simpa using hw
      right
      rw [refLookup_unknown ob al.erase hu hna' hs hw']
      refine unknown_agree ob m al c hap hm ?_
      intro cost hc
      unfold wraps at hw'
      rw [hc] at hw'
      simpa using hw'

/-- **the dispatch tables agree** on every operator of the fragment: the proved classic operators are
dispatched to the operator functions that the `ref_op_eq_*` lemmas relate; every other operator ends
the comparison on the reference side -/
theorem dispatch_agree : DispatchAgree := by
  intro ob oi al m c hm how haw hap ha hs
  unfold DispRel
  by_cases hu : knownKey ob = false
  · exact dispatch_unknown ob oi al m c hm how haw hap ha hs hu
  · have hex : ∃ k, k ∈ provedOps ∧ ob = [UInt8.ofNat k] := by
      simpa [knownKey] using hu
    obtain ⟨k, hk, rfl⟩ := hex
    simp only [provedOps, List.mem_cons, List.mem_nil_iff, or_false] at hk
    rcases hk with rfl | rfl | rfl | rfl | rfl | rfl | rfl | rfl | rfl | rfl | rfl | rfl | rfl | rfl | rfl | rfl | rfl | rfl | rfl | rfl | rfl | rfl | rfl | rfl | rfl | rfl | rfl
    · -- op_if
      rw [chiaOp_classic (name := "op_if") (f := Interp.opIf) ((smallNumber_kw how (by decide) (by decide)).2 rfl) rfl
        (by decide) (by decide) rfl]
      exact Or.inr (opIf_agree m al c haw)
    · -- op_cons
      rw [chiaOp_classic (name := "op_cons") (f := Interp.opCons) ((smallNumber_kw how (by decide) (by decide)).2 rfl) rfl
        (by decide) (by decide) rfl]
      exact Or.inr (opCons_agree m al c haw)
    · -- op_first
      rw [chiaOp_classic (name := "op_first") (f := Interp.opFirst) ((smallNumber_kw how (by decide) (by decide)).2 rfl) rfl
        (by decide) (by decide) rfl]
      exact Or.inr (opFirst_agree m al c haw)
    · -- op_rest
      rw [chiaOp_classic (name := "op_rest") (f := Interp.opRest) ((smallNumber_kw how (by decide) (by decide)).2 rfl) rfl
        (by decide) (by decide) rfl]
      exact Or.inr (opRest_agree m al c haw)
    · -- op_listp
      rw [chiaOp_classic (name := "op_listp") (f := Interp.opListp) ((smallNumber_kw how (by decide) (by decide)).2 rfl) rfl
        (by decide) (by decide) rfl]
      exact Or.inr (opListp_agree m al c haw)
    · -- op_raise
      rw [chiaOp_classic (name := "op_raise") (f := Interp.opRaise) ((smallNumber_kw how (by decide) (by decide)).2 rfl) rfl
        (by decide) (by decide) rfl]
      exact Or.inr (opRaise_agree m al c)
    · -- op_eq
      rw [chiaOp_classic (name := "op_eq") (f := Interp.opEq) ((smallNumber_kw how (by decide) (by decide)).2 rfl) rfl
        (by decide) (by decide) rfl]
      exact Or.inr (opEq_agree m al c haw)
    · -- op_gr_bytes
      rw [chiaOp_classic (name := "op_gr_bytes") (f := Interp.opGrBytes) ((smallNumber_kw how (by decide) (by decide)).2 rfl) rfl
        (by decide) (by decide) rfl]
      exact Or.inr (opGrBytes_agree m al c haw hap)
    · -- op_sha256
      rw [chiaOp_classic (name := "op_sha256") (f := Interp.opSha256 {}) ((smallNumber_kw how (by decide) (by decide)).2 rfl) rfl
        (by decide) (by decide) rfl]
      exact Or.inr (opSha256_agree m al c haw hap)
    · -- op_substr
      rw [chiaOp_classic (name := "op_substr") (f := Interp.opSubstr) ((smallNumber_kw how (by decide) (by decide)).2 rfl) rfl
        (by decide) (by decide) rfl]
      exact Or.inr (opSubstr_agree m al c haw hap)
    · -- op_strlen
      rw [chiaOp_classic (name := "op_strlen") (f := Interp.opStrlen) ((smallNumber_kw how (by decide) (by decide)).2 rfl) rfl
        (by decide) (by decide) rfl]
      exact Or.inr (opStrlen_agree m al c haw)
    · -- op_concat
      rw [chiaOp_classic (name := "op_concat") (f := Interp.opConcat) ((smallNumber_kw how (by decide) (by decide)).2 rfl) rfl
        (by decide) (by decide) rfl]
      exact Or.inr (opConcat_agree m al c haw hap)
    · -- op_add
      rw [chiaOp_classic (name := "op_add") (f := Interp.opAdd {}) ((smallNumber_kw how (by decide) (by decide)).2 rfl) rfl
        (by decide) (by decide) rfl]
      exact Or.inr (opAdd_agree m al c haw hap)
    · -- op_subtract
      rw [chiaOp_classic (name := "op_subtract") (f := Interp.opSubtract {}) ((smallNumber_kw how (by decide) (by decide)).2 rfl) rfl
        (by decide) (by decide) rfl]
      exact Or.inr (opSubtract_agree m al c haw hap)
    · -- op_multiply
      rw [chiaOp_classic (name := "op_multiply") (f := Interp.opMultiply {}) ((smallNumber_kw how (by decide) (by decide)).2 rfl) rfl
        (by decide) (by decide) rfl]
      exact Or.inr (opMultiply_agree m al c haw hap)
    · -- op_div
      rw [chiaOp_classic (name := "op_div") (f := Interp.opDiv) ((smallNumber_kw how (by decide) (by decide)).2 rfl) rfl
        (by decide) (by decide) rfl]
      exact Or.inr (opDiv_agree m al c haw hap)
    · -- op_divmod
      rw [chiaOp_classic (name := "op_divmod") (f := Interp.opDivmod) ((smallNumber_kw how (by decide) (by decide)).2 rfl) rfl
        (by decide) (by decide) rfl]
      exact Or.inr (opDivmod_agree m al c haw hap)
    · -- op_gr
      rw [chiaOp_classic (name := "op_gr") (f := Interp.opGr {}) ((smallNumber_kw how (by decide) (by decide)).2 rfl) rfl
        (by decide) (by decide) rfl]
      exact Or.inr (opGr_agree m al c haw hap)
    · -- op_ash
      rw [chiaOp_classic (name := "op_ash") (f := Interp.opAsh) ((smallNumber_kw how (by decide) (by decide)).2 rfl) rfl
        (by decide) (by decide) rfl]
      exact Or.inr (opAsh_agree m al c haw hap)
    · -- op_lsh
      rw [chiaOp_classic (name := "op_lsh") (f := Interp.opLsh) ((smallNumber_kw how (by decide) (by decide)).2 rfl) rfl
        (by decide) (by decide) rfl]
      exact Or.inr (opLsh_agree m al c haw hap)
    · -- op_logand
      rw [chiaOp_classic (name := "op_logand") (f := Interp.opLogand) ((smallNumber_kw how (by decide) (by decide)).2 rfl) rfl
        (by decide) (by decide) rfl]
      exact Or.inr (opLogand_agree m al c haw hap)
    · -- op_logior
      rw [chiaOp_classic (name := "op_logior") (f := Interp.opLogior) ((smallNumber_kw how (by decide) (by decide)).2 rfl) rfl
        (by decide) (by decide) rfl]
      exact Or.inr (opLogior_agree m al c haw hap)
    · -- op_logxor
      rw [chiaOp_classic (name := "op_logxor") (f := Interp.opLogxor) ((smallNumber_kw how (by decide) (by decide)).2 rfl) rfl
        (by decide) (by decide) rfl]
      exact Or.inr (opLogxor_agree m al c haw hap)
    · -- op_lognot
      rw [chiaOp_classic (name := "op_lognot") (f := Interp.opLognot) ((smallNumber_kw how (by decide) (by decide)).2 rfl) rfl
        (by decide) (by decide) rfl]
      exact Or.inr (opLognot_agree m al c haw hap)
    · -- op_not
      rw [chiaOp_classic (name := "op_not") (f := Interp.opNot) ((smallNumber_kw how (by decide) (by decide)).2 rfl) rfl
        (by decide) (by decide) rfl]
      exact Or.inr (opNot_agree m al c haw hap)
    · -- op_any
      rw [chiaOp_classic (name := "op_any") (f := Interp.opAny) ((smallNumber_kw how (by decide) (by decide)).2 rfl) rfl
        (by decide) (by decide) rfl]
      exact Or.inr (opAny_agree m al c haw hap)
    · -- op_all
      rw [chiaOp_classic (name := "op_all") (f := Interp.opAll) ((smallNumber_kw how (by decide) (by decide)).2 rfl) rfl
        (by decide) (by decide) rfl]
      exact Or.inr (opAll_agree m al c haw hap)


/-! ### whole runs -/

/-- outcome of a whole run of the model against the reference's -/
def RunOut (ro : Res) (mo : Except Err (Nat × Val × Ctr)) : Prop :=
  match ro, mo with
  | .ok (c, t), .ok (c', v, _) => c = c' ∧ v.erase = t
  | .error _, .error _ => True
  | .error e, .ok _ => BadR e
  | .ok _, .error e' => BadM (.err e')

theorem effBudget_lt {budget : Nat} (hb : budget < 2 ^ 64) : effBudget budget < 2 ^ 64 := by
  unfold effBudget U64_MAX; split <;> omega

/-- **whole runs on the core fragment** -/
theorem core_run_agree (prog env : Tree) (budget fuel fuel' : Nat) (hb : budget < 2 ^ 64)
    (ro : Res) (mo : Except Err (Nat × Val × Ctr))
    (hr : Ref.runWith coreAd fuel' prog env (Adapter.u64Budget budget) = some ro)
    (hm : modelRun fuel prog env budget = some mo) : RunOut ro mo := by
  rw [runWith_budget] at hr
  obtain ⟨c, hc⟩ := ghost_ok
  unfold modelRun runProgram at hm
  rw [hc] at hm
  simp only at hm
  cases fuel' with
  | zero => simp [rloop_zero] at hr
  | succ fr =>
    have hrr : Ref.runLoop coreAd (some (effBudget budget)) (fr + 1)
        { opStack := [.eval], valueStack := [.pair prog env], depth := 1 } 0 =
        rAfter (effBudget budget) fr 0 (evalOp coreAd { opStack := [], valueStack := [.pair prog env], depth := 1 }) := by
      simp only [Ref.runLoop, rAfter]
      cases evalOp coreAd _ with
      | error e => rfl
      | ok r => rfl
    rw [hrr] at hr
    have hst := (eval_agree [] (by simp) (Val.ofTree prog) (Val.ofTree env) (ofTree_wf _) (ofTree_wf _)
      { opStack := [], valueStack := [.pair prog env], depth := 1 } { ctr := c } rfl
      (by simp [ofTree_erase, valsR]) rfl rfl rfl rfl rfl 0 (effBudget budget)).to'
    have heb : (if (budget == 0) = true then U64_MAX else budget) = effBudget budget := rfl
    rw [heb] at hm
    cases hev : evalPair {} dial { ctr := c } (Val.ofTree prog) (Val.ofTree env) with
    | error e =>
      rw [hev] at hst
      have hev' : evalPair {} (chiaDialect {} Proto.noExtra 0) { ctr := c } (Val.ofTree prog) (Val.ofTree env) = .error e := hev
      rw [hev'] at hm
      cases e with
      | unsupported =>
        simp at hm
      | err e' =>
        simp only [Option.some.injEq] at hm
        subst hm
        cases hro : evalOp coreAd { opStack := [], valueStack := [.pair prog env], depth := 1 } with
        | error er => rw [hro] at hr; simp only [rAfter, Option.some.injEq] at hr; subst hr; trivial
        | ok r =>
          rw [hro] at hst hr
          obtain ⟨k, st'⟩ := r
          rcases hst with hb | ⟨m, hmx, hgt⟩
          · cases ro with
            | error _ => trivial
            | ok _ => exact hb
          · simp only [rAfter, hmx] at hr
            rw [if_pos hgt] at hr
            simp only [Option.some.injEq] at hr
            subst hr; trivial
    | ok r =>
      obtain ⟨k, s1⟩ := r
      have hev' : evalPair {} (chiaDialect {} Proto.noExtra 0) { ctr := c } (Val.ofTree prog) (Val.ofTree env) = .ok (k, s1) := hev
      rw [hev'] at hm
      simp only at hm
      rw [hev] at hst
      cases hml : Interp.runLoop {} (chiaDialect {} Proto.noExtra 0) (effBudget budget) fuel s1 k with
      | none => rw [hml] at hm; simp at hm
      | some ml =>
        rw [hml] at hm
        have hml' : mAfter (effBudget budget) fuel 0 (.ok (k, s1)) = some ml := by
          simp only [mAfter, Nat.zero_add]; exact hml
        have hlo := after_agree (fun fr' sr' sm' cost' ro mo => sim (effBudget budget) (apply_case dispatch_agree _ (effBudget_lt hb)) fuel fr' sr' sm' cost' ro mo)
          hst hr hml'
        cases ml with
        | error e =>
          cases e with
          | unsupported => simp at hm
          | err e' =>
            simp only [Option.some.injEq] at hm
            subst hm
            cases ro with
            | error _ => trivial
            | ok _ => exact hlo
        | ok r2 =>
          obtain ⟨cf, sf⟩ := r2
          simp only at hm
          cases ro with
          | error er =>
            cases mo with
            | error _ => trivial
            | ok _ => exact hlo
          | ok rr =>
            obtain ⟨cr, tr⟩ := rr
            obtain ⟨rfl, v, rest, hv, hve⟩ := hlo
            simp only [MState.pop, hv, Option.some.injEq] at hm
            subst hm
            exact ⟨rfl, hve⟩

end Clvm.Ref
