/-
C19, part 2 — the serializer's loop and the (legacy, list-stack) back-reference decoder in lock step,
*forwards* (a prefix invariant, because `add` stops in the middle of a tree): after every call the
decoder, fed with the bytes written so far, stands at the configuration
(pending operations = the serializer's `read_op_stack`, value stack = the parse-stack mirror).
Holds for every `Valid` policy.  The purely structural side: what the pending stacks will build
(`finalRoot`) is the assembled tree (`finalRoot_subst`).
-/
import ClvmProofs.Lemmas.Incremental

namespace Clvm.Incremental
open Clvm Clvm.Serde Clvm.Serde.Backref Clvm.Serde.Incremental Clvm.Serde.TraversePath Clvm.Backref
open Clvm.Serde.Classic (atomEnc)

/-- a policy is valid when every path it returns leads from the parse-stack mirror to a node equal to
the requested one (`traverse_path` is the decoder's own path walker) -/
def Valid (fp : FindPath) : Prop :=
  ∀ (s : Ser) (node : Tree) (path : Bytes), fp s node = some path →
    ∃ cost, traversePath path s.cache.root = .ok (cost, node)

def opsOf : List ReadOp → List ParseOp
  | [] => []
  | .parse :: r => .sexp :: opsOf r
  | .cons _ :: r => .cons :: opsOf r

/-- the decoder's value stack after the pending operations have run, the `Parse` operations
consuming the trees of the write stack in order (sentinels taken literally) -/
def finalRoot : List ReadOp → List Tree → Tree → Option Tree
  | [], [], root => some root
  | [], _ :: _, _ => none
  | .parse :: ops, t :: ws, root => finalRoot ops ws (Tree.pair t root)
  | .parse :: _, [], _ => none
  | .cons _ :: ops, ws, .pair r (.pair l rest) => finalRoot ops ws (Tree.pair (Tree.pair l r) rest)
  | .cons _ :: _, _, _ => none

def HeadNotCons : List ReadOp → Prop
  | .cons _ :: _ => False
  | _ => True

/-- no stacked value contains the sentinel -/
def StackClean (sent : Option Bytes) : Tree → Prop
  | .pair a rest => noSentinel sent a = true ∧ StackClean sent rest
  | .atom _ => True

/-- the prefix invariant -/
def PrefixSim (buf : Bytes) (ops : List ReadOp) (root : Tree) : Prop :=
  ∀ rest c, PairInv c →
    Steps (deBrOld (buf ++ rest) [.sexp] Tree.nil c) (fun c' => deBrOld rest (opsOf ops) root c')

theorem PrefixSim.step {buf tok : Bytes} {ops ops2 : List ReadOp} {root root2 : Tree} (h : PrefixSim buf ops root)
    (ht : ∀ rest c, PairInv c →
      Steps (deBrOld (tok ++ rest) (opsOf ops) root c) (fun c' => deBrOld rest (opsOf ops2) root2 c')) :
    PrefixSim (buf ++ tok) ops2 root2 := by
  intro rest c hc
  have := h (tok ++ rest) c hc
  rw [← List.append_assoc] at this
  exact this.trans (fun c1 hc1 => ht rest c1 hc1)

/-! ### sentinel facts -/

theorem isSentinel_true {sent : Option Bytes} {node : Tree} (h : isSentinel sent node = true) :
    ∃ m, sent = some m ∧ node = .atom m := by
  cases node with
  | pair l r => simp [isSentinel] at h
  | atom b =>
    simp only [isSentinel, beq_iff_eq] at h
    exact ⟨b, h, rfl⟩

theorem entryLen_pos {sent : Option Bytes} : ∀ {t : Tree}, entryLen sent t ≠ 0 → noSentinel sent t = true := by
  intro t
  induction t with
  | atom b =>
    intro h
    simp only [entryLen] at h
    simp only [noSentinel]
    by_cases hb : (sent == some b) = true
    · simp [hb] at h
    · simp [hb]
  | pair l r ihl ihr =>
    intro h
    simp only [entryLen] at h
    simp only [noSentinel, Bool.and_eq_true]
    by_cases hp : entryLen sent l > 0 ∧ entryLen sent r > 0
    · exact ⟨ihl (by omega), ihr (by omega)⟩
    · simp [hp] at h

theorem noSentinel_substFirst {m : Bytes} (x : Tree) : ∀ {t : Tree}, noSentinel (some m) t = true →
    substFirst m x t = none := by
  intro t
  induction t with
  | atom b =>
    intro h
    simp only [noSentinel, Bool.not_eq_true', beq_eq_false_iff_ne, ne_eq, Option.some.injEq] at h
    simp only [substFirst]
    rw [if_neg (fun e => h e.symm)]
  | pair l r ihl ihr =>
    intro h
    simp only [noSentinel, Bool.and_eq_true] at h
    simp [substFirst, ihl h.1, ihr h.2]

/-! ### `popConses` -/

theorem popConses_sim (sent : Option Bytes) : ∀ (ops : List ReadOp) (c : Cache) (ops' : List ReadOp) (c' : Cache),
    popConses ops c = .ok (ops', c') → StackClean sent c.root →
    StackClean sent c'.root ∧ HeadNotCons ops' ∧
    (∀ ws, finalRoot ops ws c.root = finalRoot ops' ws c'.root) ∧
    ∀ inp ctr, PairInv ctr →
      Steps (deBrOld inp (opsOf ops) c.root ctr) (fun c2 => deBrOld inp (opsOf ops') c'.root c2) := by
  intro ops
  induction ops with
  | nil =>
    intro c ops' c' h hs
    simp only [popConses, Except.ok.injEq, Prod.mk.injEq] at h
    obtain ⟨rfl, rfl⟩ := h
    exact ⟨hs, trivial, fun _ => rfl, fun _ _ hc => Steps.refl hc⟩
  | cons op ops ih =>
    intro c ops' c' h hs
    cases op with
    | parse =>
      simp only [popConses, Except.ok.injEq, Prod.mk.injEq] at h
      obtain ⟨rfl, rfl⟩ := h
      exact ⟨hs, trivial, fun _ => rfl, fun _ _ hc => Steps.refl hc⟩
    | cons node =>
      unfold popConses at h
      cases hp : c.pop2AndCons node with
      | error e => simp [hp] at h
      | ok c1 =>
        simp only [hp] at h
        unfold Cache.pop2AndCons Cache.pop at hp
        cases hr : c.root with
        | atom b => simp [hr] at hp
        | pair r rest =>
          simp only [hr] at hp
          cases hr2 : rest with
          | atom b => simp [hr2] at hp
          | pair l rest2 =>
            simp only [hr2, Except.ok.injEq] at hp
            have hroot1 : c1.root = Tree.pair (Tree.pair l r) rest2 := by rw [← hp]; rfl
            rw [hr, hr2] at hs
            obtain ⟨hcr, hcl, hcrest⟩ := hs
            have hs1 : StackClean sent c1.root := by
              rw [hroot1]
              exact ⟨by simp [noSentinel, hcl, hcr], hcrest⟩
            obtain ⟨i1, i2, i3, i4⟩ := ih c1 ops' c' h hs1
            refine ⟨i1, i2, ?_, ?_⟩
            · intro ws
              rw [← i3 ws, hroot1]
              simp [finalRoot]
            · intro inp ctr hc
              show Steps (deBrOld inp (.cons :: opsOf ops) _ ctr) _
              conv => arg 1; unfold deBrOld
              simp only []
              refine (steps_newPair ctr hc _).trans ?_
              intro ca hca
              refine (steps_newPair ca hca _).trans ?_
              intro cb hcb
              rw [← hroot1]
              exact i4 inp cb hcb

/-! ### tokens -/

theorem deBrOld_backref_token' (root node : Tree) (path : Bytes) (cost : Nat)
    (htp : traversePath path root = .ok (cost, node)) (hp : path.length < 2 ^ 34)
    (rest : Bytes) (ops : List ParseOp) (c : Ctr) (hc : PairInv c) :
    Steps (deBrOld (UInt8.ofNat Gen.deBrBackReference :: (atomEnc path ++ rest)) (.sexp :: ops) root c)
      (fun c' => deBrOld rest ops (Tree.pair node root) c') := by
  obtain ⟨hpp, hdrop⟩ := parsePath_atomEnc path hp rest
  conv => arg 1; unfold deBrOld
  simp only []
  have hff : ((UInt8.ofNat Gen.deBrBackReference).toNat == Gen.deBrConsBoxMarker) = false := by decide
  have hfe : ((UInt8.ofNat Gen.deBrBackReference).toNat == Gen.deBrBackReference) = true := by decide
  simp only [hff, hfe, Bool.false_eq_true, if_false, if_true, hpp, htp, hdrop]
  exact steps_newPair c hc _

theorem deBrOld_cons_token (root : Tree) (rest : Bytes) (ops : List ParseOp) (c : Ctr) (hc : PairInv c) :
    Steps (deBrOld (UInt8.ofNat Gen.deBrConsBoxMarker :: rest) (.sexp :: ops) root c)
      (fun c' => deBrOld rest (.sexp :: .sexp :: .cons :: ops) root c') := by
  conv => arg 1; unfold deBrOld
  have hff : ((UInt8.ofNat Gen.deBrConsBoxMarker).toNat == Gen.deBrConsBoxMarker) = true := by decide
  simp only [hff, if_true]
  exact Steps.refl hc

/-! ### the loop -/

/-- what the loop of `add` guarantees when it returns -/
def LoopPost (sent : Option Bytes) (s' : Ser) (d : Bool) (R : Tree) : Prop :=
  StackClean sent s'.cache.root ∧ PrefixSim s'.output.buf s'.readOpStack s'.cache.root ∧
  (if d then s'.readOpStack = [] ∧ s'.writeStack = [] ∧ s'.cache.root = R
   else ∃ m, sent = some m ∧ HeadNotCons s'.readOpStack ∧
     finalRoot s'.readOpStack (.atom m :: s'.writeStack) s'.cache.root = some R)

theorem addLoop_sim (fp : FindPath) (hv : Valid fp) (sent : Option Bytes) :
    ∀ (n : Nat) (ws : List Tree), Classic.stackSize ws = n →
    ∀ (ops : List ReadOp) (cache : Cache) (out : Cursor) (s' : Ser) (d : Bool) (R : Tree),
    addLoop fp ws ops cache out = .ok (s', d) → CurOk out → cache.sentinel = sent →
    StackClean sent cache.root → HeadNotCons ops → PrefixSim out.buf ops cache.root →
    finalRoot ops ws cache.root = some R → LoopPost sent s' d R := by
  intro n
  induction n using Nat.strongRecOn with
  | _ n ihn =>
    intro ws hsz ops cache out s' d R h hc hsen hclean hhead hsim hfr
    unfold addLoop at h
    cases ws with
    | nil =>
      simp only [Except.ok.injEq, Prod.mk.injEq] at h
      obtain ⟨rfl, rfl⟩ := h
      refine ⟨hclean, hsim, ?_⟩
      rw [if_pos rfl]
      cases ops with
      | nil =>
        simp only [finalRoot, Option.some.injEq] at hfr
        exact ⟨rfl, rfl, hfr⟩
      | cons op ops =>
        cases op with
        | parse => simp [finalRoot] at hfr
        | cons _ => exact absurd hhead (by simp [HeadNotCons])
    | cons node ws' =>
      simp only [] at h
      by_cases hs : isSentinel cache.sentinel node = true
      · simp only [hs, if_true, Except.ok.injEq, Prod.mk.injEq] at h
        obtain ⟨rfl, rfl⟩ := h
        obtain ⟨m, hm, rfl⟩ := isSentinel_true hs
        refine ⟨hclean, hsim, ?_⟩
        rw [if_neg (by simp)]
        exact ⟨m, by rw [← hsen, hm], hhead, hfr⟩
      · simp only [hs, Bool.false_eq_true, if_false] at h
        have hsz' : Classic.stackSize ws' < n := by
          rw [← hsz]; simp only [Classic.stackSize, List.map_cons, List.sum_cons]
          have := Classic.Tree.size_pos node; omega
        cases ops with
        | nil => cases h
        | cons op ops =>
          cases op with
          | cons _ => cases h
          | parse =>
            simp only [] at h
            have hfr' : finalRoot ops ws' (Tree.pair node cache.root) = some R := by
              simpa [finalRoot] using hfr
            -- after a token that pushes `node`
            have hafter : ∀ (out2 : Cursor), CurOk out2 → noSentinel sent node = true →
                PrefixSim out2.buf ops (Tree.pair node cache.root) →
                (match popConses ops (cache.push node) with
                  | .error e => (Except.error e : Except Err (Ser × Bool))
                  | .ok (ops', cache') => addLoop fp ws' ops' cache' out2) = .ok (s', d) →
                LoopPost sent s' d R := by
              intro out2 hc2 hns hsim2 h2
              cases hpc : popConses ops (cache.push node) with
              | error e => simp [hpc] at h2
              | ok r =>
                obtain ⟨ops', cache'⟩ := r
                simp only [hpc] at h2
                have hcl : StackClean sent (cache.push node).root := ⟨hns, hclean⟩
                obtain ⟨i1, i2, i3, i4⟩ := popConses_sim sent ops (cache.push node) ops' cache' hpc hcl
                have hsen' : cache'.sentinel = sent := by
                  rw [popConses_sentinel _ _ _ _ hpc]; exact hsen
                have hsim3 : PrefixSim out2.buf ops' cache'.root := by
                  intro rest c hcc
                  exact (hsim2 rest c hcc).trans (fun c1 hc1 => i4 rest c1 hc1)
                exact ihn _ hsz' ws' rfl ops' cache' out2 s' d R h2 hc2 hsen' i1 i2 hsim3
                  (by rw [← i3]; exact hfr')
            cases hfp : findPath fp { readOpStack := ops, writeStack := ws', cache := cache, output := out } node with
            | some path =>
              simp only [hfp] at h
              obtain ⟨hb1, hc1⟩ := write_ok hc [Classic.u8 Gen.incBackReference]
              cases hw : writeAtomCur (out.write [Classic.u8 Gen.incBackReference]) path with
              | error e => simp [hw] at h
              | ok out2 =>
                simp only [hw] at h
                obtain ⟨hpl, hb2, hc2⟩ := writeAtomCur_ok hc1 hw
                -- the early exits of `find_path`, then the policy
                unfold findPath at hfp
                simp only [] at hfp
                split at hfp
                · cases hfp
                · split at hfp
                  · cases hfp
                  · split at hfp
                    · cases hfp
                    · rename_i _ hne0 _
                      obtain ⟨cost, htp⟩ := hv _ node path hfp
                      simp only [] at htp
                      have hns : noSentinel sent node = true := by
                        rw [← hsen]
                        apply entryLen_pos
                        intro h0
                        apply hne0
                        simp [h0]
                      refine hafter out2 hc2 hns ?_ h
                      have hbuf : out2.buf = out.buf ++ (UInt8.ofNat Gen.deBrBackReference :: atomEnc path) := by
                        rw [hb2, hb1]
                        have : Classic.u8 Gen.incBackReference = UInt8.ofNat Gen.deBrBackReference := by decide
                        rw [this]; simp
                      rw [hbuf]
                      refine hsim.step (fun rest c hcc => ?_)
                      have := deBrOld_backref_token' cache.root node path cost htp hpl rest (opsOf ops) c hcc
                      simpa [opsOf] using this
            | none =>
              simp only [hfp] at h
              cases node with
              | pair l r =>
                simp only [] at h
                obtain ⟨hb1, hc1⟩ := write_ok hc [Classic.u8 Gen.incConsBoxMarker]
                have hsz2 : Classic.stackSize (l :: r :: ws') < n := by
                  rw [← hsz]
                  simp only [Classic.stackSize, List.map_cons, List.sum_cons, Tree.size, Tree.pairs, Tree.atoms]
                  omega
                refine ihn _ hsz2 _ rfl _ cache _ s' d R h hc1 hsen hclean trivial ?_ (by simpa [finalRoot] using hfr')
                have hbuf : (out.write [Classic.u8 Gen.incConsBoxMarker]).buf =
                    out.buf ++ [UInt8.ofNat Gen.deBrConsBoxMarker] := by
                  rw [hb1]
                  have : Classic.u8 Gen.incConsBoxMarker = UInt8.ofNat Gen.deBrConsBoxMarker := by decide
                  rw [this]
                rw [hbuf]
                refine hsim.step (fun rest c hcc => ?_)
                have := deBrOld_cons_token cache.root rest (opsOf ops) c hcc
                simpa [opsOf] using this
              | atom a =>
                simp only [] at h
                cases hw : writeAtomCur out a with
                | error e => simp [hw] at h
                | ok out1 =>
                  simp only [hw] at h
                  obtain ⟨hal, hb1, hc1⟩ := writeAtomCur_ok hc hw
                  have hns : noSentinel sent (.atom a) = true := by
                    rw [← hsen]
                    simp only [isSentinel] at hs
                    simp [noSentinel, hs]
                  refine hafter out1 hc1 hns ?_ h
                  rw [hb1]
                  refine hsim.step (fun rest c hcc => ?_)
                  have := deBrOld_atom_token a hal rest (opsOf ops) cache.root c hcc
                  simpa [opsOf] using this

/-! ### filling the leftmost sentinel -/

/-- `V'` is `V` with the leftmost sentinel of its *topmost value that has one* replaced by `x`,
everything deeper in the stack being free of sentinels -/
inductive FillRel (m : Bytes) (x : Tree) : Tree → Tree → Prop where
  | here {h h' rest : Tree} : StackClean (some m) rest → substFirst m x h = some h' →
      FillRel m x (Tree.pair h rest) (Tree.pair h' rest)
  | there {a rest rest' : Tree} : FillRel m x rest rest' → FillRel m x (Tree.pair a rest) (Tree.pair a rest')

theorem finalRoot_rel (m : Bytes) (x : Tree) : ∀ (ops : List ReadOp) (ws : List Tree) (V V' R : Tree),
    FillRel m x V V' → finalRoot ops ws V = some R → ∃ R', finalRoot ops ws V' = some R' ∧ FillRel m x R R' := by
  intro ops
  induction ops with
  | nil =>
    intro ws V V' R hrel h
    cases ws with
    | nil =>
      simp only [finalRoot, Option.some.injEq] at h
      subst h
      exact ⟨V', rfl, hrel⟩
    | cons _ _ => simp [finalRoot] at h
  | cons op ops ih =>
    intro ws V V' R hrel h
    cases op with
    | parse =>
      cases ws with
      | nil => simp [finalRoot] at h
      | cons t ws' =>
        simp only [finalRoot] at h ⊢
        exact ih ws' _ _ R (FillRel.there hrel) h
    | cons node =>
      cases hrel with
      | here hcl hsub =>
        rename_i hh hh' rest
        cases rest with
        | atom b => simp [finalRoot] at h
        | pair l rest2 =>
          simp only [finalRoot] at h ⊢
          obtain ⟨hl, hrest2⟩ := hcl
          refine ih ws _ _ R (FillRel.here hrest2 ?_) h
          simp [substFirst, noSentinel_substFirst x hl, hsub]
      | there hrel2 =>
        rename_i r rest rest'
        cases hrel2 with
        | here hcl hsub =>
          rename_i l l' rest2
          simp only [finalRoot] at h ⊢
          refine ih ws _ _ R (FillRel.here hcl ?_) h
          simp [substFirst, hsub]
        | there hrel3 =>
          rename_i l rest2 rest2'
          simp only [finalRoot] at h ⊢
          exact ih ws _ _ R (FillRel.there hrel3) h

/-- putting `t` where the pending sentinel is: what the stacks will build is the assembled tree with
its leftmost sentinel replaced by `t` -/
theorem finalRoot_subst {m : Bytes} {t A : Tree} {ops : List ReadOp} {ws : List Tree} {root : Tree}
    (hcl : StackClean (some m) root) (hhead : HeadNotCons ops)
    (h : finalRoot ops (.atom m :: ws) root = some (Tree.pair A Tree.nil)) :
    ∃ A', substFirst m t A = some A' ∧ finalRoot ops (t :: ws) root = some (Tree.pair A' Tree.nil) := by
  cases ops with
  | nil => simp [finalRoot] at h
  | cons op ops =>
    cases op with
    | cons _ => exact absurd hhead (by simp [HeadNotCons])
    | parse =>
      simp only [finalRoot] at h ⊢
      have hrel : FillRel m t (Tree.pair (.atom m) root) (Tree.pair t root) :=
        FillRel.here hcl (by simp [substFirst])
      obtain ⟨R', hR', hrr⟩ := finalRoot_rel m t ops ws _ _ _ hrel h
      cases hrr with
      | here _ hsub => exact ⟨_, hsub, hR'⟩
      | there hbad => cases hbad

theorem assembleFrom_snoc (m : Bytes) (x : Tree) : ∀ (xs : List Tree) (cur : Tree),
    assembleFrom (some m) cur (xs ++ [x]) =
      match assembleFrom (some m) cur xs with
      | some a => substFirst m x a
      | none => none := by
  intro xs
  induction xs with
  | nil =>
    intro cur
    simp only [List.nil_append, assembleFrom]
    cases substFirst m x cur <;> rfl
  | cons y ys ih =>
    intro cur
    simp only [List.cons_append, assembleFrom]
    cases substFirst m y cur with
    | none => rfl
    | some c => exact ih c

end Clvm.Incremental
