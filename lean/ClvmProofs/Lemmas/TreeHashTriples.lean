/-
Lemmas for C22, part 4: `parse_triples(f, true)`.

Whenever the classic decoder (`parseTree` = `node_from_stream`, see `TreeHashStream`) reads a tree `t`
from the input, `parse_triples` reads the same bytes, appends one triple per node of `t` and appends
`hashList t` — the tree hashes of all sub-trees of `t` in pre-order — to `tree_hashes`; in particular
`tree_hashes[0]` is the tree hash of the whole object.
-/
import ClvmProofs.Lemmas.TreeHashStream

namespace Clvm.TreeHash
open Clvm.Hash Clvm.Serde.Classic

/-- number of nodes -/
def nodes : Tree → Nat
  | .atom _ => 1
  | .pair l r => 1 + nodes l + nodes r

/-- tree hashes of all sub-trees in pre-order (node, left, right) -/
def hashList : Tree → List Bytes
  | .atom b => [treeHash (.atom b)]
  | .pair l r => treeHash (.pair l r) :: (hashList l ++ hashList r)

theorem hashList_length (t : Tree) : (hashList t).length = nodes t := by
  induction t with
  | atom b => rfl
  | pair l r ihl ihr => simp [hashList, nodes, ihl, ihr]; omega

theorem hashList_head (t : Tree) : ∃ tl, hashList t = treeHash t :: tl := by
  cases t with
  | atom b => exact ⟨[], rfl⟩
  | pair l r => exact ⟨_, rfl⟩

/-! ### list plumbing -/

theorem getElem?_mid {α : Type} (xs : List α) (y : α) (ys : List α) :
    (xs ++ y :: ys)[xs.length]? = some y := by
  simp

theorem getElem?_after {α : Type} (xs : List α) (y : α) (ys : List α) (k : Nat) :
    (xs ++ y :: ys)[xs.length + 1 + k]? = ys[k]? := by
  rw [List.getElem?_append_right (by omega)]
  have : xs.length + 1 + k - xs.length = k + 1 := by omega
  rw [this]
  simp

theorem set_mid {α : Type} (xs : List α) (y z : α) (ys : List α) :
    (xs ++ y :: ys).set xs.length z = xs ++ z :: ys := by
  simp

/-! ### single steps -/

theorem step_saveRightIndex (inp : Bytes) (ops : List ParseOpRef) (R : List Triple) (c e ri : Nat)
    (ts : List Triple) (TH : List Bytes) (cur : Nat) :
    triplesLoop true inp (.saveRightIndex R.length :: ops)
        { r := R ++ .pair c e ri :: ts, treeHashes := TH, cursor := cur }
      = triplesLoop true inp ops
        { r := R ++ .pair c e (R.length + 1 + ts.length) :: ts, treeHashes := TH, cursor := cur } := by
  rw [triplesLoop]
  simp only [getElem?_mid, set_mid, List.length_append, List.length_cons]
  have : R.length + (ts.length + 1) = R.length + 1 + ts.length := by omega
  rw [this]

theorem step_saveEnd (inp : Bytes) (ops : List ParseOpRef) (R : List Triple) (c e ri : Nat)
    (ts : List Triple) (TH0 : List Bytes) (z hl hr : Bytes) (THs : List Bytes) (cur : Nat)
    (h0 : TH0.length = R.length) (h1 : THs[0]? = some hl) (hri : R.length + 1 ≤ ri)
    (h2 : THs[ri - R.length - 1]? = some hr) :
    triplesLoop true inp (.saveEnd R.length :: ops)
        { r := R ++ .pair c e ri :: ts, treeHashes := TH0 ++ z :: THs, cursor := cur }
      = triplesLoop true inp ops
        { r := R ++ .pair c cur ri :: ts, treeHashes := TH0 ++ shaBlobs [[2], hl, hr] :: THs, cursor := cur } := by
  rw [triplesLoop]
  have e1 : (TH0 ++ z :: THs)[R.length + 1]? = some hl := by
    rw [← h0]
    have := getElem?_after TH0 z THs 0
    simpa [h1] using this
  have e2 : (TH0 ++ z :: THs)[ri]? = some hr := by
    have := getElem?_after TH0 z THs (ri - R.length - 1)
    rw [h0] at this
    have hh : R.length + 1 + (ri - R.length - 1) = ri := by omega
    rw [hh] at this
    rw [this, h2]
  have e3 : R.length < (TH0 ++ z :: THs).length := by
    simp only [List.length_append, List.length_cons]; omega
  have e4 : (TH0 ++ z :: THs).set R.length (shaBlobs [[2], hl, hr]) = TH0 ++ shaBlobs [[2], hl, hr] :: THs := by
    rw [← h0]; exact set_mid _ _ _ _
  simp only [getElem?_mid, set_mid, e1, e2, e3, e4, if_true]

theorem decode80 (rest : Bytes) : decodeSizeWithOffset rest 0x80 = .ok (1, 0) := by
  simp [decodeSizeWithOffset, leadingOnes, beFold, Gen.decodeSizeMaxPrefix, Gen.decodeSizeMax]

/-- an atom: one triple, one hash -/
theorem triples_atom (b : UInt8) (rest : Bytes) (ops : List ParseOpRef) (st : TriplesSt)
    (hb : ¬ (b.toNat == 0xff) = true) (n : Nat) (t : Tree) (hp : parseAtom rest b = .ok (n, t)) :
    ∃ tr cur, triplesLoop true (b :: rest) (.parseObj :: ops) st
      = triplesLoop true (rest.drop n) ops
          { r := st.r ++ [tr], treeHashes := st.treeHashes ++ [treeHash t], cursor := cur } := by
  rw [triplesLoop]
  simp only [hb, Bool.false_eq_true, ↓reduceIte]
  unfold parseAtom at hp
  by_cases h7f : b.toNat ≤ 0x7f
  · have h80 : ¬ (b.toNat == 0x80) = true := by simp; omega
    have hnt : n = 0 ∧ t = .atom [b] := by
      by_cases h1 : (b.toNat == 0x01) = true
      · have hb1 : b = 1 := uint8_eq_of_toNat (n := 1) (by decide) h1
        subst hb1
        simp at hp
        exact ⟨hp.1.symm, hp.2.symm⟩
      · simp [h1, h80, parseAtomPtr, MAX_SINGLE_BYTE, h7f] at hp
        exact ⟨hp.1.symm, hp.2.symm⟩
    obtain ⟨rfl, rfl⟩ := hnt
    refine ⟨.atom st.cursor (st.cursor + 1) 0, st.cursor + 1, ?_⟩
    simp [h7f, treeHashForByte, shaBlobs, treeHash]
  · have h1 : ¬ (b.toNat == 0x01) = true := by simp; omega
    simp only [h7f, if_false]
    by_cases h80 : (b.toNat == 0x80) = true
    · have hb80 : b.toNat = 0x80 := by simpa using h80
      simp [h1, h80] at hp
      obtain ⟨rfl, rfl⟩ := hp
      refine ⟨.atom st.cursor (st.cursor + 1 + 0) 1, st.cursor + 1 + 0, ?_⟩
      rw [hb80, decode80]
      simp [skipOrShaBytes, treeHash]
    · simp only [h1, h80, if_false, parseAtomPtr, MAX_SINGLE_BYTE, h7f, decodeSize] at hp
      cases hd : decodeSizeWithOffset rest b.toNat with
      | error e => simp [hd] at hp
      | ok p =>
        obtain ⟨off, size⟩ := p
        simp only [hd] at hp
        simp only [List.length_drop] at hp
        by_cases hl : rest.length - (off - 1) < size
        · simp [hl] at hp
        · simp only [hl, if_false] at hp
          simp at hp
          obtain ⟨rfl, rfl⟩ := hp
          refine ⟨.atom st.cursor (st.cursor + off + size) off, st.cursor + off + size, ?_⟩
          simp [skipOrShaBytes, hl, treeHash, List.drop_drop, Nat.add_comm]

/-- one object: `nodes t` triples and `hashList t` are appended -/
theorem triples_node : ∀ (f : Nat) (inp : Bytes) (t : Tree) (rest : Bytes),
    inp.length < f → parseTree f inp = .ok (t, rest) →
    ∀ (ops : List ParseOpRef) (st : TriplesSt), st.treeHashes.length = st.r.length →
      ∃ ts cur, ts.length = nodes t ∧
        triplesLoop true inp (.parseObj :: ops) st
          = triplesLoop true rest ops
              { r := st.r ++ ts, treeHashes := st.treeHashes ++ hashList t, cursor := cur } := by
  intro f
  induction f with
  | zero => intro inp t rest h; omega
  | succ f ih =>
    intro inp t rest hlen hp ops st hst
    cases inp with
    | nil => simp [parseTree] at hp
    | cons b tl =>
      simp only [List.length_cons] at hlen
      rw [parseTree] at hp
      by_cases hb : (b.toNat == 0xff) = true
      · simp only [hb, CONS_BOX_MARKER, if_true] at hp
        cases h1 : parseTree f tl with
        | error e => simp [h1] at hp
        | ok p1 =>
          obtain ⟨l, r1⟩ := p1
          have hl1 := parseTree_length _ _ _ _ h1
          simp only [h1] at hp
          cases h2 : parseTree f r1 with
          | error e => simp [h2] at hp
          | ok p2 =>
            obtain ⟨r, r2⟩ := p2
            simp only [h2] at hp
            simp at hp
            obtain ⟨rfl, rfl⟩ := hp
            -- push the pair entry
            have hstep : triplesLoop true (b :: tl) (.parseObj :: ops) st
                = triplesLoop true tl
                    (.parseObj :: .saveRightIndex st.r.length :: .parseObj :: .saveEnd st.r.length :: ops)
                    { r := st.r ++ [.pair st.cursor 0 0], treeHashes := st.treeHashes ++ [zero32],
                      cursor := st.cursor + 1 } := by
              rw [triplesLoop]; simp [hb]
            obtain ⟨tsl, cur1, hlenl, el⟩ := ih tl l r1 (by omega) h1
              (.saveRightIndex st.r.length :: .parseObj :: .saveEnd st.r.length :: ops)
              { r := st.r ++ [.pair st.cursor 0 0], treeHashes := st.treeHashes ++ [zero32],
                cursor := st.cursor + 1 } (by simp [hst])
            simp only [List.append_assoc, List.cons_append, List.nil_append] at el
            have e2 := step_saveRightIndex r1 (.parseObj :: .saveEnd st.r.length :: ops) st.r st.cursor 0 0 tsl
              (st.treeHashes ++ zero32 :: hashList l) cur1
            obtain ⟨tsr, cur2, hlenr, er⟩ := ih r1 r r2 (by omega) h2 (.saveEnd st.r.length :: ops)
              { r := st.r ++ .pair st.cursor 0 (st.r.length + 1 + tsl.length) :: tsl,
                treeHashes := st.treeHashes ++ zero32 :: hashList l, cursor := cur1 }
              (by simp [hst, hashList_length, hlenl])
            simp only [List.append_assoc, List.cons_append] at er
            obtain ⟨tll, htl⟩ := hashList_head l
            obtain ⟨trl, htr⟩ := hashList_head r
            have e4 := step_saveEnd r2 ops st.r st.cursor 0 (st.r.length + 1 + tsl.length) (tsl ++ tsr)
              st.treeHashes zero32 (treeHash l) (treeHash r) (hashList l ++ hashList r) cur2 hst
              (by rw [htl]; simp) (by omega)
              (by
                have : st.r.length + 1 + tsl.length - st.r.length - 1 = (hashList l).length := by
                  rw [hashList_length, hlenl]; omega
                rw [this, List.getElem?_append_right (Nat.le_refl _), htr]; simp)
            refine ⟨.pair st.cursor cur2 (st.r.length + 1 + tsl.length) :: (tsl ++ tsr), cur2, ?_, ?_⟩
            · simp [nodes, hlenl, hlenr]; omega
            · rw [hstep, el, e2, er, e4]
              simp [hashList, shaBlobs, treeHash]
      · simp only [hb, CONS_BOX_MARKER] at hp
        cases ha : parseAtom tl b with
        | error e => simp [ha] at hp
        | ok p =>
          obtain ⟨n, t'⟩ := p
          simp only [ha] at hp
          simp at hp
          obtain ⟨rfl, rfl⟩ := hp
          obtain ⟨tr, cur, e⟩ := triples_atom b tl ops st hb n t' ha
          refine ⟨[tr], cur, ?_, ?_⟩
          · cases t' <;> simp [nodes]
            · unfold parseAtom parseAtomPtr at ha
              repeat' split at ha
              all_goals simp at ha
          · rw [e]
            cases t' with
            | atom bs => simp [hashList]
            | pair l r =>
              unfold parseAtom parseAtomPtr at ha
              repeat' split at ha
              all_goals simp at ha

/-- `parse_triples(f, true)` on any input that `node_from_stream` decodes: one triple per node, the
hashes of all sub-trees in pre-order, the same remainder. -/
theorem parseTriples_of_decodes (inp : Bytes) (t : Tree) (rest : Bytes)
    (h : nodeFromStream inp [.sexp] [] = .ok (t, rest)) :
    ∃ ts, ts.length = nodes t ∧ parseTriples inp true = .ok (ts, some (hashList t), rest) := by
  rw [nodeFromStream_eq_parseTree] at h
  obtain ⟨ts, cur, hl, e⟩ := triples_node (inp.length + 1) inp t rest (by omega) h [] {} rfl
  refine ⟨ts, hl, ?_⟩
  unfold parseTriples
  rw [e, triplesLoop]
  simp

/-! ### the converse: `parse_triples` fails whenever the decoder fails -/

theorem triples_atom_err (b : UInt8) (rest : Bytes) (ops : List ParseOpRef) (st : TriplesSt)
    (hb : ¬ (b.toNat == 0xff) = true) (e : Err) (hp : parseAtom rest b = .error e) :
    ∃ e', triplesLoop true (b :: rest) (.parseObj :: ops) st = .error e' := by
  rw [triplesLoop]
  simp only [hb, Bool.false_eq_true, ↓reduceIte]
  unfold parseAtom at hp
  by_cases h7f : b.toNat ≤ 0x7f
  · have h80 : ¬ (b.toNat == 0x80) = true := by simp; omega
    by_cases h1 : (b.toNat == 0x01) = true
    · simp [h1] at hp
    · simp [h1, h80, parseAtomPtr, MAX_SINGLE_BYTE, h7f] at hp
  · have h1 : ¬ (b.toNat == 0x01) = true := by simp; omega
    simp only [h7f, if_false]
    by_cases h80 : (b.toNat == 0x80) = true
    · simp [h1, h80] at hp
    · simp only [h1, h80, if_false, parseAtomPtr, MAX_SINGLE_BYTE, h7f, decodeSize] at hp
      cases hd : decodeSizeWithOffset rest b.toNat with
      | error e2 => exact ⟨e2, rfl⟩
      | ok p =>
        obtain ⟨off, size⟩ := p
        simp only [hd] at hp
        simp only [List.length_drop] at hp
        by_cases hl : rest.length - (off - 1) < size
        · refine ⟨.InternalError "copy terminated early", ?_⟩
          simp [skipOrShaBytes, hl]
        · simp [hl] at hp

theorem triples_node_err : ∀ (f : Nat) (inp : Bytes) (e : Err),
    inp.length < f → parseTree f inp = .error e →
    ∀ (ops : List ParseOpRef) (st : TriplesSt), st.treeHashes.length = st.r.length →
      ∃ e', triplesLoop true inp (.parseObj :: ops) st = .error e' := by
  intro f
  induction f with
  | zero => intro inp e h; omega
  | succ f ih =>
    intro inp e hlen hp ops st hst
    cases inp with
    | nil => exact ⟨.SerializationError, by rw [triplesLoop]⟩
    | cons b tl =>
      simp only [List.length_cons] at hlen
      rw [parseTree] at hp
      by_cases hb : (b.toNat == 0xff) = true
      · simp only [hb, CONS_BOX_MARKER, if_true] at hp
        have hstep : triplesLoop true (b :: tl) (.parseObj :: ops) st
            = triplesLoop true tl
                (.parseObj :: .saveRightIndex st.r.length :: .parseObj :: .saveEnd st.r.length :: ops)
                { r := st.r ++ [.pair st.cursor 0 0], treeHashes := st.treeHashes ++ [zero32],
                  cursor := st.cursor + 1 } := by
          rw [triplesLoop]; simp [hb]
        cases h1 : parseTree f tl with
        | error e1 =>
          obtain ⟨e', he⟩ := ih tl e1 (by omega) h1
            (.saveRightIndex st.r.length :: .parseObj :: .saveEnd st.r.length :: ops)
            { r := st.r ++ [.pair st.cursor 0 0], treeHashes := st.treeHashes ++ [zero32],
              cursor := st.cursor + 1 } (by simp [hst])
          exact ⟨e', by rw [hstep, he]⟩
        | ok p1 =>
          obtain ⟨l, r1⟩ := p1
          have hl1 := parseTree_length _ _ _ _ h1
          simp only [h1] at hp
          cases h2 : parseTree f r1 with
          | ok p2 => obtain ⟨r, r2⟩ := p2; simp [h2] at hp
          | error e2 =>
            obtain ⟨tsl, cur1, hlenl, el⟩ := triples_node f tl l r1 (by omega) h1
              (.saveRightIndex st.r.length :: .parseObj :: .saveEnd st.r.length :: ops)
              { r := st.r ++ [.pair st.cursor 0 0], treeHashes := st.treeHashes ++ [zero32],
                cursor := st.cursor + 1 } (by simp [hst])
            simp only [List.append_assoc, List.cons_append, List.nil_append] at el
            have e2' := step_saveRightIndex r1 (.parseObj :: .saveEnd st.r.length :: ops) st.r st.cursor 0 0 tsl
              (st.treeHashes ++ zero32 :: hashList l) cur1
            obtain ⟨e', he⟩ := ih r1 e2 (by omega) h2 (.saveEnd st.r.length :: ops)
              { r := st.r ++ .pair st.cursor 0 (st.r.length + 1 + tsl.length) :: tsl,
                treeHashes := st.treeHashes ++ zero32 :: hashList l, cursor := cur1 }
              (by simp [hst, hashList_length, hlenl])
            exact ⟨e', by rw [hstep, el, e2', he]⟩
      · simp only [hb, CONS_BOX_MARKER] at hp
        cases ha : parseAtom tl b with
        | ok p => obtain ⟨n, t'⟩ := p; simp [ha] at hp
        | error e1 => exact triples_atom_err b tl ops st hb e1 ha

/-- whenever `parse_triples(f, true)` succeeds, `node_from_stream` succeeds on the same input with the
same remainder, and the hashes are those of the decoded tree -/
theorem decodes_of_parseTriples (inp : Bytes) (ts : List Triple) (hs : Option (List Bytes)) (rest : Bytes)
    (h : parseTriples inp true = .ok (ts, hs, rest)) :
    ∃ t, nodeFromStream inp [.sexp] [] = .ok (t, rest) ∧ hs = some (hashList t) ∧ ts.length = nodes t := by
  cases hp : parseTree (inp.length + 1) inp with
  | error e =>
    obtain ⟨e', he⟩ := triples_node_err (inp.length + 1) inp e (by omega) hp [] {} rfl
    simp [parseTriples, he] at h
  | ok p =>
    obtain ⟨t, rest'⟩ := p
    have hd : nodeFromStream inp [.sexp] [] = .ok (t, rest') := by rw [nodeFromStream_eq_parseTree, hp]
    obtain ⟨ts', hl, e⟩ := parseTriples_of_decodes inp t rest' hd
    rw [e] at h
    simp at h
    obtain ⟨rfl, rfl, rfl⟩ := h
    exact ⟨t, hd, rfl, hl⟩

end Clvm.TreeHash
