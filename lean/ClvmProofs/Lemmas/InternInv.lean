/-
Invariant of the interning loop (`Intern.step`), preserved by every iteration.
-/
import ClvmModel.Intern

namespace Clvm.Intern

/-! ### reachability in the source DAG, sub-trees -/

inductive Reach (d : Dag) : Nat → Nat → Prop
  | refl (i : Nat) : Reach d i i
  | left {a i l r : Nat} : Reach d a i → d[i]? = some (SNode.pair l r) → Reach d a l
  | right {a i l r : Nat} : Reach d a i → d[i]? = some (SNode.pair l r) → Reach d a r

/-- `Subtree s t`: `s` occurs in `t` -/
inductive Subtree : Tree → Tree → Prop
  | refl (t : Tree) : Subtree t t
  | left {s l r : Tree} : Subtree s l → Subtree s (.pair l r)
  | right {s l r : Tree} : Subtree s r → Subtree s (.pair l r)

theorem Subtree.trans {a b c : Tree} (h1 : Subtree a b) (h2 : Subtree b c) : Subtree a c := by
  induction h2 with
  | refl => exact h1
  | left _ ih => exact .left ih
  | right _ ih => exact .right ih

theorem denote_atom {d : Dag} {i : Nat} {b : Bytes} (h : d[i]? = some (SNode.atom b)) :
    denote d i = .atom b := by
  rw [denote.eq_def, h]

theorem denote_pair {d : Dag} (wf : d.WF) {i l r : Nat} (h : d[i]? = some (SNode.pair l r)) :
    denote d i = .pair (denote d l) (denote d r) := by
  rw [denote.eq_def, h]
  simp [wf i l r h]

theorem Reach.subtree {d : Dag} (wf : d.WF) {a i : Nat} (h : Reach d a i) :
    Subtree (denote d i) (denote d a) := by
  induction h with
  | refl => exact .refl _
  | left _ hi ih => rw [denote_pair wf hi] at ih; exact Subtree.trans (.left (.refl _)) ih
  | right _ hi ih => rw [denote_pair wf hi] at ih; exact Subtree.trans (.right (.refl _)) ih

theorem Reach.lt_size {d : Dag} (wf : d.WF) {a i : Nat} (h : Reach d a i) (ha : a < d.size) : i < d.size := by
  induction h with
  | refl => exact ha
  | left _ hi ih => have := (wf _ _ _ hi).1; omega
  | right _ hi ih => have := (wf _ _ _ hi).2; omega

/-! ### interned nodes -/

def INode.Valid (na np : Nat) : INode → Prop
  | .atom k => k < na
  | .pair k => k < np

theorem INode.Valid.mono {na np na' np' : Nat} {n : INode} (h : n.Valid na np) (h1 : na ≤ na') (h2 : np ≤ np') :
    n.Valid na' np' := by
  cases n <;> simp [INode.Valid] at * <;> omega

theorem treeOf_atom (A : List Bytes) (P : List (INode × INode)) (k : Nat) :
    treeOf A P (.atom k) = (A[k]?).map Tree.atom := by
  rw [treeOf]

theorem treeOf_pair (A : List Bytes) (P : List (INode × INode)) (k : Nat) (l r : INode)
    (hk : P[k]? = some (l, r)) (hl : l.rank ≤ k) (hr : r.rank ≤ k) :
    treeOf A P (.pair k) =
      match treeOf A P l, treeOf A P r with
      | some a, some b => some (.pair a b)
      | _, _ => none := by
  rw [treeOf, hk]
  simp only
  rw [dif_pos (by omega)]
  rfl

/-- appending to the tables does not change what an existing node denotes -/
theorem treeOf_append (A A' : List Bytes) (P P' : List (INode × INode)) (n : INode) (t : Tree)
    (h : treeOf A P n = some t) : treeOf (A ++ A') (P ++ P') n = some t := by
  induction n using treeOf.induct A P generalizing t with
  | case1 k =>
    rw [treeOf_atom] at h ⊢
    cases hk : A[k]? with
    | none => rw [hk] at h; cases h
    | some b =>
      have hlt : k < A.length := by
        rcases Nat.lt_or_ge k A.length with h' | h'
        · exact h'
        · rw [List.getElem?_eq_none h'] at hk; cases hk
      rw [List.getElem?_append_left hlt, hk]; rw [hk] at h; exact h
  | case2 k hk => rw [treeOf, hk] at h; cases h
  | case3 k l r hk hlr a b hb ha ihl ihr =>
    have hlt : k < P.length := by
      rcases Nat.lt_or_ge k P.length with h' | h'
      · exact h'
      · rw [List.getElem?_eq_none h'] at hk; cases hk
    have hk' : (P ++ P')[k]? = some (l, r) := by rw [List.getElem?_append_left hlt, hk]
    rw [treeOf_pair A P k l r hk (by omega) (by omega), ha, hb] at h
    rw [treeOf_pair _ _ k l r hk' (by omega) (by omega), ihl a ha, ihr b hb]
    exact h
  | case4 k l r hk hlr hno ihl ihr =>
    rw [treeOf_pair A P k l r hk (by omega) (by omega)] at h
    split at h
    · rename_i a b ha hb; exact absurd hb (fun hb => hno a b ha hb)
    · cases h
  | case5 k l r hk hn =>
    rw [treeOf, hk] at h
    simp only at h
    rw [dif_neg hn] at h; cases h

/-! ### the invariant -/

structure Inv (d : Dag) (root : Nat) (s : State) : Prop where
  atomFwd : ∀ k b, s.atoms[k]? = some b → s.atomToInterned.lookup b = some (.atom k)
  atomBwd : ∀ b n, s.atomToInterned.lookup b = some n → ∃ k, n = .atom k ∧ s.atoms[k]? = some b
  pairFwd : ∀ k p, s.pairs[k]? = some p → s.pairToInterned.lookup p = some (.pair k)
  pairBwd : ∀ p n, s.pairToInterned.lookup p = some n → ∃ k, n = .pair k ∧ s.pairs[k]? = some p
  pairWF : ∀ (k : Nat) (l r : INode), s.pairs[k]? = some (l, r) →
    l.rank ≤ k ∧ r.rank ≤ k ∧ l.Valid s.atoms.length s.pairs.length ∧ r.Valid s.atoms.length s.pairs.length
  memo : ∀ i n, s.nodeToInterned.lookup i = some n →
    i < d.size ∧ n.Valid s.atoms.length s.pairs.length ∧ treeOf s.atoms s.pairs n = some (denote d i) ∧ Reach d root i
  stackOk : ∀ i, i ∈ s.stack → i < d.size ∧ Reach d root i
  origin : ∀ n, n.Valid s.atoms.length s.pairs.length →
    ∃ i, Reach d root i ∧ i < d.size ∧ treeOf s.atoms s.pairs n = some (denote d i)
  rootIn : root ∈ s.stack ∨ (s.nodeToInterned.lookup root).isSome

theorem getElem?_lt {α : Type} {l : List α} {k : Nat} {x : α} (h : l[k]? = some x) : k < l.length := by
  rcases Nat.lt_or_ge k l.length with h' | h'
  · exact h'
  · rw [List.getElem?_eq_none h'] at h; cases h

theorem lookup_cons_self {α β : Type} [BEq α] [LawfulBEq α] (k : α) (v : β) (l : List (α × β)) :
    List.lookup k ((k, v) :: l) = some v := by
  simp

theorem lookup_cons_ne {α β : Type} [BEq α] [LawfulBEq α] (a k : α) (v : β) (l : List (α × β)) (h : a ≠ k) :
    List.lookup a ((k, v) :: l) = List.lookup a l := by
  have : (a == k) = false := by simpa using h
  simp [List.lookup_cons, this]

theorem Inv.valid_treeOf {d : Dag} {root : Nat} {s : State} (inv : Inv d root s) (n : INode)
    (h : n.Valid s.atoms.length s.pairs.length) : ∃ t, treeOf s.atoms s.pairs n = some t := by
  obtain ⟨i, _, _, ht⟩ := inv.origin n h
  exact ⟨_, ht⟩

/-- the initial state -/
theorem Inv.init (d : Dag) (root : Nat) (ctr : Counters) (hroot : root < d.size) :
    Inv d root { ctr, atoms := [], pairs := [], nodeToInterned := [], atomToInterned := [],
                 pairToInterned := [], stack := [root] } := by
  refine ⟨?_, ?_, ?_, ?_, ?_, ?_, ?_, ?_, ?_⟩
  · intro k b h; simp at h
  · intro b n h; simp [List.lookup] at h
  · intro k p h; simp at h
  · intro p n h; simp [List.lookup] at h
  · intro k l r h; simp at h
  · intro i n h; simp [List.lookup] at h
  · intro i hi; simp at hi; subst hi; exact ⟨hroot, .refl _⟩
  · intro n h; cases n <;> simp [INode.Valid] at h
  · left; simp

/-- memo entries, frame: a step only ever adds the binding for `current` -/
theorem step_memo {d : Dag} {s s' : State} {cur : Nat} {rest : List Nat} (h : step d s cur rest = .ok s') :
    s'.nodeToInterned = s.nodeToInterned ∨
      (s.nodeToInterned.lookup cur = none ∧ ∃ n, s'.nodeToInterned = (cur, n) :: s.nodeToInterned) := by
  unfold step at h
  split at h
  · cases h; left; rfl
  · rename_i hnone
    have hnone' : s.nodeToInterned.lookup cur = none := by
      cases hc : s.nodeToInterned.lookup cur with
      | none => rfl
      | some v => rw [hc] at hnone; simp at hnone
    split at h
    · cases h
    · split at h
      · cases h; right; exact ⟨hnone', _, rfl⟩
      · split at h
        · cases h
        · cases h; right; exact ⟨hnone', _, rfl⟩
    · dsimp only at h
      split at h
      · split at h
        · cases h; right; exact ⟨hnone', _, rfl⟩
        · split at h
          · cases h
          · cases h; right; exact ⟨hnone', _, rfl⟩
      · cases h; left; rfl

/-- **every iteration preserves the invariant** -/
theorem Inv.step {d : Dag} (wf : d.WF) {root : Nat} {s s' : State} {cur : Nat} {rest : List Nat}
    (inv : Inv d root s) (hst : s.stack = cur :: rest) (h : step d s cur rest = .ok s') : Inv d root s' := by
  have hcur := inv.stackOk cur (by rw [hst]; simp)
  have hrest : ∀ i, i ∈ rest → i < d.size ∧ Reach d root i := fun i hi => inv.stackOk i (by rw [hst]; simp [hi])
  have hroot0 : root ∈ rest ∨ root = cur ∨ (s.nodeToInterned.lookup root).isSome := by
    rcases inv.rootIn with h1 | h1
    · rw [hst] at h1; simp at h1; rcases h1 with h1 | h1
      · right; left; exact h1
      · left; exact h1
    · right; right; exact h1
  unfold Intern.step at h
  split at h
  · -- already interned
    rename_i hsome
    cases h
    refine { inv with stackOk := hrest, rootIn := ?_ }
    rcases hroot0 with h1 | h1 | h1
    · left; exact h1
    · right; subst h1; exact hsome
    · right; exact h1
  · rename_i hnone
    split at h
    · cases h
    · -- atom
      rename_i atom hd
      have hden := denote_atom hd
      split at h
      · -- known atom
        rename_i o ho
        cases h
        obtain ⟨k, rfl, hk⟩ := inv.atomBwd atom o ho
        refine { inv with stackOk := hrest, memo := ?_, rootIn := ?_ }
        · intro i n hi
          by_cases hic : i = cur
          · subst hic
            rw [lookup_cons_self] at hi; cases hi
            refine ⟨hcur.1, getElem?_lt hk, ?_, hcur.2⟩
            rw [treeOf_atom, hk, hden]; rfl
          · rw [lookup_cons_ne _ _ _ _ hic] at hi; exact inv.memo i n hi
        · rcases hroot0 with h1 | h1 | h1
          · left; exact h1
          · right; subst h1; simp
          · right
            by_cases hrc : root = cur
            · subst hrc; simp
            · rw [lookup_cons_ne _ _ _ _ hrc]; exact h1
      · -- new atom
        rename_i hno
        split at h
        · cases h
        · rename_i ctr hctr
          cases h
          have hnotin : ∀ k : Nat, s.atoms[k]? ≠ some atom := by
            intro k hk; rw [inv.atomFwd k atom hk] at hno; cases hno
          have mono : ∀ n t, treeOf s.atoms s.pairs n = some t → treeOf (s.atoms ++ [atom]) s.pairs n = some t := by
            intro n t ht
            have := treeOf_append s.atoms [atom] s.pairs [] n t ht
            simpa using this
          have vmono : ∀ n : INode, n.Valid s.atoms.length s.pairs.length →
              n.Valid (s.atoms ++ [atom]).length s.pairs.length := by
            intro n hn; exact hn.mono (by simp) (Nat.le_refl _)
          have hnew : treeOf (s.atoms ++ [atom]) s.pairs (INode.atom s.atoms.length) = some (denote d cur) := by
            rw [treeOf_atom, List.getElem?_append_right (Nat.le_refl _), hden]; simp
          refine ⟨?_, ?_, inv.pairFwd, inv.pairBwd, ?_, ?_, hrest, ?_, ?_⟩
          · intro k b hk
            simp only at hk ⊢
            rw [List.getElem?_append] at hk
            split at hk
            · have hne : b ≠ atom := by intro e; subst e; exact hnotin k hk
              rw [lookup_cons_ne _ _ _ _ hne]; exact inv.atomFwd k b hk
            · rename_i hge
              have hk0 : k = s.atoms.length := by
                have := getElem?_lt hk; simp at this; omega
              subst hk0; simp at hk; subst hk
              rw [lookup_cons_self]
          · intro b n hb
            simp only at hb ⊢
            by_cases hba : b = atom
            · subst hba; rw [lookup_cons_self] at hb; cases hb
              exact ⟨_, rfl, by rw [List.getElem?_append_right (Nat.le_refl _)]; simp⟩
            · rw [lookup_cons_ne _ _ _ _ hba] at hb
              obtain ⟨k, rfl, hk⟩ := inv.atomBwd b n hb
              exact ⟨k, rfl, by rw [List.getElem?_append_left (getElem?_lt hk)]; exact hk⟩
          · intro k l r hk
            obtain ⟨h1, h2, h3, h4⟩ := inv.pairWF k l r hk
            exact ⟨h1, h2, vmono l h3, vmono r h4⟩
          · intro i n hi
            simp only at hi ⊢
            by_cases hic : i = cur
            · subst hic
              rw [lookup_cons_self] at hi; cases hi
              refine ⟨hcur.1, by simp [INode.Valid], hnew, hcur.2⟩
            · rw [lookup_cons_ne _ _ _ _ hic] at hi
              obtain ⟨h1, h2, h3, h4⟩ := inv.memo i n hi
              exact ⟨h1, vmono n h2, mono n _ h3, h4⟩
          · intro n hn
            simp only at hn ⊢
            by_cases hold : n.Valid s.atoms.length s.pairs.length
            · obtain ⟨i, h1, h2, h3⟩ := inv.origin n hold
              exact ⟨i, h1, h2, mono n _ h3⟩
            · have : n = INode.atom s.atoms.length := by
                cases n with
                | atom k => simp [INode.Valid] at hn hold; congr; omega
                | pair k => simp [INode.Valid] at hn hold; omega
              subst this
              exact ⟨cur, hcur.2, hcur.1, hnew⟩
          · simp only
            rcases hroot0 with h1 | h1 | h1
            · left; exact h1
            · right; subst h1; simp
            · right
              by_cases hrc : root = cur
              · subst hrc; simp
              · rw [lookup_cons_ne _ _ _ _ hrc]; exact h1
    · -- pair
      rename_i left right hd
      have hden := denote_pair wf hd
      have hlr := wf _ _ _ hd
      dsimp only at h
      split at h
      · -- both children interned
        rename_i l r hl hr
        obtain ⟨_, hlv, hlt, _⟩ := inv.memo left l hl
        obtain ⟨_, hrv, hrt, _⟩ := inv.memo right r hr
        split at h
        · -- known pair
          rename_i o ho
          cases h
          obtain ⟨k, rfl, hk⟩ := inv.pairBwd (l, r) o ho
          obtain ⟨w1, w2, _, _⟩ := inv.pairWF k l r hk
          refine { inv with stackOk := hrest, memo := ?_, rootIn := ?_ }
          · intro i n hi
            by_cases hic : i = cur
            · subst hic
              rw [lookup_cons_self] at hi; cases hi
              refine ⟨hcur.1, getElem?_lt hk, ?_, hcur.2⟩
              rw [treeOf_pair _ _ k l r hk w1 w2, hlt, hrt, hden]
            · rw [lookup_cons_ne _ _ _ _ hic] at hi; exact inv.memo i n hi
          · rcases hroot0 with h1 | h1 | h1
            · left; exact h1
            · right; subst h1; simp
            · right
              by_cases hrc : root = cur
              · subst hrc; simp
              · rw [lookup_cons_ne _ _ _ _ hrc]; exact h1
        · -- new pair
          rename_i hno
          split at h
          · cases h
          · rename_i ctr hctr
            cases h
            have hnotin : ∀ k : Nat, s.pairs[k]? ≠ some (l, r) := by
              intro k hk; rw [inv.pairFwd k (l, r) hk] at hno; cases hno
            have mono : ∀ n t, treeOf s.atoms s.pairs n = some t → treeOf s.atoms (s.pairs ++ [(l, r)]) n = some t := by
              intro n t ht
              have := treeOf_append s.atoms [] s.pairs [(l, r)] n t ht
              simpa using this
            have vmono : ∀ n : INode, n.Valid s.atoms.length s.pairs.length →
                n.Valid s.atoms.length (s.pairs ++ [(l, r)]).length := by
              intro n hn; exact hn.mono (Nat.le_refl _) (by simp)
            have hlrank : l.rank ≤ s.pairs.length := by
              cases l <;> simp [INode.rank, INode.Valid] at hlv ⊢; omega
            have hrrank : r.rank ≤ s.pairs.length := by
              cases r <;> simp [INode.rank, INode.Valid] at hrv ⊢; omega
            have hnew : treeOf s.atoms (s.pairs ++ [(l, r)]) (INode.pair s.pairs.length) = some (denote d cur) := by
              rw [treeOf_pair _ _ s.pairs.length l r (by rw [List.getElem?_append_right (Nat.le_refl _)]; simp)
                hlrank hrrank, mono l _ hlt, mono r _ hrt, hden]
            refine ⟨inv.atomFwd, inv.atomBwd, ?_, ?_, ?_, ?_, hrest, ?_, ?_⟩
            · intro k p hk
              simp only at hk ⊢
              rw [List.getElem?_append] at hk
              split at hk
              · have hne : p ≠ (l, r) := by intro e; subst e; exact hnotin k hk
                rw [lookup_cons_ne _ _ _ _ hne]; exact inv.pairFwd k p hk
              · have hk0 : k = s.pairs.length := by
                  have := getElem?_lt hk; simp at this; omega
                subst hk0; simp at hk; subst hk
                rw [lookup_cons_self]
            · intro p n hp
              simp only at hp ⊢
              by_cases hpa : p = (l, r)
              · subst hpa; rw [lookup_cons_self] at hp; cases hp
                exact ⟨_, rfl, by rw [List.getElem?_append_right (Nat.le_refl _)]; simp⟩
              · rw [lookup_cons_ne _ _ _ _ hpa] at hp
                obtain ⟨k, rfl, hk⟩ := inv.pairBwd p n hp
                exact ⟨k, rfl, by rw [List.getElem?_append_left (getElem?_lt hk)]; exact hk⟩
            · intro k l' r' hk
              simp only at hk ⊢
              rw [List.getElem?_append] at hk
              split at hk
              · obtain ⟨h1, h2, h3, h4⟩ := inv.pairWF k l' r' hk
                exact ⟨h1, h2, vmono l' h3, vmono r' h4⟩
              · have hk0 : k = s.pairs.length := by
                  have := getElem?_lt hk; simp at this; omega
                subst hk0; simp at hk
                obtain ⟨rfl, rfl⟩ := hk
                exact ⟨hlrank, hrrank, vmono _ hlv, vmono _ hrv⟩
            · intro i n hi
              simp only at hi ⊢
              by_cases hic : i = cur
              · subst hic
                rw [lookup_cons_self] at hi; cases hi
                refine ⟨hcur.1, by simp [INode.Valid], hnew, hcur.2⟩
              · rw [lookup_cons_ne _ _ _ _ hic] at hi
                obtain ⟨h1, h2, h3, h4⟩ := inv.memo i n hi
                exact ⟨h1, vmono n h2, mono n _ h3, h4⟩
            · intro n hn
              simp only at hn ⊢
              by_cases hold : n.Valid s.atoms.length s.pairs.length
              · obtain ⟨i, h1, h2, h3⟩ := inv.origin n hold
                exact ⟨i, h1, h2, mono n _ h3⟩
              · have : n = INode.pair s.pairs.length := by
                  cases n with
                  | atom k => simp [INode.Valid] at hn hold; omega
                  | pair k => simp [INode.Valid] at hn hold; congr; omega
                subst this
                exact ⟨cur, hcur.2, hcur.1, hnew⟩
            · simp only
              rcases hroot0 with h1 | h1 | h1
              · left; exact h1
              · right; subst h1; simp
              · right
                by_cases hrc : root = cur
                · subst hrc; simp
                · rw [lookup_cons_ne _ _ _ _ hrc]; exact h1
      · -- children first
        cases h
        have hl : left < d.size ∧ Reach d root left := ⟨by omega, .left hcur.2 hd⟩
        have hr : right < d.size ∧ Reach d root right := ⟨by omega, .right hcur.2 hd⟩
        refine { inv with stackOk := ?_, rootIn := ?_ }
        · intro i hi
          simp only at hi
          have : i = left ∨ i = right ∨ i = cur ∨ i ∈ rest := by
            split at hi <;> split at hi <;> simp at hi <;> grind
          rcases this with h1 | h1 | h1 | h1
          · subst h1; exact hl
          · subst h1; exact hr
          · subst h1; exact hcur
          · exact hrest i h1
        · simp only
          rcases hroot0 with h1 | h1 | h1
          · left; split <;> split <;> simp [h1]
          · left; subst h1; split <;> split <;> simp
          · right; exact h1

end Clvm.Intern
