/-
Converse direction for the canonical check: whatever `is_canonical_serialization` accepts and
`node_from_stream` decodes is the specification's serialization of the decoded tree.
-/
import ClvmProofs.Lemmas.ClassicDe
set_option linter.unusedSimpArgs false
namespace Clvm.Serde.Classic

theorem atomPrefix_eq_hdr (a : Bytes) (h : ∀ x, a = [x] → 0x80 ≤ x.toNat) :
    atomPrefix a = hdrW (width a.length) a.length := by
  match a, h with
  | [], _ => rfl
  | [x], h =>
    have := h x rfl
    simp [atomPrefix, show ¬ x.toNat < 128 by omega]; rfl
  | x :: y :: t, _ => rfl

/-- what a successful `is_canonical_atom` says about the bytes it skipped: they are the
encoding `atomEnc a` of an atom -/
theorem isCanonicalAtom_inv (buf : Bytes) (pos pos' : Nat) (first : UInt8)
    (h : isCanonicalAtom buf pos first.toNat = .ok (some pos')) (hp : pos' ≤ buf.length) :
    ∃ a : Bytes, a.length < 2 ^ 34 ∧ first :: buf.drop pos = atomEnc a ++ buf.drop pos' ∧
      pos' + 1 = pos + (atomEnc a).length := by
  unfold isCanonicalAtom at h
  by_cases h7 : first.toNat ≤ 0x7f
  · simp [MAX_SINGLE_BYTE, h7] at h
    subst h
    refine ⟨[first], by simp, ?_, ?_⟩ <;> simp [atomEnc, atomPrefix, show first.toNat < 128 by omega]
  by_cases h8 : first.toNat = 0x80
  · simp [h8] at h
    subst h
    have : first = 0x80 := UInt8.toNat_inj.mp h8
    subst this
    refine ⟨[], by simp, ?_, ?_⟩ <;> simp [atomEnc, atomPrefix, width, hdrW]
  have hc : (first.toNat == 0x80 || decide (first.toNat ≤ MAX_SINGLE_BYTE)) = false := by
    simp [MAX_SINGLE_BYTE, h8, h7]
  simp only [hc, Bool.false_eq_true, if_false] at h
  cases hd : decodeSizeWithOffset (buf.drop pos) first.toNat with
  | error e =>
    rw [hd] at h
    cases e <;> simp at h
  | ok r =>
    obtain ⟨k, n⟩ := r
    rw [hd] at h
    obtain ⟨hk1, hk6, hcap, hn, hklen, hhdr⟩ := decode_inv _ _ _ _ hd
    have hnot : ¬ (k < 1 ∨ k > 6) := by omega
    simp only [hnot, if_false] at h
    have hn1 : k = 1 → 1 ≤ n := by
      intro hk; subst hk
      by_cases h0 : n = 0
      · subst h0
        simp [hdrW] at hhdr
        subst hhdr; exact absurd (by decide) h8
      · omega
    have hsplit : first :: buf.drop pos = hdrW k n ++ buf.drop (pos + (k - 1)) := by
      rw [← hhdr, List.cons_append, ← List.drop_drop, List.take_append_drop]
    have hw := width_eq_iff k n hk1 hk6 hcap hn hn1
    by_cases hn1' : n = 1
    · subst hn1'
      simp only [beq_self_eq_true, if_true] at h
      cases hv : buf.drop (pos + (k - 1)) with
      | nil => rw [hv] at h; simp at h
      | cons v tl =>
        rw [hv] at h
        by_cases hv8 : v.toNat < 0x80
        · simp [hv8] at h
        · simp only [hv8, if_false] at h
          by_cases hmin : 1 ≥ thr Gen.canonMinValue (k - 1)
          · simp only [hmin, if_true, Except.ok.injEq, Option.some.injEq] at h
            subst h
            have hwk := hw.mpr hmin
            have htl : buf.drop (pos + (k - 1) + 1) = tl := by
              have := drop_of_eq_append (A := [v]) (B := tl) (by simpa using hv)
              simpa using this
            refine ⟨[v], by simp, ?_, ?_⟩
            · rw [hsplit, hv, htl]
              simp [atomEnc, atomPrefix, hv8, ← hwk]
              rfl
            · simp [atomEnc, atomPrefix, hv8, hdrW]
              have : width 1 = 1 := by decide
              omega
          · simp [hmin] at h
    · have : (n == 1) = false := by simp [hn1']
      simp only [this, Bool.false_eq_true, if_false] at h
      by_cases hmin : n ≥ thr Gen.canonMinValue (k - 1)
      · simp only [hmin, if_true, Except.ok.injEq, Option.some.injEq] at h
        subst h
        have hwk := hw.mpr hmin
        let a := (buf.drop (pos + (k - 1))).take n
        have hal : a.length = n := by
          simp only [a, List.length_take, List.length_drop]; omega
        have hpre : atomPrefix a = hdrW k n := by
          rw [atomPrefix_eq_hdr a (by
            intro x hx
            have : a.length = 1 := by rw [hx]; rfl
            omega), hal, hwk]
        refine ⟨a, by omega, ?_, ?_⟩
        · rw [hsplit, atomEnc, hpre, List.append_assoc]
          congr 1
          have := (List.take_append_drop n (buf.drop (pos + (k - 1)))).symm
          rw [List.drop_drop] at this
          exact this
        · have := hdrW_length k n hk1 hk6
          simp [atomEnc, hpre, hal, this]; omega
      · simp [hmin] at h


theorem decode_fe (inp : Bytes) : ∃ e, decodeSizeWithOffset inp 254 = .error e := by
  unfold decodeSizeWithOffset
  have h1 : ((254 : Nat) &&& 0x80 == 0) = false := by decide
  have h2 : leadingOnes 254 = 7 := by decide
  simp only [h1, h2, Bool.false_eq_true, if_false, Gen.decodeSizeMaxPrefix]
  by_cases hl : inp.length < 6
  · exact ⟨.SerializationError, by simp [hl]⟩
  · have : (List.take 6 inp).length = 6 := by rw [List.length_take]; omega
    exact ⟨.SerializationError, by simp [hl, this]⟩

theorem nodeFromStream_fe (b : UInt8) (hb : b.toNat = 254) (rest : Bytes) (ops : List ParseOp)
    (vals : List Tree) :
    ∃ e, nodeFromStream (b :: rest) (.sexp :: ops) vals = .error e := by
  obtain ⟨e, he⟩ := decode_fe rest
  refine ⟨e, ?_⟩
  rw [nodeFromStream]
  simp [CONS_BOX_MARKER, hb, parseAtom, parseAtomPtr, MAX_SINGLE_BYTE, decodeSize, he]

theorem drop_cons_of_eq {buf : Bytes} {pos : Nat} {b : UInt8} {rest : Bytes}
    (h : buf.drop pos = b :: rest) : buf.drop (pos + 1) = rest := by
  have := drop_of_eq_append (A := [b]) (B := rest) (by simpa using h)
  simpa using this

theorem canon_inv (fuel : Nat) : ∀ (buf : Bytes) (pos c : Nat) (extra : Bytes) (ops : List ParseOp)
    (vals : List Tree) (T : Tree) (R : Bytes),
    isCanonicalGo buf pos (c + 1) fuel = .ok true →
    nodeFromStream (buf.drop pos ++ extra) (.sexp :: ops) vals = .ok (T, R) →
    ∃ t fuel', fuel' ≤ fuel ∧ t.atomsBelow (2 ^ 34) ∧ pos + (serSpec t).length ≤ buf.length ∧
      buf.drop pos = serSpec t ++ buf.drop (pos + (serSpec t).length) ∧
      nodeFromStream (buf.drop (pos + (serSpec t).length) ++ extra) ops (t :: vals) = .ok (T, R) ∧
      isCanonicalGo buf (pos + (serSpec t).length) c fuel' = .ok true := by
  induction fuel using Nat.strongRecOn with
  | ind fuel ih =>
    intro buf pos c extra ops vals T R hc hn
    cases fuel with
    | zero => simp [isCanonicalGo] at hc
    | succ fuel =>
      rw [isCanonicalGo] at hc
      simp only [show (c + 1 == 0) = false by simp, Bool.false_eq_true, if_false,
        Nat.add_sub_cancel] at hc
      cases hd : buf.drop pos with
      | nil => simp [hd] at hc
      | cons b rest =>
        have hrest := drop_cons_of_eq hd
        have hlen := length_of_drop_eq hd (by simp)
        simp only [List.length_cons] at hlen
        rw [hd] at hc hn
        simp only at hc
        by_cases hff : b.toNat = 0xff
        · simp only [CONS_BOX_MARKER, hff, beq_self_eq_true, if_true,
            show ¬ buf.length < pos + 1 by omega, if_false] at hc
          rw [List.cons_append, nodeFromStream] at hn
          simp only [CONS_BOX_MARKER, hff, beq_self_eq_true, if_true] at hn
          rw [← hrest] at hn
          obtain ⟨t1, f1, hf1, ha1, hl1, hs1, hn1, hc1⟩ :=
            ih fuel (by omega) buf (pos + 1) (c + 1) extra _ vals T R hc hn
          obtain ⟨t2, f2, hf2, ha2, hl2, hs2, hn2, hc2⟩ :=
            ih f1 (by omega) buf _ c extra _ _ T R hc1 hn1
          rw [nodeFromStream] at hn2
          have hb : b = 0xff := UInt8.toNat_inj.mp hff
          have hsl : (serSpec (.pair t1 t2)).length = 1 + (serSpec t1).length + (serSpec t2).length := by
            simp [serSpec]; omega
          have hpos : pos + (serSpec (.pair t1 t2)).length
              = pos + 1 + (serSpec t1).length + (serSpec t2).length := by omega
          refine ⟨.pair t1 t2, f2, by omega, ⟨ha1, ha2⟩, by omega, ?_, ?_, ?_⟩
          · rw [hpos, hb, ← hrest, hs1, hs2]
            simp [serSpec]
          · rw [hpos]; exact hn2
          · rw [hpos]; exact hc2
        · simp only [CONS_BOX_MARKER, hff, beq_iff_eq, if_false] at hc
          by_cases hfe : b.toNat = 0xfe
          · obtain ⟨e, he⟩ := nodeFromStream_fe b hfe (rest ++ extra) ops vals
            rw [List.cons_append, he] at hn; cases hn
          · simp only [BACK_REFERENCE, hfe, if_false] at hc
            cases hca : isCanonicalAtom buf (pos + 1) b.toNat with
            | error e => simp [hca] at hc
            | ok r =>
              cases r with
              | none => simp [hca] at hc
              | some pos' =>
                simp only [hca] at hc
                by_cases hpl : buf.length < pos'
                · simp [hpl] at hc
                · simp only [hpl, if_false] at hc
                  obtain ⟨a, hal, hsplit, hpos'⟩ := isCanonicalAtom_inv buf (pos + 1) pos' b hca (by omega)
                  have hp : pos' = pos + (atomEnc a).length := by omega
                  subst hp
                  rw [hrest, ← hd] at hsplit
                  refine ⟨.atom a, fuel, by omega, hal, by simp only [serSpec]; omega, by rw [← hd]; exact hsplit, ?_, hc⟩
                  rw [← hd, hsplit, List.append_assoc, nodeFromStream_atom a hal] at hn
                  exact hn

end Clvm.Serde.Classic
