/-
Specification of the classic CLVM serialization (the documented format, written without
reference to the extracted constants) and the basic arithmetic facts about the length header.
Property theorems live in `Props/C15.lean`, `Props/C16.lean`, `Props/C29.lean`.
-/
import ClvmModel.Serde.Classic
import ClvmProofs.Lemmas.Bits

namespace Clvm.Serde.Classic

/-! ### the specification -/

/-- the `k`-byte length header carrying the value `n`: `k` one-bits, a zero bit, then `n`
big-endian in the remaining `7k - 1` bits -/
def hdrW (k n : Nat) : Bytes :=
  match k with
  | 1 => [UInt8.ofNat (0x80 + n)]
  | 2 => [UInt8.ofNat (0xC0 + n / 2 ^ 8), UInt8.ofNat (n % 256)]
  | 3 => [UInt8.ofNat (0xE0 + n / 2 ^ 16), UInt8.ofNat (n / 2 ^ 8 % 256), UInt8.ofNat (n % 256)]
  | 4 => [UInt8.ofNat (0xF0 + n / 2 ^ 24), UInt8.ofNat (n / 2 ^ 16 % 256), UInt8.ofNat (n / 2 ^ 8 % 256),
          UInt8.ofNat (n % 256)]
  | 5 => [UInt8.ofNat (0xF8 + n / 2 ^ 32), UInt8.ofNat (n / 2 ^ 24 % 256), UInt8.ofNat (n / 2 ^ 16 % 256),
          UInt8.ofNat (n / 2 ^ 8 % 256), UInt8.ofNat (n % 256)]
  | 6 => [UInt8.ofNat (0xFC + n / 2 ^ 40), UInt8.ofNat (n / 2 ^ 32 % 256), UInt8.ofNat (n / 2 ^ 24 % 256),
          UInt8.ofNat (n / 2 ^ 16 % 256), UInt8.ofNat (n / 2 ^ 8 % 256), UInt8.ofNat (n % 256)]
  | _ => []

/-- number of header bytes the format prescribes for an atom of `n` bytes (the shortest header
that can carry `n`: `k` bytes carry `7k - 1` bits) -/
def width (n : Nat) : Nat :=
  if n < 2 ^ 6 then 1 else if n < 2 ^ 13 then 2 else if n < 2 ^ 20 then 3
  else if n < 2 ^ 27 then 4 else if n < 2 ^ 34 then 5 else 6

/-- the length prefix of an atom: nothing for a single byte below 0x80, else the minimal header -/
def atomPrefix (b : Bytes) : Bytes :=
  match b with
  | [x] => if x.toNat < 0x80 then [] else hdrW 1 1
  | _ => hdrW (width b.length) b.length

/-- encoding of one atom -/
def atomEnc (b : Bytes) : Bytes := atomPrefix b ++ b

/-- the classic serialization -/
def serSpec : Tree → Bytes
  | .atom b => atomEnc b
  | .pair l r => 0xff :: (serSpec l ++ serSpec r)

/-- serialization of a work stack (top first) -/
def serList : List Tree → Bytes
  | [] => []
  | t :: ts => serSpec t ++ serList ts

end Clvm.Serde.Classic

namespace Clvm.Tree

/-- every atom of the tree is shorter than `n` bytes -/
def atomsBelow (n : Nat) : Tree → Prop
  | .atom b => b.length < n
  | .pair l r => atomsBelow n l ∧ atomsBelow n r

instance (n : Nat) : (t : Tree) → Decidable (atomsBelow n t)
  | .atom b => inferInstanceAs (Decidable (b.length < n))
  | .pair l r =>
    have := instDecidableAtomsBelow n l
    have := instDecidableAtomsBelow n r
    inferInstanceAs (Decidable (atomsBelow n l ∧ atomsBelow n r))

end Clvm.Tree

namespace Clvm.Serde.Classic

/-! ### bit operations as arithmetic -/

theorem and_ff (x : Nat) : x &&& 0xff = x % 256 := Nat.and_two_pow_sub_one_eq_mod x 8
theorem and_7f (x : Nat) : x &&& 0x7f = x % 128 := Nat.and_two_pow_sub_one_eq_mod x 7
theorem and_3f (x : Nat) : x &&& 0x3f = x % 64 := Nat.and_two_pow_sub_one_eq_mod x 6
theorem and_1f (x : Nat) : x &&& 0x1f = x % 32 := Nat.and_two_pow_sub_one_eq_mod x 5
theorem and_0f (x : Nat) : x &&& 0x0f = x % 16 := Nat.and_two_pow_sub_one_eq_mod x 4
theorem and_07 (x : Nat) : x &&& 0x07 = x % 8 := Nat.and_two_pow_sub_one_eq_mod x 3
theorem and_03 (x : Nat) : x &&& 0x03 = x % 4 := Nat.and_two_pow_sub_one_eq_mod x 2
theorem and_01 (x : Nat) : x &&& 0x01 = x % 2 := Nat.and_two_pow_sub_one_eq_mod x 1

/-- the top-bit test of `decode_size_with_offset` -/
theorem and_80_eq_zero (x : Nat) (h : x < 256) : (x &&& 0x80 == 0) = decide (x < 128) := by
  have e : x = 128 * (x / 128) + x % 128 := by omega
  have h2 : x / 128 = 0 ∨ x / 128 = 1 := by omega
  have hm : x % 128 < 2 ^ 7 := by omega
  rcases h2 with h2 | h2
  · have : x < 2 ^ 7 := by omega
    have h0 : x &&& 0x80 = 0 := by
      apply Nat.eq_of_testBit_eq; intro i
      rw [Nat.testBit_and]
      by_cases hi : i = 7
      · subst hi; simp [Nat.testBit_lt_two_pow this]
      · have : Nat.testBit 128 i = false := by
          have : (128:Nat) = 2 ^ 7 := by decide
          rw [this, Nat.testBit_two_pow]; simp; omega
        simp [this]
    simp [h0]; omega
  · have h0 : x &&& 0x80 = 0x80 := by
      rw [e, h2]
      have : 128 * 1 + x % 128 = 1 * 2 ^ 7 + x % 128 := by omega
      rw [this, ← Nat.shiftLeft_eq, Nat.shiftLeft_add_eq_or_of_lt hm]
      apply Nat.eq_of_testBit_eq; intro i
      simp [Nat.testBit_and, Nat.testBit_or]
      by_cases hi : i = 7
      · subst hi; intro h; exact Or.inl h
      · have : Nat.testBit 128 i = false := by
          have : (128:Nat) = 2 ^ 7 := by decide
          rw [this, Nat.testBit_two_pow]; simp; omega
        simp [this]
    simp [h0]; omega

theorem u8_toNat (n : Nat) : (u8 n).toNat = n % 256 := by
  unfold u8; exact toNat_ofNat_lt _ (Nat.mod_lt _ (by omega))

theorem u8_eq (n : Nat) : u8 n = UInt8.ofNat n := by
  apply UInt8.toNat_inj.mp
  rw [u8_toNat]; simp

theorem beFold_cons (acc : Nat) (b : UInt8) (bs : Bytes) :
    beFold acc (b :: bs) = beFold (acc * 256 + b.toNat) bs := by
  simp [beFold, Nat.shiftLeft_eq]

@[simp] theorem beFold_nil (acc : Nat) : beFold acc [] = acc := rfl

end Clvm.Serde.Classic
