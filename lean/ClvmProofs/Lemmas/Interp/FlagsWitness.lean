/-
C07, program level: the full statement "adding restriction flags never turns a failure into a
success" is FALSE for `CANONICAL_INTS` in lenient mode (no `NO_UNKNOWN_OPS`).

`run_program.rs:412-425`: when `parse_softfork_arguments` fails and `allow_unknown_ops()` holds, the
error is swallowed (`push nil; return Ok(expected_cost)`).  Under `CANONICAL_INTS`, `uint_atom::<4>`
rejects the non-canonical extension atom `0x0000`, so the guard is *skipped* and the call succeeds;
without the flag the extension parses (`0`), the guard is entered, and the guarded program `(x)` fails.
Replayed on the real crate (identical on the model):
  RUN y0 chia 0 100000 - ff24ffff01822710ffff01820000ffff01ff0880ffff018080 80  → err Raise
  RUN y1 chia 1 100000 - ff24ffff01822710ffff01820000ffff01ff0880ffff018080 80  → ok 10081 80 1 4 0
The per-operator layer (`coreOps_restrict`, `chiaOp_restrict`) is unaffected.
-/
import ClvmProofs.Lemmas.Interp.Flags

namespace Clvm.Interp
open Clvm Clvm.Alloc

/-- `(softfork (q . 10000) (q . 0x0000) (q . (x)) (q . ()))` -/
def c07Prog : Val := Val.ofTree
  (.pair (.atom [0x24])
    (.pair (.pair (.atom [1]) (.atom [0x27, 0x10]))
      (.pair (.pair (.atom [1]) (.atom [0, 0]))
        (.pair (.pair (.atom [1]) (.pair (.atom [8]) (.atom [])))
          (.pair (.pair (.atom [1]) (.atom [])) (.atom []))))))

def isRaise : Option (Except Err (Nat × Val × Ctr)) → Bool
  | some (.error .Raise) => true
  | _ => false

def isOkNil (cost : Nat) : Option (Except Err (Nat × Val × Ctr)) → Bool
  | some (.ok (k, v, _)) => k == cost && v == Val.nil
  | _ => false

/-- without `CANONICAL_INTS` the program fails (`Raise` inside the guard), with it the program
succeeds with `nil` and cost 10081 -/
theorem c07_canonicalInts_witness :
    isRaise (runProgram {} (chiaDialect {} (fun _ => none) 0) 100 (Ctr.new (2 ^ 32)) c07Prog Val.nil 100000) = true ∧
    isOkNil 10081 (runProgram {} (chiaDialect {} (fun _ => none) (0 ||| Gen.FLAG_CANONICAL_INTS)) 100
      (Ctr.new (2 ^ 32)) c07Prog Val.nil 100000) = true := by
  constructor <;> decide +kernel

/-- the program-level form of C07 (restriction flags, chia dialect, any operators `extra` that
satisfy the per-operator shape) -/
def EvalRestrictStatement : Prop :=
  ∀ (cfg : Cfg) (extra : String → Option OpFn), (∀ name f, extra name = some f → OpRestrict f) →
  ∀ (F R : Nat), R &&& restrictionBits = R →
  ∀ (fuel : Nat) (c0 : Ctr) (prog env : Val) (m : Nat) (r : Nat × Val × Ctr),
    runProgram cfg (chiaDialect cfg extra (F ||| R)) fuel c0 prog env m = some (.ok r) →
    runProgram cfg (chiaDialect cfg extra F) fuel c0 prog env m = some (.ok r)

theorem evalRestrict_witness : ¬ EvalRestrictStatement := by
  intro h
  have hw := c07_canonicalInts_witness
  have hR : Gen.FLAG_CANONICAL_INTS &&& restrictionBits = Gen.FLAG_CANONICAL_INTS := by decide
  cases hrun : runProgram {} (chiaDialect {} (fun _ => none) (0 ||| Gen.FLAG_CANONICAL_INTS)) 100
      (Ctr.new (2 ^ 32)) c07Prog Val.nil 100000 with
  | none => rw [hrun] at hw; simp [isOkNil] at hw
  | some x =>
    cases x with
    | error e => rw [hrun] at hw; simp [isOkNil] at hw
    | ok r =>
      have := h {} (fun _ => none) (fun _ _ hf => by cases hf) 0 Gen.FLAG_CANONICAL_INTS hR 100
        (Ctr.new (2 ^ 32)) c07Prog Val.nil 100000 r hrun
      rw [this] at hw
      simp [isRaise] at hw

end Clvm.Interp
