/-
Two machine configurations whose dialects agree (on well-formed operands) and whose `eval_pair`
agree (on well-formed programs) compute the same thing from every well-formed state.
Instances: the `no-fastpath` build (C05), the MALACHITE flag (C06).
-/
import ClvmProofs.Lemmas.Interp.MachineStepWf
import ClvmProofs.Lemmas.Interp.MachineCongr

namespace Clvm.Interp
open Clvm Clvm.Alloc

/-- what the machine reads from a dialect, equal for `d1` and `d2` -/
structure DialectAgree (d1 d2 : Dialect) : Prop where
  quoteKw : d1.quoteKw = d2.quoteKw
  applyKw : d1.applyKw = d2.applyKw
  softforkKw : d1.softforkKw = d2.softforkKw
  softforkExtension : d1.softforkExtension = d2.softforkExtension
  gcCandidate : d1.gcCandidate = d2.gcCandidate
  allowUnknownOps : d1.allowUnknownOps = d2.allowUnknownOps
  canonicalInts : hasFlag d1.flags Gen.FLAG_CANONICAL_INTS = hasFlag d2.flags Gen.FLAG_CANONICAL_INTS
  limitSoftfork : hasFlag d1.flags Gen.FLAG_LIMIT_SOFTFORK = hasFlag d2.flags Gen.FLAG_LIMIT_SOFTFORK
  newCostModel : hasFlag d1.flags Gen.FLAG_NEW_COST_MODEL = hasFlag d2.flags Gen.FLAG_NEW_COST_MODEL
  op : ∀ (o args : Val) (m : Nat) (ext : OperatorSet) (c : Ctr), o.wf = true → args.wf = true →
    d1.op o args m ext c = d2.op o args m ext c

theorem uintAtom_flags (size : Nat) (v : Val) (name : String) (f1 f2 : Flags)
    (h : hasFlag f1 Gen.FLAG_CANONICAL_INTS = hasFlag f2 Gen.FLAG_CANONICAL_INTS) :
    uintAtom size v name f1 = uintAtom size v name f2 := by
  unfold uintAtom
  simp only [h]

theorem evalOpAtom_agree {d1 d2 : Dialect} (ha : DialectAgree d1 d2) (s : MState) (o ol env : Val) :
    evalOpAtom d1 s o ol env = evalOpAtom d2 s o ol env := by
  unfold evalOpAtom
  rw [ha.quoteKw, ha.gcCandidate]

theorem evalPair_agree {cfg : Cfg} {d1 d2 : Dialect} (ha : DialectAgree d1 d2) (s : MState) (p env : Val) :
    evalPair cfg d1 s p env = evalPair cfg d2 s p env := by
  cases p with
  | atom b i => rfl
  | pair o ol =>
    cases o with
    | atom ob oi => simp only [evalPair]; exact evalOpAtom_agree ha s _ _ _
    | pair a b => rfl

theorem parseSoftforkArguments_agree {d1 d2 : Dialect} (ha : DialectAgree d1 d2) (args : Val) :
    parseSoftforkArguments d1 args = parseSoftforkArguments d2 args := by
  unfold parseSoftforkArguments
  rw [ha.softforkExtension]
  cases getArgs4 args "softfork" with
  | error e => rfl
  | ok q =>
    obtain ⟨a1, a2, a3, a4⟩ := q
    simp only
    rw [uintAtom_flags 4 a2 "softfork" d1.flags d2.flags ha.canonicalInts]

/-- `eval_pair` of the two build configurations agree on well-formed programs -/
def EvalPairAgree (cfg1 cfg2 : Cfg) : Prop :=
  ∀ (d : Dialect) (s : MState) (p env : Val), p.wf = true →
    evalPair cfg1 d s p env = evalPair cfg2 d s p env

theorem EvalPairAgree.refl (cfg : Cfg) : EvalPairAgree cfg cfg := fun _ _ _ _ _ => rfl

theorem swapEvalOp_agree {cfg1 cfg2 : Cfg} {d1 d2 : Dialect} (ha : DialectAgree d1 d2)
    (he : EvalPairAgree cfg1 cfg2) (s : MState) (hs : s.WF) :
    swapEvalOp cfg1 d1 s = swapEvalOp cfg2 d2 s := by
  unfold swapEvalOp
  cases h1 : s.pop with
  | error e => rfl
  | ok r1 =>
    obtain ⟨v2, s1⟩ := r1
    obtain ⟨_, hs1⟩ := hs.pop h1
    simp only [bind, Except.bind]
    cases h2 : s1.pop with
    | error e => rfl
    | ok r2 =>
      obtain ⟨program, s2⟩ := r2
      obtain ⟨hp, _⟩ := hs1.pop h2
      simp only
      cases s2.envStack with
      | nil => rfl
      | cons env envs =>
        simp only
        cases s2.push v2 with
        | error e => rfl
        | ok s3 =>
          simp only
          rw [he d1 _ program env hp, evalPair_agree ha]

theorem applyOp_agree {cfg1 cfg2 : Cfg} {d1 d2 : Dialect} (ha : DialectAgree d1 d2)
    (he : EvalPairAgree cfg1 cfg2) (s : MState) (cc mc : Nat) (hs : s.WF) :
    applyOp cfg1 d1 s cc mc = applyOp cfg2 d2 s cc mc := by
  unfold applyOp
  cases h1 : s.pop with
  | error e => rfl
  | ok r1 =>
    obtain ⟨operandList, s1⟩ := r1
    obtain ⟨hol, hs1⟩ := hs.pop h1
    simp only [bind, Except.bind]
    cases h2 : s1.pop with
    | error e => rfl
    | ok r2 =>
      obtain ⟨operator, s2⟩ := r2
      obtain ⟨hop, _⟩ := hs1.pop h2
      simp only
      cases s2.envStack with
      | nil => rfl
      | cons e0 envs =>
        simp only
        rw [ha.applyKw, ha.softforkKw, ha.allowUnknownOps, ha.limitSoftfork, ha.newCostModel,
          parseSoftforkArguments_agree ha]
        simp only [uintAtom_flags 8 _ "softfork" d1.flags d2.flags ha.canonicalInts]
        split
        · -- apply
          cases h3 : liftE (getArgs2 operandList "apply") with
          | error e => rfl
          | ok q =>
            obtain ⟨newOperator, env⟩ := q
            obtain ⟨hno, _⟩ := getArgs2_wf hol (liftE_ok h3)
            simp only
            rw [he d1 _ newOperator env hno, evalPair_agree ha]
        · split
          · -- softfork: the guarded program comes out of `operandList`
            cases liftE (first operandList) with
            | error e => rfl
            | ok f =>
              simp only
              cases liftE (uintAtom 8 f "softfork" d2.flags) with
              | error e => rfl
              | ok expectedCost =>
                simp only
                split
                · rfl
                · split
                  · rfl
                  · cases hparse : parseSoftforkArguments d2 operandList with
                    | error err => rfl
                    | ok q =>
                      obtain ⟨ext, prg, env⟩ := q
                      simp only
                      have hpw : prg.wf = true := by
                        unfold parseSoftforkArguments at hparse
                        cases hg : getArgs4 operandList "softfork" with
                        | error e => rw [hg] at hparse; cases hparse
                        | ok q4 =>
                          obtain ⟨a1, a2, a3, a4⟩ := q4
                          rw [hg] at hparse
                          simp only at hparse
                          obtain ⟨_, _, w3, _⟩ := getArgs4_wf hol hg
                          split at hparse
                          · cases hparse
                          · split at hparse
                            · cases hparse
                            · simp only [Except.ok.injEq, Prod.mk.injEq] at hparse
                              obtain ⟨_, rfl, _⟩ := hparse
                              exact w3
                      split
                      · rfl
                      · rw [he d1 _ prg env hpw, evalPair_agree ha]
          · -- ordinary operator
            rw [ha.op operator operandList _ _ _ hop hol]

theorem stepOp_agree {cfg1 cfg2 : Cfg} {d1 d2 : Dialect} (ha : DialectAgree d1 d2)
    (he : EvalPairAgree cfg1 cfg2) (s : MState) (op : Operation) (cost em : Nat) (hs : s.WF) :
    stepOp cfg1 d1 s op cost em = stepOp cfg2 d2 s op cost em := by
  cases op with
  | Apply => exact applyOp_agree ha he s cost _ hs
  | ExitGuard => rfl
  | Cons => rfl
  | SwapEval => exact swapEvalOp_agree ha he s hs
  | RestoreAllocator => rfl

/-- **lifting**: agreeing configurations give the same loop result from every well-formed state -/
theorem runLoop_agree {cfg1 cfg2 : Cfg} {d1 d2 : Dialect} (ha : DialectAgree d1 d2)
    (he : EvalPairAgree cfg1 cfg2) (hd : d1.OpWf) (mc fuel : Nat) (s : MState) (cost : Nat) (hs : s.WF) :
    runLoop cfg1 d1 mc fuel s cost = runLoop cfg2 d2 mc fuel s cost :=
  runLoop_congr cfg1 cfg2 d1 d2 mc MState.WF
    (fun s op cost em hs => stepOp_agree ha he s op cost em hs)
    (fun s op cost em c s' hs h => stepOp_wf hd hs h)
    (fun s ops hs => hs.setOps ops) fuel s cost hs

/-- … and the same `run_program` outcome on well-formed program and environment -/
theorem runProgram_agree {cfg1 cfg2 : Cfg} {d1 d2 : Dialect} (ha : DialectAgree d1 d2)
    (he : EvalPairAgree cfg1 cfg2) (hd : d1.OpWf) (fuel : Nat) (c0 : Ctr) (p env : Val) (mc : Nat)
    (hp : p.wf = true) (hen : env.wf = true) :
    runProgram cfg1 d1 fuel c0 p env mc = runProgram cfg2 d2 fuel c0 p env mc := by
  unfold runProgram
  cases c0.addGhostAtom 1 with
  | error e => rfl
  | ok c =>
    simp only
    have hs0 : MState.WF { ctr := c } := ⟨fun _ h => by simp at h, fun _ h => by simp at h⟩
    rw [he d1 _ p env hp, evalPair_agree ha]
    cases hev : evalPair cfg2 d2 { ctr := c } p env with
    | error e => cases e <;> rfl
    | ok r =>
      obtain ⟨cost, s⟩ := r
      simp only
      have hs : s.WF := by
        have hev1 : evalPair cfg1 d1 { ctr := c } p env = .ok (cost, s) := by
          rw [he d1 _ p env hp, evalPair_agree ha]; exact hev
        exact evalPair_wf hs0 hp hen hev1
      rw [runLoop_agree ha he hd _ fuel s cost hs]

end Clvm.Interp
