/-
C02, machine level: the cost budget of `run_program` is sound, upward closed, a dichotomy
(same success or `CostExceeded`) and — without cost-exempt guards — tight.

`effBudget M` is the budget in force (`0` means `u64::MAX`).  The per-operator input is
`Dialect.OpBudget` (every operator of the dialect, as a function of its budget argument, has the
shapes `OpBudget` / `OpBudgetErr` of `OpProps.lean`).
-/
import ClvmProofs.Lemmas.Interp.LiftShape
import ClvmProofs.Lemmas.Interp.LiftFrame

namespace Clvm.Interp
open Clvm Clvm.Alloc

/-! ### (a) soundness -/

/-- whenever the main loop finishes, the accumulated cost is within the limit in force there -/
theorem runLoop_cost_le (cfg : Cfg) (d : Dialect) (mc : Nat) (fuel : Nat) :
    ∀ (s : MState) (cost : Nat) (C : Nat) (sF : MState),
      runLoop cfg d mc fuel s cost = some (.ok (C, sF)) → C ≤ effMax mc sF := by
  induction fuel with
  | zero => intro s cost C sF h; simp [runLoop_zero] at h
  | succ n ih =>
    intro s cost C sF h
    rw [runLoop_succ] at h
    unfold loopBody at h
    split at h
    · cases h
    · rename_i hc
      split at h
      · cases h; omega
      · split at h
        · cases h
        · exact ih _ _ C sF h

/-- **C02 (a), sound.**  A successful `run_program` under budget `M` reports a cost of at most `M`
(`u64::MAX` for `M = 0`) — for *every* dialect: the machine has left every softfork guard when the
operation stack is empty (`runLoop_shape`), so the limit in force at the end is the budget. -/
theorem run_sound {cfg : Cfg} {d : Dialect} {fuel : Nat} {c0 : Ctr} {p e : Val} {M C : Nat} {v : Val} {c : Ctr}
    (h : runProgram cfg d fuel c0 p e M = some (.ok (C, v, c))) : C ≤ effBudget M := by
  obtain ⟨c1, cost0, s0, sF, vs, _, h2, h3, _, _⟩ := runProgram_ok_iff.1 h
  obtain ⟨hF, hop⟩ := runLoop_shape cfg d _ fuel s0 cost0 C sF (initial_shaped h2) h3
  have hsf := (Shaped.final hF hop).2.2.1
  have := runLoop_cost_le cfg d _ fuel s0 cost0 C sF h3
  simpa [effMax, hsf] using this

/-! ### the per-operator input -/

/-- **`Dialect.OpBudget`**: every operator of the dialect, as a function of its budget argument, has
the shape `OpBudget` of `OpProps.lean`: after a success under budget `m`, the outcome under any other
budget `m'` is the same success or `CostExceeded` (`dich`), and the same success as soon as `m'`
covers the charged cost (`tight`). -/
structure Dialect.OpBudget (d : Dialect) : Prop where
  dich : ∀ (o args : Val) (ext : OperatorSet) (c : Ctr) (m m' : Nat) (r : Nat × Val × Ctr),
    d.op o args m ext c = some (.ok r) →
      d.op o args m' ext c = some (.ok r) ∨ d.op o args m' ext c = some (.error .CostExceeded)
  tight : ∀ (o args : Val) (ext : OperatorSet) (c : Ctr) (m m' : Nat) (r : Nat × Val × Ctr),
    d.op o args m ext c = some (.ok r) → r.1 ≤ m' → d.op o args m' ext c = some (.ok r)

/-- the shape `OpBudgetErr` for a dialect (not needed by the theorems about successful runs below) -/
def Dialect.OpBudgetErr (d : Dialect) : Prop :=
  ∀ (o args : Val) (ext : OperatorSet) (c : Ctr) (m m' : Nat) (e : Err),
    d.op o args m ext c = some (.error e) → e ≠ .CostExceeded → m ≤ m' → d.op o args m' ext c = some (.error e)

/-- what upward closure needs: a success whose cost fitted its budget is the same success under
every larger budget.  Weaker than `OpBudget.tight`; it also holds for `op_unknown` of the old cost
model, whose reported cost can wrap around (DESIGN §6-B). -/
def Dialect.OpBudgetUp (d : Dialect) : Prop :=
  ∀ (o args : Val) (ext : OperatorSet) (c : Ctr) (m m' : Nat) (r : Nat × Val × Ctr),
    d.op o args m ext c = some (.ok r) → r.1 ≤ m → m ≤ m' → d.op o args m' ext c = some (.ok r)

/-- what the dichotomy needs -/
def Dialect.OpBudgetDich (d : Dialect) : Prop :=
  ∀ (o args : Val) (ext : OperatorSet) (c : Ctr) (m m' : Nat) (r : Nat × Val × Ctr),
    d.op o args m ext c = some (.ok r) →
      d.op o args m' ext c = some (.ok r) ∨ d.op o args m' ext c = some (.error .CostExceeded)

theorem Dialect.OpBudget.up {d : Dialect} (h : d.OpBudget) : d.OpBudgetUp :=
  fun o args ext c m m' r hr h1 h2 => h.tight o args ext c m m' r hr (Nat.le_trans h1 h2)

theorem Dialect.OpBudget.toDich {d : Dialect} (h : d.OpBudget) : d.OpBudgetDich := h.dich

/-! ### generalities about the loop -/

/-- the cost only grows -/
theorem runLoop_cost_ge (cfg : Cfg) (d : Dialect) (mc : Nat) (fuel : Nat) :
    ∀ (s : MState) (cost : Nat) (C : Nat) (sF : MState),
      runLoop cfg d mc fuel s cost = some (.ok (C, sF)) → cost ≤ C := by
  induction fuel with
  | zero => intro s cost C sF h; simp [runLoop_zero] at h
  | succ n ih =>
    intro s cost C sF h
    rw [runLoop_succ] at h
    unfold loopBody at h
    split at h
    · cases h
    · split at h
      · cases h; exact Nat.le_refl _
      · split at h
        · cases h
        · exact Nat.le_trans (Nat.le_add_right _ _) (ih _ _ C sF h)

/-- a loop that finishes passed the cost check of its first iteration -/
theorem runLoop_ok_first {cfg : Cfg} {d : Dialect} {mc fuel : Nat} {s : MState} {cost : Nat} {r : Nat × MState}
    (h : runLoop cfg d mc fuel s cost = some (.ok r)) : cost ≤ effMax mc s := by
  cases fuel with
  | zero => simp [runLoop_zero] at h
  | succ n =>
    rw [runLoop_succ] at h
    unfold loopBody at h
    split at h
    · cases h
    · omega

/-! ### the relation between the two runs of (b) and (c)

Two runs of the same program under different budgets go through the same states except for the
expected cost recorded in *cost-exempt* guards (`OperatorSet::PreHardFork`), which is the limit in
force when the guard was entered and therefore depends on the budget. -/

/-- `g` (run with the smaller budget) against `g'` (larger budget) -/
def GuardLe (g g' : SoftforkGuard) : Prop :=
  g.allocatorState = g'.allocatorState ∧ g.operatorSet = g'.operatorSet ∧ g.expectedCost ≤ g'.expectedCost ∧
  (g.operatorSet ≠ .PreHardFork → g.expectedCost = g'.expectedCost)

abbrev GuardsLe : List SoftforkGuard → List SoftforkGuard → Prop := GuardsRel GuardLe

theorem effMax_le {mc1 mc2 : Nat} (hmc : mc1 ≤ mc2) {s : MState} {sf2 : List SoftforkGuard}
    (hg : GuardsLe s.softforkStack sf2) : effMax mc1 s ≤ effMax mc2 (s.setSf sf2) := by
  unfold effMax
  rcases hg.inv with ⟨h1, rfl⟩ | ⟨g1, g2, r1, r2, h1, rfl, hh, _⟩
  · simpa [MState.setSf, h1] using hmc
  · simpa [MState.setSf, h1] using hh.2.2.1

theorem curExt_le {s : MState} {sf2 : List SoftforkGuard} (hg : GuardsLe s.softforkStack sf2) :
    curExt (s.setSf sf2) = curExt s := by
  unfold curExt
  rcases hg.inv with ⟨h1, rfl⟩ | ⟨g1, g2, r1, r2, h1, rfl, hh, _⟩
  · simp [MState.setSf, h1]
  · simpa [MState.setSf, h1] using hh.2.1.symm

theorem exitGuard_rel {s s' : MState} {cost c : Nat} {g1 g2 : SoftforkGuard} {r1 r2 : List SoftforkGuard}
    (hs : s.softforkStack = g1 :: r1) (hA : g1.allocatorState = g2.allocatorState)
    (hO : g1.operatorSet = g2.operatorSet)
    (hE : g1.operatorSet ≠ .PreHardFork → g1.expectedCost = g2.expectedCost)
    (h : exitGuard s cost = .ok (c, s')) :
    exitGuard (s.setSf (g2 :: r2)) cost = .ok (c, s'.setSf r2) ∧ s'.softforkStack = r1 := by
  unfold exitGuard at h ⊢
  rw [hs] at h
  simp only [MState.setSf] at h ⊢
  have hex : g2.costExempt = g1.costExempt := by unfold SoftforkGuard.costExempt; rw [hO]
  split at h
  · cases h
  · rename_i hchk
    have hchk2 : ¬ ((!g2.costExempt && cost != g2.expectedCost) = true) := by
      rw [hex]
      intro hh
      apply hchk
      simp only [Bool.and_eq_true, Bool.not_eq_true', bne_iff_ne, ne_eq] at hh ⊢
      refine ⟨hh.1, ?_⟩
      have : g1.operatorSet ≠ .PreHardFork := by
        intro he
        have := hh.1
        unfold SoftforkGuard.costExempt at this
        rw [he] at this
        simp at this
      rw [hE this]; exact hh.2
    rw [if_neg hchk2]
    split at h
    · cases h
    · rename_i v vs hv
      obtain ⟨s1, h1, h⟩ := M_bind_ok h
      cases M_pure_ok h
      obtain ⟨e1, f1⟩ := push_setSf r2 h1
      rw [← hA]
      refine ⟨?_, ?_⟩
      · simp only [MState.setSf] at e1
        rw [M_bind_eq e1]; rfl
      · rw [f1]

/-! ### (b) upward closure -/

theorem applyBody_up {cfg : Cfg} {d : Dialect} (hd : d.OpBudgetUp) {s s' : MState} {sf2 : List SoftforkGuard}
    {ol o : Val} {cost em1 em2 c : Nat} (hg : GuardsLe s.softforkStack sf2) (hc : cost ≤ em1) (hle : em1 ≤ em2)
    (hfit : s'.softforkStack = s.softforkStack → cost + c ≤ em1)
    (h : applyBody cfg d s ol o cost (em1 - cost) = .ok (c, s')) :
    ∃ sf2', applyBody cfg d (s.setSf sf2) ol o cost (em2 - cost) = .ok (c, s'.setSf sf2') ∧
      GuardsLe s'.softforkStack sf2' := by
  unfold applyBody at h ⊢
  split at h
  · rename_i hk
    rw [if_pos hk]
    unfold applyApply at h ⊢
    obtain ⟨⟨no, env⟩, h0, h⟩ := M_bind_ok h
    obtain ⟨⟨c1, s1⟩, h1, h⟩ := M_bind_ok h
    cases M_pure_ok h
    obtain ⟨e1, f1⟩ := evalPair_setSf sf2 h1
    refine ⟨sf2, ?_, by rw [f1]; exact hg⟩
    rw [M_bind_eq h0]; simp only
    rw [M_bind_eq e1]; rfl
  · rename_i hk
    rw [if_neg hk]
    split at h
    · rename_i hk2
      rw [if_pos hk2]
      unfold applySoftfork at h ⊢
      obtain ⟨f, hf, h⟩ := M_bind_ok h
      obtain ⟨ec, hec, h⟩ := M_bind_ok h
      rw [M_bind_eq hf, M_bind_eq hec]
      split at h
      · cases h
      · rename_i h1
        have h1' : ¬ ec > em2 - cost := by omega
        rw [if_neg h1']
        split at h
        · cases h
        · rename_i h2
          rw [if_neg h2]
          split at h
          · split at h
            · rename_i err hperr hallow
              obtain ⟨s1, hp, h⟩ := M_bind_ok h
              cases M_pure_ok h
              obtain ⟨e1, f1⟩ := push_setSf sf2 hp
              refine ⟨sf2, ?_, by rw [f1]; exact hg⟩
              simp only [hallow, if_true]
              rw [M_bind_eq e1]; rfl
            · cases h
          · rename_i ext prg env hparse
            simp only
            have hlen : (s.setSf sf2).softforkStack.length = s.softforkStack.length := hg.length_eq.symm
            rw [hlen]
            split at h
            · cases h
            · rename_i hlim
              rw [if_neg hlim]
              obtain ⟨⟨c1, s1⟩, hev, h⟩ := M_bind_ok h
              cases M_pure_ok h
              let g1 : SoftforkGuard :=
                { expectedCost := guardExpected s ext cost (em1 - cost) ec, allocatorState := s.ctr,
                  operatorSet := ext }
              let g2 : SoftforkGuard :=
                { expectedCost := guardExpected (s.setSf sf2) ext cost (em2 - cost) ec,
                  allocatorState := s.ctr, operatorSet := ext }
              have hgl : GuardLe g1 g2 := by
                refine ⟨rfl, rfl, ?_, ?_⟩
                · show guardExpected s ext cost (em1 - cost) ec ≤ guardExpected (s.setSf sf2) ext cost (em2 - cost) ec
                  unfold guardExpected
                  split
                  · rcases hg.inv with ⟨h1, rfl⟩ | ⟨g1, g2, r1, r2, h1, rfl, hh, _⟩
                    · simp only [MState.setSf, h1]; omega
                    · simp only [MState.setSf, h1]; exact hh.2.2.1
                  · exact Nat.le_refl _
                · intro hne
                  show guardExpected s ext cost (em1 - cost) ec = guardExpected (s.setSf sf2) ext cost (em2 - cost) ec
                  unfold guardExpected
                  have : (ext == OperatorSet.PreHardFork) = false := by
                    cases hb : (ext == OperatorSet.PreHardFork)
                    · rfl
                    · exact absurd (by simpa using hb) hne
                  simp only [this, Bool.false_eq_true, if_false]
              obtain ⟨e1, f1⟩ := evalPair_setSf (g2 :: sf2) hev
              refine ⟨g2 :: sf2, ?_, ?_⟩
              · have : enterGuard (s.setSf sf2) g2 = (enterGuard s g1).setSf (g2 :: sf2) := rfl
                have hctr : (s.setSf sf2).ctr = s.ctr := rfl
                simp only [hctr]
                rw [this, M_bind_eq e1]; rfl
              · rw [f1]
                exact GuardsRel.cons hgl hg
    · rename_i hk2
      rw [if_neg hk2]
      unfold applyOrdinary at h ⊢
      rw [curExt_le hg]
      have hctr : (s.setSf sf2).ctr = s.ctr := rfl
      rw [hctr]
      split at h
      · cases h
      · cases h
      · rename_i cost' v c' hop
        obtain ⟨s1, hp, h⟩ := M_bind_ok h
        cases M_pure_ok h
        obtain ⟨e1, f1⟩ := push_setSf sf2 hp
        have hfit' : cost + c ≤ em1 := hfit (by rw [f1])
        have := hd o ol _ _ _ (em2 - cost) _ hop (by show c ≤ em1 - cost; omega) (by omega)
        simp only [this]
        refine ⟨sf2, ?_, by rw [f1]; exact hg⟩
        have : ({ s with ctr := c' } : MState).setSf sf2 = { s.setSf sf2 with ctr := c' } := rfl
        rw [this] at e1
        rw [M_bind_eq e1]; rfl

theorem stepOp_up {cfg : Cfg} {d : Dialect} (hd : d.OpBudgetUp) {s s' : MState} {sf2 : List SoftforkGuard}
    {op : Operation} {cost em1 em2 c : Nat} (hg : GuardsLe s.softforkStack sf2) (hc : cost ≤ em1)
    (hle : em1 ≤ em2) (hfit : s'.softforkStack = s.softforkStack → cost + c ≤ em1)
    (h : stepOp cfg d s op cost em1 = .ok (c, s')) :
    ∃ sf2', stepOp cfg d (s.setSf sf2) op cost em2 = .ok (c, s'.setSf sf2') ∧ GuardsLe s'.softforkStack sf2' := by
  cases op with
  | Apply =>
    simp only [stepOp] at h ⊢
    match hvs : s.valStack, hes : s.envStack with
    | [], _ => simp [applyOp, MState.pop, hvs, bind, Except.bind] at h
    | [_], _ => simp [applyOp, MState.pop, hvs, bind, Except.bind] at h
    | _ :: _ :: _, [] => simp [applyOp, MState.pop, hvs, hes, bind, Except.bind] at h
    | ol :: o :: vals, e0 :: envs =>
      rw [applyOp_eq cfg _ s _ _ hvs hes] at h
      rw [applyOp_eq cfg _ (s.setSf sf2) _ _ (show (s.setSf sf2).valStack = _ from hvs)
        (show (s.setSf sf2).envStack = _ from hes)]
      exact applyBody_up hd (s := s.applyBase vals envs) hg hc hle hfit h
  | ExitGuard =>
    simp only [stepOp] at h ⊢
    rcases hg.inv with ⟨h1, rfl⟩ | ⟨g1, g2, r1, r2, h1, rfl, hh, ht⟩
    · unfold exitGuard at h
      rw [h1] at h
      cases h
    · obtain ⟨e1, f1⟩ := exitGuard_rel (r2 := r2) h1 hh.1 hh.2.1 hh.2.2.2 h
      exact ⟨r2, e1, by rw [f1]; exact ht⟩
  | Cons =>
    simp only [stepOp] at h ⊢
    obtain ⟨e1, f1⟩ := consOp_setSf sf2 h
    exact ⟨sf2, e1, by rw [f1]; exact hg⟩
  | SwapEval =>
    simp only [stepOp] at h ⊢
    obtain ⟨e1, f1⟩ := swapEvalOp_setSf sf2 h
    exact ⟨sf2, e1, by rw [f1]; exact hg⟩
  | RestoreAllocator =>
    simp only [stepOp] at h ⊢
    split at h
    · cases h
    · rename_i h1
      split at h
      · cases h
      · rename_i h2
        cases h
        refine ⟨sf2, ?_, hg⟩
        have e1 : (s.setSf sf2).allocatorStack = s.allocatorStack := rfl
        have e2 : (s.setSf sf2).valStack = s.valStack := rfl
        rw [e1, e2, if_neg h1, if_neg h2]; rfl

/-- the loop under a larger budget follows the successful loop under the smaller one -/
theorem runLoop_up {cfg : Cfg} {d : Dialect} (hd : d.OpBudgetUp) {mc1 mc2 : Nat} (hmc : mc1 ≤ mc2) (fuel : Nat) :
    ∀ (s : MState) (sf2 : List SoftforkGuard) (cost C : Nat) (sF : MState), GuardsLe s.softforkStack sf2 →
      runLoop cfg d mc1 fuel s cost = some (.ok (C, sF)) →
      ∃ sfF, runLoop cfg d mc2 fuel (s.setSf sf2) cost = some (.ok (C, sF.setSf sfF)) ∧
        GuardsLe sF.softforkStack sfF := by
  induction fuel with
  | zero => intro s sf2 cost C sF _ h; simp [runLoop_zero] at h
  | succ n ih =>
    intro s sf2 cost C sF hg h
    have hem := effMax_le hmc hg
    rw [runLoop_succ] at h ⊢
    unfold loopBody at h ⊢
    split at h
    · cases h
    · rename_i hc
      have hc2 : ¬ cost > effMax mc2 (s.setSf sf2) := by omega
      rw [if_neg hc2]
      have hops : (s.setSf sf2).opStack = s.opStack := rfl
      rw [hops]
      split at h
      · cases h
        exact ⟨sf2, rfl, hg⟩
      · rename_i op ops hop
        split at h
        · cases h
        · rename_i c s1 hst
          have hfit : s1.softforkStack = ({ s with opStack := ops } : MState).softforkStack →
              cost + c ≤ effMax mc1 s := by
            intro hsf
            have := runLoop_ok_first h
            unfold effMax at this ⊢
            rw [hsf] at this
            exact this
          obtain ⟨sf2', e1, hg'⟩ := stepOp_up hd (s := { s with opStack := ops }) (sf2 := sf2) hg
            (Nat.le_of_not_gt hc) hem hfit hst
          have : ({ s.setSf sf2 with opStack := ops } : MState) = ({ s with opStack := ops } : MState).setSf sf2 := rfl
          simp only [this, e1]
          exact ih s1 sf2' _ C sF hg' h

theorem setSf_self (s : MState) : s.setSf s.softforkStack = s := rfl

/-- the state `run_program` enters the loop with has an empty softfork stack -/
theorem initial_sf {cfg : Cfg} {d : Dialect} {ctr : Ctr} {p env : Val} {c : Nat} {s : MState}
    (h : evalPair cfg d { ctr := ctr } p env = .ok (c, s)) : s.softforkStack = [] :=
  (evalPair_setSf [] h).2

/-- **C02 (b), upward closed.**  A program that succeeds under budget `M` succeeds with the same
cost, value and counters under every budget `M'` at least as large (same fuel).  The two runs are
not state-identical: cost-exempt guards record the limit in force, which is larger in the `M'` run
(`GuardLe`).  Operator input: `OpBudgetUp` (implied by `OpBudget`). -/
theorem run_upward {cfg : Cfg} {d : Dialect} (hd : d.OpBudgetUp) {fuel : Nat} {c0 : Ctr} {p e : Val}
    {M M' : Nat} {r : Nat × Val × Ctr} (h : runProgram cfg d fuel c0 p e M = some (.ok r))
    (hM : effBudget M ≤ effBudget M') : runProgram cfg d fuel c0 p e M' = some (.ok r) := by
  obtain ⟨C, v, c⟩ := r
  obtain ⟨c1, cost0, s0, sF, vs, h1, h2, h3, h4, h5⟩ := runProgram_ok_iff.1 h
  have hsf0 := initial_sf h2
  obtain ⟨sfF, h3', _⟩ := runLoop_up hd hM fuel s0 [] cost0 C sF (by rw [hsf0]; exact GuardsRel.nil) h3
  have : s0.setSf [] = s0 := by rw [← hsf0]; rfl
  rw [this] at h3'
  exact runProgram_ok_iff.2 ⟨c1, cost0, s0, sF.setSf sfF, vs, h1, h2, h3', h4, h5⟩

/-! ### (c) dichotomy: under a smaller budget, the same success or `CostExceeded` -/

theorem effMax_le' {mc1 mc2 : Nat} (hmc : mc1 ≤ mc2) {s : MState} {sf1 : List SoftforkGuard}
    (hg : GuardsLe sf1 s.softforkStack) : effMax mc1 (s.setSf sf1) ≤ effMax mc2 s := by
  unfold effMax
  rcases hg.inv with ⟨rfl, h2⟩ | ⟨g1, g2, r1, r2, rfl, h2, hh, _⟩
  · simpa [MState.setSf, h2] using hmc
  · simpa [MState.setSf, h2] using hh.2.2.1

theorem curExt_le' {s : MState} {sf1 : List SoftforkGuard} (hg : GuardsLe sf1 s.softforkStack) :
    curExt (s.setSf sf1) = curExt s := by
  unfold curExt
  rcases hg.inv with ⟨rfl, h2⟩ | ⟨g1, g2, r1, r2, rfl, h2, hh, _⟩
  · simp [MState.setSf, h2]
  · simpa [MState.setSf, h2] using hh.2.1

theorem applyBody_down {cfg : Cfg} {d : Dialect} (hd : d.OpBudgetDich) {s s' : MState} {sf1 : List SoftforkGuard}
    {ol o : Val} {cost em1 em2 c : Nat} (hg : GuardsLe sf1 s.softforkStack) (hc : cost ≤ em1) (hle : em1 ≤ em2)
    (h : applyBody cfg d s ol o cost (em2 - cost) = .ok (c, s')) :
    (∃ sf1', applyBody cfg d (s.setSf sf1) ol o cost (em1 - cost) = .ok (c, s'.setSf sf1') ∧
      GuardsLe sf1' s'.softforkStack) ∨
    applyBody cfg d (s.setSf sf1) ol o cost (em1 - cost) = .error (.err .CostExceeded) := by
  unfold applyBody at h ⊢
  split at h
  · rename_i hk
    rw [if_pos hk]
    unfold applyApply at h ⊢
    obtain ⟨⟨no, env⟩, h0, h⟩ := M_bind_ok h
    obtain ⟨⟨c1, s1⟩, h1, h⟩ := M_bind_ok h
    cases M_pure_ok h
    obtain ⟨e1, f1⟩ := evalPair_setSf sf1 h1
    refine Or.inl ⟨sf1, ?_, by rw [f1]; exact hg⟩
    rw [M_bind_eq h0]; simp only
    rw [M_bind_eq e1]; rfl
  · rename_i hk
    rw [if_neg hk]
    split at h
    · rename_i hk2
      rw [if_pos hk2]
      unfold applySoftfork at h ⊢
      obtain ⟨f, hf, h⟩ := M_bind_ok h
      obtain ⟨ec, hec, h⟩ := M_bind_ok h
      rw [M_bind_eq hf, M_bind_eq hec]
      split at h
      · cases h
      · rename_i h1
        by_cases hS : ec > em1 - cost
        · right; rw [if_pos hS]
        · rw [if_neg hS]
          split at h
          · cases h
          · rename_i h2
            rw [if_neg h2]
            split at h
            · split at h
              · rename_i err hperr hallow
                obtain ⟨s1, hp, h⟩ := M_bind_ok h
                cases M_pure_ok h
                obtain ⟨e1, f1⟩ := push_setSf sf1 hp
                refine Or.inl ⟨sf1, ?_, by rw [f1]; exact hg⟩
                simp only [hallow, if_true]
                rw [M_bind_eq e1]; rfl
              · cases h
            · rename_i ext prg env hparse
              simp only
              have hlen : (s.setSf sf1).softforkStack.length = s.softforkStack.length := hg.length_eq
              rw [hlen]
              split at h
              · cases h
              · rename_i hlim
                rw [if_neg hlim]
                obtain ⟨⟨c1, s1⟩, hev, h⟩ := M_bind_ok h
                cases M_pure_ok h
                let g1 : SoftforkGuard :=
                  { expectedCost := guardExpected (s.setSf sf1) ext cost (em1 - cost) ec,
                    allocatorState := s.ctr, operatorSet := ext }
                let g2 : SoftforkGuard :=
                  { expectedCost := guardExpected s ext cost (em2 - cost) ec, allocatorState := s.ctr,
                    operatorSet := ext }
                have hgl : GuardLe g1 g2 := by
                  refine ⟨rfl, rfl, ?_, ?_⟩
                  · show guardExpected (s.setSf sf1) ext cost (em1 - cost) ec ≤ guardExpected s ext cost (em2 - cost) ec
                    unfold guardExpected
                    split
                    · rcases hg.inv with ⟨rfl, h2⟩ | ⟨ga, gb, r1, r2, rfl, h2, hh, _⟩
                      · simp only [MState.setSf, h2]; omega
                      · simp only [MState.setSf, h2]; exact hh.2.2.1
                    · exact Nat.le_refl _
                  · intro hne
                    show guardExpected (s.setSf sf1) ext cost (em1 - cost) ec = guardExpected s ext cost (em2 - cost) ec
                    unfold guardExpected
                    have : (ext == OperatorSet.PreHardFork) = false := by
                      cases hb : (ext == OperatorSet.PreHardFork)
                      · rfl
                      · exact absurd (by simpa using hb) hne
                    simp only [this, Bool.false_eq_true, if_false]
                obtain ⟨e1, f1⟩ := evalPair_setSf (g1 :: sf1) hev
                refine Or.inl ⟨g1 :: sf1, ?_, ?_⟩
                · have : enterGuard (s.setSf sf1) g1 = (enterGuard s g2).setSf (g1 :: sf1) := rfl
                  have hctr : (s.setSf sf1).ctr = s.ctr := rfl
                  simp only [hctr]
                  rw [this, M_bind_eq e1]; rfl
                · rw [f1]
                  exact GuardsRel.cons hgl hg
    · rename_i hk2
      rw [if_neg hk2]
      unfold applyOrdinary at h ⊢
      rw [curExt_le' hg]
      have hctr : (s.setSf sf1).ctr = s.ctr := rfl
      rw [hctr]
      split at h
      · cases h
      · cases h
      · rename_i cost' v c' hop
        obtain ⟨s1, hp, h⟩ := M_bind_ok h
        cases M_pure_ok h
        obtain ⟨e1, f1⟩ := push_setSf sf1 hp
        rcases hd o ol _ _ _ (em1 - cost) _ hop with hsame | hce
        · simp only [hsame]
          refine Or.inl ⟨sf1, ?_, by rw [f1]; exact hg⟩
          have : ({ s with ctr := c' } : MState).setSf sf1 = { s.setSf sf1 with ctr := c' } := rfl
          rw [this] at e1
          rw [M_bind_eq e1]; rfl
        · right; simp only [hce]

theorem stepOp_down {cfg : Cfg} {d : Dialect} (hd : d.OpBudgetDich) {s s' : MState} {sf1 : List SoftforkGuard}
    {op : Operation} {cost em1 em2 c : Nat} (hg : GuardsLe sf1 s.softforkStack) (hc : cost ≤ em1)
    (hle : em1 ≤ em2) (h : stepOp cfg d s op cost em2 = .ok (c, s')) :
    (∃ sf1', stepOp cfg d (s.setSf sf1) op cost em1 = .ok (c, s'.setSf sf1') ∧ GuardsLe sf1' s'.softforkStack) ∨
    stepOp cfg d (s.setSf sf1) op cost em1 = .error (.err .CostExceeded) := by
  cases op with
  | Apply =>
    simp only [stepOp] at h ⊢
    match hvs : s.valStack, hes : s.envStack with
    | [], _ => simp [applyOp, MState.pop, hvs, bind, Except.bind] at h
    | [_], _ => simp [applyOp, MState.pop, hvs, bind, Except.bind] at h
    | _ :: _ :: _, [] => simp [applyOp, MState.pop, hvs, hes, bind, Except.bind] at h
    | ol :: o :: vals, e0 :: envs =>
      rw [applyOp_eq cfg _ s _ _ hvs hes] at h
      rw [applyOp_eq cfg _ (s.setSf sf1) _ _ (show (s.setSf sf1).valStack = _ from hvs)
        (show (s.setSf sf1).envStack = _ from hes)]
      exact applyBody_down hd (s := s.applyBase vals envs) hg hc hle h
  | ExitGuard =>
    simp only [stepOp] at h ⊢
    rcases hg.inv with ⟨rfl, h2⟩ | ⟨g1, g2, r1, r2, rfl, h2, hh, ht⟩
    · unfold exitGuard at h
      rw [h2] at h
      cases h
    · obtain ⟨e1, f1⟩ := exitGuard_rel (r2 := r1) h2 hh.1.symm hh.2.1.symm
        (fun hne => (hh.2.2.2 (by rw [hh.2.1]; exact hne)).symm) h
      exact Or.inl ⟨r1, e1, by rw [f1]; exact ht⟩
  | Cons =>
    simp only [stepOp] at h ⊢
    obtain ⟨e1, f1⟩ := consOp_setSf sf1 h
    exact Or.inl ⟨sf1, e1, by rw [f1]; exact hg⟩
  | SwapEval =>
    simp only [stepOp] at h ⊢
    obtain ⟨e1, f1⟩ := swapEvalOp_setSf sf1 h
    exact Or.inl ⟨sf1, e1, by rw [f1]; exact hg⟩
  | RestoreAllocator =>
    simp only [stepOp] at h ⊢
    split at h
    · cases h
    · rename_i h1
      split at h
      · cases h
      · rename_i h2
        cases h
        refine Or.inl ⟨sf1, ?_, hg⟩
        have e1 : (s.setSf sf1).allocatorStack = s.allocatorStack := rfl
        have e2 : (s.setSf sf1).valStack = s.valStack := rfl
        rw [e1, e2, if_neg h1, if_neg h2]; rfl

theorem runLoop_down {cfg : Cfg} {d : Dialect} (hd : d.OpBudgetDich) {mc1 mc2 : Nat} (hmc : mc1 ≤ mc2)
    (fuel : Nat) :
    ∀ (s : MState) (sf1 : List SoftforkGuard) (cost C : Nat) (sF : MState), GuardsLe sf1 s.softforkStack →
      runLoop cfg d mc2 fuel s cost = some (.ok (C, sF)) →
      (∃ sfF, runLoop cfg d mc1 fuel (s.setSf sf1) cost = some (.ok (C, sF.setSf sfF))) ∨
      runLoop cfg d mc1 fuel (s.setSf sf1) cost = some (.error (.err .CostExceeded)) := by
  induction fuel with
  | zero => intro s sf1 cost C sF _ h; simp [runLoop_zero] at h
  | succ n ih =>
    intro s sf1 cost C sF hg h
    have hem := effMax_le' hmc hg
    rw [runLoop_succ] at h ⊢
    unfold loopBody at h ⊢
    by_cases hcS : cost > effMax mc1 (s.setSf sf1)
    · right; rw [if_pos hcS]
    · rw [if_neg hcS]
      split at h
      · cases h
      · have hops : (s.setSf sf1).opStack = s.opStack := rfl
        rw [hops]
        split at h
        · cases h
          exact Or.inl ⟨sf1, rfl⟩
        · rename_i op ops hop
          split at h
          · cases h
          · rename_i c s1 hst
            have : ({ s.setSf sf1 with opStack := ops } : MState) = ({ s with opStack := ops } : MState).setSf sf1 := rfl
            rcases stepOp_down hd (s := { s with opStack := ops }) (sf1 := sf1) hg
              (Nat.le_of_not_gt hcS) hem hst with ⟨sf1', e1, hg'⟩ | hce
            · simp only [this, e1]
              exact ih s1 sf1' _ C sF hg' h
            · right; simp only [this, hce]

/-- **C02 (c), dichotomy.**  A program that succeeds under budget `M` gives, under any other budget
`M'` (same fuel), the identical success or `CostExceeded` — never another error, never another
result. -/
theorem run_dichotomy {cfg : Cfg} {d : Dialect} (hu : d.OpBudgetUp) (hdi : d.OpBudgetDich) {fuel : Nat}
    {c0 : Ctr} {p e : Val}
    {M : Nat} {r : Nat × Val × Ctr} (h : runProgram cfg d fuel c0 p e M = some (.ok r)) (M' : Nat) :
    runProgram cfg d fuel c0 p e M' = some (.ok r) ∨
    runProgram cfg d fuel c0 p e M' = some (.error .CostExceeded) := by
  by_cases hM : effBudget M ≤ effBudget M'
  · exact Or.inl (run_upward hu h hM)
  · obtain ⟨C, v, c⟩ := r
    obtain ⟨c1, cost0, s0, sF, vs, h1, h2, h3, h4, h5⟩ := runProgram_ok_iff.1 h
    have hsf0 := initial_sf h2
    have hs0 : s0.setSf [] = s0 := by rw [← hsf0]; rfl
    rcases runLoop_down hdi (Nat.le_of_lt (Nat.lt_of_not_le hM)) fuel s0 [] cost0 C sF
      (by rw [hsf0]; exact GuardsRel.nil) h3 with ⟨sfF, h3'⟩ | hce
    · rw [hs0] at h3'
      exact Or.inl (runProgram_ok_iff.2 ⟨c1, cost0, s0, sF.setSf sfF, vs, h1, h2, h3', h4, h5⟩)
    · rw [hs0] at hce
      exact Or.inr (runProgram_of_loop h1 h2 hce)

/-- **C02, with cost-exempt guards** (`…_exempt` of the plan): whatever the dialect, the set of
budgets under which a program succeeds is upward closed (`run_upward`), all of them give the same
cost, value and counters, and each of them is at least the reported cost. -/
theorem run_success_unique {cfg : Cfg} {d : Dialect} (hu : d.OpBudgetUp) (hdi : d.OpBudgetDich) {fuel : Nat}
    {c0 : Ctr} {p e : Val} {M M' : Nat} {r r' : Nat × Val × Ctr}
    (h : runProgram cfg d fuel c0 p e M = some (.ok r)) (h' : runProgram cfg d fuel c0 p e M' = some (.ok r')) :
    r' = r ∧ r.1 ≤ effBudget M' := by
  rcases run_dichotomy hu hdi h M' with hok | hce
  · rw [hok] at h'
    cases h'
    exact ⟨rfl, run_sound hok⟩
  · rw [hce] at h'; cases h'

/-! ### (d) tightness, for dialects without cost-exempt guards -/

/-- no softfork extension of the dialect is cost-exempt -/
def Dialect.NoExempt (d : Dialect) : Prop := ∀ n, d.softforkExtension n ≠ .PreHardFork

theorem parse_ext {d : Dialect} {ol : Val} {ext : OperatorSet} {prg env : Val}
    (h : parseSoftforkArguments d ol = .ok (ext, prg, env)) : ∃ n, ext = d.softforkExtension n := by
  unfold parseSoftforkArguments at h
  split at h
  · cases h
  · split at h
    · cases h
    · rename_i n _
      simp only at h
      split at h
      · cases h
      · cases h; exact ⟨n, rfl⟩

/-- how one step changes the softfork stack: not at all, or it enters a guard (whose expected cost,
unless exempt, is within the limit in force), or it leaves the top guard (at exactly its expected
cost unless exempt) -/
theorem stepOp_sf_cases {cfg : Cfg} {d : Dialect} {s s' : MState} {op : Operation} {cost em c : Nat}
    (h : stepOp cfg d s op cost em = .ok (c, s')) :
    s'.softforkStack = s.softforkStack ∨
    (∃ g, s'.softforkStack = g :: s.softforkStack ∧ (∃ n, g.operatorSet = d.softforkExtension n) ∧
      (g.operatorSet ≠ .PreHardFork → cost ≤ em → g.expectedCost ≤ em)) ∨
    (∃ g, s.softforkStack = g :: s'.softforkStack ∧ (g.operatorSet ≠ .PreHardFork → cost = g.expectedCost)) := by
  cases op with
  | Apply =>
    simp only [stepOp] at h
    match hvs : s.valStack, hes : s.envStack with
    | [], _ => simp [applyOp, MState.pop, hvs, bind, Except.bind] at h
    | [_], _ => simp [applyOp, MState.pop, hvs, bind, Except.bind] at h
    | _ :: _ :: _, [] => simp [applyOp, MState.pop, hvs, hes, bind, Except.bind] at h
    | ol :: o :: vals, e0 :: envs =>
      rw [applyOp_eq cfg _ s _ _ hvs hes] at h
      have hb : (s.applyBase vals envs).softforkStack = s.softforkStack := rfl
      rw [← hb]
      generalize s.applyBase vals envs = s0 at h
      unfold applyBody at h
      split at h
      · unfold applyApply at h
        obtain ⟨⟨no, env⟩, _, h⟩ := M_bind_ok h
        obtain ⟨⟨c1, s1⟩, h1, h⟩ := M_bind_ok h
        cases M_pure_ok h
        exact Or.inl (evalPair_setSf [] h1).2
      · split at h
        · unfold applySoftfork at h
          obtain ⟨f, _, h⟩ := M_bind_ok h
          obtain ⟨ec, _, h⟩ := M_bind_ok h
          split at h
          · cases h
          · rename_i hec
            split at h
            · cases h
            · split at h
              · split at h
                · obtain ⟨s1, hp, h⟩ := M_bind_ok h
                  cases M_pure_ok h
                  exact Or.inl (push_setSf [] hp).2
                · cases h
              · rename_i ext prg env hparse
                split at h
                · cases h
                · obtain ⟨⟨c1, s1⟩, hev, h⟩ := M_bind_ok h
                  cases M_pure_ok h
                  refine Or.inr (Or.inl ⟨_, (evalPair_setSf [] hev).2, parse_ext hparse, ?_⟩)
                  intro hne hc
                  show guardExpected s0 ext cost (em - cost) ec ≤ em
                  unfold guardExpected
                  have : (ext == OperatorSet.PreHardFork) = false := by
                    cases hb : (ext == OperatorSet.PreHardFork)
                    · rfl
                    · exact absurd (by simpa using hb) hne
                  simp only [this, Bool.false_eq_true, if_false]
                  omega
        · unfold applyOrdinary at h
          split at h
          · cases h
          · cases h
          · obtain ⟨s1, hp, h⟩ := M_bind_ok h
            cases M_pure_ok h
            exact Or.inl (push_setSf [] hp).2
  | ExitGuard =>
    simp only [stepOp] at h
    unfold exitGuard at h
    split at h
    · cases h
    · rename_i g rest hsf
      simp only at h
      split at h
      · cases h
      · rename_i hchk
        split at h
        · cases h
        · obtain ⟨s1, hp, h⟩ := M_bind_ok h
          cases M_pure_ok h
          refine Or.inr (Or.inr ⟨g, ?_, ?_⟩)
          · rw [(push_setSf [] hp).2]; exact hsf
          · intro hne
            have hex : g.costExempt = false := by
              unfold SoftforkGuard.costExempt
              cases hb : (g.operatorSet == OperatorSet.PreHardFork)
              · rfl
              · exact absurd (by simpa using hb) hne
            simpa [hex] using hchk
  | Cons => simp only [stepOp] at h; exact Or.inl (consOp_setSf [] h).2
  | SwapEval => simp only [stepOp] at h; exact Or.inl (swapEvalOp_setSf [] h).2
  | RestoreAllocator =>
    simp only [stepOp] at h
    split at h
    · cases h
    · split at h
      · cases h
      · cases h; exact Or.inl rfl

/-- in a run without exempt guards, every guard on the softfork stack is left at exactly its
expected cost, so the final cost is at least that -/
theorem runLoop_guards_le {cfg : Cfg} {d : Dialect} (hne : d.NoExempt) (mc : Nat) (fuel : Nat) :
    ∀ (s : MState) (cost C : Nat) (sF : MState), s.Shaped →
      (∀ g ∈ s.softforkStack, g.operatorSet ≠ .PreHardFork) →
      runLoop cfg d mc fuel s cost = some (.ok (C, sF)) → ∀ g ∈ s.softforkStack, g.expectedCost ≤ C := by
  induction fuel with
  | zero => intro s cost C sF _ _ h; simp [runLoop_zero] at h
  | succ n ih =>
    intro s cost C sF hsh hex h g hgm
    rw [runLoop_succ] at h
    unfold loopBody at h
    split at h
    · cases h
    · split at h
      · rename_i hop
        have := (Shaped.final hsh hop).2.2.1
        rw [this] at hgm; cases hgm
      · rename_i op ops hop
        split at h
        · cases h
        · rename_i c s1 hst
          have hsh1 : s1.Shaped := stepOp_shape (s := { s with opStack := ops }) rfl
            (by simpa [MState.Shaped, hop] using hsh) hst
          have hge := runLoop_cost_ge cfg d mc n s1 (cost + c) C sF h
          rcases stepOp_sf_cases hst with hsame | ⟨g', hpush, ⟨k, hk⟩, _⟩ | ⟨g', hpop, hcost⟩
          · exact ih s1 _ C sF hsh1 (by rw [hsame]; exact hex) h g (by rw [hsame]; exact hgm)
          · refine ih s1 _ C sF hsh1 ?_ h g (by rw [hpush]; exact List.mem_cons_of_mem _ hgm)
            intro g0 hg0
            rw [hpush] at hg0
            rcases List.mem_cons.1 hg0 with rfl | hg0
            · rw [hk]; exact hne k
            · exact hex g0 hg0
          · have hs : s.softforkStack = g' :: s1.softforkStack := hpop
            rw [hs] at hgm
            rcases List.mem_cons.1 hgm with rfl | hgm
            · have := hcost (hex g (by rw [hs]; exact List.mem_cons_self))
              omega
            · exact ih s1 _ C sF hsh1 (fun g0 hg0 => hex g0 (by rw [hs]; exact List.mem_cons_of_mem _ hg0))
                h g hgm

theorem applyBody_tight {cfg : Cfg} {d : Dialect} (hd : d.OpBudget) (hne : d.NoExempt) {s s' : MState}
    {ol o : Val} {cost em1 em2 c : Nat}
    (hfit : s'.softforkStack = s.softforkStack → cost + c ≤ em2)
    (hgd : ∀ g, s'.softforkStack = g :: s.softforkStack → g.expectedCost ≤ em2)
    (h : applyBody cfg d s ol o cost (em1 - cost) = .ok (c, s')) :
    applyBody cfg d s ol o cost (em2 - cost) = .ok (c, s') := by
  unfold applyBody at h ⊢
  split at h
  · rename_i hk
    rw [if_pos hk]; exact h
  · rename_i hk
    rw [if_neg hk]
    split at h
    · rename_i hk2
      rw [if_pos hk2]
      unfold applySoftfork at h ⊢
      obtain ⟨f, hf, h⟩ := M_bind_ok h
      obtain ⟨ec, hec, h⟩ := M_bind_ok h
      rw [M_bind_eq hf, M_bind_eq hec]
      split at h
      · cases h
      · split at h
        · cases h
        · rename_i h2
          split at h
          · split at h
            · rename_i err hperr hallow
              obtain ⟨s1, hp, h'⟩ := M_bind_ok h
              cases M_pure_ok h'
              have := hfit (push_setSf [] hp).2
              have h1' : ¬ c > em2 - cost := by omega
              rw [if_neg h1', if_neg h2]
              simp only [hallow, if_true]
              exact h
            · cases h
          · rename_i ext prg env hparse
            split at h
            · cases h
            · rename_i hlim
              obtain ⟨⟨c1, s1⟩, hev, h'⟩ := M_bind_ok h
              cases M_pure_ok h'
              obtain ⟨k, hk⟩ := parse_ext hparse
              have hext : (ext == OperatorSet.PreHardFork) = false := by
                cases hb : (ext == OperatorSet.PreHardFork)
                · rfl
                · exact absurd (by rw [← hk]; simpa using hb) (hne k)
              have hge : guardExpected s ext cost (em1 - cost) ec = cost + ec := by
                unfold guardExpected; simp only [hext, Bool.false_eq_true, if_false]
              have hge2 : guardExpected s ext cost (em2 - cost) ec = cost + ec := by
                unfold guardExpected; simp only [hext, Bool.false_eq_true, if_false]
              have := hgd _ (evalPair_setSf [] hev).2
              simp only [hge] at this
              have h1' : ¬ ec > em2 - cost := by omega
              rw [if_neg h1', if_neg h2]
              rw [if_neg hlim]
              simp only [hge2]
              simp only [hge] at h
              exact h
    · rename_i hk2
      rw [if_neg hk2]
      unfold applyOrdinary at h ⊢
      split at h
      · cases h
      · cases h
      · rename_i cost' v c' hop
        obtain ⟨s1, hp, h'⟩ := M_bind_ok h
        cases M_pure_ok h'
        have := hfit (push_setSf [] hp).2
        have := hd.tight o ol _ _ _ (em2 - cost) _ hop (by show c ≤ em2 - cost; omega)
        simp only [this]
        exact h

theorem stepOp_tight {cfg : Cfg} {d : Dialect} (hd : d.OpBudget) (hne : d.NoExempt) {s s' : MState}
    {op : Operation} {cost em1 em2 c : Nat}
    (hfit : s'.softforkStack = s.softforkStack → cost + c ≤ em2)
    (hgd : ∀ g, s'.softforkStack = g :: s.softforkStack → g.expectedCost ≤ em2)
    (h : stepOp cfg d s op cost em1 = .ok (c, s')) : stepOp cfg d s op cost em2 = .ok (c, s') := by
  cases op with
  | Apply =>
    simp only [stepOp] at h ⊢
    match hvs : s.valStack, hes : s.envStack with
    | [], _ => simp [applyOp, MState.pop, hvs, bind, Except.bind] at h
    | [_], _ => simp [applyOp, MState.pop, hvs, bind, Except.bind] at h
    | _ :: _ :: _, [] => simp [applyOp, MState.pop, hvs, hes, bind, Except.bind] at h
    | ol :: o :: vals, e0 :: envs =>
      rw [applyOp_eq cfg _ s _ _ hvs hes] at h ⊢
      exact applyBody_tight hd hne (s := s.applyBase vals envs) hfit hgd h
  | ExitGuard => exact h
  | Cons => exact h
  | SwapEval => exact h
  | RestoreAllocator => exact h

/-- without exempt guards, a successful loop with final cost `C` is the same successful loop under
every budget that covers `C` -/
theorem runLoop_tight {cfg : Cfg} {d : Dialect} (hd : d.OpBudget) (hne : d.NoExempt) {mc1 mc2 : Nat} (fuel : Nat) :
    ∀ (s : MState) (cost C : Nat) (sF : MState), s.Shaped →
      (∀ g ∈ s.softforkStack, g.operatorSet ≠ .PreHardFork) →
      runLoop cfg d mc1 fuel s cost = some (.ok (C, sF)) → C ≤ mc2 →
      runLoop cfg d mc2 fuel s cost = some (.ok (C, sF)) := by
  induction fuel with
  | zero => intro s cost C sF _ _ h; simp [runLoop_zero] at h
  | succ n ih =>
    intro s cost C sF hsh hex h hC
    have hcC := runLoop_cost_ge cfg d mc1 (n + 1) s cost C sF h
    rw [runLoop_succ] at h ⊢
    unfold loopBody at h ⊢
    split at h
    · cases h
    · rename_i hc
      -- the limit in force in the second run
      have hem : (s.softforkStack = [] ∧ effMax mc2 s = mc2) ∨
          (s.softforkStack ≠ [] ∧ effMax mc2 s = effMax mc1 s) := by
        unfold effMax
        cases s.softforkStack with
        | nil => exact Or.inl ⟨rfl, rfl⟩
        | cons g r => exact Or.inr ⟨by simp, rfl⟩
      have hc2 : ¬ cost > effMax mc2 s := by
        rcases hem with ⟨_, e⟩ | ⟨_, e⟩ <;> rw [e] <;> omega
      rw [if_neg hc2]
      split at h
      · exact h
      · rename_i op ops hop
        split at h
        · cases h
        · rename_i c s1 hst
          have hsh1 : s1.Shaped := stepOp_shape (s := { s with opStack := ops }) rfl
            (by simpa [MState.Shaped, hop] using hsh) hst
          have hge := runLoop_cost_ge cfg d mc1 n s1 (cost + c) C sF h
          have hfirst := runLoop_ok_first h
          have hcases := stepOp_sf_cases hst
          have hex1 : ∀ g ∈ s1.softforkStack, g.operatorSet ≠ .PreHardFork := by
            rcases hcases with hsame | ⟨g', hpush, ⟨k, hk⟩, _⟩ | ⟨g', hpop, _⟩
            · rw [hsame]; exact hex
            · intro g0 hg0
              rw [hpush] at hg0
              rcases List.mem_cons.1 hg0 with rfl | hg0
              · rw [hk]; exact hne k
              · exact hex g0 hg0
            · intro g0 hg0
              exact hex g0 (by rw [show s.softforkStack = g' :: s1.softforkStack from hpop]
                               exact List.mem_cons_of_mem _ hg0)
          have hfit : s1.softforkStack = ({ s with opStack := ops } : MState).softforkStack →
              cost + c ≤ effMax mc2 s := by
            intro hsf
            rcases hem with ⟨_, e⟩ | ⟨_, e⟩
            · rw [e]; omega
            · rw [e]
              unfold effMax at hfirst ⊢
              rw [hsf] at hfirst
              exact hfirst
          have hgd : ∀ g, s1.softforkStack = g :: ({ s with opStack := ops } : MState).softforkStack →
              g.expectedCost ≤ effMax mc2 s := by
            intro g hsf
            rcases hem with ⟨_, e⟩ | ⟨_, e⟩
            · rw [e]
              have := runLoop_guards_le hne mc1 n s1 _ C sF hsh1 hex1 h g (by rw [hsf]; exact List.mem_cons_self)
              omega
            · rw [e]
              rcases hcases with hsame | ⟨g', hpush, _, hle⟩ | ⟨g', hpop, _⟩
              · rw [hsame] at hsf
                exact absurd (congrArg List.length hsf) (by simp)
              · rw [hpush] at hsf
                cases hsf
                exact hle (hex1 _ (by rw [hpush]; exact List.mem_cons_self)) (Nat.le_of_not_gt hc)
              · have hp : ({ s with opStack := ops } : MState).softforkStack = g' :: s1.softforkStack := hpop
                rw [hp] at hsf
                exact absurd (congrArg List.length hsf) (by simp; omega)
          simp only [stepOp_tight hd hne hfit hgd hst]
          exact ih s1 _ C sF hsh1 hex1 h hC

/-- **C02 (d), tight.**  For a dialect without cost-exempt guards: if the program succeeds under `M`
with cost `C`, then under every budget `M'` it succeeds identically when `C ≤ M'` and fails with
`CostExceeded` when `M' < C` (`0` standing for `u64::MAX`): the smallest sufficient budget is
exactly the reported cost. -/
theorem run_tight {cfg : Cfg} {d : Dialect} (hd : d.OpBudget) (hne : d.NoExempt) {fuel : Nat} {c0 : Ctr}
    {p e : Val} {M C : Nat} {v : Val} {c : Ctr}
    (h : runProgram cfg d fuel c0 p e M = some (.ok (C, v, c))) (M' : Nat) :
    (C ≤ effBudget M' → runProgram cfg d fuel c0 p e M' = some (.ok (C, v, c))) ∧
    (effBudget M' < C → runProgram cfg d fuel c0 p e M' = some (.error .CostExceeded)) := by
  constructor
  · intro hC
    obtain ⟨c1, cost0, s0, sF, vs, h1, h2, h3, h4, h5⟩ := runProgram_ok_iff.1 h
    have hsf0 := initial_sf h2
    have h3' := runLoop_tight hd hne (mc2 := effBudget M') fuel s0 cost0 C sF (initial_shaped h2)
      (by rw [hsf0]; intro g hg; cases hg) h3 hC
    exact runProgram_ok_iff.2 ⟨c1, cost0, s0, sF, vs, h1, h2, h3', h4, h5⟩
  · intro hlt
    rcases run_dichotomy hd.up hd.dich h M' with hok | hce
    · have := run_sound hok
      omega
    · exact hce

/-- `ChiaDialect::new(F)` has no cost-exempt guards unless `NEW_COST_MODEL` is set -/
theorem chiaDialect_noExempt (cfg : Cfg) (extra : String → Option OpFn) (F : Nat)
    (hF : hasFlag F Gen.FLAG_NEW_COST_MODEL = false) : (chiaDialect cfg extra F).NoExempt := by
  intro n
  have hl : (if (hasFlag F Gen.FLAG_NEW_COST_MODEL && hasFlag F Gen.FLAG_LIMITS) = true
      then F - Gen.FLAG_LIMITS else F) = F := by simp [hF]
  show (if hasFlag (if (hasFlag F Gen.FLAG_NEW_COST_MODEL && hasFlag F Gen.FLAG_LIMITS) = true
      then F - Gen.FLAG_LIMITS else F) Gen.FLAG_NEW_COST_MODEL = true then _ else _) ≠ _
  rw [hl, hF]
  simp only [Bool.false_eq_true, if_false]
  split
  · simp
  · split <;> simp

end Clvm.Interp
