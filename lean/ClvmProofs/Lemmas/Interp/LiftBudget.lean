/-
C02, machine level: the cost budget of `run_program` is sound, upward closed, a dichotomy
(same success or `CostExceeded`) and — without cost-exempt guards — tight.

`effBudget M` is the budget in force (`0` means `u64::MAX`).  The per-operator input is
`Dialect.OpBudget` (every operator of the dialect, as a function of its budget argument, has the
shapes `OpBudget` / `OpBudgetErr` of `OpProps.lean`).
-/
import ClvmProofs.Lemmas.Interp.LiftShape

namespace Clvm.Interp
open Clvm Clvm.Alloc

/-! ### (a) soundness -/

/-- whenever the main loop finishes, the accumulated cost is within the limit in force there -/
theorem runLoop_cost_le (cfg : Cfg) (d : Dialect) (mc : Nat) (fuel : Nat) :
    ∀ (s : MState) (cost : Nat) (C : Nat) (sF : MState),
      runLoop cfg d mc fuel s cost = some (.ok (C, sF)) → C ≤ effMax mc sF := by
  induction fuel with
  | zero => intro s cost C sF h; simp [runLoop_zero] at h
  | succ n ih =>
    intro s cost C sF h
    rw [runLoop_succ] at h
    unfold loopBody at h
    split at h
    · cases h
    · rename_i hc
      split at h
      · cases h; omega
      · split at h
        · cases h
        · exact ih _ _ C sF h

/-- **C02 (a), sound.**  A successful `run_program` under budget `M` reports a cost of at most `M`
(`u64::MAX` for `M = 0`) — for *every* dialect: the machine has left every softfork guard when the
operation stack is empty (`runLoop_shape`), so the limit in force at the end is the budget. -/
theorem run_sound {cfg : Cfg} {d : Dialect} {fuel : Nat} {c0 : Ctr} {p e : Val} {M C : Nat} {v : Val} {c : Ctr}
    (h : runProgram cfg d fuel c0 p e M = some (.ok (C, v, c))) : C ≤ effBudget M := by
  obtain ⟨c1, cost0, s0, sF, vs, _, h2, h3, _, _⟩ := runProgram_ok_iff.1 h
  obtain ⟨hF, hop⟩ := runLoop_shape cfg d _ fuel s0 cost0 C sF (initial_shaped h2) h3
  have hsf := (Shaped.final hF hop).2.2.1
  have := runLoop_cost_le cfg d _ fuel s0 cost0 C sF h3
  simpa [effMax, hsf] using this

end Clvm.Interp
