/-
C06 (per-operator layer): the `MALACHITE` flag does not change any outcome.

`malachite_int_atom` and `int_atom` are transcribed separately in the model (`OpUtils.lean`); they
are the same function (`malachiteIntAtom_eq`, no well-formedness needed: an inline atom is decoded
by both as `(val, len_for_value(val))`, a heap atom by both as `(decodeInt buf, buf.len())`), and
Lean's `Int` stands for both `num-bigint` and `malachite` arithmetic (`Int.fdiv`, `Int.fmod`,
`modpowInt`) — that the two libraries compute the same quotients is the differential
correspondence's concern (streams `OP … op_div` with and without the flag), not a theorem here.
-/
import ClvmProofs.Lemmas.Interp.Flags

namespace Clvm.Interp
open Clvm Clvm.Alloc

/-- **C06 shape**: adding `MALACHITE` changes nothing (success, failure, cost, value, counters)
on well-formed arguments -/
def OpMalachiteIrrelevant (f : OpFn) : Prop :=
  ∀ (F m : Nat) (args : Val) (c : Ctr), args.wf = true →
    f (F ||| Gen.FLAG_MALACHITE) m args c = f F m args c

theorem opDivWith_malachite : opDivWith malachiteIntAtom = opDivWith intAtom := by
  rw [malachiteIntAtom_eq']
theorem opDivmodWith_malachite : opDivmodWith malachiteIntAtom = opDivmodWith intAtom := by
  rw [malachiteIntAtom_eq']
theorem opModWith_malachite : opModWith malachiteIntAtom = opModWith intAtom := by
  rw [malachiteIntAtom_eq']
theorem opModpowWith_malachite : opModpowWith malachiteIntAtom = opModpowWith intAtom := by
  rw [malachiteIntAtom_eq']

/-- for every core operator (not only the four that test the bit), all arguments (well-formed or
not): the function with `MALACHITE` added is the same function -/
theorem coreOps_malachite_eq {cfg : Cfg} {name : String} {f : OpFn} (hf : coreOpByName cfg name = some f)
    (F : Nat) : f (F ||| Gen.FLAG_MALACHITE) = f F :=
  coreOps_sameView hf (sameView_malachite F)

theorem opDiv_malachite : OpMalachiteIrrelevant opDiv := fun F m a c _ => by
  rw [coreOps_malachite_eq (cfg := {}) (name := "op_div") rfl]
theorem opDivmod_malachite : OpMalachiteIrrelevant opDivmod := fun F m a c _ => by
  rw [coreOps_malachite_eq (cfg := {}) (name := "op_divmod") rfl]
theorem opMod_malachite : OpMalachiteIrrelevant opMod := fun F m a c _ => by
  rw [coreOps_malachite_eq (cfg := {}) (name := "op_mod") rfl]
theorem opModpow_malachite : OpMalachiteIrrelevant opModpow := fun F m a c _ => by
  rw [coreOps_malachite_eq (cfg := {}) (name := "op_modpow") rfl]

theorem coreOps_malachite {cfg : Cfg} {name : String} {f : OpFn} (hf : coreOpByName cfg name = some f) :
    OpMalachiteIrrelevant f := fun F m a c _ => by rw [coreOps_malachite_eq hf]

theorem opUnknown_malachite (op : Bytes) : OpMalachiteIrrelevant (opUnknown op) := fun F m a c _ => by
  rw [opUnknown_nm (newModel_or_malachite F)]

/-- the flag-dispatching operators equal both of their variants -/
theorem opDiv_variants (F : Nat) :
    opDiv F = opDivWith intAtom F ∧ opDiv F = opDivWith malachiteIntAtom F := by
  rw [opDivWith_malachite]; exact ⟨opDiv_eq F, opDiv_eq F⟩
theorem opDivmod_variants (F : Nat) :
    opDivmod F = opDivmodWith intAtom F ∧ opDivmod F = opDivmodWith malachiteIntAtom F := by
  rw [opDivmodWith_malachite]; exact ⟨opDivmod_eq F, opDivmod_eq F⟩
theorem opMod_variants (F : Nat) :
    opMod F = opModWith intAtom F ∧ opMod F = opModWith malachiteIntAtom F := by
  rw [opModWith_malachite]; exact ⟨opMod_eq F, opMod_eq F⟩
theorem opModpow_variants (F : Nat) :
    opModpow F = opModpowWith intAtom F ∧ opModpow F = opModpowWith malachiteIntAtom F := by
  rw [opModpowWith_malachite]; exact ⟨opModpow_eq F, opModpow_eq F⟩

end Clvm.Interp
