/-
Shared base for machine-level theorems: the loop of `runLoop` unfolded into a step function,
fuel monotonicity, and the state invariants (well-formed values on the stacks).
-/
import ClvmProofs.Lemmas.Interp.OpProps

namespace Clvm.Interp
open Clvm Clvm.Alloc

/-- `effective_max_cost` -/
def effMax (maxCost : Nat) (s : MState) : Nat :=
  match s.softforkStack with
  | sf :: _ => sf.expectedCost
  | [] => maxCost

/-- the body of the `match op` of the main loop (`s` has the operation already popped) -/
def stepOp (cfg : Cfg) (d : Dialect) (s : MState) (op : Operation) (cost em : Nat) : M (Nat × MState) :=
  match op with
  | .Apply => applyOp cfg d s cost (em - cost)
  | .ExitGuard => exitGuard s cost
  | .Cons => consOp s
  | .SwapEval => swapEvalOp cfg d s
  | .RestoreAllocator =>
    if s.allocatorStack == 0 then .error (.err (.InternalError "allocator checkpoint stack empty"))
    else if s.valStack.isEmpty then .error (.err (.InternalError "value stack empty"))
    else .ok (0, { s with allocatorStack := s.allocatorStack - 1 })

theorem runLoop_zero (cfg : Cfg) (d : Dialect) (mc : Nat) (s : MState) (cost : Nat) :
    runLoop cfg d mc 0 s cost = none := rfl

/-- the loop body with the effective limit as a parameter -/
def loopBody (cfg : Cfg) (d : Dialect) (mc fuel : Nat) (s : MState) (cost em : Nat) :
    Option (M (Nat × MState)) :=
  if cost > em then some (.error (.err .CostExceeded))
  else match s.opStack with
    | [] => some (.ok (cost, s))
    | op :: ops =>
      match stepOp cfg d { s with opStack := ops } op cost em with
      | .error e => some (.error e)
      | .ok (c, s') => runLoop cfg d mc fuel s' (cost + c)

/-- one unfolding of the main loop -/
theorem runLoop_succ (cfg : Cfg) (d : Dialect) (mc fuel : Nat) (s : MState) (cost : Nat) :
    runLoop cfg d mc (fuel + 1) s cost = loopBody cfg d mc fuel s cost (effMax mc s) := by
  simp only [runLoop, effMax, stepOp, loopBody]
  cases hss : s.softforkStack with
  | nil =>
    simp only []
    by_cases hc : cost > mc
    · simp only [hc, if_true]
    · simp only [hc, if_false]
      cases hop : s.opStack with
      | nil => rfl
      | cons op ops => cases op <;> rfl
  | cons sf sfs =>
    simp only []
    by_cases hc : cost > sf.expectedCost
    · simp only [hc, if_true]
    · simp only [hc, if_false]
      cases hop : s.opStack with
      | nil => rfl
      | cons op ops => cases op <;> rfl

/-- more fuel never changes a definite answer -/
theorem runLoop_fuel_mono (cfg : Cfg) (d : Dialect) (mc : Nat) (fuel : Nat) :
    ∀ (s : MState) (cost : Nat) (r : M (Nat × MState)),
      runLoop cfg d mc fuel s cost = some r → runLoop cfg d mc (fuel + 1) s cost = some r := by
  induction fuel with
  | zero => intro s cost r h; simp [runLoop_zero] at h
  | succ n ih =>
    intro s cost r h
    rw [runLoop_succ] at h ⊢
    unfold loopBody at h ⊢
    by_cases hc : cost > effMax mc s
    · simp only [hc, if_true] at h ⊢; exact h
    · simp only [hc, if_false] at h ⊢
      cases hop : s.opStack with
      | nil => rw [hop] at h; exact h
      | cons op ops =>
        rw [hop] at h
        simp only at h ⊢
        cases hst : stepOp cfg d { s with opStack := ops } op cost (effMax mc s) with
        | error e => rw [hst] at h; exact h
        | ok r' =>
          obtain ⟨c, s'⟩ := r'
          rw [hst] at h
          simp only at h ⊢
          exact ih s' (cost + c) r h

theorem runLoop_fuel_le (cfg : Cfg) (d : Dialect) (mc : Nat) (f1 f2 : Nat) (hle : f1 ≤ f2)
    (s : MState) (cost : Nat) (r : M (Nat × MState)) (h : runLoop cfg d mc f1 s cost = some r) :
    runLoop cfg d mc f2 s cost = some r := by
  induction hle with
  | refl => exact h
  | step _ ih => exact runLoop_fuel_mono cfg d mc _ s cost r ih

/-- all values on the two value stacks are well-formed -/
def MState.WF (s : MState) : Prop :=
  (∀ v ∈ s.valStack, v.wf = true) ∧ (∀ v ∈ s.envStack, v.wf = true)

/-- a dialect whose operators satisfy `P` whenever they are implemented -/
def Dialect.OpsSat (d : Dialect) (P : OpFn → Prop) : Prop :=
  ∀ (o : Val) (ext : OperatorSet), P (fun _ m args c =>
    match d.op o args m ext c with
    | some r => r
    | none => .error (.Panic "unsupported"))

end Clvm.Interp
