/-
The stack-shape invariant of the machine (`run_program.rs`).

`Shape ops vs ne ng na` runs the operation stack `ops` *abstractly* against the depths of the other
stacks: `vs` has one entry per value on the value stack (`true` = "known to be an atom", the only
content the machine ever relies on: the operator under an `Apply`), `ne` / `ng` / `na` are the
depths of the environment stack, the softfork stack and the allocator-checkpoint stack.  Each
operation says what it needs (`Apply`: two values, the lower one an atom, and an environment; …)
and what it leaves (one value of unknown kind).  At the bottom exactly one value is left and the
other three stacks are empty.  `MState.Shaped` is preserved by every successful step
(`stepOp_shape`), so none of the machine's own `InternalError` / `expect` sites is reachable
(`ClvmProofs/Lemmas/Interp/LiftClean.lean`), and a finished run has left every softfork guard
(`runLoop_final`; used for C02 soundness).
-/
import ClvmProofs.Lemmas.Interp.LiftCore

namespace Clvm.Interp
open Clvm Clvm.Alloc

def Shape : List Operation → List Bool → Nat → Nat → Nat → Prop
  | [], vs, ne, ng, na => vs.length = 1 ∧ ne = 0 ∧ ng = 0 ∧ na = 0
  | .Apply :: ops, vs, ne, ng, na =>
      ∃ x vs', vs = x :: true :: vs' ∧ 1 ≤ ne ∧ Shape ops (false :: vs') (ne - 1) ng na
  | .Cons :: ops, vs, ne, ng, na => ∃ x y vs', vs = x :: y :: vs' ∧ Shape ops (false :: vs') ne ng na
  | .SwapEval :: ops, vs, ne, ng, na =>
      ∃ x y vs', vs = x :: y :: vs' ∧ 1 ≤ ne ∧ Shape ops (false :: vs') ne ng na
  | .ExitGuard :: ops, vs, ne, ng, na =>
      ∃ x vs', vs = x :: vs' ∧ 1 ≤ ng ∧ Shape ops (false :: vs') ne (ng - 1) na
  | .RestoreAllocator :: ops, vs, ne, ng, na => vs ≠ [] ∧ 1 ≤ na ∧ Shape ops vs ne ng (na - 1)

theorem Shape.top {ops : List Operation} : ∀ {vs : List Bool} {ne ng na : Nat} (b : Bool),
    Shape ops (false :: vs) ne ng na → Shape ops (b :: vs) ne ng na := by
  induction ops with
  | nil => intro vs ne ng na b h; simpa [Shape] using h
  | cons op ops ih =>
    intro vs ne ng na b h
    cases op with
    | Apply =>
      obtain ⟨x, vs', hv, h1, h2⟩ := h
      rw [List.cons.injEq] at hv; obtain ⟨_, rfl⟩ := hv
      exact ⟨b, vs', rfl, h1, h2⟩
    | Cons =>
      obtain ⟨x, y, vs', hv, h2⟩ := h
      rw [List.cons.injEq] at hv; obtain ⟨_, rfl⟩ := hv
      exact ⟨b, y, vs', rfl, h2⟩
    | SwapEval =>
      obtain ⟨x, y, vs', hv, h1, h2⟩ := h
      rw [List.cons.injEq] at hv; obtain ⟨_, rfl⟩ := hv
      exact ⟨b, y, vs', rfl, h1, h2⟩
    | ExitGuard =>
      obtain ⟨x, vs', hv, h1, h2⟩ := h
      rw [List.cons.injEq] at hv; obtain ⟨_, rfl⟩ := hv
      exact ⟨b, _, rfl, h1, h2⟩
    | RestoreAllocator =>
      obtain ⟨_, h1, h2⟩ := h
      exact ⟨by simp, h1, ih b h2⟩

def flagsOf (vs : List Val) : List Bool := vs.map (fun v => !v.isPair)

/-- the stacks have the shape the operation stack will consume -/
def MState.Shaped (s : MState) : Prop :=
  Shape s.opStack (flagsOf s.valStack) s.envStack.length s.softforkStack.length s.allocatorStack

/-- … once one more value has been pushed -/
def MState.Shaped1 (s : MState) : Prop :=
  Shape s.opStack (false :: flagsOf s.valStack) s.envStack.length s.softforkStack.length s.allocatorStack

theorem MState.Shaped1.push {s s' : MState} {v : Val} (hs : s.Shaped1) (h : s.push v = .ok s') : s'.Shaped := by
  rw [push_ok h]
  exact Shape.top _ hs

theorem pushOperands_shape : ∀ (ol : Val) (s : MState) (t : Val) (s' : MState),
    s.Shaped1 → 1 ≤ s.envStack.length → pushOperands ol s = .ok (t, s') →
    s'.Shaped1 ∧ t.isPair = false := by
  intro ol
  induction ol with
  | atom b i =>
    intro s t s' hs _ h
    simp only [pushOperands] at h
    cases M_pure_ok h
    exact ⟨hs, rfl⟩
  | pair f r _ ihr =>
    intro s t s' hs he h
    simp only [pushOperands] at h
    obtain ⟨s1, h1, h⟩ := M_bind_ok h
    have e1 := push_ok h1
    refine ihr s1 t s' ?_ ?_ h
    · rw [e1]
      exact ⟨false, !f.isPair, flagsOf s.valStack, rfl, he, hs⟩
    · rw [e1]; exact he

theorem evalOpAtom_shape {d : Dialect} {s s' : MState} {o ol env : Val} {c : Nat} (ho : o.isPair = false)
    (hs : s.Shaped1) (h : evalOpAtom d s o ol env = .ok (c, s')) : s'.Shaped := by
  unfold evalOpAtom at h
  split at h
  · obtain ⟨s1, h1, h⟩ := M_bind_ok h
    cases M_pure_ok h
    exact hs.push h1
  · simp only at h
    obtain ⟨s1, h1, h⟩ := M_bind_ok h
    obtain ⟨s2, h2, h⟩ := M_bind_ok h
    obtain ⟨⟨t, s3⟩, h3, h⟩ := M_bind_ok h
    have e1 := pushEnv_ok h1
    have e2 := push_ok h2
    have hs2 : s2.Shaped1 ∧ 1 ≤ s2.envStack.length := by
      rw [e2, e1]
      split
      · refine ⟨⟨false, flagsOf s.valStack, ?_, ?_, ?_⟩, ?_⟩
        · simp [flagsOf, ho, MState.pushOp]
        · simp [MState.pushOp]
        · exact ⟨by simp, by simp [MState.pushOp], by simpa [MState.pushOp, MState.Shaped1] using hs⟩
        · simp [MState.pushOp]
      · refine ⟨⟨false, flagsOf s.valStack, ?_, ?_, ?_⟩, ?_⟩
        · simp [flagsOf, ho, MState.pushOp]
        · simp [MState.pushOp]
        · simpa [MState.pushOp, MState.Shaped1] using hs
        · simp [MState.pushOp]
    obtain ⟨hs3, _⟩ := pushOperands_shape _ _ _ _ hs2.1 hs2.2 h3
    simp only at h
    split at h
    · split at h
      · cases h
      · obtain ⟨s4, h4, h⟩ := M_bind_ok h
        cases M_pure_ok h
        exact hs3.push h4
    · cases h


theorem getArgs1_pair {a x v : Val} {name : String} (h : getArgs1 (.pair a x) name = .ok v) : v = a := by
  unfold getArgs1 getArgs matchArgs at h
  cases hal : argList x with
  | nil => simp only [argList, hal] at h; cases h; rfl
  | cons z zs => simp [argList, hal] at h

theorem evalPair_shape {cfg : Cfg} {d : Dialect} {s s' : MState} {p env : Val} {c : Nat}
    (hs : s.Shaped1) (h : evalPair cfg d s p env = .ok (c, s')) : s'.Shaped := by
  cases p with
  | atom b inl =>
    simp only [evalPair] at h
    obtain ⟨r, _, h⟩ := M_bind_ok h
    obtain ⟨s1, h2, h⟩ := M_bind_ok h
    cases M_pure_ok h
    exact hs.push h2
  | pair opNode opList =>
    cases opNode with
    | atom ob oi => simp only [evalPair] at h; exact evalOpAtom_shape rfl hs h
    | pair newOperator x =>
      simp only [evalPair] at h
      obtain ⟨inner, hi, h⟩ := M_bind_ok h
      have hin := getArgs1_pair (liftE_ok hi)
      subst hin
      split at h
      · cases h
      · rename_i hnp
        obtain ⟨s1, h1, h⟩ := M_bind_ok h
        obtain ⟨s2, h2, h⟩ := M_bind_ok h
        obtain ⟨s3, h3, h⟩ := M_bind_ok h
        cases M_pure_ok h
        rw [push_ok h3, push_ok h2, pushEnv_ok h1]
        refine ⟨!opList.isPair, flagsOf s.valStack, ?_, ?_, ?_⟩
        · simp [flagsOf, MState.pushOp] at hnp ⊢; exact hnp
        · simp [MState.pushOp]
        · simpa [MState.pushOp, MState.Shaped1] using hs

theorem consOp_shape {s s' : MState} {ops : List Operation} {c : Nat} (ho : s.opStack = ops)
    (hs : Shape (.Cons :: ops) (flagsOf s.valStack) s.envStack.length s.softforkStack.length s.allocatorStack)
    (h : consOp s = .ok (c, s')) : s'.Shaped := by
  unfold consOp at h
  obtain ⟨⟨v1, s1⟩, h1, h⟩ := M_bind_ok h
  obtain ⟨vs1, hv1, e1⟩ := pop_ok h1
  obtain ⟨⟨v2, s2⟩, h2, h⟩ := M_bind_ok h
  obtain ⟨vs2, hv2, e2⟩ := pop_ok h2
  obtain ⟨⟨p, c'⟩, _, h⟩ := M_bind_ok h
  obtain ⟨s3, h4, h⟩ := M_bind_ok h
  cases M_pure_ok h
  subst e1
  simp only at hv2
  subst e2
  obtain ⟨x, y, vs', hv, hsh⟩ := hs
  rw [hv1, hv2] at hv
  simp only [flagsOf, List.map_cons, List.cons.injEq] at hv
  obtain ⟨_, _, rfl⟩ := hv
  refine MState.Shaped1.push (s := _) ?_ h4
  simpa [MState.Shaped1, flagsOf, ho] using hsh

theorem swapEvalOp_shape {cfg : Cfg} {d : Dialect} {s s' : MState} {ops : List Operation} {c : Nat}
    (ho : s.opStack = ops)
    (hs : Shape (.SwapEval :: ops) (flagsOf s.valStack) s.envStack.length s.softforkStack.length s.allocatorStack)
    (h : swapEvalOp cfg d s = .ok (c, s')) : s'.Shaped := by
  unfold swapEvalOp at h
  obtain ⟨⟨v2, s1⟩, h1, h⟩ := M_bind_ok h
  obtain ⟨vs1, hv1, e1⟩ := pop_ok h1
  obtain ⟨⟨prog, s2⟩, h2, h⟩ := M_bind_ok h
  obtain ⟨vs2, hv2, e2⟩ := pop_ok h2
  subst e1
  simp only at hv2
  subst e2
  simp only at h
  split at h
  · cases h
  · obtain ⟨s3, h3, h⟩ := M_bind_ok h
    refine evalPair_shape ?_ h
    rw [push_ok h3]
    obtain ⟨x, y, vs', hv, hne, hsh⟩ := hs
    rw [hv1, hv2] at hv
    simp only [flagsOf, List.map_cons, List.cons.injEq] at hv
    obtain ⟨_, _, rfl⟩ := hv
    exact ⟨false, !v2.isPair, flagsOf vs2, by simp [flagsOf, MState.pushOp],
      by simpa [MState.pushOp, flagsOf, ho] using hsh⟩

theorem exitGuard_shape {s s' : MState} {ops : List Operation} {cost c : Nat} (ho : s.opStack = ops)
    (hs : Shape (.ExitGuard :: ops) (flagsOf s.valStack) s.envStack.length s.softforkStack.length s.allocatorStack)
    (h : exitGuard s cost = .ok (c, s')) : s'.Shaped := by
  unfold exitGuard at h
  split at h
  · cases h
  · rename_i g rest hsf
    simp only at h
    split at h
    · cases h
    · split at h
      · cases h
      · rename_i v vs hv
        obtain ⟨s1, h1, h⟩ := M_bind_ok h
        cases M_pure_ok h
        refine MState.Shaped1.push (s := _) ?_ h1
        obtain ⟨x, vs', hvv, hng, hsh⟩ := hs
        rw [hv] at hvv
        simp only [flagsOf, List.map_cons, List.cons.injEq] at hvv
        obtain ⟨_, rfl⟩ := hvv
        rw [hsf] at hsh
        simpa [MState.Shaped1, flagsOf, ho] using hsh

theorem applyBody_shape {cfg : Cfg} {d : Dialect} {s s' : MState} {ol o : Val} {cc mc c : Nat}
    (hs : s.Shaped1) (h : applyBody cfg d s ol o cc mc = .ok (c, s')) : s'.Shaped := by
  unfold applyBody at h
  split at h
  · unfold applyApply at h
    obtain ⟨⟨no, env⟩, _, h⟩ := M_bind_ok h
    obtain ⟨⟨c1, s1⟩, h1, h⟩ := M_bind_ok h
    cases M_pure_ok h
    exact evalPair_shape hs h1
  · split at h
    · unfold applySoftfork at h
      obtain ⟨f, _, h⟩ := M_bind_ok h
      obtain ⟨ec, _, h⟩ := M_bind_ok h
      split at h
      · cases h
      · split at h
        · cases h
        · split at h
          · split at h
            · obtain ⟨s1, h1, h⟩ := M_bind_ok h
              cases M_pure_ok h
              exact hs.push h1
            · cases h
          · split at h
            · cases h
            · obtain ⟨⟨c1, s1⟩, h1, h⟩ := M_bind_ok h
              cases M_pure_ok h
              refine evalPair_shape ?_ h1
              exact ⟨false, flagsOf s.valStack, rfl, by simp [enterGuard, MState.pushOp],
                by simpa [enterGuard, MState.pushOp, MState.Shaped1] using hs⟩
    · unfold applyOrdinary at h
      split at h
      · cases h
      · cases h
      · obtain ⟨s1, h1, h⟩ := M_bind_ok h
        cases M_pure_ok h
        refine MState.Shaped1.push (s := _) ?_ h1
        exact hs

theorem applyOp_shape {cfg : Cfg} {d : Dialect} {s s' : MState} {ops : List Operation} {cc mc c : Nat}
    (ho : s.opStack = ops)
    (hs : Shape (.Apply :: ops) (flagsOf s.valStack) s.envStack.length s.softforkStack.length s.allocatorStack)
    (h : applyOp cfg d s cc mc = .ok (c, s')) : s'.Shaped := by
  obtain ⟨x, vs', hv, hne, hsh⟩ := hs
  match hvs : s.valStack, hes : s.envStack with
  | [], _ => rw [hvs] at hv; simp [flagsOf] at hv
  | [_], _ => rw [hvs] at hv; simp [flagsOf] at hv
  | _ :: _ :: _, [] => rw [hes] at hne; simp at hne
  | ol :: o :: vals, e0 :: envs =>
    rw [applyOp_eq cfg d s cc mc hvs hes] at h
    rw [hvs] at hv
    simp only [flagsOf, List.map_cons, List.cons.injEq] at hv
    obtain ⟨_, hoa, rfl⟩ := hv
    refine applyBody_shape ?_ h
    rw [hes] at hsh
    simpa [MState.Shaped1, MState.applyBase, flagsOf, ho] using hsh

theorem stepOp_shape {cfg : Cfg} {d : Dialect} {s s' : MState} {op : Operation} {ops : List Operation}
    {cost em c : Nat} (ho : s.opStack = ops)
    (hs : Shape (op :: ops) (flagsOf s.valStack) s.envStack.length s.softforkStack.length s.allocatorStack)
    (h : stepOp cfg d s op cost em = .ok (c, s')) : s'.Shaped := by
  cases op with
  | Apply => exact applyOp_shape ho hs h
  | ExitGuard => exact exitGuard_shape ho hs h
  | Cons => exact consOp_shape ho hs h
  | SwapEval => exact swapEvalOp_shape ho hs h
  | RestoreAllocator =>
    simp only [stepOp] at h
    split at h
    · cases h
    · split at h
      · cases h
      · cases h
        obtain ⟨_, _, hsh⟩ := hs
        simpa [MState.Shaped, ho] using hsh

/-- the invariant is preserved along the main loop and the final state has an empty operation stack -/
theorem runLoop_shape (cfg : Cfg) (d : Dialect) (mc : Nat) (fuel : Nat) :
    ∀ (s : MState) (cost C : Nat) (sF : MState), s.Shaped →
      runLoop cfg d mc fuel s cost = some (.ok (C, sF)) → sF.Shaped ∧ sF.opStack = [] := by
  induction fuel with
  | zero => intro s cost C sF _ h; simp [runLoop_zero] at h
  | succ n ih =>
    intro s cost C sF hs h
    rw [runLoop_succ] at h
    unfold loopBody at h
    split at h
    · cases h
    · split at h
      · rename_i hop
        cases h
        exact ⟨hs, hop⟩
      · rename_i op ops hop
        split at h
        · cases h
        · rename_i c s1 hst
          refine ih s1 _ C sF (stepOp_shape (s := { s with opStack := ops }) rfl ?_ hst) h
          simpa [MState.Shaped, hop] using hs

/-- a finished state: one value, nothing else -/
theorem Shaped.final {s : MState} (hs : s.Shaped) (ho : s.opStack = []) :
    (∃ v, s.valStack = [v]) ∧ s.envStack = [] ∧ s.softforkStack = [] ∧ s.allocatorStack = 0 := by
  unfold MState.Shaped at hs
  rw [ho] at hs
  obtain ⟨h1, h2, h3, h4⟩ := hs
  refine ⟨?_, List.eq_nil_of_length_eq_zero h2, List.eq_nil_of_length_eq_zero h3, h4⟩
  match hv : s.valStack with
  | [] => rw [hv] at h1; simp [flagsOf] at h1
  | [v] => exact ⟨v, rfl⟩
  | _ :: _ :: _ => rw [hv] at h1; simp [flagsOf] at h1

/-- the state `run_program` starts the loop in -/
theorem initial_shaped {cfg : Cfg} {d : Dialect} {ctr : Ctr} {p env : Val} {c : Nat} {s : MState}
    (h : evalPair cfg d { ctr := ctr } p env = .ok (c, s)) : s.Shaped :=
  evalPair_shape (s := { ctr := ctr }) ⟨rfl, rfl, rfl, rfl⟩ h

end Clvm.Interp
