/-
C30, a syntactic sufficient condition for the common domain: a program built from paths, quoted
constants and forms `(op arg …)` whose operator atom is in the common domain and is neither `a` nor
the softfork keyword (`simple F false p`) stays in the common domain for every environment, budget
and allocator state (`inCommonDomain_of_simple`).  Without `a` every operator the machine applies is
an operator atom of the program text: the invariant `SK` says that the operator slots of the value
stack hold such atoms and that the pending operand programs are simple.
-/
import ClvmProofs.Lemmas.Interp.RuntimeLift

namespace Clvm.Interp
open Clvm Clvm.Alloc

/-- an operator atom of the common domain that is neither `a` (2) nor softfork (36) -/
def goodOp (F : Flags) (o : Val) : Bool :=
  !o.isPair && !chiaOnly F o && smallNumber o != some 2 && smallNumber o != some 36

/-- `simple F false p`: `p` is a path, a quoted constant `(q . x)`, or `(op arg …)` with `goodOp F op`
and simple arguments; `simple F true l`: every element of the operand list `l` is such a program -/
def simple (F : Flags) : Bool → Val → Bool
  | false, .atom _ _ => true
  | false, .pair (.atom ob inl) args =>
    smallNumber (.atom ob inl) == some 1 || (goodOp F (.atom ob inl) && simple F true args)
  | false, .pair (.pair _ _) _ => false
  | true, .pair f r => simple F false f && simple F true r
  | true, .atom _ _ => true

/-- the operation stack run against the value stack below its top: operator slots hold good
operator atoms, pending operand programs are simple -/
def SK (F : Flags) : List Operation → List Val → Prop
  | [], _ => True
  | .Apply :: ops, vals =>
    match vals with
    | o :: rest => goodOp F o = true ∧ SK F ops rest
    | [] => False
  | .Cons :: ops, vals =>
    match vals with
    | _ :: rest => SK F ops rest
    | [] => False
  | .SwapEval :: ops, vals =>
    match vals with
    | p :: rest => simple F false p = true ∧ SK F ops rest
    | [] => False
  | .ExitGuard :: ops, vals => SK F ops vals
  | .RestoreAllocator :: ops, vals => SK F ops vals

/-- … with one more value about to be pushed -/
def MState.SInv1 (F : Flags) (s : MState) : Prop := SK F s.opStack s.valStack

def MState.SInv (F : Flags) (s : MState) : Prop :=
  ∃ top below, s.valStack = top :: below ∧ SK F s.opStack below

section
variable {F : Flags} {cfg : Cfg} {d : Dialect}

theorem MState.SInv1.push {s s' : MState} {v : Val} (hs : s.SInv1 F) (h : s.push v = .ok s') : s'.SInv F := by
  rw [push_ok h]
  exact ⟨v, s.valStack, rfl, hs⟩

theorem pushOperands_simple : ∀ (ol : Val) (s : MState) (t : Val) (s' : MState),
    s.SInv1 F → simple F true ol = true → pushOperands ol s = .ok (t, s') → s'.SInv1 F := by
  intro ol
  induction ol with
  | atom b i =>
    intro s t s' hs _ h
    simp only [pushOperands] at h
    cases M_pure_ok h
    exact hs
  | pair f r _ ihr =>
    intro s t s' hs hsim h
    simp only [simple, Bool.and_eq_true] at hsim
    simp only [pushOperands] at h
    obtain ⟨s1, h1, h⟩ := M_bind_ok h
    refine ihr s1 t s' ?_ hsim.2 h
    rw [push_ok h1]
    exact ⟨hsim.1, hs⟩

theorem evalOpAtom_simple {s s' : MState} {ob : Bytes} {inl : Bool} {ol env : Val} {c : Nat}
    (hq : d.quoteKw = 1) (hs : s.SInv1 F) (hsim : simple F false (.pair (.atom ob inl) ol) = true)
    (h : evalOpAtom d s (.atom ob inl) ol env = .ok (c, s')) : s'.SInv F := by
  unfold evalOpAtom at h
  rw [hq] at h
  split at h
  · obtain ⟨s1, h1, h⟩ := M_bind_ok h
    cases M_pure_ok h
    exact hs.push h1
  · rename_i hnq
    simp only [simple, hnq, Bool.false_or, Bool.and_eq_true] at hsim
    simp only at h
    obtain ⟨s1, h1, h⟩ := M_bind_ok h
    obtain ⟨s2, h2, h⟩ := M_bind_ok h
    obtain ⟨⟨t, s3⟩, h3, h⟩ := M_bind_ok h
    have e1 := pushEnv_ok h1
    have e2 := push_ok h2
    have hs2 : s2.SInv1 F := by
      rw [e2, e1]
      split
      · exact ⟨hsim.1, hs⟩
      · exact ⟨hsim.1, hs⟩
    have hs3 := pushOperands_simple _ _ _ _ hs2 hsim.2 h3
    simp only at h
    split at h
    · split at h
      · cases h
      · obtain ⟨s4, h4, h⟩ := M_bind_ok h
        cases M_pure_ok h
        exact hs3.push h4
    · cases h

theorem evalPair_simple {s s' : MState} {p env : Val} {c : Nat}
    (hq : d.quoteKw = 1) (hs : s.SInv1 F) (hsim : simple F false p = true)
    (h : evalPair cfg d s p env = .ok (c, s')) : s'.SInv F := by
  cases p with
  | atom b inl =>
    simp only [evalPair] at h
    obtain ⟨r, _, h⟩ := M_bind_ok h
    obtain ⟨s1, h2, h⟩ := M_bind_ok h
    cases M_pure_ok h
    exact hs.push h2
  | pair opNode opList =>
    cases opNode with
    | atom ob oi => simp only [evalPair] at h; exact evalOpAtom_simple hq hs hsim h
    | pair x y => simp [simple] at hsim

theorem stepOp_simple {s s' : MState} {op : Operation} {ops : List Operation} {cost em c : Nat}
    (hq : d.quoteKw = 1) (hak : d.applyKw = 2) (hsk : d.softforkKw = 36)
    (ho : s.opStack = ops) (hsf : s.softforkStack = [])
    (hs : ∃ top below, s.valStack = top :: below ∧ SK F (op :: ops) below)
    (h : stepOp cfg d s op cost em = .ok (c, s')) : s'.SInv F := by
  obtain ⟨top, below, hv, hk⟩ := hs
  cases op with
  | Apply =>
    simp only [stepOp] at h
    match below, hk with
    | o :: rest, hk =>
      obtain ⟨hgood, hk⟩ := hk
      match hes : s.envStack with
      | [] => simp [applyOp, MState.pop, hv, hes, bind, Except.bind] at h
      | e0 :: envs =>
        rw [applyOp_eq cfg d s _ _ hv hes] at h
        simp only [goodOp, Bool.and_eq_true, Bool.not_eq_true', bne_iff_ne, ne_eq] at hgood
        obtain ⟨⟨⟨_, _⟩, hna⟩, hns⟩ := hgood
        unfold applyBody at h
        rw [hak, hsk] at h
        have h2 : (smallNumber o == some 2) = false := by simpa using hna
        have h36 : (smallNumber o == some 36) = false := by simpa using hns
        simp only [h2, h36, Bool.false_eq_true, if_false] at h
        unfold applyOrdinary at h
        split at h
        · cases h
        · cases h
        · obtain ⟨s1, hp, h⟩ := M_bind_ok h
          cases M_pure_ok h
          rw [push_ok hp]
          exact ⟨_, rest, rfl, by simpa [MState.applyBase, ho] using hk⟩
  | ExitGuard =>
    simp only [stepOp, exitGuard, hsf] at h
    cases h
  | Cons =>
    simp only [stepOp] at h
    match below, hk with
    | v2 :: rest, hk =>
      unfold consOp at h
      obtain ⟨⟨v1, s1⟩, h1, h⟩ := M_bind_ok h
      obtain ⟨vs1, hv1, e1⟩ := pop_ok h1
      obtain ⟨⟨v2', s2⟩, h2, h⟩ := M_bind_ok h
      obtain ⟨vs2, hv2, e2⟩ := pop_ok h2
      obtain ⟨⟨p, c'⟩, _, h⟩ := M_bind_ok h
      obtain ⟨s3, h4, h⟩ := M_bind_ok h
      cases M_pure_ok h
      subst e1
      simp only at hv2
      subst e2
      rw [hv] at hv1
      simp only [List.cons.injEq] at hv1
      obtain ⟨_, rfl⟩ := hv1
      simp only [List.cons.injEq] at hv2
      obtain ⟨_, rfl⟩ := hv2
      rw [push_ok h4]
      exact ⟨_, rest, rfl, by simpa [SK, ho] using hk⟩
  | SwapEval =>
    simp only [stepOp] at h
    match below, hk with
    | prog :: rest, hk =>
      obtain ⟨hsim, hk⟩ := hk
      unfold swapEvalOp at h
      obtain ⟨⟨v2, s1⟩, h1, h⟩ := M_bind_ok h
      obtain ⟨vs1, hv1, e1⟩ := pop_ok h1
      obtain ⟨⟨prog', s2⟩, h2, h⟩ := M_bind_ok h
      obtain ⟨vs2, hv2, e2⟩ := pop_ok h2
      subst e1
      simp only at hv2
      subst e2
      rw [hv] at hv1
      simp only [List.cons.injEq] at hv1
      obtain ⟨_, rfl⟩ := hv1
      simp only [List.cons.injEq] at hv2
      obtain ⟨rfl, rfl⟩ := hv2
      simp only at h
      split at h
      · cases h
      · obtain ⟨s3, h3, h⟩ := M_bind_ok h
        refine evalPair_simple hq ?_ hsim h
        rw [push_ok h3]
        show SK F (.Cons :: s.opStack) (v2 :: rest)
        simpa [SK, ho] using hk
  | RestoreAllocator =>
    simp only [stepOp] at h
    split at h
    · cases h
    · split at h
      · cases h
      · cases h
        exact ⟨top, below, hv, by simpa [SK, ho] using hk⟩

/-- a simple program never leaves the common domain -/
theorem commonRun_of_simple (hq : d.quoteKw = 1) (hak : d.applyKw = 2) (hsk : d.softforkKw = 36) (mc : Nat) :
    ∀ (fuel : Nat) (s : MState) (cost : Nat), s.SInv F → s.softforkStack = [] →
      commonRun cfg d (fun o => !chiaOnly F o) mc fuel s cost = true := by
  intro fuel
  induction fuel with
  | zero => intro s cost _ _; rfl
  | succ n ih =>
    intro s cost hs hsf
    unfold commonRun
    by_cases hc : cost > effMax mc s
    · simp only [hc, if_true]
    · simp only [hc, if_false]
      cases hop : s.opStack with
      | nil => rfl
      | cons op ops =>
        obtain ⟨top, below, hv, hk⟩ := hs
        rw [hop] at hk
        have hdom : stepInDomain d (fun o => !chiaOnly F o) s op cost (effMax mc s) = true := by
          cases op with
          | Apply =>
            match below, hk with
            | o :: rest, hk =>
              obtain ⟨hgood, _⟩ := hk
              simp only [goodOp, Bool.and_eq_true, Bool.not_eq_true', bne_iff_ne, ne_eq] at hgood
              obtain ⟨⟨⟨_, hco⟩, _⟩, hns⟩ := hgood
              have h36 : (smallNumber o == some 36) = false := by simpa using hns
              simp only [stepInDomain, hv, hco, hsk, h36, Bool.not_false, Bool.false_and, Bool.and_self]
          | ExitGuard => simp only [stepInDomain]
          | Cons => simp only [stepInDomain]
          | SwapEval => simp only [stepInDomain]
          | RestoreAllocator => simp only [stepInDomain]
        simp only [hdom, Bool.true_and]
        cases hst : stepOp cfg d { s with opStack := ops } op cost (effMax mc s) with
        | error e => rfl
        | ok r =>
          obtain ⟨c, s1⟩ := r
          simp only
          exact ih s1 (cost + c)
            (stepOp_simple (s := { s with opStack := ops }) hq hak hsk rfl hsf ⟨top, below, hv, hk⟩ hst)
            (stepOp_noGuard (s := { s with opStack := ops }) hsf hdom hst)

/-- **syntactic sufficient condition**: a simple program is in the common domain for every
environment, budget, fuel and allocator state -/
theorem inCommonDomain_of_simple (hq : d.quoteKw = 1) (hak : d.applyKw = 2) (hsk : d.softforkKw = 36)
    (fuel : Nat) (c0 : Ctr) (p env : Val) (mc : Nat) (hsim : simple F false p = true) :
    inCommonDomain cfg d (fun o => !chiaOnly F o) fuel c0 p env mc = true := by
  unfold inCommonDomain
  cases c0.addGhostAtom 1 with
  | error e => rfl
  | ok c =>
    simp only
    cases hev : evalPair cfg d { ctr := c } p env with
    | error e => rfl
    | ok r =>
      obtain ⟨cost, s⟩ := r
      simp only
      exact commonRun_of_simple hq hak hsk _ fuel s cost
        (evalPair_simple (s := { ctr := c }) hq (by simp [MState.SInv1, SK]) hsim hev)
        (evalPair_setSf [] hev).2

end

end Clvm.Interp
