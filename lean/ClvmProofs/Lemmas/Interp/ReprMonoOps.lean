/-
C03, heap history, monotone direction (operator level): an operator call that succeeds from the
counters `c` succeeds with the same cost and value from every `c'` with at least as much headroom
(`Room`: not more atoms, not more pairs, not less heap slack), and the headroom relation holds again
for the resulting counters — the allocation deltas do not depend on the starting counters.
-/
import ClvmProofs.Lemmas.Interp.ReprHistoryOps

namespace Clvm.Interp
open Clvm Clvm.Alloc

/-- `c'` has at least as much headroom as `c` in the three counters; the heap limits are `L`, `L'` -/
def Room (L L' : Nat) (c c' : Ctr) : Prop :=
  c.heapLimit = L ∧ c'.heapLimit = L' ∧ c'.heap + L ≤ L' + c.heap ∧ c'.atoms ≤ c.atoms ∧
    c.atoms ≤ Gen.maxNumAtoms ∧ c'.pairs ≤ c.pairs

def MonoRes (L L' : Nat) (r r' : OpRes) : Prop :=
  match r, r' with
  | .ok (k, v, c1), .ok (k', v', c1') => k = k' ∧ v = v' ∧ Room L L' c1 c1'
  | .ok _, .error _ => False
  | .error _, _ => True

def OpCtrMono (f : OpFn) : Prop :=
  ∀ (L L' flags m : Nat) (a : Val) (c c' : Ctr), Room L L' c c' → MonoRes L L' (f flags m a c) (f flags m a c')

theorem newAtom_ok_iff {c c1 : Ctr} {n : Nat} :
    c.newAtom n = .ok c1 ↔ c.heap + n ≤ c.heapLimit ∧ c.atoms ≠ Gen.maxNumAtoms ∧
      c1 = { c with atoms := c.atoms + 1, heap := c.heap + n } := by
  unfold Ctr.newAtom Ctr.checkAtomLimit
  generalize Gen.maxNumAtoms = M
  by_cases h1 : c.heap + n > c.heapLimit
  · simp only [h1, if_true]
    constructor
    · intro h; cases h
    · intro h; omega
  · simp only [h1, if_false]
    by_cases h2 : c.atoms = M
    · simp only [h2, beq_self_eq_true, if_true]
      constructor
      · intro h; cases h
      · intro h; exact absurd rfl h.2.1
    · have h2' : (c.atoms == M) = false := by simpa using h2
      simp only [h2', Bool.false_eq_true, if_false]
      constructor
      · intro h; cases h; exact ⟨by omega, h2, rfl⟩
      · intro h; rw [h.2.2]

theorem newAtom_err_iff {c : Ctr} {n : Nat} {e : Err} :
    c.newAtom n = .error e ↔ (c.heap + n > c.heapLimit ∧ e = .OutOfMemory) ∨
      (c.heap + n ≤ c.heapLimit ∧ c.atoms = Gen.maxNumAtoms ∧ e = .TooManyAtoms) := by
  unfold Ctr.newAtom Ctr.checkAtomLimit
  generalize Gen.maxNumAtoms = M
  by_cases h1 : c.heap + n > c.heapLimit
  · simp only [h1, if_true, Except.error.injEq]
    constructor
    · rintro rfl; exact .inl ⟨trivial, rfl⟩
    · rintro (⟨_, rfl⟩ | ⟨h, _⟩)
      · rfl
      · omega
  · simp only [h1, if_false]
    by_cases h2 : c.atoms = M
    · simp only [h2, beq_self_eq_true, if_true, Except.error.injEq]
      constructor
      · rintro rfl; exact .inr ⟨by omega, trivial, rfl⟩
      · rintro (⟨h, _⟩ | ⟨_, _, rfl⟩)
        · exact absurd h (by simp)
        · rfl
    · have h2' : (c.atoms == M) = false := by simpa using h2
      simp only [h2', Bool.false_eq_true, if_false]
      constructor
      · intro h; cases h
      · rintro (⟨h, _⟩ | ⟨_, h, _⟩)
        · exact absurd h (by simp)
        · exact absurd h h2

theorem newPair_ok_iff {c c1 : Ctr} : c.newPair = .ok c1 ↔ c.pairs < Gen.maxNumPairs ∧ c1 = { c with pairs := c.pairs + 1 } := by
  unfold Ctr.newPair
  generalize Gen.maxNumPairs = M
  by_cases h : c.pairs ≥ M
  · simp only [h, if_true]
    constructor
    · intro h; cases h
    · intro h'; omega
  · simp only [h, if_false]
    constructor
    · intro h'; cases h'; exact ⟨by omega, rfl⟩
    · intro h'; rw [h'.2]

theorem newPair_err_iff {c : Ctr} {e : Err} : c.newPair = .error e ↔ c.pairs ≥ Gen.maxNumPairs ∧ e = .TooManyPairs := by
  unfold Ctr.newPair
  generalize Gen.maxNumPairs = M
  by_cases h : c.pairs ≥ M
  · simp only [h, if_true, Except.error.injEq, true_and]; exact eq_comm
  · simp only [h, if_false, false_and]
    constructor
    · intro h'; cases h'
    · exact False.elim

theorem newAtomAndCost_mono {L L' : Nat} {c c' : Ctr} (hr : Room L L' c c') (cost : Nat) (b : Bytes) :
    MonoRes L L' (newAtomAndCost c cost b) (newAtomAndCost c' cost b) := by
  cases h : newAtomAndCost c cost b with
  | error e => trivial
  | ok r =>
    obtain ⟨k, v, c1⟩ := r
    cases h' : newAtomAndCost c' cost b with
    | error e' =>
      simp only [MonoRes]
      simp_all only [newAtomAndCost_ok_iff, newAtomAndCost_err_iff, newAtom_ok_iff, newAtom_err_iff, Room]
      omega
    | ok r' =>
      obtain ⟨k', v', c1'⟩ := r'
      simp only [MonoRes]
      simp_all only [newAtomAndCost_ok_iff, newAtom_ok_iff, Room, and_true, true_and, and_self]
      omega

macro "mono_op" : tactic => `(tactic| (
  repeat' (first | split | simp only [])
  all_goals (try exact newAtomAndCost_mono ‹_› _ _)
  all_goals (try simp only [MonoRes])
  all_goals (try trivial)
  all_goals simp_all only [allocAtom_ok_iff, allocAtom_err_iff, allocNumber_ok_iff, allocNumber_err_iff,
    allocPair_ok_iff, allocPair_err_iff, newAtomAndCost_ok_iff, newAtomAndCost_err_iff,
    newAtom_ok_iff, newAtom_err_iff, newPair_ok_iff, newPair_err_iff, Room,
    Except.ok.injEq, Except.error.injEq, Prod.mk.injEq, reduceCtorEq, and_true, true_and, and_self]
  all_goals (try omega)))

theorem opIf_mono : OpCtrMono opIf := by
  intro L L' flags m a c c' hr; unfold opIf; mono_op

theorem opCons_mono : OpCtrMono opCons := by
  intro L L' flags m a c c' hr; unfold opCons; mono_op

theorem opFirst_mono : OpCtrMono opFirst := by
  intro L L' flags m a c c' hr; unfold opFirst; mono_op

theorem opRest_mono : OpCtrMono opRest := by
  intro L L' flags m a c c' hr; unfold opRest; mono_op

theorem opListp_mono : OpCtrMono opListp := by
  intro L L' flags m a c c' hr; unfold opListp; mono_op

theorem opRaise_mono : OpCtrMono opRaise := by
  intro L L' flags m a c c' hr; unfold opRaise; mono_op

theorem opEq_mono : OpCtrMono opEq := by
  intro L L' flags m a c c' hr; unfold opEq; mono_op

theorem opGrBytes_mono : OpCtrMono opGrBytes := by
  intro L L' flags m a c c' hr; unfold opGrBytes; mono_op

theorem opSha256_mono (cfg : Cfg) : OpCtrMono (opSha256 cfg) := by
  intro L L' flags m a c c' hr; unfold opSha256; mono_op

theorem opStrlen_mono : OpCtrMono opStrlen := by
  intro L L' flags m a c c' hr; unfold opStrlen; mono_op

theorem opAdd_mono (cfg : Cfg) : OpCtrMono (opAdd cfg) := by
  intro L L' flags m a c c' hr; unfold opAdd; mono_op

theorem opSubtract_mono (cfg : Cfg) : OpCtrMono (opSubtract cfg) := by
  intro L L' flags m a c c' hr; unfold opSubtract; mono_op

theorem opMultiply_mono (cfg : Cfg) : OpCtrMono (opMultiply cfg) := by
  intro L L' flags m a c c' hr; unfold opMultiply; mono_op

theorem opDivWith_mono (i : Val → String → Except Err (Int × Nat)) : OpCtrMono (opDivWith i) := by
  intro L L' flags m a c c' hr; unfold opDivWith; mono_op

theorem opDivmodWith_mono (i : Val → String → Except Err (Int × Nat)) : OpCtrMono (opDivmodWith i) := by
  intro L L' flags m a c c' hr; unfold opDivmodWith; mono_op

theorem opModWith_mono (i : Val → String → Except Err (Int × Nat)) : OpCtrMono (opModWith i) := by
  intro L L' flags m a c c' hr; unfold opModWith; mono_op

theorem opModpowWith_mono (i : Val → String → Except Err (Int × Nat)) : OpCtrMono (opModpowWith i) := by
  intro L L' flags m a c c' hr; unfold opModpowWith; mono_op

theorem opGr_mono (cfg : Cfg) : OpCtrMono (opGr cfg) := by
  intro L L' flags m a c c' hr; unfold opGr; mono_op

theorem opAsh_mono : OpCtrMono opAsh := by
  intro L L' flags m a c c' hr; unfold opAsh; mono_op

theorem opLsh_mono : OpCtrMono opLsh := by
  intro L L' flags m a c c' hr; unfold opLsh; mono_op

theorem opLognot_mono : OpCtrMono opLognot := by
  intro L L' flags m a c c' hr; unfold opLognot; mono_op

theorem opNot_mono : OpCtrMono opNot := by
  intro L L' flags m a c c' hr; unfold opNot; mono_op

theorem opAny_mono : OpCtrMono opAny := by
  intro L L' flags m a c c' hr; unfold opAny; mono_op

theorem opAll_mono : OpCtrMono opAll := by
  intro L L' flags m a c c' hr; unfold opAll; mono_op

theorem binopReduction_mono (n : String) (i : Int) (f : Int → Int → Int) : OpCtrMono (binopReduction n i f) := by
  intro L L' flags m a c c' hr; unfold binopReduction; mono_op

theorem opDiv_mono : OpCtrMono opDiv := by
  intro L L' flags m a c c' hr; unfold opDiv; split <;> exact opDivWith_mono _ _ _ _ _ _ _ _ hr
theorem opDivmod_mono : OpCtrMono opDivmod := by
  intro L L' flags m a c c' hr; unfold opDivmod; split <;> exact opDivmodWith_mono _ _ _ _ _ _ _ _ hr
theorem opMod_mono : OpCtrMono opMod := by
  intro L L' flags m a c c' hr; unfold opMod; split <;> exact opModWith_mono _ _ _ _ _ _ _ _ hr
theorem opModpow_mono : OpCtrMono opModpow := by
  intro L L' flags m a c c' hr; unfold opModpow; split <;> exact opModpowWith_mono _ _ _ _ _ _ _ _ hr

theorem opUnknown_mono (op : Bytes) : OpCtrMono (opUnknown op) := by
  intro L L' flags m a c c' hr
  simp only [opUnknown_eq_parts]
  unfold unknownFinish
  mono_op

theorem liftCrypto_mono (f : Crypto.OpFn) : OpCtrMono (liftCrypto f) := by
  intro L L' flags m a c c' hr; unfold liftCrypto; mono_op

theorem opSha256Tree_mono : OpCtrMono opSha256Tree := by
  intro L L' flags m a c c' hr; unfold opSha256Tree; mono_op

/-- `new_substr` / `new_concat` from a counter with more headroom -/
def MonoAlloc (L L' : Nat) (r r' : Except Err (Val × Ctr)) : Prop :=
  match r, r' with
  | .ok (v, c1), .ok (v', c1') => v = v' ∧ Room L L' c1 c1'
  | .ok _, .error _ => False
  | .error _, _ => True

theorem checkAtomLimit_ok_iff {c : Ctr} {u : Unit} : c.checkAtomLimit = .ok u ↔ c.atoms ≠ Gen.maxNumAtoms := by
  unfold Ctr.checkAtomLimit
  generalize Gen.maxNumAtoms = M
  by_cases h : c.atoms = M
  · simp only [h, beq_self_eq_true, if_true]
    constructor
    · intro h'; cases h'
    · intro h'; exact absurd rfl h'
  · have h' : (c.atoms == M) = false := by simpa using h
    simp only [h', Bool.false_eq_true, if_false]
    exact ⟨fun _ => h, fun _ => trivial⟩

theorem checkAtomLimit_mono {L L' : Nat} {c c' : Ctr} (hr : Room L L' c c') {u : Unit}
    (h : c.checkAtomLimit = .ok u) : c'.checkAtomLimit = .ok () := by
  have := checkAtomLimit_ok_iff.1 h
  apply checkAtomLimit_ok_iff.2
  unfold Room at hr
  omega

theorem newSubstr_mono {L L' : Nat} {c c' : Ctr} (hr : Room L L' c c') (node : Val) (s e : Nat) :
    MonoAlloc L L' (newSubstr c node s e) (newSubstr c' node s e) := by
  unfold newSubstr
  cases hc : c.checkAtomLimit with
  | error e1 => trivial
  | ok u =>
    rw [checkAtomLimit_mono hr hc]
    have ha := checkAtomLimit_ok_iff.1 hc
    simp only []
    repeat' (first | split | simp only [])
    all_goals (try simp only [MonoAlloc])
    all_goals (try trivial)
    all_goals simp_all only [Room, and_true, true_and]
    all_goals (try omega)

theorem newConcat_mono {L L' : Nat} {c c' : Ctr} (hr : Room L L' c c') (n : Nat) (nodes : List Val) :
    MonoAlloc L L' (newConcat c n nodes) (newConcat c' n nodes) := by
  unfold newConcat
  cases hc : c.checkAtomLimit with
  | error e1 => trivial
  | ok u =>
    rw [checkAtomLimit_mono hr hc]
    have ha := checkAtomLimit_ok_iff.1 hc
    simp only []
    by_cases h1 : c.heap + n > c.heapLimit
    · simp only [h1, if_true]; trivial
    have h2 : ¬ c'.heap + n > c'.heapLimit := by unfold Room at hr; omega
    simp only [h1, h2, if_false]
    repeat' (first | split | simp only [])
    all_goals (try simp only [MonoAlloc])
    all_goals (try trivial)
    all_goals simp_all only [Room, and_true, true_and]
    all_goals (try omega)

theorem opSubstr_mono : OpCtrMono opSubstr := by
  intro L L' flags m a c c' hr
  rw [opSubstr_eq, opSubstr_eq]
  cases substrParse a with
  | error e => trivial
  | ok p =>
    obtain ⟨a0, s, e⟩ := p
    simp only []
    have := newSubstr_mono hr a0 s e
    revert this
    cases newSubstr c a0 s e <;> cases newSubstr c' a0 s e <;> simp only [MonoAlloc, MonoRes] <;>
      intro h <;> first | exact h | exact ⟨rfl, h⟩ | exact ⟨trivial, h⟩ | trivial

theorem opConcat_mono : OpCtrMono opConcat := by
  intro L L' flags m a c c' hr
  unfold opConcat
  cases concatLoop m (argList a) Gen.CONCAT_BASE_COST 0 [] with
  | error e => trivial
  | ok p =>
    obtain ⟨cost, sz, terms⟩ := p
    simp only []
    have := newConcat_mono hr sz terms
    revert this
    cases newConcat c sz terms <;> cases newConcat c' sz terms <;> simp only [MonoAlloc, MonoRes] <;>
      intro h <;> first | exact h | exact ⟨rfl, h⟩ | exact ⟨trivial, h⟩ | trivial

/-! ### aggregates -/

theorem coreOps_mono (cfg : Cfg) (name : String) (f : OpFn) (h : coreOpByName cfg name = some f) : OpCtrMono f := by
  unfold coreOpByName at h
  split at h <;> first
    | (cases h; first
        | exact opIf_mono | exact opCons_mono | exact opFirst_mono | exact opRest_mono | exact opListp_mono
        | exact opRaise_mono | exact opEq_mono | exact opGrBytes_mono | exact opSha256_mono cfg | exact opSubstr_mono
        | exact opStrlen_mono | exact opConcat_mono | exact opAdd_mono cfg | exact opSubtract_mono cfg
        | exact opMultiply_mono cfg | exact opDiv_mono | exact opDivmod_mono | exact opGr_mono cfg
        | exact opAsh_mono | exact opLsh_mono | exact binopReduction_mono _ _ _
        | exact opLognot_mono | exact opNot_mono | exact opAny_mono | exact opAll_mono
        | exact opModpow_mono | exact opMod_mono)
    | cases h

theorem cryptoExtra_mono (name : String) (f : OpFn) (h : cryptoExtra name = some f) : OpCtrMono f := by
  unfold cryptoExtra at h
  split at h
  · cases h
  · split at h
    · cases h; exact opSha256Tree_mono
    · cases hc : Crypto.opByName name with
      | none => rw [hc] at h; cases h
      | some g => rw [hc] at h; cases h; exact liftCrypto_mono g

end Clvm.Interp
