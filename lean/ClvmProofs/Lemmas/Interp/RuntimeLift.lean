/-
C30, machine level: a `RuntimeDialect` run equals the `ChiaDialect` run as long as the `ChiaDialect`
run stays in the common domain.

Generic part.  `CommonAgree R C dom`: the two dialects have the same keywords, the same
`gc_candidate`, the same lenient/strict mode and integer reading; every softfork argument list `C`
rejects is rejected by `R` with the same error; and outside any guard every operator *atom* selected
by `dom` is executed identically.  `commonRun cfg C dom mc fuel s cost` replays the `C` run and
checks, at every `Apply` step, that the operator atom on the value stack is in `dom` and that
`apply_op` does not reach the guard entry (`entersGuard`).  Under that check the two loops compute the
same thing from every state of the right shape with an empty softfork stack (`runLoop_common`), hence
the two `run_program` calls are equal (`runProgram_common`).  No hypothesis about the operators is
needed: the two machines go through identical states.

Instance.  `runtimeDialect cfg extra standardOpMap 1 2 F` / `chiaDialect cfg extra F` with
`dom o = !chiaOnly F o` (`runtime_chia_agree`), for flag sets without `ENABLE_GC` and `DISABLE_OP`.
`ChiaDialect::new` removes `LIMITS` under `NEW_COST_MODEL` and `RuntimeDialect::new` does not: the
operators are called with different flag words, and are equal because no operator reads `LIMITS`
under the new cost model (`coreOps_normFlags`; for the operators outside the core table this is the
hypothesis `ExtraNorm`, discharged for `cryptoExtra` in `RuntimeLiftCrypto.lean`).
-/
import ClvmModel.Proto.Run
import ClvmProofs.Lemmas.Interp.LiftShape
import ClvmProofs.Lemmas.Interp.LiftFrame
import ClvmProofs.Lemmas.Interp.LiftRestrict

namespace Clvm.Interp
open Clvm Clvm.Alloc

/-! ### the domain check -/

/-- `apply_op` of dialect `C` reaches the guard entry (`softfork_stack.push`) for the operand list
`ol` and the remaining budget `maxCost`, from a state with an empty softfork stack -/
def entersGuard (C : Dialect) (ol : Val) (maxCost : Nat) : Bool :=
  match first ol with
  | .error _ => false
  | .ok f =>
    match uintAtom 8 f "softfork" C.flags with
    | .error _ => false
    | .ok ec =>
      if ec > maxCost then false
      else if ec == 0 then false
      else
        match parseSoftforkArguments C ol with
        | .ok _ => true
        | .error _ => false

/-- the check on one step of the `C` machine (`s`: the state, `op`: the operation popped): at an
`Apply` step the operator atom is in `dom` and the step does not enter a softfork guard -/
def stepInDomain (C : Dialect) (dom : Val → Bool) (s : MState) (op : Operation) (cost em : Nat) : Bool :=
  match op, s.valStack with
  | .Apply, ol :: o :: _ => dom o && !(smallNumber o == some C.softforkKw && entersGuard C ol (em - cost))
  | _, _ => true

/-- replay of the main loop of `C` with the domain check at every step (`true` also when the fuel
runs out: both runs are then undetermined) -/
def commonRun (cfg : Cfg) (C : Dialect) (dom : Val → Bool) (mc : Nat) : Nat → MState → Nat → Bool
  | 0, _, _ => true
  | fuel + 1, s, cost =>
    if cost > effMax mc s then true
    else
      match s.opStack with
      | [] => true
      | op :: ops =>
        stepInDomain C dom s op cost (effMax mc s) &&
        match stepOp cfg C { s with opStack := ops } op cost (effMax mc s) with
        | .error _ => true
        | .ok (c, s') => commonRun cfg C dom mc fuel s' (cost + c)

/-- the domain check for a whole `run_program` call under `C` -/
def inCommonDomain (cfg : Cfg) (C : Dialect) (dom : Val → Bool) (fuel : Nat) (c0 : Ctr) (p env : Val)
    (maxCost0 : Nat) : Bool :=
  match c0.addGhostAtom 1 with
  | .error _ => true
  | .ok c =>
    match evalPair cfg C { ctr := c } p env with
    | .error _ => true
    | .ok (cost, s) => commonRun cfg C dom (effBudget maxCost0) fuel s cost

/-! ### generic lifting -/

/-- what the machine reads from the two dialects, outside softfork guards and on `dom` -/
structure CommonAgree (R C : Dialect) (dom : Val → Bool) : Prop where
  quoteKw : R.quoteKw = C.quoteKw
  applyKw : R.applyKw = C.applyKw
  softforkKw : R.softforkKw = C.softforkKw
  gcCandidate : R.gcCandidate = C.gcCandidate
  allowUnknownOps : R.allowUnknownOps = C.allowUnknownOps
  canonicalInts : hasFlag R.flags Gen.FLAG_CANONICAL_INTS = hasFlag C.flags Gen.FLAG_CANONICAL_INTS
  parseErr : ∀ (ol : Val) (err : Err), parseSoftforkArguments C ol = .error err →
    parseSoftforkArguments R ol = .error err
  op : ∀ (o args : Val) (m : Nat) (c : Ctr), o.isPair = false → dom o = true →
    R.op o args m .Default c = C.op o args m .Default c

section generic
variable {cfg : Cfg} {R C : Dialect} {dom : Val → Bool}

theorem curExt_nil {s : MState} (h : s.softforkStack = []) : curExt s = .Default := by
  unfold curExt; rw [h]

theorem applyBody_common (ha : CommonAgree R C dom) {s : MState} {ol o : Val} {cc mc : Nat}
    (hsf : s.softforkStack = []) (ho : o.isPair = false) (hdom : dom o = true)
    (hg : (smallNumber o == some C.softforkKw && entersGuard C ol mc) = false) :
    applyBody cfg R s ol o cc mc = applyBody cfg C s ol o cc mc := by
  unfold applyBody
  rw [ha.applyKw, ha.softforkKw]
  split
  · unfold applyApply
    simp only [evalPair_kw ha.quoteKw ha.gcCandidate]
  · split
    · rename_i hk
      rw [hk, Bool.true_and] at hg
      unfold entersGuard at hg
      unfold applySoftfork
      simp only [uintAtom_flags 8 _ "softfork" R.flags C.flags ha.canonicalInts]
      cases hf : first ol with
      | error e => rfl
      | ok f =>
        rw [hf] at hg
        simp only at hg
        simp only [liftE, bind, Except.bind]
        cases hu : uintAtom 8 f "softfork" C.flags with
        | error e => rfl
        | ok ec =>
          rw [hu] at hg
          simp only at hg ⊢
          by_cases h1 : ec > mc
          · simp only [h1, if_true]
          · simp only [h1, if_false] at hg ⊢
            by_cases h2 : (ec == 0) = true
            · simp only [h2, if_true]
            · simp only [h2] at hg ⊢
              cases hp : parseSoftforkArguments C ol with
              | ok q => rw [hp] at hg; cases hg
              | error err =>
                rw [ha.parseErr ol err hp, ha.allowUnknownOps]
    · unfold applyOrdinary
      rw [curExt_nil hsf, ha.op o ol mc s.ctr ho hdom]

/-- the two machines take the same step from a shaped state without guards, inside the domain -/
theorem stepOp_common (ha : CommonAgree R C dom) {s : MState} {op : Operation} {ops : List Operation}
    {cost em : Nat}
    (hs : Shape (op :: ops) (flagsOf s.valStack) s.envStack.length s.softforkStack.length s.allocatorStack)
    (hsf : s.softforkStack = []) (hd : stepInDomain C dom s op cost em = true) :
    stepOp cfg R s op cost em = stepOp cfg C s op cost em := by
  cases op with
  | Apply =>
    obtain ⟨x, vs', hv, hne, _⟩ := hs
    simp only [stepOp]
    match hvs : s.valStack, hes : s.envStack with
    | [], _ => rw [hvs] at hv; simp [flagsOf] at hv
    | [_], _ => rw [hvs] at hv; simp [flagsOf] at hv
    | _ :: _ :: _, [] => rw [hes] at hne; simp at hne
    | ol :: o :: vals, e0 :: envs =>
      rw [applyOp_eq cfg R s _ _ hvs hes, applyOp_eq cfg C s _ _ hvs hes]
      rw [hvs] at hv
      simp only [flagsOf, List.map_cons, List.cons.injEq] at hv
      obtain ⟨_, hoa, _⟩ := hv
      have hoa' : o.isPair = false := by simpa using hoa
      simp only [stepInDomain, hvs, Bool.and_eq_true, Bool.not_eq_true'] at hd
      exact applyBody_common ha (s := s.applyBase vals envs) hsf hoa' hd.1 hd.2
  | ExitGuard => rfl
  | Cons => rfl
  | SwapEval => simp only [stepOp]; exact swapEvalOp_kw ha.quoteKw ha.gcCandidate s
  | RestoreAllocator => rfl

theorem applyBody_noGuard {d : Dialect} {s s' : MState} {ol o : Val} {cc mc c : Nat}
    (hsf : s.softforkStack = [])
    (hg : (smallNumber o == some d.softforkKw && entersGuard d ol mc) = false)
    (h : applyBody cfg d s ol o cc mc = .ok (c, s')) : s'.softforkStack = [] := by
  unfold applyBody at h
  split at h
  · unfold applyApply at h
    obtain ⟨⟨no, env⟩, _, h⟩ := M_bind_ok h
    obtain ⟨⟨c1, s1⟩, h1, h⟩ := M_bind_ok h
    cases M_pure_ok h
    rw [(evalPair_setSf [] h1).2, hsf]
  · split at h
    · rename_i hk
      rw [hk, Bool.true_and] at hg
      unfold entersGuard at hg
      unfold applySoftfork at h
      obtain ⟨f, hf, h⟩ := M_bind_ok h
      obtain ⟨ec, hec, h⟩ := M_bind_ok h
      rw [liftE_ok hf] at hg
      simp only at hg
      rw [liftE_ok hec] at hg
      simp only at hg
      split at h
      · cases h
      · rename_i h1
        rw [if_neg h1] at hg
        split at h
        · cases h
        · rename_i h2
          rw [if_neg h2] at hg
          split at h
          · split at h
            · obtain ⟨s1, hp, h⟩ := M_bind_ok h
              cases M_pure_ok h
              rw [(push_setSf [] hp).2, hsf]
            · cases h
          · rename_i ext prg env hparse
            rw [hparse] at hg; cases hg
    · unfold applyOrdinary at h
      split at h
      · cases h
      · cases h
      · obtain ⟨s1, hp, h⟩ := M_bind_ok h
        cases M_pure_ok h
        rw [(push_setSf [] hp).2]
        exact hsf

/-- a successful step inside the domain leaves the softfork stack empty -/
theorem stepOp_noGuard {d : Dialect} {s s' : MState} {op : Operation} {cost em c : Nat}
    (hsf : s.softforkStack = []) (hd : stepInDomain d dom s op cost em = true)
    (h : stepOp cfg d s op cost em = .ok (c, s')) : s'.softforkStack = [] := by
  cases op with
  | Apply =>
    simp only [stepOp] at h
    match hvs : s.valStack, hes : s.envStack with
    | [], _ => simp [applyOp, MState.pop, hvs, bind, Except.bind] at h
    | [_], _ => simp [applyOp, MState.pop, hvs, bind, Except.bind] at h
    | _ :: _ :: _, [] => simp [applyOp, MState.pop, hvs, hes, bind, Except.bind] at h
    | ol :: o :: vals, e0 :: envs =>
      rw [applyOp_eq cfg d s _ _ hvs hes] at h
      simp only [stepInDomain, hvs, Bool.and_eq_true, Bool.not_eq_true'] at hd
      exact applyBody_noGuard (s := s.applyBase vals envs) hsf hd.2 h
  | ExitGuard =>
    simp only [stepOp, exitGuard, hsf] at h
    cases h
  | Cons =>
    simp only [stepOp] at h
    rw [(consOp_setSf [] h).2, hsf]
  | SwapEval =>
    simp only [stepOp] at h
    rw [(swapEvalOp_setSf [] h).2, hsf]
  | RestoreAllocator =>
    simp only [stepOp] at h
    split at h
    · cases h
    · split at h
      · cases h
      · cases h; exact hsf

/-- **lifting**: inside the common domain the two loops give the same answer -/
theorem runLoop_common (ha : CommonAgree R C dom) (mc : Nat) :
    ∀ (fuel : Nat) (s : MState) (cost : Nat), s.Shaped → s.softforkStack = [] →
      commonRun cfg C dom mc fuel s cost = true →
      runLoop cfg R mc fuel s cost = runLoop cfg C mc fuel s cost := by
  intro fuel
  induction fuel with
  | zero => intro s cost _ _ _; rfl
  | succ n ih =>
    intro s cost hs hsf hd
    rw [runLoop_succ, runLoop_succ]
    unfold loopBody
    unfold commonRun at hd
    by_cases hc : cost > effMax mc s
    · simp only [hc, if_true]
    · simp only [hc, if_false] at hd ⊢
      cases hop : s.opStack with
      | nil => rfl
      | cons op ops =>
        rw [hop] at hd
        simp only [Bool.and_eq_true] at hd ⊢
        obtain ⟨hd1, hd2⟩ := hd
        have hshape : Shape (op :: ops) (flagsOf s.valStack) s.envStack.length s.softforkStack.length
            s.allocatorStack := by
          simpa [MState.Shaped, hop] using hs
        have hstep : stepOp cfg R { s with opStack := ops } op cost (effMax mc s) =
            stepOp cfg C { s with opStack := ops } op cost (effMax mc s) :=
          stepOp_common ha (s := { s with opStack := ops }) hshape hsf hd1
        rw [hstep]
        cases hst : stepOp cfg C { s with opStack := ops } op cost (effMax mc s) with
        | error e => rfl
        | ok r =>
          obtain ⟨c, s1⟩ := r
          rw [hst] at hd2
          simp only at hd2 ⊢
          exact ih s1 (cost + c) (stepOp_shape (s := { s with opStack := ops }) rfl hshape hst)
            (stepOp_noGuard (s := { s with opStack := ops }) hsf hd1 hst) hd2

/-- … and the two `run_program` calls are equal: same result, cost, counters, error -/
theorem runProgram_common (ha : CommonAgree R C dom) (fuel : Nat) (c0 : Ctr) (p env : Val) (mc : Nat)
    (hd : inCommonDomain cfg C dom fuel c0 p env mc = true) :
    runProgram cfg R fuel c0 p env mc = runProgram cfg C fuel c0 p env mc := by
  have hM : (if (mc == 0) = true then U64_MAX else mc) = effBudget mc := by
    unfold effBudget; by_cases h : mc = 0 <;> simp [h]
  unfold runProgram
  unfold inCommonDomain at hd
  simp only [hM]
  cases hg : c0.addGhostAtom 1 with
  | error e => rfl
  | ok c =>
    rw [hg] at hd
    simp only at hd ⊢
    rw [evalPair_kw ha.quoteKw ha.gcCandidate]
    cases hev : evalPair cfg C { ctr := c } p env with
    | error e => cases e <;> rfl
    | ok r =>
      obtain ⟨cost, s⟩ := r
      rw [hev] at hd
      simp only at hd ⊢
      rw [runLoop_common ha _ fuel s cost (initial_shaped hev) (evalPair_setSf [] hev).2 hd]

end generic

/-! ### no core operator reads `LIMITS` under the new cost model -/

/-- `F` and `G` look the same to the core operators once `LIMITS` is masked by `NEW_COST_MODEL`
(every use of the flag in `more_ops.rs` is `flags.contains(LIMITS) && !new_cost_model`) -/
def LimView (F G : Nat) : Prop :=
  newModel F = newModel G ∧
  (hasFlag F Gen.FLAG_LIMITS && !newModel G) = (hasFlag G Gen.FLAG_LIMITS && !newModel G) ∧
  hasFlag F Gen.FLAG_DISABLE_OP = hasFlag G Gen.FLAG_DISABLE_OP

theorem mulLoop_lim {F G : Nat} (h : LimView F G) (cfg : Cfg) (m sq : Nat) (l : List Val) :
    ∀ (cost : Nat) (total : Int) (l0 : Nat),
      mulLoop cfg F m sq l cost total l0 = mulLoop cfg G m sq l cost total l0 := by
  induction l with
  | nil => intros; rfl
  | cons a l ih =>
    intro cost total l0
    simp only [mulLoop, h.1, h.2.1, ih]

theorem opMultiply_lim {F G : Nat} (h : LimView F G) (cfg : Cfg) : opMultiply cfg F = opMultiply cfg G := by
  funext m a c
  simp only [opMultiply, h.1, h.2.1, mulLoop_lim h]

theorem divPrologue_lim {F G : Nat} (h : LimView F G) (intA) (n e : String) (b p m : Nat) (a : Val) :
    divPrologue intA n e b p F m a = divPrologue intA n e b p G m a := by
  simp only [divPrologue, h.1, h.2.1, h.2.2]

theorem opModpowWith_lim {F G : Nat} (h : LimView F G) (intA) : opModpowWith intA F = opModpowWith intA G := by
  funext m a c; simp only [opModpowWith, h.1, h.2.1]

/-- every core operator depends on the flags only through the masked view -/
theorem coreOps_limView {cfg : Cfg} {name : String} {f : OpFn} (hf : coreOpByName cfg name = some f)
    {F G : Nat} (h : LimView F G) : f F = f G := by
  unfold coreOpByName at hf
  split at hf <;> (try cases hf) <;> first
    | rfl
    | exact opIf_nm h.1
    | exact opListp_nm h.1
    | exact opSha256_nm h.1 _
    | exact opSubstr_nm h.1
    | exact opAdd_nm h.1 _
    | exact opSubtract_nm h.1 _
    | exact opGr_nm h.1 _
    | exact binopReduction_nm h.1 _ _ _
    | exact opMultiply_lim h _
    | (rw [opDiv_eq, opDiv_eq]; funext m a c; simp only [opDivWith, divPrologue_lim h])
    | (rw [opDivmod_eq, opDivmod_eq]; funext m a c; simp only [opDivmodWith, divPrologue_lim h])
    | (rw [opMod_eq, opMod_eq]; funext m a c; simp only [opModWith, divPrologue_lim h])
    | (rw [opModpow_eq, opModpow_eq]; exact opModpowWith_lim h _)

theorem limView_normFlags (F : Nat) : LimView (normFlags F) F := by
  refine ⟨(nf_flag F).2.2.2.2.1, ?_, hasFlag_normFlags F 9 (by decide)⟩
  cases hn : newModel F
  · have : normFlags F = F := by
      unfold normFlags
      have : hasFlag F Gen.FLAG_NEW_COST_MODEL = false := hn
      simp [this]
    rw [this]
  · simp

/-- the flag word `ChiaDialect::new(F)` passes to a core operator is as good as `F` itself -/
theorem coreOps_normFlags {cfg : Cfg} {name : String} {f : OpFn} (hf : coreOpByName cfg name = some f)
    (F : Nat) : f (normFlags F) = f F :=
  coreOps_limView hf (limView_normFlags F)

/-- the same statement for the operators outside the core table, as a hypothesis on `extra`
(trivial unless `F` has both `NEW_COST_MODEL` and `LIMITS`) -/
def ExtraNorm (extra : String → Option OpFn) (F : Nat) : Prop :=
  ∀ name f, extra name = some f → f (normFlags F) = f F

theorem extraNorm_of_normFlags_eq (extra : String → Option OpFn) {F : Nat} (h : normFlags F = F) :
    ExtraNorm extra F := fun _ f _ => by rw [h]

/-! ### `RuntimeDialect` with the standard table against `ChiaDialect` -/

/-- `f_lookup[b]` of `RuntimeDialect::new(standard table, …)` as an operator-function name -/
def stdLookup (b : Nat) : Option String :=
  (Proto.standardOpMap.find? (fun e => e.2.length == 1 && beNat e.2 == b)).bind
    (fun e => (Gen.fTableNames.find? (fun n => n.1 == e.1)).map (fun n => n.2))

/-- the operator atom `o` is outside the common domain under the flags `F`: outside any guard
`ChiaDialect::op` dispatches it to a named operator function, `RuntimeDialect::op` (standard table)
to `op_unknown`.  These are the 4-byte secp opcodes, opcode 48 (coinid), and 62 / 63 / 64 / 65 when
their enabling flag is in `F`. -/
def chiaOnly (F : Flags) (o : Val) : Bool :=
  match o with
  | .pair _ _ => false
  | .atom ob _ =>
    if ob.length == 4 then (Gen.chiaOp4Table.find? (fun e => e.1 == beNat ob)).isSome
    else if ob.length != 1 then false
    else
      match smallNumber o with
      | none => false
      | some op =>
        match lookupOp Gen.chiaOpTable op with
        | some (_, req) => (req == 0 || hasFlag F req) && (stdLookup op).isNone
        | none => false

/-- `RuntimeDialect::op` with the standard table, written with `stdLookup` -/
theorem runtimeDialect_op (cfg : Cfg) (extra : String → Option OpFn) (q a F : Nat) (ob : Bytes) (inl : Bool)
    (args : Val) (m : Nat) (ext : OperatorSet) (c : Ctr) :
    (runtimeDialect cfg extra Proto.standardOpMap q a F).op (.atom ob inl) args m ext c =
      match (if ob.length == 1 then stdLookup (beNat ob) else none) with
      | some name =>
        (match coreOpByName cfg name with
         | some f => some (f F m args c)
         | none => (extra name).map (fun f => f F m args c))
      | none =>
        if hasFlag F Gen.FLAG_NO_UNKNOWN_OPS then some (.error .Unimplemented)
        else some (opUnknown ob F m args c) := rfl

/-- every byte of the standard table: `ChiaDialect` has the same function name there without an
enabling flag, and the byte is a canonical small integer -/
theorem std_byte : ∀ n, n < 256 →
    (stdLookup n).all (fun name => decide (lookupOp Gen.chiaOpTable n = some (name, 0) ∧
      fitsInSmallAtom [UInt8.ofNat n] = some n)) = true := by
  decide +kernel

/-- the enabling flags of `ChiaDialect`'s table are not touched by the `LIMITS` normalisation -/
theorem chiaOpTable_req : ∀ e ∈ Gen.chiaOpTable, e.2.2 = 0 ∨ e.2.2 = 2 ^ 8 ∨ e.2.2 = 2 ^ 10 ∨ e.2.2 = 2 ^ 11 := by
  decide

theorem lookupOp_mem {op : Nat} {x : String × Nat} (h : lookupOp Gen.chiaOpTable op = some x) :
    (op, x) ∈ Gen.chiaOpTable := by
  unfold lookupOp at h
  cases hf : Gen.chiaOpTable.find? (fun e => e.1 == op) with
  | none => rw [hf] at h; cases h
  | some e =>
    rw [hf] at h
    simp only [Option.map_some, Option.some.injEq] at h
    have h1 := List.mem_of_find?_eq_some hf
    have h2 := List.find?_some hf
    simp only [beq_iff_eq] at h2
    obtain ⟨e1, e2⟩ := e
    simp only at h h2
    subst h; subst h2
    exact h1

theorem hasFlag_req_normFlags {op : Nat} {name : String} {req : Nat}
    (h : lookupOp Gen.chiaOpTable op = some (name, req)) (F : Nat) :
    hasFlag (normFlags F) req = hasFlag F req := by
  rcases chiaOpTable_req _ (lookupOp_mem h) with h0 | h0 | h0 | h0 <;> simp only at h0 <;> rw [h0]
  · simp [hasFlag]
  · exact hasFlag_normFlags F 8 (by decide)
  · exact hasFlag_normFlags F 10 (by decide)
  · exact hasFlag_normFlags F 11 (by decide)

theorem unknownOperator_normFlags (ob : Bytes) (args : Val) (F m : Nat) (c : Ctr) :
    unknownOperator ob args (normFlags F) m c =
      if hasFlag F Gen.FLAG_NO_UNKNOWN_OPS then .error .Unimplemented else opUnknown ob F m args c := by
  unfold unknownOperator
  rw [(nf_flag F).2.1, opUnknown_nm (F := normFlags F) (G := F) (nf_flag F).2.2.2.2.1 ob]

theorem beNat_single (b : UInt8) : beNat [b] = b.toNat := by simp [beNat]

theorem fits_single {b : UInt8} {k : Nat} (h : fitsInSmallAtom [b] = some k) : k = b.toNat := by
  have : ∀ n, n < 256 → ∀ k, fitsInSmallAtom [UInt8.ofNat n] = some k → k = n := by decide +kernel
  have hb : UInt8.ofNat b.toNat = b := by simp
  have := this b.toNat (UInt8.toNat_lt b) k
  rw [hb] at this
  exact this h

/-- **dispatch agreement on the whole common domain**: every operator atom that is not `chiaOnly`
— table operators, atoms both dialects treat as unknown (any length, any tag), opcodes whose
enabling flag is off — is executed identically outside softfork guards -/
theorem op_common (cfg : Cfg) (extra : String → Option OpFn) (q a F : Nat)
    (hdis : hasFlag F Gen.FLAG_DISABLE_OP = false) (hex : ExtraNorm extra F)
    (o args : Val) (m : Nat) (c : Ctr) (ho : o.isPair = false) (hdom : chiaOnly F o = false) :
    (runtimeDialect cfg extra Proto.standardOpMap q a F).op o args m .Default c =
      chiaOp cfg extra (normFlags F) o args m .Default c := by
  cases o with
  | pair l r => cases ho
  | atom ob inl =>
    rw [runtimeDialect_op]
    have hunk := unknownOperator_normFlags ob args F m c
    simp only [chiaOp, Nat.or_zero]
    simp only [chiaOnly] at hdom
    by_cases h4 : (ob.length == 4) = true
    · have h1 : (ob.length == 1) = false := by
        simp only [beq_iff_eq] at h4; simp [h4]
      simp only [h4, h1, if_true] at hdom ⊢
      cases hf : Gen.chiaOp4Table.find? (fun e => e.1 == beNat ob) with
      | some e => rw [hf] at hdom; cases hdom
      | none =>
        simp only [Bool.false_eq_true, if_false, hunk]
        split <;> rfl
    · simp only [h4, if_false, Bool.false_eq_true] at hdom ⊢
      by_cases h1 : (ob.length == 1) = true
      · have h1' : (ob.length != 1) = false := by simp only [beq_iff_eq] at h1; simp [h1]
        simp only [h1, h1', if_true, if_false, Bool.false_eq_true] at hdom ⊢
        obtain ⟨b, rfl⟩ : ∃ b, ob = [b] := by
          simp only [beq_iff_eq] at h1
          match ob, h1 with
          | [b], _ => exact ⟨b, rfl⟩
        have hbyte := std_byte b.toNat (UInt8.toNat_lt b)
        have hb : UInt8.ofNat b.toNat = b := by simp
        rw [hb] at hbyte
        rw [beNat_single]
        cases hl : stdLookup b.toNat with
        | some name =>
          rw [hl] at hbyte
          simp only [Option.all_some, decide_eq_true_eq] at hbyte
          obtain ⟨hc, hfit⟩ := hbyte
          have hsn : smallNumber (.atom [b] inl) = some b.toNat := by
            cases inl <;> simp [smallNumber, hfit, beNat_single]
          have hd9 : hasFlag (normFlags F) Gen.FLAG_DISABLE_OP = false :=
            (hasFlag_normFlags F 9 (by decide)).trans hdis
          simp only [hsn, hc, hd9, bne_self_eq_false, Bool.false_and, Bool.and_false, Bool.false_eq_true,
            if_false]
          cases hcore : coreOpByName cfg name with
          | some f => simp only [coreOps_normFlags hcore F]
          | none =>
            cases hext : extra name with
            | some f => simp only [Option.map_some, hex name f hext]
            | none => rfl
        | none =>
          have hres : (if hasFlag F Gen.FLAG_NO_UNKNOWN_OPS = true then some (Except.error Err.Unimplemented)
              else some (opUnknown [b] F m args c)) = some (unknownOperator [b] args (normFlags F) m c) := by
            rw [hunk]; split <;> rfl
          simp only [hres]
          cases hsn : smallNumber (.atom [b] inl) with
          | none => rfl
          | some op =>
            rw [hsn] at hdom
            simp only at hdom ⊢
            have hop : op = b.toNat := by
              cases inl
              · exact fits_single hsn
              · simp only [smallNumber, Option.some.injEq, beNat_single] at hsn; exact hsn.symm
            subst hop
            cases hlk : lookupOp Gen.chiaOpTable b.toNat with
            | none => rfl
            | some nr =>
              obtain ⟨name, req⟩ := nr
              rw [hlk] at hdom
              simp only [hl, Option.isNone_none, Bool.and_true, Bool.or_eq_false_iff] at hdom
              have hreq : (req != 0 && !hasFlag (normFlags F) req) = true := by
                rw [hasFlag_req_normFlags hlk F, hdom.2]
                simp only [Bool.not_false, Bool.and_true, bne_iff_ne, ne_eq]
                intro h0; rw [h0] at hdom; simp at hdom
              simp only [hreq, if_true]
      · have h1' : (ob.length != 1) = true := by
          simp only [beq_iff_eq] at h1; simp [h1]
        simp only [h1, h1', if_true, if_false, Bool.false_eq_true, hunk]
        split <;> rfl

/-- the two dialects satisfy the agreement the lifting needs, for flag sets without `ENABLE_GC` and
`DISABLE_OP` -/
theorem runtime_chia_agree (cfg : Cfg) (extra : String → Option OpFn) (F : Nat)
    (hgc : hasFlag F Gen.FLAG_ENABLE_GC = false) (hdis : hasFlag F Gen.FLAG_DISABLE_OP = false)
    (hex : ExtraNorm extra F) :
    CommonAgree (runtimeDialect cfg extra Proto.standardOpMap 1 2 F) (chiaDialect cfg extra F)
      (fun o => !chiaOnly F o) := by
  obtain ⟨hci, hnu, _, hg, _, _⟩ := nf_flag F
  refine
    { quoteKw := rfl, applyKw := rfl, softforkKw := rfl
      gcCandidate := ?_
      allowUnknownOps := ?_
      canonicalInts := hci.symm
      parseErr := ?_
      op := ?_ }
  · funext op
    show false = (if (!hasFlag (normFlags F) Gen.FLAG_ENABLE_GC) = true then false else _)
    rw [hg, hgc]; rfl
  · show (!hasFlag F Gen.FLAG_NO_UNKNOWN_OPS) = (!hasFlag (normFlags F) Gen.FLAG_NO_UNKNOWN_OPS)
    rw [hnu]
  · intro ol err h
    unfold parseSoftforkArguments at h ⊢
    cases hga : getArgs4 ol "softfork" with
    | error e => rw [hga] at h; exact h
    | ok q4 =>
      obtain ⟨a1, a2, a3, a4⟩ := q4
      rw [hga] at h
      simp only at h ⊢
      have hu : uintAtom 4 a2 "softfork" (runtimeDialect cfg extra Proto.standardOpMap 1 2 F).flags =
          uintAtom 4 a2 "softfork" (chiaDialect cfg extra F).flags :=
        uintAtom_flags 4 a2 "softfork" _ _ hci.symm
      rw [hu]
      cases hua : uintAtom 4 a2 "softfork" (chiaDialect cfg extra F).flags with
      | error e => rw [hua] at h; exact h
      | ok ext =>
        rw [hua] at h
        simp only at h ⊢
        split at h
        · exact h
        · cases h
  · intro o args m c ho hdom
    have hdom' : chiaOnly F o = false := by simpa using hdom
    exact op_common cfg extra 1 2 F hdis hex o args m c ho hdom'

end Clvm.Interp
