/-
Algebra of the two's-complement bitwise operations of `Ops.lean` (`intAnd`, `intOr`, `intXor`),
by bit extensionality: `bitI z i` is bit `i` of the infinite two's-complement expansion of `z`.
Used by C11 (`binop_reduction`: the old cost model folds negative arguments separately).
-/
import ClvmModel.Interp.Ops

namespace Clvm.Interp

/-- bit `i` of the two's-complement expansion -/
def bitI : Int → Nat → Bool
  | .ofNat m, i => m.testBit i
  | .negSucc m, i => !m.testBit i

theorem bitI_ext {x y : Int} (h : ∀ i, bitI x i = bitI y i) : x = y := by
  cases x with
  | ofNat m =>
    cases y with
    | ofNat n => exact congrArg Int.ofNat (Nat.eq_of_testBit_eq h)
    | negSucc n =>
      exfalso
      have h1 : m < 2 ^ (m + n) := Nat.lt_of_lt_of_le Nat.lt_two_pow_self (Nat.pow_le_pow_right (by omega) (by omega))
      have h2 : n < 2 ^ (m + n) := Nat.lt_of_lt_of_le Nat.lt_two_pow_self (Nat.pow_le_pow_right (by omega) (by omega))
      have := h (m + n)
      simp [bitI, Nat.testBit_lt_two_pow h1, Nat.testBit_lt_two_pow h2] at this
  | negSucc m =>
    cases y with
    | ofNat n =>
      exfalso
      have h1 : m < 2 ^ (m + n) := Nat.lt_of_lt_of_le Nat.lt_two_pow_self (Nat.pow_le_pow_right (by omega) (by omega))
      have h2 : n < 2 ^ (m + n) := Nat.lt_of_lt_of_le Nat.lt_two_pow_self (Nat.pow_le_pow_right (by omega) (by omega))
      have := h (m + n)
      simp [bitI, Nat.testBit_lt_two_pow h1, Nat.testBit_lt_two_pow h2] at this
    | negSucc n =>
      have : m = n := Nat.eq_of_testBit_eq (fun i => by
        have := h i
        simp only [bitI] at this
        cases h1 : m.testBit i <;> cases h2 : n.testBit i <;> simp_all)
      rw [this]

theorem testBit_natAndNot (x y i : Nat) : (natAndNot x y).testBit i = (x.testBit i && !y.testBit i) := by
  unfold natAndNot
  rw [Nat.testBit_bitwise (by rfl)]

theorem bitI_intAnd (x y : Int) (i : Nat) : bitI (intAnd x y) i = (bitI x i && bitI y i) := by
  cases x <;> cases y <;> simp [intAnd, bitI, testBit_natAndNot, Bool.and_comm]

theorem bitI_intOr (x y : Int) (i : Nat) : bitI (intOr x y) i = (bitI x i || bitI y i) := by
  cases x <;> cases y <;> simp [intOr, bitI, testBit_natAndNot, Bool.or_comm]

theorem bitI_intXor (x y : Int) (i : Nat) : bitI (intXor x y) i = (bitI x i ^^ bitI y i) := by
  cases x <;> cases y <;> simp [intXor, bitI]

theorem intAnd_comm (x y : Int) : intAnd x y = intAnd y x :=
  bitI_ext fun i => by rw [bitI_intAnd, bitI_intAnd, Bool.and_comm]
theorem intAnd_assoc (x y z : Int) : intAnd (intAnd x y) z = intAnd x (intAnd y z) :=
  bitI_ext fun i => by simp only [bitI_intAnd, Bool.and_assoc]
theorem intOr_comm (x y : Int) : intOr x y = intOr y x :=
  bitI_ext fun i => by rw [bitI_intOr, bitI_intOr, Bool.or_comm]
theorem intOr_assoc (x y z : Int) : intOr (intOr x y) z = intOr x (intOr y z) :=
  bitI_ext fun i => by simp only [bitI_intOr, Bool.or_assoc]
theorem intXor_comm (x y : Int) : intXor x y = intXor y x :=
  bitI_ext fun i => by rw [bitI_intXor, bitI_intXor, Bool.xor_comm]
theorem intXor_assoc (x y z : Int) : intXor (intXor x y) z = intXor x (intXor y z) :=
  bitI_ext fun i => by simp only [bitI_intXor, Bool.xor_assoc]

/-- identities: `-1` for and, `0` for or / xor -/
theorem bitI_neg_one (i : Nat) : bitI (-1) i = true := by
  show bitI (Int.negSucc 0) i = true
  simp [bitI]
theorem bitI_zero (i : Nat) : bitI 0 i = false := by
  show bitI (Int.ofNat 0) i = false
  simp [bitI]
theorem intAnd_neg_one (x : Int) : intAnd x (-1) = x :=
  bitI_ext fun i => by rw [bitI_intAnd, bitI_neg_one, Bool.and_true]
theorem intOr_zero (x : Int) : intOr x 0 = x :=
  bitI_ext fun i => by rw [bitI_intOr, bitI_zero, Bool.or_false]
theorem intXor_zero (x : Int) : intXor x 0 = x :=
  bitI_ext fun i => by rw [bitI_intXor, bitI_zero, Bool.xor_false]

end Clvm.Interp
