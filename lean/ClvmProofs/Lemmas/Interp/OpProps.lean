/-
Statement shapes for per-operator lemmas.  Each property of the interpreter (C02, C03, C05, C06,
C07, C11, C25 …) is proved in two layers: a per-operator lemma of one of the shapes below, and a
machine-level lifting (induction on the fuel of `runLoop`) that uses only these shapes.
Definitions only — no proofs here.
-/
import ClvmModel.Interp.Machine

namespace Clvm.Interp
open Clvm Clvm.Alloc

/-- errors that must never come out of an operator or the machine (C25) -/
def Err.isInternal : Err → Bool
  | .Panic _ => true
  | .InternalError _ => true
  | .Abort _ => true
  | _ => false

abbrev OpRes := Except Err (Nat × Val × Ctr)

/-- **C02 (budget)**: a successful call depends on the budget only through `CostExceeded`:
under any other budget it gives the identical result or `CostExceeded`, and the identical result
whenever the budget covers the charged cost. -/
def OpBudget (f : OpFn) : Prop :=
  ∀ (flags m m' : Nat) (args : Val) (c : Ctr) (r : Nat × Val × Ctr),
    f flags m args c = .ok r →
      (f flags m' args c = .ok r ∨ f flags m' args c = .error .CostExceeded) ∧
      (r.1 ≤ m' → f flags m' args c = .ok r)

/-- **C02 (failures)**: raising the budget can only turn `CostExceeded` into something else;
every other error is budget-independent. -/
def OpBudgetErr (f : OpFn) : Prop :=
  ∀ (flags m m' : Nat) (args : Val) (c : Ctr) (e : Err),
    f flags m args c = .error e → e ≠ .CostExceeded → m ≤ m' → f flags m' args c = .error e

/-- **C25 (totality)**: on well-formed arguments no operator panics or reports an internal error. -/
def OpClean (f : OpFn) : Prop :=
  ∀ (flags m : Nat) (args : Val) (c : Ctr) (e : Err),
    args.wf = true → f flags m args c = .error e → Err.isInternal e = false

/-- results are well-formed and counters only grow (needed to iterate) -/
def OpWf (f : OpFn) : Prop :=
  ∀ (flags m : Nat) (args : Val) (c : Ctr) (r : Nat × Val × Ctr),
    args.wf = true → f flags m args c = .ok r →
      r.2.1.wf = true ∧ c.atoms ≤ r.2.2.atoms ∧ c.pairs ≤ r.2.2.pairs ∧ c.heap ≤ r.2.2.heap ∧
      r.2.2.heapLimit = c.heapLimit

/-- the restriction flags of C07 -/
def restrictionBits : Nat :=
  Gen.FLAG_NO_UNKNOWN_OPS ||| Gen.FLAG_CANONICAL_INTS ||| Gen.FLAG_DISABLE_OP ||| Gen.FLAG_LIMIT_SOFTFORK |||
  Gen.FLAG_LIMITS ||| Gen.FLAG_LIMIT_HEAP

/-- **C07 (restriction flags only remove successes)** -/
def OpRestrict (f : OpFn) : Prop :=
  ∀ (F R m : Nat) (args : Val) (c : Ctr) (r : Nat × Val × Ctr),
    R &&& restrictionBits = R → f (F ||| R) m args c = .ok r → f F m args c = .ok r

/-- **C07 (RELAXED_BLS only adds successes)** -/
def OpRelax (f : OpFn) : Prop :=
  ∀ (F m : Nat) (args : Val) (c : Ctr) (r : Nat × Val × Ctr),
    f F m args c = .ok r → f (F ||| Gen.FLAG_RELAXED_BLS) m args c = .ok r

/-- **C11 (values do not depend on the cost model)**: if a call succeeds with and without
`NEW_COST_MODEL` (budgets may differ) the values and the counters are the same. -/
def OpModelIndep (f : OpFn) : Prop :=
  ∀ (F m m' : Nat) (args : Val) (c : Ctr) (r r' : Nat × Val × Ctr),
    hasFlag F Gen.FLAG_NEW_COST_MODEL = false →
    f F m args c = .ok r → f (F ||| Gen.FLAG_NEW_COST_MODEL) m' args c = .ok r' →
      r.2 = r'.2

/-- **C05 (fast paths)**: an operator family indexed by the build configuration does not depend on it -/
def OpFastpathIrrelevant (f : Cfg → OpFn) : Prop :=
  ∀ (flags m : Nat) (args : Val) (c : Ctr), args.wf = true →
    f { fastpath := true } flags m args c = f { fastpath := false } flags m args c

/-- outcome equality up to representation tags: same error *kind* or same cost, same erased value,
same atom/pair counts and heap limit (heap size: see `OpRepr`) -/
def ResEraseEq (heapToo : Bool) : OpRes → OpRes → Prop
  | .error e, .error e' => e.kind = e'.kind
  | .ok (k, v, c), .ok (k', v', c') =>
    k = k' ∧ v.erase = v'.erase ∧ c.atoms = c'.atoms ∧ c.pairs = c'.pairs ∧ c.heapLimit = c'.heapLimit ∧
    (heapToo = true → c.heap = c'.heap)
  | _, _ => False

/-- **C03 (representation independence)**: re-tagging the arguments (same erased tree, both
well-formed) does not change the outcome as long as no allocator limit is hit.  `heapToo` is
`false` only for `op_substr`, whose heap accounting depends on the tag (DESIGN §6-C). -/
def OpRepr (heapToo : Bool) (f : OpFn) : Prop :=
  ∀ (flags m : Nat) (a a' : Val) (c : Ctr),
    a.wf = true → a'.wf = true → a.erase = a'.erase →
      ResEraseEq heapToo (f flags m a c) (f flags m a' c)

end Clvm.Interp
