/-
Instances of the machine-level hypotheses (`Dialect.OpBudgetUp`, `Dialect.OpBudgetDich`,
`Dialect.OpBudget`, `Dialect.OpClean`) for `ChiaDialect::new`, from the per-operator aggregates
(`coreOps_budget`, `coreOps_clean`, `opUnknown_…`), and the resulting whole-run theorems for the
chia dialect.  `extra` (the operators outside the core table: BLS, secp, keccak, sha256tree, coinid)
enters through the same per-operator shapes as hypotheses.
-/
import ClvmProofs.Lemmas.Interp.LiftBudget
import ClvmProofs.Lemmas.Interp.LiftClean
import ClvmProofs.Lemmas.Interp.LiftModel
import ClvmProofs.Lemmas.Interp.Budget
import ClvmProofs.Lemmas.Interp.Clean

namespace Clvm.Interp
open Clvm Clvm.Alloc

/-- **the dispatch of `ChiaDialect::op` does not look at the budget**: as a function of the budget,
a call is unsupported, or one of: a constant error, a core operator, an `extra` operator, the
`unknown_operator` wrapper — each applied to fixed flags, arguments and counters -/
theorem chiaOp_dispatch (cfg : Cfg) (extra : String → Option OpFn) (dflags : Flags) (o args : Val)
    (ext : OperatorSet) (c : Ctr) (P : (Nat → OpRes) → Prop)
    (hpair : o.isPair = true → P (fun _ => .error (.Panic "atom_len on pair")))
    (hunimpl : P (fun _ => .error .Unimplemented))
    (hcore : ∀ name f, coreOpByName cfg name = some f → P (fun m => f (dflags ||| extBits ext) m args c))
    (hextra : ∀ name f, extra name = some f → P (fun m => f (dflags ||| extBits ext) m args c))
    (hunk : ∀ ob, P (fun m => unknownOperator ob args (dflags ||| extBits ext) m c)) :
    (∀ m, chiaOp cfg extra dflags o args m ext c = none) ∨
    ∃ g, P g ∧ ∀ m, chiaOp cfg extra dflags o args m ext c = some (g m) := by
  simp only [chiaOp_ext cfg extra dflags o args _ ext c]
  generalize dflags ||| extBits ext = flags at hcore hextra hunk ⊢
  simp only [chiaOp, Nat.or_zero]
  cases o with
  | pair l r => exact Or.inr ⟨_, hpair rfl, fun _ => rfl⟩
  | atom ob inl =>
    simp only
    have hcall : ∀ name : String,
        (∀ m, (match coreOpByName cfg name with
          | some f => some (f flags m args c)
          | none => match extra name with
            | some f => some (f flags m args c)
            | none => none) = none) ∨
        ∃ g, P g ∧ ∀ m, (match coreOpByName cfg name with
          | some f => some (f flags m args c)
          | none => match extra name with
            | some f => some (f flags m args c)
            | none => none) = some (g m) := by
      intro name
      cases h1 : coreOpByName cfg name with
      | some f => exact Or.inr ⟨_, hcore name f h1, fun _ => rfl⟩
      | none =>
        cases h2 : extra name with
        | some f => exact Or.inr ⟨_, hextra name f h2, fun _ => rfl⟩
        | none => exact Or.inl (fun _ => rfl)
    have hu : (∀ m, some (unknownOperator ob args flags m c) = none) ∨
        ∃ g, P g ∧ ∀ m, some (unknownOperator ob args flags m c) = some (g m) :=
      Or.inr ⟨_, hunk ob, fun _ => rfl⟩
    by_cases h4 : (ob.length == 4) = true
    · simp only [h4, ↓reduceIte]
      split
      · exact hcall _
      · exact hu
    · simp only [h4, ↓reduceIte, Bool.false_eq_true]
      by_cases h1 : (ob.length != 1) = true
      · simp only [h1, ↓reduceIte]; exact hu
      · simp only [h1, ↓reduceIte, Bool.false_eq_true]
        cases hs : smallNumber (.atom ob inl) with
        | none => exact hu
        | some op =>
          simp only
          cases hl : lookupOp Gen.chiaOpTable op with
          | none => exact hu
          | some nr =>
            obtain ⟨name, req⟩ := nr
            simp only
            by_cases hq : (req != 0 && !hasFlag flags req) = true
            · simp only [hq, ↓reduceIte]; exact hu
            · simp only [hq, ↓reduceIte, Bool.false_eq_true]
              by_cases hmp : (name == "op_modpow" && hasFlag flags Gen.FLAG_DISABLE_OP && !newModel flags) = true
              · simp only [hmp, ↓reduceIte]
                exact Or.inr ⟨_, hunimpl, fun _ => rfl⟩
              · simp only [hmp, ↓reduceIte, Bool.false_eq_true]
                exact hcall _

/-! ### C02 -/

theorem unknownOperator_dich (ob : Bytes) (args : Val) (flags m m' : Nat) (c : Ctr) (r : Nat × Val × Ctr)
    (h : unknownOperator ob args flags m c = .ok r) :
    unknownOperator ob args flags m' c = .ok r ∨ unknownOperator ob args flags m' c = .error .CostExceeded := by
  unfold unknownOperator at h ⊢
  split at h
  · cases h
  · rename_i hs; rw [if_neg hs]
    exact opUnknown_budget_dichotomy ob flags m m' args c r h

theorem unknownOperator_up (ob : Bytes) (args : Val) (flags m m' : Nat) (c : Ctr) (r : Nat × Val × Ctr)
    (h : unknownOperator ob args flags m c = .ok r) (h1 : r.1 ≤ m) (h2 : m ≤ m') :
    unknownOperator ob args flags m' c = .ok r := by
  unfold unknownOperator at h ⊢
  split at h
  · cases h
  · rename_i hs; rw [if_neg hs]
    obtain ⟨base, mult, _, _, hb, _, hl⟩ := opUnknown_budget_general ob flags m args c r h
    exact (hl.2 m').2 (Nat.max_le.2 ⟨Nat.le_trans hb h2, Nat.le_trans h1 h2⟩)

/-- `ChiaDialect::new(F)` satisfies the dichotomy shape for every flag set (both cost models) -/
theorem chiaDialect_opBudgetDich (cfg : Cfg) (extra : String → Option OpFn)
    (hextra : ∀ name f, extra name = some f → OpBudget f) (F : Nat) :
    (chiaDialect cfg extra F).OpBudgetDich := by
  intro o args ext c m m' r h
  let P : (Nat → OpRes) → Prop := fun g => ∀ m m' r, g m = .ok r → g m' = .ok r ∨ g m' = .error .CostExceeded
  rcases chiaOp_dispatch cfg extra (normFlags F) o args ext c P
    (fun _ _ _ _ hh => nomatch hh) (fun _ _ _ hh => nomatch hh)
    (fun name f hf m m' r hh => (coreOps_budget cfg name f hf _ m m' args c r hh).1)
    (fun name f hf m m' r hh => (hextra name f hf _ m m' args c r hh).1)
    (fun ob m m' r hh => unknownOperator_dich ob args _ m m' c r hh) with hn | ⟨g, hP, hg⟩
  · have : chiaOp cfg extra (normFlags F) o args m ext c = some (.ok r) := h
    rw [hn m] at this; cases this
  · have h0 : chiaOp cfg extra (normFlags F) o args m ext c = some (.ok r) := h
    rw [hg m] at h0
    show chiaOp cfg extra (normFlags F) o args m' ext c = _ ∨ chiaOp cfg extra (normFlags F) o args m' ext c = _
    rw [hg m']
    rcases hP m m' r (Option.some.inj h0) with h1 | h1
    · exact Or.inl (by rw [h1])
    · exact Or.inr (by rw [h1])

/-- … and the upward shape, for every flag set (both cost models, including the wrap-around of
`op_unknown` in the old one) -/
theorem chiaDialect_opBudgetUp (cfg : Cfg) (extra : String → Option OpFn)
    (hextra : ∀ name f, extra name = some f → OpBudget f) (F : Nat) :
    (chiaDialect cfg extra F).OpBudgetUp := by
  intro o args ext c m m' r h h1 h2
  let P : (Nat → OpRes) → Prop := fun g => ∀ m m' r, g m = .ok r → r.1 ≤ m → m ≤ m' → g m' = .ok r
  rcases chiaOp_dispatch cfg extra (normFlags F) o args ext c P
    (fun _ _ _ _ hh => nomatch hh) (fun _ _ _ hh => nomatch hh)
    (fun name f hf m m' r hh a b => (coreOps_budget cfg name f hf _ m m' args c r hh).2 (Nat.le_trans a b))
    (fun name f hf m m' r hh a b => (hextra name f hf _ m m' args c r hh).2 (Nat.le_trans a b))
    (fun ob m m' r hh a b => unknownOperator_up ob args _ m m' c r hh a b) with hn | ⟨g, hP, hg⟩
  · have : chiaOp cfg extra (normFlags F) o args m ext c = some (.ok r) := h
    rw [hn m] at this; cases this
  · have h0 : chiaOp cfg extra (normFlags F) o args m ext c = some (.ok r) := h
    rw [hg m] at h0
    show chiaOp cfg extra (normFlags F) o args m' ext c = _
    rw [hg m', hP m m' r (Option.some.inj h0) h1 h2]

/-- the full shape (with tightness) when unknown operators are rejected (`NO_UNKNOWN_OPS`, e.g.
mempool mode) or the new cost model is used; in the old model with unknown operators allowed,
tightness fails for `op_unknown` (wrap-around, DESIGN §6-B) -/
theorem chiaDialect_opBudget (cfg : Cfg) (extra : String → Option OpFn)
    (hextra : ∀ name f, extra name = some f → OpBudget f) (F : Nat)
    (hF : hasFlag F Gen.FLAG_NO_UNKNOWN_OPS = true ∨ hasFlag F Gen.FLAG_NEW_COST_MODEL = true) :
    (chiaDialect cfg extra F).OpBudget := by
  refine ⟨chiaDialect_opBudgetDich cfg extra hextra F, ?_⟩
  intro o args ext c m m' r h h1
  let P : (Nat → OpRes) → Prop := fun g => ∀ m m' r, g m = .ok r → r.1 ≤ m' → g m' = .ok r
  have hunkP : ∀ ob, P (fun m => unknownOperator ob args (normFlags F ||| extBits ext) m c) := by
    intro ob m m' r hh a
    simp only [unknownOperator] at hh ⊢
    split at hh
    · cases hh
    · rename_i hs
      rw [if_neg hs]
      rcases hF with hF | hF
      · exfalso; apply hs
        rw [hasFlag_or, (nf_flag F).2.1, hF]; rfl
      · have hnm : newModel (normFlags F ||| extBits ext) = true := by
          unfold newModel; rw [hasFlag_or, (nf_flag F).2.2.2.2.1, hF]; rfl
        exact (opUnknown_budget_newModel ob _ hnm m m' args c r hh).2 a
  rcases chiaOp_dispatch cfg extra (normFlags F) o args ext c P
    (fun _ _ _ _ hh => nomatch hh) (fun _ _ _ hh => nomatch hh)
    (fun name f hf m m' r hh a => (coreOps_budget cfg name f hf _ m m' args c r hh).2 a)
    (fun name f hf m m' r hh a => (hextra name f hf _ m m' args c r hh).2 a)
    hunkP with hn | ⟨g, hP, hg⟩
  · have : chiaOp cfg extra (normFlags F) o args m ext c = some (.ok r) := h
    rw [hn m] at this; cases this
  · have h0 : chiaOp cfg extra (normFlags F) o args m ext c = some (.ok r) := h
    rw [hg m] at h0
    show chiaOp cfg extra (normFlags F) o args m' ext c = _
    rw [hg m', hP m m' r (Option.some.inj h0) h1]

/-! ### C02 for the chia dialect -/

/-- **upward closed**, every flag set, both cost models -/
theorem chia_run_upward (cfg : Cfg) (extra : String → Option OpFn)
    (hextra : ∀ name f, extra name = some f → OpBudget f) (F : Nat) {fuel : Nat} {c0 : Ctr} {p e : Val}
    {M M' : Nat} {r : Nat × Val × Ctr}
    (h : runProgram cfg (chiaDialect cfg extra F) fuel c0 p e M = some (.ok r))
    (hM : effBudget M ≤ effBudget M') : runProgram cfg (chiaDialect cfg extra F) fuel c0 p e M' = some (.ok r) :=
  run_upward (chiaDialect_opBudgetUp cfg extra hextra F) h hM

/-- **dichotomy**, every flag set, both cost models -/
theorem chia_run_dichotomy (cfg : Cfg) (extra : String → Option OpFn)
    (hextra : ∀ name f, extra name = some f → OpBudget f) (F : Nat) {fuel : Nat} {c0 : Ctr} {p e : Val}
    {M : Nat} {r : Nat × Val × Ctr}
    (h : runProgram cfg (chiaDialect cfg extra F) fuel c0 p e M = some (.ok r)) (M' : Nat) :
    runProgram cfg (chiaDialect cfg extra F) fuel c0 p e M' = some (.ok r) ∨
    runProgram cfg (chiaDialect cfg extra F) fuel c0 p e M' = some (.error .CostExceeded) :=
  run_dichotomy (chiaDialect_opBudgetUp cfg extra hextra F) (chiaDialect_opBudgetDich cfg extra hextra F) h M'

/-- **tight**, old cost model with unknown operators rejected (e.g. mempool mode): the smallest
sufficient budget is exactly the reported cost.  (With unknown operators allowed the old model's
`op_unknown` wrap-around breaks tightness, §6-B; under the new model extensions 0 and 1 are
cost-exempt guards, for which only `chia_run_upward` / `run_success_unique` hold.) -/
theorem chia_run_tight_partial (cfg : Cfg) (extra : String → Option OpFn)
    (hextra : ∀ name f, extra name = some f → OpBudget f) (F : Nat)
    (hS : hasFlag F Gen.FLAG_NO_UNKNOWN_OPS = true) (hN : hasFlag F Gen.FLAG_NEW_COST_MODEL = false)
    {fuel : Nat} {c0 : Ctr} {p e : Val} {M C : Nat} {v : Val} {c : Ctr}
    (h : runProgram cfg (chiaDialect cfg extra F) fuel c0 p e M = some (.ok (C, v, c))) (M' : Nat) :
    (C ≤ effBudget M' → runProgram cfg (chiaDialect cfg extra F) fuel c0 p e M' = some (.ok (C, v, c))) ∧
    (effBudget M' < C → runProgram cfg (chiaDialect cfg extra F) fuel c0 p e M' = some (.error .CostExceeded)) :=
  run_tight (chiaDialect_opBudget cfg extra hextra F (Or.inl hS)) (chiaDialect_noExempt cfg extra F hN) h M'

/-! ### C25 for the chia dialect -/

/-- `ChiaDialect::op` is clean given clean operators (`coreOps_clean`, `coreOps_wf`,
`opUnknown_clean`, `opUnknown_wf` of `Clean.lean` and the same for `extra`) -/
theorem chiaDialect_opClean (cfg : Cfg) (extra : String → Option OpFn)
    (hcc : ∀ name f, coreOpByName cfg name = some f → OpClean f)
    (hcw : ∀ name f, coreOpByName cfg name = some f → OpWf f)
    (hec : ∀ name f, extra name = some f → OpClean f)
    (hew : ∀ name f, extra name = some f → OpWf f)
    (huc : ∀ ob, OpClean (opUnknown ob)) (huw : ∀ ob, OpWf (opUnknown ob)) (F : Nat) :
    (chiaDialect cfg extra F).OpClean := by
  constructor
  · intro o args m ext c r _ haw h
    let P : (Nat → OpRes) → Prop := fun g => ∀ m r, g m = .ok r → r.2.1.wf = true
    rcases chiaOp_dispatch cfg extra (normFlags F) o args ext c P
      (fun _ _ _ hh => nomatch hh) (fun _ _ hh => nomatch hh)
      (fun name f hf m r hh => (hcw name f hf _ m args c r haw hh).1)
      (fun name f hf m r hh => (hew name f hf _ m args c r haw hh).1)
      (fun ob m r hh => by
        simp only [unknownOperator] at hh
        split at hh
        · cases hh
        · exact (huw ob _ m args c r haw hh).1) with hn | ⟨g, hP, hg⟩
    · have : chiaOp cfg extra (normFlags F) o args m ext c = some (.ok r) := h
      rw [hn m] at this; cases this
    · have h0 : chiaOp cfg extra (normFlags F) o args m ext c = some (.ok r) := h
      rw [hg m] at h0
      exact hP m r (Option.some.inj h0)
  · intro o args m ext c e hoa _ haw h
    let P : (Nat → OpRes) → Prop := fun g => ∀ m e, g m = .error e → Err.isInternal e = false
    rcases chiaOp_dispatch cfg extra (normFlags F) o args ext c P
      (fun hp => by rw [hoa] at hp; cases hp) (fun _ _ hh => by cases hh; rfl)
      (fun name f hf m e hh => hcc name f hf _ m args c e haw hh)
      (fun name f hf m e hh => hec name f hf _ m args c e haw hh)
      (fun ob m e hh => by
        simp only [unknownOperator] at hh
        split at hh
        · cases hh; rfl
        · exact huc ob _ m args c e haw hh) with hn | ⟨g, hP, hg⟩
    · have : chiaOp cfg extra (normFlags F) o args m ext c = some (.error e) := h
      rw [hn m] at this; cases this
    · have h0 : chiaOp cfg extra (normFlags F) o args m ext c = some (.error e) := h
      rw [hg m] at h0
      exact hP m e (Option.some.inj h0)

/-- **C25 for the chia dialect.**  `run_program` with `ChiaDialect::new(F)` — every flag set, both
builds, every budget and initial allocator state — never ends in `InternalError`, a panic or an
abort on a well-formed program and environment, provided the operators outside the core table
(`extra`) are clean. -/
theorem chia_machine_no_internal (cfg : Cfg) (extra : String → Option OpFn)
    (hec : ∀ name f, extra name = some f → OpClean f) (hew : ∀ name f, extra name = some f → OpWf f)
    (F fuel : Nat) (c0 : Ctr) (p env : Val) (M : Nat) (hp : p.wf = true) (he : env.wf = true) (e : Err)
    (h : runProgram cfg (chiaDialect cfg extra F) fuel c0 p env M = some (.error e)) :
    Err.isInternal e = false :=
  machine_no_internal
    (chiaDialect_opClean cfg extra (coreOps_clean cfg) (coreOps_wf cfg) hec hew opUnknown_clean opUnknown_wf F)
    fuel c0 p env M hp he e h

end Clvm.Interp
