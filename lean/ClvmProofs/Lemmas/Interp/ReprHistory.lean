/-
C03, heap history (machine level).  `runProgram` takes the allocator only through its counters
`Ctr`; here: the outcome of a run does not depend on the initial counters, unless one of the two
runs hits an allocator limit.  Lock-step simulation of two runs of the same program whose states
differ only in the counters (and in the counter snapshots kept by the softfork guards).
-/
import ClvmProofs.Lemmas.Interp.ReprHistoryOps
import ClvmProofs.Lemmas.Interp.ReprMachine

namespace Clvm.Interp
open Clvm Clvm.Alloc

/-! ### outcomes -/

/-- related outcomes in the machine monad: equal stop reasons, or one side stopped at an allocator limit -/
inductive HR {α : Type} (R : α → α → Prop) : M α → M α → Prop where
  | ok {a a' : α} (h : R a a') : HR R (.ok a) (.ok a')
  | same (e : Stop) : HR R (.error e) (.error e)
  | limL {e : Err} {y : M α} (h : e.isLimit = true) : HR R (.error (.err e)) y
  | limR {e : Err} {x : M α} (h : e.isLimit = true) : HR R x (.error (.err e))

theorem HR.bind {α β : Type} {R : α → α → Prop} {S : β → β → Prop} {x x' : M α} {f f' : α → M β}
    (hx : HR R x x') (hf : ∀ a a', R a a' → HR S (f a) (f' a')) : HR S (x >>= f) (x' >>= f') := by
  cases hx with
  | ok h => exact hf _ _ h
  | same e => exact .same e
  | limL h => exact .limL h
  | limR h => exact .limR h

theorem HR.liftE_eq {α : Type} (x : Except Err α) : HR Eq (liftE x) (liftE x) := by
  cases x with
  | error e => exact .same _
  | ok a => exact .ok rfl

/-! ### states -/

/-- guard stacks that agree on everything but the counter snapshots -/
inductive GuardsHist : List SoftforkGuard → List SoftforkGuard → Prop where
  | nil : GuardsHist [] []
  | cons {g g' : SoftforkGuard} {l l' : List SoftforkGuard} (he : g.expectedCost = g'.expectedCost)
      (ho : g.operatorSet = g'.operatorSet) (t : GuardsHist l l') : GuardsHist (g :: l) (g' :: l')

theorem GuardsHist.length_eq {l l' : List SoftforkGuard} (h : GuardsHist l l') : l.length = l'.length := by
  induction h with
  | nil => rfl
  | cons _ _ _ ih => simp [ih]

/-- the two states are equal except for the counters and the counter snapshots of the guards -/
structure HistEq (s s' : MState) : Prop where
  val : s.valStack = s'.valStack
  env : s.envStack = s'.envStack
  valLen : s.valLen = s'.valLen
  envLen : s.envLen = s'.envLen
  ops : s.opStack = s'.opStack
  guards : GuardsHist s.softforkStack s'.softforkStack
  allocs : s.allocatorStack = s'.allocatorStack

def HStepRel (r r' : Nat × MState) : Prop := r.1 = r'.1 ∧ HistEq r.2 r'.2

theorem hist_pop {s s' : MState} (h : HistEq s s') :
    HR (fun r r' => r.1 = r'.1 ∧ HistEq r.2 r'.2) s.pop s'.pop := by
  unfold MState.pop
  rw [h.val]
  cases hv : s'.valStack with
  | nil => exact .same _
  | cons v vs =>
    exact .ok ⟨rfl, ⟨rfl, h.env, by simp [h.valLen], h.envLen, h.ops, h.guards, h.allocs⟩⟩

theorem hist_push {s s' : MState} (h : HistEq s s') (v : Val) : HR HistEq (s.push v) (s'.push v) := by
  unfold MState.push
  rw [h.valLen]
  split
  · exact .same _
  · exact .ok ⟨by simp [h.val], h.env, by simp, h.envLen, h.ops, h.guards, h.allocs⟩

theorem hist_pushEnv {s s' : MState} (h : HistEq s s') (v : Val) : HR HistEq (s.pushEnv v) (s'.pushEnv v) := by
  unfold MState.pushEnv
  rw [h.envLen]
  split
  · exact .same _
  · exact .ok ⟨h.val, by simp [h.env], h.valLen, by simp, h.ops, h.guards, h.allocs⟩

theorem hist_pushOp {s s' : MState} (h : HistEq s s') (o : Operation) : HistEq (s.pushOp o) (s'.pushOp o) :=
  ⟨h.val, h.env, h.valLen, h.envLen, by simp [MState.pushOp, h.ops], h.guards, h.allocs⟩

theorem hist_pushOperands (v : Val) {s s' : MState} (h : HistEq s s') :
    HR (fun r r' => r.1 = r'.1 ∧ HistEq r.2 r'.2) (pushOperands v s) (pushOperands v s') := by
  induction v generalizing s s' with
  | atom b t => exact .ok ⟨rfl, h⟩
  | pair f r _ ihr =>
    simp only [pushOperands]
    refine (hist_push (hist_pushOp h .SwapEval) f).bind ?_
    intro a a' ha
    exact ihr ha

theorem hist_evalOpAtom (d : Dialect) {s s' : MState} (h : HistEq s s') (o l env : Val) :
    HR HStepRel (evalOpAtom d s o l env) (evalOpAtom d s' o l env) := by
  unfold evalOpAtom
  split
  · refine (hist_push h l).bind ?_
    intro a a' ha; exact .ok ⟨rfl, ha⟩
  · have hs1 : HistEq
        (if d.gcCandidate o = true then
          ({ s with allocatorStack := s.allocatorStack + 1 }.pushOp .RestoreAllocator) else s)
        (if d.gcCandidate o = true then
          ({ s' with allocatorStack := s'.allocatorStack + 1 }.pushOp .RestoreAllocator) else s') := by
      split
      · exact hist_pushOp (s := { s with allocatorStack := s.allocatorStack + 1 })
          (s' := { s' with allocatorStack := s'.allocatorStack + 1 })
          ⟨h.val, h.env, h.valLen, h.envLen, h.ops, h.guards, by simp [h.allocs]⟩ _
      · exact h
    refine (hist_pushEnv hs1 env).bind ?_
    intro a a' ha
    refine (hist_push (hist_pushOp ha .Apply) o).bind ?_
    intro a1 a1' ha1
    refine (hist_pushOperands l ha1).bind ?_
    intro ⟨t, s2⟩ ⟨t', s2'⟩ ⟨ht, hs2⟩
    simp only at ht hs2 ⊢
    subst ht
    cases t with
    | pair _ _ => exact .same _
    | atom b _ =>
      simp only []
      split
      · exact .same _
      · refine (hist_push hs2 Val.nil).bind ?_
        intro a2 a2' ha2; exact .ok ⟨rfl, ha2⟩

theorem hist_evalPair (cfg : Cfg) (d : Dialect) {s s' : MState} (h : HistEq s s') (p env : Val) :
    HR HStepRel (evalPair cfg d s p env) (evalPair cfg d s' p env) := by
  cases p with
  | atom b t =>
    simp only [evalPair]
    refine (HR.liftE_eq _).bind ?_
    intro r r' hr
    subst hr
    refine (hist_push h r.2).bind ?_
    intro a a' ha
    exact .ok ⟨rfl, ha⟩
  | pair o l =>
    cases o with
    | atom b t => exact hist_evalOpAtom d h _ l env
    | pair no x =>
      simp only [evalPair]
      refine (HR.liftE_eq _).bind ?_
      intro inner inner' hin
      subst hin
      split
      · exact .same _
      · refine (hist_pushEnv h env).bind ?_
        intro a a' ha
        refine (hist_push ha no).bind ?_
        intro a1 a1' ha1
        refine (hist_push ha1 l).bind ?_
        intro a2 a2' ha2
        exact .ok ⟨rfl, hist_pushOp ha2 _⟩

theorem hist_swapEvalOp (cfg : Cfg) (d : Dialect) {s s' : MState} (h : HistEq s s') :
    HR HStepRel (swapEvalOp cfg d s) (swapEvalOp cfg d s') := by
  unfold swapEvalOp
  refine (hist_pop h).bind ?_
  intro ⟨v2, s1⟩ ⟨v2', s1'⟩ ⟨hv2, hs1⟩
  refine (hist_pop hs1).bind ?_
  intro ⟨p, s2⟩ ⟨p', s2'⟩ ⟨hp, hs2⟩
  simp only at hv2 hs1 hp hs2 ⊢
  subst hv2; subst hp
  rw [hs2.env]
  cases s2'.envStack with
  | nil => exact .same _
  | cons env _ =>
    simp only []
    refine (hist_push hs2 v2).bind ?_
    intro a a' ha
    exact hist_evalPair cfg d (hist_pushOp ha .Cons) p env

theorem hist_allocPair (c c' : Ctr) (l r : Val) :
    HR (fun x x' => x.1 = x'.1) (liftE (allocPair c l r)) (liftE (allocPair c' l r)) := by
  unfold allocPair
  cases h : c.newPair with
  | error e => exact .limL (newPair_limit h)
  | ok c1 =>
    cases h' : c'.newPair with
    | error e => exact .limR (newPair_limit h')
    | ok c1' => exact .ok rfl

theorem hist_consOp {s s' : MState} (h : HistEq s s') : HR HStepRel (consOp s) (consOp s') := by
  unfold consOp
  refine (hist_pop h).bind ?_
  intro ⟨v1, s1⟩ ⟨v1', s1'⟩ ⟨hv1, hs1⟩
  refine (hist_pop hs1).bind ?_
  intro ⟨v2, s2⟩ ⟨v2', s2'⟩ ⟨hv2, hs2⟩
  simp only at hv1 hs1 hv2 hs2 ⊢
  subst hv1; subst hv2
  refine (hist_allocPair s2.ctr s2'.ctr v1 v2).bind ?_
  intro ⟨p, c⟩ ⟨p', c'⟩ hp
  simp only at hp ⊢
  subst hp
  refine HR.bind (R := HistEq) (hist_push ?_ p) ?_
  · exact ⟨hs2.val, hs2.env, hs2.valLen, hs2.envLen, hs2.ops, hs2.guards, hs2.allocs⟩
  · intro a a' ha; exact .ok ⟨rfl, ha⟩

/-- outcomes of one operator call from two different counters -/
def OpCallHist : Option OpRes → Option OpRes → Prop
  | none, none => True
  | some r, some r' => CtrIndepRes r r'
  | _, _ => False

/-- what the simulation needs from a dialect -/
def DialectHist (d : Dialect) : Prop :=
  ∀ o args m ext c c', OpCallHist (d.op o args m ext c) (d.op o args m ext c')

theorem hist_effMax (mc : Nat) {s s' : MState} (h : HistEq s s') : effMax mc s = effMax mc s' := by
  unfold effMax
  have hg := h.guards
  generalize s.softforkStack = gs at hg ⊢
  generalize s'.softforkStack = gs' at hg ⊢
  cases hg with
  | nil => rfl
  | cons he _ _ => exact he

theorem hist_applyOpBody (cfg : Cfg) {d : Dialect} (hd : DialectHist d) {t t' : MState} (h : HistEq t t')
    (o ol : Val) (cc mc : Nat) :
    HR HStepRel (applyOpBody cfg d t o ol cc mc) (applyOpBody cfg d t' o ol cc mc) := by
  unfold applyOpBody
  simp only []
  have hg := h.guards
  generalize t.softforkStack = gs at hg ⊢
  generalize t'.softforkStack = gs' at hg ⊢
  split
  · refine (HR.liftE_eq _).bind ?_
    intro ⟨no, env⟩ ⟨no', env'⟩ he
    cases he
    refine (hist_evalPair cfg d h no env).bind ?_
    intro ⟨c, u⟩ ⟨c', u'⟩ ⟨hc, hu⟩
    simp only at hc hu ⊢
    subst hc
    exact .ok ⟨rfl, hu⟩
  · split
    · refine (HR.liftE_eq _).bind ?_
      intro f f' hf
      subst hf
      refine (HR.liftE_eq _).bind ?_
      intro ec ec' hec
      subst hec
      split
      · exact .same _
      · split
        · exact .same _
        · cases parseSoftforkArguments d ol with
          | error err =>
            simp only []
            split
            · refine (hist_push h Val.nil).bind ?_
              intro a a' ha; exact .ok ⟨rfl, ha⟩
            · exact .same _
          | ok q =>
            obtain ⟨ext, prg, env⟩ := q
            simp only []
            rw [hg.length_eq]
            split
            · exact .same _
            · have hgo : ∀ (x y : SoftforkGuard), x.expectedCost = y.expectedCost → x.operatorSet = y.operatorSet →
                  HR HStepRel
                    (do
                      let __x ← evalPair cfg d ({ t with softforkStack := x :: gs }.pushOp .ExitGuard) prg env
                      pure (__x.fst + if hasFlag d.flags Gen.FLAG_NEW_COST_MODEL = true then Gen.NEW_GUARD_COST
                        else Gen.GUARD_COST, __x.snd))
                    (do
                      let __x ← evalPair cfg d ({ t' with softforkStack := y :: gs' }.pushOp .ExitGuard) prg env
                      pure (__x.fst + if hasFlag d.flags Gen.FLAG_NEW_COST_MODEL = true then Gen.NEW_GUARD_COST
                        else Gen.GUARD_COST, __x.snd)) := by
                intro x y hxy hxy'
                refine (hist_evalPair cfg d (hist_pushOp ?_ _) prg env).bind ?_
                · exact ⟨h.val, h.env, h.valLen, h.envLen, h.ops, .cons hxy hxy' hg, h.allocs⟩
                · intro ⟨c, u⟩ ⟨c', u'⟩ ⟨hc, hu⟩
                  simp only at hc hu ⊢
                  subst hc
                  exact .ok ⟨rfl, hu⟩
              cases hg with
              | nil => exact hgo _ _ rfl rfl
              | cons he _ _ => exact hgo _ _ (by simp only [he]) rfl
    · have hcall : ∃ ext, OpCallHist
          (d.op o ol mc (match gs with | sf :: _ => sf.operatorSet | [] => OperatorSet.Default) t.ctr)
          (d.op o ol mc (match gs' with | sf :: _ => sf.operatorSet | [] => OperatorSet.Default) t'.ctr) ∧
          ext = (match gs' with | sf :: _ => sf.operatorSet | [] => OperatorSet.Default) := by
        cases hg with
        | nil => exact ⟨_, hd o ol mc _ t.ctr t'.ctr, rfl⟩
        | cons _ ho _ => exact ⟨_, by simp only [ho]; exact hd o ol mc _ t.ctr t'.ctr, rfl⟩
      obtain ⟨_, hcall, _⟩ := hcall
      revert hcall
      generalize d.op o ol mc _ t.ctr = r
      generalize d.op o ol mc _ t'.ctr = r'
      intro hcall
      match r, r', hcall with
      | none, none, _ => exact .same _
      | some (.error e), some (.error e'), hk =>
        rcases hk with rfl | hl | hl
        · exact .same _
        · exact .limL hl
        · exact .limR hl
      | some (.ok (k, v, c)), some (.ok (k', v', c')), ⟨hk, hv⟩ =>
        subst hk; subst hv
        simp only []
        refine HR.bind (R := HistEq) (hist_push ?_ v) ?_
        · exact ⟨h.val, h.env, h.valLen, h.envLen, h.ops, hg, h.allocs⟩
        · intro a a' ha; exact .ok ⟨rfl, ha⟩
      | some (.error _), some (.ok _), hf => exact .limL hf
      | some (.ok _), some (.error _), hf => exact .limR hf

theorem hist_applyOp (cfg : Cfg) {d : Dialect} (hd : DialectHist d) {s s' : MState} (h : HistEq s s')
    (cc mc : Nat) : HR HStepRel (applyOp cfg d s cc mc) (applyOp cfg d s' cc mc) := by
  rw [applyOp_eq_repr, applyOp_eq_repr]
  refine (hist_pop h).bind ?_
  intro ⟨ol, s1⟩ ⟨ol', s1'⟩ ⟨hol, hs1⟩
  refine (hist_pop hs1).bind ?_
  intro ⟨o, s2⟩ ⟨o', s2'⟩ ⟨ho, hs2⟩
  simp only at hol hs1 ho hs2 ⊢
  subst hol; subst ho
  have he := hs2.env
  generalize s2.envStack = es at he ⊢
  subst he
  cases s2'.envStack with
  | nil => exact .same _
  | cons x envs =>
    simp only []
    exact hist_applyOpBody cfg hd (t := { s2 with envStack := envs, envLen := s2.envLen - 1 })
      (t' := { s2' with envStack := envs, envLen := s2'.envLen - 1 })
      ⟨hs2.val, rfl, hs2.valLen, by simp [hs2.envLen], hs2.ops, hs2.guards, hs2.allocs⟩ _ _ _ _

theorem hist_exitGuard {s s' : MState} (h : HistEq s s') (cc : Nat) :
    HR HStepRel (exitGuard s cc) (exitGuard s' cc) := by
  unfold exitGuard
  have hg := h.guards
  generalize s.softforkStack = gs at hg ⊢
  generalize s'.softforkStack = gs' at hg ⊢
  cases hg with
  | nil => exact .same _
  | @cons g g' rest rest' he ho ht =>
    simp only [SoftforkGuard.costExempt, he, ho]
    by_cases hcnd : (!g'.operatorSet == OperatorSet.PreHardFork && cc != g'.expectedCost) = true
    · simp only [hcnd, if_true]; exact .same _
    · simp only [hcnd, if_false, Bool.false_eq_true]
      rw [h.val]
      cases s'.valStack with
      | nil => exact .same _
      | cons _ vs =>
        simp only []
        refine HR.bind (R := HistEq) (hist_push ?_ Val.nil) ?_
        · exact ⟨rfl, h.env, by simp [h.valLen], h.envLen, h.ops, ht, h.allocs⟩
        · intro a a' ha; exact .ok ⟨rfl, ha⟩

theorem hist_stepOp (cfg : Cfg) {d : Dialect} (hd : DialectHist d) {s s' : MState} (h : HistEq s s')
    (op : Operation) (cost em : Nat) :
    HR HStepRel (stepOp cfg d s op cost em) (stepOp cfg d s' op cost em) := by
  cases op with
  | Apply => exact hist_applyOp cfg hd h _ _
  | ExitGuard => exact hist_exitGuard h _
  | Cons => exact hist_consOp h
  | SwapEval => exact hist_swapEvalOp cfg d h
  | RestoreAllocator =>
    simp only [stepOp]
    rw [h.allocs, h.val]
    split
    · exact .same _
    · split
      · exact .same _
      · exact .ok ⟨rfl, ⟨rfl, h.env, h.valLen, h.envLen, h.ops, h.guards, rfl⟩⟩

def HLoopRel : Option (M (Nat × MState)) → Option (M (Nat × MState)) → Prop
  | some r, some r' => HR HStepRel r r'
  | none, none => True
  | _, _ => True

theorem hist_runLoop (cfg : Cfg) {d : Dialect} (hd : DialectHist d) (maxCost fuel : Nat) :
    ∀ {s s' : MState}, HistEq s s' → ∀ cost : Nat,
      HLoopRel (runLoop cfg d maxCost fuel s cost) (runLoop cfg d maxCost fuel s' cost) := by
  induction fuel with
  | zero => intro s s' _ cost; simp [runLoop_zero, HLoopRel]
  | succ n ih =>
    intro s s' h cost
    rw [runLoop_succ, runLoop_succ, hist_effMax maxCost h]
    unfold loopBody
    split
    · exact .same _
    · rw [h.ops]
      cases hops : s'.opStack with
      | nil => exact .ok ⟨rfl, h⟩
      | cons op ops =>
        simp only []
        have hst := hist_stepOp cfg hd (s := { s with opStack := ops }) (s' := { s' with opStack := ops })
          ⟨h.val, h.env, h.valLen, h.envLen, rfl, h.guards, h.allocs⟩ op cost (effMax maxCost s')
        revert hst
        generalize stepOp cfg d { s with opStack := ops } op cost (effMax maxCost s') = r
        generalize stepOp cfg d { s' with opStack := ops } op cost (effMax maxCost s') = r'
        intro hst
        cases hst with
        | ok hr =>
          rename_i a a'
          obtain ⟨c, t⟩ := a; obtain ⟨c', t'⟩ := a'
          obtain ⟨hc, ht⟩ := hr
          simp only at hc ht ⊢
          subst hc
          exact ih ht _
        | same e => exact .same _
        | limL hl =>
          cases r' with
          | error e => exact .limL hl
          | ok a =>
            simp only []
            cases runLoop cfg d maxCost n a.2 (cost + a.1) with
            | none => trivial
            | some x => exact .limL hl
        | limR hl =>
          cases r with
          | error e => exact .limR hl
          | ok a =>
            simp only []
            cases runLoop cfg d maxCost n a.2 (cost + a.1) with
            | none => trivial
            | some x => exact .limR hl

theorem CtrIndepRes.limL {e : Err} (h : e.isLimit = true) (y : OpRes) : CtrIndepRes (.error e) y := by
  cases y with
  | error e' => exact .inr (.inl h)
  | ok x => exact h

theorem CtrIndepRes.limR {e : Err} (h : e.isLimit = true) (x : OpRes) : CtrIndepRes x (.error e) := by
  cases x with
  | error e' => exact .inr (.inr h)
  | ok x => exact h

theorem addGhostAtom_limit {c : Ctr} {n : Nat} {e : Err} (h : c.addGhostAtom n = .error e) : e.isLimit = true := by
  unfold Ctr.addGhostAtom at h
  split at h <;> cases h
  rfl

/-- **C03, heap history (machine level)**: two runs of the same program from different allocator
counters give the same answer — same cost and the same value, or the same error — unless one of
them stops at an allocator limit (`OutOfMemory`, `TooManyAtoms`, `TooManyPairs`). -/
theorem run_history (cfg : Cfg) {d : Dialect} (hd : DialectHist d) (fuel : Nat) (c0 c0' : Ctr)
    (program env : Val) (maxCost : Nat) {r r' : OpRes}
    (hr : runProgram cfg d fuel c0 program env maxCost = some r)
    (hr' : runProgram cfg d fuel c0' program env maxCost = some r') :
    CtrIndepRes r r' := by
  unfold runProgram at hr hr'
  simp only [] at hr hr'
  cases hg : c0.addGhostAtom 1 with
  | error e =>
    rw [hg] at hr; cases hr
    exact .limL (addGhostAtom_limit hg) _
  | ok c =>
  cases hg' : c0'.addGhostAtom 1 with
  | error e =>
    rw [hg'] at hr'; cases hr'
    exact .limR (addGhostAtom_limit hg') _
  | ok c' =>
    rw [hg] at hr
    rw [hg'] at hr'
    simp only [] at hr hr'
    have h0 : HistEq ({ ctr := c } : MState) ({ ctr := c' } : MState) :=
      ⟨rfl, rfl, rfl, rfl, rfl, .nil, rfl⟩
    have hev := hist_evalPair cfg d h0 program env
    revert hev hr hr'
    generalize evalPair cfg d { ctr := c } program env = x
    generalize evalPair cfg d { ctr := c' } program env = x'
    intro hr hr' hev
    cases hev with
    | same e =>
      cases e with
      | err e0 => cases hr; cases hr'; exact .inl rfl
      | unsupported => cases hr
    | limL hl => cases hr; exact .limL hl _
    | limR hl => cases hr'; exact .limR hl _
    | ok hst =>
      rename_i a a'
      obtain ⟨k, s⟩ := a; obtain ⟨k', s'⟩ := a'
      obtain ⟨hk, hs⟩ := hst
      simp only at hk hs hr hr'
      subst hk
      have hl := hist_runLoop cfg hd (if maxCost == 0 then U64_MAX else maxCost) fuel hs k
      revert hl hr hr'
      generalize runLoop cfg d _ fuel s k = y
      generalize runLoop cfg d _ fuel s' k = y'
      intro hr hr' hl
      match y, y', hl with
      | none, _, _ => cases hr
      | some _, none, _ => cases hr'
      | some _, some _, .same e =>
        cases e with
        | err e0 => cases hr; cases hr'; exact .inl rfl
        | unsupported => cases hr
      | some _, some _, .limL hl => cases hr; exact .limL hl _
      | some _, some _, .limR hl => cases hr'; exact .limR hl _
      | some _, some _, .ok hst =>
        rename_i a a'
        obtain ⟨k1, s1⟩ := a; obtain ⟨k1', s1'⟩ := a'
        obtain ⟨hk1, hs1⟩ := hst
        simp only at hk1 hs1 hr hr'
        subst hk1
        have hpop := hist_pop hs1
        revert hpop hr hr'
        generalize s1.pop = z
        generalize s1'.pop = z'
        intro hr hr' hpop
        cases hpop with
        | same e =>
          cases e with
          | err e0 => cases hr; cases hr'; exact .inl rfl
          | unsupported => cases hr
        | limL hl => cases hr; exact .limL hl _
        | limR hl => cases hr'; exact .limR hl _
        | ok hv =>
          rename_i a a'
          obtain ⟨v, s2⟩ := a; obtain ⟨v', s2'⟩ := a'
          obtain ⟨hv, hs2⟩ := hv
          simp only at hv hs2 hr hr'
          cases hr; cases hr'
          exact ⟨rfl, hv⟩

/-! ### `ChiaDialect` -/

theorem chiaDialect_hist (cfg : Cfg) (extra : String → Option OpFn) (F : Flags)
    (hextra : ∀ name f, extra name = some f → OpCtrIndep f) : DialectHist (chiaDialect cfg extra F) := by
  intro o args m ext c c'
  show OpCallHist (chiaOp cfg extra (chiaDialect cfg extra F).flags o args m ext c)
    (chiaOp cfg extra (chiaDialect cfg extra F).flags o args m ext c')
  generalize (chiaDialect cfg extra F).flags = dflags
  have call : ∀ (flags : Flags) (name : String),
      OpCallHist
        (match coreOpByName cfg name with
          | some f => some (f flags m args c)
          | none => match extra name with
            | some f => some (f flags m args c)
            | none => none)
        (match coreOpByName cfg name with
          | some f => some (f flags m args c')
          | none => match extra name with
            | some f => some (f flags m args c')
            | none => none) := by
    intro flags name
    cases hc : coreOpByName cfg name with
    | some f => exact coreOps_ctr cfg name f hc flags m args c c'
    | none =>
      simp only []
      cases he : extra name with
      | some f => exact hextra name f he flags m args c c'
      | none => trivial
  have unk : ∀ (ob : Bytes) (flags : Flags),
      OpCallHist (some (unknownOperator ob args flags m c)) (some (unknownOperator ob args flags m c')) := by
    intro ob flags
    unfold unknownOperator
    split
    · exact .inl rfl
    · exact opUnknown_ctr ob flags m args c c'
  unfold chiaOp
  simp only []
  generalize (dflags ||| match ext with
    | .Default => 0 | .Bls => 0 | .Keccak => Gen.FLAG_ENABLE_KECCAK_OPS_OUTSIDE_GUARD
    | .PreHardFork => Gen.FLAG_ENABLE_KECCAK_OPS_OUTSIDE_GUARD) = flags
  cases o with
  | pair _ _ => exact .inl rfl
  | atom ob t =>
    simp only []
    split
    · cases List.find? (fun e => e.1 == beNat ob) Gen.chiaOp4Table with
      | none => exact unk ob _
      | some e => exact call _ e.2
    · split
      · exact unk ob _
      · cases smallNumber (Val.atom ob t) with
        | none => exact unk ob _
        | some op =>
          simp only []
          cases lookupOp Gen.chiaOpTable op with
          | none => exact unk ob _
          | some e =>
            obtain ⟨name, req⟩ := e
            simp only []
            split
            · exact unk ob _
            · split
              · exact .inl rfl
              · exact call _ name

/-- **C03, heap history for `ChiaDialect` with every operator and every flag set**: the outcome of a
run does not depend on the counters of the allocator it starts from, up to allocator-limit errors. -/
theorem chia_run_history (cfg : Cfg) (F : Flags) (fuel : Nat) (c0 c0' : Ctr) (program env : Val) (maxCost : Nat)
    (r r' : OpRes)
    (hr : runProgram cfg (chiaDialect cfg cryptoExtra F) fuel c0 program env maxCost = some r)
    (hr' : runProgram cfg (chiaDialect cfg cryptoExtra F) fuel c0' program env maxCost = some r') :
    CtrIndepRes r r' :=
  run_history cfg (chiaDialect_hist cfg cryptoExtra F cryptoExtra_ctr) fuel c0 c0' program env maxCost hr hr'

/-- read-out: if neither run stops at an allocator limit, cost and value (or the error) are equal -/
theorem CtrIndepRes.no_limit {r r' : OpRes} (h : CtrIndepRes r r')
    (hl : ∀ e, r = .error e → e.isLimit = false) (hl' : ∀ e, r' = .error e → e.isLimit = false) :
    (∃ k v c c', r = .ok (k, v, c) ∧ r' = .ok (k, v, c')) ∨ (∃ e, r = .error e ∧ r' = .error e) := by
  cases r with
  | error e =>
    cases r' with
    | error e' =>
      rcases h with rfl | h | h
      · exact .inr ⟨_, rfl, rfl⟩
      · rw [hl e rfl] at h; cases h
      · rw [hl' e' rfl] at h; cases h
    | ok x => have : e.isLimit = true := h; rw [hl e rfl] at this; cases this
  | ok x =>
    cases r' with
    | error e' => have : e'.isLimit = true := h; rw [hl' e' rfl] at this; cases this
    | ok x' =>
      obtain ⟨k, v, c⟩ := x; obtain ⟨k', v', c'⟩ := x'
      obtain ⟨h1, h2⟩ := h
      subst h1; subst h2
      exact .inl ⟨_, _, _, _, rfl, rfl⟩

-- the hypotheses of `chia_run_history` are satisfiable: a fresh allocator and one with a past
example : (runProgram {} (chiaDialect {} cryptoExtra 0) 10 (Ctr.new 1000) (concatProg true) Val.nil 0).isSome = true := by
  rfl
example : (runProgram {} (chiaDialect {} cryptoExtra 0) 10
    { atoms := 57, pairs := 23, heap := 400, heapLimit := 1000 } (concatProg true) Val.nil 0).isSome = true := by rfl
-- … and a limit error in one of the runs is possible (2 bytes needed, 1 left)
example : runProgram {} (chiaDialect {} cryptoExtra 0) 10
    { atoms := 57, pairs := 23, heap := 999, heapLimit := 1000 } (concatProg true) Val.nil 0 =
    some (.error .OutOfMemory) := by rfl

end Clvm.Interp
