/-
C11, whole programs, full statement: the value and the counters a program returns do not depend on
the cost model — also when the program enters softfork guards in which the two models install
different operator sets (extension 0: `Bls` vs `PreHardFork`, so that opcode 62 is an unknown operator
in one run and keccak256 in the other) and charge differently.

The lock-step induction of `LiftModel.lean` is kept *outside* guards only.  A guard is a black box
(`guard_program_complete`, from the frame theorem `runTo_bracket`): in each of the two successful runs
the outermost guard completed, and a completed guard leaves the state it was entered in with the
operands popped, nil pushed and the atom / pair / heap counts restored — whatever happened inside,
whatever it cost.  Nested guards are inside the black box.  The heap limit is constant along a run
(`runTo_limit`), which needs that operators keep it (`OpWf`, on well-formed operands).
-/
import ClvmProofs.Lemmas.Interp.HideSim
import ClvmProofs.Lemmas.Interp.LiftModel

namespace Clvm.Interp
open Clvm Clvm.Alloc

/-- what the lock-step outside guards needs: same keywords and argument parsing (the extension may map
to different operator sets, the guarded program and environment are the same), and two successful
operator calls *outside guards* return the same value and counters -/
structure DialectModelRel0 (d1 d2 : Dialect) : Prop where
  quoteKw : d1.quoteKw = d2.quoteKw
  applyKw : d1.applyKw = d2.applyKw
  softforkKw : d1.softforkKw = d2.softforkKw
  gcCandidate : d1.gcCandidate = d2.gcCandidate
  uint : ∀ (v : Val), uintAtom 8 v "softfork" d1.flags = uintAtom 8 v "softfork" d2.flags
  parse : ∀ (ol : Val),
    match parseSoftforkArguments d1 ol, parseSoftforkArguments d2 ol with
    | .error _, .error _ => True
    | .ok (_, p1, v1), .ok (_, p2, v2) => p1 = p2 ∧ v1 = v2
    | _, _ => False
  op : ∀ (o args : Val) (m m' : Nat) (c : Ctr) (r r' : Nat × Val × Ctr),
    d1.op o args m .Default c = some (.ok r) → d2.op o args m' .Default c = some (.ok r') → r.2 = r'.2

/-- the state a completed guard leaves: operand list, operator and environment popped, nil pushed,
counters as at entry -/
def afterGuard (s0 : MState) (W E : List Val) : MState :=
  { popped3 s0 W E with valStack := Val.nil :: W, valLen := s0.valLen - 1 - 1 + 1 }

/-- **a guard entered in a successful run is a black box** -/
theorem guard_blackbox {cfg : Cfg} {d : Dialect} {mc : Nat} (hk : KeepLimit d) (hw : d.OpWf)
    {s0 s1 : MState} {ol o : Val} {W : List Val} {e0 : Val} {E : List Val} {cost m c : Nat}
    {ext : OperatorSet} {prg env : Val} {fuel : Nat} {r : Nat × MState}
    (hs0 : s0.WF) (hv : s0.valStack = ol :: o :: W) (he : s0.envStack = e0 :: E)
    (hna : smallNumber o ≠ some d.applyKw) (hsk : smallNumber o = some d.softforkKw)
    (hparse : parseSoftforkArguments d ol = .ok (ext, prg, env))
    (hstep : applyOp cfg d s0 cost m = .ok (c, s1)) (hctr : s1.ctr = s0.ctr)
    (hrun : runLoop cfg d mc fuel s1 (cost + c) = some (.ok r)) :
    ∃ cost' fuel', fuel' ≤ fuel ∧ runLoop cfg d mc fuel' (afterGuard s0 W E) cost' = some (.ok r) := by
  have hs1 : s1.WF := applyOp_wf hw hs0 hstep
  obtain ⟨cost', s', fuel', hto, hrest, hle, _⟩ := runTo_of_runLoop_ok (L := s0.opStack.length) hrun
  obtain ⟨f', dcl, _, _, hs'e, hat, hpa, hhe, _, _⟩ := guard_program_complete hv he hna hsk hparse hstep hto
  have hlim := (runTo_limit hk hw mc _ fuel s1 (cost + c) cost' s' fuel' hs1 hto).1
  rw [hctr] at hlim
  have hc' : s'.ctr = s0.ctr := by
    cases hcs : s'.ctr
    cases hc0 : s0.ctr
    rw [hcs, hc0] at hat hpa hhe hlim
    simp only at hat hpa hhe hlim
    subst hat hpa hhe hlim
    rfl
  have : s' = afterGuard s0 W E := by
    rw [hs'e, hc']
    rfl
  rw [this] at hrest
  exact ⟨cost', fuel', hle, hrest⟩

/-- **two successful loops from the same state outside any guard end in the same state** — budgets,
costs and fuel may differ; guards are black boxes -/
theorem runLoop_model0 {cfg : Cfg} {d1 d2 : Dialect} (hd : DialectModelRel0 d1 d2)
    (hk1 : KeepLimit d1) (hw1 : d1.OpWf) (hk2 : KeepLimit d2) (hw2 : d2.OpWf) (mc1 mc2 : Nat) (fuel1 : Nat) :
    ∀ (fuel2 : Nat) (s : MState) (cost1 cost2 : Nat) (r1 r2 : Nat × MState), s.WF → s.softforkStack = [] →
      runLoop cfg d1 mc1 fuel1 s cost1 = some (.ok r1) →
      runLoop cfg d2 mc2 fuel2 s cost2 = some (.ok r2) → r1.2 = r2.2 := by
  induction fuel1 using Nat.strongRecOn with
  | ind fuel1 ih =>
    intro fuel2 s cost1 cost2 r1 r2 hs hsf h1 h2
    cases fuel1 with
    | zero => simp [runLoop_zero] at h1
    | succ n =>
    cases fuel2 with
    | zero => simp [runLoop_zero] at h2
    | succ n2 =>
      rw [runLoop_succ] at h1 h2
      unfold loopBody at h1 h2
      by_cases hc1 : cost1 > effMax mc1 s
      · simp [hc1] at h1
      by_cases hc2 : cost2 > effMax mc2 s
      · simp [hc2] at h2
      simp only [hc1, if_false] at h1
      simp only [hc2, if_false] at h2
      cases hop : s.opStack with
      | nil =>
        rw [hop] at h1 h2
        simp only [Option.some.injEq, Except.ok.injEq] at h1 h2
        rw [← h1, ← h2]
      | cons op ops =>
        rw [hop] at h1 h2
        simp only at h1 h2
        cases hst1 : stepOp cfg d1 { s with opStack := ops } op cost1 (effMax mc1 s) with
        | error e => rw [hst1] at h1; simp at h1
        | ok q1 =>
        cases hst2 : stepOp cfg d2 { s with opStack := ops } op cost2 (effMax mc2 s) with
        | error e => rw [hst2] at h2; simp at h2
        | ok q2 =>
          obtain ⟨c1, t1⟩ := q1
          obtain ⟨c2, t2⟩ := q2
          rw [hst1] at h1
          rw [hst2] at h2
          simp only at h1 h2
          have hs0 : MState.WF { s with opStack := ops } := hs.setOps ops
          have hsf0 : ({ s with opStack := ops } : MState).softforkStack = [] := hsf
          -- the common ending: both machines are in the same state again
          have same : t1 = t2 → t1.softforkStack = [] → r1.2 = r2.2 := by
            intro ht hsft
            subst ht
            exact ih n (Nat.lt_succ_self n) n2 t1 _ _ r1 r2 (stepOp_wf hw1 hs0 hst1) hsft h1 h2
          cases op with
          | Cons =>
            simp only [stepOp] at hst1 hst2
            rw [hst1] at hst2
            simp only [Except.ok.injEq, Prod.mk.injEq] at hst2
            exact same hst2.2 ((stepOp_sf (d := d1) (cfg := cfg) (op := .Cons) (cost := cost1) (em := 0)
              (Or.inl rfl) hst1).trans hsf0)
          | RestoreAllocator =>
            have e := stepOp_sf (Or.inr (Or.inr rfl)) hst1
            simp only [stepOp] at hst1 hst2
            rw [hst1] at hst2
            simp only [Except.ok.injEq, Prod.mk.injEq] at hst2
            exact same hst2.2 (e.trans hsf0)
          | SwapEval =>
            have e := stepOp_sf (Or.inr (Or.inl rfl)) hst1
            simp only [stepOp] at hst1 hst2
            rw [← swapEvalOp_kw hd.quoteKw hd.gcCandidate, hst1] at hst2
            simp only [Except.ok.injEq, Prod.mk.injEq] at hst2
            exact same hst2.2 (e.trans hsf0)
          | ExitGuard =>
            simp only [stepOp] at hst1
            unfold exitGuard at hst1
            rw [hsf0] at hst1
            cases hst1
          | Apply =>
            simp only [stepOp] at hst1 hst2
            obtain ⟨ol, o, W, e0, E, hv, he, sh1⟩ := applyOp_inv hst1
            obtain ⟨ol', o', W', e0', E', hv', he', sh2⟩ := applyOp_inv hst2
            rw [hv] at hv'
            rw [he] at he'
            simp only [List.cons.injEq] at hv' he'
            obtain ⟨rfl, rfl, rfl⟩ := hv'
            obtain ⟨rfl, rfl⟩ := he'
            cases sh1 with
            | apply p e k ha hg hev hcc =>
              cases sh2 with
              | apply p' e' k' ha' hg' hev' hcc' =>
                rw [hg] at hg'
                simp only [Except.ok.injEq, Prod.mk.injEq] at hg'
                obtain ⟨rfl, rfl⟩ := hg'
                rw [← evalPair_kw hd.quoteKw hd.gcCandidate, hev] at hev'
                simp only [Except.ok.injEq, Prod.mk.injEq] at hev'
                exact same hev'.2 ((evalPair_ctr hev).2.trans hsf0)
              | sfUnknown f' d' err' ha' _ _ _ _ _ _ _ _ _ => exact absurd (hd.applyKw ▸ ha) ha'
              | sfGuard f' d' ext' prg' env' ha' _ _ _ _ _ _ _ _ _ => exact absurd (hd.applyKw ▸ ha) ha'
              | op oc' v' c'' ha' _ _ _ _ => exact absurd (hd.applyKw ▸ ha) ha'
            | sfUnknown f dcl err ha hsk hf hu hd1 hd2 hp hal hpush hcc =>
              cases sh2 with
              | apply p' e' k' ha' _ _ _ => exact absurd (hd.applyKw ▸ ha') ha
              | sfUnknown f' dcl' err' ha' hsk' hf' hu' hd1' hd2' hp' hal' hpush' hcc' =>
                rw [hpush] at hpush'
                simp only [Except.ok.injEq] at hpush'
                obtain ⟨_, hte⟩ := bs_push_ok_iff.1 hpush
                exact same hpush' (by rw [hte]; exact hsf0)
              | sfGuard f' dcl' ext' prg' env' ha' hsk' hf' hu' hd1' hd2' hp' g' k' hev' =>
                have := hd.parse ol
                rw [hp, hp'] at this
                exact this.elim
              | op oc' v' c'' ha' hsk' _ _ _ => exact absurd (hd.softforkKw ▸ hsk) hsk'
            | sfGuard f dcl ext prg env ha hsk hf hu hd1 hd2 hp g k hev =>
              cases sh2 with
              | apply p' e' k' ha' _ _ _ => exact absurd (hd.applyKw ▸ ha') ha
              | sfUnknown f' dcl' err' ha' hsk' hf' hu' hd1' hd2' hp' hal' hpush' hcc' =>
                have := hd.parse ol
                rw [hp, hp'] at this
                exact this.elim
              | sfGuard f' dcl' ext' prg' env' ha' hsk' hf' hu' hd1' hd2' hp' g' k' hev' =>
                -- both runs enter a guard: black boxes
                obtain ⟨cost1', fuel1', hle1, hrest1⟩ := guard_blackbox hk1 hw1 hs0 hv he ha hsk hp hst1
                  (evalPair_ctr hev).1 h1
                obtain ⟨cost2', fuel2', _, hrest2⟩ := guard_blackbox hk2 hw2 hs0 hv he ha' hsk' hp' hst2
                  (evalPair_ctr hev').1 h2
                have hwf : (afterGuard { s with opStack := ops } W E).WF := by
                  have h1' := hs0.1
                  rw [hv] at h1'
                  have h2' := hs0.2
                  rw [he] at h2'
                  refine ⟨fun x hx => ?_, fun x hx => ?_⟩
                  · simp only [afterGuard, popped3, List.mem_cons] at hx
                    rcases hx with rfl | hx
                    · exact wf_nil
                    · exact h1' x (by simp [hx])
                  · simp only [afterGuard, popped3] at hx
                    exact h2' x (by simp [hx])
                exact ih fuel1' (by omega) fuel2' _ cost1' cost2' r1 r2 hwf hsf0 hrest1 hrest2
              | op oc' v' c'' ha' hsk' _ _ _ => exact absurd (hd.softforkKw ▸ hsk) hsk'
            | op oc v c' ha hsk hop1 hpush hcc =>
              cases sh2 with
              | apply p' e' k' ha' _ _ _ => exact absurd (hd.applyKw ▸ ha') ha
              | sfUnknown f' dcl' err' ha' hsk' _ _ _ _ _ _ _ _ => exact absurd (hd.softforkKw ▸ hsk') hsk
              | sfGuard f' dcl' ext' prg' env' ha' hsk' _ _ _ _ _ _ _ _ => exact absurd (hd.softforkKw ▸ hsk') hsk
              | op oc' v' c'' ha' hsk' hop2 hpush' hcc' =>
                rw [hsf0] at hop1 hop2
                have := hd.op o ol _ _ _ _ _ hop1 hop2
                simp only [Prod.mk.injEq] at this
                obtain ⟨rfl, rfl⟩ := this
                rw [hpush] at hpush'
                simp only [Except.ok.injEq] at hpush'
                obtain ⟨_, hte⟩ := bs_push_ok_iff.1 hpush
                exact same hpush' (by rw [hte]; exact hsf0)

/-- **lifting**: two successful runs of the same well-formed program under cost-model-related dialects
return the same value and leave the same allocator counters; budgets and fuel may differ -/
theorem runProgram_model0 {cfg : Cfg} {d1 d2 : Dialect} (hd : DialectModelRel0 d1 d2)
    (hk1 : KeepLimit d1) (hw1 : d1.OpWf) (hk2 : KeepLimit d2) (hw2 : d2.OpWf)
    {fuel1 fuel2 : Nat} {c0 : Ctr} {p e : Val} {M1 M2 : Nat} (hp : p.wf = true) (he : e.wf = true)
    {r1 r2 : Nat × Val × Ctr} (h1 : runProgram cfg d1 fuel1 c0 p e M1 = some (.ok r1))
    (h2 : runProgram cfg d2 fuel2 c0 p e M2 = some (.ok r2)) : r1.2 = r2.2 := by
  obtain ⟨C1, v1, k1⟩ := r1
  obtain ⟨C2, v2, k2⟩ := r2
  obtain ⟨a1, cost1, s1, sF1, vs1, ha1, hev1, hl1, hv1, hk1'⟩ := runProgram_ok_iff.1 h1
  obtain ⟨a2, cost2, s2, sF2, vs2, ha2, hev2, hl2, hv2, hk2'⟩ := runProgram_ok_iff.1 h2
  rw [ha1] at ha2; cases ha2
  rw [← evalPair_kw hd.quoteKw hd.gcCandidate, hev1] at hev2; cases hev2
  have hs0 : MState.WF { ctr := a1 } := ⟨fun _ hx => by simp at hx, fun _ hx => by simp at hx⟩
  have hs : s1.WF := evalPair_wf hs0 hp he hev1
  have hsf : s1.softforkStack = [] := (evalPair_ctr hev1).2
  have := runLoop_model0 hd hk1 hw1 hk2 hw2 _ _ fuel1 fuel2 s1 _ _ (C1, sF1) (C2, sF2) hs hsf hl1 hl2
  simp only at this
  subst this
  rw [hv1] at hv2
  rw [hk1'] at hk2'
  cases hv2; cases hk2'
  rfl

/-! ### the instance for `ChiaDialect::new` -/

/-- `ChiaDialect::new(F)` against `ChiaDialect::new(F ∪ NEW_COST_MODEL)`, any `F` without NEW_COST_MODEL:
outside guards the two dialects enable the same operators (`OperatorSet::Default` adds no flag) -/
theorem chiaDialect_modelRel0 (cfg : Cfg) (extra : String → Option OpFn)
    (hmi : ∀ name f, extra name = some f → OpModelIndep f)
    (hre : ∀ name f, extra name = some f → OpRestrict f)
    (F : Nat) (hF : hasFlag F Gen.FLAG_NEW_COST_MODEL = false) :
    DialectModelRel0 (chiaDialect cfg extra F) (chiaDialect cfg extra (F ||| Gen.FLAG_NEW_COST_MODEL)) := by
  have hb : ∀ k, k ≠ 6 → Gen.FLAG_NEW_COST_MODEL &&& 2 ^ k = 0 →
      hasFlag (normFlags F) (2 ^ k) = hasFlag (normFlags (F ||| Gen.FLAG_NEW_COST_MODEL)) (2 ^ k) := by
    intro k hk hd
    rw [hasFlag_normFlags _ _ hk, hasFlag_normFlags _ _ hk, hasFlag_or_newModel _ _ hd]
  have hcanon : hasFlag (normFlags F) Gen.FLAG_CANONICAL_INTS =
      hasFlag (normFlags (F ||| Gen.FLAG_NEW_COST_MODEL)) Gen.FLAG_CANONICAL_INTS := hb 0 (by decide) (by decide)
  refine
    { quoteKw := rfl, applyKw := rfl, softforkKw := rfl
      gcCandidate := gcCandidate_chia_eq (hb 5 (by decide) (by decide))
      uint := fun v => uintAtom_flags 8 v "softfork" _ _ hcanon
      parse := ?_
      op := ?_ }
  · intro ol
    unfold parseSoftforkArguments
    cases getArgs4 ol "softfork" with
    | error e => trivial
    | ok q =>
      obtain ⟨a1, a2, a3, a4⟩ := q
      simp only [chiaDialect_flags]
      rw [← uintAtom_flags 4 a2 "softfork" _ _ hcanon]
      cases uintAtom 4 a2 "softfork" (normFlags F) with
      | error e => trivial
      | ok n =>
        simp only
        have h1 : (chiaDialect cfg extra F).softforkExtension n =
            (if n == 0 then .Bls else if n == 1 then .Keccak else .Default) := by
          show (if hasFlag (normFlags F) Gen.FLAG_NEW_COST_MODEL = true then _ else _) = _
          rw [(nf_flag F).2.2.2.2.1, hF]; rfl
        have h2 : (chiaDialect cfg extra (F ||| Gen.FLAG_NEW_COST_MODEL)).softforkExtension n =
            (if n == 0 || n == 1 then .PreHardFork else .Default) := by
          show (if hasFlag (normFlags (F ||| Gen.FLAG_NEW_COST_MODEL)) Gen.FLAG_NEW_COST_MODEL = true then _ else _) = _
          rw [(nf_flag _).2.2.2.2.1]
          have : hasFlag (F ||| Gen.FLAG_NEW_COST_MODEL) Gen.FLAG_NEW_COST_MODEL = true := newModel_or_newModel F
          rw [this]; rfl
        rw [h1, h2]
        by_cases hn0 : (n == 0) = true
        · simp [hn0]
        · by_cases hn1 : (n == 1) = true
          · simp [hn0, hn1]
          · simp [hn0, hn1]
  · intro o args m m' c r r' h h'
    have h0 : chiaOp cfg extra (normFlags F) o args m .Default c = some (.ok r) := h
    have h0' : chiaOp cfg extra (normFlags (F ||| Gen.FLAG_NEW_COST_MODEL)) o args m' .Default c = some (.ok r') := h'
    rw [normFlags_old F hF] at h0
    rw [normFlags_new F hF] at h0'
    have hclr : hasFlag (clrLimits F) Gen.FLAG_NEW_COST_MODEL = false := by
      have h13 : Gen.FLAG_NEW_COST_MODEL = 2 ^ 13 := by decide
      rw [h13, hasFlag_pow, testBit_clrLimits, ← hasFlag_pow, ← h13, hF]; rfl
    have h0r : chiaOp cfg extra (clrLimits F) o args m .Default c = some (.ok r) := by
      rw [← clr_or_limitsPart F] at h0
      exact chiaOp_restrict cfg extra hre (clrLimits F) (limitsPart F) (limitsPart_restr F) o args m .Default c r h0
    exact chiaOp_modelIndep cfg extra hmi (clrLimits F) hclr o args m m' c r r' h0r h0'

/-- **C11, whole programs, full statement.**  For `ChiaDialect::new`, every flag set `F` without
NEW_COST_MODEL — with or without ENABLE_KECCAK_OPS_OUTSIDE_GUARD, LIMITS, LIMIT_SOFTFORK, ENABLE_GC, … —
every well-formed program and environment, budgets and fuels: a program that succeeds under `F` and
under `F ∪ NEW_COST_MODEL` returns the same value and leaves the same allocator counters.
Guards (where the two models install different operator sets and charge differently, and where the
new model's extensions 0/1 are cost-exempt) are black boxes. -/
theorem eval_value_model (cfg : Cfg) (extra : String → Option OpFn)
    (hmi : ∀ name f, extra name = some f → OpModelIndep f)
    (hre : ∀ name f, extra name = some f → OpRestrict f)
    (hwf : ∀ name f, extra name = some f → OpWf f)
    (F : Nat) (hF : hasFlag F Gen.FLAG_NEW_COST_MODEL = false)
    {fuel1 fuel2 : Nat} {c0 : Ctr} {p e : Val} {M1 M2 : Nat} (hp : p.wf = true) (he : e.wf = true)
    {r1 r2 : Nat × Val × Ctr}
    (h1 : runProgram cfg (chiaDialect cfg extra F) fuel1 c0 p e M1 = some (.ok r1))
    (h2 : runProgram cfg (chiaDialect cfg extra (F ||| Gen.FLAG_NEW_COST_MODEL)) fuel2 c0 p e M2 = some (.ok r2)) :
    r1.2 = r2.2 := by
  obtain ⟨hw1, hk1⟩ := aware_opWf_keepLimit cfg extra F hwf
  obtain ⟨hw2, hk2⟩ := aware_opWf_keepLimit cfg extra (F ||| Gen.FLAG_NEW_COST_MODEL) hwf
  exact runProgram_model0 (chiaDialect_modelRel0 cfg extra hmi hre F hF) hk1 hw1 hk2 hw2 hp he h1 h2

end Clvm.Interp
