/-
Lemmas for C09: the per-argument loops of `opUnknown` (model of `op_unknown`, src/more_ops.rs)
against `Spec.Unknown.walk` / the closed base formulas of `ClvmModel/Spec/Unknown.lean`.
-/
import ClvmModel.Interp.Machine
import ClvmModel.Spec.Unknown

namespace Clvm.Interp
open Clvm Clvm.Alloc Clvm.Spec Clvm.Spec.Unknown

/-- size description of an argument: `some len` for an atom, `none` for a pair -/
def sizeOf : Val → Option Nat
  | .atom b _ => some b.length
  | .pair _ _ => none

def sizesOf (l : List Val) : List (Option Nat) := l.map sizeOf

/-- total number of bytes of the atoms in a list -/
def totalLen : List Val → Nat
  | [] => 0
  | .atom b _ :: r => b.length + totalLen r
  | .pair _ _ :: r => totalLen r

def maxL (m : Nat) (l : List Nat) : Nat := l.foldl max m

/-! ### snoc lemmas for the closed formulas -/

theorem sum_snoc (l : List Nat) (s : Nat) : Unknown.sum (l ++ [s]) = Unknown.sum l + s := by
  induction l with
  | nil => simp [Unknown.sum]
  | cons a t ih => simp only [Unknown.sum, List.cons_append, List.foldr_cons] at ih ⊢; omega

theorem sum_cons (a : Nat) (l : List Nat) : Unknown.sum (a :: l) = a + Unknown.sum l := rfl

theorem sum_append (l r : List Nat) : Unknown.sum (l ++ r) = Unknown.sum l + Unknown.sum r := by
  induction l with
  | nil => simp [Unknown.sum]
  | cons a t ih => simp only [List.cons_append, sum_cons, ih]; omega

theorem maxL_snoc (m : Nat) (l : List Nat) (s : Nat) : maxL m (l ++ [s]) = max (maxL m l) s := by
  simp [maxL, List.foldl_append]

theorem runMaxSum_snoc (m : Nat) (l : List Nat) (s : Nat) :
    runMaxSum m (l ++ [s]) = runMaxSum m l + max (maxL m l) s := by
  induction l generalizing m with
  | nil => simp [runMaxSum, maxL]
  | cons a t ih =>
    simp only [List.cons_append, runMaxSum, ih, maxL, List.foldl_cons]
    omega

theorem mulSteps_snoc (D L : Nat) (r : List Nat) (s : Nat) :
    mulSteps D L (r ++ [s]) =
      mulSteps D L r + (885 + 6 * (L + Unknown.sum r + s) + ((L + Unknown.sum r) * s) / D) := by
  induction r generalizing L with
  | nil => simp [mulSteps, Unknown.sum]
  | cons a t ih =>
    simp only [List.cons_append, mulSteps, ih, sum_cons]
    have : L + a + Unknown.sum t = L + (a + Unknown.sum t) := by omega
    rw [this]; omega

theorem concatBase_snoc (seen : List Nat) (s : Nat) :
    concatBase (seen ++ [s]) = concatBase seen + 135 + 3 * s := by
  simp only [concatBase, sum_snoc, List.length_append, List.length_singleton]; omega

theorem addBase_old_snoc (seen : List Nat) (s : Nat) :
    addBase false (seen ++ [s]) = addBase false seen + 320 + 3 * s := by
  simp only [addBase, sum_snoc, List.length_append, List.length_singleton]
  simp; omega

theorem addBase_new_snoc (seen : List Nat) (s : Nat) :
    addBase true (seen ++ [s]) = addBase true seen + 500 + 4 * max (maxL 0 seen) s := by
  simp only [addBase, runMaxSum_snoc, List.length_append, List.length_singleton]
  simp; omega

theorem mulBase_snoc_cons (nm : Bool) (s0 : Nat) (r : List Nat) (s : Nat) :
    mulBase nm (s0 :: (r ++ [s])) =
      mulBase nm (s0 :: r) + 885 + 6 * (Unknown.sum (s0 :: r) + s)
        + (Unknown.sum (s0 :: r) * s) / (if nm then 16 else 128) := by
  cases nm <;> simp only [mulBase, mulSteps_snoc, sum_cons] <;> simp <;> omega

/-! ### the loops -/

theorem atomLen_atom (b : Bytes) (t : Bool) (n : String) : atomLen (.atom b t) n = .ok b.length := rfl

theorem atomLen_pair (x y : Val) :
    atomLen (.pair x y) "unknown op" = .error (.InvalidOpArg "unknown op requires an atom") := by
  simp only [atomLen]; rfl

theorem unknownConcat_walk (nm : Bool) (B : Nat) (l : List Val) (seen : List Nat) :
    unknownConcat B l (concatBase seen) = (Unknown.walk 3 nm B seen (sizesOf l)).map concatBase := by
  induction l generalizing seen with
  | nil => simp [unknownConcat, sizesOf, Unknown.walk, Except.map]
  | cons a t ih =>
    cases a with
    | pair x y => simp [unknownConcat, sizesOf, sizeOf, Unknown.walk, Except.map, atomLen_pair]
    | atom b tg =>
      simp only [unknownConcat, sizesOf, List.map_cons, sizeOf, Unknown.walk, atomLen_atom]
      have hb : concatBase seen + Gen.CONCAT_COST_PER_ARG + Gen.CONCAT_COST_PER_BYTE * b.length
          = concatBase (seen ++ [b.length]) := by
        rw [concatBase_snoc]; simp [Gen.CONCAT_COST_PER_ARG, Gen.CONCAT_COST_PER_BYTE]
      rw [hb]
      simp only [checkedAfter, base, checkCost]
      by_cases h : concatBase (seen ++ [b.length]) > B
      · simp [h, Except.map]
      · simp only [h, if_false]
        have := ih (seen ++ [b.length])
        simp only [sizesOf] at this
        simpa using this

theorem unknownArith_old_walk (B : Nat) (l : List Val) (seen : List Nat) (acc : Nat) :
    unknownArith false B l (addBase false seen) acc
      = (Unknown.walk 1 false B seen (sizesOf l)).map (addBase false) := by
  induction l generalizing seen with
  | nil => simp [unknownArith, sizesOf, Unknown.walk, Except.map]
  | cons a t ih =>
    cases a with
    | pair x y => simp [unknownArith, sizesOf, sizeOf, Unknown.walk, Except.map, atomLen_pair]
    | atom b tg =>
      simp only [unknownArith, sizesOf, List.map_cons, sizeOf, Unknown.walk, atomLen_atom]
      have hb : addBase false seen + Gen.ARITH_COST_PER_ARG + b.length * Gen.ARITH_COST_PER_BYTE
          = addBase false (seen ++ [b.length]) := by
        rw [addBase_old_snoc]; simp [Gen.ARITH_COST_PER_ARG, Gen.ARITH_COST_PER_BYTE]; omega
      simp only [Bool.false_eq_true, if_false, hb]
      simp only [checkedAfter, base, checkCost]
      by_cases h : addBase false (seen ++ [b.length]) > B
      · simp [h, Except.map]
      · simp only [h, if_false]
        have := ih (seen ++ [b.length])
        simp only [sizesOf] at this
        simpa using this

theorem unknownArith_new_walk (B : Nat) (hB : B ≤ U64_MAX) (l : List Val) (seen : List Nat) :
    unknownArith true B l (addBase true seen) (maxL 0 seen)
      = (Unknown.walk 1 true B seen (sizesOf l)).map (addBase true) := by
  induction l generalizing seen with
  | nil => simp [unknownArith, sizesOf, Unknown.walk, Except.map]
  | cons a t ih =>
    cases a with
    | pair x y => simp [unknownArith, sizesOf, sizeOf, Unknown.walk, Except.map, atomLen_pair]
    | atom b tg =>
      simp only [unknownArith, sizesOf, List.map_cons, sizeOf, Unknown.walk, atomLen_atom]
      have hb : addBase true seen + Gen.NEW_ARITH_COST_PER_ARG
            + max (maxL 0 seen) b.length * Gen.NEW_ARITH_COST_PER_BYTE
          = addBase true (seen ++ [b.length]) := by
        rw [addBase_new_snoc]; simp [Gen.NEW_ARITH_COST_PER_ARG, Gen.NEW_ARITH_COST_PER_BYTE]; omega
      simp only [if_true, checkedAfter, base]
      by_cases h : addBase true (seen ++ [b.length]) > B
      · by_cases h1 : addBase true seen + Gen.NEW_ARITH_COST_PER_ARG > U64_MAX
        · simp [ckAdd, h1, Except.map, h]
        · by_cases h2 : max (maxL 0 seen) b.length * Gen.NEW_ARITH_COST_PER_BYTE > U64_MAX
          · simp [ckAdd, ckMul, h1, h2, Except.map, h]
          · by_cases h3 : addBase true seen + Gen.NEW_ARITH_COST_PER_ARG
                + max (maxL 0 seen) b.length * Gen.NEW_ARITH_COST_PER_BYTE > U64_MAX
            · simp [ckAdd, ckMul, h1, h2, h3, Except.map, h]
            · have h3' : ¬ U64_MAX < addBase true (seen ++ [b.length]) := by rw [← hb]; omega
              simp [ckAdd, ckMul, checkCost, h1, h2, h3', hb, Except.map, h]
      · have h1 : ¬ addBase true seen + Gen.NEW_ARITH_COST_PER_ARG > U64_MAX := by omega
        have h2 : ¬ max (maxL 0 seen) b.length * Gen.NEW_ARITH_COST_PER_BYTE > U64_MAX := by omega
        have h3 : ¬ addBase true seen + Gen.NEW_ARITH_COST_PER_ARG
            + max (maxL 0 seen) b.length * Gen.NEW_ARITH_COST_PER_BYTE > U64_MAX := by omega
        have h3' : ¬ U64_MAX < addBase true (seen ++ [b.length]) := by rw [← hb]; omega
        simp only [ckAdd, ckMul, checkCost, h1, h2, h3, h3', if_false, hb, h]
        have := ih (seen ++ [b.length])
        simp only [sizesOf, maxL_snoc] at this
        simpa using this

/-- manual unfolding equations (the equation compiler's own unfolding lemmas for this deeply nested
definition exceed the default recursion depth) -/
theorem unknownMul_nil (nm : Bool) (B D c l0 : Nat) (fi : Bool) : unknownMul nm B D [] c l0 fi = .ok c := rfl
set_option maxRecDepth 4000 in
theorem unknownMul_cons (nm : Bool) (maxCost sqDiv cost l0 : Nat) (firstIter : Bool) (arg : Val) (rest : List Val) :
    unknownMul nm maxCost sqDiv (arg :: rest) cost l0 firstIter =
    match atomLen arg "unknown op" with
    | .error e => .error e
    | .ok len =>
      if firstIter then
        if nm then
          match ckMul len Gen.MUL_LINEAR_COST_PER_BYTE with
          | .error e => .error e
          | .ok m =>
            match ckAdd cost m with
            | .error e => .error e
            | .ok cost1 =>
              match checkCost cost1 maxCost with
              | .error e => .error e
              | .ok () => unknownMul nm maxCost sqDiv rest cost1 len false
        else unknownMul nm maxCost sqDiv rest cost len false
      else if nm then
        match ckAdd cost Gen.MUL_COST_PER_OP with
        | .error e => .error e
        | .ok cost1 =>
          match ckAdd l0 len with
          | .error e => .error e
          | .ok s =>
            match ckMul s Gen.MUL_LINEAR_COST_PER_BYTE with
            | .error e => .error e
            | .ok lin =>
              match ckAdd cost1 lin with
              | .error e => .error e
              | .ok cost2 =>
                match ckMul l0 len with
                | .error e => .error e
                | .ok sq =>
                  match ckAdd cost2 (sq / sqDiv) with
                  | .error e => .error e
                  | .ok cost3 =>
                    match checkCost cost3 maxCost with
                    | .error e => .error e
                    | .ok () => unknownMul nm maxCost sqDiv rest cost3 (l0 + len) false
      else
        let cost3 := cost + Gen.MUL_COST_PER_OP + (l0 + len) * Gen.MUL_LINEAR_COST_PER_BYTE + (l0 * len) / sqDiv
        match checkCost cost3 maxCost with
        | .error e => .error e
        | .ok () => unknownMul nm maxCost sqDiv rest cost3 (l0 + len) false := rfl

theorem snoc_cons (s0 : Nat) (r : List Nat) (s : Nat) : (s0 :: r) ++ [s] = s0 :: (r ++ [s]) := rfl

theorem unknownMul_old_later (B : Nat) (l : List Val) (s0 : Nat) (r : List Nat) :
    unknownMul false B 128 l (mulBase false (s0 :: r)) (Unknown.sum (s0 :: r)) false
      = (Unknown.walk 2 false B (s0 :: r) (sizesOf l)).map (mulBase false) := by
  induction l generalizing r with
  | nil => simp [unknownMul_nil, sizesOf, Unknown.walk, Except.map]
  | cons a t ih =>
    cases a with
    | pair x y => simp [unknownMul_cons, sizesOf, sizeOf, Unknown.walk, Except.map, atomLen_pair]
    | atom b tg =>
      have hb : mulBase false (s0 :: r) + Gen.MUL_COST_PER_OP
            + (Unknown.sum (s0 :: r) + b.length) * Gen.MUL_LINEAR_COST_PER_BYTE
            + Unknown.sum (s0 :: r) * b.length / 128
          = mulBase false (s0 :: (r ++ [b.length])) := by
        rw [mulBase_snoc_cons]; simp [Gen.MUL_COST_PER_OP, Gen.MUL_LINEAR_COST_PER_BYTE]; omega
      have hc : checkedAfter 2 false (s0 :: (r ++ [b.length])) = true := by
        simp [checkedAfter]
      have hs : Unknown.sum (s0 :: r) + b.length = Unknown.sum (s0 :: (r ++ [b.length])) := by
        simp only [sum_cons, sum_snoc]; omega
      simp only [unknownMul_cons, sizesOf, List.map_cons, sizeOf, Unknown.walk, atomLen_atom,
        List.cons_append, Bool.false_eq_true, if_false]
      rw [hb, hs]
      simp only [hc, base, checkCost, Bool.true_and, decide_eq_true_eq]
      by_cases h : mulBase false (s0 :: (r ++ [b.length])) > B
      · simp [h, Except.map]
      · simp only [h, if_false]
        exact ih (r ++ [b.length])

theorem unknownMul_old_walk (B : Nat) (l : List Val) (x : Nat) :
    unknownMul false B 128 l (mulBase false []) x true
      = (Unknown.walk 2 false B [] (sizesOf l)).map (mulBase false) := by
  cases l with
  | nil => simp [unknownMul_nil, unknownMul_cons, sizesOf, Unknown.walk, Except.map]
  | cons a t =>
    cases a with
    | pair x y => simp [unknownMul_nil, unknownMul_cons, sizesOf, sizeOf, Unknown.walk, Except.map, atomLen_pair]
    | atom b tg =>
      simp only [unknownMul_nil, unknownMul_cons, sizesOf, List.map_cons, sizeOf, Unknown.walk, atomLen_atom, if_true,
        Bool.false_eq_true, if_false, List.nil_append]
      have hc : checkedAfter 2 false [b.length] = false := by simp [checkedAfter]
      simp only [hc, Bool.false_and, Bool.false_eq_true, if_false]
      have := unknownMul_old_later B t b.length []
      simp only [sizesOf, mulBase, mulSteps, Unknown.sum, List.foldr, Bool.false_eq_true, if_false,
        Nat.add_zero] at this ⊢
      exact this

theorem totalLen_cons_atom (b : Bytes) (tg : Bool) (t : List Val) :
    totalLen (.atom b tg :: t) = b.length + totalLen t := rfl

/-- new model, arguments after the first: exact agreement with the documented walk as long as the
squared total argument size fits in 64 bits (so that `checked_mul(l0, len)` cannot fail by itself) -/
theorem unknownMul_new_later (B : Nat) (hB : B ≤ U64_MAX) (l : List Val) (s0 : Nat) (r : List Nat)
    (hov : (Unknown.sum (s0 :: r) + totalLen l) * (Unknown.sum (s0 :: r) + totalLen l) ≤ U64_MAX) :
    unknownMul true B 16 l (mulBase true (s0 :: r)) (Unknown.sum (s0 :: r)) false
      = (Unknown.walk 2 true B (s0 :: r) (sizesOf l)).map (mulBase true) := by
  induction l generalizing r with
  | nil => simp [unknownMul_nil, sizesOf, Unknown.walk, Except.map]
  | cons a t ih =>
    cases a with
    | pair x y => simp [unknownMul_cons, sizesOf, sizeOf, Unknown.walk, Except.map, atomLen_pair]
    | atom b tg =>
      rw [totalLen_cons_atom] at hov
      generalize hL : Unknown.sum (s0 :: r) = L at hov
      generalize hC : mulBase true (s0 :: r) = C
      have hb : C + 885 + 6 * (L + b.length) + L * b.length / 16
          = mulBase true (s0 :: (r ++ [b.length])) := by
        rw [mulBase_snoc_cons, hL, hC]; simp
      have hc : checkedAfter 2 true (s0 :: (r ++ [b.length])) = true := by
        simp [checkedAfter]
      have hs : L + b.length = Unknown.sum (s0 :: (r ++ [b.length])) := by
        rw [← hL]; simp only [sum_cons, sum_snoc]; omega
      have hX : L + b.length ≤ L + (b.length + totalLen t) := by omega
      have hLs : L + b.length ≤ U64_MAX :=
        Nat.le_trans (Nat.le_trans hX (Nat.le_mul_self _)) hov
      have hP : L * b.length ≤ U64_MAX :=
        Nat.le_trans (Nat.mul_le_mul (by omega) (by omega)) hov
      have hov' : (Unknown.sum (s0 :: (r ++ [b.length])) + totalLen t)
          * (Unknown.sum (s0 :: (r ++ [b.length])) + totalLen t) ≤ U64_MAX := by
        rw [← hs]; rw [show L + b.length + totalLen t = L + (b.length + totalLen t) by omega]; exact hov
      simp only [unknownMul_cons, sizesOf, List.map_cons, sizeOf, Unknown.walk, atomLen_atom,
        List.cons_append, if_true, Bool.false_eq_true, if_false, hc, base, Bool.true_and, decide_eq_true_eq,
        Gen.MUL_COST_PER_OP, Gen.MUL_LINEAR_COST_PER_BYTE]
      obtain ⟨P, hPd⟩ : ∃ P, L * b.length = P := ⟨_, rfl⟩
      rw [hPd] at hb hP
      simp only [ckAdd, ckMul, gt_iff_lt]
      rw [hPd, ← hb]
      have hLs' : ¬ U64_MAX < L + b.length := by omega
      have hP' : ¬ U64_MAX < P := by omega
      by_cases h : C + 885 + 6 * (L + b.length) + P / 16 > B
      · simp only [h, if_true, Except.map]
        by_cases h1 : U64_MAX < C + 885
        · simp [ckAdd, h1]
        · by_cases h2 : U64_MAX < (L + b.length) * 6
          · simp [ckAdd, ckMul, h1, hLs', h2]
          · by_cases h3 : U64_MAX < C + 885 + (L + b.length) * 6
            · simp [ckAdd, ckMul, h1, hLs', h2, h3]
            · by_cases h4 : U64_MAX < C + 885 + (L + b.length) * 6 + P / 16
              · simp [ckAdd, ckMul, h1, hLs', h2, h3, hP', h4]
              · have h5 : B < C + 885 + (L + b.length) * 6 + P / 16 := by omega
                simp [ckAdd, ckMul, checkCost, h1, hLs', h2, h3, hP', h4, h5]
      · have h1 : ¬ U64_MAX < C + 885 := by omega
        have h2 : ¬ U64_MAX < (L + b.length) * 6 := by omega
        have h3 : ¬ U64_MAX < C + 885 + (L + b.length) * 6 := by omega
        have h4 : ¬ U64_MAX < C + 885 + (L + b.length) * 6 + P / 16 := by omega
        have h5 : ¬ B < C + 885 + (L + b.length) * 6 + P / 16 := by omega
        have h6 : C + 885 + (L + b.length) * 6 + P / 16 = C + 885 + 6 * (L + b.length) + P / 16 := by omega
        simp only [ckAdd, ckMul, checkCost, h1, hLs', h2, h3, hP', h4, h5, h, if_false, gt_iff_lt]
        rw [h6, hb, hs]
        exact ih (r ++ [b.length]) hov'

theorem unknownMul_new_walk (B : Nat) (hB : B ≤ U64_MAX) (l : List Val) (x : Nat)
    (hov : totalLen l * totalLen l ≤ U64_MAX) :
    unknownMul true B 16 l (mulBase true []) x true
      = (Unknown.walk 2 true B [] (sizesOf l)).map (mulBase true) := by
  cases l with
  | nil => simp [unknownMul_nil, sizesOf, Unknown.walk, Except.map]
  | cons a t =>
    cases a with
    | pair x y => simp [unknownMul_cons, sizesOf, sizeOf, Unknown.walk, Except.map, atomLen_pair]
    | atom b tg =>
      have hc : checkedAfter 2 true [b.length] = true := by simp [checkedAfter]
      have hm : mulBase true [b.length] = 2000 + b.length * 6 := by simp [mulBase, mulSteps]; omega
      have hlater := unknownMul_new_later B hB t b.length []
        (by simpa [Unknown.sum, totalLen_cons_atom] using hov)
      simp only [unknownMul_cons, sizesOf, List.map_cons, sizeOf, Unknown.walk, atomLen_atom, if_true,
        List.nil_append, hc, base, Bool.true_and, decide_eq_true_eq, Gen.MUL_LINEAR_COST_PER_BYTE,
        ckAdd, ckMul, checkCost, gt_iff_lt]
      have hm0 : mulBase true [] = 2000 := by simp [mulBase]
      rw [hm0]
      by_cases h : mulBase true [b.length] > B
      · simp only [h, if_true, Except.map]
        by_cases h1 : U64_MAX < b.length * 6
        · simp [h1]
        · by_cases h2 : U64_MAX < 2000 + b.length * 6
          · simp [h1, h2]
          · have h3 : B < 2000 + b.length * 6 := by omega
            simp [h1, h2, h3]
      · have h1 : ¬ U64_MAX < b.length * 6 := by omega
        have h2 : ¬ U64_MAX < 2000 + b.length * 6 := by omega
        have h3 : ¬ B < 2000 + b.length * 6 := by omega
        simp only [h, h1, h2, h3, if_false]
        rw [← hm]
        simpa [Unknown.sum, sizesOf] using hlater

/-! ### relational form for the new-model multiply-like loop (no size hypothesis): either both sides
agree, or both fail, or the model fails on a 64-bit overflow while the documented base is ≥ 2^32
(so the documented rule fails as well, after the walk) -/

def MulRel (impl : Except Err Nat) (spec : Except Err (List Nat)) : Prop :=
  match impl, spec with
  | .ok c, .ok ss => c = mulBase true ss
  | .error _, .error _ => True
  | .ok _, .error _ => False
  | .error _, .ok ss => 2 ^ 32 ≤ mulBase true ss

theorem MulRel_of_eq (impl : Except Err Nat) (spec : Except Err (List Nat))
    (h : impl = spec.map (mulBase true)) : MulRel impl spec := by
  subst h
  cases spec <;> simp [MulRel, Except.map]

theorem walk_ok_prefix (cf : Nat) (nm : Bool) (B : Nat) (ss : List (Option Nat)) (seen r : List Nat)
    (h : Unknown.walk cf nm B seen ss = .ok r) : ∃ more, r = seen ++ more := by
  induction ss generalizing seen with
  | nil => simp only [Unknown.walk] at h; injection h with h; exact ⟨[], by simp [h]⟩
  | cons a t ih =>
    cases a with
    | none => simp [Unknown.walk] at h
    | some s =>
      simp only [Unknown.walk] at h
      split at h
      · cases h
      · obtain ⟨more, hm⟩ := ih _ h
        exact ⟨s :: more, by simp [hm]⟩

theorem mulSteps_append (D L : Nat) (a b : List Nat) :
    mulSteps D L (a ++ b) = mulSteps D L a + mulSteps D (L + Unknown.sum a) b := by
  induction a generalizing L with
  | nil => simp [mulSteps, Unknown.sum]
  | cons x t ih =>
    simp only [List.cons_append, mulSteps, ih, sum_cons]
    rw [show L + x + Unknown.sum t = L + (x + Unknown.sum t) by omega]; omega

theorem mulBase_mono (s0 : Nat) (r more : List Nat) :
    mulBase true (s0 :: r) ≤ mulBase true ((s0 :: r) ++ more) := by
  simp only [List.cons_append, mulBase, if_true, mulSteps_append]; omega

set_option maxRecDepth 4000 in
theorem unknownMul_new_later_rel (B : Nat) (hB : B ≤ U64_MAX) (l : List Val) (s0 : Nat) (r : List Nat) :
    MulRel (unknownMul true B 16 l (mulBase true (s0 :: r)) (Unknown.sum (s0 :: r)) false)
      (Unknown.walk 2 true B (s0 :: r) (sizesOf l)) := by
  induction l generalizing r with
  | nil => simp [unknownMul_nil, sizesOf, Unknown.walk, MulRel]
  | cons a t ih =>
    cases a with
    | pair x y => simp [unknownMul_cons, sizesOf, sizeOf, Unknown.walk, MulRel, atomLen_pair]
    | atom b tg =>
      generalize hL : Unknown.sum (s0 :: r) = L
      generalize hC : mulBase true (s0 :: r) = C
      have hb : C + 885 + 6 * (L + b.length) + L * b.length / 16
          = mulBase true (s0 :: (r ++ [b.length])) := by
        rw [mulBase_snoc_cons, hL, hC]; simp
      have hc : checkedAfter 2 true (s0 :: (r ++ [b.length])) = true := by
        simp [checkedAfter]
      have hs : L + b.length = Unknown.sum (s0 :: (r ++ [b.length])) := by
        rw [← hL]; simp only [sum_cons, sum_snoc]; omega
      simp only [unknownMul_cons, sizesOf, List.map_cons, sizeOf, Unknown.walk, atomLen_atom,
        List.cons_append, if_true, Bool.false_eq_true, if_false, hc, base, Bool.true_and, decide_eq_true_eq,
        Gen.MUL_COST_PER_OP, Gen.MUL_LINEAR_COST_PER_BYTE]
      obtain ⟨P, hPd⟩ : ∃ P, L * b.length = P := ⟨_, rfl⟩
      rw [hPd] at hb
      simp only [ckAdd, ckMul, gt_iff_lt]
      rw [hPd, ← hb]
      by_cases h : C + 885 + 6 * (L + b.length) + P / 16 > B
      · simp only [h, if_true]
        by_cases h1 : U64_MAX < C + 885
        · simp [h1, MulRel]
        · by_cases h0 : U64_MAX < L + b.length
          · simp [h1, h0, MulRel]
          · by_cases h2 : U64_MAX < (L + b.length) * 6
            · simp [h1, h0, h2, MulRel]
            · by_cases h3 : U64_MAX < C + 885 + (L + b.length) * 6
              · simp [h1, h0, h2, h3, MulRel]
              · by_cases hP' : U64_MAX < P
                · simp [h1, h0, h2, h3, hP', MulRel]
                · by_cases h4 : U64_MAX < C + 885 + (L + b.length) * 6 + P / 16
                  · simp [h1, h0, h2, h3, hP', h4, MulRel]
                  · have h5 : B < C + 885 + (L + b.length) * 6 + P / 16 := by omega
                    simp [checkCost, h1, h0, h2, h3, hP', h4, h5, MulRel]
      · have h1 : ¬ U64_MAX < C + 885 := by omega
        have h0 : ¬ U64_MAX < L + b.length := by omega
        have h2 : ¬ U64_MAX < (L + b.length) * 6 := by omega
        have h3 : ¬ U64_MAX < C + 885 + (L + b.length) * 6 := by omega
        by_cases hP' : U64_MAX < P
        · -- 64-bit overflow of l0*len although the documented running base fits the budget
          simp only [h1, h0, h2, h3, hP', h, if_false, if_true]
          cases hw : Unknown.walk 2 true B (s0 :: (r ++ [b.length])) (List.map sizeOf t) with
          | error e => simp [MulRel]
          | ok ss =>
            obtain ⟨more, hm⟩ := walk_ok_prefix _ _ _ _ _ _ hw
            have hmono := mulBase_mono s0 (r ++ [b.length]) more
            rw [← hm, ← hb] at hmono
            simp only [MulRel]
            have : 2 ^ 64 ≤ P + 1 := by simp only [U64_MAX] at hP'; omega
            omega
        · have h4 : ¬ U64_MAX < C + 885 + (L + b.length) * 6 + P / 16 := by omega
          have h5 : ¬ B < C + 885 + (L + b.length) * 6 + P / 16 := by omega
          have h6 : C + 885 + (L + b.length) * 6 + P / 16 = C + 885 + 6 * (L + b.length) + P / 16 := by omega
          simp only [checkCost, h1, h0, h2, h3, hP', h4, h5, h, if_false, gt_iff_lt]
          rw [h6, hb, hs]
          exact ih (r ++ [b.length])

theorem unknownMul_new_rel (B : Nat) (hB : B ≤ U64_MAX) (l : List Val) (x : Nat) :
    MulRel (unknownMul true B 16 l (mulBase true []) x true)
      (Unknown.walk 2 true B [] (sizesOf l)) := by
  cases l with
  | nil => simp [unknownMul_nil, sizesOf, Unknown.walk, MulRel]
  | cons a t =>
    cases a with
    | pair x y => simp [unknownMul_cons, sizesOf, sizeOf, Unknown.walk, MulRel, atomLen_pair]
    | atom b tg =>
      have hc : checkedAfter 2 true [b.length] = true := by simp [checkedAfter]
      have hm : mulBase true [b.length] = 2000 + b.length * 6 := by simp [mulBase, mulSteps]; omega
      have hlater := unknownMul_new_later_rel B hB t b.length []
      simp only [unknownMul_cons, sizesOf, List.map_cons, sizeOf, Unknown.walk, atomLen_atom, if_true,
        List.nil_append, hc, base, Bool.true_and, decide_eq_true_eq, Gen.MUL_LINEAR_COST_PER_BYTE,
        ckAdd, ckMul, checkCost, gt_iff_lt]
      have hm0 : mulBase true [] = 2000 := by simp [mulBase]
      rw [hm0]
      by_cases h : mulBase true [b.length] > B
      · simp only [h, if_true]
        by_cases h1 : U64_MAX < b.length * 6
        · simp [h1, MulRel]
        · by_cases h2 : U64_MAX < 2000 + b.length * 6
          · simp [h1, h2, MulRel]
          · have h3 : B < 2000 + b.length * 6 := by omega
            simp [h1, h2, h3, MulRel]
      · have h1 : ¬ U64_MAX < b.length * 6 := by omega
        have h2 : ¬ U64_MAX < 2000 + b.length * 6 := by omega
        have h3 : ¬ B < 2000 + b.length * 6 := by omega
        simp only [h, h1, h2, h3, if_false]
        rw [← hm]
        simpa [Unknown.sum, sizesOf] using hlater

/-! ### opcode decoding and the normal form of `opUnknown` -/

theorem cf_nat : ∀ n, n < 256 → (n &&& 0xc0) >>> 6 = n / 64 := by decide +kernel

theorem u32FromU8_dropLast (op : Bytes) (h : op ≠ []) :
    u32FromU8 (op.take (op.length - 1)) = if op.length > 5 then none else some (multiplier op) := by
  have hd : op.take (op.length - 1) = op.dropLast := (List.dropLast_eq_take).symm
  rw [hd]
  have hl : op.dropLast.length = op.length - 1 := List.length_dropLast
  have hpos : 0 < op.length := List.length_pos_iff.mpr h
  unfold multiplier u32FromU8 u32FromU8Impl
  cases hdl : op.dropLast with
  | nil =>
    rw [hdl] at hl; simp at hl
    have : ¬ op.length > 5 := by omega
    simp [this, beNat]
  | cons b0 t =>
    rw [hdl] at hl
    simp only [Bool.false_and, Bool.false_eq_true, if_false]
    by_cases h5 : op.length > 5
    · simp only [List.length_cons] at hl
      simp [h5]; omega
    · simp only [List.length_cons] at hl
      simp [h5]; omega

/-- the model's base computation, per cost function -/
def implBase (cf : Nat) (nm : Bool) (B : Nat) (l : List Val) : Except Err Nat :=
  match cf with
  | 1 => unknownArith nm B l Gen.ARITH_BASE_COST 0
  | 2 => unknownMul nm B
           (if nm then Gen.NEW_MUL_SQUARE_COST_PER_BYTE_DIVIDER else Gen.MUL_SQUARE_COST_PER_BYTE_DIVIDER)
           l (if nm then Gen.NEW_MUL_BASE_COST else Gen.MUL_BASE_COST) 0 true
  | 3 => unknownConcat B l Gen.CONCAT_BASE_COST
  | _ => .ok 1

/-- what `op_unknown` does with the base cost: `assert!(cost > 0)`, `check_cost`, the multiplication
(`checked_mul` in the new model, `wrapping_mul` before), the 32-bit cap -/
def implTail (nm : Bool) (mult B cost : Nat) (c : Ctr) : Except Err (Nat × Val × Ctr) :=
  if cost == 0 then .error (.Panic "assert!(cost > 0)")
  else
    match checkCost cost B with
    | .error e => .error e
    | .ok () =>
      let total : Except Err Nat :=
        if nm then ckMul cost (mult + 1) else .ok ((cost * (mult + 1)) % 2 ^ 64)
      match total with
      | .error e => .error e
      | .ok cost' => if cost' > 2 ^ 32 - 1 then .error .Invalid else .ok (cost', Val.nil, c)

theorem costFunction_lt (op : Bytes) : costFunction op < 4 := by
  unfold costFunction
  cases op.getLast? with
  | none => simp
  | some x => have := x.toNat_lt; simp only [Option.map_some, Option.getD_some]; omega

theorem opUnknown_eq (op : Bytes) (flags B : Nat) (args : Val) (c : Ctr) :
    opUnknown op flags B args c =
      if reserved op then .error .Reserved
      else if op.length > 5 then .error .Invalid
      else
        match implBase (costFunction op) (newModel flags) B (argList args) with
        | .error e => .error e
        | .ok cost => implTail (newModel flags) (multiplier op) B cost c := by
  unfold opUnknown
  change (if reserved op = true then _ else _) = _
  by_cases hr : reserved op
  · simp only [hr, if_true]
  · have hne : op ≠ [] := by intro h; subst h; simp [reserved] at hr
    simp only [hr, Bool.false_eq_true, if_false, u32FromU8_dropLast op hne]
    by_cases h5 : op.length > 5
    · simp [h5]
    · simp only [h5, if_false]
      have hcf : ((op.getLast?.map UInt8.toNat).getD 0 &&& 0xc0) >>> 6 = costFunction op := by
        unfold costFunction
        apply cf_nat
        cases op.getLast? with
        | none => simp
        | some x => simpa using x.toNat_lt
      rw [hcf]
      have hlt := costFunction_lt op
      generalize costFunction op = cf at hlt
      have : cf = 0 ∨ cf = 1 ∨ cf = 2 ∨ cf = 3 := by omega
      rcases this with rfl | rfl | rfl | rfl <;> simp only [implBase, implTail] <;> rfl

end Clvm.Interp
