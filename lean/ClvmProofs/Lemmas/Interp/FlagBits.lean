/-
Bit lemmas about `hasFlag` and the generated `ClvmFlags` constants (used by C05/C06/C07/C11).
-/
import ClvmProofs.Lemmas.Interp.OpProps

namespace Clvm.Interp
open Clvm Clvm.Alloc

theorem hasFlag_or (F R b : Nat) : hasFlag (F ||| R) b = (hasFlag F b || hasFlag R b) := by
  unfold hasFlag
  rw [Nat.and_or_distrib_right]
  generalize F &&& b = x
  generalize R &&& b = y
  have h : (x ||| y = 0) ↔ (x = 0 ∧ y = 0) := Nat.or_eq_zero_iff
  rw [Bool.eq_iff_iff]
  simp only [bne_iff_ne, ne_eq, Bool.or_eq_true, h]
  by_cases hx : x = 0 <;> by_cases hy : y = 0 <;> simp [hx, hy]

theorem hasFlag_false_of_disjoint (R mask b : Nat) (hR : R &&& mask = R) (hd : mask &&& b = 0) :
    hasFlag R b = false := by
  unfold hasFlag
  rw [← hR, Nat.and_assoc, hd]; simp

theorem hasFlag_self_false (a b : Nat) (hd : a &&& b = 0) : hasFlag a b = false := by
  unfold hasFlag; simp [hd]

/-- adding bits disjoint from `b` does not change `hasFlag · b` -/
theorem hasFlag_or_disjoint (F R b : Nat) (h : hasFlag R b = false) : hasFlag (F ||| R) b = hasFlag F b := by
  rw [hasFlag_or, h, Bool.or_false]

/-! ### restriction bits do not contain the mode bits -/

section
variable {R : Nat} (hR : R &&& restrictionBits = R)
include hR

theorem restr_newCostModel : hasFlag R Gen.FLAG_NEW_COST_MODEL = false :=
  hasFlag_false_of_disjoint R _ _ hR (by decide)
theorem restr_malachite : hasFlag R Gen.FLAG_MALACHITE = false :=
  hasFlag_false_of_disjoint R _ _ hR (by decide)
theorem restr_relaxedBls : hasFlag R Gen.FLAG_RELAXED_BLS = false :=
  hasFlag_false_of_disjoint R _ _ hR (by decide)
theorem restr_enableGc : hasFlag R Gen.FLAG_ENABLE_GC = false :=
  hasFlag_false_of_disjoint R _ _ hR (by decide)
theorem restr_enableKeccak : hasFlag R Gen.FLAG_ENABLE_KECCAK_OPS_OUTSIDE_GUARD = false :=
  hasFlag_false_of_disjoint R _ _ hR (by decide)
theorem restr_enableSha256Tree : hasFlag R Gen.FLAG_ENABLE_SHA256_TREE = false :=
  hasFlag_false_of_disjoint R _ _ hR (by decide)
theorem restr_enableSecp : hasFlag R Gen.FLAG_ENABLE_SECP_OPS = false :=
  hasFlag_false_of_disjoint R _ _ hR (by decide)

theorem newModel_or_restr (F : Nat) : newModel (F ||| R) = newModel F := by
  unfold newModel; exact hasFlag_or_disjoint _ _ _ (restr_newCostModel hR)
theorem malachite_or_restr (F : Nat) : hasFlag (F ||| R) Gen.FLAG_MALACHITE = hasFlag F Gen.FLAG_MALACHITE :=
  hasFlag_or_disjoint _ _ _ (restr_malachite hR)
end

/-! ### single mode bits -/

theorem newModel_or_relaxed (F : Nat) : newModel (F ||| Gen.FLAG_RELAXED_BLS) = newModel F := by
  unfold newModel; exact hasFlag_or_disjoint _ _ _ (hasFlag_self_false _ _ (by decide))
theorem newModel_or_malachite (F : Nat) : newModel (F ||| Gen.FLAG_MALACHITE) = newModel F := by
  unfold newModel; exact hasFlag_or_disjoint _ _ _ (hasFlag_self_false _ _ (by decide))
theorem newModel_or_newModel (F : Nat) : newModel (F ||| Gen.FLAG_NEW_COST_MODEL) = true := by
  unfold newModel; rw [hasFlag_or]; simp [hasFlag]; right; decide

theorem hasFlag_or_relaxed (F b : Nat) (h : Gen.FLAG_RELAXED_BLS &&& b = 0) :
    hasFlag (F ||| Gen.FLAG_RELAXED_BLS) b = hasFlag F b :=
  hasFlag_or_disjoint _ _ _ (hasFlag_self_false _ _ h)
theorem hasFlag_or_malachite (F b : Nat) (h : Gen.FLAG_MALACHITE &&& b = 0) :
    hasFlag (F ||| Gen.FLAG_MALACHITE) b = hasFlag F b :=
  hasFlag_or_disjoint _ _ _ (hasFlag_self_false _ _ h)
theorem hasFlag_or_newModel (F b : Nat) (h : Gen.FLAG_NEW_COST_MODEL &&& b = 0) :
    hasFlag (F ||| Gen.FLAG_NEW_COST_MODEL) b = hasFlag F b :=
  hasFlag_or_disjoint _ _ _ (hasFlag_self_false _ _ h)

end Clvm.Interp
