/-
C08: the hypotheses of `hide_sim` hold for the operator table of the model (`cryptoExtra`):
every operator outside the core table returns well-formed values and keeps the heap limit, and a
successful secp verification charges the generated constant, returns nil and allocates nothing.
-/
import ClvmProofs.Lemmas.Interp.CryptoShapesAux
import ClvmProofs.Lemmas.Interp.HideSim

namespace Clvm.Interp
open Clvm Clvm.Alloc

theorem secpk1_ok (fl m : Nat) (args : Tree) (q : Crypto.OpRes)
    (h : Crypto.Ops.opSecp256k1Verify fl m args = .ok q) :
    q = ⟨Gen.Crypto.secp256k1VerifyCost, Tree.nil, false⟩ := by
  unfold Crypto.Ops.opSecp256k1Verify at h
  simp only [bind, Except.bind, pure, Except.pure, throw, throwThe, MonadExceptOf.throw] at h
  repeat' split at h
  all_goals first
    | (simp only [Except.ok.injEq] at h; exact h.symm)
    | (cases h; rfl)
    | cases h

theorem secpr1_ok (fl m : Nat) (args : Tree) (q : Crypto.OpRes)
    (h : Crypto.Ops.opSecp256r1Verify fl m args = .ok q) :
    q = ⟨Gen.Crypto.secp256r1VerifyCost, Tree.nil, false⟩ := by
  unfold Crypto.Ops.opSecp256r1Verify at h
  simp only [bind, Except.bind, pure, Except.pure, throw, throwThe, MonadExceptOf.throw] at h
  repeat' split at h
  all_goals first
    | (simp only [Except.ok.injEq] at h; exact h.symm)
    | (cases h; rfl)
    | cases h

theorem liftCrypto_nil {g : Crypto.OpFn} {K : Nat}
    (hg : ∀ fl m args q, g fl m args = .ok q → q = ⟨K, Tree.nil, false⟩)
    {fl m : Nat} {args : Val} {c : Ctr} {r : Nat × Val × Ctr} (h : liftCrypto g fl m args c = .ok r) :
    r = (K, Val.nil, c) := by
  obtain ⟨q, hq, hp⟩ := liftCrypto_ok_inv h
  rw [hg _ _ _ _ hq] at hp
  simp only [liftPost, Bool.false_eq_true, if_false, Except.ok.injEq] at hp
  rw [← hp]
  rfl

theorem cryptoExtra_secp_k1 (f : OpFn) (h : cryptoExtra "op_secp256k1_verify" = some f)
    (fl m : Nat) (args : Val) (c : Ctr) (r : Nat × Val × Ctr) (hr : f fl m args c = .ok r) :
    r = (Gen.SECP256K1_VERIFY_COST, Val.nil, c) := by
  have : cryptoExtra "op_secp256k1_verify" = some (liftCrypto Crypto.Ops.opSecp256k1Verify) := rfl
  rw [this] at h
  cases h
  exact liftCrypto_nil (K := Gen.SECP256K1_VERIFY_COST) (fun fl m args q hq => secpk1_ok fl m args q hq) hr

theorem cryptoExtra_secp_r1 (f : OpFn) (h : cryptoExtra "op_secp256r1_verify" = some f)
    (fl m : Nat) (args : Val) (c : Ctr) (r : Nat × Val × Ctr) (hr : f fl m args c = .ok r) :
    r = (Gen.SECP256R1_VERIFY_COST, Val.nil, c) := by
  have : cryptoExtra "op_secp256r1_verify" = some (liftCrypto Crypto.Ops.opSecp256r1Verify) := rfl
  rw [this] at h
  cases h
  exact liftCrypto_nil (K := Gen.SECP256R1_VERIFY_COST) (fun fl m args q hq => secpr1_ok fl m args q hq) hr

theorem allocAtom_inv {c : Ctr} {b : Bytes} {v : Val} {c' : Ctr} (h : allocAtom c b = .ok (v, c')) :
    v = Val.mkAtom b ∧ c' = { c with atoms := c.atoms + 1, heap := c.heap + b.length } := by
  unfold allocAtom Ctr.newAtom Ctr.checkAtomLimit at h
  by_cases h1 : c.heap + b.length > c.heapLimit
  · simp [h1] at h
  · by_cases h2 : (c.atoms == Gen.maxNumAtoms) = true
    · simp [h1, h2] at h
    · simp [h1, h2] at h
      exact ⟨h.1.symm, h.2.symm⟩

theorem opSha256Tree_wf : OpWf opSha256Tree := by
  intro flags m args c r _ h
  unfold opSha256Tree at h
  split at h
  · cases h
  · rename_i cost hsh _
    cases ha : allocAtom c hsh with
    | error e => rw [ha] at h; cases h
    | ok q =>
      obtain ⟨v, c'⟩ := q
      rw [ha] at h
      simp only [Except.ok.injEq] at h
      obtain ⟨rfl, rfl⟩ := allocAtom_inv ha
      rw [← h]
      refine ⟨?_, ?_, ?_, ?_, rfl⟩
      · unfold Val.mkAtom Val.newAtomTag
        cases hf : (fitsInSmallAtom hsh).isSome <;> simp [Val.wf, hf]
      · simp
      · simp
      · simp

theorem cryptoExtra_wf (name : String) (f : OpFn) (h : cryptoExtra name = some f) : OpWf f := by
  unfold cryptoExtra at h
  split at h
  · cases h
  · split at h
    · cases h; exact opSha256Tree_wf
    · cases hg : Crypto.opByName name with
      | none => rw [hg] at h; cases h
      | some g =>
        rw [hg] at h
        cases h
        exact liftCrypto_wf g

end Clvm.Interp
