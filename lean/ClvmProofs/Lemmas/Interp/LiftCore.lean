/-
Shared machinery for the machine-level liftings (C02, C07, C11, C25): `apply_op` split into its
branches (`applyOp_eq`: after the three pops it is `applyBody`, a chain of `applyApply` /
`applySoftfork` / `applyOrdinary`), and the elementary facts about `push` / `pop` / `push_env`.
Nothing here changes the model: every definition is proved equal to the corresponding part of
`ClvmModel/Interp/Machine.lean`.
-/
import ClvmProofs.Lemmas.Interp.MachineStepWf
namespace Clvm.Interp
open Clvm Clvm.Alloc


theorem push_ok {s s' : MState} {v : Val} (h : s.push v = .ok s') :
    s' = { s with valStack := v :: s.valStack, valLen := s.valLen + 1 } := by
  unfold MState.push at h
  split at h
  · cases h
  · cases h; rfl

theorem pushEnv_ok {s s' : MState} {v : Val} (h : s.pushEnv v = .ok s') :
    s' = { s with envStack := v :: s.envStack, envLen := s.envLen + 1 } := by
  unfold MState.pushEnv at h
  split at h
  · cases h
  · cases h; rfl

theorem pop_ok {s s' : MState} {v : Val} (h : s.pop = .ok (v, s')) :
    ∃ vs, s.valStack = v :: vs ∧ s' = { s with valStack := vs, valLen := s.valLen - 1 } := by
  unfold MState.pop at h
  split at h
  · cases h
  · rename_i v' vs hv
    cases h
    exact ⟨vs, hv, rfl⟩

theorem M_bind_eq {α β} {x : M α} {f : α → M β} {a : α} (h : x = .ok a) : (x >>= f) = f a := by
  rw [h]; rfl

theorem liftE_of_ok {α} {x : Except Err α} {a : α} (h : x = .ok a) : liftE x = .ok a := by rw [h]; rfl

def MState.setSf (s : MState) (x : List SoftforkGuard) : MState := { s with softforkStack := x }

def MState.applyBase (s : MState) (vals envs : List Val) : MState :=
  { s with valStack := vals, valLen := s.valLen - 1 - 1, envStack := envs, envLen := s.envLen - 1 }

def curExt (s : MState) : OperatorSet :=
  match s.softforkStack with
  | sf :: _ => sf.operatorSet
  | [] => .Default

def applyApply (cfg : Cfg) (d : Dialect) (s : MState) (operandList : Val) : M (Nat × MState) := do
  let (newOperator, env) ← liftE (getArgs2 operandList "apply")
  let (c, s) ← evalPair cfg d s newOperator env
  pure (c + Gen.APPLY_COST, s)

def guardExpected (s : MState) (ext : OperatorSet) (currentCost maxCost expectedCost : Nat) : Nat :=
  if ext == .PreHardFork then
    match s.softforkStack with
    | sf :: _ => sf.expectedCost
    | [] => currentCost + maxCost
  else currentCost + expectedCost

def guardCost (d : Dialect) : Nat :=
  if hasFlag d.flags Gen.FLAG_NEW_COST_MODEL then Gen.NEW_GUARD_COST else Gen.GUARD_COST

def enterGuard (s : MState) (g : SoftforkGuard) : MState :=
  { s with softforkStack := g :: s.softforkStack }.pushOp .ExitGuard

def applySoftfork (cfg : Cfg) (d : Dialect) (s : MState) (operandList : Val) (currentCost maxCost : Nat) :
    M (Nat × MState) := do
  let f ← liftE (first operandList)
  let expectedCost ← liftE (uintAtom 8 f "softfork" d.flags)
  if expectedCost > maxCost then .error (.err .CostExceeded)
  else if expectedCost == 0 then .error (.err .CostExceeded)
  else
    match parseSoftforkArguments d operandList with
    | .error err =>
      if d.allowUnknownOps then do
        let s ← s.push Val.nil
        pure (expectedCost, s)
      else .error (.err err)
    | .ok (ext, prg, env) =>
      if hasFlag d.flags Gen.FLAG_LIMIT_SOFTFORK && s.softforkStack.length ≥ Gen.softforkNestingLimit then
        .error (.err .SoftforkStackDepthExceeded)
      else do
        let g : SoftforkGuard :=
          { expectedCost := guardExpected s ext currentCost maxCost expectedCost,
            allocatorState := s.ctr, operatorSet := ext }
        let (c, s) ← evalPair cfg d (enterGuard s g) prg env
        pure (c + guardCost d, s)

def applyOrdinary (d : Dialect) (s : MState) (operator operandList : Val) (maxCost : Nat) : M (Nat × MState) :=
  match d.op operator operandList maxCost (curExt s) s.ctr with
  | none => .error .unsupported
  | some (.error e) => .error (.err e)
  | some (.ok (cost, v, c)) => do
    let s ← { s with ctr := c }.push v
    pure (cost, s)

def applyBody (cfg : Cfg) (d : Dialect) (s : MState) (operandList operator : Val) (currentCost maxCost : Nat) :
    M (Nat × MState) :=
  if smallNumber operator == some d.applyKw then applyApply cfg d s operandList
  else if smallNumber operator == some d.softforkKw then applySoftfork cfg d s operandList currentCost maxCost
  else applyOrdinary d s operator operandList maxCost

theorem applyOp_eq (cfg : Cfg) (d : Dialect) (s : MState) (cc mc : Nat) {ol o e0 : Val} {vals envs : List Val}
    (h1 : s.valStack = ol :: o :: vals) (h2 : s.envStack = e0 :: envs) :
    applyOp cfg d s cc mc = applyBody cfg d (s.applyBase vals envs) ol o cc mc := by
  unfold applyOp MState.pop
  simp only [h1, bind, Except.bind, h2]
  rfl
/-! ### what `eval_pair` reads from the dialect -/

theorem evalOpAtom_kw {d1 d2 : Dialect} (hq : d1.quoteKw = d2.quoteKw) (hg : d1.gcCandidate = d2.gcCandidate)
    (s : MState) (o ol env : Val) : evalOpAtom d1 s o ol env = evalOpAtom d2 s o ol env := by
  unfold evalOpAtom; rw [hq, hg]

/-- `eval_pair` reads the dialect only through `quote_kw` and `gc_candidate` -/
theorem evalPair_kw {cfg : Cfg} {d1 d2 : Dialect} (hq : d1.quoteKw = d2.quoteKw)
    (hg : d1.gcCandidate = d2.gcCandidate) (s : MState) (p env : Val) :
    evalPair cfg d1 s p env = evalPair cfg d2 s p env := by
  cases p with
  | atom b i => rfl
  | pair o ol =>
    cases o with
    | atom ob oi => simp only [evalPair]; exact evalOpAtom_kw hq hg s _ _ _
    | pair a b => rfl

theorem swapEvalOp_kw {cfg : Cfg} {d1 d2 : Dialect} (hq : d1.quoteKw = d2.quoteKw)
    (hg : d1.gcCandidate = d2.gcCandidate) (s : MState) : swapEvalOp cfg d1 s = swapEvalOp cfg d2 s := by
  unfold swapEvalOp
  simp only [evalPair_kw hq hg]

/-! ### `run_program` -/

/-- budget 0 means `u64::MAX` -/
def effBudget (M : Nat) : Nat := if M = 0 then U64_MAX else M

/-- a successful `run_program`, taken apart -/
theorem runProgram_ok_iff {cfg : Cfg} {d : Dialect} {fuel : Nat} {c0 : Ctr} {p e : Val} {M C : Nat} {v : Val}
    {c : Ctr} :
    runProgram cfg d fuel c0 p e M = some (.ok (C, v, c)) ↔
    ∃ c1 cost0 s0 sF vs, c0.addGhostAtom 1 = .ok c1 ∧ evalPair cfg d { ctr := c1 } p e = .ok (cost0, s0) ∧
      runLoop cfg d (effBudget M) fuel s0 cost0 = some (.ok (C, sF)) ∧ sF.valStack = v :: vs ∧ sF.ctr = c := by
  have hM : (if (M == 0) = true then U64_MAX else M) = effBudget M := by
    unfold effBudget; by_cases h : M = 0 <;> simp [h]
  unfold runProgram
  simp only [hM]
  constructor
  · intro h
    split at h
    · cases h
    · rename_i c1 hc1
      split at h
      · cases h
      · cases h
      · rename_i cost0 s0 hev
        split at h
        · cases h
        · cases h
        · cases h
        · rename_i C' sF hrun
          unfold MState.pop at h
          split at h
          · cases h
          · cases h
          · rename_i v' s' hp
            split at hp
            · cases hp
            · rename_i x vs hvs
              cases hp
              cases h
              exact ⟨c1, cost0, s0, sF, vs, hc1, hev, hrun, hvs, rfl⟩
  · rintro ⟨c1, cost0, s0, sF, vs, h1, h2, h3, h4, h5⟩
    simp only [h1, h2, h3, MState.pop, h4, h5]

/-- the other outcomes of `run_program` as a function of the loop's outcome -/
theorem runProgram_of_loop {cfg : Cfg} {d : Dialect} {fuel : Nat} {c0 c1 : Ctr} {p e : Val} {M cost0 : Nat}
    {s0 : MState} (h1 : c0.addGhostAtom 1 = .ok c1) (h2 : evalPair cfg d { ctr := c1 } p e = .ok (cost0, s0))
    {err : Err} (h3 : runLoop cfg d (effBudget M) fuel s0 cost0 = some (.error (.err err))) :
    runProgram cfg d fuel c0 p e M = some (.error err) := by
  have hM : (if (M == 0) = true then U64_MAX else M) = effBudget M := by
    unfold effBudget; by_cases h : M = 0 <;> simp [h]
  unfold runProgram
  simp only [hM, h1, h2, h3]

end Clvm.Interp
