/-
C11 (per-operator layer): a call that succeeds under both cost models returns the same value and
leaves the same allocator counters (`OpModelIndep`), for every operator of `coreOpByName`
(both builds) and for `opUnknown`.

The only place where the two models compute *differently* is `binop_reduction` (logand / logior /
logxor): the old model folds the negative arguments into a second accumulator and combines at the
end; equality needs associativity, commutativity and the identity element of the
two's-complement operations (`IntBitwise.lean`).  `op_add` / `op_subtract` split the sum over two
accumulators in the old model only.  Everything else differs in costs and limit checks only.
-/
import ClvmProofs.Lemmas.Interp.Flags
import ClvmProofs.Lemmas.Interp.IntBitwise

namespace Clvm.Interp
open Clvm Clvm.Alloc

/-! ### generic ways to get `OpModelIndep` -/

/-- the operator looks neither at the flags nor at the budget -/
theorem modelIndep_of_const {f : OpFn} (h : ∀ F G m m' a c, f F m a c = f G m' a c) : OpModelIndep f := by
  intro F m m' a c r r' _ hr hr'
  rw [h F (F ||| Gen.FLAG_NEW_COST_MODEL) m m' a c, hr'] at hr
  cases hr; rfl

/-- the value/counters projection of the outcome does not depend on flags or budget -/
theorem modelIndep_of_proj {f : OpFn}
    (h : ∀ F G m m' a c, Except.map Prod.snd (f F m a c) = Except.map Prod.snd (f G m' a c)) :
    OpModelIndep f := by
  intro F m m' a c r r' _ hr hr'
  have := h F (F ||| Gen.FLAG_NEW_COST_MODEL) m m' a c
  rw [hr, hr'] at this
  simpa [Except.map] using this

/-- the successful outcomes have a value/counters component determined by `(args, c)` alone -/
theorem modelIndep_of_spec {f : OpFn} (spec : Val → Ctr → Option (Val × Ctr))
    (h : ∀ F m a c r, f F m a c = .ok r → spec a c = some r.2) : OpModelIndep f := by
  intro F m m' a c r r' _ hr hr'
  have h1 := h _ _ _ _ _ hr
  have h2 := h _ _ _ _ _ hr'
  rw [h1] at h2
  exact Option.some.inj h2

theorem opCons_modelIndep : OpModelIndep opCons := modelIndep_of_const (fun _ _ _ _ _ _ => rfl)
theorem opFirst_modelIndep : OpModelIndep opFirst := modelIndep_of_const (fun _ _ _ _ _ _ => rfl)
theorem opRest_modelIndep : OpModelIndep opRest := modelIndep_of_const (fun _ _ _ _ _ _ => rfl)
theorem opRaise_modelIndep : OpModelIndep opRaise := modelIndep_of_const (fun _ _ _ _ _ _ => rfl)
theorem opEq_modelIndep : OpModelIndep opEq := modelIndep_of_const (fun _ _ _ _ _ _ => rfl)
theorem opGrBytes_modelIndep : OpModelIndep opGrBytes := modelIndep_of_const (fun _ _ _ _ _ _ => rfl)
theorem opStrlen_modelIndep : OpModelIndep opStrlen := modelIndep_of_const (fun _ _ _ _ _ _ => rfl)
theorem opAsh_modelIndep : OpModelIndep opAsh := modelIndep_of_const (fun _ _ _ _ _ _ => rfl)
theorem opLsh_modelIndep : OpModelIndep opLsh := modelIndep_of_const (fun _ _ _ _ _ _ => rfl)
theorem opLognot_modelIndep : OpModelIndep opLognot := modelIndep_of_const (fun _ _ _ _ _ _ => rfl)
theorem opNot_modelIndep : OpModelIndep opNot := modelIndep_of_const (fun _ _ _ _ _ _ => rfl)

theorem opIf_modelIndep : OpModelIndep opIf := modelIndep_of_proj (by
  intro F G m m' a c
  simp only [opIf]
  cases getArgs3 a "i" with
  | error e => rfl
  | ok p => rfl)

theorem opListp_modelIndep : OpModelIndep opListp := modelIndep_of_proj (by
  intro F G m m' a c
  simp only [opListp]
  cases getArgs1 a "l" with
  | error e => rfl
  | ok p => rfl)

theorem opGr_modelIndep (cfg : Cfg) : OpModelIndep (opGr cfg) := modelIndep_of_proj (by
  intro F G m m' a c
  simp only [opGr]
  cases getArgs2 a ">" with
  | error e => rfl
  | ok p =>
    obtain ⟨v0, v1⟩ := p
    simp only []
    cases cfg.fastpath
    · simp only [Bool.false_eq_true, ↓reduceIte]
      cases intAtom v0 ">" with
      | error e => rfl
      | ok p0 =>
        cases intAtom v1 ">" with
        | error e => rfl
        | ok p1 => rfl
    · simp only [↓reduceIte]
      cases smallNumber v0 with
      | none =>
        simp only []
        cases intAtom v0 ">" with
        | error e => rfl
        | ok p0 =>
          cases intAtom v1 ">" with
          | error e => rfl
          | ok p1 => rfl
      | some n0 =>
        cases smallNumber v1 with
        | none =>
          simp only []
          cases intAtom v0 ">" with
          | error e => rfl
          | ok p0 =>
            cases intAtom v1 ">" with
            | error e => rfl
            | ok p1 => rfl
        | some n1 => rfl)

theorem opSubstr_modelIndep : OpModelIndep opSubstr := modelIndep_of_proj (by
  intro F G m m' a c
  simp only [opSubstr]
  repeat' split
  all_goals rfl)

/-! ### helpers -/

theorem newAtomAndCost_snd {c : Ctr} {cost : Nat} {buf : Bytes} {r : Nat × Val × Ctr}
    (h : newAtomAndCost c cost buf = .ok r) : allocAtom c buf = .ok r.2 := by
  unfold newAtomAndCost at h
  split at h
  · cases h
  · rename_i v c' heq; cases h; exact heq

theorem newAtomAndCost_indep {c : Ctr} {cost cost' : Nat} {buf : Bytes} {r r' : Nat × Val × Ctr}
    (h : newAtomAndCost c cost buf = .ok r) (h' : newAtomAndCost c cost' buf = .ok r') : r.2 = r'.2 := by
  have h1 := newAtomAndCost_snd h
  have h2 := newAtomAndCost_snd h'
  rw [h1] at h2
  exact Except.ok.inj h2

theorem checked_indep {α} {x m : Nat} {k : Except Err α} {r : α}
    (h : (match checkCost x m with | .error e => (Except.error e : Except Err α) | .ok () => k) = .ok r) : k = .ok r := by
  split at h
  · cases h
  · exact h

theorem sha256Loop_indep (l : List Val) : ∀ {cpa cpb m cost cpa' cpb' m' cost' : Nat} {acc : Bytes}
    {r r' : Nat × Bytes}, sha256Loop cpa cpb m l cost acc = .ok r →
    sha256Loop cpa' cpb' m' l cost' acc = .ok r' → r.2 = r'.2 := by
  induction l with
  | nil =>
    intro cpa cpb m cost cpa' cpb' m' cost' acc r r' h h'
    simp only [sha256Loop] at h h'
    cases h; cases h'; rfl
  | cons a l ih =>
    intro cpa cpb m cost cpa' cpb' m' cost' acc r r' h h'
    simp only [sha256Loop] at h h'
    cases hb : atomBytes a "sha256" with
    | error e => simp [hb] at h
    | ok blob =>
      simp only [hb] at h h'
      exact ih (checked_indep h) (checked_indep h')

theorem sha256Generic_indep {c : Ctr} {l : List Val} {cpa cpb m cost cpa' cpb' m' cost' : Nat}
    {r r' : Nat × Val × Ctr}
    (h : (match sha256Loop cpa cpb m l cost [] with
      | .error e => (Except.error e : OpRes)
      | .ok (cost, data) => newAtomAndCost c cost (Hash.sha256 data)) = .ok r)
    (h' : (match sha256Loop cpa' cpb' m' l cost' [] with
      | .error e => (Except.error e : OpRes)
      | .ok (cost, data) => newAtomAndCost c cost (Hash.sha256 data)) = .ok r') : r.2 = r'.2 := by
  split at h
  · cases h
  · rename_i c1 d1 h1
    split at h'
    · cases h'
    · rename_i c2 d2 h2
      have : d1 = d2 := sha256Loop_indep l h1 h2
      subst this
      exact newAtomAndCost_indep h h'

theorem opSha256_modelIndep (cfg : Cfg) : OpModelIndep (opSha256 cfg) := by
  intro F m m' a c r r' hF hr hr'
  have hnF : newModel F = false := hF
  have hnG := newModel_or_newModel F
  simp only [opSha256, hnF, hnG, ↓reduceIte, Bool.false_eq_true] at hr hr'
  by_cases hnil : a.isNilPtr = true
  · simp only [hnil, ↓reduceIte] at hr hr'
    exact newAtomAndCost_indep hr hr'
  · simp only [hnil, ↓reduceIte, Bool.false_eq_true] at hr hr'
    cases hfp : cfg.fastpath
    · simp only [hfp, Bool.false_eq_true, ↓reduceIte] at hr hr'
      exact sha256Generic_indep hr hr'
    · simp only [hfp, ↓reduceIte] at hr hr'
      cases hm : matchArgs 2 a with
      | none => simp only [hm] at hr hr'; exact sha256Generic_indep hr hr'
      | some l =>
        match l, hm with
        | [], hm => simp only [hm] at hr hr'; exact sha256Generic_indep hr hr'
        | [_], hm => simp only [hm] at hr hr'; exact sha256Generic_indep hr hr'
        | _ :: _ :: _ :: _, hm => simp only [hm] at hr hr'; exact sha256Generic_indep hr hr'
        | [v0, v1], hm =>
          simp only [hm] at hr hr'
          by_cases h1 : (smallNumber v0 == some 1) = true
          · simp only [h1, ↓reduceIte] at hr hr'
            cases hs : smallNumber v1 with
            | none => simp only [hs] at hr hr'; exact sha256Generic_indep hr hr'
            | some val =>
              simp only [hs] at hr hr'
              by_cases hlt : val < Gen.thPrecomputedHashes.length
              · simp only [hlt, ↓reduceIte] at hr hr'
                exact newAtomAndCost_indep (checked_indep hr) (checked_indep hr')
              · simp only [hlt, ↓reduceIte] at hr hr'
                exact sha256Generic_indep hr hr'
          · simp only [h1, ↓reduceIte, Bool.false_eq_true] at hr hr'
            exact sha256Generic_indep hr hr'

theorem concatLoop_indep (l : List Val) : ∀ {m cost m' cost' ts : Nat} {terms : List Val}
    {r r' : Nat × Nat × List Val}, concatLoop m l cost ts terms = .ok r →
    concatLoop m' l cost' ts terms = .ok r' → r.2 = r'.2 := by
  induction l with
  | nil =>
    intro m cost m' cost' ts terms r r' h h'
    simp only [concatLoop] at h h'
    cases h; cases h'; rfl
  | cons a l ih =>
    intro m cost m' cost' ts terms r r' h h'
    cases a with
    | pair x y => simp [concatLoop] at h
    | atom b inl =>
      simp only [concatLoop] at h h'
      have h1 := checked_indep h
      have h2 := checked_indep h'
      by_cases hl : b.length > 0
      · rw [if_pos hl] at h1 h2; exact ih h1 h2
      · rw [if_neg hl] at h1 h2; exact ih h1 h2

theorem opConcat_modelIndep : OpModelIndep opConcat := by
  intro F m m' a c r r' _ hr hr'
  simp only [opConcat] at hr hr'
  split at hr
  · cases hr
  · rename_i c1 ts1 t1 h1
    split at hr'
    · cases hr'
    · rename_i c2 ts2 t2 h2
      have := concatLoop_indep _ h1 h2
      simp only [Prod.mk.injEq] at this
      obtain ⟨rfl, rfl⟩ := this
      split at hr
      · cases hr
      · rename_i v cc hv
        rw [hv] at hr'
        cases hr; cases hr'; rfl

theorem boolLoop_indep (l : List Val) : ∀ {m cost m' cost' : Nat} {isAny acc : Bool}
    {r r' : Nat × Bool}, boolLoop m isAny l cost acc = .ok r →
    boolLoop m' isAny l cost' acc = .ok r' → r.2 = r'.2 := by
  induction l with
  | nil =>
    intro m cost m' cost' isAny acc r r' h h'
    simp only [boolLoop] at h h'
    cases h; cases h'; rfl
  | cons a l ih =>
    intro m cost m' cost' isAny acc r r' h h'
    simp only [boolLoop] at h h'
    exact ih (checked_indep h) (checked_indep h')

theorem opAny_modelIndep : OpModelIndep opAny := by
  intro F m m' a c r r' _ hr hr'
  simp only [opAny] at hr hr'
  split at hr
  · cases hr
  · rename_i c1 b1 h1
    split at hr'
    · cases hr'
    · rename_i c2 b2 h2
      have : b1 = b2 := boolLoop_indep _ h1 h2
      subst this
      cases hr; cases hr'; rfl

theorem opAll_modelIndep : OpModelIndep opAll := by
  intro F m m' a c r r' _ hr hr'
  simp only [opAll] at hr hr'
  split at hr
  · cases hr
  · rename_i c1 b1 h1
    split at hr'
    · cases hr'
    · rename_i c2 b2 h2
      have : b1 = b2 := boolLoop_indep _ h1 h2
      subst this
      cases hr; cases hr'; rfl

/-- inversion of the common tail `let v = new_number(total)?; Ok(malloc_cost(cost, v))` -/
theorem numTail_inv {c : Ctr} {X : Except Err (Nat × Int)} {r : Nat × Val × Ctr}
    (h : (match X with
      | .error e => (Except.error e : OpRes)
      | .ok (cost, total) =>
        match allocNumber c total with
        | .error e => .error e
        | .ok (v, c') => .ok (mallocCost cost v, v, c')) = .ok r) :
    ∃ cost total, X = .ok (cost, total) ∧ allocNumber c total = .ok r.2 := by
  split at h
  · cases h
  · rename_i cost total
    split at h
    · cases h
    · rename_i v c' hv
      cases h
      exact ⟨cost, total, rfl, hv⟩

theorem numTail_indep {c : Ctr} {X X' : Except Err (Nat × Int)} {r r' : Nat × Val × Ctr}
    (h : (match X with
      | .error e => (Except.error e : OpRes)
      | .ok (cost, total) =>
        match allocNumber c total with
        | .error e => .error e
        | .ok (v, c') => .ok (mallocCost cost v, v, c')) = .ok r)
    (h' : (match X' with
      | .error e => (Except.error e : OpRes)
      | .ok (cost, total) =>
        match allocNumber c total with
        | .error e => .error e
        | .ok (v, c') => .ok (mallocCost cost v, v, c')) = .ok r')
    (hX : ∀ p p', X = .ok p → X' = .ok p' → p.2 = p'.2) : r.2 = r'.2 := by
  obtain ⟨c1, t1, h1, ha⟩ := numTail_inv h
  obtain ⟨c2, t2, h2, ha'⟩ := numTail_inv h'
  have : t1 = t2 := hX _ _ h1 h2
  subst this
  rw [ha] at ha'
  exact Except.ok.inj ha'

theorem addFast_indep (l : List Val) : ∀ {nm : Bool} {cpa cpb m cost : Nat} {nm' : Bool}
    {cpa' cpb' m' cost' total : Nat} {o o' : Option (Nat × Nat)},
    addFast nm cpa cpb m l cost total = .ok o → addFast nm' cpa' cpb' m' l cost' total = .ok o' →
    o.map Prod.snd = o'.map Prod.snd := by
  induction l with
  | nil =>
    intro nm cpa cpb m cost nm' cpa' cpb' m' cost' total o o' h h'
    simp only [addFast] at h h'
    cases h; cases h'; rfl
  | cons a l ih =>
    intro nm cpa cpb m cost nm' cpa' cpb' m' cost' total o o' h h'
    cases a with
    | pair x y => simp only [addFast, node] at h h'; cases h; cases h'; rfl
    | atom b inl =>
      cases inl
      · simp only [addFast, node] at h h'; cases h; cases h'; rfl
      · simp only [addFast, node] at h h'
        have h1 := checked_indep h
        have h2 := checked_indep h'
        by_cases hov : total + beNat b > U64_MAX
        · rw [if_pos hov] at h1 h2; cases h1; cases h2; rfl
        · rw [if_neg hov] at h1 h2; exact ih h1 h2

theorem addGeneric_indep (l : List Val) : ∀ {cpa cpb m cost cpa' cpb' m' cost' : Nat}
    {acc small acc' small' : Int} {r r' : Nat × Int},
    addGeneric false cpa cpb m l cost acc small = .ok r →
    addGeneric true cpa' cpb' m' l cost' acc' small' = .ok r' → acc + small = small' → r.2 = r'.2 := by
  induction l with
  | nil =>
    intro cpa cpb m cost cpa' cpb' m' cost' acc small acc' small' r r' h h' e
    simp only [addGeneric, Bool.false_eq_true, ↓reduceIte] at h h'
    cases h; cases h'; exact e
  | cons a l ih =>
    intro cpa cpb m cost cpa' cpb' m' cost' acc small acc' small' r r' h h' e
    cases a with
    | pair x y => simp [addGeneric, node] at h
    | atom b inl =>
      cases inl
      · simp only [addGeneric, node, Bool.false_eq_true, ↓reduceIte] at h h'
        exact ih (checked_indep h) (checked_indep h') (by omega)
      · simp only [addGeneric, node, Bool.false_eq_true, ↓reduceIte] at h h'
        exact ih (checked_indep h) (checked_indep h') (by omega)

theorem opAdd_modelIndep (cfg : Cfg) : OpModelIndep (opAdd cfg) := by
  intro F m m' a c r r' hF hr hr'
  have hnF : newModel F = false := hF
  have hnG := newModel_or_newModel F
  simp only [opAdd, arithCosts, hnF, hnG, ↓reduceIte, Bool.false_eq_true] at hr hr'
  cases hfp : cfg.fastpath
  · simp only [hfp, Bool.false_eq_true, ↓reduceIte] at hr hr'
    exact numTail_indep hr hr' (fun p p' h h' => addGeneric_indep _ h h' rfl)
  · simp only [hfp, ↓reduceIte] at hr hr'
    split at hr
    · cases hr
    · rename_i c1 t1 h1
      split at hr'
      · cases hr'
      · rename_i c2 t2 h2
        have := addFast_indep _ h1 h2
        simp only [Option.map_some, Option.some.injEq] at this
        subst this
        split at hr
        · cases hr
        · rename_i v cc hv
          rw [hv] at hr'
          cases hr; cases hr'; rfl
      · rename_i h2
        have := addFast_indep _ h1 h2
        simp at this
    · rename_i h1
      split at hr'
      · cases hr'
      · rename_i c2 t2 h2
        have := addFast_indep _ h1 h2
        simp at this
      · exact numTail_indep hr hr' (fun p p' h h' => addGeneric_indep _ h h' rfl)

theorem subFast_indep (l : List Val) : ∀ {nm : Bool} {cpa cpb m cost : Nat} {nm' : Bool}
    {cpa' cpb' m' cost' : Nat} {total : Int} {isFirst : Bool} {o o' : Option (Nat × Int)},
    subFast nm cpa cpb m l cost total isFirst = .ok o → subFast nm' cpa' cpb' m' l cost' total isFirst = .ok o' →
    o.map Prod.snd = o'.map Prod.snd := by
  induction l with
  | nil =>
    intro nm cpa cpb m cost nm' cpa' cpb' m' cost' total isFirst o o' h h'
    simp only [subFast] at h h'
    cases h; cases h'; rfl
  | cons a l ih =>
    intro nm cpa cpb m cost nm' cpa' cpb' m' cost' total isFirst o o' h h'
    cases a with
    | pair x y => simp only [subFast, node] at h h'; cases h; cases h'; rfl
    | atom b inl =>
      cases inl
      · simp only [subFast, node] at h h'; cases h; cases h'; rfl
      · simp only [subFast, node] at h h'
        have h1 := checked_indep h
        have h2 := checked_indep h'
        cases isFirst
        · simp only [Bool.false_eq_true, ↓reduceIte] at h1 h2
          by_cases hov : total - (beNat b : Int) < I64_MIN ∨ total - (beNat b : Int) > I64_MAX
          · rw [if_pos hov] at h1 h2; cases h1; cases h2; rfl
          · rw [if_neg hov] at h1 h2; exact ih h1 h2
        · simp only [↓reduceIte] at h1 h2
          exact ih h1 h2

theorem subGeneric_indep (l : List Val) : ∀ {cpa cpb m cost cpa' cpb' m' cost' : Nat}
    {acc small acc' small' : Int} {isFirst : Bool} {r r' : Nat × Int},
    subGeneric false cpa cpb m l cost acc small isFirst = .ok r →
    subGeneric true cpa' cpb' m' l cost' acc' small' isFirst = .ok r' → acc + small = small' → r.2 = r'.2 := by
  induction l with
  | nil =>
    intro cpa cpb m cost cpa' cpb' m' cost' acc small acc' small' isFirst r r' h h' e
    simp only [subGeneric, Bool.false_eq_true, ↓reduceIte] at h h'
    cases h; cases h'; exact e
  | cons a l ih =>
    intro cpa cpb m cost cpa' cpb' m' cost' acc small acc' small' isFirst r r' h h' e
    simp only [subGeneric] at h h'
    have h := checked_indep h
    have h' := checked_indep h'
    cases a with
    | pair x y => simp [node] at h
    | atom b inl =>
      cases inl
      · simp only [node, Bool.false_eq_true, ↓reduceIte] at h h'
        exact ih (checked_indep h) (checked_indep h') (by omega)
      · simp only [node, Bool.false_eq_true, ↓reduceIte] at h h'
        exact ih (checked_indep h) (checked_indep h') (by omega)

theorem opSubtract_modelIndep (cfg : Cfg) : OpModelIndep (opSubtract cfg) := by
  intro F m m' a c r r' hF hr hr'
  have hnF : newModel F = false := hF
  have hnG := newModel_or_newModel F
  simp only [opSubtract, arithCosts, hnF, hnG, ↓reduceIte, Bool.false_eq_true] at hr hr'
  cases hfp : cfg.fastpath
  · simp only [hfp, Bool.false_eq_true, ↓reduceIte] at hr hr'
    exact numTail_indep hr hr' (fun p p' h h' => subGeneric_indep _ h h' rfl)
  · simp only [hfp, ↓reduceIte] at hr hr'
    split at hr
    · cases hr
    · rename_i c1 t1 h1
      split at hr'
      · cases hr'
      · rename_i c2 t2 h2
        have := subFast_indep _ h1 h2
        simp only [Option.map_some, Option.some.injEq] at this
        subst this
        split at hr
        · cases hr
        · rename_i v cc hv
          rw [hv] at hr'
          cases hr; cases hr'; rfl
      · rename_i h2
        have := subFast_indep _ h1 h2
        simp at this
    · rename_i h1
      split at hr'
      · cases hr'
      · rename_i c2 t2 h2
        have := subFast_indep _ h1 h2
        simp at this
      · exact numTail_indep hr hr' (fun p p' h h' => subGeneric_indep _ h h' rfl)

theorem guard_inv {α : Type} {b : Bool} {e : Err} {x : Except Err α} {r : α}
    (h : (if b = true then Except.error e else x) = .ok r) : x = .ok r := by
  cases b
  · exact h
  · cases h

/-- one iteration of `op_multiply`'s loop: the new product does not depend on flags or budget -/
theorem mulLoop_indep (cfg : Cfg) (l : List Val) : ∀ {F G m m' sq sq' cost cost' : Nat} {total : Int} {l0 : Nat}
    {r r' : Nat × Int}, mulLoop cfg F m sq l cost total l0 = .ok r →
    mulLoop cfg G m' sq' l cost' total l0 = .ok r' → r.2 = r'.2 := by
  induction l with
  | nil =>
    intro F G m m' sq sq' cost cost' total l0 r r' h h'
    simp only [mulLoop] at h h'
    cases h; cases h'; rfl
  | cons a l ih =>
    intro F G m m' sq sq' cost cost' total l0 r r' h h'
    simp only [mulLoop] at h h'
    cases a with
    | pair x y => cases hfp : cfg.fastpath <;> simp [hfp, node, intAtom] at h
    | atom b inl =>
      cases inl <;> cases hfp : cfg.fastpath <;>
        simp only [hfp, node, intAtom, Bool.false_eq_true, ↓reduceIte] at h h'
      case true.true =>
        split at h
        · cases h
        · rename_i c2 t2 h2
          split at h'
          · cases h'
          · rename_i c3 t3 h3
            have e2 := checked_indep h2
            have e3 := checked_indep h3
            cases e2; cases e3
            exact ih (guard_inv h) (guard_inv h')
      all_goals
        split at h
        · cases h
        · rename_i c2 t2 h2
          split at h'
          · cases h'
          · rename_i c3 t3 h3
            have e2 := checked_indep (guard_inv h2)
            have e3 := checked_indep (guard_inv h3)
            cases e2; cases e3
            exact ih (guard_inv h) (guard_inv h')

theorem opMultiply_modelIndep (cfg : Cfg) : OpModelIndep (opMultiply cfg) := by
  intro F m m' a c r r' hF hr hr'
  simp only [opMultiply] at hr hr'
  refine numTail_indep hr hr' ?_
  intro p p' h h'
  cases hl : argList a with
  | nil => simp only [hl] at h h'; cases h; cases h'; rfl
  | cons arg rest =>
    simp only [hl] at h h'
    cases hi : intAtom arg "*" with
    | error e => simp [hi] at h
    | ok tl =>
      obtain ⟨t, l0⟩ := tl
      simp only [hi] at h h'
      have h1 := guard_inv h
      have h2 := guard_inv h'
      split at h1
      · cases h1
      · split at h2
        · cases h2
        · exact mulLoop_indep cfg rest h1 h2

theorem divPrologue_indep {intA : Val → String → Except Err (Int × Nat)} {n e : String} {b p F G m m' : Nat}
    {a : Val} {r r' : Int × Int × Nat}
    (h : divPrologue intA n e b p F m a = .ok r) (h' : divPrologue intA n e b p G m' a = .ok r') :
    r.1 = r'.1 ∧ r.2.1 = r'.2.1 := by
  simp only [divPrologue] at h h'
  cases hg : getArgs2 a n with
  | error e => simp [hg] at h
  | ok vs =>
    obtain ⟨v0, v1⟩ := vs
    simp only [hg] at h h'
    cases h0 : intA v0 n with
    | error e => simp [h0] at h
    | ok p0 =>
      obtain ⟨a0, l0⟩ := p0
      simp only [h0] at h h'
      cases h1 : intA v1 n with
      | error e => simp [h1] at h
      | ok p1 =>
        obtain ⟨a1, l1⟩ := p1
        simp only [h1] at h h'
        have k := guard_inv (guard_inv h)
        have k' := guard_inv (guard_inv h')
        split at k
        · cases k
        · split at k'
          · cases k'
          · have k := guard_inv (checked_indep k)
            have k' := guard_inv (checked_indep k')
            cases k; cases k'; exact ⟨rfl, rfl⟩

theorem opDivWith_modelIndep (intA) : OpModelIndep (opDivWith intA) := by
  intro F m m' a c r r' hF hr hr'
  simp only [opDivWith] at hr hr'
  split at hr
  · cases hr
  · rename_i a0 a1 cost h1
    split at hr'
    · cases hr'
    · rename_i b0 b1 cost' h2
      have := divPrologue_indep h1 h2
      simp only at this
      obtain ⟨rfl, rfl⟩ := this
      split at hr
      · cases hr
      · rename_i q cc hq
        rw [hq] at hr'
        cases hr; cases hr'; rfl

theorem opModWith_modelIndep (intA) : OpModelIndep (opModWith intA) := by
  intro F m m' a c r r' hF hr hr'
  simp only [opModWith] at hr hr'
  split at hr
  · cases hr
  · rename_i a0 a1 cost h1
    split at hr'
    · cases hr'
    · rename_i b0 b1 cost' h2
      have := divPrologue_indep h1 h2
      simp only at this
      obtain ⟨rfl, rfl⟩ := this
      split at hr
      · cases hr
      · rename_i q cc hq
        rw [hq] at hr'
        cases hr; cases hr'; rfl

theorem opDivmodWith_modelIndep (intA) : OpModelIndep (opDivmodWith intA) := by
  intro F m m' a c r r' hF hr hr'
  simp only [opDivmodWith] at hr hr'
  split at hr
  · cases hr
  · rename_i a0 a1 cost h1
    split at hr'
    · cases hr'
    · rename_i b0 b1 cost' h2
      have := divPrologue_indep h1 h2
      simp only at this
      obtain ⟨rfl, rfl⟩ := this
      split at hr
      · cases hr
      · rename_i q cc hq
        rw [hq] at hr'
        simp only at hr hr'
        split at hr
        · cases hr
        · rename_i q2 cc2 hq2
          rw [hq2] at hr'
          simp only at hr hr'
          split at hr
          · cases hr
          · rename_i q3 cc3 hq3
            rw [hq3] at hr'
            cases hr; cases hr'; rfl

theorem opModpowWith_modelIndep (intA) : OpModelIndep (opModpowWith intA) := by
  intro F m m' a c r r' hF hr hr'
  simp only [opModpowWith] at hr hr'
  cases hg : getArgs3 a "modpow" with
  | error e => simp [hg] at hr
  | ok vs =>
    obtain ⟨v0, v1, v2⟩ := vs
    simp only [hg] at hr hr'
    cases h0 : intA v0 "modpow" with
    | error e => simp [h0] at hr
    | ok p0 =>
      obtain ⟨a0, l0⟩ := p0
      simp only [h0] at hr hr'
      cases h1 : intA v1 "modpow" with
      | error e => simp [h1] at hr
      | ok p1 =>
        obtain ⟨a1, l1⟩ := p1
        simp only [h1] at hr hr'
        cases h2 : intA v2 "modpow" with
        | error e => simp [h2] at hr
        | ok p2 =>
          obtain ⟨a2, l2⟩ := p2
          simp only [h2] at hr hr'
          split at hr
          · cases hr
          · split at hr'
            · cases hr'
            · have k := checked_indep hr
              have k' := checked_indep hr'
              have k := guard_inv k
              have k' := guard_inv k'
              by_cases hneg : a1 < 0
              · rw [if_pos hneg] at k; cases k
              · rw [if_neg hneg] at k k'
                have k := guard_inv k
                have k' := guard_inv k'
                split at k
                · cases k
                · rename_i v cc hv
                  rw [hv] at k'
                  cases k; cases k'; rfl

theorem opUnknown_val {op : Bytes} {F m : Nat} {a : Val} {c : Ctr} {r : Nat × Val × Ctr}
    (h : opUnknown op F m a c = .ok r) : r.2 = (Val.nil, c) := by
  simp only [opUnknown] at h
  repeat' split at h
  all_goals first
    | (cases h; done)
    | (cases h; rfl)

theorem opUnknown_modelIndep (op : Bytes) : OpModelIndep (opUnknown op) := by
  intro F m m' a c r r' _ hr hr'
  rw [opUnknown_val hr, opUnknown_val hr']

/-- the old model's split accumulators combine to the new model's single accumulator -/
theorem binopLoop_indep {f : Int → Int → Int} (hc : ∀ x y, f x y = f y x)
    (ha : ∀ x y z, f (f x y) z = f x (f y z)) (name : String) (l : List Val) :
    ∀ {m cost m' cost' : Nat} {pos neg pos' neg' : Int} {r r' : Nat × Int},
    binopLoop name false f m l cost pos neg = .ok r →
    binopLoop name true f m' l cost' pos' neg' = .ok r' → f pos neg = pos' → r.2 = r'.2 := by
  induction l with
  | nil =>
    intro m cost m' cost' pos neg pos' neg' r r' h h' e
    simp only [binopLoop, Bool.false_eq_true, ↓reduceIte] at h h'
    cases h; cases h'; exact e
  | cons a l ih =>
    intro m cost m' cost' pos neg pos' neg' r r' h h' e
    simp only [binopLoop] at h h'
    cases hi : intAtom a name with
    | error e => simp [hi] at h
    | ok p =>
      obtain ⟨n0, len⟩ := p
      simp only [hi, Bool.false_eq_true, ↓reduceIte] at h h'
      by_cases hneg : n0 < 0
      · simp only [hneg, ↓reduceIte] at h
        refine ih (checked_indep h) (checked_indep h') ?_
        rw [← e, ha]
      · simp only [hneg, ↓reduceIte] at h
        refine ih (checked_indep h) (checked_indep h') ?_
        rw [← e, ha, ha, hc n0 neg]

theorem binopReduction_modelIndep {f : Int → Int → Int} (hc : ∀ x y, f x y = f y x)
    (ha : ∀ x y z, f (f x y) z = f x (f y z)) (name : String) (init : Int) (hi : f init init = init) :
    OpModelIndep (binopReduction name init f) := by
  intro F m m' a c r r' hF hr hr'
  have hnF : newModel F = false := hF
  have hnG := newModel_or_newModel F
  simp only [binopReduction, hnF, hnG] at hr hr'
  exact numTail_indep hr hr' (fun p p' h h' => binopLoop_indep hc ha name _ h h' hi)

theorem opLogand_modelIndep : OpModelIndep opLogand :=
  binopReduction_modelIndep intAnd_comm intAnd_assoc _ _ (intAnd_neg_one _)
theorem opLogior_modelIndep : OpModelIndep opLogior :=
  binopReduction_modelIndep intOr_comm intOr_assoc _ _ (intOr_zero _)
theorem opLogxor_modelIndep : OpModelIndep opLogxor :=
  binopReduction_modelIndep intXor_comm intXor_assoc _ _ (intXor_zero _)

theorem opDiv_modelIndep : OpModelIndep opDiv := by
  intro F m m' a c r r' hF hr hr'
  rw [opDiv_eq] at hr hr'
  exact opDivWith_modelIndep intAtom F m m' a c r r' hF hr hr'
theorem opDivmod_modelIndep : OpModelIndep opDivmod := by
  intro F m m' a c r r' hF hr hr'
  rw [opDivmod_eq] at hr hr'
  exact opDivmodWith_modelIndep intAtom F m m' a c r r' hF hr hr'
theorem opMod_modelIndep : OpModelIndep opMod := by
  intro F m m' a c r r' hF hr hr'
  rw [opMod_eq] at hr hr'
  exact opModWith_modelIndep intAtom F m m' a c r r' hF hr hr'
theorem opModpow_modelIndep : OpModelIndep opModpow := by
  intro F m m' a c r r' hF hr hr'
  rw [opModpow_eq] at hr hr'
  exact opModpowWith_modelIndep intAtom F m m' a c r r' hF hr hr'

/-! ### aggregate -/

/-- **C11**: every core operator, in both builds -/
theorem coreOps_modelIndep {cfg : Cfg} {name : String} {f : OpFn} (hf : coreOpByName cfg name = some f) :
    OpModelIndep f := by
  unfold coreOpByName at hf
  split at hf <;> (try cases hf) <;> first
    | exact opIf_modelIndep
    | exact opCons_modelIndep
    | exact opFirst_modelIndep
    | exact opRest_modelIndep
    | exact opListp_modelIndep
    | exact opRaise_modelIndep
    | exact opEq_modelIndep
    | exact opGrBytes_modelIndep
    | exact opSha256_modelIndep _
    | exact opSubstr_modelIndep
    | exact opStrlen_modelIndep
    | exact opConcat_modelIndep
    | exact opAdd_modelIndep _
    | exact opSubtract_modelIndep _
    | exact opMultiply_modelIndep _
    | exact opDiv_modelIndep
    | exact opDivmod_modelIndep
    | exact opGr_modelIndep _
    | exact opAsh_modelIndep
    | exact opLsh_modelIndep
    | exact opLogand_modelIndep
    | exact opLogior_modelIndep
    | exact opLogxor_modelIndep
    | exact opLognot_modelIndep
    | exact opNot_modelIndep
    | exact opAny_modelIndep
    | exact opAll_modelIndep
    | exact opModpow_modelIndep
    | exact opMod_modelIndep

end Clvm.Interp
