/-
The per-operator shapes of `OpProps.lean` for the operators outside the core table, i.e. for
`extra = cryptoExtra` — the dialect the driver actually runs (`chiaDialect cfg cryptoExtra F`).

`cryptoExtra name` is `op_sha256_tree` (`CryptoShapesTree.lean`) or `liftCrypto g` for one of the 17
remaining tree-level operators `g` of `Crypto.opByName` (`op_sha256` is the core transcription and is
not in `cryptoExtra`).  For those, each shape is proved at tree level for every operator of the
dispatch table and *every* choice of the four primitives (`Crypto.opByNameWith P`: hash-to-curve and
pairing enter as parameters; field / curve / secp arithmetic is never unfolded):

  shape          tree level (`Clvm.Crypto.Ops`)         file
  OpBudget       `opByNameWith_budget`                  CryptoShapesBudget.lean
  OpClean        `opByNameWith_clean`                   CryptoShapesClean.lean
  OpWf           (holds for every `liftCrypto g`)       CryptoShapesAux.lean
  OpRestrict     `opByNameWith_restrict`                CryptoShapesFlags.lean, CryptoShapesModel.lean
  OpRelax        `opByNameWith_relax`                   "
  OpModelIndep   `opByNameWith_modelIndep`              CryptoShapesModel.lean

and transported by `liftCrypto_budget`, … (`CryptoShapesAux.lean`).  All six hold without
exception and without any hypothesis about the arithmetic: no `_partial`, no `_witness`.
-/
import ClvmProofs.Lemmas.Interp.CryptoShapesClean
import ClvmProofs.Lemmas.Interp.CryptoShapesModel
import ClvmProofs.Lemmas.Interp.CryptoShapesTree

namespace Clvm.Interp
open Clvm Clvm.Crypto

/-- the two kinds of operators in `cryptoExtra` -/
theorem cryptoExtra_cases {name : String} {f : OpFn} (h : cryptoExtra name = some f) :
    f = opSha256Tree ∨ ∃ g, Crypto.opByNameWith Crypto.leanPrimitives name = some g ∧ f = liftCrypto g := by
  unfold cryptoExtra at h
  split at h
  · cases h
  · split at h
    · cases h; exact Or.inl rfl
    · cases hc : Crypto.opByName name with
      | none => rw [hc] at h; cases h
      | some g => rw [hc] at h; cases h; exact Or.inr ⟨g, hc, rfl⟩

/-- **C02, operators outside the core table**: budget shape -/
theorem cryptoExtra_budget (name : String) (f : OpFn) (h : cryptoExtra name = some f) : OpBudget f := by
  rcases cryptoExtra_cases h with rfl | ⟨g, hg, rfl⟩
  · exact opSha256Tree_budget
  · exact liftCrypto_budget (Ops.opByNameWith_budget _ hg)

/-- **C25, operators outside the core table**: no `Panic` / `InternalError` / `Abort` on well-formed
arguments -/
theorem cryptoExtra_clean (name : String) (f : OpFn) (h : cryptoExtra name = some f) : OpClean f := by
  rcases cryptoExtra_cases h with rfl | ⟨g, hg, rfl⟩
  · exact opSha256Tree_clean
  · exact liftCrypto_clean (Ops.opByNameWith_clean _ hg)

/-- results are well-formed, counters only grow -/
theorem cryptoExtra_wf (name : String) (f : OpFn) (h : cryptoExtra name = some f) : OpWf f := by
  rcases cryptoExtra_cases h with rfl | ⟨g, _, rfl⟩
  · exact opSha256Tree_wf
  · exact liftCrypto_wf g

/-- **C07, operators outside the core table**: restriction flags only remove successes -/
theorem cryptoExtra_restrict (name : String) (f : OpFn) (h : cryptoExtra name = some f) : OpRestrict f := by
  rcases cryptoExtra_cases h with rfl | ⟨g, hg, rfl⟩
  · exact opSha256Tree_restrict
  · exact liftCrypto_restrict (Ops.opByNameWith_restrict _ hg)

/-- **C07, operators outside the core table**: RELAXED_BLS only adds successes -/
theorem cryptoExtra_relax (name : String) (f : OpFn) (h : cryptoExtra name = some f) : OpRelax f := by
  rcases cryptoExtra_cases h with rfl | ⟨g, hg, rfl⟩
  · exact opSha256Tree_relax
  · exact liftCrypto_relax (Ops.opByNameWith_relax _ hg)

/-- **C11, operators outside the core table**: values and counters do not depend on the cost model -/
theorem cryptoExtra_modelIndep (name : String) (f : OpFn) (h : cryptoExtra name = some f) :
    OpModelIndep f := by
  rcases cryptoExtra_cases h with rfl | ⟨g, hg, rfl⟩
  · exact opSha256Tree_modelIndep
  · exact liftCrypto_modelIndep (Ops.opByNameWith_modelIndep _ hg)

/-- `cryptoExtra` is not empty: the shapes above are not vacuous -/
example : ∃ f, cryptoExtra "op_bls_g1_multiply" = some f := ⟨_, rfl⟩
example : ∃ f, cryptoExtra "op_sha256_tree" = some f := ⟨_, rfl⟩

end Clvm.Interp
