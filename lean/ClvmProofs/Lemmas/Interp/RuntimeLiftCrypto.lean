/-
C30 for the dialect the crate ships (`extra = cryptoExtra`): no operator outside the core table reads
`LIMITS` under the new cost model, so the flag word `ChiaDialect::new(F)` keeps (`normFlags F`:
`LIMITS` removed under `NEW_COST_MODEL`) and the word `RuntimeDialect::new(…, F)` keeps (`F`) are
the same to every operator (`cryptoExtra_norm`: the hypothesis `ExtraNorm` of `RuntimeLift.lean`).

Only `g1_multiply` / `g2_multiply` read `LIMITS`, as `flags.contains(LIMITS) &&
!flags.contains(NEW_COST_MODEL)`; every other operator reads at most `NEW_COST_MODEL` or
`RELAXED_BLS`, which the normalisation keeps.
-/
import ClvmProofs.Lemmas.Interp.RuntimeLift
import ClvmProofs.Lemmas.Interp.CryptoShapes

namespace Clvm.Crypto.Ops
open Clvm Clvm.Crypto Clvm.Interp

/-- the operator does not distinguish `ChiaDialect::new`'s flag word from the one it was given -/
def TNorm (g : Crypto.OpFn) : Prop := ∀ F, g (normFlags F) = g F

theorem cNewCostModel_normFlags (F : Nat) : newCostModel (normFlags F) = newCostModel F := by
  rw [cNewCostModel_eq, cNewCostModel_eq]; exact (nf_flag F).2.2.2.2.1

theorem cRelaxed_normFlags (F : Nat) :
    hasFlag (normFlags F) Gen.Crypto.flagRelaxedBls = hasFlag F Gen.Crypto.flagRelaxedBls := by
  rw [cRelaxed_eq, cRelaxed_eq]; exact hasFlag_normFlags F 3 (by decide)

theorem cLimits_normFlags (F : Nat) :
    (hasFlag (normFlags F) Gen.Crypto.flagLimits && !newCostModel F) =
      (hasFlag F Gen.Crypto.flagLimits && !newCostModel F) := by
  cases hn : newCostModel F
  · have : normFlags F = F := by
      unfold normFlags
      have : Interp.hasFlag F Gen.FLAG_NEW_COST_MODEL = false := by rw [← cNewCostModel_eq]; exact hn
      simp [this]
    rw [this]
  · simp

theorem NmOnly.norm {g : Crypto.OpFn} (h : NmOnly g) : TNorm g :=
  fun F => h _ _ (cNewCostModel_normFlags F)

theorem opBlsG1Negate_norm : TNorm opBlsG1Negate := fun F => opBlsG1Negate_rel (cRelaxed_normFlags F)
theorem opBlsG2Negate_norm : TNorm opBlsG2Negate := fun F => opBlsG2Negate_rel (cRelaxed_normFlags F)

theorem opBlsG1Multiply_norm : TNorm opBlsG1Multiply := by
  intro F
  funext m args
  simp only [opBlsG1Multiply, cNewCostModel_normFlags F, cLimits_normFlags F]

theorem opBlsG2Multiply_norm : TNorm opBlsG2Multiply := by
  intro F
  funext m args
  simp only [opBlsG2Multiply, cNewCostModel_normFlags F, cLimits_normFlags F]

/-- every operator of the dispatch table, every choice of the primitives -/
theorem opByNameWith_norm (P : Primitives) {name : String} {g : Crypto.OpFn}
    (h : opByNameWith P name = some g) : TNorm g := by
  unfold opByNameWith at h
  split at h <;> first
    | (cases h; done)
    | (cases h; first
        | exact opSha256_nmOnly.norm | exact opKeccak256_nmOnly.norm | exact opCoinid_nmOnly.norm
        | exact opPointAdd_noFlags.nmOnly.norm | exact opPubkeyForExp_noFlags.nmOnly.norm
        | exact opBlsG1Subtract_noFlags.nmOnly.norm | exact opBlsG1Multiply_norm
        | exact opBlsG1Negate_norm | exact opBlsG2Add_noFlags.nmOnly.norm
        | exact opBlsG2Subtract_noFlags.nmOnly.norm | exact opBlsG2Multiply_norm
        | exact opBlsG2Negate_norm | exact (opBlsMapToG1_nmOnly _).norm
        | exact (opBlsMapToG2_nmOnly _).norm | exact (opBlsPairingIdentity_nmOnly _).norm
        | exact (opBlsVerify_nmOnly _).norm | exact opSecp256k1Verify_noFlags.nmOnly.norm
        | exact opSecp256r1Verify_noFlags.nmOnly.norm)

end Clvm.Crypto.Ops

namespace Clvm.Interp
open Clvm Clvm.Crypto

theorem liftCrypto_norm {g : Crypto.OpFn} (h : Ops.TNorm g) (F : Nat) :
    liftCrypto g (normFlags F) = liftCrypto g F := by
  funext m args c
  simp only [liftCrypto, h F]

theorem opSha256Tree_norm (F : Nat) : opSha256Tree (normFlags F) = opSha256Tree F := by
  funext m args c
  have : newModel (normFlags F) = newModel F := (nf_flag F).2.2.2.2.1
  simp only [opSha256Tree, this]

/-- **the operators outside the core table do not see the `LIMITS` normalisation of
`ChiaDialect::new`**, for every flag set -/
theorem cryptoExtra_norm (F : Nat) : ExtraNorm cryptoExtra F := by
  intro name f h
  rcases cryptoExtra_cases h with rfl | ⟨g, hg, rfl⟩
  · exact opSha256Tree_norm F
  · exact liftCrypto_norm (Ops.opByNameWith_norm _ hg) F

end Clvm.Interp
