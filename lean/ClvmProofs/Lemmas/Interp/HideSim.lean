/-
C08 — soft-fork safety as a simulation: a node whose dialect hides the softfork extensions and the
4-byte opcodes (`hideDialect`, the harness' `HideDialect`) accepts every program the aware node
(`chiaDialect`) accepts, with the same cost, value and allocator counters.

Outside guards the two machines take identical steps, except
(i)  `(softfork cost ext prog env)` with an extension the aware node knows: the aware node enters the
     guard; by `guard_program_in_run` (C31 at program level) the completed guard has pushed nil, restored
     the counts and consumed exactly the declared cost — which is what the unaware node does in one step
     (`parse_softfork_arguments` ⇒ `UnknownSoftforkExtension` ⇒ push nil, return the declared cost);
(ii) a 4-byte opcode: hypothesis `FourByteAgree` (whenever the aware operator succeeds, the
     unknown-operator rule gives the same cost, value and counters), discharged for the two secp opcodes by
     `fourByteAgree_of_secp` from the facts of `Props/C08.lean`.
-/
import ClvmProofs.Lemmas.Interp.GuardBig
import ClvmProofs.Lemmas.Interp.LiftChia

namespace Clvm.Interp
open Clvm Clvm.Alloc

/-- the extension-hiding dialect (harness `HideDialect { inner: ChiaDialect::new(F) }`): no softfork
extension is known, a 4-byte opcode is an unknown operator, everything else is `ChiaDialect::op` with
`OperatorSet::Default` -/
def hideDialect (cfg : Cfg) (extra : String → Option OpFn) (F : Nat) : Dialect :=
  let D := chiaDialect cfg extra F
  { D with
    softforkExtension := fun _ => .Default
    op := fun o args m _ c =>
      match o with
      | .atom b _ => if b.length == 4 then some (unknownOperator b args D.flags m c) else D.op o args m .Default c
      | .pair _ _ => D.op o args m .Default c }

/-- on 4-byte opcodes, whenever the aware operator succeeds (within the budget), the unknown-operator rule
gives the same outcome -/
def FourByteAgree (A : Dialect) : Prop :=
  ∀ (ob : Bytes) (oi : Bool) (args : Val) (m : Nat) (c : Ctr) (oc : Nat) (v : Val) (c' : Ctr),
    ob.length = 4 → A.op (.atom ob oi) args m .Default c = some (.ok (oc, v, c')) → oc ≤ m →
    unknownOperator ob args A.flags m c = .ok (oc, v, c')

/-- operators do not change the heap limit (on well-formed operands) -/
def KeepLimit (d : Dialect) : Prop :=
  ∀ (o args : Val) (m : Nat) (ext : OperatorSet) (c : Ctr) (r : Nat × Val × Ctr),
    o.wf = true → args.wf = true → d.op o args m ext c = some (.ok r) → r.2.2.heapLimit = c.heapLimit

/-! ### inversion of `apply_op` -/

/-- the state after `apply_op` popped the operand list, the operator and the environment -/
def popped3 (s0 : MState) (W E : List Val) : MState :=
  { s0 with valStack := W, valLen := s0.valLen - 1 - 1, envStack := E, envLen := s0.envLen - 1 }

inductive ApplyShape (cfg : Cfg) (d : Dialect) (s0 : MState) (cost m : Nat) (ol o : Val) (W E : List Val)
    (c : Nat) (s1 : MState) : Prop
  | apply (p e : Val) (k : Nat) (ha : smallNumber o = some d.applyKw) (hg : getArgs2 ol "apply" = .ok (p, e))
      (hev : evalPair cfg d (popped3 s0 W E) p e = .ok (k, s1)) (hc : c = k + Gen.APPLY_COST)
  | sfUnknown (f : Val) (declared : Nat) (err : Err) (ha : smallNumber o ≠ some d.applyKw)
      (hs : smallNumber o = some d.softforkKw) (hf : first ol = .ok f)
      (hu : uintAtom 8 f "softfork" d.flags = .ok declared) (h1 : ¬ declared > m) (h2 : ¬ (declared == 0) = true)
      (hp : parseSoftforkArguments d ol = .error err) (hal : d.allowUnknownOps = true)
      (hpush : (popped3 s0 W E).push Val.nil = .ok s1) (hc : c = declared)
  | sfGuard (f : Val) (declared : Nat) (ext : OperatorSet) (prg env : Val) (ha : smallNumber o ≠ some d.applyKw)
      (hs : smallNumber o = some d.softforkKw) (hf : first ol = .ok f)
      (hu : uintAtom 8 f "softfork" d.flags = .ok declared) (h1 : ¬ declared > m) (h2 : ¬ (declared == 0) = true)
      (hp : parseSoftforkArguments d ol = .ok (ext, prg, env)) (g : SoftforkGuard) (k : Nat)
      (hev : evalPair cfg d
        (MState.pushOp { popped3 s0 W E with softforkStack := g :: s0.softforkStack } .ExitGuard) prg env =
          .ok (k, s1))
  | op (oc : Nat) (v : Val) (c' : Ctr) (ha : smallNumber o ≠ some d.applyKw)
      (hs : smallNumber o ≠ some d.softforkKw)
      (hop : d.op o ol m (sfExt s0.softforkStack) s0.ctr = some (.ok (oc, v, c')))
      (hpush : ({ popped3 s0 W E with ctr := c' } : MState).push v = .ok s1) (hc : c = oc)

theorem applyOp_inv {cfg : Cfg} {d : Dialect} {s0 s1 : MState} {cost m c : Nat}
    (h : applyOp cfg d s0 cost m = .ok (c, s1)) :
    ∃ ol o W e0 E, s0.valStack = ol :: o :: W ∧ s0.envStack = e0 :: E ∧
      ApplyShape cfg d s0 cost m ol o W E c s1 := by
  have h0 := h
  unfold applyOp at h
  obtain ⟨⟨ol, sp1⟩, h1, h⟩ := M_bind_ok h
  obtain ⟨r1, hr1, rfl⟩ := bs_pop_ok_iff.1 h1
  obtain ⟨⟨o, sp2⟩, h2, h⟩ := M_bind_ok h
  obtain ⟨W, hr2, rfl⟩ := bs_pop_ok_iff.1 h2
  simp only at h hr2
  subst hr2
  cases hE : s0.envStack with
  | nil => rw [hE] at h; cases h
  | cons e0 E =>
    rw [hE] at h
    simp only at h
    refine ⟨ol, o, W, e0, E, hr1, rfl, ?_⟩
    split at h
    · rename_i ha
      obtain ⟨⟨p, e⟩, hg, h⟩ := M_bind_ok h
      obtain ⟨⟨k, s4⟩, hev, h⟩ := M_bind_ok h
      have := M_pure_ok h
      simp only [Prod.mk.injEq] at this
      obtain ⟨rfl, rfl⟩ := this
      exact .apply p e k (by simpa using ha) (liftE_ok hg) hev rfl
    · rename_i ha
      have ha' : smallNumber o ≠ some d.applyKw := by simpa using ha
      split at h
      · rename_i hs
        have hs' : smallNumber o = some d.softforkKw := by simpa using hs
        obtain ⟨f, hf, h⟩ := M_bind_ok h
        obtain ⟨declared, hu, h⟩ := M_bind_ok h
        split at h
        · cases h
        rename_i hd1
        split at h
        · cases h
        rename_i hd2
        split at h
        · rename_i err hp
          split at h
          · rename_i hal
            obtain ⟨s4, hpush, h⟩ := M_bind_ok h
            have := M_pure_ok h
            simp only [Prod.mk.injEq] at this
            obtain ⟨rfl, rfl⟩ := this
            exact .sfUnknown f declared err ha' hs' (liftE_ok hf) (liftE_ok hu) hd1 hd2 hp hal hpush rfl
          · cases h
        · rename_i ext prg env hp
          split at h
          · cases h
          obtain ⟨⟨k, s4⟩, hev, h⟩ := M_bind_ok h
          have := M_pure_ok h
          simp only [Prod.mk.injEq] at this
          obtain ⟨rfl, rfl⟩ := this
          exact .sfGuard f declared ext prg env ha' hs' (liftE_ok hf) (liftE_ok hu) hd1 hd2 hp _ k hev
      · rename_i hs
        have hs' : smallNumber o ≠ some d.softforkKw := by simpa using hs
        split at h
        · cases h
        · cases h
        · rename_i oc v c' hop
          obtain ⟨s4, hpush, h⟩ := M_bind_ok h
          have := M_pure_ok h
          simp only [Prod.mk.injEq] at this
          obtain ⟨rfl, rfl⟩ := this
          refine .op oc v c' ha' hs' ?_ hpush rfl
          cases hsf : s0.softforkStack with
          | nil => rw [hsf] at hop; exact hop
          | cons g gs => rw [hsf] at hop; exact hop

/-! ### the heap limit is constant along a run -/

theorem evalPair_ctr {cfg : Cfg} {d : Dialect} {s s1 : MState} {p e : Val} {k : Nat}
    (h : evalPair cfg d s p e = .ok (k, s1)) : s1.ctr = s.ctr ∧ s1.softforkStack = s.softforkStack := by
  obtain ⟨ops', vs', es', na', hp, _⟩ := evalPair_pushed h
  unfold Pushed at hp
  rw [hp]
  exact ⟨rfl, rfl⟩

theorem allocPair_limit {c : Ctr} {l r p : Val} {c' : Ctr} (h : allocPair c l r = .ok (p, c')) :
    c'.heapLimit = c.heapLimit := by
  unfold allocPair Ctr.newPair at h
  by_cases hp : c.pairs ≥ Gen.maxNumPairs
  · simp [hp] at h
  · simp [hp] at h
    obtain ⟨_, rfl⟩ := h
    rfl

theorem stepOp_limit {cfg : Cfg} {d : Dialect} (hk : KeepLimit d) {s s' : MState} {op : Operation}
    {cost em c : Nat} (hs : s.WF) (h : stepOp cfg d s op cost em = .ok (c, s')) :
    s'.ctr.heapLimit = s.ctr.heapLimit := by
  cases op with
  | Cons =>
    simp only [stepOp] at h
    unfold consOp at h
    obtain ⟨⟨v1, s1⟩, h1, h⟩ := M_bind_ok h
    obtain ⟨r1, _, rfl⟩ := bs_pop_ok_iff.1 h1
    obtain ⟨⟨v2, s2⟩, h2, h⟩ := M_bind_ok h
    obtain ⟨r2, _, rfl⟩ := bs_pop_ok_iff.1 h2
    obtain ⟨⟨p, c'⟩, h3, h⟩ := M_bind_ok h
    have h3' := allocPair_limit (liftE_ok h3)
    obtain ⟨s3, h4, h⟩ := M_bind_ok h
    obtain ⟨_, rfl⟩ := bs_push_ok_iff.1 h4
    have := M_pure_ok h
    simp only [Prod.mk.injEq] at this
    obtain ⟨_, rfl⟩ := this
    exact h3'
  | SwapEval =>
    simp only [stepOp] at h
    unfold swapEvalOp at h
    obtain ⟨⟨v1, s1⟩, h1, h⟩ := M_bind_ok h
    obtain ⟨r1, _, rfl⟩ := bs_pop_ok_iff.1 h1
    obtain ⟨⟨v2, s2⟩, h2, h⟩ := M_bind_ok h
    obtain ⟨r2, _, rfl⟩ := bs_pop_ok_iff.1 h2
    simp only at h
    split at h
    · cases h
    · obtain ⟨s3, h3, h⟩ := M_bind_ok h
      obtain ⟨_, rfl⟩ := bs_push_ok_iff.1 h3
      rw [(evalPair_ctr h).1]
      rfl
  | RestoreAllocator =>
    simp only [stepOp] at h
    split at h
    · cases h
    · split at h
      · cases h
      · simp only [Except.ok.injEq, Prod.mk.injEq] at h
        obtain ⟨_, rfl⟩ := h
        rfl
  | ExitGuard =>
    simp only [stepOp] at h
    cases hsf : s.softforkStack with
    | nil => unfold exitGuard at h; rw [hsf] at h; cases h
    | cons g rest =>
      cases hv : s.valStack with
      | nil =>
        unfold exitGuard at h
        rw [hsf] at h
        simp only at h
        split at h
        · cases h
        · rw [hv] at h; cases h
      | cons v vs =>
        obtain ⟨_, hs', _⟩ := bs_exitGuard_ok h hsf hv
        rw [hs']
  | Apply =>
    simp only [stepOp] at h
    obtain ⟨ol, o, W, e0, E, hv, he, sh⟩ := applyOp_inv h
    have hwo : ol.wf = true ∧ o.wf = true := by
      have := hs.1
      rw [hv] at this
      exact ⟨this ol (by simp), this o (by simp)⟩
    cases sh with
    | apply p e k ha hg hev hc => rw [(evalPair_ctr hev).1]; rfl
    | sfUnknown f declared err ha hs' hf hu h1 h2 hp hal hpush hc =>
      obtain ⟨_, rfl⟩ := bs_push_ok_iff.1 hpush
      rfl
    | sfGuard f declared ext prg env ha hs' hf hu h1 h2 hp g k hev => rw [(evalPair_ctr hev).1]; rfl
    | op oc v c' ha hs' hop hpush hc =>
      obtain ⟨_, rfl⟩ := bs_push_ok_iff.1 hpush
      exact hk o ol _ _ _ (oc, v, c') hwo.2 hwo.1 hop

theorem runTo_limit {cfg : Cfg} {d : Dialect} (hk : KeepLimit d) (hd : d.OpWf) (mc L : Nat) (fuel : Nat) :
    ∀ (s : MState) (cost : Nat) (cost' : Nat) (s' : MState) (fuel' : Nat), s.WF →
      runTo cfg d mc L fuel s cost = some (.ok (cost', s', fuel')) →
      s'.ctr.heapLimit = s.ctr.heapLimit ∧ s'.WF := by
  induction fuel with
  | zero => intro s cost cost' s' fuel' _ h; simp [runTo] at h
  | succ n ih =>
    intro s cost cost' s' fuel' hs h
    rw [runTo_succ] at h
    by_cases hl : s.opStack.length ≤ L
    · simp only [hl, if_true, Option.some.injEq, Except.ok.injEq, Prod.mk.injEq] at h
      obtain ⟨_, rfl, _⟩ := h
      exact ⟨rfl, hs⟩
    · simp only [hl, if_false] at h
      by_cases hc : cost > effMax mc s
      · simp [hc] at h
      · simp only [hc, if_false] at h
        cases hop : s.opStack with
        | nil => rw [hop] at hl; simp at hl
        | cons op ops =>
          rw [hop] at h
          simp only at h
          cases hst : stepOp cfg d { s with opStack := ops } op cost (effMax mc s) with
          | error e => rw [hst] at h; simp at h
          | ok r =>
            obtain ⟨c, s1⟩ := r
            rw [hst] at h
            have hs0 : MState.WF { s with opStack := ops } := hs.setOps ops
            have h1 := stepOp_limit hk hs0 hst
            obtain ⟨h2, h3⟩ := ih s1 (cost + c) cost' s' fuel' (stepOp_wf hd hs0 hst) h
            exact ⟨by rw [h2, h1], h3⟩

/-! ### steps that do not touch the softfork stack -/

theorem stepOp_sf {cfg : Cfg} {d : Dialect} {s s' : MState} {op : Operation} {cost em c : Nat}
    (hop : op = .Cons ∨ op = .SwapEval ∨ op = .RestoreAllocator)
    (h : stepOp cfg d s op cost em = .ok (c, s')) : s'.softforkStack = s.softforkStack := by
  rcases hop with rfl | rfl | rfl
  · simp only [stepOp] at h
    unfold consOp at h
    obtain ⟨⟨v1, s1⟩, h1, h⟩ := M_bind_ok h
    obtain ⟨r1, _, rfl⟩ := bs_pop_ok_iff.1 h1
    obtain ⟨⟨v2, s2⟩, h2, h⟩ := M_bind_ok h
    obtain ⟨r2, _, rfl⟩ := bs_pop_ok_iff.1 h2
    obtain ⟨⟨p, c'⟩, h3, h⟩ := M_bind_ok h
    obtain ⟨s3, h4, h⟩ := M_bind_ok h
    obtain ⟨_, rfl⟩ := bs_push_ok_iff.1 h4
    have := M_pure_ok h
    simp only [Prod.mk.injEq] at this
    obtain ⟨_, rfl⟩ := this
    rfl
  · simp only [stepOp] at h
    unfold swapEvalOp at h
    obtain ⟨⟨v1, s1⟩, h1, h⟩ := M_bind_ok h
    obtain ⟨r1, _, rfl⟩ := bs_pop_ok_iff.1 h1
    obtain ⟨⟨v2, s2⟩, h2, h⟩ := M_bind_ok h
    obtain ⟨r2, _, rfl⟩ := bs_pop_ok_iff.1 h2
    simp only at h
    split at h
    · cases h
    · obtain ⟨s3, h3, h⟩ := M_bind_ok h
      obtain ⟨_, rfl⟩ := bs_push_ok_iff.1 h3
      rw [(evalPair_ctr h).2]
      rfl
  · simp only [stepOp] at h
    split at h
    · cases h
    · split at h
      · cases h
      · simp only [Except.ok.injEq, Prod.mk.injEq] at h
        obtain ⟨_, rfl⟩ := h
        rfl

/-- `apply_op` on the softfork keyword when the extension is not known (or the arguments do not parse)
and unknown operators are allowed: nil, the declared cost -/
theorem applyOp_fwd_sfUnknown {cfg : Cfg} {d : Dialect} {s : MState} {ol o : Val} {W : List Val} {e0 : Val}
    {E : List Val} {cost m : Nat} {f : Val} {declared : Nat} {err : Err}
    (hv : s.valStack = ol :: o :: W) (he : s.envStack = e0 :: E)
    (ha : smallNumber o ≠ some d.applyKw) (hs : smallNumber o = some d.softforkKw)
    (hf : first ol = .ok f) (hu : uintAtom 8 f "softfork" d.flags = .ok declared)
    (h1 : ¬ declared > m) (h2 : ¬ (declared == 0) = true)
    (hp : parseSoftforkArguments d ol = .error err) (hal : d.allowUnknownOps = true) :
    applyOp cfg d s cost m = ((popped3 s W E).push Val.nil >>= fun s' => pure (declared, s')) := by
  unfold applyOp
  rw [bs_pop_cons hv]
  simp only [bind, Except.bind]
  rw [bs_pop_cons (s := { s with valStack := o :: W, valLen := s.valLen - 1 }) rfl]
  have ha' : (smallNumber o == some d.applyKw) = false := by simpa using ha
  have hs' : (smallNumber o == some d.softforkKw) = true := by simp [hs]
  simp only [he, ha', hs', Bool.false_eq_true, if_false, if_true, hf, hu, liftE, h1, h2, hp, hal]
  rfl

/-! ### the simulation -/

section sim
variable (cfg : Cfg) (extra : String → Option OpFn) (F : Nat)

local notation "A" => chiaDialect cfg extra F
local notation "H" => hideDialect cfg extra F

theorem hide_evalPair (s : MState) (p e : Val) : evalPair cfg (H) s p e = evalPair cfg (A) s p e := by
  cases p with
  | atom b i => rfl
  | pair o ol =>
    cases o with
    | atom ob oi => rfl
    | pair a b => rfl

theorem hide_swapEval (s : MState) : swapEvalOp cfg (H) s = swapEvalOp cfg (A) s := by
  unfold swapEvalOp
  simp only [hide_evalPair]

/-- the unaware node never recognises an extension -/
theorem hide_parse (ol : Val) : ∃ err, parseSoftforkArguments (H) ol = .error err := by
  unfold parseSoftforkArguments
  cases getArgs4 ol "softfork" with
  | error e => exact ⟨e, rfl⟩
  | ok q =>
    obtain ⟨a1, a2, a3, a4⟩ := q
    simp only
    cases uintAtom 4 a2 "softfork" (H).flags with
    | error e => exact ⟨e, rfl⟩
    | ok n => exact ⟨.UnknownSoftforkExtension, rfl⟩

/-- under the old cost model no known extension is cost-exempt -/
theorem aware_parse_not_exempt (hN : newModel F = false) {ol : Val} {ext : OperatorSet} {prg env : Val}
    (hp : parseSoftforkArguments (A) ol = .ok (ext, prg, env)) : ext ≠ .PreHardFork := by
  have hfl : hasFlag (A).flags Gen.FLAG_NEW_COST_MODEL = false := by
    show hasFlag (if hasFlag F Gen.FLAG_NEW_COST_MODEL && hasFlag F Gen.FLAG_LIMITS then F - Gen.FLAG_LIMITS else F)
      Gen.FLAG_NEW_COST_MODEL = false
    have : hasFlag F Gen.FLAG_NEW_COST_MODEL = false := hN
    simp only [this, Bool.false_and, Bool.false_eq_true, if_false]
  unfold parseSoftforkArguments at hp
  cases hg : getArgs4 ol "softfork" with
  | error e => rw [hg] at hp; cases hp
  | ok q =>
    obtain ⟨a1, a2, a3, a4⟩ := q
    rw [hg] at hp
    simp only at hp
    cases hu : uintAtom 4 a2 "softfork" (A).flags with
    | error e => rw [hu] at hp; cases hp
    | ok n =>
      rw [hu] at hp
      simp only at hp
      split at hp
      · cases hp
      · simp only [Except.ok.injEq, Prod.mk.injEq] at hp
        obtain ⟨rfl, _, _⟩ := hp
        show (if hasFlag (A).flags Gen.FLAG_NEW_COST_MODEL then _ else _) ≠ _
        rw [hfl]
        simp only [Bool.false_eq_true, if_false]
        split
        · decide
        · split <;> decide

/-- one iteration of the unaware machine followed by a run -/
theorem hide_step_run {mc : Nat} {s : MState} {cost : Nat} {op : Operation} {ops : List Operation} {c : Nat}
    {s1 : MState} {f : Nat} {r : Nat × MState} (hc : ¬ cost > effMax mc s) (hop : s.opStack = op :: ops)
    (hst : stepOp cfg (H) { s with opStack := ops } op cost (effMax mc s) = .ok (c, s1))
    (hrun : runLoop cfg (H) mc f s1 (cost + c) = some (.ok r)) :
    runLoop cfg (H) mc (f + 1) s cost = some (.ok r) := by
  rw [runLoop_succ]
  unfold loopBody
  simp only [hc, if_false, hop, hst]
  exact hrun

/-- **The simulation on the main loop.**  From every well-formed state outside any guard, whatever the
aware machine computes the unaware machine computes too. -/
theorem hide_loop (hN : newModel F = false) (hU : (A).allowUnknownOps = true)
    (h4 : FourByteAgree (A)) (hk : KeepLimit (A)) (hd : (A).OpWf) (mc : Nat) (fuel : Nat) :
    ∀ (s : MState) (cost : Nat) (r : Nat × MState), s.WF → s.softforkStack = [] →
      runLoop cfg (A) mc fuel s cost = some (.ok r) → ∃ fuel', runLoop cfg (H) mc fuel' s cost = some (.ok r) := by
  induction fuel using Nat.strongRecOn with
  | ind fuel ih =>
    intro s cost r hs hsf hrun
    cases fuel with
    | zero => simp [runLoop_zero] at hrun
    | succ n =>
      rw [runLoop_succ] at hrun
      unfold loopBody at hrun
      by_cases hc : cost > effMax mc s
      · simp [hc] at hrun
      · simp only [hc, if_false] at hrun
        have hem : effMax mc s = mc := by simp [effMax, hsf]
        cases hop : s.opStack with
        | nil =>
          rw [hop] at hrun
          refine ⟨1, ?_⟩
          rw [runLoop_succ]
          unfold loopBody
          simp only [hc, if_false, hop]
          exact hrun
        | cons op ops =>
          rw [hop] at hrun
          simp only at hrun
          cases hst : stepOp cfg (A) { s with opStack := ops } op cost (effMax mc s) with
          | error e => rw [hst] at hrun; simp at hrun
          | ok q =>
            obtain ⟨c, s1⟩ := q
            rw [hst] at hrun
            simp only at hrun
            have hs0 : MState.WF { s with opStack := ops } := hs.setOps ops
            have hs1 : s1.WF := stepOp_wf hd hs0 hst
            -- the common ending: same step, then the induction hypothesis
            have same : ∀ (hstH : stepOp cfg (H) { s with opStack := ops } op cost (effMax mc s) = .ok (c, s1))
                (hsf1 : s1.softforkStack = []), ∃ fuel', runLoop cfg (H) mc fuel' s cost = some (.ok r) := by
              intro hstH hsf1
              obtain ⟨f, hf⟩ := ih n (Nat.lt_succ_self n) s1 (cost + c) r hs1 hsf1 hrun
              exact ⟨f + 1, hide_step_run cfg extra F hc hop hstH hf⟩
            cases op with
            | Cons => exact same hst ((stepOp_sf (Or.inl rfl) hst).trans hsf)
            | RestoreAllocator => exact same hst ((stepOp_sf (Or.inr (Or.inr rfl)) hst).trans hsf)
            | SwapEval =>
              refine same ?_ ((stepOp_sf (Or.inr (Or.inl rfl)) hst).trans hsf)
              simp only [stepOp] at hst ⊢
              rw [hide_swapEval]; exact hst
            | ExitGuard =>
              simp only [stepOp] at hst
              unfold exitGuard at hst
              rw [show ({ s with opStack := ops } : MState).softforkStack = [] from hsf] at hst
              cases hst
            | Apply =>
              simp only [stepOp] at hst
              obtain ⟨ol, o, W, e0, E, hv, he, sh⟩ := applyOp_inv hst
              have hsf0 : ({ s with opStack := ops } : MState).softforkStack = [] := hsf
              cases sh with
              | apply p e k ha hg hev hcc =>
                subst hcc
                refine same ?_ ((evalPair_ctr hev).2.trans hsf0)
                simp only [stepOp]
                rw [applyOp_fwd_apply (d := H) hv he ha hg]
                have : evalPair cfg (H) (popped3 { s with opStack := ops } W E) p e = .ok (k, s1) := by
                  rw [hide_evalPair]; exact hev
                simp only [popped3] at this
                simp only [this, bind, Except.bind, pure, Except.pure]
              | sfUnknown f declared err ha hs' hf hu h1 h2 hp hal hpush hcc =>
                subst hcc
                obtain ⟨hl, hs1e⟩ := bs_push_ok_iff.1 hpush
                refine same ?_ (by rw [hs1e]; exact hsf0)
                obtain ⟨errH, hpH⟩ := hide_parse cfg extra F ol
                simp only [stepOp]
                rw [applyOp_fwd_sfUnknown (d := H) hv he ha hs' hf hu h1 h2 hpH hal, hpush]
                rfl
              | sfGuard f declared ext prg env ha hs' hf hu h1 h2 hp g k hev =>
                -- the aware machine enters the guard; use its completed net effect
                obtain ⟨cost', s', fuel', hto, hrest, hle, _⟩ :=
                  runTo_of_runLoop_ok (L := ({ s with opStack := ops } : MState).opStack.length) hrun
                obtain ⟨f', dcl, hf', hu', hs'e, hat, hpa, hhe, hcost, hpushok⟩ :=
                  guard_program_complete hv he ha hs' hp hst hto
                have hlim := (runTo_limit hk hd mc _ n s1 (cost + c) cost' s' fuel' hs1 hto)
                have hdcl : dcl = declared := by
                  rw [hf] at hf'
                  cases hf'
                  rw [hu] at hu'
                  cases hu'
                  rfl
                subst hdcl
                have hcost' := hcost (aware_parse_not_exempt cfg extra F hN hp)
                -- the unaware machine: one step
                obtain ⟨errH, hpH⟩ := hide_parse cfg extra F ol
                have hctr : s'.ctr = ({ s with opStack := ops } : MState).ctr := by
                  have h1c : s1.ctr = ({ s with opStack := ops } : MState).ctr := (evalPair_ctr hev).1
                  have := hlim.1
                  rw [h1c] at this
                  cases hcs : s'.ctr
                  rw [hcs] at hat hpa hhe this
                  simp only at hat hpa hhe this
                  subst hat hpa hhe this
                  rfl
                have hstH : stepOp cfg (H) { s with opStack := ops } .Apply cost (effMax mc s) = .ok (dcl, s') := by
                  simp only [stepOp]
                  rw [applyOp_fwd_sfUnknown (d := H) hv he ha hs' hf hu h1 h2 hpH hU,
                    bs_push_ok (s := popped3 { s with opStack := ops } W E) Val.nil hpushok]
                  simp only [bind, Except.bind, pure, Except.pure, Except.ok.injEq, Prod.mk.injEq, true_and]
                  rw [hs'e, hctr]
                  rfl
                have hsf' : s'.softforkStack = [] := by rw [hs'e]; exact hsf0
                obtain ⟨fH, hfH⟩ := ih fuel' (by omega) s' cost' r hlim.2 hsf' hrest
                rw [hcost'] at hfH
                exact ⟨fH + 1, hide_step_run cfg extra F hc hop hstH hfH⟩
              | op oc v c' ha hs' hop' hpush hcc =>
                subst hcc
                obtain ⟨hl, hs1e⟩ := bs_push_ok_iff.1 hpush
                refine same ?_ (by rw [hs1e]; exact hsf0)
                rw [hsf0] at hop'
                -- the cost of the operator fits the budget: the next iteration did not fail
                have hfit : c ≤ mc - cost := by
                  cases n with
                  | zero => simp [runLoop_zero] at hrun
                  | succ n' =>
                    rw [runLoop_succ] at hrun
                    unfold loopBody at hrun
                    by_cases hc1 : cost + c > effMax mc s1
                    · simp [hc1] at hrun
                    · have hsf1 : s1.softforkStack = [] := by rw [hs1e]; exact hsf0
                      have : effMax mc s1 = mc := by simp [effMax, hsf1]
                      omega
                have hopH : (H).op o ol (effMax mc s - cost) (sfExt ({ s with opStack := ops } : MState).softforkStack)
                    ({ s with opStack := ops } : MState).ctr = some (.ok (c, v, c')) := by
                  rw [hsf0]
                  cases o with
                  | pair a b => exact hop'
                  | atom ob oi =>
                    show (if ob.length == 4 then some (unknownOperator ob ol (A).flags _ _) else _) = _
                    by_cases h4b : ob.length = 4
                    · have : (ob.length == 4) = true := by simp [h4b]
                      simp only [this, if_true]
                      rw [h4 ob oi ol _ _ c v c' h4b hop' (by rw [hem]; exact hfit)]
                    · have : (ob.length == 4) = false := by simp [h4b]
                      simp only [this, Bool.false_eq_true, if_false]
                      exact hop'
                simp only [stepOp]
                rw [applyOp_fwd_op (d := H) hv he ha hs' hopH hl, hs1e]
                rfl

/-- the aware dialect's operators return well-formed values and keep the heap limit, given that the
operators outside the core table do -/
theorem aware_opWf_keepLimit (hew : ∀ name f, extra name = some f → OpWf f) :
    (A).OpWf ∧ KeepLimit (A) := by
  have key : ∀ (o args : Val) (m : Nat) (ext : OperatorSet) (c : Ctr) (r : Nat × Val × Ctr),
      args.wf = true → (A).op o args m ext c = some (.ok r) →
      r.2.1.wf = true ∧ r.2.2.heapLimit = c.heapLimit := by
    intro o args m ext c r haw h
    let P : (Nat → OpRes) → Prop := fun g => ∀ m r, g m = .ok r → r.2.1.wf = true ∧ r.2.2.heapLimit = c.heapLimit
    rcases chiaOp_dispatch cfg extra (normFlags F) o args ext c P
      (fun _ _ _ hh => nomatch hh) (fun _ _ hh => nomatch hh)
      (fun name f hf m r hh => ⟨(coreOps_wf cfg name f hf _ m args c r haw hh).1,
        (coreOps_wf cfg name f hf _ m args c r haw hh).2.2.2.2⟩)
      (fun name f hf m r hh => ⟨(hew name f hf _ m args c r haw hh).1, (hew name f hf _ m args c r haw hh).2.2.2.2⟩)
      (fun ob m r hh => by
        simp only [unknownOperator] at hh
        split at hh
        · cases hh
        · exact ⟨(opUnknown_wf ob _ m args c r haw hh).1, (opUnknown_wf ob _ m args c r haw hh).2.2.2.2⟩)
      with hn | ⟨g, hP, hg⟩
    · have : chiaOp cfg extra (normFlags F) o args m ext c = some (.ok r) := h
      rw [hn m] at this; cases this
    · have h0 : chiaOp cfg extra (normFlags F) o args m ext c = some (.ok r) := h
      rw [hg m] at h0
      exact hP m r (Option.some.inj h0)
  exact ⟨fun o args m ext c r _ haw h => (key o args m ext c r haw h).1,
    fun o args m ext c r _ haw h => (key o args m ext c r haw h).2⟩

/-- **`hide_sim`** on `run_program`, with the 4-byte opcodes as a hypothesis -/
theorem hide_run (hN : newModel F = false) (hU : hasFlag F Gen.FLAG_NO_UNKNOWN_OPS = false)
    (h4 : FourByteAgree (A)) (hew : ∀ name f, extra name = some f → OpWf f)
    (fuel : Nat) (c0 : Ctr) (p env : Val) (mc0 : Nat) (hp : p.wf = true) (he : env.wf = true)
    (C : Nat) (v : Val) (ctr : Ctr)
    (h : runProgram cfg (A) fuel c0 p env mc0 = some (.ok (C, v, ctr))) :
    ∃ fuel', runProgram cfg (H) fuel' c0 p env mc0 = some (.ok (C, v, ctr)) := by
  obtain ⟨hd, hk⟩ := aware_opWf_keepLimit cfg extra F hew
  have hU' : (A).allowUnknownOps = true := by
    show (!hasFlag (if hasFlag F Gen.FLAG_NEW_COST_MODEL && hasFlag F Gen.FLAG_LIMITS then F - Gen.FLAG_LIMITS else F)
      Gen.FLAG_NO_UNKNOWN_OPS) = true
    have : hasFlag F Gen.FLAG_NEW_COST_MODEL = false := hN
    simp only [this, Bool.false_and, Bool.false_eq_true, if_false, hU, Bool.not_false]
  unfold runProgram at h ⊢
  cases hg : c0.addGhostAtom 1 with
  | error e => rw [hg] at h; simp at h
  | ok c =>
    rw [hg] at h
    simp only at h ⊢
    rw [hide_evalPair]
    cases hev : evalPair cfg (A) { ctr := c } p env with
    | error e => rw [hev] at h; cases e <;> simp at h
    | ok q =>
      obtain ⟨cost, s⟩ := q
      rw [hev] at h
      simp only at h ⊢
      have hs0 : MState.WF { ctr := c } := ⟨fun _ hx => by simp at hx, fun _ hx => by simp at hx⟩
      have hs : s.WF := evalPair_wf hs0 hp he hev
      have hsf : s.softforkStack = [] := (evalPair_ctr hev).2
      cases hr : runLoop cfg (A) (if mc0 == 0 then U64_MAX else mc0) fuel s cost with
      | none => rw [hr] at h; simp at h
      | some x =>
        cases x with
        | error e => rw [hr] at h; cases e <;> simp at h
        | ok q2 =>
          obtain ⟨cost', sfin⟩ := q2
          obtain ⟨fuel', hH⟩ := hide_loop cfg extra F hN hU' h4 hk hd _ fuel s cost (cost', sfin) hs hsf hr
          rw [hr] at h
          exact ⟨fuel', by rw [hH]; exact h⟩

end sim

end Clvm.Interp
