/-
C03, heap history (operator level): the outcome of an operator does not depend on the allocator
counters it is called with, unless one of the two calls hits an allocator limit
(`OutOfMemory`, `TooManyAtoms`, `TooManyPairs`).  Same cost and the same value (tags included) on
success, the same error otherwise.
-/
import ClvmProofs.Lemmas.Interp.Repr
import ClvmProofs.Lemmas.Interp.Budget
import ClvmModel.Interp.CryptoOps

namespace Clvm.Interp
open Clvm Clvm.Alloc

/-- the allocator's limit errors -/
def _root_.Clvm.Err.isLimit : Err → Bool
  | .OutOfMemory => true
  | .TooManyAtoms => true
  | .TooManyPairs => true
  | _ => false

/-- outcomes of one operator call from two different counters -/
def CtrIndepRes (r r' : OpRes) : Prop :=
  match r, r' with
  | .ok (k, v, _), .ok (k', v', _) => k = k' ∧ v = v'
  | .error e, .error e' => e = e' ∨ e.isLimit = true ∨ e'.isLimit = true
  | .ok _, .error e' => e'.isLimit = true
  | .error e, .ok _ => e.isLimit = true

def OpCtrIndep (f : OpFn) : Prop := ∀ flags m a c c', CtrIndepRes (f flags m a c) (f flags m a c')

theorem checkAtomLimit_limit {c : Ctr} {e : Err} (h : c.checkAtomLimit = .error e) : e.isLimit = true := by
  unfold Ctr.checkAtomLimit at h
  split at h <;> cases h
  rfl

theorem newAtom_limit {c : Ctr} {n : Nat} {e : Err} (h : c.newAtom n = .error e) : e.isLimit = true := by
  unfold Ctr.newAtom at h
  split at h
  · cases h; rfl
  · cases hc : c.checkAtomLimit with
    | error e' => rw [hc] at h; cases h; exact checkAtomLimit_limit hc
    | ok u => rw [hc] at h; cases h

theorem newPair_limit {c : Ctr} {e : Err} (h : c.newPair = .error e) : e.isLimit = true := by
  unfold Ctr.newPair at h
  split at h <;> cases h
  rfl

theorem allocAtom_ok_iff {c c1 : Ctr} {b : Bytes} {v : Val} :
    allocAtom c b = .ok (v, c1) ↔ v = Val.mkAtom b ∧ c.newAtom b.length = .ok c1 := by
  unfold allocAtom
  cases c.newAtom b.length with
  | error e => simp
  | ok c2 => simp [eq_comm]
theorem allocAtom_err_iff {c : Ctr} {b : Bytes} {e : Err} :
    allocAtom c b = .error e ↔ c.newAtom b.length = .error e ∧ e.isLimit = true := by
  unfold allocAtom
  cases h : c.newAtom b.length with
  | error e' =>
    simp only [Except.error.injEq]
    constructor
    · rintro rfl; exact ⟨rfl, newAtom_limit h⟩
    · exact fun h => h.1
  | ok c2 => simp
theorem allocNumber_ok_iff {c c1 : Ctr} {x : Int} {v : Val} :
    allocNumber c x = .ok (v, c1) ↔ v = Val.mkAtom (encodeInt x) ∧ c.newAtom (encodeInt x).length = .ok c1 :=
  allocAtom_ok_iff
theorem allocNumber_err_iff {c : Ctr} {x : Int} {e : Err} :
    allocNumber c x = .error e ↔ c.newAtom (encodeInt x).length = .error e ∧ e.isLimit = true :=
  allocAtom_err_iff
theorem allocPair_ok_iff {c c1 : Ctr} {l r v : Val} :
    allocPair c l r = .ok (v, c1) ↔ v = .pair l r ∧ c.newPair = .ok c1 := by
  unfold allocPair
  cases c.newPair with
  | error e => simp
  | ok c2 => simp [eq_comm]
theorem allocPair_err_iff {c : Ctr} {l r : Val} {e : Err} :
    allocPair c l r = .error e ↔ c.newPair = .error e ∧ e.isLimit = true := by
  unfold allocPair
  cases h : c.newPair with
  | error e' =>
    simp only [Except.error.injEq]
    constructor
    · rintro rfl; exact ⟨rfl, newPair_limit h⟩
    · exact fun h => h.1
  | ok c2 => simp
theorem newAtomAndCost_ok_iff {c c1 : Ctr} {cost k : Nat} {b : Bytes} {v : Val} :
    newAtomAndCost c cost b = .ok (k, v, c1) ↔
      k = cost + b.length * Gen.MALLOC_COST_PER_BYTE ∧ v = Val.mkAtom b ∧ c.newAtom b.length = .ok c1 := by
  unfold newAtomAndCost allocAtom
  cases c.newAtom b.length with
  | error e => simp
  | ok c2 => simp [eq_comm]
theorem newAtomAndCost_err_iff {c : Ctr} {cost : Nat} {b : Bytes} {e : Err} :
    newAtomAndCost c cost b = .error e ↔ c.newAtom b.length = .error e ∧ e.isLimit = true := by
  unfold newAtomAndCost allocAtom
  cases h : c.newAtom b.length with
  | error e' =>
    simp only [Except.error.injEq]
    constructor
    · rintro rfl; exact ⟨rfl, newAtom_limit h⟩
    · exact fun h => h.1
  | ok c2 => simp

theorem newAtomAndCost_ctr (c c' : Ctr) (cost : Nat) (b : Bytes) :
    CtrIndepRes (newAtomAndCost c cost b) (newAtomAndCost c' cost b) := by
  cases h : newAtomAndCost c cost b with
  | error e =>
    cases h' : newAtomAndCost c' cost b with
    | error e' => exact .inr (.inl (newAtomAndCost_err_iff.1 h).2)
    | ok r => exact (newAtomAndCost_err_iff.1 h).2
  | ok r =>
    obtain ⟨k, v, c1⟩ := r
    cases h' : newAtomAndCost c' cost b with
    | error e' => exact (newAtomAndCost_err_iff.1 h').2
    | ok r' =>
      obtain ⟨k', v', c1'⟩ := r'
      have h1 := newAtomAndCost_ok_iff.1 h
      have h2 := newAtomAndCost_ok_iff.1 h'
      exact ⟨h1.1.trans h2.1.symm, h1.2.1.trans h2.2.1.symm⟩

macro "ctr_op" : tactic => `(tactic| (
  repeat' (first | split | simp only [])
  all_goals first | exact newAtomAndCost_ctr _ _ _ _ | simp_all only [CtrIndepRes, allocAtom_ok_iff, allocAtom_err_iff, allocNumber_ok_iff, allocNumber_err_iff,
    allocPair_ok_iff, allocPair_err_iff, newAtomAndCost_ok_iff, newAtomAndCost_err_iff, and_self, or_true, true_or,
    Except.ok.injEq, Except.error.injEq, Prod.mk.injEq, reduceCtorEq, and_true, true_and]))

theorem opIf_ctr : OpCtrIndep opIf := by
  intro flags m a c c'; unfold opIf; ctr_op

theorem opCons_ctr : OpCtrIndep opCons := by
  intro flags m a c c'; unfold opCons; ctr_op

theorem opFirst_ctr : OpCtrIndep opFirst := by
  intro flags m a c c'; unfold opFirst; ctr_op

theorem opRest_ctr : OpCtrIndep opRest := by
  intro flags m a c c'; unfold opRest; ctr_op

theorem opListp_ctr : OpCtrIndep opListp := by
  intro flags m a c c'; unfold opListp; ctr_op

theorem opRaise_ctr : OpCtrIndep opRaise := by
  intro flags m a c c'; unfold opRaise; ctr_op

theorem opEq_ctr : OpCtrIndep opEq := by
  intro flags m a c c'; unfold opEq; ctr_op

theorem opGrBytes_ctr : OpCtrIndep opGrBytes := by
  intro flags m a c c'; unfold opGrBytes; ctr_op

theorem opSha256_ctr (cfg : Cfg) : OpCtrIndep (opSha256 cfg) := by
  intro flags m a c c'; unfold opSha256; ctr_op

theorem opStrlen_ctr : OpCtrIndep opStrlen := by
  intro flags m a c c'; unfold opStrlen; ctr_op

theorem opAdd_ctr (cfg : Cfg) : OpCtrIndep (opAdd cfg) := by
  intro flags m a c c'; unfold opAdd; ctr_op

theorem opSubtract_ctr (cfg : Cfg) : OpCtrIndep (opSubtract cfg) := by
  intro flags m a c c'; unfold opSubtract; ctr_op

theorem opMultiply_ctr (cfg : Cfg) : OpCtrIndep (opMultiply cfg) := by
  intro flags m a c c'; unfold opMultiply; ctr_op

theorem opDivWith_ctr (i : Val → String → Except Err (Int × Nat)) : OpCtrIndep (opDivWith i) := by
  intro flags m a c c'; unfold opDivWith; ctr_op

theorem opDivmodWith_ctr (i : Val → String → Except Err (Int × Nat)) : OpCtrIndep (opDivmodWith i) := by
  intro flags m a c c'; unfold opDivmodWith; ctr_op

theorem opModWith_ctr (i : Val → String → Except Err (Int × Nat)) : OpCtrIndep (opModWith i) := by
  intro flags m a c c'; unfold opModWith; ctr_op

theorem opModpowWith_ctr (i : Val → String → Except Err (Int × Nat)) : OpCtrIndep (opModpowWith i) := by
  intro flags m a c c'; unfold opModpowWith; ctr_op

theorem opGr_ctr (cfg : Cfg) : OpCtrIndep (opGr cfg) := by
  intro flags m a c c'; unfold opGr; ctr_op

theorem opAsh_ctr : OpCtrIndep opAsh := by
  intro flags m a c c'; unfold opAsh; ctr_op

theorem opLsh_ctr : OpCtrIndep opLsh := by
  intro flags m a c c'; unfold opLsh; ctr_op

theorem opLognot_ctr : OpCtrIndep opLognot := by
  intro flags m a c c'; unfold opLognot; ctr_op

theorem opNot_ctr : OpCtrIndep opNot := by
  intro flags m a c c'; unfold opNot; ctr_op

theorem opAny_ctr : OpCtrIndep opAny := by
  intro flags m a c c'; unfold opAny; ctr_op

theorem opAll_ctr : OpCtrIndep opAll := by
  intro flags m a c c'; unfold opAll; ctr_op

theorem binopReduction_ctr (n : String) (i : Int) (f : Int → Int → Int) : OpCtrIndep (binopReduction n i f) := by
  intro flags m a c c'; unfold binopReduction; ctr_op

theorem opDiv_ctr : OpCtrIndep opDiv := by
  intro flags m a c c'; unfold opDiv; split <;> exact opDivWith_ctr _ _ _ _ _ _
theorem opDivmod_ctr : OpCtrIndep opDivmod := by
  intro flags m a c c'; unfold opDivmod; split <;> exact opDivmodWith_ctr _ _ _ _ _ _
theorem opMod_ctr : OpCtrIndep opMod := by
  intro flags m a c c'; unfold opMod; split <;> exact opModWith_ctr _ _ _ _ _ _
theorem opModpow_ctr : OpCtrIndep opModpow := by
  intro flags m a c c'; unfold opModpow; split <;> exact opModpowWith_ctr _ _ _ _ _ _

theorem opUnknown_ctr (op : Bytes) : OpCtrIndep (opUnknown op) := by
  intro flags m a c c'
  simp only [opUnknown_eq_parts]
  unfold unknownFinish
  ctr_op

/-- values and errors of `new_substr` / `new_concat` from two different counters -/
def CtrIndepAlloc (r r' : Except Err (Val × Ctr)) : Prop :=
  match r, r' with
  | .ok (v, _), .ok (v', _) => v = v'
  | .error e, .error e' => e = e' ∨ e.isLimit = true ∨ e'.isLimit = true
  | .ok _, .error e' => e'.isLimit = true
  | .error e, .ok _ => e.isLimit = true

theorem CtrIndepAlloc.limL {e : Err} (h : e.isLimit = true) (y : Except Err (Val × Ctr)) :
    CtrIndepAlloc (.error e) y := by
  cases y with
  | error e' => exact .inr (.inl h)
  | ok x => exact h

theorem CtrIndepAlloc.limR {e : Err} (h : e.isLimit = true) (x : Except Err (Val × Ctr)) :
    CtrIndepAlloc x (.error e) := by
  cases x with
  | error e' => exact .inr (.inr h)
  | ok x => exact h

theorem newSubstr_ctr (c c' : Ctr) (node : Val) (s e : Nat) :
    CtrIndepAlloc (newSubstr c node s e) (newSubstr c' node s e) := by
  unfold newSubstr
  cases hc : c.checkAtomLimit with
  | error e1 => exact .limL (checkAtomLimit_limit hc) _
  | ok u =>
    cases hc' : c'.checkAtomLimit with
    | error e2 => exact .limR (checkAtomLimit_limit hc') _
    | ok u' =>
      simp only []; repeat' (first | split | simp only [])
      all_goals simp_all only [CtrIndepAlloc, true_or]

theorem newConcat_ctr (c c' : Ctr) (n : Nat) (nodes : List Val) :
    CtrIndepAlloc (newConcat c n nodes) (newConcat c' n nodes) := by
  unfold newConcat
  cases hc : c.checkAtomLimit with
  | error e1 => exact .limL (checkAtomLimit_limit hc) _
  | ok u =>
    cases hc' : c'.checkAtomLimit with
    | error e2 => exact .limR (checkAtomLimit_limit hc') _
    | ok u' =>
      simp only []
      by_cases h1 : c.heap + n > c.heapLimit
      · simp only [h1, if_true]; exact .limL rfl _
      by_cases h2 : c'.heap + n > c'.heapLimit
      · simp only [h2, if_true]; exact .limR rfl _
      simp only [h1, h2, if_false]
      repeat' (first | split | simp only [])
      all_goals simp_all only [CtrIndepAlloc, true_or]

theorem opConcat_ctr : OpCtrIndep opConcat := by
  intro flags m a c c'
  unfold opConcat
  cases concatLoop m (argList a) Gen.CONCAT_BASE_COST 0 [] with
  | error e => exact .inl rfl
  | ok p =>
    obtain ⟨cost, sz, terms⟩ := p
    simp only []
    have := newConcat_ctr c c' sz terms
    revert this
    cases newConcat c sz terms <;> cases newConcat c' sz terms <;> simp only [CtrIndepAlloc, CtrIndepRes] <;>
      intro h <;> first | exact h | exact ⟨rfl, h⟩ | exact ⟨trivial, h⟩

theorem opSubstr_ctr : OpCtrIndep opSubstr := by
  intro flags m a c c'
  rw [opSubstr_eq, opSubstr_eq]
  cases substrParse a with
  | error e => exact .inl rfl
  | ok p =>
    obtain ⟨a0, s, e⟩ := p
    simp only []
    have := newSubstr_ctr c c' a0 s e
    revert this
    cases newSubstr c a0 s e <;> cases newSubstr c' a0 s e <;> simp only [CtrIndepAlloc, CtrIndepRes] <;>
      intro h <;> first | exact h | exact ⟨rfl, h⟩ | exact ⟨trivial, h⟩

/-! ### aggregates -/

theorem coreOps_ctr (cfg : Cfg) (name : String) (f : OpFn) (h : coreOpByName cfg name = some f) : OpCtrIndep f := by
  unfold coreOpByName at h
  split at h <;> first
    | (cases h; first
        | exact opIf_ctr | exact opCons_ctr | exact opFirst_ctr | exact opRest_ctr | exact opListp_ctr
        | exact opRaise_ctr | exact opEq_ctr | exact opGrBytes_ctr | exact opSha256_ctr cfg | exact opSubstr_ctr
        | exact opStrlen_ctr | exact opConcat_ctr | exact opAdd_ctr cfg | exact opSubtract_ctr cfg
        | exact opMultiply_ctr cfg | exact opDiv_ctr | exact opDivmod_ctr | exact opGr_ctr cfg
        | exact opAsh_ctr | exact opLsh_ctr | exact binopReduction_ctr _ _ _
        | exact opLognot_ctr | exact opNot_ctr | exact opAny_ctr | exact opAll_ctr
        | exact opModpow_ctr | exact opMod_ctr)
    | cases h

theorem liftCrypto_ctr (f : Crypto.OpFn) : OpCtrIndep (liftCrypto f) := by
  intro flags m a c c'; unfold liftCrypto; ctr_op

theorem opSha256Tree_ctr : OpCtrIndep opSha256Tree := by
  intro flags m a c c'; unfold opSha256Tree; ctr_op

theorem cryptoExtra_ctr (name : String) (f : OpFn) (h : cryptoExtra name = some f) : OpCtrIndep f := by
  unfold cryptoExtra at h
  split at h
  · cases h
  · split at h
    · cases h; exact opSha256Tree_ctr
    · cases hc : Crypto.opByName name with
      | none => rw [hc] at h; cases h
      | some g => rw [hc] at h; cases h; exact liftCrypto_ctr g

end Clvm.Interp
