/-
C10: cost lemmas for add, subtract, multiply (fast paths and generic loops, both cost models).
-/
import ClvmProofs.Lemmas.Interp.CostLoops

namespace Clvm.Interp
open Clvm Clvm.Alloc

/-- what `Allocator::node` shows of a well-formed atom, in terms of the specification's size/value -/
theorem node_buffer (v : Val) (buf : Bytes) (h : node v = .buffer buf) :
    buf.length = Spec.Cost.len v ∧ decodeInt buf = Spec.Cost.int v := by
  cases v with
  | pair x y => simp [node] at h
  | atom b t =>
    cases t with
    | true => simp [node] at h
    | false => simp only [node] at h; injection h with h; subst h; exact ⟨rfl, rfl⟩

theorem node_u32 (v : Val) (val : Nat) (hwf : v.wf = true) (h : node v = .u32 val) :
    lenForValue val = Spec.Cost.len v ∧ (val : Int) = Spec.Cost.int v := by
  cases v with
  | pair x y => simp [node] at h
  | atom b t =>
    cases t with
    | false => simp [node] at h
    | true =>
      simp only [node] at h; injection h with h; subst h
      exact inline_facts b hwf

theorem limbs_natCast (n : Nat) : (natBE n).length = Spec.Cost.limbs (n : Int) := by
  rw [natBE_length]; simp [Spec.Cost.limbs]

/-! ### add -/

theorem addGeneric_ok (nm : Bool) (cpa cpb B : Nat) (l : List Val) (hwf : ∀ v ∈ l, v.wf = true)
    (cost : Nat) (acc small : Int) (cost' : Nat) (total : Int)
    (h : addGeneric nm cpa cpb B l cost acc small = .ok (cost', total)) :
    cost' = cost + cpa * l.length + cpb *
      (if nm then Spec.Cost.sumMax l (Spec.Cost.partials (· + ·) small (l.map Spec.Cost.int))
       else Spec.Cost.sumLen l) := by
  induction l generalizing cost acc small with
  | nil =>
    simp only [addGeneric] at h; injection h with h; injection h with h1 _
    cases nm <;> simp [← h1, sumMax_nil, sumLen_nil]
  | cons a t ih =>
    have ha : a.wf = true := hwf a (by simp)
    have ht : ∀ v ∈ t, v.wf = true := fun v hv => hwf v (by simp [hv])
    simp only [addGeneric] at h
    split at h
    · rename_i buf hn
      obtain ⟨hlen, hval⟩ := node_buffer _ _ hn
      split at h
      · cases h
      · cases nm with
        | false =>
          simp only [Bool.false_eq_true, if_false] at h ⊢
          rw [ih ht _ _ _ h]
          simp only [Bool.false_eq_true, if_false, sumLen_cons, List.length_cons, hlen, Nat.mul_add]
          omega
        | true =>
          simp only [if_true] at h ⊢
          rw [ih ht _ _ _ h]
          simp only [if_true, List.map_cons, Spec.Cost.partials, sumMax_cons, List.length_cons, hlen, hval,
            limbs_eq, Nat.mul_add]
          rw [Nat.max_comm, Nat.mul_comm (max _ _) cpb]
          omega
    · rename_i val hn
      obtain ⟨hlen, hval⟩ := node_u32 _ _ ha hn
      split at h
      · cases h
      · cases nm with
        | false =>
          simp only [Bool.false_eq_true, if_false] at h ⊢
          rw [ih ht _ _ _ h]
          simp only [Bool.false_eq_true, if_false, sumLen_cons, List.length_cons, hlen, Nat.mul_add]
          rw [Nat.mul_comm (Spec.Cost.len a) cpb]
          omega
        | true =>
          simp only [if_true] at h ⊢
          rw [ih ht _ _ _ h]
          simp only [if_true, List.map_cons, Spec.Cost.partials, sumMax_cons, List.length_cons, hlen, hval,
            limbs_eq, Nat.mul_add]
          rw [Nat.max_comm, Nat.mul_comm (max _ _) cpb]
          omega
    · cases h

theorem addFast_ok (nm : Bool) (cpa cpb B : Nat) (l : List Val) (hwf : ∀ v ∈ l, v.wf = true)
    (cost total cost' total' : Nat)
    (h : addFast nm cpa cpb B l cost total = .ok (some (cost', total'))) :
    cost' = cost + cpa * l.length + cpb *
      (if nm then Spec.Cost.sumMax l (Spec.Cost.partials (· + ·) (total : Int) (l.map Spec.Cost.int))
       else Spec.Cost.sumLen l) := by
  induction l generalizing cost total with
  | nil =>
    simp only [addFast] at h; injection h with h; injection h with h; injection h with h1 _
    cases nm <;> simp [← h1, sumMax_nil, sumLen_nil]
  | cons a t ih =>
    have ha : a.wf = true := hwf a (by simp)
    have ht : ∀ v ∈ t, v.wf = true := fun v hv => hwf v (by simp [hv])
    simp only [addFast] at h
    split at h
    · rename_i val hn
      obtain ⟨hlen, hval⟩ := node_u32 _ _ ha hn
      split at h
      · cases h
      · split at h
        · cases h
        · cases nm with
          | false =>
            simp only [Bool.false_eq_true, if_false] at h ⊢
            rw [ih ht _ _ h]
            simp only [Bool.false_eq_true, if_false, sumLen_cons, List.length_cons, hlen, Nat.mul_add]
            rw [Nat.mul_comm (Spec.Cost.len a) cpb]
            omega
          | true =>
            simp only [if_true] at h ⊢
            rw [ih ht _ _ h]
            simp only [if_true, List.map_cons, Spec.Cost.partials, sumMax_cons, List.length_cons, hlen, ← hval,
              limbs_natCast, Nat.mul_add]
            rw [Nat.max_comm, Nat.mul_comm (max _ _) cpb]
            have : ((total + val : Nat) : Int) = (total : Int) + (val : Int) := by omega
            rw [this]
            omega
    · cases h

end Clvm.Interp
