/-
C10: cost lemmas for add, subtract, multiply (fast paths and generic loops, both cost models).
-/
import ClvmProofs.Lemmas.Interp.CostLoops

namespace Clvm.Interp
open Clvm Clvm.Alloc

/-- what `Allocator::node` shows of a well-formed atom, in terms of the specification's size/value -/
theorem node_buffer (v : Val) (buf : Bytes) (h : node v = .buffer buf) :
    buf.length = Spec.Cost.len v ∧ decodeInt buf = Spec.Cost.int v := by
  cases v with
  | pair x y => simp [node] at h
  | atom b t =>
    cases t with
    | true => simp [node] at h
    | false => simp only [node] at h; injection h with h; subst h; exact ⟨rfl, rfl⟩

theorem node_u32 (v : Val) (val : Nat) (hwf : v.wf = true) (h : node v = .u32 val) :
    lenForValue val = Spec.Cost.len v ∧ (val : Int) = Spec.Cost.int v := by
  cases v with
  | pair x y => simp [node] at h
  | atom b t =>
    cases t with
    | false => simp [node] at h
    | true =>
      simp only [node] at h; injection h with h; subst h
      exact inline_facts b hwf

theorem limbs_natCast (n : Nat) : (natBE n).length = Spec.Cost.limbs (n : Int) := by
  rw [natBE_length]; simp [Spec.Cost.limbs]

/-! ### add -/

theorem addGeneric_ok (nm : Bool) (cpa cpb B : Nat) (l : List Val) (hwf : ∀ v ∈ l, v.wf = true)
    (cost : Nat) (acc small : Int) (cost' : Nat) (total : Int)
    (h : addGeneric nm cpa cpb B l cost acc small = .ok (cost', total)) :
    cost' = cost + cpa * l.length + cpb *
      (if nm then Spec.Cost.sumMax l (Spec.Cost.partials (· + ·) small (l.map Spec.Cost.int))
       else Spec.Cost.sumLen l) := by
  induction l generalizing cost acc small with
  | nil =>
    simp only [addGeneric] at h; injection h with h; injection h with h1 _
    cases nm <;> simp [← h1, sumMax_nil, sumLen_nil]
  | cons a t ih =>
    have ha : a.wf = true := hwf a (by simp)
    have ht : ∀ v ∈ t, v.wf = true := fun v hv => hwf v (by simp [hv])
    simp only [addGeneric] at h
    split at h
    · rename_i buf hn
      obtain ⟨hlen, hval⟩ := node_buffer _ _ hn
      split at h
      · cases h
      · cases nm with
        | false =>
          simp only [Bool.false_eq_true, if_false] at h ⊢
          rw [ih ht _ _ _ h]
          simp only [Bool.false_eq_true, if_false, sumLen_cons, List.length_cons, hlen, Nat.mul_add]
          omega
        | true =>
          simp only [if_true] at h ⊢
          rw [ih ht _ _ _ h]
          simp only [if_true, List.map_cons, Spec.Cost.partials, sumMax_cons, List.length_cons, hlen, hval,
            limbs_eq, Nat.mul_add]
          rw [Nat.max_comm, Nat.mul_comm (max _ _) cpb]
          omega
    · rename_i val hn
      obtain ⟨hlen, hval⟩ := node_u32 _ _ ha hn
      split at h
      · cases h
      · cases nm with
        | false =>
          simp only [Bool.false_eq_true, if_false] at h ⊢
          rw [ih ht _ _ _ h]
          simp only [Bool.false_eq_true, if_false, sumLen_cons, List.length_cons, hlen, Nat.mul_add]
          rw [Nat.mul_comm (Spec.Cost.len a) cpb]
          omega
        | true =>
          simp only [if_true] at h ⊢
          rw [ih ht _ _ _ h]
          simp only [if_true, List.map_cons, Spec.Cost.partials, sumMax_cons, List.length_cons, hlen, hval,
            limbs_eq, Nat.mul_add]
          rw [Nat.max_comm, Nat.mul_comm (max _ _) cpb]
          omega
    · cases h

theorem addFast_ok (nm : Bool) (cpa cpb B : Nat) (l : List Val) (hwf : ∀ v ∈ l, v.wf = true)
    (cost total cost' total' : Nat)
    (h : addFast nm cpa cpb B l cost total = .ok (some (cost', total'))) :
    cost' = cost + cpa * l.length + cpb *
      (if nm then Spec.Cost.sumMax l (Spec.Cost.partials (· + ·) (total : Int) (l.map Spec.Cost.int))
       else Spec.Cost.sumLen l) := by
  induction l generalizing cost total with
  | nil =>
    simp only [addFast] at h; injection h with h; injection h with h; injection h with h1 _
    cases nm <;> simp [← h1, sumMax_nil, sumLen_nil]
  | cons a t ih =>
    have ha : a.wf = true := hwf a (by simp)
    have ht : ∀ v ∈ t, v.wf = true := fun v hv => hwf v (by simp [hv])
    simp only [addFast] at h
    split at h
    · rename_i val hn
      obtain ⟨hlen, hval⟩ := node_u32 _ _ ha hn
      split at h
      · cases h
      · split at h
        · cases h
        · cases nm with
          | false =>
            simp only [Bool.false_eq_true, if_false] at h ⊢
            rw [ih ht _ _ h]
            simp only [Bool.false_eq_true, if_false, sumLen_cons, List.length_cons, hlen, Nat.mul_add]
            rw [Nat.mul_comm (Spec.Cost.len a) cpb]
            omega
          | true =>
            simp only [if_true] at h ⊢
            rw [ih ht _ _ h]
            simp only [if_true, List.map_cons, Spec.Cost.partials, sumMax_cons, List.length_cons, hlen, ← hval,
              limbs_natCast, Nat.mul_add]
            rw [Nat.max_comm, Nat.mul_comm (max _ _) cpb]
            have : ((total + val : Nat) : Int) = (total : Int) + (val : Int) := by omega
            rw [this]
            omega
    · cases h

/-- the body of `op_add` after the constants have been chosen -/
def addBody (cfg : Cfg) (nm : Bool) (base cpa cpb m : Nat) (args : List Val) (c : Ctr) :
    Except Err (Nat × Val × Ctr) :=
  let fast : Except Err (Option (Nat × Nat)) :=
    if cfg.fastpath then addFast nm cpa cpb m args base 0 else .ok none
  match fast with
  | .error e => .error e
  | .ok (some (cost, total)) =>
    match allocAtom c (u64Bytes total) with
    | .error e => .error e
    | .ok (v, c') => .ok (mallocCost cost v, v, c')
  | .ok none =>
    match addGeneric nm cpa cpb m args base 0 0 with
    | .error e => .error e
    | .ok (cost, total) =>
      match allocNumber c total with
      | .error e => .error e
      | .ok (v, c') => .ok (mallocCost cost v, v, c')

theorem opAdd_eq (cfg : Cfg) (flags m : Nat) (input : Val) (c : Ctr) :
    opAdd cfg flags m input c =
      addBody cfg (newModel flags) (arithCosts flags).1 (arithCosts flags).2.1 (arithCosts flags).2.2 m
        (argList input) c := by
  unfold opAdd addBody
  rfl

theorem addBody_ok (cfg : Cfg) (nm : Bool) (base cpa cpb m : Nat) (args : List Val)
    (hw : ∀ v ∈ args, v.wf = true) (c : Ctr) (cost : Nat) (v : Val) (c' : Ctr)
    (h : addBody cfg nm base cpa cpb m args c = .ok (cost, v, c')) :
    cost = base + cpa * args.length + cpb *
      (if nm then Spec.Cost.sumMax args (Spec.Cost.addAccs args) else Spec.Cost.sumLen args)
      + Spec.Cost.malloc v := by
  unfold addBody at h
  simp only at h
  split at h
  · cases h
  · rename_i cost0 total hfast
    split at hfast
    · split at h
      · cases h
      · rename_i v0 c1 ha
        simp only [Except.ok.injEq, Prod.mk.injEq] at h
        obtain ⟨rfl, rfl, _⟩ := h
        rw [allocAtom_ok _ _ _ _ ha, mallocCost_mkAtom, addFast_ok _ _ _ _ _ hw _ _ _ _ hfast]
        simp [Spec.Cost.addAccs]
    · cases hfast
  · split at h
    · cases h
    · rename_i cost0 total hgen
      split at h
      · cases h
      · rename_i v0 c1 ha
        simp only [Except.ok.injEq, Prod.mk.injEq] at h
        obtain ⟨rfl, rfl, _⟩ := h
        rw [allocNumber_ok _ _ _ _ ha, mallocCost_mkAtom, addGeneric_ok _ _ _ _ _ hw _ _ _ _ _ hgen]
        simp [Spec.Cost.addAccs]

theorem cost_opAdd (cfg : Cfg) : CostOK (opAdd cfg) Spec.Cost.opAdd := by
  intro flags m args c cost v c' hwf h
  rw [opAdd_eq] at h
  rw [addBody_ok _ _ _ _ _ _ _ (wf_argList args hwf) _ _ _ _ h]
  cases hnm : newModel flags <;>
    simp [arithCosts, hnm, Spec.Cost.opAdd, Spec.Cost.ARITH_BASE, Spec.Cost.ARITH_PER_ARG,
      Spec.Cost.ARITH_PER_BYTE, Spec.Cost.NEW_ARITH_PER_ARG, Spec.Cost.NEW_ARITH_PER_BYTE,
      Gen.ARITH_BASE_COST, Gen.ARITH_COST_PER_ARG, Gen.ARITH_COST_PER_BYTE,
      Gen.NEW_ARITH_COST_PER_ARG, Gen.NEW_ARITH_COST_PER_BYTE]

/-! ### subtract -/

theorem subGeneric_later (nm : Bool) (cpa cpb B : Nat) (l : List Val) (hwf : ∀ v ∈ l, v.wf = true)
    (cost : Nat) (acc small : Int) (cost' : Nat) (total : Int)
    (h : subGeneric nm cpa cpb B l cost acc small false = .ok (cost', total)) :
    cost' = cost + cpa * l.length + cpb *
      (if nm then Spec.Cost.sumMax l (Spec.Cost.partials (· - ·) small (l.map Spec.Cost.int))
       else Spec.Cost.sumLen l) := by
  induction l generalizing cost acc small with
  | nil =>
    simp only [subGeneric] at h; injection h with h; injection h with h1 _
    cases nm <;> simp [← h1, sumMax_nil, sumLen_nil]
  | cons a t ih =>
    have ha : a.wf = true := hwf a (by simp)
    have ht : ∀ v ∈ t, v.wf = true := fun v hv => hwf v (by simp [hv])
    simp only [subGeneric, Bool.false_eq_true, if_false] at h
    split at h
    · cases h
    · split at h
      · rename_i buf hn
        obtain ⟨hlen, hval⟩ := node_buffer _ _ hn
        split at h
        · cases h
        · cases nm with
          | false =>
            simp only [Bool.false_eq_true, if_false] at h ⊢
            rw [ih ht _ _ _ h]
            simp only [Bool.false_eq_true, if_false, sumLen_cons, List.length_cons, hlen, Nat.mul_add]
            rw [Nat.mul_comm (Spec.Cost.len a) cpb]
            omega
          | true =>
            simp only [if_true] at h ⊢
            rw [ih ht _ _ _ h]
            have e : small + -1 * decodeInt buf = small - Spec.Cost.int a := by rw [hval]; omega
            simp only [if_true, List.map_cons, Spec.Cost.partials, sumMax_cons, List.length_cons, hlen, e,
              limbs_eq, Nat.mul_add]
            rw [Nat.max_comm, Nat.mul_comm (max _ _) cpb]
            omega
      · rename_i val hn
        obtain ⟨hlen, hval⟩ := node_u32 _ _ ha hn
        split at h
        · cases h
        · cases nm with
          | false =>
            simp only [Bool.false_eq_true, if_false] at h ⊢
            rw [ih ht _ _ _ h]
            simp only [Bool.false_eq_true, if_false, sumLen_cons, List.length_cons, hlen, Nat.mul_add]
            rw [Nat.mul_comm (Spec.Cost.len a) cpb]
            omega
          | true =>
            simp only [if_true] at h ⊢
            rw [ih ht _ _ _ h]
            have e : small + -1 * (val : Int) = small - Spec.Cost.int a := by rw [hval]; omega
            simp only [if_true, List.map_cons, Spec.Cost.partials, sumMax_cons, List.length_cons, hlen, e,
              limbs_eq, Nat.mul_add]
            rw [Nat.max_comm, Nat.mul_comm (max _ _) cpb]
            omega
      · cases h

theorem subAccs_cons (a : Val) (t : List Val) :
    Spec.Cost.subAccs (a :: t) = 0 :: Spec.Cost.partials (· - ·) (Spec.Cost.int a) (t.map Spec.Cost.int) := rfl

theorem subGeneric_ok (nm : Bool) (cpa cpb B : Nat) (l : List Val) (hwf : ∀ v ∈ l, v.wf = true)
    (cost : Nat) (cost' : Nat) (total : Int)
    (h : subGeneric nm cpa cpb B l cost 0 0 true = .ok (cost', total)) :
    cost' = cost + cpa * l.length + cpb *
      (if nm then Spec.Cost.sumMax l (Spec.Cost.subAccs l) else Spec.Cost.sumLen l) := by
  cases l with
  | nil =>
    simp only [subGeneric] at h; injection h with h; injection h with h1 _
    cases nm <;> simp [← h1, sumMax_nil, sumLen_nil]
  | cons a t =>
    have ha : a.wf = true := hwf a (by simp)
    have ht : ∀ v ∈ t, v.wf = true := fun v hv => hwf v (by simp [hv])
    simp only [subGeneric, if_true] at h
    split at h
    · cases h
    · split at h
      · rename_i buf hn
        obtain ⟨hlen, hval⟩ := node_buffer _ _ hn
        split at h
        · cases h
        · cases nm with
          | false =>
            simp only [Bool.false_eq_true, if_false] at h ⊢
            rw [subGeneric_later _ _ _ _ _ ht _ _ _ _ _ h]
            simp only [Bool.false_eq_true, if_false, sumLen_cons, List.length_cons, hlen, Nat.mul_add]
            rw [Nat.mul_comm (Spec.Cost.len a) cpb]
            omega
          | true =>
            simp only [if_true] at h ⊢
            rw [subGeneric_later _ _ _ _ _ ht _ _ _ _ _ h]
            have e : (0 : Int) + 1 * decodeInt buf = Spec.Cost.int a := by rw [hval]; omega
            simp only [if_true, subAccs_cons, sumMax_cons, List.length_cons, hlen, e, limbs_eq, Nat.mul_add]
            rw [Nat.max_comm, Nat.mul_comm (max _ _) cpb]
            omega
      · rename_i val hn
        obtain ⟨hlen, hval⟩ := node_u32 _ _ ha hn
        split at h
        · cases h
        · cases nm with
          | false =>
            simp only [Bool.false_eq_true, if_false] at h ⊢
            rw [subGeneric_later _ _ _ _ _ ht _ _ _ _ _ h]
            simp only [Bool.false_eq_true, if_false, sumLen_cons, List.length_cons, hlen, Nat.mul_add]
            rw [Nat.mul_comm (Spec.Cost.len a) cpb]
            omega
          | true =>
            simp only [if_true] at h ⊢
            rw [subGeneric_later _ _ _ _ _ ht _ _ _ _ _ h]
            have e : (0 : Int) + 1 * (val : Int) = Spec.Cost.int a := by rw [hval]; omega
            simp only [if_true, subAccs_cons, sumMax_cons, List.length_cons, hlen, e, limbs_eq, Nat.mul_add]
            rw [Nat.max_comm, Nat.mul_comm (max _ _) cpb]
            omega
      · cases h

theorem subFast_later (nm : Bool) (cpa cpb B : Nat) (l : List Val) (hwf : ∀ v ∈ l, v.wf = true)
    (cost : Nat) (total : Int) (cost' : Nat) (total' : Int)
    (h : subFast nm cpa cpb B l cost total false = .ok (some (cost', total'))) :
    cost' = cost + cpa * l.length + cpb *
      (if nm then Spec.Cost.sumMax l (Spec.Cost.partials (· - ·) total (l.map Spec.Cost.int))
       else Spec.Cost.sumLen l) := by
  induction l generalizing cost total with
  | nil =>
    simp only [subFast] at h; injection h with h; injection h with h; injection h with h1 _
    cases nm <;> simp [← h1, sumMax_nil, sumLen_nil]
  | cons a t ih =>
    have ha : a.wf = true := hwf a (by simp)
    have ht : ∀ v ∈ t, v.wf = true := fun v hv => hwf v (by simp [hv])
    simp only [subFast, Bool.false_eq_true, if_false] at h
    split at h
    · rename_i val hn
      obtain ⟨hlen, hval⟩ := node_u32 _ _ ha hn
      split at h
      · cases h
      · split at h
        · cases h
        · cases nm with
          | false =>
            simp only [Bool.false_eq_true, if_false] at h ⊢
            rw [ih ht _ _ h]
            simp only [Bool.false_eq_true, if_false, sumLen_cons, List.length_cons, hlen, Nat.mul_add]
            rw [Nat.mul_comm (Spec.Cost.len a) cpb]
            omega
          | true =>
            simp only [if_true] at h ⊢
            rw [ih ht _ _ h]
            simp only [if_true, List.map_cons, Spec.Cost.partials, sumMax_cons, List.length_cons, hlen, ← hval,
              limbsI64_eq, Nat.mul_add]
            rw [Nat.max_comm, Nat.mul_comm (max _ _) cpb]
            omega
    · cases h

theorem subFast_ok (nm : Bool) (cpa cpb B : Nat) (l : List Val) (hwf : ∀ v ∈ l, v.wf = true)
    (cost : Nat) (cost' : Nat) (total' : Int)
    (h : subFast nm cpa cpb B l cost 0 true = .ok (some (cost', total'))) :
    cost' = cost + cpa * l.length + cpb *
      (if nm then Spec.Cost.sumMax l (Spec.Cost.subAccs l) else Spec.Cost.sumLen l) := by
  cases l with
  | nil =>
    simp only [subFast] at h; injection h with h; injection h with h; injection h with h1 _
    cases nm <;> simp [← h1, sumMax_nil, sumLen_nil]
  | cons a t =>
    have ha : a.wf = true := hwf a (by simp)
    have ht : ∀ v ∈ t, v.wf = true := fun v hv => hwf v (by simp [hv])
    simp only [subFast, if_true] at h
    split at h
    · rename_i val hn
      obtain ⟨hlen, hval⟩ := node_u32 _ _ ha hn
      split at h
      · cases h
      · cases nm with
        | false =>
          simp only [Bool.false_eq_true, if_false] at h ⊢
          rw [subFast_later _ _ _ _ _ ht _ _ _ _ h]
          simp only [Bool.false_eq_true, if_false, sumLen_cons, List.length_cons, hlen, Nat.mul_add]
          rw [Nat.mul_comm (Spec.Cost.len a) cpb]
          omega
        | true =>
          simp only [if_true] at h ⊢
          rw [subFast_later _ _ _ _ _ ht _ _ _ _ h]
          simp only [if_true, subAccs_cons, sumMax_cons, List.length_cons, hlen, ← hval, limbsI64_eq, Nat.mul_add]
          rw [Nat.max_comm, Nat.mul_comm (max _ _) cpb]
          omega
    · cases h

/-- the body of `op_subtract` after the constants have been chosen -/
def subBody (cfg : Cfg) (nm : Bool) (base cpa cpb m : Nat) (args : List Val) (c : Ctr) :
    Except Err (Nat × Val × Ctr) :=
  let fast : Except Err (Option (Nat × Int)) :=
    if cfg.fastpath then subFast nm cpa cpb m args base 0 true else .ok none
  match fast with
  | .error e => .error e
  | .ok (some (cost, total)) =>
    match allocAtom c (i64Bytes total) with
    | .error e => .error e
    | .ok (v, c') => .ok (mallocCost cost v, v, c')
  | .ok none =>
    match subGeneric nm cpa cpb m args base 0 0 true with
    | .error e => .error e
    | .ok (cost, total) =>
      match allocNumber c total with
      | .error e => .error e
      | .ok (v, c') => .ok (mallocCost cost v, v, c')

theorem opSubtract_eq (cfg : Cfg) (flags m : Nat) (input : Val) (c : Ctr) :
    opSubtract cfg flags m input c =
      subBody cfg (newModel flags) (arithCosts flags).1 (arithCosts flags).2.1 (arithCosts flags).2.2 m
        (argList input) c := by
  unfold opSubtract subBody
  rfl

theorem subBody_ok (cfg : Cfg) (nm : Bool) (base cpa cpb m : Nat) (args : List Val)
    (hw : ∀ v ∈ args, v.wf = true) (c : Ctr) (cost : Nat) (v : Val) (c' : Ctr)
    (h : subBody cfg nm base cpa cpb m args c = .ok (cost, v, c')) :
    cost = base + cpa * args.length + cpb *
      (if nm then Spec.Cost.sumMax args (Spec.Cost.subAccs args) else Spec.Cost.sumLen args)
      + Spec.Cost.malloc v := by
  unfold subBody at h
  simp only at h
  split at h
  · cases h
  · rename_i cost0 total hfast
    split at hfast
    · split at h
      · cases h
      · rename_i v0 c1 ha
        simp only [Except.ok.injEq, Prod.mk.injEq] at h
        obtain ⟨rfl, rfl, _⟩ := h
        rw [allocAtom_ok _ _ _ _ ha, mallocCost_mkAtom, subFast_ok _ _ _ _ _ hw _ _ _ hfast]
    · cases hfast
  · split at h
    · cases h
    · rename_i cost0 total hgen
      split at h
      · cases h
      · rename_i v0 c1 ha
        simp only [Except.ok.injEq, Prod.mk.injEq] at h
        obtain ⟨rfl, rfl, _⟩ := h
        rw [allocNumber_ok _ _ _ _ ha, mallocCost_mkAtom, subGeneric_ok _ _ _ _ _ hw _ _ _ hgen]

theorem cost_opSubtract (cfg : Cfg) : CostOK (opSubtract cfg) Spec.Cost.opSubtract := by
  intro flags m args c cost v c' hwf h
  rw [opSubtract_eq] at h
  rw [subBody_ok _ _ _ _ _ _ _ (wf_argList args hwf) _ _ _ _ h]
  cases hnm : newModel flags <;>
    simp [arithCosts, hnm, Spec.Cost.opSubtract, Spec.Cost.ARITH_BASE, Spec.Cost.ARITH_PER_ARG,
      Spec.Cost.ARITH_PER_BYTE, Spec.Cost.NEW_ARITH_PER_ARG, Spec.Cost.NEW_ARITH_PER_BYTE,
      Gen.ARITH_BASE_COST, Gen.ARITH_COST_PER_ARG, Gen.ARITH_COST_PER_BYTE,
      Gen.NEW_ARITH_COST_PER_ARG, Gen.NEW_ARITH_COST_PER_BYTE]

/-! ### multiply -/

theorem mulLoop_ok (cfg : Cfg) (flags B D : Nat) (l : List Val) (hwf : ∀ v ∈ l, v.wf = true)
    (cost : Nat) (total : Int) (l0 : Nat) (cost' : Nat) (total' : Int)
    (h : mulLoop cfg flags B D l cost total l0 = .ok (cost', total')) :
    cost' = cost + Spec.Cost.mulSteps D l0 total l := by
  induction l generalizing cost total l0 with
  | nil => simp only [mulLoop] at h; injection h with h; injection h with h1 _; simp [← h1, Spec.Cost.mulSteps]
  | cons a t ih =>
    have ha : a.wf = true := hwf a (by simp)
    have ht : ∀ v ∈ t, v.wf = true := fun v hv => hwf v (by simp [hv])
    simp only [mulLoop] at h
    split at h
    · cases h
    · rename_i cost2 total2 hstep
      have hs : cost2 = cost + Spec.Cost.mulStep D l0 (Spec.Cost.len a) ∧ total2 = total * Spec.Cost.int a := by
        split at hstep
        · split at hstep
          · rename_i buf hn
            obtain ⟨hlen, hval⟩ := node_buffer _ _ hn
            split at hstep
            · cases hstep
            · split at hstep
              · cases hstep
              · injection hstep with hstep; injection hstep with h1 h2
                rw [← h1, ← h2, hlen, hval]
                simp only [Spec.Cost.mulStep, Spec.Cost.MUL_PER_OP, Spec.Cost.MUL_LINEAR_PER_BYTE,
                  Gen.MUL_COST_PER_OP, Gen.MUL_LINEAR_COST_PER_BYTE]
                constructor <;> first | omega | rfl | trivial
          · rename_i val hn
            obtain ⟨hlen, hval⟩ := node_u32 _ _ ha hn
            split at hstep
            · cases hstep
            · injection hstep with hstep; injection hstep with h1 h2
              rw [← h1, ← h2, hlen, hval]
              simp only [Spec.Cost.mulStep, Spec.Cost.MUL_PER_OP, Spec.Cost.MUL_LINEAR_PER_BYTE,
                Gen.MUL_COST_PER_OP, Gen.MUL_LINEAR_COST_PER_BYTE]
              constructor <;> first | omega | rfl | trivial
          · cases hstep
        · split at hstep
          · cases hstep
          · rename_i n1 l1 hint
            obtain ⟨hlen, hval⟩ := intAtom_ok _ _ _ _ ha hint
            split at hstep
            · cases hstep
            · split at hstep
              · cases hstep
              · injection hstep with hstep; injection hstep with h1 h2
                rw [← h1, ← h2, hlen, hval]
                simp only [Spec.Cost.mulStep, Spec.Cost.MUL_PER_OP, Spec.Cost.MUL_LINEAR_PER_BYTE,
                  Gen.MUL_COST_PER_OP, Gen.MUL_LINEAR_COST_PER_BYTE]
                constructor <;> first | omega | rfl | trivial
      split at h
      · cases h
      · rw [ih ht _ _ _ h, hs.1, hs.2, Spec.Cost.mulSteps, limbs_eq]
        omega

theorem cost_opMultiply (cfg : Cfg) : CostOK (opMultiply cfg) Spec.Cost.opMultiply := by
  intro flags m args c cost v c' hwf h
  have hw := wf_argList args hwf
  unfold opMultiply at h
  simp only at h
  split at h
  · cases h
  · rename_i cost0 total hr
    split at h
    · cases h
    · rename_i v0 c1 ha
      simp only [Except.ok.injEq, Prod.mk.injEq] at h
      obtain ⟨rfl, rfl, _⟩ := h
      rw [allocNumber_ok _ _ _ _ ha, mallocCost_mkAtom]
      congr 1
      split at hr
      · rename_i hnil
        injection hr with hr; injection hr with h1 _
        rw [hnil, ← h1]
        cases newModel flags <;> simp [Spec.Cost.opMultiply, Spec.Cost.NEW_MUL_BASE, Spec.Cost.MUL_BASE,
          Gen.NEW_MUL_BASE_COST, Gen.MUL_BASE_COST]
      · rename_i arg rest hcons
        rw [hcons] at hw
        have harg : arg.wf = true := hw arg (by simp)
        have hrest : ∀ v ∈ rest, v.wf = true := fun v hv => hw v (by simp [hv])
        rw [hcons]
        split at hr
        · cases hr
        · rename_i tot l0 hint
          obtain ⟨hlen, hval⟩ := intAtom_ok _ _ _ _ harg hint
          split at hr
          · cases hr
          · split at hr
            · cases hr
            · rename_i c1' hc1
              rw [mulLoop_ok _ _ _ _ _ hrest _ _ _ _ _ hr, hlen, hval]
              cases hnm : newModel flags
              · simp only [hnm, Bool.false_eq_true, if_false] at hc1 ⊢
                injection hc1 with hc1
                simp only [← hc1, Spec.Cost.opMultiply, Bool.false_eq_true, if_false, Spec.Cost.MUL_BASE,
                  Spec.Cost.MUL_SQUARE_DIVIDER, Gen.MUL_BASE_COST, Gen.MUL_SQUARE_COST_PER_BYTE_DIVIDER]
              · simp only [hnm, if_true] at hc1 ⊢
                split at hc1
                · cases hc1
                · injection hc1 with hc1
                  simp only [← hc1, hlen, Spec.Cost.opMultiply, if_true, Spec.Cost.NEW_MUL_BASE,
                    Spec.Cost.NEW_MUL_SQUARE_DIVIDER, Spec.Cost.MUL_LINEAR_PER_BYTE, Gen.NEW_MUL_BASE_COST,
                    Gen.NEW_MUL_SQUARE_COST_PER_BYTE_DIVIDER, Gen.MUL_LINEAR_COST_PER_BYTE]
                  omega

end Clvm.Interp
