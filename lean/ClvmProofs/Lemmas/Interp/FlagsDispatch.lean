/-
The per-operator lemmas of C05 / C06 / C07 lifted through the operator dispatch of the dialects
(`chiaOp`, `unknownOperator`): the junction between the operator layer and the machine layer.
`extra` (the cryptographic operators, supplied separately) is assumed to satisfy the same shape.
-/
import ClvmProofs.Lemmas.Interp.Fastpath
import ClvmProofs.Lemmas.Interp.Malachite

namespace Clvm.Interp
open Clvm Clvm.Alloc

/-! ### C05: the dispatch does not depend on the build configuration -/

theorem coreOp_call_fastpath (name : String) (flags m : Nat) (args : Val) (c : Ctr) (hw : args.wf = true) :
    (coreOpByName { fastpath := true } name).map (fun f => f flags m args c) =
    (coreOpByName { fastpath := false } name).map (fun f => f flags m args c) := by
  cases h1 : coreOpByName { fastpath := true } name with
  | none =>
    cases h2 : coreOpByName { fastpath := false } name with
    | none => rfl
    | some g => unfold coreOpByName at h1 h2; split at h1 <;> simp_all
  | some f =>
    cases h2 : coreOpByName { fastpath := false } name with
    | none => unfold coreOpByName at h1 h2; split at h1 <;> simp_all
    | some g => simp only [Option.map_some, coreOps_fastpath h1 h2 flags m args c hw]

theorem chiaOp_fastpath (extra : String → Option OpFn) (dflags : Flags) (o args : Val) (m : Nat)
    (ext : OperatorSet) (c : Ctr) (hw : args.wf = true) :
    chiaOp { fastpath := true } extra dflags o args m ext c =
    chiaOp { fastpath := false } extra dflags o args m ext c := by
  have key : ∀ (flags : Nat) (name : String),
      (match coreOpByName { fastpath := true } name with
        | some f => some (f flags m args c)
        | none => match extra name with
          | some f => some (f flags m args c)
          | none => none) =
      (match coreOpByName { fastpath := false } name with
        | some f => some (f flags m args c)
        | none => match extra name with
          | some f => some (f flags m args c)
          | none => none) := by
    intro flags name
    have := coreOp_call_fastpath name flags m args c hw
    cases h1 : coreOpByName { fastpath := true } name <;>
      cases h2 : coreOpByName { fastpath := false } name <;> simp_all
  simp only [chiaOp]
  cases o with
  | pair l r => rfl
  | atom ob inl =>
    simp only []
    generalize (dflags ||| match ext with
      | .Default => 0
      | .Bls => 0
      | .Keccak => Gen.FLAG_ENABLE_KECCAK_OPS_OUTSIDE_GUARD
      | .PreHardFork => Gen.FLAG_ENABLE_KECCAK_OPS_OUTSIDE_GUARD) = flags
    split
    · split
      · exact key _ _
      · rfl
    · split
      · rfl
      · split
        · rfl
        · split
          · split
            · rfl
            · split
              · rfl
              · exact key _ _
          · rfl

/-! ### C07: restriction flags through the dispatch -/

theorem chiaOpTable_req_disjoint : ∀ e ∈ Gen.chiaOpTable, restrictionBits &&& e.2.2 = 0 := by decide

theorem lookupOp_req {op : Nat} {name : String} {req : Nat}
    (h : lookupOp Gen.chiaOpTable op = some (name, req)) : restrictionBits &&& req = 0 := by
  unfold lookupOp at h
  cases hf : Gen.chiaOpTable.find? (fun e => e.1 == op) with
  | none => simp [hf] at h
  | some e =>
    simp only [hf, Option.map_some, Option.some.injEq] at h
    have := chiaOpTable_req_disjoint e (List.mem_of_find?_eq_some hf)
    rw [h] at this
    exact this

theorem call_restrict {cfg : Cfg} {extra : String → Option OpFn}
    (hextra : ∀ name f, extra name = some f → OpRestrict f)
    {G R : Nat} (hR : R &&& restrictionBits = R) {name : String} {m : Nat} {args : Val} {c : Ctr}
    {r : Nat × Val × Ctr}
    (h : (match coreOpByName cfg name with
      | some f => some (f (G ||| R) m args c)
      | none => match extra name with
        | some f => some (f (G ||| R) m args c)
        | none => none) = some (.ok r)) :
    (match coreOpByName cfg name with
      | some f => some (f G m args c)
      | none => match extra name with
        | some f => some (f G m args c)
        | none => none) = some (.ok r) := by
  cases h1 : coreOpByName cfg name with
  | some f =>
    simp only [h1, Option.some.injEq] at h ⊢
    exact coreOps_restrict h1 G R m args c r hR h
  | none =>
    simp only [h1] at h ⊢
    cases h2 : extra name with
    | some f =>
      simp only [h2, Option.some.injEq] at h ⊢
      exact hextra name f h2 G R m args c r hR h
    | none => simp [h2] at h

/-- **C07 through `ChiaDialect::op`**: with more restriction flags a successful operator call stays
the same successful call without them -/
theorem chiaOp_restrict (cfg : Cfg) (extra : String → Option OpFn)
    (hextra : ∀ name f, extra name = some f → OpRestrict f)
    (F R : Nat) (hR : R &&& restrictionBits = R) (o args : Val) (m : Nat) (ext : OperatorSet) (c : Ctr)
    (r : Nat × Val × Ctr) (h : chiaOp cfg extra (F ||| R) o args m ext c = some (.ok r)) :
    chiaOp cfg extra F o args m ext c = some (.ok r) := by
  simp only [chiaOp] at h ⊢
  cases o with
  | pair l r => simp at h
  | atom ob inl =>
    have hcomm : ∀ E, F ||| R ||| E = F ||| E ||| R := by
      intro E; rw [Nat.or_assoc, Nat.or_comm R E, ← Nat.or_assoc]
    simp only [hcomm] at h ⊢
    cases ext <;> simp only [] at h ⊢ <;>
      (first
        | (obtain ⟨G, hG⟩ : ∃ G, F ||| 0 = G := ⟨_, rfl⟩
           rw [hG] at h ⊢; clear hG)
        | (obtain ⟨G, hG⟩ : ∃ G, F ||| Gen.FLAG_ENABLE_KECCAK_OPS_OUTSIDE_GUARD = G := ⟨_, rfl⟩
           rw [hG] at h ⊢; clear hG))
    all_goals
      have hunk : ∀ {x : Option OpRes}, x = some (unknownOperator ob args (G ||| R) m c) →
          x = some (.ok r) → some (unknownOperator ob args G m c) = some (Except.ok r) := by
        intro x hx hx'
        rw [hx] at hx'
        have := Option.some.inj hx'
        rw [unknownOperator_restrict ob args G R m c r hR this]
      by_cases h4 : (ob.length == 4) = true
      · simp only [h4, ↓reduceIte] at h ⊢
        split
        · rename_i heq; simp only [heq] at h; exact call_restrict hextra hR h
        · rename_i heq; simp only [heq] at h; exact hunk rfl h
      · simp only [h4, ↓reduceIte, Bool.false_eq_true] at h ⊢
        by_cases h1 : (ob.length != 1) = true
        · simp only [h1, ↓reduceIte] at h ⊢; exact hunk rfl h
        · simp only [h1, ↓reduceIte, Bool.false_eq_true] at h ⊢
          cases hs : smallNumber (.atom ob inl) with
          | none => simp only [hs] at h ⊢; exact hunk rfl h
          | some op =>
            simp only [hs] at h ⊢
            cases hl : lookupOp Gen.chiaOpTable op with
            | none => simp only [hl] at h ⊢; exact hunk rfl h
            | some nr =>
              obtain ⟨name, req⟩ := nr
              simp only [hl] at h ⊢
              have hreq : hasFlag (G ||| R) req = hasFlag G req :=
                hasFlag_or_disjoint _ _ _ (hasFlag_false_of_disjoint R _ _ hR (lookupOp_req hl))
              rw [hreq, newModel_or_restr hR] at h
              by_cases hq : (req != 0 && !hasFlag G req) = true
              · simp only [hq, ↓reduceIte] at h ⊢; exact hunk rfl h
              · simp only [hq, ↓reduceIte, Bool.false_eq_true] at h ⊢
                by_cases hmp : (name == "op_modpow" && hasFlag (G ||| R) Gen.FLAG_DISABLE_OP && !newModel G) = true
                · simp [hmp] at h
                · simp only [hmp, ↓reduceIte, Bool.false_eq_true] at h
                  have hmp' : ¬ (name == "op_modpow" && hasFlag G Gen.FLAG_DISABLE_OP && !newModel G) = true := by
                    intro hc
                    apply hmp
                    simp only [Bool.and_eq_true] at hc ⊢
                    refine ⟨⟨hc.1.1, ?_⟩, hc.2⟩
                    rw [hasFlag_or, hc.1.2]; rfl
                  simp only [hmp', ↓reduceIte, Bool.false_eq_true]
                  exact call_restrict hextra hR h

/-! ### flag bits the dispatch and the core operators never look at (RELAXED_BLS, MALACHITE) -/

theorem chiaOpTable_req_modes : ∀ e ∈ Gen.chiaOpTable,
    Gen.FLAG_RELAXED_BLS &&& e.2.2 = 0 ∧ Gen.FLAG_MALACHITE &&& e.2.2 = 0 := by decide

theorem lookupOp_req_modes {op : Nat} {name : String} {req : Nat}
    (h : lookupOp Gen.chiaOpTable op = some (name, req)) :
    Gen.FLAG_RELAXED_BLS &&& req = 0 ∧ Gen.FLAG_MALACHITE &&& req = 0 := by
  unfold lookupOp at h
  cases hf : Gen.chiaOpTable.find? (fun e => e.1 == op) with
  | none => simp [hf] at h
  | some e =>
    simp only [hf, Option.map_some, Option.some.injEq] at h
    have := chiaOpTable_req_modes e (List.mem_of_find?_eq_some hf)
    rw [h] at this
    exact this

/-- adding a mode bit `X` that neither the dispatch nor the core operators read: the dispatch
result changes only through `extra` -/
theorem chiaOp_modeBit (cfg : Cfg) (extra : String → Option OpFn) (X : Nat)
    (hX : X = Gen.FLAG_RELAXED_BLS ∨ X = Gen.FLAG_MALACHITE)
    (Rel : OpRes → OpRes → Prop) (hrefl : ∀ x, Rel x x)
    (m : Nat) (args : Val) (c : Ctr)
    (hextra : ∀ name f G, extra name = some f → Rel (f G m args c) (f (G ||| X) m args c))
    (F : Nat) (o : Val) (ext : OperatorSet) :
    match chiaOp cfg extra F o args m ext c, chiaOp cfg extra (F ||| X) o args m ext c with
    | some x, some y => Rel x y
    | none, none => True
    | _, _ => False := by
  have hsv : ∀ G, SameView (G ||| X) G := by
    intro G; rcases hX with rfl | rfl
    · exact sameView_relaxed G
    · exact sameView_malachite G
  have hnu : ∀ G, hasFlag (G ||| X) Gen.FLAG_NO_UNKNOWN_OPS = hasFlag G Gen.FLAG_NO_UNKNOWN_OPS := by
    intro G; rcases hX with rfl | rfl
    · exact hasFlag_or_relaxed G _ (by decide)
    · exact hasFlag_or_malachite G _ (by decide)
  have hunk : ∀ G ob, unknownOperator ob args (G ||| X) m c = unknownOperator ob args G m c := by
    intro G ob
    simp only [unknownOperator, hnu, opUnknown_nm (hsv G).1]
  have hcall : ∀ G name,
      match (match coreOpByName cfg name with
          | some f => some (f G m args c)
          | none => match extra name with
            | some f => some (f G m args c)
            | none => none),
        (match coreOpByName cfg name with
          | some f => some (f (G ||| X) m args c)
          | none => match extra name with
            | some f => some (f (G ||| X) m args c)
            | none => none) with
      | some x, some y => Rel x y
      | none, none => True
      | _, _ => False := by
    intro G name
    cases h1 : coreOpByName cfg name with
    | some f => simp only [coreOps_sameView h1 (hsv G)]; exact hrefl _
    | none =>
      simp only []
      cases h2 : extra name with
      | some f => exact hextra name f G h2
      | none => trivial
  simp only [chiaOp]
  cases o with
  | pair l r => exact hrefl _
  | atom ob inl =>
    have hcomm : ∀ E, F ||| X ||| E = F ||| E ||| X := by
      intro E; rw [Nat.or_assoc, Nat.or_comm X E, ← Nat.or_assoc]
    simp only [hcomm]
    cases ext <;> simp only [] <;>
      (first
        | (obtain ⟨G, hG⟩ : ∃ G, F ||| 0 = G := ⟨_, rfl⟩
           rw [hG]; clear hG)
        | (obtain ⟨G, hG⟩ : ∃ G, F ||| Gen.FLAG_ENABLE_KECCAK_OPS_OUTSIDE_GUARD = G := ⟨_, rfl⟩
           rw [hG]; clear hG))
    all_goals
      simp only [hunk]
      by_cases h4 : (ob.length == 4) = true
      · simp only [h4, ↓reduceIte]
        cases hfd : List.find? (fun e => e.1 == beNat ob) Gen.chiaOp4Table with
        | none => exact hrefl _
        | some pn => obtain ⟨k, name⟩ := pn; exact hcall _ _
      · simp only [h4, ↓reduceIte, Bool.false_eq_true]
        by_cases h1 : (ob.length != 1) = true
        · simp only [h1, ↓reduceIte]; exact hrefl _
        · simp only [h1, ↓reduceIte, Bool.false_eq_true]
          cases hs : smallNumber (.atom ob inl) with
          | none => exact hrefl _
          | some op =>
            simp only []
            cases hl : lookupOp Gen.chiaOpTable op with
            | none => exact hrefl _
            | some nr =>
              obtain ⟨name, req⟩ := nr
              simp only []
              have hreq : hasFlag (G ||| X) req = hasFlag G req := by
                have := lookupOp_req_modes hl
                rcases hX with rfl | rfl
                · exact hasFlag_or_relaxed G _ this.1
                · exact hasFlag_or_malachite G _ this.2
              rw [hreq, (hsv G).1, (hsv G).2.2]
              by_cases hq : (req != 0 && !hasFlag G req) = true
              · simp only [hq, ↓reduceIte]; exact hrefl _
              · simp only [hq, ↓reduceIte, Bool.false_eq_true]
                by_cases hmp : (name == "op_modpow" && hasFlag G Gen.FLAG_DISABLE_OP && !newModel G) = true
                · simp only [hmp, ↓reduceIte]; exact hrefl _
                · simp only [hmp, ↓reduceIte, Bool.false_eq_true]
                  exact hcall _ _

/-- **C07 through `ChiaDialect::op`**: `RELAXED_BLS` keeps every successful operator call -/
theorem chiaOp_relax (cfg : Cfg) (extra : String → Option OpFn)
    (hextra : ∀ name f, extra name = some f → OpRelax f)
    (F : Nat) (o args : Val) (m : Nat) (ext : OperatorSet) (c : Ctr) (r : Nat × Val × Ctr)
    (h : chiaOp cfg extra F o args m ext c = some (.ok r)) :
    chiaOp cfg extra (F ||| Gen.FLAG_RELAXED_BLS) o args m ext c = some (.ok r) := by
  have := chiaOp_modeBit cfg extra Gen.FLAG_RELAXED_BLS (Or.inl rfl)
    (fun x y => ∀ r, x = .ok r → y = .ok r) (fun _ _ h => h) m args c
    (fun name f G hf r hr => hextra name f hf G m args c r hr) F o ext
  rw [h] at this
  split at this
  · rename_i x y hx hy
    cases hx
    rw [hy, this r rfl]
  · rename_i hx _; cases hx
  · exact absurd this id

/-- **C06 through `ChiaDialect::op`**: `MALACHITE` changes no operator call on well-formed
arguments (`extra`: the operators outside the core table must not read the bit either) -/
theorem chiaOp_malachite (cfg : Cfg) (extra : String → Option OpFn)
    (hextra : ∀ name f, extra name = some f → OpMalachiteIrrelevant f)
    (F : Nat) (o args : Val) (m : Nat) (ext : OperatorSet) (c : Ctr) (hw : args.wf = true) :
    chiaOp cfg extra (F ||| Gen.FLAG_MALACHITE) o args m ext c = chiaOp cfg extra F o args m ext c := by
  have := chiaOp_modeBit cfg extra Gen.FLAG_MALACHITE (Or.inr rfl) Eq (fun _ => rfl) m args c
    (fun name f G hf => (hextra name f hf G m args c hw).symm) F o ext
  split at this
  · rename_i x y hx hy; rw [hx, hy, this]
  · rename_i hx hy; rw [hx, hy]
  · exact absurd this id

end Clvm.Interp
