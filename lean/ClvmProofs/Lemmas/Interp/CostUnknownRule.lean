/-
C09: from the loop lemmas (`CostUnknown.lean`) to the whole of `opUnknown` against `Spec.unknownRule`.
-/
import ClvmProofs.Lemmas.Interp.CostUnknown

namespace Clvm.Interp
open Clvm Clvm.Alloc Clvm.Spec Clvm.Spec.Unknown

theorem walk_ok_eq (cf : Nat) (nm : Bool) (B : Nat) (ss : List (Option Nat)) (seen r : List Nat)
    (h : Unknown.walk cf nm B seen ss = .ok r) : r = seen ++ ss.filterMap id := by
  induction ss generalizing seen with
  | nil => simp only [Unknown.walk] at h; injection h with h; simp [h]
  | cons a t ih =>
    cases a with
    | none => simp [Unknown.walk] at h
    | some s =>
      simp only [Unknown.walk] at h
      split at h
      · cases h
      · have := ih _ h
        simp [this]

theorem sizesOf_filterMap (l : List Val) : (sizesOf l).filterMap id = l.filterMap sizeOf := by
  simp [sizesOf, List.filterMap_map]

theorem base_pos (cf : Nat) (nm : Bool) (ss : List Nat) : 0 < base cf nm ss := by
  unfold base
  split
  · unfold addBase; split <;> omega
  · unfold mulBase; cases ss <;> simp only <;> split <;> omega
  · unfold concatBase; omega
  · omega

/-- outcome of the model's base computation vs the documented walk -/
def BaseRel (cf : Nat) (nm : Bool) (impl : Except Err Nat) (spec : Except Err (List Nat)) : Prop :=
  match impl, spec with
  | .ok c, .ok ss => c = base cf nm ss
  | .error e, .error e' => e = e' ∨ nm = true
  | .ok _, .error _ => False
  | .error _, .ok ss => nm = true ∧ 2 ^ 32 ≤ base cf nm ss

theorem BaseRel_of_eq (cf : Nat) (nm : Bool) (impl : Except Err Nat) (spec : Except Err (List Nat))
    (h : impl = spec.map (base cf nm)) : BaseRel cf nm impl spec := by
  subst h
  cases spec <;> simp [BaseRel, Except.map]

/-- the documented sizes (no walk for cost function 0: the arguments are ignored) -/
def specSizes (cf : Nat) (nm : Bool) (B : Nat) (l : List Val) : Except Err (List Nat) :=
  if cf == 0 then .ok [] else Unknown.walk cf nm B [] (sizesOf l)

theorem addBase_nil (nm : Bool) : addBase nm [] = Gen.ARITH_BASE_COST := by
  cases nm <;> simp [addBase, runMaxSum, Unknown.sum, Gen.ARITH_BASE_COST]

theorem concatBase_nil : concatBase [] = Gen.CONCAT_BASE_COST := by
  simp [concatBase, Unknown.sum, Gen.CONCAT_BASE_COST]

theorem base_one (nm : Bool) : base 1 nm = addBase nm := by funext ss; rfl
theorem base_two (nm : Bool) : base 2 nm = mulBase nm := by funext ss; rfl
theorem base_three (nm : Bool) : base 3 nm = concatBase := by funext ss; rfl

/-- exact agreement of the base computation outside the 64-bit overflow of `l0 * len` -/
theorem implBase_exact (cf : Nat) (hcf : cf < 4) (nm : Bool) (B : Nat) (hB : B ≤ U64_MAX) (l : List Val)
    (hov : nm = true → cf = 2 → totalLen l * totalLen l ≤ U64_MAX) :
    implBase cf nm B l = (specSizes cf nm B l).map (base cf nm) := by
  have : cf = 0 ∨ cf = 1 ∨ cf = 2 ∨ cf = 3 := by omega
  rcases this with rfl | rfl | rfl | rfl
  · simp [implBase, specSizes, Except.map, base]
  · simp only [implBase, specSizes, base_one]
    cases nm with
    | false =>
      have := unknownArith_old_walk B l [] 0
      rw [addBase_nil] at this
      simpa using this
    | true =>
      have := unknownArith_new_walk B hB l []
      rw [addBase_nil] at this
      simpa [maxL] using this
  · simp only [implBase, specSizes, base_two]
    cases nm with
    | false =>
      have := unknownMul_old_walk B l 0
      simpa [mulBase, Gen.MUL_BASE_COST, Gen.MUL_SQUARE_COST_PER_BYTE_DIVIDER] using this
    | true =>
      have := unknownMul_new_walk B hB l 0 (hov rfl rfl)
      simpa [mulBase, Gen.NEW_MUL_BASE_COST, Gen.NEW_MUL_SQUARE_COST_PER_BYTE_DIVIDER] using this
  · simp only [implBase, specSizes, base_three]
    have := unknownConcat_walk nm B l []
    rw [concatBase_nil] at this
    simpa using this

theorem implBase_rel (cf : Nat) (hcf : cf < 4) (nm : Bool) (B : Nat) (hB : B ≤ U64_MAX) (l : List Val) :
    BaseRel cf nm (implBase cf nm B l) (specSizes cf nm B l) := by
  by_cases h2 : nm = true ∧ cf = 2
  · obtain ⟨rfl, rfl⟩ := h2
    have := unknownMul_new_rel B hB l 0
    simp only [implBase, specSizes, if_true, Gen.NEW_MUL_BASE_COST, Gen.NEW_MUL_SQUARE_COST_PER_BYTE_DIVIDER]
    have h0 : mulBase true [] = 2000 := by simp [mulBase]
    rw [h0] at this
    revert this
    generalize unknownMul true B 16 l 2000 0 true = x
    generalize Unknown.walk 2 true B [] (sizesOf l) = y
    intro h
    cases x <;> cases y <;> simp_all [MulRel, BaseRel, base]
  · apply BaseRel_of_eq
    apply implBase_exact cf hcf nm B hB l
    intro a b; exact absurd ⟨a, b⟩ h2

end Clvm.Interp
