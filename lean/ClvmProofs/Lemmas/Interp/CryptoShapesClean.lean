/-
C25, per-operator layer for the operators outside the core table: no tree-level operator of
`Crypto.opByNameWith P` (any primitives `P`) returns `Panic` / `InternalError` / `Abort`, and
whenever it reports a freshly allocated result (`fresh = true`) the result is an atom — so the
`Panic` of `liftCrypto` is unreachable (`TClean`, lifted by `liftCrypto_clean`).

Every `Panic` / `InternalError` constructor of `ClvmModel/Crypto/Ops.lean` is covered:
* `"get_args arity"` (8 operators) and `"argc"` (g1_map, g2_map): the list returned by
  `get_args::<N>` / `get_varargs` has the length that was just checked;
* `"PRECOMPUTED_HASHES index"` (sha256 fast path): the index was compared with the table length;
* `"sha256 hash is not 32 bytes"` (coinid): `sha256_len32`;
* `"fuel"` (pairing / verify loops): the fuel `args.size + 1` exceeds the number of iterations.
-/
import ClvmProofs.Lemmas.Interp.CryptoShapesBudget

set_option linter.unusedSimpArgs false

namespace Clvm.Crypto.Ops
open Clvm Clvm.Crypto Clvm.Interp

theorem sha256_len32 (msg : Bytes) : (Hash.sha256 msg).length = 32 := by
  simp [Hash.sha256, Hash.Sha256.digest, Hash.Sha256.be32]

/-! ### leaves -/

theorem getArgs_clean {n : Nat} {args : Tree} {name : String} {e : Err}
    (h : getArgs n args name = .error e) : Err.isInternal e = false := by
  unfold getArgs at h; split at h <;> cases h; rfl

theorem getVarargs_clean {name : String} {e : Err} : ∀ {n : Nat} {args : Tree},
    getVarargs n args name = .error e → Err.isInternal e = false := by
  intro n
  induction n with
  | zero =>
    intro args h
    cases args with
    | atom b => cases h
    | pair f r => cases h; rfl
  | succ n ih =>
    intro args h
    cases args with
    | atom b => cases h
    | pair f r =>
      unfold getVarargs at h
      cases hr : getVarargs n r name with
      | error e' => rw [hr] at h; cases h; exact ih hr
      | ok l => rw [hr] at h; cases h

theorem atomOf_clean {t : Tree} {name : String} {e : Err} (h : atomOf t name = .error e) :
    Err.isInternal e = false := by
  unfold atomOf at h; split at h <;> cases h; rfl

theorem intAtom_clean {t : Tree} {name : String} {e : Err} (h : intAtom t name = .error e) :
    Err.isInternal e = false := by
  unfold intAtom at h; split at h <;> cases h; rfl

theorem first_clean {t : Tree} {e : Err} (h : first t = .error e) : Err.isInternal e = false := by
  unfold first at h; split at h <;> cases h; rfl

theorem rest_clean {t : Tree} {e : Err} (h : rest t = .error e) : Err.isInternal e = false := by
  unfold rest at h; split at h <;> cases h; rfl

theorem allocG1_clean {t : Tree} {e : Err} (h : allocG1 t = .error e) : Err.isInternal e = false := by
  unfold allocG1 at h
  split at h
  · cases h; rfl
  · split at h
    · cases h; rfl
    · split at h <;> cases h; rfl

theorem allocG2_clean {t : Tree} {e : Err} (h : allocG2 t = .error e) : Err.isInternal e = false := by
  unfold allocG2 at h
  split at h
  · cases h; rfl
  · split at h
    · cases h; rfl
    · split at h <;> cases h; rfl

theorem validateG1_clean {b : Bytes} {e : Err} (h : validateG1 b = .error e) : Err.isInternal e = false := by
  unfold validateG1 at h; split at h <;> cases h; rfl

theorem validateG2_clean {b : Bytes} {e : Err} (h : validateG2 b = .error e) : Err.isInternal e = false := by
  unfold validateG2 at h; split at h <;> cases h; rfl

/-! ### tactics -/

syntax "clean_leaf " ident : tactic
macro_rules
  | `(tactic| clean_leaf $h:ident) => `(tactic|
    with_reducible first
    | exact cCheck_clean $h | exact getArgs_clean $h | exact getVarargs_clean $h | exact atomOf_clean $h
    | exact intAtom_clean $h | exact first_clean $h | exact rest_clean $h | exact allocG1_clean $h
    | exact allocG2_clean $h | exact validateG1_clean $h | exact validateG2_clean $h)

/-- walk a failing `do`-block down to the step that failed -/
syntax "walk_err " ident : tactic
macro_rules
  | `(tactic| walk_err $h:ident) => `(tactic|
    repeat' (first
      | (simp only [ex_bind_err, ex_pure, ex_throw, ex_ok_bind, ex_err_bind, Bool.false_eq_true, eq_self,
          ↓reduceIte, reduceCtorEq, false_and, and_false, exists_false, false_or, or_false] at $h:ident; done)
      | (refine Or.elim $h ?_ ?_ <;> clear $h <;> intro $h:ident)
      | (refine Exists.elim $h ?_; clear $h; intro _ hx; have hl := And.left hx; have $h:ident := And.right hx;
         clear hx)
      | (simp only [Except.error.injEq] at $h:ident; subst $h:ident; rfl)
      | (clean_leaf $h)
      | (split at $h:ident)
      | (simp only [ex_bind_err, ex_pure, ex_throw, ex_ok_bind, ex_err_bind, Bool.false_eq_true, eq_self,
          ↓reduceIte] at $h:ident)))

/-! ### loops -/

theorem sha256Loop_clean {pa pb m : Nat} {e : Err} : ∀ {t : Tree} {cost : Nat} {acc : Bytes},
    sha256Loop pa pb m t cost acc = .error e → Err.isInternal e = false := by
  intro t
  induction t with
  | atom b => intro cost acc h; cases h
  | pair arg rest _ ih =>
    intro cost acc h
    unfold sha256Loop at h
    walk_err h
    exact ih h

theorem keccakLoop_clean {pa pb m : Nat} {e : Err} : ∀ {t : Tree} {cost : Nat} {acc : Bytes},
    keccakLoop pa pb m t cost acc = .error e → Err.isInternal e = false := by
  intro t
  induction t with
  | atom b => intro cost acc h; cases h
  | pair arg rest _ ih =>
    intro cost acc h
    unfold keccakLoop at h
    walk_err h
    exact ih h

theorem pointAddLoop_clean {m : Nat} {e : Err} : ∀ {t : Tree} {cost : Nat} {total : Bls.G1},
    pointAddLoop m t cost total = .error e → Err.isInternal e = false := by
  intro t
  induction t with
  | atom b => intro cost total h; cases h
  | pair arg rest _ ih =>
    intro cost total h
    unfold pointAddLoop at h
    walk_err h
    exact ih h

theorem g1SubtractLoop_clean {m : Nat} {e : Err} : ∀ {t : Tree} {cost : Nat} {total : Bls.G1} {f : Bool},
    g1SubtractLoop m t cost total f = .error e → Err.isInternal e = false := by
  intro t
  induction t with
  | atom b => intro cost total f h; cases h
  | pair arg rest _ ih =>
    intro cost total f h
    unfold g1SubtractLoop at h
    simp only [ex_bind_err] at h
    rcases h with h | ⟨_, _, h | ⟨_, _, h⟩⟩
    · exact allocG1_clean h
    · exact cCheck_clean h
    · exact ih h

theorem g2AddLoop_clean {m : Nat} {e : Err} : ∀ {t : Tree} {cost : Nat} {total : Bls.G2},
    g2AddLoop m t cost total = .error e → Err.isInternal e = false := by
  intro t
  induction t with
  | atom b => intro cost total h; cases h
  | pair arg rest _ ih =>
    intro cost total h
    unfold g2AddLoop at h
    walk_err h
    exact ih h

theorem g2SubtractLoop_clean {m : Nat} {e : Err} : ∀ {t : Tree} {cost : Nat} {total : Bls.G2} {f : Bool},
    g2SubtractLoop m t cost total f = .error e → Err.isInternal e = false := by
  intro t
  induction t with
  | atom b => intro cost total f h; cases h
  | pair arg rest _ ih =>
    intro cost total f h
    unfold g2SubtractLoop at h
    simp only [ex_bind_err] at h
    rcases h with h | ⟨_, _, h | ⟨_, _, h⟩⟩
    · exact allocG2_clean h
    · exact cCheck_clean h
    · exact ih h

theorem size_pos (t : Tree) : 0 < t.size := by
  cases t <;> simp [Tree.size, Tree.pairs, Tree.atoms]
  omega

theorem rest_size {t r : Tree} (h : rest t = .ok r) : r.size < t.size := by
  cases t with
  | atom b => cases h
  | pair f r' =>
    cases h
    have := size_pos f
    simp only [Tree.size, Tree.pairs, Tree.atoms] at this ⊢
    omega

theorem pairingLoop_clean {cpa m : Nat} {e : Err} : ∀ {fuel : Nat} {args : Tree} {cost : Nat}
    {items : List (Bls.G1 × Bls.G2)}, args.size < fuel →
    pairingLoop cpa m fuel args cost items = .error e → Err.isInternal e = false := by
  intro fuel
  induction fuel with
  | zero => intro args cost items hs; omega
  | succ fuel ih =>
    intro args cost items hs h
    unfold pairingLoop at h
    split at h
    · cases h
    · simp only [ex_bind_err] at h
      rcases h with h | ⟨_, _, h⟩
      · exact cCheck_clean h
      rcases h with h | ⟨a1, h1, h⟩
      · exact first_clean h
      rcases h with h | ⟨_, _, h⟩
      · exact allocG1_clean h
      rcases h with h | ⟨a2, h2, h⟩
      · exact rest_clean h
      rcases h with h | ⟨a3, h3, h⟩
      · exact first_clean h
      rcases h with h | ⟨_, _, h⟩
      · exact allocG2_clean h
      rcases h with h | ⟨a4, h4, h⟩
      · exact rest_clean h
      · have := rest_size h2
        have := rest_size h4
        exact ih (by omega) h

theorem verifyLoop_clean {cpa cpb cpd m : Nat} {e : Err} : ∀ {fuel : Nat} {args : Tree} {cost : Nat}
    {items : List (Bls.G1 × Bytes)}, args.size < fuel →
    verifyLoop cpa cpb cpd m fuel args cost items = .error e → Err.isInternal e = false := by
  intro fuel
  induction fuel with
  | zero => intro args cost items hs; omega
  | succ fuel ih =>
    intro args cost items hs h
    unfold verifyLoop at h
    split at h
    · cases h
    · simp only [ex_bind_err] at h
      rcases h with h | ⟨a1, h1, h⟩
      · exact first_clean h
      rcases h with h | ⟨_, _, h⟩
      · exact allocG1_clean h
      rcases h with h | ⟨a2, h2, h⟩
      · exact rest_clean h
      rcases h with h | ⟨a3, h3, h⟩
      · exact first_clean h
      rcases h with h | ⟨_, _, h⟩
      · exact atomOf_clean h
      rcases h with h | ⟨a4, h4, h⟩
      · exact rest_clean h
      rcases h with h | ⟨_, _, h⟩
      · exact cCheck_clean h
      · have := rest_size h2
        have := rest_size h4
        exact ih (by omega) h

/-! ### the operators: errors -/

/-- the error half of `TClean` -/
def TCleanErr (g : Crypto.OpFn) : Prop :=
  ∀ (flags m : Nat) (args : Tree) (e : Err), g flags m args = .error e → Err.isInternal e = false

theorem precomputed_get_some {val : Nat} (h : val < Gen.Crypto.precomputedHashes.length) :
    ∃ b, Gen.Crypto.precomputedHashes[val]? = some b := ⟨_, List.getElem?_eq_getElem h⟩

theorem opSha256_cleanErr : TCleanErr opSha256 := by
  intro flags m args e h
  unfold opSha256 at h
  cases hnm : newCostModel flags <;>
  · simp only [hnm, Bool.false_eq_true, ↓reduceIte] at h
    split at h
    · cases h
    · split at h
      · rename_i val hfast
        have hval : val < Gen.Crypto.precomputedHashes.length := by
          split at hfast
          · split at hfast
            · split at hfast
              · split at hfast
                · cases hfast; assumption
                · cases hfast
              · cases hfast
            · cases hfast
          · cases hfast
        obtain ⟨b, hb⟩ := precomputed_get_some hval
        rw [hb] at h
        split at h
        · cases h; exact cCheck_clean ‹_›
        · cases h
      · split at h
        · cases h; exact sha256Loop_clean ‹_›
        · cases h

theorem opKeccak256_cleanErr : TCleanErr opKeccak256 := by
  intro flags m args e h
  unfold opKeccak256 at h
  cases hnm : newCostModel flags <;>
  · simp only [hnm, Bool.false_eq_true, ↓reduceIte] at h
    split at h
    · cases h; exact keccakLoop_clean ‹_›
    · cases h

theorem opCoinid_cleanErr : TCleanErr opCoinid := by
  intro flags m args e h
  rcases getArgs3_cases args "coinid" with ⟨a, b, c, t, rfl, hg⟩ | ⟨s, hg⟩
  · unfold opCoinid at h
    simp only [hg, ex_ok_bind, sha256_len32, ne_eq, not_true_eq_false, ↓reduceIte] at h
    unfold newAtomAndCost at h
    walk_err h
  · unfold opCoinid at h; simp only [hg, ex_err_bind, Except.error.injEq] at h; subst h; rfl

theorem opPointAdd_cleanErr : TCleanErr opPointAdd := by
  intro flags m args e h
  unfold opPointAdd at h
  simp only [ex_bind_err, ex_pure, reduceCtorEq, and_false, exists_false, or_false] at h
  exact pointAddLoop_clean h

theorem opPubkeyForExp_cleanErr : TCleanErr opPubkeyForExp := by
  intro flags m args e h
  rcases getArgs1_cases args "pubkey_for_exp" with ⟨a, t, rfl, hg⟩ | ⟨s, hg⟩
  · unfold opPubkeyForExp at h
    simp only [hg, ex_ok_bind] at h
    walk_err h
  · unfold opPubkeyForExp at h; simp only [hg, ex_err_bind, Except.error.injEq] at h; subst h; rfl

theorem opBlsG1Subtract_cleanErr : TCleanErr opBlsG1Subtract := by
  intro flags m args e h
  unfold opBlsG1Subtract at h
  simp only [ex_bind_err, ex_pure, reduceCtorEq, and_false, exists_false, or_false] at h
  rcases h with h | ⟨_, _, h⟩
  · exact cCheck_clean h
  · exact g1SubtractLoop_clean h

theorem opBlsG1Multiply_cleanErr : TCleanErr opBlsG1Multiply := by
  intro flags m args e h
  rcases getArgs2_cases args "g1_multiply" with ⟨a, b, t, rfl, hg⟩ | ⟨s, hg⟩
  · unfold opBlsG1Multiply at h
    simp only [hg, ex_ok_bind] at h
    walk_err h
  · unfold opBlsG1Multiply at h; simp only [hg, ex_err_bind, Except.error.injEq] at h; subst h; rfl

theorem opBlsG1Negate_cleanErr : TCleanErr opBlsG1Negate := by
  intro flags m args e h
  rcases getArgs1_cases args "g1_negate" with ⟨a, t, rfl, hg⟩ | ⟨s, hg⟩
  · unfold opBlsG1Negate at h
    simp only [hg, ex_ok_bind] at h
    unfold newAtomAndCost at h
    walk_err h
  · unfold opBlsG1Negate at h; simp only [hg, ex_err_bind, Except.error.injEq] at h; subst h; rfl

theorem opBlsG2Add_cleanErr : TCleanErr opBlsG2Add := by
  intro flags m args e h
  unfold opBlsG2Add at h
  simp only [ex_bind_err, ex_pure, reduceCtorEq, and_false, exists_false, or_false] at h
  rcases h with h | ⟨_, _, h⟩
  · exact cCheck_clean h
  · exact g2AddLoop_clean h

theorem opBlsG2Subtract_cleanErr : TCleanErr opBlsG2Subtract := by
  intro flags m args e h
  unfold opBlsG2Subtract at h
  simp only [ex_bind_err, ex_pure, reduceCtorEq, and_false, exists_false, or_false] at h
  rcases h with h | ⟨_, _, h⟩
  · exact cCheck_clean h
  · exact g2SubtractLoop_clean h

theorem opBlsG2Multiply_cleanErr : TCleanErr opBlsG2Multiply := by
  intro flags m args e h
  rcases getArgs2_cases args "g2_multiply" with ⟨a, b, t, rfl, hg⟩ | ⟨s, hg⟩
  · unfold opBlsG2Multiply at h
    simp only [hg, ex_ok_bind] at h
    walk_err h
  · unfold opBlsG2Multiply at h; simp only [hg, ex_err_bind, Except.error.injEq] at h; subst h; rfl

theorem opBlsG2Negate_cleanErr : TCleanErr opBlsG2Negate := by
  intro flags m args e h
  rcases getArgs1_cases args "g2_negate" with ⟨a, t, rfl, hg⟩ | ⟨s, hg⟩
  · unfold opBlsG2Negate at h
    simp only [hg, ex_ok_bind] at h
    unfold newAtomAndCost at h
    walk_err h
  · unfold opBlsG2Negate at h; simp only [hg, ex_err_bind, Except.error.injEq] at h; subst h; rfl

theorem opBlsMapToG1_cleanErr (H : Bytes → Bytes → Bls.G1) : TCleanErr (opBlsMapToG1 H) := by
  intro flags m args e h
  unfold opBlsMapToG1 at h
  rcases getVarargs2_cases args "g1_map" with ⟨t, rfl, hg⟩ | ⟨a, t, rfl, hg⟩ | ⟨a, b, t, rfl, hg⟩ | ⟨s, hg⟩
  · simp only [hg, ex_ok_bind] at h; argc_simp at h
    simp only [ex_throw, ex_err_bind, Except.error.injEq] at h; subst h; rfl
  · simp only [hg, ex_ok_bind] at h; argc_simp at h; walk_err h
  · simp only [hg, ex_ok_bind] at h; argc_simp at h; walk_err h
  · simp only [hg, ex_err_bind, Except.error.injEq] at h; subst h; rfl

theorem opBlsMapToG2_cleanErr (H : Bytes → Bytes → Bls.G2) : TCleanErr (opBlsMapToG2 H) := by
  intro flags m args e h
  unfold opBlsMapToG2 at h
  rcases getVarargs2_cases args "g2_map" with ⟨t, rfl, hg⟩ | ⟨a, t, rfl, hg⟩ | ⟨a, b, t, rfl, hg⟩ | ⟨s, hg⟩
  · simp only [hg, ex_ok_bind] at h; argc_simp at h
    simp only [ex_throw, ex_err_bind, Except.error.injEq] at h; subst h; rfl
  · simp only [hg, ex_ok_bind] at h; argc_simp at h; walk_err h
  · simp only [hg, ex_ok_bind] at h; argc_simp at h; walk_err h
  · simp only [hg, ex_err_bind, Except.error.injEq] at h; subst h; rfl

theorem opBlsPairingIdentity_cleanErr (A : List (Bls.G1 × Bls.G2) → Bool) :
    TCleanErr (opBlsPairingIdentity A) := by
  intro flags m args e h
  unfold opBlsPairingIdentity at h
  cases hnm : newCostModel flags <;>
  · simp only [hnm, Bool.false_eq_true, ↓reduceIte, ex_bind_err] at h
    rcases h with h | ⟨_, _, h | ⟨⟨cost, items⟩, hl, h⟩⟩
    · exact cCheck_clean h
    · exact pairingLoop_clean (Nat.lt_succ_self _) h
    · simp only at h
      split at h
      · simp only [ex_throw, Except.error.injEq] at h; subst h; rfl
      · simp only [ex_pure, reduceCtorEq] at h

theorem opBlsVerify_cleanErr (A : Bls.G2 → List (Bls.G1 × Bytes) → Bool) : TCleanErr (opBlsVerify A) := by
  intro flags m args e h
  unfold opBlsVerify at h
  cases hnm : newCostModel flags <;>
  · simp only [hnm, Bool.false_eq_true, ↓reduceIte, ex_bind_err] at h
    rcases h with h | ⟨_, _, h⟩
    · exact cCheck_clean h
    rcases h with h | ⟨a1, h1, h⟩
    · exact first_clean h
    rcases h with h | ⟨_, _, h⟩
    · exact allocG2_clean h
    rcases h with h | ⟨a2, h2, h⟩
    · exact rest_clean h
    rcases h with h | ⟨⟨cost, items⟩, hl, h⟩
    · exact verifyLoop_clean (Nat.lt_succ_self _) h
    · simp only at h
      split at h
      · simp only [ex_throw, Except.error.injEq] at h; subst h; rfl
      · simp only [ex_pure, reduceCtorEq] at h

set_option maxRecDepth 8000 in
theorem opSecp256r1Verify_cleanErr : TCleanErr opSecp256r1Verify := by
  intro flags m args e h
  rcases getArgs3_cases args "secp256r1_verify" with ⟨a, b, c, t, rfl, hg⟩ | ⟨s, hg⟩
  · unfold opSecp256r1Verify at h
    simp only [hg, ex_ok_bind] at h
    walk_err h
  · unfold opSecp256r1Verify at h
    simp only [hg, ex_err_bind, ex_bind_err] at h
    rcases h with h | ⟨_, _, h⟩
    · exact cCheck_clean h
    · simp only [Except.error.injEq] at h; subst h; rfl

set_option maxRecDepth 8000 in
theorem opSecp256k1Verify_cleanErr : TCleanErr opSecp256k1Verify := by
  intro flags m args e h
  rcases getArgs3_cases args "secp256k1_verify" with ⟨a, b, c, t, rfl, hg⟩ | ⟨s, hg⟩
  · unfold opSecp256k1Verify at h
    simp only [hg, ex_ok_bind] at h
    walk_err h
  · unfold opSecp256k1Verify at h
    simp only [hg, ex_err_bind, ex_bind_err] at h
    rcases h with h | ⟨_, _, h⟩
    · exact cCheck_clean h
    · simp only [Except.error.injEq] at h; subst h; rfl

/-! ### the operators: a freshly allocated result is an atom -/

/-- the success half of `TClean` -/
def TFreshAtom (g : Crypto.OpFn) : Prop :=
  ∀ (flags m : Nat) (args : Tree) (r : Crypto.OpRes), g flags m args = .ok r → r.fresh = true →
    ∃ b, r.value = .atom b

/-- closes `r.fresh = true → ∃ b, r.value = .atom b` for an explicit record -/
syntax "fresh_close" : tactic
macro_rules
  | `(tactic| fresh_close) => `(tactic|
    first
    | exact fun _ => ⟨_, rfl⟩
    | exact fun hf => Bool.noConfusion hf)

theorem opSha256_fresh : TFreshAtom opSha256 := by
  intro flags m args r h
  unfold opSha256 at h
  simp only [newAtomAndCost] at h
  repeat' (first | (simp only [reduceCtorEq] at h; done) | (simp only [Except.ok.injEq] at h; subst h) | split at h)
  all_goals fresh_close

theorem opKeccak256_fresh : TFreshAtom opKeccak256 := by
  intro flags m args r h
  unfold opKeccak256 at h
  simp only [newAtomAndCost] at h
  repeat' (first | (simp only [reduceCtorEq] at h; done) | (simp only [Except.ok.injEq] at h; subst h) | split at h)
  all_goals fresh_close

theorem opCoinid_fresh : TFreshAtom opCoinid := by
  intro flags m args r h
  rcases getArgs3_cases args "coinid" with ⟨a, b, c, t, rfl, hg⟩ | ⟨s, hg⟩
  · unfold opCoinid at h
    simp only [hg, ex_ok_bind, newAtomAndCost] at h
    walk_ok h
    all_goals fresh_close
  · unfold opCoinid at h; simp only [hg, ex_err_bind, reduceCtorEq] at h

theorem opPointAdd_fresh : TFreshAtom opPointAdd := by
  intro flags m args r h
  unfold opPointAdd at h
  simp only [ex_bind_ok, ex_pure] at h
  obtain ⟨⟨cost, total⟩, hl, h⟩ := h
  cases h; fresh_close

theorem opPubkeyForExp_fresh : TFreshAtom opPubkeyForExp := by
  intro flags m args r h
  rcases getArgs1_cases args "pubkey_for_exp" with ⟨a, t, rfl, hg⟩ | ⟨s, hg⟩
  · unfold opPubkeyForExp at h
    simp only [hg, ex_ok_bind] at h
    walk_ok h
    all_goals fresh_close
  · unfold opPubkeyForExp at h; simp only [hg, ex_err_bind, reduceCtorEq] at h

theorem opBlsG1Subtract_fresh : TFreshAtom opBlsG1Subtract := by
  intro flags m args r h
  unfold opBlsG1Subtract at h
  simp only [ex_bind_ok, ex_pure] at h
  obtain ⟨_, _, ⟨cost, total⟩, hl, h⟩ := h
  cases h; fresh_close

theorem opBlsG1Multiply_fresh : TFreshAtom opBlsG1Multiply := by
  intro flags m args r h
  rcases getArgs2_cases args "g1_multiply" with ⟨a, b, t, rfl, hg⟩ | ⟨s, hg⟩
  · unfold opBlsG1Multiply at h
    simp only [hg, ex_ok_bind] at h
    walk_ok h
    all_goals fresh_close
  · unfold opBlsG1Multiply at h; simp only [hg, ex_err_bind, reduceCtorEq] at h

theorem opBlsG1Negate_fresh : TFreshAtom opBlsG1Negate := by
  intro flags m args r h
  rcases getArgs1_cases args "g1_negate" with ⟨a, t, rfl, hg⟩ | ⟨s, hg⟩
  · unfold opBlsG1Negate at h
    simp only [hg, ex_ok_bind, newAtomAndCost] at h
    walk_ok h
    all_goals fresh_close
  · unfold opBlsG1Negate at h; simp only [hg, ex_err_bind, reduceCtorEq] at h

theorem opBlsG2Add_fresh : TFreshAtom opBlsG2Add := by
  intro flags m args r h
  unfold opBlsG2Add at h
  simp only [ex_bind_ok, ex_pure] at h
  obtain ⟨_, _, ⟨cost, total⟩, hl, h⟩ := h
  cases h; fresh_close

theorem opBlsG2Subtract_fresh : TFreshAtom opBlsG2Subtract := by
  intro flags m args r h
  unfold opBlsG2Subtract at h
  simp only [ex_bind_ok, ex_pure] at h
  obtain ⟨_, _, ⟨cost, total⟩, hl, h⟩ := h
  cases h; fresh_close

theorem opBlsG2Multiply_fresh : TFreshAtom opBlsG2Multiply := by
  intro flags m args r h
  rcases getArgs2_cases args "g2_multiply" with ⟨a, b, t, rfl, hg⟩ | ⟨s, hg⟩
  · unfold opBlsG2Multiply at h
    simp only [hg, ex_ok_bind] at h
    walk_ok h
    all_goals fresh_close
  · unfold opBlsG2Multiply at h; simp only [hg, ex_err_bind, reduceCtorEq] at h

theorem opBlsG2Negate_fresh : TFreshAtom opBlsG2Negate := by
  intro flags m args r h
  rcases getArgs1_cases args "g2_negate" with ⟨a, t, rfl, hg⟩ | ⟨s, hg⟩
  · unfold opBlsG2Negate at h
    simp only [hg, ex_ok_bind, newAtomAndCost] at h
    walk_ok h
    all_goals fresh_close
  · unfold opBlsG2Negate at h; simp only [hg, ex_err_bind, reduceCtorEq] at h

theorem opBlsMapToG1_fresh (H : Bytes → Bytes → Bls.G1) : TFreshAtom (opBlsMapToG1 H) := by
  intro flags m args r h
  unfold opBlsMapToG1 at h
  rcases getVarargs2_cases args "g1_map" with ⟨t, rfl, hg⟩ | ⟨a, t, rfl, hg⟩ | ⟨a, b, t, rfl, hg⟩ | ⟨s, hg⟩
  · simp only [hg, ex_ok_bind] at h; argc_simp at h; simp only [ex_throw, ex_err_bind, reduceCtorEq] at h
  · simp only [hg, ex_ok_bind] at h; argc_simp at h; walk_ok h; all_goals fresh_close
  · simp only [hg, ex_ok_bind] at h; argc_simp at h; walk_ok h; all_goals fresh_close
  · simp only [hg, ex_err_bind, reduceCtorEq] at h

theorem opBlsMapToG2_fresh (H : Bytes → Bytes → Bls.G2) : TFreshAtom (opBlsMapToG2 H) := by
  intro flags m args r h
  unfold opBlsMapToG2 at h
  rcases getVarargs2_cases args "g2_map" with ⟨t, rfl, hg⟩ | ⟨a, t, rfl, hg⟩ | ⟨a, b, t, rfl, hg⟩ | ⟨s, hg⟩
  · simp only [hg, ex_ok_bind] at h; argc_simp at h; simp only [ex_throw, ex_err_bind, reduceCtorEq] at h
  · simp only [hg, ex_ok_bind] at h; argc_simp at h; walk_ok h; all_goals fresh_close
  · simp only [hg, ex_ok_bind] at h; argc_simp at h; walk_ok h; all_goals fresh_close
  · simp only [hg, ex_err_bind, reduceCtorEq] at h

theorem opBlsPairingIdentity_fresh (A : List (Bls.G1 × Bls.G2) → Bool) :
    TFreshAtom (opBlsPairingIdentity A) := by
  intro flags m args r h
  unfold opBlsPairingIdentity at h
  simp only [ex_bind_ok] at h
  obtain ⟨_, _, ⟨cost, items⟩, hl, h⟩ := h
  simp only at h
  split at h
  · simp only [ex_throw, reduceCtorEq] at h
  · simp only [ex_pure, Except.ok.injEq] at h; subst h; fresh_close

theorem opBlsVerify_fresh (A : Bls.G2 → List (Bls.G1 × Bytes) → Bool) : TFreshAtom (opBlsVerify A) := by
  intro flags m args r h
  unfold opBlsVerify at h
  simp only [ex_bind_ok] at h
  obtain ⟨_, _, a1, h1, sig, hsig, a2, h2, ⟨cost, items⟩, hl, h⟩ := h
  simp only at h
  split at h
  · simp only [ex_throw, reduceCtorEq] at h
  · simp only [ex_pure, Except.ok.injEq] at h; subst h; fresh_close

set_option maxRecDepth 8000 in
theorem opSecp256r1Verify_fresh : TFreshAtom opSecp256r1Verify := by
  intro flags m args r h
  rcases getArgs3_cases args "secp256r1_verify" with ⟨a, b, c, t, rfl, hg⟩ | ⟨s, hg⟩
  · unfold opSecp256r1Verify at h
    simp only [hg, ex_ok_bind] at h
    walk_ok h
    all_goals fresh_close
  · unfold opSecp256r1Verify at h; simp only [hg, ex_err_bind, ex_bind_ok, reduceCtorEq, and_false, exists_false] at h

set_option maxRecDepth 8000 in
theorem opSecp256k1Verify_fresh : TFreshAtom opSecp256k1Verify := by
  intro flags m args r h
  rcases getArgs3_cases args "secp256k1_verify" with ⟨a, b, c, t, rfl, hg⟩ | ⟨s, hg⟩
  · unfold opSecp256k1Verify at h
    simp only [hg, ex_ok_bind] at h
    walk_ok h
    all_goals fresh_close
  · unfold opSecp256k1Verify at h; simp only [hg, ex_err_bind, ex_bind_ok, reduceCtorEq, and_false, exists_false] at h

/-- **every tree-level operator of the dispatch table is clean** (any primitives) -/
theorem opByNameWith_clean (P : Primitives) {name : String} {g : Crypto.OpFn}
    (h : opByNameWith P name = some g) : TClean g := by
  unfold opByNameWith at h
  split at h <;> first
    | (cases h; done)
    | (cases h; first
        | exact ⟨opSha256_cleanErr, opSha256_fresh⟩ | exact ⟨opKeccak256_cleanErr, opKeccak256_fresh⟩
        | exact ⟨opCoinid_cleanErr, opCoinid_fresh⟩ | exact ⟨opPointAdd_cleanErr, opPointAdd_fresh⟩
        | exact ⟨opPubkeyForExp_cleanErr, opPubkeyForExp_fresh⟩
        | exact ⟨opBlsG1Subtract_cleanErr, opBlsG1Subtract_fresh⟩
        | exact ⟨opBlsG1Multiply_cleanErr, opBlsG1Multiply_fresh⟩
        | exact ⟨opBlsG1Negate_cleanErr, opBlsG1Negate_fresh⟩ | exact ⟨opBlsG2Add_cleanErr, opBlsG2Add_fresh⟩
        | exact ⟨opBlsG2Subtract_cleanErr, opBlsG2Subtract_fresh⟩
        | exact ⟨opBlsG2Multiply_cleanErr, opBlsG2Multiply_fresh⟩
        | exact ⟨opBlsG2Negate_cleanErr, opBlsG2Negate_fresh⟩
        | exact ⟨opBlsMapToG1_cleanErr _, opBlsMapToG1_fresh _⟩
        | exact ⟨opBlsMapToG2_cleanErr _, opBlsMapToG2_fresh _⟩
        | exact ⟨opBlsPairingIdentity_cleanErr _, opBlsPairingIdentity_fresh _⟩
        | exact ⟨opBlsVerify_cleanErr _, opBlsVerify_fresh _⟩
        | exact ⟨opSecp256k1Verify_cleanErr, opSecp256k1Verify_fresh⟩
        | exact ⟨opSecp256r1Verify_cleanErr, opSecp256r1Verify_fresh⟩)

end Clvm.Crypto.Ops
