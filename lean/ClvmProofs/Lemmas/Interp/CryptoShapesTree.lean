/-
The operator shapes for `op_sha256_tree` (`Interp.opSha256Tree` over `TreeHash.opSha256Tree`).

The budget and cost-model shapes are stated without well-formedness of the argument list, so they
are proved directly on the work-list loop `costedLoop` (for arbitrary `NTree`s, valid or not); the
totality shape uses the closed form of `tree_hash_costed` on valid trees (`treeHashCosted_eq`, C22).
-/
import ClvmProofs.Lemmas.Interp.CryptoShapesAux
import ClvmProofs.Lemmas.Interp.ReprAux
import ClvmProofs.Lemmas.TreeHash

set_option linter.unusedSimpArgs false

namespace Clvm.TreeHash
open Clvm Clvm.Interp

/-! ### the work-list loop: budget -/

/-- a step guarded by `check_cost x` (stated without mentioning the `match`) -/
theorem LoopOk.of_check {α} {b lo x : Nat} {F g : Nat → Except Err α} {r : α}
    (hok : ∀ m', x ≤ m' → F m' = g m') (herr : ∀ m', m' < x → F m' = .error .CostExceeded)
    (h : LoopOk b x g r) (hlo : lo ≤ x) : LoopOk b lo F r := by
  obtain ⟨h1, h2⟩ := h
  refine ⟨Nat.le_trans hlo h1, fun m' => ?_⟩
  by_cases hm : x ≤ m'
  · rw [hok m' hm]; exact h2 m'
  · rw [herr m' (Nat.lt_of_not_le hm)]
    exact ⟨Or.inr rfl, fun hh => absurd (Nat.le_trans h1 hh) hm⟩

/-- a budget-independent step -/
theorem LoopOk.of_eq {α} {b lo : Nat} {F g : Nat → Except Err α} {r : α}
    (heq : ∀ m', F m' = g m') (h : LoopOk b lo g r) : LoopOk b lo F r := by
  have : F = g := funext heq
  rw [this]; exact h

theorem costedLoop_ok {cpb R : Nat} {ops : List TreeOp} {hashes : List Bytes} {cost : Nat}
    {r : List Bytes × Nat} (h : costedLoop cpb R ops hashes cost = .ok r) :
    LoopOk r.2 cost (fun R' => costedLoop cpb R' ops hashes cost) r := by
  revert h
  fun_induction costedLoop cpb R ops hashes cost <;> intro h <;> (try simp +zetaDelta only at *)
  all_goals first
    | (cases h; done)
    | (cases h; exact LoopOk.of_eq (fun m' => by rw [costedLoop]) (LoopOk.pure (Nat.le_refl _)))
    | (rename_i ih
       exact LoopOk.of_check (fun m' hm => by rw [costedLoop]; simp only [*, checkCost_ok hm, ↓reduceIte, if_true, if_false])
         (fun m' hm => by rw [costedLoop]; simp only [*, checkCost_err hm]) (ih h) (Nat.le_add_right _ _))
    | (rename_i ih; exact LoopOk.of_eq (fun m' => by rw [costedLoop]) (ih h))

/-! ### the work-list loop: the hashes do not depend on the cost parameters -/

theorem costedLoop_rel {cpb R cpb' R' : Nat} {ops : List TreeOp} {hashes : List Bytes} {cost : Nat} :
    ∀ {cost' : Nat} {r r' : List Bytes × Nat},
    costedLoop cpb R ops hashes cost = .ok r → costedLoop cpb' R' ops hashes cost' = .ok r' → r.1 = r'.1 := by
  fun_induction costedLoop cpb R ops hashes cost <;> intro cost' r r' h h' <;> (try simp +zetaDelta only at *)
  all_goals first
    | (cases h; done)
    | (cases h; rw [costedLoop] at h'; cases h'; rfl)
    | (rename_i ih
       rw [costedLoop] at h'
       try simp only [*, ↓reduceIte, if_true, if_false] at h'
       split at h'
       · cases h'
       · exact ih h h')
    | (rename_i ih; rw [costedLoop] at h'; exact ih h h')

/-! ### `tree_hash_costed` and `op_sha256_tree` -/

theorem treeHashCosted_ok {nm : Bool} {R : Nat} {t : NTree} {r : Nat × Bytes}
    (h : treeHashCosted nm R t = .ok r) : LoopOk r.1 0 (fun R' => treeHashCosted nm R' t) r := by
  unfold treeHashCosted at h ⊢
  simp only at h ⊢
  generalize (if nm = true then Gen.thNewCostPerByte else Gen.thCostPerByte) = cpb at h ⊢
  split at h
  · cases h
  · rename_i hashes cost hl
    split at h
    · rename_i hh
      split at h
      · cases h
      · rename_i hc
        cases h
        have hL := costedLoop_ok hl
        refine ⟨Nat.zero_le _, fun m' => ?_⟩
        by_cases hm : cost + Gen.thMallocCostPerByte * Gen.thMallocBytes ≤ m'
        · have h1 := (hL.2 m').2 (Nat.le_trans (Nat.le_add_right _ _) hm)
          simp only [h1, checkCost_ok hm, true_or, implies_true, and_self]
        · rcases (hL.2 m').1 with h1 | h1
          · simp only [h1, checkCost_err (Nat.lt_of_not_le hm), reduceCtorEq, or_true, true_and]
            intro hh; exact absurd hh hm
          · simp only [h1, reduceCtorEq, or_true, true_and]
            intro hh; exact absurd hh hm
    · cases h

theorem opSha256Tree_ok {nm : Bool} {R : Nat} {t : NTree} {r : Nat × Bytes}
    (h : opSha256Tree nm R t = .ok r) : LoopOk r.1 0 (fun R' => opSha256Tree nm R' t) r := by
  unfold opSha256Tree at h ⊢
  split at h
  · exact treeHashCosted_ok h
  · cases h

theorem treeHashCosted_rel {R R' : Nat} {t : NTree} {r r' : Nat × Bytes}
    (h : treeHashCosted false R t = .ok r) (h' : treeHashCosted true R' t = .ok r') : r.2 = r'.2 := by
  unfold treeHashCosted at h h'
  simp only [Bool.false_eq_true, ↓reduceIte] at h h'
  split at h
  · cases h
  · rename_i hl
    split at h'
    · cases h'
    · rename_i hl'
      have := costedLoop_rel hl hl'
      simp only at this
      subst this
      split at h
      · simp only at h'
        split at h
        · cases h
        · split at h'
          · cases h'
          · cases h; cases h'; rfl
      · cases h

theorem opSha256Tree_rel {R R' : Nat} {t : NTree} {r r' : Nat × Bytes}
    (h : opSha256Tree false R t = .ok r) (h' : opSha256Tree true R' t = .ok r') : r.2 = r'.2 := by
  unfold opSha256Tree at h h'
  split at h
  · rename_i n hm
    rw [hm] at h'
    exact treeHashCosted_rel h h'
  · cases h

/-- on a valid node `op_sha256_tree` fails only with `InvalidOpArg` or `CostExceeded` -/
theorem opSha256Tree_clean {nm : Bool} {R : Nat} {t : NTree} (hv : t.Valid) {e : Err}
    (h : opSha256Tree nm R t = .error e) : Err.isInternal e = false := by
  unfold opSha256Tree at h
  split at h
  · rename_i n hm
    have hvn : n.Valid := by
      cases t with
      | buffer i b => simp [matchArgsGo] at hm
      | u32 i v => simp [matchArgsGo] at hm
      | pair i l r' =>
        have hl : l.Valid := hv.1
        cases r' with
        | pair _ _ _ => simp [matchArgsGo] at hm
        | buffer _ _ => simp [matchArgsGo] at hm; subst hm; exact hl
        | u32 _ _ => simp [matchArgsGo] at hm; subst hm; exact hl
    rw [treeHashCosted_eq _ _ _ hvn] at h
    split at h
    · cases h
    · cases h; rfl
  · cases h; rfl

end Clvm.TreeHash

namespace Clvm.Interp
open Clvm Clvm.Alloc

/-! ### the interpreter-level operator -/

/-- (also in `ReprMachine.lean`, which cannot be imported together with the `Lift*` files) -/
theorem toNTree_valid' {v : Val} (h : v.wf = true) : (toNTree v).Valid := by
  induction v with
  | atom b t =>
    cases t
    · trivial
    · have := (wf_inline h).lt
      show beNat b < 2 ^ 31
      omega
  | pair l r ihl ihr =>
    simp only [Val.wf, Bool.and_eq_true] at h
    exact ⟨ihl h.1, ihr h.2⟩

theorem opSha256Tree_flags {F G : Nat} (h : newModel F = newModel G) : opSha256Tree F = opSha256Tree G := by
  funext m args c; simp only [opSha256Tree, h]

theorem opSha256Tree_budget : OpBudget opSha256Tree := by
  intro flags m m' args c r h
  unfold opSha256Tree at h ⊢
  split at h
  · cases h
  · rename_i cost hh ht
    obtain ⟨_, hL⟩ := TreeHash.opSha256Tree_ok ht
    split at h
    · cases h
    · rename_i v c' ha
      cases h
      refine ⟨?_, fun hle => ?_⟩
      · rcases (hL m').1 with h1 | h1
        · left; simp only [h1, ha]
        · right; simp only [h1]
      · simp only [(hL m').2 hle, ha]

theorem opSha256Tree_wf : OpWf opSha256Tree := by
  intro flags m args c r _ h
  unfold opSha256Tree at h
  split at h
  · cases h
  · split at h
    · cases h
    · rename_i ha
      cases h
      obtain ⟨h1, h2, h3, h4, h5⟩ := allocAtom_wf ha
      exact ⟨h1, h2, h3, h4, h5⟩

theorem opSha256Tree_clean : OpClean opSha256Tree := by
  intro flags m args c e hw h
  unfold opSha256Tree at h
  split at h
  · rename_i ht
    cases h
    exact TreeHash.opSha256Tree_clean (toNTree_valid' hw) ht
  · split at h
    · rename_i ha; cases h; exact allocAtom_clean ha
    · cases h

theorem opSha256Tree_restrict : OpRestrict opSha256Tree := by
  intro F R m args c r hR h
  rw [← opSha256Tree_flags (newModel_or_restr hR F)]; exact h

theorem opSha256Tree_relax : OpRelax opSha256Tree := by
  intro F m args c r h
  rw [opSha256Tree_flags (newModel_or_relaxed F)]; exact h

theorem opSha256Tree_modelIndep : OpModelIndep opSha256Tree := by
  intro F m m' args c r r' hF h h'
  unfold opSha256Tree at h h'
  have hF' : newModel F = false := hF
  rw [hF'] at h
  rw [newModel_or_newModel F] at h'
  split at h
  · cases h
  · rename_i ht
    split at h'
    · cases h'
    · rename_i ht'
      have := TreeHash.opSha256Tree_rel ht ht'
      simp only at this
      subst this
      split at h
      · cases h
      · rename_i ha
        rw [ha] at h'
        cases h; cases h'; rfl

end Clvm.Interp
