/-
C25, machine level: `run_program` never reports one of its own internal errors.

For a dialect whose operators are clean (`Dialect.OpClean`: no `Panic` / `InternalError` / `Abort`
on well-formed arguments when the operator is an atom, results well-formed), every run from a
well-formed program and environment that ends in an error ends in a *non-internal* one.  The sites
shown unreachable: "value stack empty" (`pop`, `RestoreAllocator`), "environment stack empty"
(`swap_eval_op`, `apply_op`), "allocator checkpoint stack empty", "exiting a softfork that's
already been popped", "softfork program did not push value onto stack", `atom_len` on a pair
operator (`ChiaDialect::op`), the `get_args` arity panics, the `unreachable` of `eval_op_atom`,
the fuel of `traverse_path_fast`, and the final `pop` of `run_program`.
The argument is the stack-shape invariant of `LiftShape.lean` plus well-formedness of the stacks.
-/
import ClvmProofs.Lemmas.Interp.LiftShape
import ClvmProofs.Lemmas.Interp.Fastpath

namespace Clvm.Interp
open Clvm Clvm.Alloc

/-- the operators of the dialect are clean and return well-formed values -/
structure Dialect.OpClean (d : Dialect) : Prop where
  wf : d.OpWf
  clean : ∀ (o args : Val) (m : Nat) (ext : OperatorSet) (c : Ctr) (e : Err),
    o.isPair = false → o.wf = true → args.wf = true →
    d.op o args m ext c = some (.error e) → Err.isInternal e = false

/-- a machine computation that cannot stop with an internal error -/
def CleanM {α} (x : M α) : Prop := ∀ e, x = .error (.err e) → Err.isInternal e = false

theorem CleanM.ok {α} {a : α} : CleanM (.ok a : M α) := fun _ h => nomatch h
theorem CleanM.pure {α} {a : α} : CleanM (pure a : M α) := fun _ h => nomatch h
theorem CleanM.unsupported {α} : CleanM (.error .unsupported : M α) := fun _ h => nomatch h

theorem CleanM.err {α} {e : Err} (h : Err.isInternal e = false) : CleanM (.error (.err e) : M α) := by
  intro e' he; cases he; exact h

theorem CleanM.bind {α β} {x : M α} {f : α → M β} (hx : CleanM x) (hf : ∀ a, x = .ok a → CleanM (f a)) :
    CleanM (x >>= f) := by
  intro e he
  cases x with
  | error e' => cases he; exact hx e rfl
  | ok a => exact hf a rfl e he

theorem CleanM.liftE {α} {y : Except Err α} (h : ∀ e, y = .error e → Err.isInternal e = false) :
    CleanM (liftE y) := by
  intro e he
  cases y with
  | ok a => cases he
  | error e' => cases he; exact h e rfl

theorem CleanM.push (s : MState) (v : Val) : CleanM (s.push v) := by
  intro e he
  unfold MState.push at he
  split at he
  · cases he; rfl
  · cases he

theorem CleanM.pushEnv (s : MState) (v : Val) : CleanM (s.pushEnv v) := by
  intro e he
  unfold MState.pushEnv at he
  split at he
  · cases he; rfl
  · cases he

theorem pop_cons {s : MState} {v : Val} {vs : List Val} (h : s.valStack = v :: vs) :
    s.pop = .ok (v, { s with valStack := vs, valLen := s.valLen - 1 }) := by
  unfold MState.pop; rw [h]

/-! ### the helpers of `op_utils.rs` used by the machine -/

theorem getArgs_len {n : Nat} {a : Val} {name : String} {l : List Val} (h : getArgs n a name = .ok l) :
    l.length = n := by
  unfold getArgs matchArgs at h
  simp only at h
  split at h
  · rename_i l' hl
    split at hl
    · rename_i hlen
      cases hl; cases h
      simpa using hlen
    · cases hl
  · cases h

theorem getArgs_err {n : Nat} {a : Val} {name : String} {e : Err} (h : getArgs n a name = .error e) :
    Err.isInternal e = false := by
  unfold getArgs at h
  split at h
  · cases h
  · cases h; rfl

theorem getArgs1_err {a : Val} {name : String} {e : Err} (h : getArgs1 a name = .error e) :
    Err.isInternal e = false := by
  unfold getArgs1 at h
  cases hg : getArgs 1 a name with
  | error e' => rw [hg] at h; cases h; exact getArgs_err hg
  | ok l =>
    have hl := getArgs_len hg
    rw [hg] at h
    match l, hl with
    | [x], _ => cases h

theorem getArgs2_err {a : Val} {name : String} {e : Err} (h : getArgs2 a name = .error e) :
    Err.isInternal e = false := by
  unfold getArgs2 at h
  cases hg : getArgs 2 a name with
  | error e' => rw [hg] at h; cases h; exact getArgs_err hg
  | ok l =>
    have hl := getArgs_len hg
    rw [hg] at h
    match l, hl with
    | [x, y], _ => cases h

theorem getArgs4_err {a : Val} {name : String} {e : Err} (h : getArgs4 a name = .error e) :
    Err.isInternal e = false := by
  unfold getArgs4 at h
  cases hg : getArgs 4 a name with
  | error e' => rw [hg] at h; cases h; exact getArgs_err hg
  | ok l =>
    have hl := getArgs_len hg
    rw [hg] at h
    match l, hl with
    | [x, y, z, w], _ => cases h

theorem first_err {a : Val} {e : Err} (h : first a = .error e) : Err.isInternal e = false := by
  unfold first at h
  split at h
  · cases h
  · cases h; rfl

theorem uintAtom_err {size : Nat} {v : Val} {name : String} {flags : Flags} {e : Err}
    (h : uintAtom size v name flags = .error e) : Err.isInternal e = false := by
  unfold uintAtom at h
  cases hn : node v with
  | pair l r => rw [hn] at h; cases h; rfl
  | u32 x => rw [hn] at h; cases h
  | buffer bytes =>
    rw [hn] at h
    cases bytes with
    | nil => cases h
    | cons b0 rest =>
      simp only at h
      split at h
      · cases h; rfl
      · by_cases hc : hasFlag flags Gen.FLAG_CANONICAL_INTS = true
        · simp only [hc, if_true] at h
          by_cases h0 : (b0.toNat == 0) = true
          · simp only [h0, if_true] at h
            cases rest with
            | nil => cases h; rfl
            | cons b1 tl =>
              simp only at h
              by_cases h1 : (b1.toNat &&& 0x80 == 0) = true
              · simp only [h1, if_true] at h; cases h; rfl
              · simp only [h1, Bool.false_eq_true, ↓reduceIte] at h
                split at h
                · cases h; rfl
                · cases h
          · simp only [h0, Bool.false_eq_true, ↓reduceIte] at h
            split at h
            · cases h; rfl
            · cases h
        · simp only [hc, Bool.false_eq_true, ↓reduceIte] at h
          split at h
          · cases h; rfl
          · cases h

theorem parseSoftforkArguments_err {d : Dialect} {args : Val} {e : Err}
    (h : parseSoftforkArguments d args = .error e) : Err.isInternal e = false := by
  unfold parseSoftforkArguments at h
  split at h
  · rename_i e' hg; cases h; exact getArgs4_err hg
  · split at h
    · rename_i e' hu; cases h; exact uintAtom_err hu
    · simp only at h
      split at h
      · cases h; rfl
      · cases h

theorem walk_err : ∀ (bits : List Bool) (v : Val) (cost : Nat) (e : Err),
    walk bits v cost = .error e → Err.isInternal e = false := by
  intro bits
  induction bits with
  | nil => intro v cost e h; simp [walk] at h
  | cons b bs ih =>
    intro v cost e h
    cases v with
    | atom _ _ => simp only [walk] at h; cases h; rfl
    | pair l r => simp only [walk] at h; exact ih _ _ e h

theorem traversePath_err {b : Bytes} {env : Val} {e : Err} (h : traversePath b env = .error e) :
    Err.isInternal e = false := by
  unfold traversePath at h
  simp only at h
  split at h
  · cases h
  · exact walk_err _ _ _ e h

theorem allocPair_err {c : Ctr} {l r : Val} {e : Err} (h : allocPair c l r = .error e) :
    Err.isInternal e = false := by
  unfold allocPair Ctr.newPair at h
  split at h
  · rename_i e' he
    split at he
    · cases he; cases h; rfl
    · cases he
  · cases h

theorem pushOperands_atom : ∀ (ol : Val) (s : MState) (t : Val) (s' : MState),
    pushOperands ol s = .ok (t, s') → t.isPair = false := by
  intro ol
  induction ol with
  | atom b i => intro s t s' h; simp only [pushOperands] at h; cases M_pure_ok h; rfl
  | pair f r _ ihr =>
    intro s t s' h
    simp only [pushOperands] at h
    obtain ⟨s1, _, h⟩ := M_bind_ok h
    exact ihr s1 t s' h

theorem pushOperands_clean : ∀ (ol : Val) (s : MState), CleanM (pushOperands ol s) := by
  intro ol
  induction ol with
  | atom b i => intro s; simp only [pushOperands]; exact CleanM.pure
  | pair f r _ ihr =>
    intro s
    simp only [pushOperands]
    exact CleanM.bind (CleanM.push _ _) (fun s1 _ => ihr s1)

/-! ### the steps -/

theorem evalOpAtom_clean (d : Dialect) (s : MState) (o ol env : Val) : CleanM (evalOpAtom d s o ol env) := by
  unfold evalOpAtom
  split
  · exact CleanM.bind (CleanM.push _ _) (fun _ _ => CleanM.pure)
  · simp only
    refine CleanM.bind (CleanM.pushEnv _ _) (fun s1 _ => ?_)
    refine CleanM.bind (CleanM.push _ _) (fun s2 _ => ?_)
    refine CleanM.bind (pushOperands_clean _ _) (fun ts h3 => ?_)
    obtain ⟨t, s3⟩ := ts
    have ht := pushOperands_atom _ _ _ _ h3
    simp only
    split
    · split
      · exact CleanM.err rfl
      · exact CleanM.bind (CleanM.push _ _) (fun _ _ => CleanM.pure)
    · simp [Val.isPair] at ht

theorem evalPair_clean (cfg : Cfg) (d : Dialect) (s : MState) (p env : Val) (hp : p.wf = true) :
    CleanM (evalPair cfg d s p env) := by
  cases p with
  | atom b inl =>
    simp only [evalPair]
    refine CleanM.bind (CleanM.liftE ?_) (fun r _ => CleanM.bind (CleanM.push _ _) (fun _ _ => CleanM.pure))
    intro e he
    split at he
    · cases inl
      · simp only [node] at he; exact traversePath_err he
      · simp only [node] at he
        rw [traverse_fast_wf b hp env] at he
        exact traversePath_err he
    · exact traversePath_err he
  | pair opNode opList =>
    cases opNode with
    | atom ob oi => simp only [evalPair]; exact evalOpAtom_clean d s _ _ _
    | pair newOperator x =>
      simp only [evalPair]
      refine CleanM.bind (CleanM.liftE (fun e he => getArgs1_err he)) (fun inner _ => ?_)
      split
      · exact CleanM.err rfl
      · refine CleanM.bind (CleanM.pushEnv _ _) (fun _ _ => ?_)
        refine CleanM.bind (CleanM.push _ _) (fun _ _ => ?_)
        exact CleanM.bind (CleanM.push _ _) (fun _ _ => CleanM.pure)

theorem consOp_clean {s : MState} {ops : List Operation}
    (hs : Shape (.Cons :: ops) (flagsOf s.valStack) s.envStack.length s.softforkStack.length s.allocatorStack) :
    CleanM (consOp s) := by
  obtain ⟨x, y, vs', hv, _⟩ := hs
  match hvs : s.valStack with
  | [] => rw [hvs] at hv; simp [flagsOf] at hv
  | [_] => rw [hvs] at hv; simp [flagsOf] at hv
  | v1 :: v2 :: vals =>
    unfold consOp
    rw [pop_cons hvs]
    simp only [bind, Except.bind]
    rw [pop_cons (s := { s with valStack := v2 :: vals, valLen := s.valLen - 1 }) rfl]
    simp only
    refine CleanM.bind (CleanM.liftE (fun e he => allocPair_err he)) (fun pc _ => ?_)
    exact CleanM.bind (CleanM.push _ _) (fun _ _ => CleanM.pure)

theorem swapEvalOp_clean {cfg : Cfg} {d : Dialect} {s : MState} {ops : List Operation} (hw : s.WF)
    (hs : Shape (.SwapEval :: ops) (flagsOf s.valStack) s.envStack.length s.softforkStack.length s.allocatorStack) :
    CleanM (swapEvalOp cfg d s) := by
  obtain ⟨x, y, vs', hv, hne, _⟩ := hs
  match hvs : s.valStack, hes : s.envStack with
  | [], _ => rw [hvs] at hv; simp [flagsOf] at hv
  | [_], _ => rw [hvs] at hv; simp [flagsOf] at hv
  | _ :: _ :: _, [] => rw [hes] at hne; simp at hne
  | v2 :: prog :: vals, env :: envs =>
    have hpw : prog.wf = true := hw.1 prog (by rw [hvs]; simp)
    unfold swapEvalOp
    rw [pop_cons hvs]
    simp only [bind, Except.bind]
    rw [pop_cons (s := { s with valStack := prog :: vals, valLen := s.valLen - 1 }) rfl]
    simp only [hes]
    exact CleanM.bind (CleanM.push _ _) (fun _ _ => evalPair_clean cfg d _ _ _ hpw)

theorem exitGuard_clean {s : MState} {ops : List Operation} {cost : Nat}
    (hs : Shape (.ExitGuard :: ops) (flagsOf s.valStack) s.envStack.length s.softforkStack.length s.allocatorStack) :
    CleanM (exitGuard s cost) := by
  obtain ⟨x, vs', hv, hng, _⟩ := hs
  match hvs : s.valStack, hss : s.softforkStack with
  | [], _ => rw [hvs] at hv; simp [flagsOf] at hv
  | _ :: _, [] => rw [hss] at hng; simp at hng
  | v :: vals, g :: rest =>
    unfold exitGuard
    simp only [hss, hvs]
    split
    · exact CleanM.err rfl
    · exact CleanM.bind (CleanM.push _ _) (fun _ _ => CleanM.pure)

theorem getArgs4_parse_wf {d : Dialect} {ol : Val} {ext : OperatorSet} {prg env : Val} (hol : ol.wf = true)
    (h : parseSoftforkArguments d ol = .ok (ext, prg, env)) : prg.wf = true ∧ env.wf = true := by
  unfold parseSoftforkArguments at h
  cases hg : getArgs4 ol "softfork" with
  | error e => rw [hg] at h; cases h
  | ok q =>
    obtain ⟨a1, a2, a3, a4⟩ := q
    rw [hg] at h
    simp only at h
    obtain ⟨_, _, w3, w4⟩ := getArgs4_wf hol hg
    split at h
    · cases h
    · split at h
      · cases h
      · simp only [Except.ok.injEq, Prod.mk.injEq] at h
        obtain ⟨_, rfl, rfl⟩ := h
        exact ⟨w3, w4⟩

theorem applyBody_clean {cfg : Cfg} {d : Dialect} (hd : d.OpClean) {s : MState} {ol o : Val} {cc mc : Nat}
    (hoa : o.isPair = false) (how : o.wf = true) (hol : ol.wf = true) :
    CleanM (applyBody cfg d s ol o cc mc) := by
  unfold applyBody
  split
  · unfold applyApply
    refine CleanM.bind (CleanM.liftE (fun e he => getArgs2_err he)) (fun q hq => ?_)
    obtain ⟨no, env⟩ := q
    obtain ⟨hno, _⟩ := getArgs2_wf hol (liftE_ok hq)
    exact CleanM.bind (evalPair_clean cfg d _ _ _ hno) (fun _ _ => CleanM.pure)
  · split
    · unfold applySoftfork
      refine CleanM.bind (CleanM.liftE (fun e he => first_err he)) (fun f _ => ?_)
      refine CleanM.bind (CleanM.liftE (fun e he => uintAtom_err he)) (fun ec _ => ?_)
      split
      · exact CleanM.err rfl
      · split
        · exact CleanM.err rfl
        · split
          · rename_i err hperr
            split
            · exact CleanM.bind (CleanM.push _ _) (fun _ _ => CleanM.pure)
            · exact CleanM.err (parseSoftforkArguments_err hperr)
          · rename_i ext prg env hparse
            obtain ⟨hpw, _⟩ := getArgs4_parse_wf hol hparse
            split
            · exact CleanM.err rfl
            · exact CleanM.bind (evalPair_clean cfg d _ _ _ hpw) (fun _ _ => CleanM.pure)
    · unfold applyOrdinary
      split
      · exact CleanM.unsupported
      · rename_i e he
        exact CleanM.err (hd.clean o ol _ _ _ e hoa how hol he)
      · exact CleanM.bind (CleanM.push _ _) (fun _ _ => CleanM.pure)

theorem applyOp_clean {cfg : Cfg} {d : Dialect} (hd : d.OpClean) {s : MState} {ops : List Operation}
    {cc mc : Nat} (hw : s.WF)
    (hs : Shape (.Apply :: ops) (flagsOf s.valStack) s.envStack.length s.softforkStack.length s.allocatorStack) :
    CleanM (applyOp cfg d s cc mc) := by
  obtain ⟨x, vs', hv, hne, _⟩ := hs
  match hvs : s.valStack, hes : s.envStack with
  | [], _ => rw [hvs] at hv; simp [flagsOf] at hv
  | [_], _ => rw [hvs] at hv; simp [flagsOf] at hv
  | _ :: _ :: _, [] => rw [hes] at hne; simp at hne
  | ol :: o :: vals, e0 :: envs =>
    rw [applyOp_eq cfg d s cc mc hvs hes]
    rw [hvs] at hv
    simp only [flagsOf, List.map_cons, List.cons.injEq] at hv
    obtain ⟨_, hoa, _⟩ := hv
    have hol : ol.wf = true := hw.1 ol (by rw [hvs]; simp)
    have how : o.wf = true := hw.1 o (by rw [hvs]; simp)
    exact applyBody_clean hd (by simpa using hoa) how hol

theorem stepOp_clean {cfg : Cfg} {d : Dialect} (hd : d.OpClean) {s : MState} {op : Operation}
    {ops : List Operation} {cost em : Nat} (hw : s.WF)
    (hs : Shape (op :: ops) (flagsOf s.valStack) s.envStack.length s.softforkStack.length s.allocatorStack) :
    CleanM (stepOp cfg d s op cost em) := by
  cases op with
  | Apply => exact applyOp_clean hd hw hs
  | ExitGuard => exact exitGuard_clean hs
  | Cons => exact consOp_clean hs
  | SwapEval => exact swapEvalOp_clean hw hs
  | RestoreAllocator =>
    obtain ⟨hne, hna, _⟩ := hs
    simp only [stepOp]
    have h1 : (s.allocatorStack == 0) = false := by simp; omega
    have h2 : s.valStack.isEmpty = false := by
      cases hv : s.valStack with
      | nil => rw [hv] at hne; simp [flagsOf] at hne
      | cons _ _ => rfl
    simp only [h1, h2, Bool.false_eq_true, ↓reduceIte]
    exact CleanM.ok

/-- the main loop never stops with an internal error -/
theorem runLoop_clean {cfg : Cfg} {d : Dialect} (hd : d.OpClean) (mc : Nat) (fuel : Nat) :
    ∀ (s : MState) (cost : Nat) (e : Err), s.WF → s.Shaped →
      runLoop cfg d mc fuel s cost = some (.error (.err e)) → Err.isInternal e = false := by
  induction fuel with
  | zero => intro s cost e _ _ h; simp [runLoop_zero] at h
  | succ n ih =>
    intro s cost e hw hs h
    rw [runLoop_succ] at h
    unfold loopBody at h
    split at h
    · cases h; rfl
    · split at h
      · cases h
      · rename_i op ops hop
        have hs' : Shape (op :: ops) (flagsOf s.valStack) s.envStack.length s.softforkStack.length
            s.allocatorStack := by simpa [MState.Shaped, hop] using hs
        have hw' : MState.WF { s with opStack := ops } := hw.setOps ops
        split at h
        · rename_i e' hst
          cases h
          exact stepOp_clean hd (s := { s with opStack := ops }) hw' hs' e hst
        · rename_i c s1 hst
          exact ih s1 _ e (stepOp_wf hd.wf hw' hst)
            (stepOp_shape (s := { s with opStack := ops }) rfl hs' hst) h

theorem addGhostAtom_err {c : Ctr} {n : Nat} {e : Err} (h : c.addGhostAtom n = .error e) :
    Err.isInternal e = false := by
  unfold Ctr.addGhostAtom at h
  split at h
  · cases h; rfl
  · cases h

/-- **C25, `machine_no_internal`.**  For a clean dialect, a run of `run_program` from a well-formed
program and environment that ends in an error ends in a non-internal one: no `InternalError`, no
`expect`/`unwrap`/arity panic, no abort — for every budget, every initial allocator state and every
amount of fuel. -/
theorem machine_no_internal {cfg : Cfg} {d : Dialect} (hd : d.OpClean) (fuel : Nat) (c0 : Ctr) (p env : Val)
    (M : Nat) (hp : p.wf = true) (he : env.wf = true) (e : Err)
    (h : runProgram cfg d fuel c0 p env M = some (.error e)) : Err.isInternal e = false := by
  unfold runProgram at h
  generalize (if (M == 0) = true then U64_MAX else M) = mc at h
  simp only at h
  split at h
  · rename_i e' hg; cases h; exact addGhostAtom_err hg
  · rename_i c1 _
    have hs0 : MState.WF { ctr := c1 } := ⟨fun _ h => by simp at h, fun _ h => by simp at h⟩
    split at h
    · rename_i e' hev
      cases h
      exact evalPair_clean cfg d _ p env hp e hev
    · cases h
    · rename_i cost0 s0 hev
      have hw0 := evalPair_wf hs0 hp he hev
      have hsh0 := initial_shaped hev
      split at h
      · cases h
      · rename_i e' hrun
        cases h
        exact runLoop_clean hd _ fuel s0 cost0 e hw0 hsh0 hrun
      · cases h
      · rename_i C sF hrun
        obtain ⟨hF, hop⟩ := runLoop_shape cfg d _ fuel s0 cost0 C sF hsh0 hrun
        obtain ⟨⟨v, hv⟩, _⟩ := Shaped.final hF hop
        rw [pop_cons hv] at h
        cases h

/-- … and a successful run ends with exactly one value and every other stack empty -/
theorem machine_final_state {cfg : Cfg} {d : Dialect} {fuel : Nat} {c1 : Ctr} {p env : Val} {mc cost0 C : Nat}
    {s0 sF : MState} (hev : evalPair cfg d { ctr := c1 } p env = .ok (cost0, s0))
    (hrun : runLoop cfg d mc fuel s0 cost0 = some (.ok (C, sF))) :
    (∃ v, sF.valStack = [v]) ∧ sF.envStack = [] ∧ sF.softforkStack = [] ∧ sF.allocatorStack = 0 ∧
      sF.opStack = [] := by
  obtain ⟨hF, hop⟩ := runLoop_shape cfg d mc fuel s0 cost0 C sF (initial_shaped hev) hrun
  obtain ⟨h1, h2, h3, h4⟩ := Shaped.final hF hop
  exact ⟨h1, h2, h3, h4, hop⟩

end Clvm.Interp
