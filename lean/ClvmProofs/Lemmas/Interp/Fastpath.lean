/-
C05 (per-operator layer): the fast paths of the default build compute what the `no-fastpath`
build computes, on well-formed arguments.

* `opGr_fastpath`, `opAdd_fastpath`, `opMultiply_fastpath` hold for all arguments (the hypothesis
  `args.wf` is not used: an inline atom is seen as `(val, len_for_value val)` by both paths);
* `opSubtract_fastpath` needs inline values `< 2^26` (the model's inline value is unbounded, the
  real `u32` always fits an `i64`);
* `opSha256_fastpath` needs that inline atoms hold canonical bytes, and the table fact
  `precomputedHash_ok` (from `TreeHash.precomputed_get`, proved by `decide +kernel`).
-/
import ClvmProofs.Lemmas.Interp.Flags
import ClvmProofs.Lemmas.AllocInt
import ClvmProofs.Lemmas.TreeHash

namespace Clvm.Interp
open Clvm Clvm.Alloc


/-! ### well-formed inline atoms -/

theorem fits_beNat {b : Bytes} {v : Nat} (h : fitsInSmallAtom b = some v) : v = beNat b := by
  have hc := (fitsInSmallAtom_core b v).1 h
  have hd := decodeInt_eq b
  have hl := beNat_lt b
  rw [hc.2.1] at hd
  split at hd
  · have : ((256 ^ b.length : Nat) : Int) = (256 : Int) ^ b.length := ipow_cast _
    omega
  · exact_mod_cast hd

theorem fits_enc {b : Bytes} {v : Nat} (h : fitsInSmallAtom b = some v) : b = encodeInt (v : Int) :=
  ((fitsInSmallAtom_iff b v).1 h).1

theorem fits_lt {b : Bytes} {v : Nat} (h : fitsInSmallAtom b = some v) : v < 2 ^ 26 :=
  ((fitsInSmallAtom_iff b v).1 h).2

theorem fits_len {b : Bytes} {v : Nat} (h : fitsInSmallAtom b = some v) : lenForValue v = b.length := by
  rw [lenForValue_enc v (by have := fits_lt h; omega), ← fits_enc h]

theorem fits_decode {b : Bytes} {v : Nat} (h : fitsInSmallAtom b = some v) : decodeInt b = (v : Int) :=
  ((fitsInSmallAtom_core b v).1 h).2.1

/-- an inline atom of a well-formed value -/
theorem wfInl_fits {b : Bytes} (h : (Val.atom b true).wf = true) : fitsInSmallAtom b = some (beNat b) := by
  simp only [Val.wf, Option.isSome_iff_exists] at h
  obtain ⟨v, hv⟩ := h
  rw [hv, fits_beNat hv]

theorem wfInl_enc {b : Bytes} (h : (Val.atom b true).wf = true) : b = encodeInt (beNat b : Int) :=
  fits_enc (wfInl_fits h)
theorem wfInl_lt {b : Bytes} (h : (Val.atom b true).wf = true) : beNat b < 2 ^ 26 := fits_lt (wfInl_fits h)
theorem wfInl_len {b : Bytes} (h : (Val.atom b true).wf = true) : lenForValue (beNat b) = b.length :=
  fits_len (wfInl_fits h)
theorem wfInl_decode {b : Bytes} (h : (Val.atom b true).wf = true) : decodeInt b = (beNat b : Int) :=
  fits_decode (wfInl_fits h)

theorem argList_wf {a : Val} (h : a.wf = true) : ∀ x ∈ argList a, x.wf = true := by
  induction a with
  | atom b inl => intro x hx; simp [argList] at hx
  | pair l r _ ihr =>
    intro x hx
    simp only [Val.wf, Bool.and_eq_true] at h
    simp only [argList, List.mem_cons] at hx
    rcases hx with rfl | hx
    · exact h.1
    · exact ihr h.2 x hx


/-! ### `op_gr` -/

/-- `small_number` agrees with `int_atom` -/
theorem smallNumber_intAtom {v : Val} {n : Nat} (name : String) (h : smallNumber v = some n) :
    intAtom v name = .ok ((n : Int), lenForValue n) := by
  cases v with
  | pair l r => simp [smallNumber] at h
  | atom b inl =>
    cases inl
    · simp only [smallNumber] at h
      simp only [intAtom, fits_decode h, fits_len h]
    · simp only [smallNumber, Option.some.injEq] at h
      subst h; rfl

theorem opGr_fastpath : OpFastpathIrrelevant opGr := by
  intro flags m args c _
  simp only [opGr]
  split
  · rfl
  · rename_i v0 v1 _
    simp only [Bool.false_eq_true, ↓reduceIte]
    cases h0 : smallNumber v0 with
    | none => rfl
    | some n0 =>
      cases h1 : smallNumber v1 with
      | none => rfl
      | some n1 =>
        simp only [smallNumber_intAtom ">" h0, smallNumber_intAtom ">" h1]
        congr 3
        simp

/-! ### `op_add` -/

theorem limbs_natCast (n : Nat) : limbs (n : Int) = (natBE n).length := by
  simp [limbs]

/-- what the u64 fast path of `op_add` computes is what the generic loop computes -/
theorem addFast_generic (nm : Bool) (cpa cpb mc : Nat) (acc : Int) (l : List Val) :
    ∀ (cost total : Nat),
      match addFast nm cpa cpb mc l cost total with
      | .error e => addGeneric nm cpa cpb mc l cost acc (total : Int) = .error e
      | .ok (some (c', t')) =>
          addGeneric nm cpa cpb mc l cost acc (total : Int) = .ok (c', if nm then (t' : Int) else acc + (t' : Int)) ∧
          (total ≤ U64_MAX → t' ≤ U64_MAX)
      | .ok none => True := by
  induction l with
  | nil => intro cost total; simp [addFast, addGeneric]
  | cons a l ih =>
    intro cost total
    cases a with
    | pair x y => simp [addFast, node]
    | atom b inl =>
      cases inl
      · simp [addFast, node]
      · simp only [addFast, addGeneric, node, limbs_natCast]
        cases hc : checkCost (if nm = true then cost + cpa + max (natBE total).length (lenForValue (beNat b)) * cpb
            else cost + cpa + lenForValue (beNat b) * cpb) mc with
        | error e => simp
        | ok u =>
          simp only []
          by_cases hov : total + beNat b > U64_MAX
          · simp only [hov, ↓reduceIte]
          · simp only [hov, ↓reduceIte]
            have := ih (if nm = true then cost + cpa + max (natBE total).length (lenForValue (beNat b)) * cpb
              else cost + cpa + lenForValue (beNat b) * cpb) (total + beNat b)
            rw [Int.natCast_add] at this
            split at this <;> rename_i heq
            · exact this
            · exact ⟨this.1, fun _ => this.2 (by omega)⟩
            · trivial

theorem opAdd_fastpath : OpFastpathIrrelevant opAdd := by
  intro flags m args c _
  simp only [opAdd, ↓reduceIte, Bool.false_eq_true]
  have h := addFast_generic (newModel flags) (arithCosts flags).2.1 (arithCosts flags).2.2 m 0 (argList args)
    (arithCosts flags).1 0
  split at h <;> rename_i heq <;> rw [heq] <;> simp only []
  · rw [show ((0 : Nat) : Int) = 0 from rfl] at h; rw [h]
  · rename_i c' t'
    rw [show ((0 : Nat) : Int) = 0 from rfl] at h; rw [h.1]
    have ht := h.2 (by decide)
    simp only [Int.zero_add, ite_self, allocNumber]
    rw [u64Bytes_enc t' (by unfold U64_MAX at ht; omega)]

/-! ### `op_subtract` -/

theorem checkCost_mono {a b m : Nat} (hab : a ≤ b) (h : checkCost a m = .error .CostExceeded) :
    checkCost b m = .error .CostExceeded := by
  unfold checkCost at *
  split at h
  · rw [if_pos (by omega)]
  · cases h

theorem checkCost_err {a m : Nat} {e : Err} (h : checkCost a m = .error e) : e = .CostExceeded := by
  unfold checkCost at h; split at h <;> cases h; rfl

theorem i64Bytes_enc (v : Int) (h1 : I64_MIN ≤ v) (h2 : v ≤ I64_MAX) : i64Bytes v = encodeInt v := by
  unfold I64_MIN at h1; unfold I64_MAX at h2
  unfold i64Bytes
  split
  · rw [u64Bytes_enc _ (by omega), Int.toNat_of_nonneg (by omega)]
  · exact i64NegBytes_enc v (by omega) (by omega)

/-- what the i64 fast path of `op_subtract` computes is what the generic loop computes -/
theorem subFast_generic (nm : Bool) (cpa cpb mc : Nat) (acc : Int) (l : List Val) (hl : ∀ x ∈ l, x.wf = true) :
    ∀ (cost : Nat) (total : Int) (isFirst : Bool), (isFirst = true → total = 0) →
      match subFast nm cpa cpb mc l cost total isFirst with
      | .error e => subGeneric nm cpa cpb mc l cost acc total isFirst = .error e
      | .ok (some (c', t')) =>
          subGeneric nm cpa cpb mc l cost acc total isFirst = .ok (c', if nm then t' else acc + t') ∧
          (I64_MIN ≤ total ∧ total ≤ I64_MAX → I64_MIN ≤ t' ∧ t' ≤ I64_MAX)
      | .ok none => True := by
  induction l with
  | nil => intro cost total isFirst _; simp [subFast, subGeneric]
  | cons a l ih =>
    intro cost total isFirst hfirst
    have ih := ih (fun x hx => hl x (List.mem_cons_of_mem _ hx))
    have hwa := hl a List.mem_cons_self
    cases a with
    | pair x y => simp [subFast, node]
    | atom b inl =>
      cases inl
      · simp [subFast, node]
      · have hlt := wfInl_lt hwa
        simp only [subFast, subGeneric, node, limbsI64, limbs]
        generalize hc2 : (if nm = true then cost + cpa + max (natBE total.natAbs).length (lenForValue (beNat b)) * cpb
            else cost + cpa + lenForValue (beNat b) * cpb) = cost2
        have hle : cost + cpa ≤ cost2 := by subst hc2; split <;> omega
        cases hc : checkCost cost2 mc with
        | error e =>
          simp only []
          cases hc1 : checkCost (cost + cpa) mc with
          | error e1 => rw [checkCost_err hc, checkCost_err hc1]
          | ok u => simp only []
        | ok u =>
          simp only []
          have hc1 : checkCost (cost + cpa) mc = .ok () := by
            unfold checkCost at hc ⊢
            split at hc
            · cases hc
            · rw [if_neg (by omega)]
          simp only [hc1]
          cases isFirst
          · simp only [Bool.false_eq_true, ↓reduceIte]
            by_cases hov : total - (beNat b : Int) < I64_MIN ∨ total - (beNat b : Int) > I64_MAX
            · simp only [hov, ↓reduceIte]
            · simp only [hov, ↓reduceIte]
              have := ih cost2 (total - (beNat b : Int)) false (by simp)
              rw [show total + -1 * (beNat b : Int) = total - (beNat b : Int) by omega]
              split at this <;> rename_i heq
              · exact this
              · exact ⟨this.1, fun _ => this.2 (by omega)⟩
              · trivial
          · simp only [↓reduceIte]
            have := ih cost2 (beNat b : Int) false (by simp)
            rw [hfirst rfl, show (0:Int) + 1 * (beNat b : Int) = (beNat b : Int) by omega]
            split at this <;> rename_i heq
            · exact this
            · refine ⟨this.1, fun _ => this.2 ?_⟩
              unfold I64_MIN I64_MAX; omega
            · trivial

theorem opSubtract_fastpath : OpFastpathIrrelevant opSubtract := by
  intro flags m args c hwf
  simp only [opSubtract, ↓reduceIte, Bool.false_eq_true]
  have h := subFast_generic (newModel flags) (arithCosts flags).2.1 (arithCosts flags).2.2 m 0 (argList args)
    (argList_wf hwf) (arithCosts flags).1 0 true (fun _ => rfl)
  split at h <;> rename_i heq <;> rw [heq] <;> simp only []
  · rw [h]
  · rename_i c' t'
    rw [h.1]
    have ht := h.2 (by decide)
    simp only [Int.zero_add, ite_self, allocNumber]
    rw [i64Bytes_enc t' ht.1 ht.2]

/-! ### `op_multiply` -/

theorem lenForValue_le5 (v : Nat) : lenForValue v ≤ 5 := by
  unfold lenForValue
  split
  · omega
  · simp only [Gen.lenForValueThresholds, ladderUp]
    repeat' split
    all_goals omega

theorem mulLoop_fastpath (flags m sq : Nat) (l : List Val) :
    ∀ (cost : Nat) (total : Int) (l0 : Nat),
      mulLoop { fastpath := true } flags m sq l cost total l0 =
      mulLoop { fastpath := false } flags m sq l cost total l0 := by
  induction l with
  | nil => intros; rfl
  | cons a l ih =>
    intro cost total l0
    simp only [mulLoop, ↓reduceIte, Bool.false_eq_true, ih]
    cases a with
    | pair x y => simp only [node, intAtom]; rfl
    | atom b inl =>
      cases inl
      · simp only [node, intAtom]
      · simp only [node, intAtom]
        have : decide (lenForValue (beNat b) > 256) = false := by
          have := lenForValue_le5 (beNat b); simp; omega
        simp only [this, Bool.and_false, Bool.false_eq_true, ↓reduceIte]

theorem opMultiply_fastpath : OpFastpathIrrelevant opMultiply := by
  intro flags m args c _
  simp only [opMultiply, mulLoop_fastpath]

/-! ### `op_sha256` -/

theorem encodeInt_one : encodeInt 1 = [1] := by
  rw [encodeInt, if_neg (by decide), encodeNE_small 1 (by decide)]; rfl

theorem encodeInt_lt128 (v : Nat) (h0 : v ≠ 0) (h : v < 128) : encodeInt (v : Int) = [UInt8.ofNat v] := by
  rw [encodeInt, if_neg (by omega), encodeNE_small _ (by omega)]
  congr 2
  omega

theorem smallNumber_bytes {v : Val} {n : Nat} (hw : v.wf = true) (h : smallNumber v = some n) :
    ∃ inl, v = .atom (encodeInt (n : Int)) inl := by
  cases v with
  | pair l r => simp [smallNumber] at h
  | atom b inl =>
    cases inl
    · simp only [smallNumber] at h
      exact ⟨false, by rw [← fits_enc h]⟩
    · simp only [smallNumber, Option.some.injEq] at h
      subst h
      exact ⟨true, by rw [← wfInl_enc hw]⟩

theorem precomputedHash_ok (i : Nat) (h : i < Gen.thPrecomputedHashes.length) :
    precomputedHash i = Hash.sha256 (1 :: encodeInt (i : Int)) := by
  have hlen : Gen.thPrecomputedHashes.length ≤ 128 := by decide
  have hp : i < TreeHash.precomputed.length := by simpa [TreeHash.precomputed] using h
  have := TreeHash.precomputed_get hp
  rw [smallBytes_enc i (by omega)] at this
  simp only [TreeHash.precomputed, List.getElem?_map] at this
  simp only [precomputedHash, bytesOfNats, List.getD_eq_getElem?_getD]
  cases hg : Gen.thPrecomputedHashes[i]? with
  | none => simp [hg] at this
  | some row => simpa [hg] using this

theorem matchArgs_eq {n : Nat} {a : Val} {l : List Val} (h : matchArgs n a = some l) : argList a = l := by
  unfold matchArgs at h
  simp only at h
  split at h
  · exact Option.some.inj h
  · cases h

theorem opSha256_fastpath : OpFastpathIrrelevant opSha256 := by
  intro flags m args c hwf
  simp only [opSha256, ↓reduceIte, Bool.false_eq_true]
  generalize (if newModel flags = true then
      (Gen.NEW_SHA256_BASE_COST, Gen.NEW_SHA256_COST_PER_ARG, Gen.NEW_SHA256_COST_PER_BYTE)
    else (Gen.SHA256_BASE_COST, Gen.SHA256_COST_PER_ARG, Gen.SHA256_COST_PER_BYTE)) = k
  obtain ⟨base, cpa, cpb⟩ := k
  simp only []
  split
  · rfl
  · split
    · rename_i r hfast
      split at hfast
      · rename_i v0 v1 hm
        have hal := matchArgs_eq hm
        have hw := argList_wf hwf
        rw [hal] at hw
        have hw0 := hw v0 (by simp)
        have hw1 := hw v1 (by simp)
        split at hfast
        · rename_i h1
          split at hfast
          · rename_i val hval
            split at hfast
            · rename_i hlt
              have hlen : Gen.thPrecomputedHashes.length ≤ 128 := by decide
              have h1' : smallNumber v0 = some 1 := by simpa using h1
              obtain ⟨i0, rfl⟩ := smallNumber_bytes hw0 h1'
              obtain ⟨i1, rfl⟩ := smallNumber_bytes hw1 hval
              injection hfast with hfast
              subst hfast
              rw [hal, precomputedHash_ok val hlt]
              simp only [sha256Loop, atomBytes, show encodeInt ((1 : Nat) : Int) = [1] from encodeInt_one,
                List.length_cons, List.length_nil, List.nil_append]
              have hnb : (if val > 0 then 2 else 1) = 1 + (encodeInt (val : Int)).length := by
                by_cases hv0 : val = 0
                · subst hv0; rfl
                · rw [encodeInt_lt128 val hv0 (by omega), if_pos (by omega)]; rfl
              rw [hnb]
              generalize (encodeInt (val : Int)).length = L
              have hcost : base + (1 + L) * cpb + 2 * cpa = base + cpa + (0 + 1) * cpb + cpa + L * cpb := by
                rw [Nat.add_mul]; omega
              rw [hcost]
              simp only [checkCost]
              by_cases hA : base + cpa + (0 + 1) * cpb > m
              · rw [if_pos hA, if_pos (by omega)]
              · rw [if_neg hA]
                simp only [List.cons_append, List.nil_append]
                split <;> rfl
            · cases hfast
          · cases hfast
        · cases hfast
      · cases hfast
    · rfl

end Clvm.Interp
