/-
C05 (per-operator layer): the fast paths of the default build compute what the `no-fastpath`
build computes, on well-formed arguments.

* `opGr_fastpath`, `opAdd_fastpath`, `opMultiply_fastpath` hold for all arguments (the hypothesis
  `args.wf` is not used: an inline atom is seen as `(val, len_for_value val)` by both paths);
* `opSubtract_fastpath` needs inline values `< 2^26` (the model's inline value is unbounded, the
  real `u32` always fits an `i64`);
* `opSha256_fastpath` needs that inline atoms hold canonical bytes, and the table fact
  `precomputedHash_ok` (from `TreeHash.precomputed_get`, proved by `decide +kernel`).
-/
import ClvmProofs.Lemmas.Interp.Flags
import ClvmProofs.Lemmas.AllocInt
import ClvmProofs.Lemmas.TreeHash

namespace Clvm.Interp
open Clvm Clvm.Alloc


/-! ### well-formed inline atoms -/

theorem fits_beNat {b : Bytes} {v : Nat} (h : fitsInSmallAtom b = some v) : v = beNat b := by
  have hc := (fitsInSmallAtom_core b v).1 h
  have hd := decodeInt_eq b
  have hl := beNat_lt b
  rw [hc.2.1] at hd
  split at hd
  · have : ((256 ^ b.length : Nat) : Int) = (256 : Int) ^ b.length := ipow_cast _
    omega
  · exact_mod_cast hd

theorem fits_enc {b : Bytes} {v : Nat} (h : fitsInSmallAtom b = some v) : b = encodeInt (v : Int) :=
  ((fitsInSmallAtom_iff b v).1 h).1

theorem fits_lt {b : Bytes} {v : Nat} (h : fitsInSmallAtom b = some v) : v < 2 ^ 26 :=
  ((fitsInSmallAtom_iff b v).1 h).2

theorem fits_len {b : Bytes} {v : Nat} (h : fitsInSmallAtom b = some v) : lenForValue v = b.length := by
  rw [lenForValue_enc v (by have := fits_lt h; omega), ← fits_enc h]

theorem fits_decode {b : Bytes} {v : Nat} (h : fitsInSmallAtom b = some v) : decodeInt b = (v : Int) :=
  ((fitsInSmallAtom_core b v).1 h).2.1

/-- an inline atom of a well-formed value -/
theorem wfInl_fits {b : Bytes} (h : (Val.atom b true).wf = true) : fitsInSmallAtom b = some (beNat b) := by
  simp only [Val.wf, Option.isSome_iff_exists] at h
  obtain ⟨v, hv⟩ := h
  rw [hv, fits_beNat hv]

theorem wfInl_enc {b : Bytes} (h : (Val.atom b true).wf = true) : b = encodeInt (beNat b : Int) :=
  fits_enc (wfInl_fits h)
theorem wfInl_lt {b : Bytes} (h : (Val.atom b true).wf = true) : beNat b < 2 ^ 26 := fits_lt (wfInl_fits h)
theorem wfInl_len {b : Bytes} (h : (Val.atom b true).wf = true) : lenForValue (beNat b) = b.length :=
  fits_len (wfInl_fits h)
theorem wfInl_decode {b : Bytes} (h : (Val.atom b true).wf = true) : decodeInt b = (beNat b : Int) :=
  fits_decode (wfInl_fits h)

theorem argList_wf {a : Val} (h : a.wf = true) : ∀ x ∈ argList a, x.wf = true := by
  induction a with
  | atom b inl => intro x hx; simp [argList] at hx
  | pair l r _ ihr =>
    intro x hx
    simp only [Val.wf, Bool.and_eq_true] at h
    simp only [argList, List.mem_cons] at hx
    rcases hx with rfl | hx
    · exact h.1
    · exact ihr h.2 x hx


/-! ### `op_gr` -/

/-- `small_number` agrees with `int_atom` -/
theorem smallNumber_intAtom {v : Val} {n : Nat} (name : String) (h : smallNumber v = some n) :
    intAtom v name = .ok ((n : Int), lenForValue n) := by
  cases v with
  | pair l r => simp [smallNumber] at h
  | atom b inl =>
    cases inl
    · simp only [smallNumber] at h
      simp only [intAtom, fits_decode h, fits_len h]
    · simp only [smallNumber, Option.some.injEq] at h
      subst h; rfl

theorem opGr_fastpath : OpFastpathIrrelevant opGr := by
  intro flags m args c _
  simp only [opGr]
  split
  · rfl
  · rename_i v0 v1 _
    simp only [Bool.false_eq_true, ↓reduceIte]
    cases h0 : smallNumber v0 with
    | none => rfl
    | some n0 =>
      cases h1 : smallNumber v1 with
      | none => rfl
      | some n1 =>
        simp only [smallNumber_intAtom ">" h0, smallNumber_intAtom ">" h1]
        congr 3
        simp

/-! ### `op_add` -/

theorem fp_limbs_natCast (n : Nat) : limbs (n : Int) = (natBE n).length := by
  simp [limbs]

/-- what the u64 fast path of `op_add` computes is what the generic loop computes -/
theorem addFast_generic (nm : Bool) (cpa cpb mc : Nat) (acc : Int) (l : List Val) :
    ∀ (cost total : Nat),
      match addFast nm cpa cpb mc l cost total with
      | .error e => addGeneric nm cpa cpb mc l cost acc (total : Int) = .error e
      | .ok (some (c', t')) =>
          addGeneric nm cpa cpb mc l cost acc (total : Int) = .ok (c', if nm then (t' : Int) else acc + (t' : Int)) ∧
          (total ≤ U64_MAX → t' ≤ U64_MAX)
      | .ok none => True := by
  induction l with
  | nil => intro cost total; simp [addFast, addGeneric]
  | cons a l ih =>
    intro cost total
    cases a with
    | pair x y => simp [addFast, node]
    | atom b inl =>
      cases inl
      · simp [addFast, node]
      · simp only [addFast, addGeneric, node, fp_limbs_natCast]
        cases hc : checkCost (if nm = true then cost + cpa + max (natBE total).length (lenForValue (beNat b)) * cpb
            else cost + cpa + lenForValue (beNat b) * cpb) mc with
        | error e => simp
        | ok u =>
          simp only []
          by_cases hov : total + beNat b > U64_MAX
          · simp only [hov, ↓reduceIte]
          · simp only [hov, ↓reduceIte]
            have := ih (if nm = true then cost + cpa + max (natBE total).length (lenForValue (beNat b)) * cpb
              else cost + cpa + lenForValue (beNat b) * cpb) (total + beNat b)
            rw [Int.natCast_add] at this
            split at this <;> rename_i heq
            · exact this
            · exact ⟨this.1, fun _ => this.2 (by omega)⟩
            · trivial

theorem opAdd_fastpath : OpFastpathIrrelevant opAdd := by
  intro flags m args c _
  simp only [opAdd, ↓reduceIte, Bool.false_eq_true]
  have h := addFast_generic (newModel flags) (arithCosts flags).2.1 (arithCosts flags).2.2 m 0 (argList args)
    (arithCosts flags).1 0
  split at h <;> rename_i heq <;> rw [heq] <;> simp only []
  · rw [show ((0 : Nat) : Int) = 0 from rfl] at h; rw [h]
  · rename_i c' t'
    rw [show ((0 : Nat) : Int) = 0 from rfl] at h; rw [h.1]
    have ht := h.2 (by decide)
    simp only [Int.zero_add, ite_self, allocNumber]
    rw [u64Bytes_enc t' (by unfold U64_MAX at ht; omega)]

/-! ### `op_subtract` -/

theorem fp_checkCost_mono {a b m : Nat} (hab : a ≤ b) (h : checkCost a m = .error .CostExceeded) :
    checkCost b m = .error .CostExceeded := by
  unfold checkCost at *
  split at h
  · rw [if_pos (by omega)]
  · cases h

theorem fp_checkCost_err {a m : Nat} {e : Err} (h : checkCost a m = .error e) : e = .CostExceeded := by
  unfold checkCost at h; split at h <;> cases h; rfl

theorem i64Bytes_enc (v : Int) (h1 : I64_MIN ≤ v) (h2 : v ≤ I64_MAX) : i64Bytes v = encodeInt v := by
  unfold I64_MIN at h1; unfold I64_MAX at h2
  unfold i64Bytes
  split
  · rw [u64Bytes_enc _ (by omega), Int.toNat_of_nonneg (by omega)]
  · exact i64NegBytes_enc v (by omega) (by omega)

/-- what the i64 fast path of `op_subtract` computes is what the generic loop computes -/
theorem subFast_generic (nm : Bool) (cpa cpb mc : Nat) (acc : Int) (l : List Val) (hl : ∀ x ∈ l, x.wf = true) :
    ∀ (cost : Nat) (total : Int) (isFirst : Bool), (isFirst = true → total = 0) →
      match subFast nm cpa cpb mc l cost total isFirst with
      | .error e => subGeneric nm cpa cpb mc l cost acc total isFirst = .error e
      | .ok (some (c', t')) =>
          subGeneric nm cpa cpb mc l cost acc total isFirst = .ok (c', if nm then t' else acc + t') ∧
          (I64_MIN ≤ total ∧ total ≤ I64_MAX → I64_MIN ≤ t' ∧ t' ≤ I64_MAX)
      | .ok none => True := by
  induction l with
  | nil => intro cost total isFirst _; simp [subFast, subGeneric]
  | cons a l ih =>
    intro cost total isFirst hfirst
    have ih := ih (fun x hx => hl x (List.mem_cons_of_mem _ hx))
    have hwa := hl a List.mem_cons_self
    cases a with
    | pair x y => simp [subFast, node]
    | atom b inl =>
      cases inl
      · simp [subFast, node]
      · have hlt := wfInl_lt hwa
        simp only [subFast, subGeneric, node, limbsI64, limbs]
        generalize hc2 : (if nm = true then cost + cpa + max (natBE total.natAbs).length (lenForValue (beNat b)) * cpb
            else cost + cpa + lenForValue (beNat b) * cpb) = cost2
        have hle : cost + cpa ≤ cost2 := by subst hc2; split <;> omega
        cases hc : checkCost cost2 mc with
        | error e =>
          simp only []
          cases hc1 : checkCost (cost + cpa) mc with
          | error e1 => rw [fp_checkCost_err hc, fp_checkCost_err hc1]
          | ok u => simp only []
        | ok u =>
          simp only []
          have hc1 : checkCost (cost + cpa) mc = .ok () := by
            unfold checkCost at hc ⊢
            split at hc
            · cases hc
            · rw [if_neg (by omega)]
          simp only [hc1]
          cases isFirst
          · simp only [Bool.false_eq_true, ↓reduceIte]
            by_cases hov : total - (beNat b : Int) < I64_MIN ∨ total - (beNat b : Int) > I64_MAX
            · simp only [hov, ↓reduceIte]
            · simp only [hov, ↓reduceIte]
              have := ih cost2 (total - (beNat b : Int)) false (by simp)
              rw [show total + -1 * (beNat b : Int) = total - (beNat b : Int) by omega]
              split at this <;> rename_i heq
              · exact this
              · exact ⟨this.1, fun _ => this.2 (by omega)⟩
              · trivial
          · simp only [↓reduceIte]
            have := ih cost2 (beNat b : Int) false (by simp)
            rw [hfirst rfl, show (0:Int) + 1 * (beNat b : Int) = (beNat b : Int) by omega]
            split at this <;> rename_i heq
            · exact this
            · refine ⟨this.1, fun _ => this.2 ?_⟩
              unfold I64_MIN I64_MAX; omega
            · trivial

theorem opSubtract_fastpath : OpFastpathIrrelevant opSubtract := by
  intro flags m args c hwf
  simp only [opSubtract, ↓reduceIte, Bool.false_eq_true]
  have h := subFast_generic (newModel flags) (arithCosts flags).2.1 (arithCosts flags).2.2 m 0 (argList args)
    (argList_wf hwf) (arithCosts flags).1 0 true (fun _ => rfl)
  split at h <;> rename_i heq <;> rw [heq] <;> simp only []
  · rw [h]
  · rename_i c' t'
    rw [h.1]
    have ht := h.2 (by decide)
    simp only [Int.zero_add, ite_self, allocNumber]
    rw [i64Bytes_enc t' ht.1 ht.2]

/-! ### `op_multiply` -/

theorem lenForValue_le5 (v : Nat) : lenForValue v ≤ 5 := by
  unfold lenForValue
  split
  · omega
  · simp only [Gen.lenForValueThresholds, ladderUp]
    repeat' split
    all_goals omega

theorem mulLoop_fastpath (flags m sq : Nat) (l : List Val) :
    ∀ (cost : Nat) (total : Int) (l0 : Nat),
      mulLoop { fastpath := true } flags m sq l cost total l0 =
      mulLoop { fastpath := false } flags m sq l cost total l0 := by
  induction l with
  | nil => intros; rfl
  | cons a l ih =>
    intro cost total l0
    simp only [mulLoop, ↓reduceIte, Bool.false_eq_true, ih]
    cases a with
    | pair x y => simp only [node, intAtom]; rfl
    | atom b inl =>
      cases inl
      · simp only [node, intAtom]
      · simp only [node, intAtom]
        have : decide (lenForValue (beNat b) > 256) = false := by
          have := lenForValue_le5 (beNat b); simp; omega
        simp only [this, Bool.and_false, Bool.false_eq_true, ↓reduceIte]

theorem opMultiply_fastpath : OpFastpathIrrelevant opMultiply := by
  intro flags m args c _
  simp only [opMultiply, mulLoop_fastpath]

/-! ### `op_sha256` -/

theorem encodeInt_one : encodeInt 1 = [1] := by
  rw [encodeInt, if_neg (by decide), encodeNE_small 1 (by decide)]; rfl

theorem encodeInt_lt128 (v : Nat) (h0 : v ≠ 0) (h : v < 128) : encodeInt (v : Int) = [UInt8.ofNat v] := by
  rw [encodeInt, if_neg (by omega), encodeNE_small _ (by omega)]
  congr 2
  omega

theorem smallNumber_bytes {v : Val} {n : Nat} (hw : v.wf = true) (h : smallNumber v = some n) :
    ∃ inl, v = .atom (encodeInt (n : Int)) inl := by
  cases v with
  | pair l r => simp [smallNumber] at h
  | atom b inl =>
    cases inl
    · simp only [smallNumber] at h
      exact ⟨false, by rw [← fits_enc h]⟩
    · simp only [smallNumber, Option.some.injEq] at h
      subst h
      exact ⟨true, by rw [← wfInl_enc hw]⟩

theorem precomputedHash_ok (i : Nat) (h : i < Gen.thPrecomputedHashes.length) :
    precomputedHash i = Hash.sha256 (1 :: encodeInt (i : Int)) := by
  have hlen : Gen.thPrecomputedHashes.length ≤ 128 := by decide
  have hp : i < TreeHash.precomputed.length := by simpa [TreeHash.precomputed] using h
  have := TreeHash.precomputed_get hp
  rw [smallBytes_enc i (by omega)] at this
  simp only [TreeHash.precomputed, List.getElem?_map] at this
  simp only [precomputedHash, bytesOfNats, List.getD_eq_getElem?_getD]
  cases hg : Gen.thPrecomputedHashes[i]? with
  | none => simp [hg] at this
  | some row => simpa [hg] using this

theorem matchArgs_eq {n : Nat} {a : Val} {l : List Val} (h : matchArgs n a = some l) : argList a = l := by
  unfold matchArgs at h
  simp only at h
  split at h
  · exact Option.some.inj h
  · cases h

theorem opSha256_fastpath : OpFastpathIrrelevant opSha256 := by
  intro flags m args c hwf
  simp only [opSha256, ↓reduceIte, Bool.false_eq_true]
  generalize (if newModel flags = true then
      (Gen.NEW_SHA256_BASE_COST, Gen.NEW_SHA256_COST_PER_ARG, Gen.NEW_SHA256_COST_PER_BYTE)
    else (Gen.SHA256_BASE_COST, Gen.SHA256_COST_PER_ARG, Gen.SHA256_COST_PER_BYTE)) = k
  obtain ⟨base, cpa, cpb⟩ := k
  simp only []
  split
  · rfl
  · split
    · rename_i r hfast
      split at hfast
      · rename_i v0 v1 hm
        have hal := matchArgs_eq hm
        have hw := argList_wf hwf
        rw [hal] at hw
        have hw0 := hw v0 (by simp)
        have hw1 := hw v1 (by simp)
        split at hfast
        · rename_i h1
          split at hfast
          · rename_i val hval
            split at hfast
            · rename_i hlt
              have hlen : Gen.thPrecomputedHashes.length ≤ 128 := by decide
              have h1' : smallNumber v0 = some 1 := by simpa using h1
              obtain ⟨i0, rfl⟩ := smallNumber_bytes hw0 h1'
              obtain ⟨i1, rfl⟩ := smallNumber_bytes hw1 hval
              injection hfast with hfast
              subst hfast
              rw [hal, precomputedHash_ok val hlt]
              simp only [sha256Loop, atomBytes, show encodeInt ((1 : Nat) : Int) = [1] from encodeInt_one,
                List.length_cons, List.length_nil, List.nil_append]
              have hnb : (if val > 0 then 2 else 1) = 1 + (encodeInt (val : Int)).length := by
                by_cases hv0 : val = 0
                · subst hv0; rfl
                · rw [encodeInt_lt128 val hv0 (by omega), if_pos (by omega)]; rfl
              rw [hnb]
              generalize (encodeInt (val : Int)).length = L
              have hcost : base + (1 + L) * cpb + 2 * cpa = base + cpa + (0 + 1) * cpb + cpa + L * cpb := by
                rw [Nat.add_mul]; omega
              rw [hcost]
              simp only [checkCost]
              by_cases hA : base + cpa + (0 + 1) * cpb > m
              · rw [if_pos hA, if_pos (by omega)]
              · rw [if_neg hA]
                simp only [List.cons_append, List.nil_append]
                split <;> rfl
            · cases hfast
          · cases hfast
        · cases hfast
      · cases hfast
    · rfl

/-! ### `traverse_path_fast` = `traverse_path` -/

/-- the bits of `n` below its most significant one, least significant first -/
def lsbBits (n : Nat) : List Bool := if n ≤ 1 then [] else (n % 2 == 1) :: lsbBits (n / 2)
termination_by n
decreasing_by omega

theorem lsbBits_le1 {n : Nat} (h : n ≤ 1) : lsbBits n = [] := by rw [lsbBits, if_pos h]
theorem lsbBits_gt1 {n : Nat} (h : 1 < n) : lsbBits n = (n % 2 == 1) :: lsbBits (n / 2) := by
  rw [lsbBits, if_neg (by omega)]

/-- the cost returned by `walk` is the start cost plus one charge per bit -/
theorem walk_cost (bits : List Bool) : ∀ (env : Val) (c0 : Nat),
    walk bits env c0 = match walk bits env 0 with
      | .error e => .error e
      | .ok (_, x) => .ok (c0 + bits.length * Gen.TRAVERSE_COST_PER_BIT, x) := by
  induction bits with
  | nil => intro env c0; simp [walk]
  | cons b bits ih =>
    intro env c0
    cases env with
    | atom x i => simp [walk]
    | pair l r =>
      simp only [walk]
      rw [ih _ (c0 + Gen.TRAVERSE_COST_PER_BIT), ih _ (0 + Gen.TRAVERSE_COST_PER_BIT)]
      cases walk bits (if b = true then r else l) 0 with
      | error e => rfl
      | ok p => simp only [List.length_cons, Nat.add_mul]; congr 2; omega

theorem walkFast_eq : ∀ (fuel n : Nat) (env : Val) (nb : Nat), 1 ≤ n → n < 2 ^ fuel →
    walkFast fuel n env nb = match walk (lsbBits n) env 0 with
      | .error e => .error e
      | .ok (_, x) => .ok (nb + (lsbBits n).length, x) := by
  intro fuel
  induction fuel with
  | zero => intro n env nb h1 h2; simp at h2; omega
  | succ fuel ih =>
    intro n env nb h1 h2
    by_cases hn : n = 1
    · subst hn; simp [walkFast, lsbBits_le1, walk]
    · have hb : (n == 1) = false := by simpa using hn
      rw [lsbBits_gt1 (by omega)]
      simp only [walkFast, hb, Bool.false_eq_true, ↓reduceIte]
      cases env with
      | atom x i => simp [walk]
      | pair l r =>
        simp only [walk]
        rw [ih (n / 2) _ (nb + 1) (by omega) (by rw [Nat.pow_succ] at h2; omega),
          walk_cost _ _ (0 + Gen.TRAVERSE_COST_PER_BIT)]
        generalize walk (lsbBits (n / 2)) (if (n % 2 == 1) = true then r else l) 0 = w
        cases w with
        | error e => rfl
        | ok p => simp only [List.length_cons]; congr 2; omega

/-- structurally recursive twin of `lsbBits` (so that `decide` can evaluate it) -/
def lsbBitsF : Nat → Nat → List Bool
  | 0, _ => []
  | f + 1, n => if n ≤ 1 then [] else (n % 2 == 1) :: lsbBitsF f (n / 2)

theorem lsbBitsF_eq : ∀ (f n : Nat), n < 2 ^ f → lsbBitsF f n = lsbBits n := by
  intro f
  induction f with
  | zero => intro n h; rw [lsbBits_le1 (by simp at h; omega)]; rfl
  | succ f ih =>
    intro n h
    by_cases h1 : n ≤ 1
    · rw [lsbBits_le1 h1, lsbBitsF, if_pos h1]
    · rw [lsbBits_gt1 (by omega), lsbBitsF, if_neg h1, ih _ (by rw [Nat.pow_succ] at h; omega)]

def bits8 (x : Nat) : List Bool := (List.range 8).map (fun i => x &&& 2 ^ i != 0)

theorem byte_bits : ∀ n, n < 256 → 0 < n → bitsBelow n (msbMask n) = lsbBitsF 8 n := by decide +kernel

theorem byte_bits_len : ∀ n, n < 256 → 0 < n →
    (bitsBelow n (msbMask n)).length ≤ 7 ∧ ((bitsBelow n (msbMask n)).length = 7 ↔ 127 < n) := by
  decide +kernel

theorem bits8_eq : ∀ x, x < 256 →
    [x % 2 == 1, x / 2 % 2 == 1, x / 2 / 2 % 2 == 1, x / 2 / 2 / 2 % 2 == 1, x / 2 / 2 / 2 / 2 % 2 == 1,
     x / 2 / 2 / 2 / 2 / 2 % 2 == 1, x / 2 / 2 / 2 / 2 / 2 / 2 % 2 == 1,
     x / 2 / 2 / 2 / 2 / 2 / 2 / 2 % 2 == 1] = bits8 x := by decide +kernel

theorem lsb_step (m k x : Nat) (hm : 0 < m) (hk : 0 < k) (_hx : x < 2 * k) :
    lsbBits (m * (2 * k) + x) = (x % 2 == 1) :: lsbBits (m * k + x / 2) := by
  have h1 : m * (2 * k) = 2 * (m * k) := by rw [Nat.mul_left_comm]
  have h2 : 0 < m * k := Nat.mul_pos hm hk
  rw [lsbBits_gt1 (by omega), h1]
  congr 2
  · omega
  · omega

theorem lsb_snoc (m x : Nat) (hm : 0 < m) (hx : x < 256) : lsbBits (m * 256 + x) = bits8 x ++ lsbBits m := by
  rw [← bits8_eq x hx]
  rw [lsb_step m 128 x hm (by omega) (by omega), lsb_step m 64 _ hm (by omega) (by omega),
    lsb_step m 32 _ hm (by omega) (by omega), lsb_step m 16 _ hm (by omega) (by omega),
    lsb_step m 8 _ hm (by omega) (by omega), lsb_step m 4 _ hm (by omega) (by omega),
    lsb_step m 2 _ hm (by omega) (by omega), lsb_step m 1 _ hm (by omega) (by omega)]
  have : x / 2 / 2 / 2 / 2 / 2 / 2 / 2 / 2 = 0 := by omega
  rw [this]; simp

/-- `pathBits` after the leading zero bytes have been dropped -/
def pathBitsNZ : Bytes → List Bool
  | [] => []
  | b0 :: rest => (rest.reverse.flatMap (fun b => bits8 b.toNat)) ++ bitsBelow b0.toNat (msbMask b0.toNat)

theorem pathBits_eq (b : Bytes) : pathBits b = pathBitsNZ (b.drop (firstNonZero b)) := by
  unfold pathBits
  simp only
  cases List.drop (firstNonZero b) b <;> rfl

theorem pathBitsNZ_snoc (L : Bytes) (x : UInt8) (hL : L ≠ []) :
    pathBitsNZ (L ++ [x]) = bits8 x.toNat ++ pathBitsNZ L := by
  cases L with
  | nil => exact absurd rfl hL
  | cons b0 rest => simp [pathBitsNZ]

theorem pathBitsNZ_length (x : UInt8) (t : Bytes) :
    (pathBitsNZ (x :: t)).length = 8 * t.length + (bitsBelow x.toNat (msbMask x.toNat)).length := by
  have h8 : ∀ l : Bytes, (l.flatMap (fun b => bits8 b.toNat)).length = 8 * l.length := by
    intro l
    induction l with
    | nil => rfl
    | cons a l ih => rw [List.flatMap_cons, List.length_append, ih]; simp [bits8]; omega
  simp only [pathBitsNZ, List.length_append, h8, List.length_reverse]

theorem pathBitsNZ_natBE (n : Nat) : 0 < n → pathBitsNZ (natBE n) = lsbBits n := by
  fun_induction natBE n with
  | case1 => intro h; omega
  | case2 n hn ih =>
    intro _
    have hx : n % 256 < 256 := Nat.mod_lt _ (by omega)
    by_cases h0 : n / 256 = 0
    · have hn' : n % 256 = n := by omega
      rw [h0, natBE, if_pos rfl, hn']
      have hlt : n < 256 := by omega
      simp only [List.nil_append, pathBitsNZ, List.reverse_nil, List.flatMap_nil, toNat_ofNat_lt n hlt]
      rw [byte_bits n hlt (by omega), lsbBitsF_eq 8 n (by omega)]
    · obtain ⟨y, t, e, _⟩ := natBE_head (n / 256) (by omega)
      rw [pathBitsNZ_snoc _ _ (by rw [e]; simp), ih (by omega), toNat_ofNat_lt _ hx,
        ← lsb_snoc _ _ (by omega) hx]
      congr 1; omega

/-- the canonical encoding of a positive number: its magnitude, with a zero byte in front when
the top bit is set -/
theorem encodeInt_natBE (v : Nat) (x : UInt8) (t : Bytes) (hn : natBE v = x :: t) :
    encodeInt (v : Int) = if 127 < x.toNat then (0 : UInt8) :: x :: t else x :: t := by
  have hb : beNat (x :: t) = v := by rw [← hn, beNat_natBE]
  have hv : 0 < v := by
    rcases Nat.eq_zero_or_pos v with h | h
    · subst h; rw [natBE] at hn; simp at hn
    · exact h
  obtain ⟨x', t', hn', hx⟩ := natBE_head v hv
  rw [hn] at hn'
  injection hn' with e1 e2
  subst e1 e2
  have hxl := u8_lt x
  by_cases h127 : 127 < x.toNat
  · rw [if_pos h127]
    have hcan : canonical ((0 : UInt8) :: x :: t) = true := by
      simp [canonical]; omega
    have hd : decodeInt ((0 : UInt8) :: x :: t) = (v : Int) := by
      have : beNat ((0 : UInt8) :: x :: t) = beNat (x :: t) := by
        rw [beNat_cons]; simp
      simp only [decodeInt, this, hb]
      simp
    rw [← hd, encodeInt_decodeInt _ hcan]
  · rw [if_neg h127]
    have hcan : canonical (x :: t) = true := by
      cases t with
      | nil => simp [canonical]; exact hx
      | cons y u => simp [canonical]; omega
    have hd : decodeInt (x :: t) = (v : Int) := by
      have : ¬ 128 ≤ x.toNat := by omega
      simp only [decodeInt, this, if_false, hb]
    rw [← hd, encodeInt_decodeInt _ hcan]

/-- **C05**: `traverse_path_fast(v)` = `traverse_path(canonical bytes of v)` for every `u32` -/
theorem traverse_fast_eq (v : Nat) (hv : v < 2 ^ 32) (env : Val) :
    traversePathFast v env = traversePath (encodeInt (v : Int)) env := by
  by_cases h0 : v = 0
  · subst h0; rfl
  obtain ⟨x, t, hn, hx⟩ := natBE_head v (by omega)
  have hxl := u8_lt x
  have hb : beNat (x :: t) = v := by rw [← hn, beNat_natBE]
  have hbits : pathBitsNZ (x :: t) = lsbBits v := by rw [← hn]; exact pathBitsNZ_natBE v (by omega)
  have hlen := pathBitsNZ_length x t
  rw [hbits] at hlen
  have hbl := byte_bits_len x.toNat hxl (by omega)
  have htl : t.length < 4 := by
    rw [beNat_cons] at hb
    have h1 : 256 ^ t.length ≤ x.toNat * 256 ^ t.length := Nat.le_mul_of_pos_left _ (by omega)
    have h2 : 256 ^ t.length < 256 ^ 4 := by omega
    exact (Nat.pow_lt_pow_iff_right (by omega)).1 h2
  have hfz : (x.toNat == 0) = false := by simpa using hx
  have hne : (v == 0) = false := by simpa using h0
  -- the fast side
  simp only [traversePathFast, hne, Bool.false_eq_true, ↓reduceIte]
  rw [walkFast_eq 33 v env 0 (by omega) (by omega)]
  -- the byte side
  rw [encodeInt_natBE v x t hn]
  by_cases h127 : 127 < x.toNat
  · rw [if_pos h127]
    have hk : firstNonZero ((0 : UInt8) :: x :: t) = 1 := by simp [firstNonZero, hfz]
    simp only [traversePath, hk, pathBits_eq, List.drop_succ_cons, List.drop_zero, hbits, List.length_cons]
    rw [if_neg (by omega)]
    conv => rhs; rw [walk_cost]
    generalize walk (lsbBits v) env 0 = w
    cases w with
    | error e => rfl
    | ok p =>
      have : (lsbBits v).length = 7 ∨ (lsbBits v).length = 15 ∨ (lsbBits v).length = 23 ∨
          (lsbBits v).length = 31 := by omega
      simp only [Nat.zero_add]
      rcases this with h | h | h | h <;> rw [h] <;> rfl
  · rw [if_neg h127]
    have hk : firstNonZero (x :: t) = 0 := by simp [firstNonZero, hfz]
    simp only [traversePath, hk, pathBits_eq, List.drop_zero, hbits, List.length_cons]
    rw [if_neg (by omega)]
    conv => rhs; rw [walk_cost]
    generalize walk (lsbBits v) env 0 = w
    cases w with
    | error e => rfl
    | ok p =>
      have h7 : ((lsbBits v).length == 7) = false := by simp; omega
      have h15 : ((lsbBits v).length == 15) = false := by simp; omega
      have h23 : ((lsbBits v).length == 23) = false := by simp; omega
      have h31 : ((lsbBits v).length == 31) = false := by simp; omega
      simp only [Nat.zero_add, h7, h15, h23, h31, Bool.or_self, Bool.false_eq_true, ↓reduceIte,
        Nat.zero_mul, Nat.add_zero]

theorem traverse_fast_wf (b : Bytes) (h : (Val.atom b true).wf = true) (env : Val) :
    traversePathFast (beNat b) env = traversePath b env := by
  have := traverse_fast_eq (beNat b) (by have := wfInl_lt h; omega) env
  rw [← wfInl_enc h] at this
  exact this

/-- `eval_pair` does not depend on the build configuration on well-formed programs -/
theorem evalPair_fastpath (d : Dialect) (s : MState) (program env : Val) (hw : program.wf = true) :
    evalPair { fastpath := true } d s program env = evalPair { fastpath := false } d s program env := by
  cases program with
  | pair a b => rfl
  | atom b inl =>
    cases inl
    · rfl
    · simp only [evalPair, node, ↓reduceIte, Bool.false_eq_true, traverse_fast_wf b hw env]

/-! ### aggregate -/

/-- **C05**: every core operator of the default build equals the one of the `no-fastpath` build
on well-formed arguments -/
theorem coreOps_fastpath {name : String} {f g : OpFn}
    (hf : coreOpByName { fastpath := true } name = some f)
    (hg : coreOpByName { fastpath := false } name = some g) :
    ∀ (flags m : Nat) (args : Val) (c : Ctr), args.wf = true → f flags m args c = g flags m args c := by
  intro flags m args c hw
  unfold coreOpByName at hf hg
  split at hf <;> cases hf <;> simp only [Option.some.injEq] at hg <;> subst hg <;> first
    | rfl
    | exact opSha256_fastpath flags m args c hw
    | exact opAdd_fastpath flags m args c hw
    | exact opSubtract_fastpath flags m args c hw
    | exact opMultiply_fastpath flags m args c hw
    | exact opGr_fastpath flags m args c hw

end Clvm.Interp
