/-
Every machine step preserves well-formedness of the stacks (`MState.WF`), given `Dialect.OpWf`.
-/
import ClvmProofs.Lemmas.Interp.MachineWf

namespace Clvm.Interp
open Clvm Clvm.Alloc

/-- bind on `M` -/
theorem M_bind_ok {α β} {x : M α} {f : α → M β} {b : β} (h : (x >>= f) = .ok b) :
    ∃ a, x = .ok a ∧ f a = .ok b := by
  cases x with
  | error e => simp [bind, Except.bind] at h
  | ok a => exact ⟨a, rfl, h⟩

theorem liftE_ok {α} {x : Except Err α} {a : α} (h : liftE x = .ok a) : x = .ok a := by
  cases x with
  | error e => simp [liftE] at h
  | ok b => simp only [liftE, Except.ok.injEq] at h; subst h; rfl

theorem M_pure_ok {α} {a b : α} (h : (pure a : M α) = .ok b) : a = b := by
  simpa [pure, Except.pure] using h

theorem consOp_wf {s s' : MState} {c : Nat} (hs : s.WF) (h : consOp s = .ok (c, s')) : s'.WF := by
  unfold consOp at h
  obtain ⟨⟨v1, s1⟩, h1, h⟩ := M_bind_ok h
  obtain ⟨hv1, hs1⟩ := hs.pop h1
  obtain ⟨⟨v2, s2⟩, h2, h⟩ := M_bind_ok h
  obtain ⟨hv2, hs2⟩ := hs1.pop h2
  obtain ⟨⟨p, c'⟩, h3, h⟩ := M_bind_ok h
  have h3' := liftE_ok h3
  unfold allocPair at h3'
  split at h3'
  · cases h3'
  · simp only [Except.ok.injEq, Prod.mk.injEq] at h3'
    obtain ⟨rfl, rfl⟩ := h3'
    obtain ⟨s3, h4, h⟩ := M_bind_ok h
    have := M_pure_ok h
    simp only [Prod.mk.injEq] at this
    obtain ⟨_, rfl⟩ := this
    refine MState.WF.push ?_ ?_ h4
    · exact ⟨hs2.1, hs2.2⟩
    · rw [wf_pair]; exact ⟨hv1, hv2⟩

theorem pushOperands_wf : ∀ (ol : Val) (s : MState) (t : Val) (s' : MState), s.WF → ol.wf = true →
    pushOperands ol s = .ok (t, s') → s'.WF ∧ t.wf = true := by
  intro ol
  induction ol with
  | atom b i =>
    intro s t s' hs ho h
    simp only [pushOperands] at h
    have := M_pure_ok h
    simp only [Prod.mk.injEq] at this
    obtain ⟨rfl, rfl⟩ := this
    exact ⟨hs, ho⟩
  | pair f r _ ihr =>
    intro s t s' hs ho h
    rw [wf_pair] at ho
    simp only [pushOperands] at h
    obtain ⟨s1, h1, h⟩ := M_bind_ok h
    have hs1 : s1.WF := MState.WF.push (hs.pushOp _) ho.1 h1
    exact ihr s1 t s' hs1 ho.2 h

theorem evalOpAtom_wf {d : Dialect} {s s' : MState} {o ol env : Val} {c : Nat}
    (hs : s.WF) (ho : o.wf = true) (hol : ol.wf = true) (he : env.wf = true)
    (h : evalOpAtom d s o ol env = .ok (c, s')) : s'.WF := by
  unfold evalOpAtom at h
  split at h
  · obtain ⟨s1, h1, h⟩ := M_bind_ok h
    have := M_pure_ok h
    simp only [Prod.mk.injEq] at this
    obtain ⟨_, rfl⟩ := this
    exact hs.push hol h1
  · simp only at h
    -- the optional RestoreAllocator push does not touch the value stacks
    have hs0 : MState.WF (if d.gcCandidate o = true
        then ({ s with allocatorStack := s.allocatorStack + 1 }.pushOp .RestoreAllocator) else s) := by
      split
      · exact ⟨hs.1, hs.2⟩
      · exact hs
    obtain ⟨s1, h1, h⟩ := M_bind_ok h
    have hs1 := hs0.pushEnv he h1
    obtain ⟨s2, h2, h⟩ := M_bind_ok h
    have hs2 : s2.WF := MState.WF.push (hs1.pushOp _) ho h2
    obtain ⟨⟨t, s3⟩, h3, h⟩ := M_bind_ok h
    obtain ⟨hs3, _⟩ := pushOperands_wf _ _ _ _ hs2 hol h3
    simp only at h
    split at h
    · split at h
      · cases h
      · obtain ⟨s4, h4, h⟩ := M_bind_ok h
        have := M_pure_ok h
        simp only [Prod.mk.injEq] at this
        obtain ⟨_, rfl⟩ := this
        exact hs3.push wf_nil h4
    · cases h

theorem evalPair_wf {cfg : Cfg} {d : Dialect} {s s' : MState} {p env : Val} {c : Nat}
    (hs : s.WF) (hp : p.wf = true) (he : env.wf = true)
    (h : evalPair cfg d s p env = .ok (c, s')) : s'.WF := by
  cases p with
  | atom b inl =>
    simp only [evalPair] at h
    obtain ⟨r, h1, h⟩ := M_bind_ok h
    have h1' := liftE_ok h1
    have hr : r.2.wf = true := by
      split at h1'
      · cases inl
        · simp only [node] at h1'; exact traversePath_wf _ _ _ he h1'
        · simp only [node] at h1'; exact traversePathFast_wf _ _ _ he h1'
      · exact traversePath_wf _ _ _ he h1'
    obtain ⟨s1, h2, h⟩ := M_bind_ok h
    have := M_pure_ok h
    simp only [Prod.mk.injEq] at this
    obtain ⟨_, rfl⟩ := this
    exact hs.push hr h2
  | pair opNode opList =>
    rw [wf_pair] at hp
    cases opNode with
    | atom ob oi => simp only [evalPair] at h; exact evalOpAtom_wf hs hp.1 hp.2 he h
    | pair newOperator x =>
      have hno : newOperator.wf = true := (wf_pair.1 hp.1).1
      simp only [evalPair] at h
      obtain ⟨inner, _, h⟩ := M_bind_ok h
      split at h
      · cases h
      · obtain ⟨s1, h1, h⟩ := M_bind_ok h
        have hs1 := hs.pushEnv he h1
        obtain ⟨s2, h2, h⟩ := M_bind_ok h
        have hs2 := hs1.push hno h2
        obtain ⟨s3, h3, h⟩ := M_bind_ok h
        have hs3 := hs2.push hp.2 h3
        have := M_pure_ok h
        simp only [Prod.mk.injEq] at this
        obtain ⟨_, rfl⟩ := this
        exact hs3.pushOp _

theorem swapEvalOp_wf {cfg : Cfg} {d : Dialect} {s s' : MState} {c : Nat}
    (hs : s.WF) (h : swapEvalOp cfg d s = .ok (c, s')) : s'.WF := by
  unfold swapEvalOp at h
  obtain ⟨⟨v2, s1⟩, h1, h⟩ := M_bind_ok h
  obtain ⟨hv2, hs1⟩ := hs.pop h1
  obtain ⟨⟨program, s2⟩, h2, h⟩ := M_bind_ok h
  obtain ⟨hp, hs2⟩ := hs1.pop h2
  simp only at h
  cases henv : s2.envStack with
  | nil => rw [henv] at h; cases h
  | cons env envs =>
    rw [henv] at h
    simp only at h
    have he : env.wf = true := hs2.2 env (by rw [henv]; simp)
    obtain ⟨s3, h3, h⟩ := M_bind_ok h
    have hs3 := hs2.push hv2 h3
    exact evalPair_wf (hs3.pushOp _) hp he h

theorem exitGuard_wf {s s' : MState} {cost c : Nat} (hs : s.WF) (h : exitGuard s cost = .ok (c, s')) :
    s'.WF := by
  unfold exitGuard at h
  cases hsf : s.softforkStack with
  | nil => rw [hsf] at h; cases h
  | cons g rest =>
    rw [hsf] at h
    simp only at h
    split at h
    · cases h
    · cases hv : s.valStack with
      | nil => rw [hv] at h; cases h
      | cons v vs =>
        rw [hv] at h
        simp only at h
        obtain ⟨s1, h1, h⟩ := M_bind_ok h
        have := M_pure_ok h
        simp only [Prod.mk.injEq] at this
        obtain ⟨_, rfl⟩ := this
        refine MState.WF.push ?_ wf_nil h1
        have hv1 := hs.1
        rw [hv] at hv1
        exact ⟨fun x hx => hv1 x (by simp [hx]), hs.2⟩

theorem applyOp_wf {cfg : Cfg} {d : Dialect} {s s' : MState} {cc mc c : Nat} (hd : d.OpWf)
    (hs : s.WF) (h : applyOp cfg d s cc mc = .ok (c, s')) : s'.WF := by
  unfold applyOp at h
  obtain ⟨⟨operandList, s1⟩, h1, h⟩ := M_bind_ok h
  obtain ⟨hol, hs1⟩ := hs.pop h1
  obtain ⟨⟨operator, s2⟩, h2, h⟩ := M_bind_ok h
  obtain ⟨hop, hs2⟩ := hs1.pop h2
  simp only at h
  cases henv : s2.envStack with
  | nil => rw [henv] at h; cases h
  | cons e0 envs =>
    rw [henv] at h
    simp only at h
    have hs3 : MState.WF { s2 with envStack := envs, envLen := s2.envLen - 1 } := by
      have h2' := hs2.2
      rw [henv] at h2'
      exact ⟨hs2.1, fun x hx => h2' x (by simp [hx])⟩
    split at h
    · -- apply
      obtain ⟨⟨newOperator, env⟩, h3, h⟩ := M_bind_ok h
      obtain ⟨hno, hen⟩ := getArgs2_wf hol (liftE_ok h3)
      obtain ⟨⟨c1, s4⟩, h4, h⟩ := M_bind_ok h
      have := M_pure_ok h
      simp only [Prod.mk.injEq] at this
      obtain ⟨_, rfl⟩ := this
      exact evalPair_wf hs3 hno hen h4
    · split at h
      · -- softfork
        obtain ⟨f, _, h⟩ := M_bind_ok h
        obtain ⟨expectedCost, _, h⟩ := M_bind_ok h
        split at h
        · cases h
        · split at h
          · cases h
          · split at h
            · split at h
              · obtain ⟨s4, h4, h⟩ := M_bind_ok h
                have := M_pure_ok h
                simp only [Prod.mk.injEq] at this
                obtain ⟨_, rfl⟩ := this
                exact hs3.push wf_nil h4
              · cases h
            · rename_i ext prg env hparse
              have hpe : prg.wf = true ∧ env.wf = true := by
                unfold parseSoftforkArguments at hparse
                cases hg : getArgs4 operandList "softfork" with
                | error e => rw [hg] at hparse; cases hparse
                | ok q =>
                  obtain ⟨a1, a2, a3, a4⟩ := q
                  rw [hg] at hparse
                  simp only at hparse
                  obtain ⟨_, _, w3, w4⟩ := getArgs4_wf hol hg
                  split at hparse
                  · cases hparse
                  · split at hparse
                    · cases hparse
                    · simp only [Except.ok.injEq, Prod.mk.injEq] at hparse
                      obtain ⟨_, rfl, rfl⟩ := hparse
                      exact ⟨w3, w4⟩
              split at h
              · cases h
              · obtain ⟨⟨c1, s4⟩, h4, h⟩ := M_bind_ok h
                have := M_pure_ok h
                simp only [Prod.mk.injEq] at this
                obtain ⟨_, rfl⟩ := this
                refine evalPair_wf ?_ hpe.1 hpe.2 h4
                exact ⟨hs3.1, hs3.2⟩
      · -- ordinary operator
        split at h
        · cases h
        · cases h
        · rename_i cost v c' hop'
          obtain ⟨s4, h4, h⟩ := M_bind_ok h
          have := M_pure_ok h
          simp only [Prod.mk.injEq] at this
          obtain ⟨_, rfl⟩ := this
          have hv : v.wf = true := hd operator operandList _ _ _ (cost, v, c') hop hol hop'
          refine MState.WF.push ?_ hv h4
          exact ⟨hs3.1, hs3.2⟩

theorem stepOp_wf {cfg : Cfg} {d : Dialect} {s s' : MState} {op : Operation} {cost em c : Nat}
    (hd : d.OpWf) (hs : s.WF) (h : stepOp cfg d s op cost em = .ok (c, s')) : s'.WF := by
  cases op with
  | Apply => exact applyOp_wf hd hs h
  | ExitGuard => exact exitGuard_wf hs h
  | Cons => exact consOp_wf hs h
  | SwapEval => exact swapEvalOp_wf hs h
  | RestoreAllocator =>
    simp only [stepOp] at h
    split at h
    · cases h
    · split at h
      · cases h
      · simp only [Except.ok.injEq, Prod.mk.injEq] at h
        obtain ⟨_, rfl⟩ := h
        exact ⟨hs.1, hs.2⟩

end Clvm.Interp
