/-
C07 / C11, per-operator layer for the operators outside the core table: which flag bits a tree-level
crypto operator reads, and in which direction.

* no operator reads anything but `NEW_COST_MODEL` (cost constants; `sha256`, `keccak256`, `coinid`,
  `g1_multiply`, `g2_multiply`, `g1_map`, `g2_map`, `pairing_identity`, `bls_verify`), `LIMITS`
  (`g1_multiply` / `g2_multiply`: only adds the scalar-length failure, old cost model) and
  `RELAXED_BLS` (`g1_negate` / `g2_negate`: only removes the point validation,
  `Props/C32.lean: g1_negate_relaxed_superset`);
* the value and the `fresh` bit never depend on the cost model (`TModelIndep`).
-/
import ClvmProofs.Lemmas.Interp.CryptoShapesBudget
import ClvmProofs.Props.C32

set_option linter.unusedSimpArgs false

namespace Clvm.Crypto.Ops
open Clvm Clvm.Crypto Clvm.Interp

/-! ### classes of flag dependence -/

/-- reads the flags only through `NEW_COST_MODEL` (or not at all) -/
def NmOnly (g : Crypto.OpFn) : Prop := ∀ F G, newCostModel F = newCostModel G → g F = g G

/-- does not read the flags -/
def NoFlags (g : Crypto.OpFn) : Prop := ∀ F G, g F = g G

theorem NoFlags.nmOnly {g : Crypto.OpFn} (h : NoFlags g) : NmOnly g := fun F G _ => h F G

theorem NmOnly.restrict {g : Crypto.OpFn} (h : NmOnly g) : TRestrict g := by
  intro F R m args r hR hh
  rw [← h (F ||| R) F (cNewCostModel_or_restr hR F)]; exact hh

theorem NmOnly.relax {g : Crypto.OpFn} (h : NmOnly g) : TRelax g := by
  intro F m args r hh
  rw [h (F ||| Gen.FLAG_RELAXED_BLS) F (cNewCostModel_or_relaxed F)]; exact hh

/-- an operator that does not read the cost-model bit and has the budget shape returns the same
result under both models whenever both calls succeed -/
theorem modelIndep_of_eq {g : Crypto.OpFn} (hb : TBudget g)
    (he : ∀ F, g (F ||| Gen.FLAG_NEW_COST_MODEL) = g F) : TModelIndep g := by
  intro F m m' args r r' _ h h'
  rw [he F] at h'
  rcases ((hb F m args r h).2 m').1 with h1 | h1
  · replace h1 : g F m' args = .ok r := h1
    rw [h1] at h'; cases h'; exact ⟨rfl, rfl⟩
  · replace h1 : g F m' args = .error .CostExceeded := h1
    rw [h1] at h'; cases h'

theorem NoFlags.modelIndep {g : Crypto.OpFn} (h : NoFlags g) (hb : TBudget g) : TModelIndep g :=
  modelIndep_of_eq hb fun F => h _ F

/-! ### operators that do not read the flags -/

theorem opPointAdd_noFlags : NoFlags opPointAdd := fun _ _ => rfl
theorem opPubkeyForExp_noFlags : NoFlags opPubkeyForExp := fun _ _ => rfl
theorem opBlsG1Subtract_noFlags : NoFlags opBlsG1Subtract := fun _ _ => rfl
theorem opBlsG2Add_noFlags : NoFlags opBlsG2Add := fun _ _ => rfl
theorem opBlsG2Subtract_noFlags : NoFlags opBlsG2Subtract := fun _ _ => rfl
theorem opSecp256r1Verify_noFlags : NoFlags opSecp256r1Verify := fun _ _ => rfl
theorem opSecp256k1Verify_noFlags : NoFlags opSecp256k1Verify := fun _ _ => rfl

/-! ### operators that read only `NEW_COST_MODEL` -/

theorem opSha256_nmOnly : NmOnly opSha256 := fun F G h => by
  funext m args; simp only [opSha256, h]
theorem opKeccak256_nmOnly : NmOnly opKeccak256 := fun F G h => by
  funext m args; simp only [opKeccak256, h]
theorem opCoinid_nmOnly : NmOnly opCoinid := fun F G h => by
  funext m args; simp only [opCoinid, h]
theorem opBlsMapToG1_nmOnly (H : Bytes → Bytes → Bls.G1) : NmOnly (opBlsMapToG1 H) := fun F G h => by
  funext m args; simp only [opBlsMapToG1, h]
theorem opBlsMapToG2_nmOnly (H : Bytes → Bytes → Bls.G2) : NmOnly (opBlsMapToG2 H) := fun F G h => by
  funext m args; simp only [opBlsMapToG2, h]
theorem opBlsPairingIdentity_nmOnly (A : List (Bls.G1 × Bls.G2) → Bool) : NmOnly (opBlsPairingIdentity A) :=
  fun F G h => by funext m args; simp only [opBlsPairingIdentity, h]
theorem opBlsVerify_nmOnly (A : Bls.G2 → List (Bls.G1 × Bytes) → Bool) : NmOnly (opBlsVerify A) :=
  fun F G h => by funext m args; simp only [opBlsVerify, h]

/-! ### `g1_negate` / `g2_negate`: only `RELAXED_BLS` -/

theorem opBlsG1Negate_rel {F G : Nat}
    (h : hasFlag F Gen.Crypto.flagRelaxedBls = hasFlag G Gen.Crypto.flagRelaxedBls) :
    opBlsG1Negate F = opBlsG1Negate G := by
  funext m args; simp only [opBlsG1Negate, h]

theorem opBlsG2Negate_rel {F G : Nat}
    (h : hasFlag F Gen.Crypto.flagRelaxedBls = hasFlag G Gen.Crypto.flagRelaxedBls) :
    opBlsG2Negate F = opBlsG2Negate G := by
  funext m args; simp only [opBlsG2Negate, h]

theorem opBlsG1Negate_restrict : TRestrict opBlsG1Negate := by
  intro F R m args r hR hh
  rw [← opBlsG1Negate_rel (cRelaxed_or_restr hR F)]; exact hh

theorem opBlsG2Negate_restrict : TRestrict opBlsG2Negate := by
  intro F R m args r hR hh
  rw [← opBlsG2Negate_rel (cRelaxed_or_restr hR F)]; exact hh

theorem opBlsG1Negate_relax : TRelax opBlsG1Negate := fun F m args r h =>
  Clvm.Props.C32.g1_negate_relaxed_superset F _ m args r (cRelaxed_or_relaxed F) h

theorem opBlsG2Negate_relax : TRelax opBlsG2Negate := fun F m args r h =>
  Clvm.Props.C32.g2_negate_relaxed_superset F _ m args r (cRelaxed_or_relaxed F) h

theorem opBlsG1Negate_modelIndep : TModelIndep opBlsG1Negate :=
  modelIndep_of_eq opBlsG1Negate_budget fun F => opBlsG1Negate_rel (cRelaxed_or_newModel F)

theorem opBlsG2Negate_modelIndep : TModelIndep opBlsG2Negate :=
  modelIndep_of_eq opBlsG2Negate_budget fun F => opBlsG2Negate_rel (cRelaxed_or_newModel F)

/-! ### `g1_multiply` / `g2_multiply`: `NEW_COST_MODEL` and `LIMITS` -/

theorem opBlsG1Multiply_view {F G : Nat} (h1 : newCostModel F = newCostModel G)
    (h2 : hasFlag F Gen.Crypto.flagLimits = hasFlag G Gen.Crypto.flagLimits) :
    opBlsG1Multiply F = opBlsG1Multiply G := by
  funext m args; simp only [opBlsG1Multiply, h1, h2]

theorem opBlsG2Multiply_view {F G : Nat} (h1 : newCostModel F = newCostModel G)
    (h2 : hasFlag F Gen.Crypto.flagLimits = hasFlag G Gen.Crypto.flagLimits) :
    opBlsG2Multiply F = opBlsG2Multiply G := by
  funext m args; simp only [opBlsG2Multiply, h1, h2]

/-- `LIMITS` only adds a failure -/
theorem opBlsG1Multiply_limits {F G : Nat} (h1 : newCostModel F = newCostModel G)
    (hF : hasFlag F Gen.Crypto.flagLimits = true) (hG : hasFlag G Gen.Crypto.flagLimits = false)
    {m : Nat} {args : Tree} {r : OpRes} (h : opBlsG1Multiply F m args = .ok r) :
    opBlsG1Multiply G m args = .ok r := by
  rcases getArgs2_cases args "g1_multiply" with ⟨a, b, t, rfl, hg⟩ | ⟨s, hg⟩
  · unfold opBlsG1Multiply at h ⊢
    rw [← h1]
    cases hnm : newCostModel F <;>
    · simp only [hg, hnm, hF, hG, ex_ok_bind, Bool.false_eq_true, ↓reduceIte, Bool.true_and, Bool.false_and,
        Bool.not_false, Bool.not_true, Bool.and_false] at h ⊢
      walk_ok h
      simp only [*, ex_ok_bind, ex_pure]
  · unfold opBlsG1Multiply at h; simp only [hg, ex_err_bind, reduceCtorEq] at h

theorem opBlsG2Multiply_limits {F G : Nat} (h1 : newCostModel F = newCostModel G)
    (hF : hasFlag F Gen.Crypto.flagLimits = true) (hG : hasFlag G Gen.Crypto.flagLimits = false)
    {m : Nat} {args : Tree} {r : OpRes} (h : opBlsG2Multiply F m args = .ok r) :
    opBlsG2Multiply G m args = .ok r := by
  rcases getArgs2_cases args "g2_multiply" with ⟨a, b, t, rfl, hg⟩ | ⟨s, hg⟩
  · unfold opBlsG2Multiply at h ⊢
    rw [← h1]
    cases hnm : newCostModel F <;>
    · simp only [hg, hnm, hF, hG, ex_ok_bind, Bool.false_eq_true, ↓reduceIte, Bool.true_and, Bool.false_and,
        Bool.not_false, Bool.not_true, Bool.and_false] at h ⊢
      walk_ok h
      simp only [*, ex_ok_bind, ex_pure]
  · unfold opBlsG2Multiply at h; simp only [hg, ex_err_bind, reduceCtorEq] at h

theorem opBlsG1Multiply_restrict : TRestrict opBlsG1Multiply := by
  intro F R m args r hR h
  have h1 := cNewCostModel_or_restr hR F
  cases hF : hasFlag F Gen.Crypto.flagLimits
  · cases hFR : hasFlag (F ||| R) Gen.Crypto.flagLimits
    · rw [← opBlsG1Multiply_view h1 (hFR.trans hF.symm)]; exact h
    · exact opBlsG1Multiply_limits h1 hFR hF h
  · rw [← opBlsG1Multiply_view h1 ((cLimits_or_mono F R hF).trans hF.symm)]; exact h

theorem opBlsG2Multiply_restrict : TRestrict opBlsG2Multiply := by
  intro F R m args r hR h
  have h1 := cNewCostModel_or_restr hR F
  cases hF : hasFlag F Gen.Crypto.flagLimits
  · cases hFR : hasFlag (F ||| R) Gen.Crypto.flagLimits
    · rw [← opBlsG2Multiply_view h1 (hFR.trans hF.symm)]; exact h
    · exact opBlsG2Multiply_limits h1 hFR hF h
  · rw [← opBlsG2Multiply_view h1 ((cLimits_or_mono F R hF).trans hF.symm)]; exact h

theorem opBlsG1Multiply_relax : TRelax opBlsG1Multiply := by
  intro F m args r h
  rw [opBlsG1Multiply_view (cNewCostModel_or_relaxed F) (cLimits_or_relaxed F)]; exact h

theorem opBlsG2Multiply_relax : TRelax opBlsG2Multiply := by
  intro F m args r h
  rw [opBlsG2Multiply_view (cNewCostModel_or_relaxed F) (cLimits_or_relaxed F)]; exact h

end Clvm.Crypto.Ops
