/-
C10: per-operator cost lemmas for the operators without an argument loop.
-/
import ClvmProofs.Lemmas.Interp.CostBasics

namespace Clvm.Interp
open Clvm Clvm.Alloc

theorem cost_opIf : CostOK opIf Spec.Cost.opIf := by
  intro flags m args c cost v c' _ h
  unfold opIf at h
  split at h
  · cases h
  · simp only [Except.ok.injEq, Prod.mk.injEq] at h
    obtain ⟨rfl, _, _⟩ := h
    simp only [Spec.Cost.opIf, Spec.Cost.NEW_IF_COST, Spec.Cost.IF_COST, Gen.NEW_IF_COST, Gen.IF_COST]

theorem cost_opCons : CostOK opCons Spec.Cost.opCons := by
  intro flags m args c cost v c' _ h
  unfold opCons at h
  split at h
  · cases h
  · split at h
    · cases h
    · simp only [Except.ok.injEq, Prod.mk.injEq] at h
      obtain ⟨rfl, _, _⟩ := h
      rfl

theorem cost_opFirst : CostOK opFirst Spec.Cost.opFirst := by
  intro flags m args c cost v c' _ h
  unfold opFirst at h
  split at h
  · cases h
  · split at h
    · cases h
    · simp only [Except.ok.injEq, Prod.mk.injEq] at h
      obtain ⟨rfl, _, _⟩ := h
      rfl

theorem cost_opRest : CostOK opRest Spec.Cost.opRest := by
  intro flags m args c cost v c' _ h
  unfold opRest at h
  split at h
  · cases h
  · split at h
    · cases h
    · simp only [Except.ok.injEq, Prod.mk.injEq] at h
      obtain ⟨rfl, _, _⟩ := h
      rfl

theorem cost_opListp : CostOK opListp Spec.Cost.opListp := by
  intro flags m args c cost v c' _ h
  unfold opListp at h
  split at h
  · cases h
  · simp only [Except.ok.injEq, Prod.mk.injEq] at h
    obtain ⟨rfl, _, _⟩ := h
    simp only [Spec.Cost.opListp, Spec.Cost.NEW_LISTP_COST, Spec.Cost.LISTP_COST, Gen.NEW_LISTP_COST, Gen.LISTP_COST]

/-- `x` never succeeds -/
theorem opRaise_never_ok (flags m : Nat) (args : Val) (c : Ctr) (r : Nat × Val × Ctr) :
    opRaise flags m args c ≠ .ok r := by
  simp [opRaise]

theorem cost_opNot : CostOK opNot Spec.Cost.opNot := by
  intro flags m args c cost v c' _ h
  unfold opNot at h
  split at h
  · cases h
  · simp only [Except.ok.injEq, Prod.mk.injEq] at h
    obtain ⟨rfl, _, _⟩ := h
    rfl

theorem sumLen_two (a b : Val) : Spec.Cost.sumLen [a, b] = Spec.Cost.len a + Spec.Cost.len b := by
  simp [Spec.Cost.sumLen, Spec.Cost.sum]
theorem sumLen_one (a : Val) : Spec.Cost.sumLen [a] = Spec.Cost.len a := by
  simp [Spec.Cost.sumLen, Spec.Cost.sum]

theorem cost_opEq : CostOK opEq Spec.Cost.opEq := by
  intro flags m args c cost v c' _ h
  unfold opEq at h
  split at h
  · cases h
  · rename_i s0 s1 hargs
    rw [getArgs2_ok _ _ _ _ hargs]
    split at h
    · cases h
    · cases h
    · simp only [Except.ok.injEq, Prod.mk.injEq] at h
      obtain ⟨rfl, _, _⟩ := h
      simp only [Spec.Cost.opEq, sumLen_two, Spec.Cost.len, Spec.Cost.EQ_BASE, Spec.Cost.EQ_PER_BYTE,
        Gen.EQ_BASE_COST, Gen.EQ_COST_PER_BYTE]
      omega

theorem atomBytes_ok (v : Val) (n : String) (b : Bytes) (h : atomBytes v n = .ok b) :
    b.length = Spec.Cost.len v := by
  cases v with
  | pair x y => simp [atomBytes] at h
  | atom b' t => simp only [atomBytes] at h; injection h with h; subst h; rfl

theorem atomLen_ok (v : Val) (n : String) (l : Nat) (h : atomLen v n = .ok l) :
    l = Spec.Cost.len v := by
  cases v with
  | pair x y => simp [atomLen] at h
  | atom b' t => simp only [atomLen] at h; injection h with h; subst h; rfl

theorem cost_opGrBytes : CostOK opGrBytes Spec.Cost.opGrBytes := by
  intro flags m args c cost v c' _ h
  unfold opGrBytes at h
  split at h
  · cases h
  · rename_i n0 n1 hargs
    rw [getArgs2_ok _ _ _ _ hargs]
    split at h
    · cases h
    · rename_i v0 h0
      split at h
      · cases h
      · rename_i v1 h1
        simp only [Except.ok.injEq, Prod.mk.injEq] at h
        obtain ⟨rfl, _, _⟩ := h
        simp only [Spec.Cost.opGrBytes, sumLen_two, ← atomBytes_ok _ _ _ h0, ← atomBytes_ok _ _ _ h1,
          Spec.Cost.GRS_BASE, Spec.Cost.GRS_PER_BYTE, Gen.GRS_BASE_COST, Gen.GRS_COST_PER_BYTE]
        omega

theorem cost_opStrlen : CostOK opStrlen Spec.Cost.opStrlen := by
  intro flags m args c cost v c' _ h
  unfold opStrlen at h
  split at h
  · cases h
  · rename_i n hargs
    rw [getArgs1_ok _ _ _ hargs]
    split at h
    · cases h
    · rename_i size hsize
      split at h
      · cases h
      · rename_i sizeNode c1 halloc
        simp only [Except.ok.injEq, Prod.mk.injEq] at h
        obtain ⟨rfl, rfl, _⟩ := h
        rw [allocNumber_ok _ _ _ _ halloc, mallocCost_mkAtom]
        simp only [Spec.Cost.opStrlen, sumLen_one, ← atomLen_ok _ _ _ hsize,
          Spec.Cost.STRLEN_BASE, Spec.Cost.STRLEN_PER_BYTE, Gen.STRLEN_BASE_COST, Gen.STRLEN_COST_PER_BYTE]
        omega

theorem cost_opSubstr : CostOK opSubstr Spec.Cost.opSubstr := by
  intro flags m args c cost v c' _ h
  unfold opSubstr at h
  split at h
  · cases h
  · simp only at h
    split at h
    · cases h
    · split at h
      · cases h
      · split at h
        · cases h
        · split at h
          · cases h
          · split at h
            · cases h
            · split at h
              · cases h
              · simp only [Except.ok.injEq, Prod.mk.injEq] at h
                obtain ⟨rfl, _, _⟩ := h
                simp only [Spec.Cost.opSubstr, Spec.Cost.NEW_SUBSTR_COST, Spec.Cost.SUBSTR_COST,
                  Gen.NEW_SUBSTR_COST]

theorem cost_opLognot : CostOK opLognot Spec.Cost.opLognot := by
  intro flags m args c cost v c' hwf h
  unfold opLognot at h
  split at h
  · cases h
  · rename_i n hargs
    have hl := getArgs1_ok _ _ _ hargs
    have hn : n.wf = true := wf_argList args hwf n (by rw [hl]; simp)
    rw [hl]
    split at h
    · cases h
    · rename_i i len hint
      simp only at h
      split at h
      · cases h
      · rename_i r c1 halloc
        simp only [Except.ok.injEq, Prod.mk.injEq] at h
        obtain ⟨rfl, rfl, _⟩ := h
        rw [allocNumber_ok _ _ _ _ halloc, mallocCost_mkAtom]
        simp only [Spec.Cost.opLognot, sumLen_one, ← (intAtom_ok _ _ _ _ hn hint).1,
          Spec.Cost.LOGNOT_BASE, Spec.Cost.LOGNOT_PER_BYTE, Gen.LOGNOT_BASE_COST, Gen.LOGNOT_COST_PER_BYTE]
        omega

/-! ### `>` -/

theorem smallNumber_len (v : Val) (n : Nat) (hwf : v.wf = true) (h : smallNumber v = some n) :
    lenForValue n = Spec.Cost.len v := by
  cases v with
  | pair x y => simp [smallNumber] at h
  | atom b t =>
    cases t with
    | true =>
      simp only [smallNumber] at h
      injection h with h; subst h
      exact (inline_facts b hwf).1
    | false =>
      simp only [smallNumber] at h
      obtain ⟨hcanon, hdec, hlt, _⟩ := (fitsInSmallAtom_core b n).mp h
      have hb : b = encodeInt (n : Int) := by rw [← hdec, encodeInt_decodeInt b hcanon]
      simp only [Spec.Cost.len]
      rw [lenForValue_enc n (by omega), ← hb]

theorem cost_opGr (cfg : Cfg) : CostOK (opGr cfg) Spec.Cost.opGr := by
  intro flags m args c cost v c' hwf h
  unfold opGr at h
  split at h
  · cases h
  · rename_i v0 v1 hargs
    have hl := getArgs2_ok _ _ _ _ hargs
    have h0 : v0.wf = true := wf_argList args hwf v0 (by rw [hl]; simp)
    have h1 : v1.wf = true := wf_argList args hwf v1 (by rw [hl]; simp)
    rw [hl]
    simp only [Spec.Cost.opGr, sumLen_two, Spec.Cost.NEW_GR_BASE, Spec.Cost.NEW_GR_PER_BYTE,
      Spec.Cost.GR_BASE, Spec.Cost.GR_PER_BYTE]
    cases hnm : newModel flags <;> simp only [hnm, Bool.false_eq_true, if_false, if_true] at h ⊢
    all_goals
      split at h
      · rename_i r hfast
        split at hfast
        · split at hfast
          · rename_i lhs rhs hs0 hs1
            injection hfast with hfast; subst hfast
            simp only [Except.ok.injEq, Prod.mk.injEq] at h
            obtain ⟨rfl, _, _⟩ := h
            rw [smallNumber_len v0 lhs h0 hs0, smallNumber_len v1 rhs h1 hs1]
            simp only [Gen.GR_BASE_COST, Gen.GR_COST_PER_BYTE, Gen.NEW_GR_BASE_COST, Gen.NEW_GR_COST_PER_BYTE]
            omega
          · cases hfast
        · cases hfast
      · split at h
        · cases h
        · rename_i n0 l0 hi0
          split at h
          · cases h
          · rename_i n1 l1 hi1
            simp only [Except.ok.injEq, Prod.mk.injEq] at h
            obtain ⟨rfl, _, _⟩ := h
            rw [(intAtom_ok _ _ _ _ h0 hi0).1, (intAtom_ok _ _ _ _ h1 hi1).1]
            simp only [Gen.GR_BASE_COST, Gen.GR_COST_PER_BYTE, Gen.NEW_GR_BASE_COST, Gen.NEW_GR_COST_PER_BYTE]
            omega

end Clvm.Interp
