/-
C31 at program level: the net effect of a completed `(softfork cost ext prog env)`.

`guard_program_complete`: take the `Apply` step on the softfork keyword whose arguments parse (known
extension), and let the loop run until the operations pushed by this step (`ExitGuard` and everything the
guarded program pushes) have been consumed.  Whatever happened inside — allocations, nested guards,
any number of steps — the state is then the state before the step with the two operands and the
environment popped and **nil** pushed; atom / pair / heap counts are exactly those at guard entry; and
unless the extension is cost-exempt the cost consumed is exactly the declared cost.
Uses the well-bracketing theorem `runTo_bracket` of `BigStep.lean`.
-/
import ClvmProofs.Lemmas.Interp.BigStep

namespace Clvm.Interp
open Clvm Clvm.Alloc

theorem runTo_succ (cfg : Cfg) (d : Dialect) (mc L fuel : Nat) (s : MState) (cost : Nat) :
    runTo cfg d mc L (fuel + 1) s cost =
      if s.opStack.length ≤ L then some (.ok (cost, s, fuel + 1))
      else if cost > effMax mc s then some (.error (.err .CostExceeded))
      else
        match s.opStack with
        | [] => some (.ok (cost, s, fuel + 1))
        | op :: ops =>
          match stepOp cfg d { s with opStack := ops } op cost (effMax mc s) with
          | .error e => some (.error e)
          | .ok (c, s') => runTo cfg d mc L fuel s' (cost + c) := rfl

/-- stopping at a lower level factors through stopping at a higher level -/
theorem runTo_split (cfg : Cfg) (d : Dialect) (mc : Nat) {L L' : Nat} (hL : L ≤ L') (fuel : Nat) :
    ∀ (s : MState) (cost : Nat),
      runTo cfg d mc L fuel s cost =
        match runTo cfg d mc L' fuel s cost with
        | none => none
        | some (.error e) => some (.error e)
        | some (.ok (cost', s', fuel')) => runTo cfg d mc L fuel' s' cost' := by
  induction fuel with
  | zero => intro s cost; rfl
  | succ n ih =>
    intro s cost
    by_cases hl' : s.opStack.length ≤ L'
    · have : runTo cfg d mc L' (n + 1) s cost = some (.ok (cost, s, n + 1)) := by
        rw [runTo_succ]; simp only [hl', if_true]
      rw [this]
    · have hl : ¬ s.opStack.length ≤ L := by omega
      rw [runTo_succ, runTo_succ]
      simp only [hl, hl', if_false]
      by_cases hc : cost > effMax mc s
      · simp only [hc, if_true]
      · simp only [hc, if_false]
        cases hop : s.opStack with
        | nil => rw [hop] at hl; simp at hl
        | cons op ops =>
          simp only
          cases hst : stepOp cfg d { s with opStack := ops } op cost (effMax mc s) with
          | error e => rfl
          | ok r =>
            obtain ⟨c, s'⟩ := r
            exact ih s' (cost + c)

/-- inversion of a successful `exit_guard` -/
theorem bs_exitGuard_ok {s s' : MState} {cost c : Nat} {g : SoftforkGuard} {rest : List SoftforkGuard} {v : Val}
    {vs : List Val} (h : exitGuard s cost = .ok (c, s')) (hsf : s.softforkStack = g :: rest)
    (hv : s.valStack = v :: vs) :
    c = 0 ∧
    s' = { s with softforkStack := rest, ctr := { g.allocatorState with heapLimit := s.ctr.heapLimit },
                  valStack := Val.nil :: vs, valLen := s.valLen - 1 + 1 } ∧
    (g.costExempt = false → cost = g.expectedCost) ∧ s.valLen - 1 ≠ Gen.STACK_SIZE_LIMIT := by
  unfold exitGuard at h
  rw [hsf] at h
  simp only at h
  split at h
  · cases h
  · rename_i hc
    rw [hv] at h
    simp only at h
    obtain ⟨s1, h1, h⟩ := M_bind_ok h
    obtain ⟨hpush, rfl⟩ := bs_push_ok_iff.1 h1
    have := M_pure_ok h
    simp only [Prod.mk.injEq] at this
    obtain ⟨rfl, rfl⟩ := this
    refine ⟨rfl, rfl, ?_, hpush⟩
    intro hex
    simp only [hex, Bool.not_false, Bool.true_and, bne_iff_ne, ne_eq, Decidable.not_not] at hc
    exact hc

/-- **A completed guard at program level.** -/
theorem guard_program_complete {cfg : Cfg} {d : Dialect} {mc : Nat} {s0 s1 s' : MState}
    {operandList operator : Val} {W : List Val} {e0 : Val} {E : List Val} {cost m c : Nat}
    {ext : OperatorSet} {prg env : Val} {fuel cost' fuel' : Nat}
    (hv : s0.valStack = operandList :: operator :: W) (he : s0.envStack = e0 :: E)
    (hna : smallNumber operator ≠ some d.applyKw) (hsk : smallNumber operator = some d.softforkKw)
    (hparse : parseSoftforkArguments d operandList = .ok (ext, prg, env))
    (hstep : applyOp cfg d s0 cost m = .ok (c, s1))
    (hrun : runTo cfg d mc s0.opStack.length fuel s1 (cost + c) = some (.ok (cost', s', fuel'))) :
    ∃ f declared, first operandList = .ok f ∧ uintAtom 8 f "softfork" d.flags = .ok declared ∧
      s' = { s0 with valStack := Val.nil :: W, valLen := s0.valLen - 1 - 1 + 1, envStack := E,
                     envLen := s0.envLen - 1, ctr := s'.ctr } ∧
      s'.ctr.atoms = s0.ctr.atoms ∧ s'.ctr.pairs = s0.ctr.pairs ∧ s'.ctr.heap = s0.ctr.heap ∧
      (ext ≠ .PreHardFork → cost' = cost + declared) ∧ s0.valLen - 1 - 1 ≠ Gen.STACK_SIZE_LIMIT := by
  unfold applyOp at hstep
  obtain ⟨⟨v1, sp1⟩, h1, hstep⟩ := M_bind_ok hstep
  obtain ⟨r1, hr1, rfl⟩ := bs_pop_ok_iff.1 h1
  obtain ⟨⟨v2, sp2⟩, h2, hstep⟩ := M_bind_ok hstep
  obtain ⟨r2, hr2, rfl⟩ := bs_pop_ok_iff.1 h2
  simp only at hstep hr2
  rw [hv] at hr1
  simp only [List.cons.injEq] at hr1
  obtain ⟨rfl, rfl⟩ := hr1
  simp only [List.cons.injEq] at hr2
  obtain ⟨rfl, rfl⟩ := hr2
  rw [he] at hstep
  simp only at hstep
  have hna' : (smallNumber operator == some d.applyKw) = false := by simpa using hna
  have hsk' : (smallNumber operator == some d.softforkKw) = true := by simp [hsk]
  simp only [hna', hsk', Bool.false_eq_true, if_false, if_true] at hstep
  obtain ⟨f, hf, hstep⟩ := M_bind_ok hstep
  obtain ⟨declared, hu, hstep⟩ := M_bind_ok hstep
  have hf' := liftE_ok hf
  have hu' := liftE_ok hu
  split at hstep
  · cases hstep
  split at hstep
  · cases hstep
  split at hstep
  · rename_i err heq
    rw [hparse] at heq
    cases heq
  rename_i ext' prg' env' heq
  rw [hparse] at heq
  simp only [Except.ok.injEq, Prod.mk.injEq] at heq
  obtain ⟨rfl, rfl, rfl⟩ := heq
  split at hstep
  · cases hstep
  -- the guard is entered
  obtain ⟨⟨k, sE⟩, hev, hstep⟩ := M_bind_ok hstep
  have := M_pure_ok hstep
  simp only [Prod.mk.injEq] at this
  obtain ⟨rfl, rfl⟩ := this
  -- split the run at the level of the `ExitGuard` operation
  have hsplit := runTo_split cfg d mc (Nat.le_succ s0.opStack.length) fuel sE
    (cost + (k + if hasFlag d.flags Gen.FLAG_NEW_COST_MODEL then Gen.NEW_GUARD_COST else Gen.GUARD_COST))
  rw [hrun] at hsplit
  cases hr1 : runTo cfg d mc (s0.opStack.length + 1) fuel sE
      (cost + (k + if hasFlag d.flags Gen.FLAG_NEW_COST_MODEL then Gen.NEW_GUARD_COST else Gen.GUARD_COST)) with
  | none => rw [hr1] at hsplit; cases hsplit
  | some x =>
    cases x with
    | error e => rw [hr1] at hsplit; cases hsplit
    | ok q =>
      obtain ⟨cost1, sB, fuel1⟩ := q
      rw [hr1] at hsplit
      simp only at hsplit
      -- well-bracketing: one value on top of the entry state of the guard
      obtain ⟨v, hsB⟩ := runTo_bracket hev (by simpa [MState.pushOp] using hr1)
      -- the remaining iteration is `ExitGuard`
      cases fuel1 with
      | zero => simp [runTo] at hsplit
      | succ n1 =>
        rw [runTo_succ] at hsplit
        have hopB : sB.opStack = .ExitGuard :: s0.opStack := by rw [hsB]; rfl
        have hlen : ¬ sB.opStack.length ≤ s0.opStack.length := by
          rw [hopB]; simp
        simp only [hlen, if_false] at hsplit
        by_cases hc : cost1 > effMax mc sB
        · simp [hc] at hsplit
        · simp only [hc, if_false] at hsplit
          rw [hopB] at hsplit
          simp only [stepOp] at hsplit
          cases hex : exitGuard { sB with opStack := s0.opStack } cost1 with
          | error e => rw [hex] at hsplit; cases hsplit
          | ok r2 =>
            obtain ⟨c2, sX⟩ := r2
            rw [hex] at hsplit
            simp only at hsplit
            have hsfB : ∃ g : SoftforkGuard,
                ({ sB with opStack := s0.opStack } : MState).softforkStack = g :: s0.softforkStack ∧
                g.allocatorState = s0.ctr ∧ g.operatorSet = ext ∧
                (ext ≠ .PreHardFork → g.expectedCost = cost + declared) := by
              rw [hsB]
              refine ⟨_, rfl, rfl, rfl, fun hne => ?_⟩
              have hne' : (ext == OperatorSet.PreHardFork) = false := by simpa using hne
              simp only [hne', Bool.false_eq_true, if_false]
            obtain ⟨g, hsfB, hg1, hg2, hg3⟩ := hsfB
            have hvB : ({ sB with opStack := s0.opStack } : MState).valStack = v :: W := by
              rw [hsB]; rfl
            obtain ⟨rfl, hsX, hcost, hpushX⟩ := bs_exitGuard_ok hex hsfB hvB
            -- `runTo` stops at once: the operation stack is back
            cases n1 with
            | zero => simp [runTo] at hsplit
            | succ n2 =>
              rw [runTo_succ] at hsplit
              have hlenX : sX.opStack.length ≤ s0.opStack.length := by rw [hsX]; simp
              simp only [hlenX, if_true, Option.some.injEq, Except.ok.injEq, Prod.mk.injEq] at hsplit
              obtain ⟨rfl, rfl, _⟩ := hsplit
              refine ⟨f, declared, hf', hu', ?_, ?_, ?_, ?_, ?_, ?_⟩
              rotate_left 5
              · rw [hsB] at hpushX
                simp only [MState.pushOp] at hpushX
                omega
              · rw [hsX, hsB]
                apply MState.ext8 <;> first | rfl | (simp only [MState.pushOp]; omega)
              · rw [hsX]; simp only [hg1]
              · rw [hsX]; simp only [hg1]
              · rw [hsX]; simp only [hg1]
              · intro hne
                have hne' : (ext == OperatorSet.PreHardFork) = false := by simpa using hne
                have := hcost (by simp [SoftforkGuard.costExempt, hg2, hne'])
                rw [hg3 hne] at this
                omega

/-- … and inside a successful run: a run that succeeds after entering a guard passes through the point
where the guard has completed, and continues from there -/
theorem guard_program_in_run {cfg : Cfg} {d : Dialect} {mc : Nat} {s0 s1 : MState}
    {operandList operator : Val} {W : List Val} {e0 : Val} {E : List Val} {cost m c : Nat}
    {ext : OperatorSet} {prg env : Val} {fuel : Nat} {r : Nat × MState}
    (hv : s0.valStack = operandList :: operator :: W) (he : s0.envStack = e0 :: E)
    (hna : smallNumber operator ≠ some d.applyKw) (hsk : smallNumber operator = some d.softforkKw)
    (hparse : parseSoftforkArguments d operandList = .ok (ext, prg, env))
    (hstep : applyOp cfg d s0 cost m = .ok (c, s1))
    (hrun : runLoop cfg d mc fuel s1 (cost + c) = some (.ok r)) :
    ∃ f declared cost' s' fuel', first operandList = .ok f ∧ uintAtom 8 f "softfork" d.flags = .ok declared ∧
      s' = { s0 with valStack := Val.nil :: W, valLen := s0.valLen - 1 - 1 + 1, envStack := E,
                     envLen := s0.envLen - 1, ctr := s'.ctr } ∧
      s'.ctr.atoms = s0.ctr.atoms ∧ s'.ctr.pairs = s0.ctr.pairs ∧ s'.ctr.heap = s0.ctr.heap ∧
      (ext ≠ .PreHardFork → cost' = cost + declared) ∧ s0.valLen - 1 - 1 ≠ Gen.STACK_SIZE_LIMIT ∧
      fuel' ≤ fuel ∧ runLoop cfg d mc fuel' s' cost' = some (.ok r) := by
  obtain ⟨cost', s', fuel', hto, hrest, hle, _⟩ := runTo_of_runLoop_ok (L := s0.opStack.length) hrun
  obtain ⟨f, declared, h1, h2, h3, h4, h5, h6, h7, h8⟩ :=
    guard_program_complete hv he hna hsk hparse hstep hto
  exact ⟨f, declared, cost', s', fuel', h1, h2, h3, h4, h5, h6, h7, h8, hle, hrest⟩

end Clvm.Interp
