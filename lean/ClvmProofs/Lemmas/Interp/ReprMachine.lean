/-
C03 (representation independence), machine level: a lock-step simulation of two runs of
`run_program` on erase-equal well-formed programs and environments.

The simulation relation `StateEraseEq` keeps the two machine states equal except for the
representation tags of the atoms on the value and environment stacks.  It is preserved by every
step as long as each operator call made by the two runs is related by `ResEraseEq true` (cost,
erased value, *all* counters) — which `Repr.lean` proves for every core operator except inside the
defect region of `op_substr` (DESIGN §6-C).  The region is excluded by a guard: `Dialect.guard G`
answers "unsupported" for the calls selected by `G`, and the theorem speaks about two guarded runs
that both produce an answer.
-/
import ClvmProofs.Lemmas.Interp.Repr
import ClvmProofs.Lemmas.Interp.MachineBase
import ClvmProofs.Lemmas.Interp.LiftShape
import ClvmModel.Interp.CryptoOps
import ClvmProofs.Lemmas.TreeHash

namespace Clvm.Interp
open Clvm Clvm.Alloc

/-! ### outcomes of machine steps -/

/-- related outcomes in the machine monad; a run that stopped at a guarded (unsupported) call is
related to anything -/
inductive MR {α : Type} (R : α → α → Prop) : M α → M α → Prop where
  | ok {a a' : α} (h : R a a') : MR R (.ok a) (.ok a')
  | err {e e' : Err} (h : e.kind = e'.kind) : MR R (.error (.err e)) (.error (.err e'))
  | unsupL {y : M α} : MR R (.error .unsupported) y
  | unsupR {x : M α} : MR R x (.error .unsupported)

theorem MR.bind {α β : Type} {R : α → α → Prop} {S : β → β → Prop} {x x' : M α} {f f' : α → M β}
    (hx : MR R x x') (hf : ∀ a a', R a a' → MR S (f a) (f' a')) : MR S (x >>= f) (x' >>= f') := by
  cases hx with
  | ok h => exact hf _ _ h
  | err h => exact .err h
  | unsupL => exact .unsupL
  | unsupR => exact .unsupR

theorem MR.pure {α : Type} {R : α → α → Prop} {a a' : α} (h : R a a') : MR R (pure a : M α) (pure a') := .ok h

theorem MR.same_err {α : Type} {R : α → α → Prop} (e : Err) : MR R (.error (.err e)) (.error (.err e)) := .err rfl

theorem MR.liftE {α : Type} {R : α → α → Prop} {x x' : Except Err α} (h : ArgsRel R x x') :
    MR R (liftE x) (liftE x') := by
  cases h with
  | err e => exact .err rfl
  | ok x x' h => exact .ok h

/-! ### the simulation relation -/

/-- the operation stack without its `RestoreAllocator` entries.  `gc_candidate` looks at the
representation of the operator atom (`NodeVisitor::U32` only), so under ENABLE_GC the two runs may
push such entries at different places; in the machine model a `RestoreAllocator` step changes
nothing but the operation stack and the checkpoint count. -/
def stripOps : List Operation → List Operation
  | [] => []
  | .RestoreAllocator :: ops => stripOps ops
  | .Apply :: ops => .Apply :: stripOps ops
  | .Cons :: ops => .Cons :: stripOps ops
  | .ExitGuard :: ops => .ExitGuard :: stripOps ops
  | .SwapEval :: ops => .SwapEval :: stripOps ops

theorem stripOps_cons_congr (o : Operation) {l l' : List Operation} (h : stripOps l = stripOps l') :
    stripOps (o :: l) = stripOps (o :: l') := by
  cases o <;> simp only [stripOps, h]

/-- the two states differ only in the representation tags of the (well-formed) values on the
value and environment stacks, and in the positions of pending `RestoreAllocator` operations -/
structure StateEraseEq (s s' : MState) : Prop where
  val : ListReq s.valStack s'.valStack
  env : ListReq s.envStack s'.envStack
  valLen : s.valLen = s'.valLen
  envLen : s.envLen = s'.envLen
  ops : stripOps s.opStack = stripOps s'.opStack
  guards : s.softforkStack = s'.softforkStack
  ctr : s.ctr = s'.ctr

/-- a step result: same cost, related states -/
def StepRel (r r' : Nat × MState) : Prop := r.1 = r'.1 ∧ StateEraseEq r.2 r'.2

theorem pop_rel {s s' : MState} (h : StateEraseEq s s') :
    MR (fun r r' => Req r.1 r'.1 ∧ StateEraseEq r.2 r'.2) s.pop s'.pop := by
  unfold MState.pop
  have h1 := h.val
  generalize hs : s.valStack = vs at h1 ⊢
  generalize hs' : s'.valStack = vs' at h1 ⊢
  cases h1 with
  | nil => exact .err rfl
  | cons hx ht =>
    exact .ok ⟨hx, ⟨ht, h.env, by simp [h.valLen], h.envLen, h.ops, h.guards, h.ctr⟩⟩

theorem push_rel {s s' : MState} (h : StateEraseEq s s') {v v' : Val} (hv : Req v v') :
    MR StateEraseEq (s.push v) (s'.push v') := by
  unfold MState.push
  rw [h.valLen]
  split
  · exact .err rfl
  · exact .ok ⟨.cons hv h.val, h.env, by simp, h.envLen, h.ops, h.guards, h.ctr⟩

theorem pushEnv_rel {s s' : MState} (h : StateEraseEq s s') {v v' : Val} (hv : Req v v') :
    MR StateEraseEq (s.pushEnv v) (s'.pushEnv v') := by
  unfold MState.pushEnv
  rw [h.envLen]
  split
  · exact .err rfl
  · exact .ok ⟨h.val, .cons hv h.env, h.valLen, by simp, h.ops, h.guards, h.ctr⟩

theorem pushOp_rel {s s' : MState} (h : StateEraseEq s s') (o : Operation) :
    StateEraseEq (s.pushOp o) (s'.pushOp o) :=
  ⟨h.val, h.env, h.valLen, h.envLen, stripOps_cons_congr o h.ops, h.guards, h.ctr⟩

theorem consOp_rel {s s' : MState} (h : StateEraseEq s s') : MR StepRel (consOp s) (consOp s') := by
  unfold consOp
  refine (pop_rel h).bind ?_
  intro ⟨v1, s1⟩ ⟨v1', s1'⟩ ⟨hv1, hs1⟩
  refine (pop_rel hs1).bind ?_
  intro ⟨v2, s2⟩ ⟨v2', s2'⟩ ⟨hv2, hs2⟩
  simp only at hv1 hs1 hv2 hs2 ⊢
  rw [hs2.ctr]
  unfold allocPair
  cases s2'.ctr.newPair with
  | error e => exact .err rfl
  | ok c' =>
    refine MR.bind (R := StateEraseEq) ?_ ?_
    · exact push_rel (s := { s2 with ctr := c' }) (s' := { s2' with ctr := c' })
        ⟨hs2.val, hs2.env, hs2.valLen, hs2.envLen, hs2.ops, hs2.guards, rfl⟩ (hv1.pair hv2)
    · intro a a' ha; exact .ok ⟨rfl, ha⟩

/-! ### traversal -/

theorem walk_req (bits : List Bool) {v v' : Val} (h : Req v v') (cost : Nat) :
    ArgsRel (fun r r' => r.1 = r'.1 ∧ Req r.2 r'.2) (walk bits v cost) (walk bits v' cost) := by
  induction bits generalizing v v' cost with
  | nil => exact .ok _ _ ⟨rfl, h⟩
  | cons bit bits ih =>
    cases h.cases with
    | atom b t t' _ _ => exact .err _
    | pair l r l' r' hl hr =>
      simp only [walk]
      cases bit
      · exact ih hl _
      · exact ih hr _

theorem traversePath_req (b : Bytes) {env env' : Val} (h : Req env env') :
    ArgsRel (fun r r' => r.1 = r'.1 ∧ Req r.2 r'.2) (traversePath b env) (traversePath b env') := by
  unfold traversePath
  simp only []
  split
  · exact .ok _ _ ⟨rfl, Req.nil⟩
  · exact walk_req _ h _

/-! ### the dialect -/

/-- outcomes of one operator call in the two runs: equal cost, erase-equal well-formed values, equal
counters (heap included), or the same kind of error; a guarded call is related to anything -/
def OpCallRel : Option OpRes → Option OpRes → Prop
  | none, _ => True
  | _, none => True
  | some (.error e), some (.error e') => e.kind = e'.kind
  | some (.ok (k, v, c)), some (.ok (k', v', c')) => k = k' ∧ Req v v' ∧ c = c'
  | _, _ => False

/-- what the simulation needs from a dialect -/
structure DialectRepr (d : Dialect) : Prop where
  op : ∀ o o' args args' m ext c, Req o o' → Req args args' →
    OpCallRel (d.op o args m ext c) (d.op o' args' m ext c)

/-! ### `eval_pair` -/

theorem pushOperands_rel {v v' : Val} (hv : Req v v') {s s' : MState} (h : StateEraseEq s s') :
    MR (fun r r' => Req r.1 r'.1 ∧ StateEraseEq r.2 r'.2) (pushOperands v s) (pushOperands v' s') := by
  induction v generalizing v' s s' with
  | atom b t =>
    cases hv.cases with
    | atom _ _ t' _ _ => exact .ok ⟨hv, h⟩
  | pair f r _ ihr =>
    cases hv.cases with
    | pair _ _ f' r' hf hr =>
      simp only [pushOperands]
      refine (push_rel (pushOp_rel h .SwapEval) hf).bind ?_
      intro a a' ha
      exact ihr hr ha

theorem evalOpAtom_rel {d : Dialect} (hd : DialectRepr d) {s s' : MState} (h : StateEraseEq s s')
    {o o' l l' env env' : Val} (ho : Req o o') (hl : Req l l') (he : Req env env') :
    MR StepRel (evalOpAtom d s o l env) (evalOpAtom d s' o' l' env') := by
  unfold evalOpAtom
  rw [smallNumber_req ho]
  split
  · refine (push_rel h hl).bind ?_
    intro a a' ha; exact .ok ⟨rfl, ha⟩
  · have hs1 : StateEraseEq
        (if d.gcCandidate o = true then
          ({ s with allocatorStack := s.allocatorStack + 1 }.pushOp .RestoreAllocator) else s)
        (if d.gcCandidate o' = true then
          ({ s' with allocatorStack := s'.allocatorStack + 1 }.pushOp .RestoreAllocator) else s') := by
      split <;> split <;>
        exact ⟨h.val, h.env, h.valLen, h.envLen, h.ops, h.guards, h.ctr⟩
    refine (pushEnv_rel hs1 he).bind ?_
    intro a a' ha
    refine (push_rel (pushOp_rel ha .Apply) ho).bind ?_
    intro a1 a1' ha1
    refine (pushOperands_rel hl ha1).bind ?_
    intro ⟨t, s2⟩ ⟨t', s2'⟩ ⟨ht, hs2⟩
    simp only at ht hs2 ⊢
    cases ht.cases with
    | pair _ _ _ _ _ _ => exact .err rfl
    | atom b _ _ _ _ =>
      simp only []
      split
      · exact .err rfl
      · refine (push_rel hs2 Req.nil).bind ?_
        intro a2 a2' ha2; exact .ok ⟨rfl, ha2⟩

theorem evalPair_rel (cfg : Cfg) {d : Dialect} (hd : DialectRepr d) {s s' : MState} (h : StateEraseEq s s')
    {p p' env env' : Val} (hp : Req p p') (he : Req env env') :
    MR StepRel (evalPair cfg d s p env) (evalPair cfg d s' p' env') := by
  have key : MR StepRel (evalPair { fastpath := false } d s p env) (evalPair { fastpath := false } d s' p' env') := by
    cases hp.cases with
    | atom b t t' _ _ =>
      simp only [evalPair, Bool.false_eq_true, if_false]
      refine (MR.liftE (traversePath_req b he)).bind ?_
      intro r r' ⟨hr1, hr2⟩
      refine (push_rel h hr2).bind ?_
      intro a a' ha
      exact .ok ⟨hr1, ha⟩
    | pair o l o' l' ho hl =>
      cases ho.cases with
      | atom b t t' _ _ => exact evalOpAtom_rel hd h ho hl he
      | pair no x no' x' hno hx =>
        simp only [evalPair]
        refine (MR.liftE (getArgs1_req ho _)).bind ?_
        intro inner inner' hin
        rw [isPair_req hin]
        split
        · exact .err rfl
        · refine (pushEnv_rel h he).bind ?_
          intro a a' ha
          refine (push_rel ha hno).bind ?_
          intro a1 a1' ha1
          refine (push_rel ha1 hl).bind ?_
          intro a2 a2' ha2
          exact .ok ⟨rfl, pushOp_rel ha2 _⟩
  obtain ⟨fp⟩ := cfg
  cases fp
  · exact key
  · rw [evalPair_fastpath d s p env hp.1, evalPair_fastpath d s' p' env' hp.2.1]; exact key

theorem swapEvalOp_rel (cfg : Cfg) {d : Dialect} (hd : DialectRepr d) {s s' : MState} (h : StateEraseEq s s') :
    MR StepRel (swapEvalOp cfg d s) (swapEvalOp cfg d s') := by
  unfold swapEvalOp
  refine (pop_rel h).bind ?_
  intro ⟨v2, s1⟩ ⟨v2', s1'⟩ ⟨hv2, hs1⟩
  refine (pop_rel hs1).bind ?_
  intro ⟨p, s2⟩ ⟨p', s2'⟩ ⟨hp, hs2⟩
  simp only at hv2 hs1 hp hs2 ⊢
  have he := hs2.env
  generalize hes : s2.envStack = es at he ⊢
  generalize hes' : s2'.envStack = es' at he ⊢
  cases he with
  | nil => exact .err rfl
  | cons henv _ =>
    simp only []
    refine (push_rel hs2 hv2).bind ?_
    intro a a' ha
    exact evalPair_rel cfg hd (pushOp_rel ha .Cons) hp henv

/-! ### `apply_op` -/

theorem ArgsRel.of_eq {α : Type} {x x' : Except Err α} (h : x = x') : ArgsRel Eq x x' := by
  subst h
  cases x with
  | error e => exact .err e
  | ok a => exact .ok a a rfl

theorem parseSoftforkArguments_req (d : Dialect) {a a' : Val} (h : Req a a') :
    ArgsRel (fun p p' => p.1 = p'.1 ∧ Req p.2.1 p'.2.1 ∧ Req p.2.2 p'.2.2)
      (parseSoftforkArguments d a) (parseSoftforkArguments d a') := by
  unfold parseSoftforkArguments
  rcases (getArgs4_req h "softfork").cases' with ⟨e, h1, h2⟩ | ⟨⟨x, y, z, w⟩, ⟨x', y', z', w'⟩, h1, h2, hx, hy, hz, hw⟩
  · rw [h1, h2]; exact .err e
  · rw [h1, h2]
    simp only [uintAtom_req 4 (Nat.le_refl 4) hy]
    cases uintAtom 4 y' "softfork" d.flags with
    | error e => exact .err e
    | ok ext =>
      simp only []
      split
      · exact .err _
      · exact .ok _ _ ⟨rfl, hz, hw⟩

/-- `apply_op` after the three pops (`s` is the state with the environment already popped) -/
def applyOpBody (cfg : Cfg) (d : Dialect) (s : MState) (operator operandList : Val) (currentCost maxCost : Nat) :
    M (Nat × MState) :=
    let opAtom := smallNumber operator
    if opAtom == some d.applyKw then do
      let (newOperator, env) ← liftE (getArgs2 operandList "apply")
      let (c, s) ← evalPair cfg d s newOperator env
      pure (c + Gen.APPLY_COST, s)
    else if opAtom == some d.softforkKw then do
      let f ← liftE (first operandList)
      let expectedCost ← liftE (uintAtom 8 f "softfork" d.flags)
      if expectedCost > maxCost then .error (.err .CostExceeded)
      else if expectedCost == 0 then .error (.err .CostExceeded)
      else
        match parseSoftforkArguments d operandList with
        | .error err =>
          if d.allowUnknownOps then do
            let s ← s.push Val.nil
            pure (expectedCost, s)
          else .error (.err err)
        | .ok (ext, prg, env) =>
          if hasFlag d.flags Gen.FLAG_LIMIT_SOFTFORK && s.softforkStack.length ≥ Gen.softforkNestingLimit then
            .error (.err .SoftforkStackDepthExceeded)
          else do
            let expected :=
              if ext == .PreHardFork then
                match s.softforkStack with
                | sf :: _ => sf.expectedCost
                | [] => currentCost + maxCost
              else currentCost + expectedCost
            let g : SoftforkGuard := { expectedCost := expected, allocatorState := s.ctr, operatorSet := ext }
            let s := { s with softforkStack := g :: s.softforkStack }.pushOp .ExitGuard
            let guardCost := if hasFlag d.flags Gen.FLAG_NEW_COST_MODEL then Gen.NEW_GUARD_COST else Gen.GUARD_COST
            let (c, s) ← evalPair cfg d s prg env
            pure (c + guardCost, s)
    else
      let currentExtensions := match s.softforkStack with
        | sf :: _ => sf.operatorSet
        | [] => .Default
      match d.op operator operandList maxCost currentExtensions s.ctr with
      | none => .error .unsupported
      | some (.error e) => .error (.err e)
      | some (.ok (cost, v, c)) => do
        let s ← { s with ctr := c }.push v
        pure (cost, s)

theorem applyOp_eq_repr (cfg : Cfg) (d : Dialect) (s : MState) (currentCost maxCost : Nat) :
    applyOp cfg d s currentCost maxCost = (do
      let (operandList, s) ← s.pop
      let (operator, s) ← s.pop
      match s.envStack with
      | [] => .error (.err (.InternalError "environment stack empty"))
      | _ :: envs =>
        applyOpBody cfg d { s with envStack := envs, envLen := s.envLen - 1 } operator operandList
          currentCost maxCost) := rfl

theorem applyOpBody_rel (cfg : Cfg) {d : Dialect} (hd : DialectRepr d) {t t' : MState} (hs3 : StateEraseEq t t')
    {o o' ol ol' : Val} (ho : Req o o') (hol : Req ol ol') (currentCost maxCost : Nat) :
    MR StepRel (applyOpBody cfg d t o ol currentCost maxCost) (applyOpBody cfg d t' o' ol' currentCost maxCost) := by
  unfold applyOpBody
  simp only []
  rw [smallNumber_req ho]
  split
  · -- apply
    refine (MR.liftE (getArgs2_req hol "apply")).bind ?_
    intro ⟨no, env⟩ ⟨no', env'⟩ ⟨hno, henv⟩
    refine (evalPair_rel cfg hd hs3 hno henv).bind ?_
    intro ⟨c, u⟩ ⟨c', u'⟩ ⟨hc, hu⟩
    simp only at hc hu ⊢
    subst hc
    exact .ok ⟨rfl, hu⟩
  · split
    · -- softfork
      refine (MR.liftE (first_req hol)).bind ?_
      intro f f' hf
      refine (MR.liftE (ArgsRel.of_eq (uintAtom_req 8 (by omega) hf "softfork" d.flags))).bind ?_
      intro ec ec' hec
      subst hec
      split
      · exact .err rfl
      · split
        · exact .err rfl
        · rcases (parseSoftforkArguments_req d hol).cases' with ⟨e, h1, h2⟩ |
            ⟨⟨ext, prg, env⟩, ⟨ext', prg', env'⟩, h1, h2, hext, hprg, henv⟩
          · rw [h1, h2]
            simp only []
            split
            · refine (push_rel hs3 Req.nil).bind ?_
              intro a a' ha; exact .ok ⟨rfl, ha⟩
            · exact .err rfl
          · rw [h1, h2]
            simp only at hext hprg henv ⊢
            subst hext
            rw [hs3.guards, hs3.ctr]
            split
            · exact .err rfl
            · refine (evalPair_rel cfg hd (pushOp_rel ?_ _) hprg henv).bind ?_
              · exact ⟨hs3.val, hs3.env, hs3.valLen, hs3.envLen, hs3.ops, rfl, rfl⟩
              · intro ⟨c, u⟩ ⟨c', u'⟩ ⟨hc, hu⟩
                simp only at hc hu ⊢
                subst hc
                exact .ok ⟨rfl, hu⟩
    · -- operator call
      rw [hs3.guards, hs3.ctr]
      have hcall := hd.op o o' ol ol' maxCost
        (match t'.softforkStack with | sf :: _ => sf.operatorSet | [] => .Default) t'.ctr ho hol
      revert hcall
      generalize d.op o ol maxCost _ t'.ctr = r
      generalize d.op o' ol' maxCost _ t'.ctr = r'
      intro hcall
      match r, r', hcall with
      | none, _, _ => exact .unsupL
      | some _, none, _ => exact .unsupR
      | some (.error e), some (.error e'), hk => exact .err hk
      | some (.ok (k, v, c)), some (.ok (k', v', c')), ⟨hk, hv, hc⟩ =>
        subst hk; subst hc
        simp only []
        refine MR.bind (R := StateEraseEq) (push_rel ?_ hv) ?_
        · exact ⟨hs3.val, hs3.env, hs3.valLen, hs3.envLen, hs3.ops, rfl, rfl⟩
        · intro a a' ha; exact .ok ⟨rfl, ha⟩
      | some (.error _), some (.ok _), hf => exact hf.elim
      | some (.ok _), some (.error _), hf => exact hf.elim

theorem applyOp_rel (cfg : Cfg) {d : Dialect} (hd : DialectRepr d) {s s' : MState} (h : StateEraseEq s s')
    (currentCost maxCost : Nat) :
    MR StepRel (applyOp cfg d s currentCost maxCost) (applyOp cfg d s' currentCost maxCost) := by
  rw [applyOp_eq_repr, applyOp_eq_repr]
  refine (pop_rel h).bind ?_
  intro ⟨ol, s1⟩ ⟨ol', s1'⟩ ⟨hol, hs1⟩
  refine (pop_rel hs1).bind ?_
  intro ⟨o, s2⟩ ⟨o', s2'⟩ ⟨ho, hs2⟩
  simp only at hol hs1 ho hs2 ⊢
  have he := hs2.env
  generalize hes : s2.envStack = es at he ⊢
  generalize hes' : s2'.envStack = es' at he ⊢
  cases he with
  | nil => exact .err rfl
  | @cons x x' envs envs' _ henvs =>
    simp only []
    exact applyOpBody_rel cfg hd (t := { s2 with envStack := envs, envLen := s2.envLen - 1 })
      (t' := { s2' with envStack := envs', envLen := s2'.envLen - 1 })
      ⟨hs2.val, henvs, hs2.valLen, by simp [hs2.envLen], hs2.ops, hs2.guards, hs2.ctr⟩ ho hol _ _

/-! ### `exit_guard`, the loop, `run_program` -/

theorem exitGuard_rel_repr {s s' : MState} (h : StateEraseEq s s') (currentCost : Nat) :
    MR StepRel (exitGuard s currentCost) (exitGuard s' currentCost) := by
  unfold exitGuard
  rw [h.guards]
  cases s'.softforkStack with
  | nil => exact .err rfl
  | cons g rest =>
    simp only []
    split
    · exact .err rfl
    · have hv := h.val
      generalize s.valStack = vs at hv ⊢
      generalize s'.valStack = vs' at hv ⊢
      cases hv with
      | nil => exact .err rfl
      | cons _ ht =>
        simp only []
        refine MR.bind (R := StateEraseEq) (push_rel ?_ Req.nil) ?_
        · exact ⟨ht, h.env, by simp [h.valLen], h.envLen, h.ops, rfl, by simp [h.ctr]⟩
        · intro a a' ha; exact .ok ⟨rfl, ha⟩

/-- **one step of the main loop preserves the simulation** (all operations except
`RestoreAllocator`, which the two runs need not take at the same time: `runLoop_rel`) -/
theorem stepOp_rel (cfg : Cfg) {d : Dialect} (hd : DialectRepr d) {s s' : MState} (h : StateEraseEq s s')
    (op : Operation) (hop : op ≠ .RestoreAllocator) (cost em : Nat) :
    MR StepRel (stepOp cfg d s op cost em) (stepOp cfg d s' op cost em) := by
  cases op with
  | Apply => exact applyOp_rel cfg hd h _ _
  | ExitGuard => exact exitGuard_rel_repr h _
  | Cons => exact consOp_rel h
  | SwapEval => exact swapEvalOp_rel cfg hd h
  | RestoreAllocator => exact absurd rfl hop

/-- outcomes of the whole loop: `none` (out of fuel) on either side is related to anything -/
def LoopRel : Option (M (Nat × MState)) → Option (M (Nat × MState)) → Prop
  | some r, some r' => MR StepRel r r'
  | _, _ => True

theorem LoopRel.none_left (y : Option (M (Nat × MState))) : LoopRel none y := by
  cases y <;> trivial

theorem LoopRel.none_right (x : Option (M (Nat × MState))) : LoopRel x none := by
  cases x <;> trivial

theorem runLoop_over (cfg : Cfg) (d : Dialect) (mc n : Nat) (s : MState) (cost : Nat)
    (hc : cost > effMax mc s) : runLoop cfg d mc (n + 1) s cost = some (.error (.err .CostExceeded)) := by
  rw [runLoop_succ]; unfold loopBody; simp only [hc, if_true]

theorem runLoop_nil (cfg : Cfg) (d : Dialect) (mc n : Nat) (s : MState) (cost : Nat)
    (hc : ¬ cost > effMax mc s) (hop : s.opStack = []) :
    runLoop cfg d mc (n + 1) s cost = some (.ok (cost, s)) := by
  rw [runLoop_succ]; unfold loopBody; simp only [hc, if_false, hop]

theorem runLoop_cons (cfg : Cfg) (d : Dialect) (mc n : Nat) (s : MState) (cost : Nat)
    (hc : ¬ cost > effMax mc s) {op : Operation} {ops : List Operation} (hop : s.opStack = op :: ops) :
    runLoop cfg d mc (n + 1) s cost =
      match stepOp cfg d { s with opStack := ops } op cost (effMax mc s) with
      | .error e => some (.error e)
      | .ok (c, s1) => runLoop cfg d mc n s1 (cost + c) := by
  rw [runLoop_succ]; unfold loopBody; simp only [hc, if_false, hop]; rfl

/-- a pending `RestoreAllocator` of a shaped state just disappears: no cost, no error -/
theorem runLoop_restore (cfg : Cfg) (d : Dialect) (mc n : Nat) {s : MState} (hs : s.Shaped) (cost : Nat)
    (hc : ¬ cost > effMax mc s) {ops : List Operation} (hop : s.opStack = .RestoreAllocator :: ops) :
    ∃ s1, runLoop cfg d mc (n + 1) s cost = runLoop cfg d mc n s1 cost ∧ s1.Shaped ∧
      s1.opStack = ops ∧ s1.valStack = s.valStack ∧ s1.envStack = s.envStack ∧ s1.valLen = s.valLen ∧
      s1.envLen = s.envLen ∧ s1.softforkStack = s.softforkStack ∧ s1.ctr = s.ctr := by
  have hsh : Shape (.RestoreAllocator :: ops) (flagsOf s.valStack) s.envStack.length s.softforkStack.length
      s.allocatorStack := by simpa [MState.Shaped, hop] using hs
  obtain ⟨hne, hna, hrest⟩ := hsh
  refine ⟨{ s with opStack := ops, allocatorStack := s.allocatorStack - 1 }, ?_, ?_, rfl, rfl, rfl, rfl, rfl,
    rfl, rfl⟩
  · rw [runLoop_cons cfg d mc n s cost hc hop]
    have h0 : (s.allocatorStack == 0) = false := by
      cases hsa : s.allocatorStack with
      | zero => omega
      | succ k => rfl
    have hv : s.valStack.isEmpty = false := by
      cases hsv : s.valStack with
      | nil => rw [hsv] at hne; exact absurd rfl hne
      | cons _ _ => rfl
    simp only [stepOp, h0, hv, Bool.false_eq_true, if_false, Nat.add_zero]
  · simpa [MState.Shaped] using hrest

theorem stripOps_head_cases {l l' : List Operation} (h : stripOps l = stripOps l') :
    (∃ ops, l = .RestoreAllocator :: ops) ∨ (∃ ops', l' = .RestoreAllocator :: ops') ∨ (l = [] ∧ l' = []) ∨
    (∃ op ops ops', op ≠ .RestoreAllocator ∧ l = op :: ops ∧ l' = op :: ops' ∧ stripOps ops = stripOps ops') := by
  cases l with
  | nil =>
    cases l' with
    | nil => exact .inr (.inr (.inl ⟨rfl, rfl⟩))
    | cons op' ops' =>
      cases op' <;> first
        | exact .inr (.inl ⟨_, rfl⟩)
        | (simp [stripOps] at h)
  | cons op ops =>
    cases op <;> first
      | exact .inl ⟨_, rfl⟩
      | (cases l' with
          | nil => simp [stripOps] at h
          | cons op' ops' =>
            cases op' <;> first
              | exact .inr (.inl ⟨_, rfl⟩)
              | (simp only [stripOps, List.cons.injEq, true_and] at h
                 exact .inr (.inr (.inr ⟨_, _, _, by simp, rfl, rfl, h⟩)))
              | (simp [stripOps] at h))

/-- **the loop preserves the simulation**, with stuttering on `RestoreAllocator` steps (the two runs
may need different amounts of fuel) -/
theorem runLoop_rel (cfg : Cfg) {d : Dialect} (hd : DialectRepr d) (maxCost : Nat) :
    ∀ (k n n' : Nat), n + n' ≤ k → ∀ {s s' : MState}, s.Shaped → s'.Shaped → StateEraseEq s s' → ∀ cost : Nat,
      LoopRel (runLoop cfg d maxCost n s cost) (runLoop cfg d maxCost n' s' cost) := by
  intro k
  induction k with
  | zero =>
    intro n n' hk s s' _ _ _ cost
    have : n = 0 := by omega
    subst this
    exact LoopRel.none_left _
  | succ k ih =>
    intro n n' hk s s' hsh hsh' h cost
    cases n with
    | zero => exact LoopRel.none_left _
    | succ m =>
    cases n' with
    | zero => exact LoopRel.none_right _
    | succ m' =>
    have hem : effMax maxCost s = effMax maxCost s' := by simp [effMax, h.guards]
    by_cases hc : cost > effMax maxCost s
    · rw [runLoop_over cfg d maxCost m s cost hc, runLoop_over cfg d maxCost m' s' cost (hem ▸ hc)]
      exact .err rfl
    have hc' : ¬ cost > effMax maxCost s' := hem ▸ hc
    rcases stripOps_head_cases h.ops with ⟨ops, hop⟩ | ⟨ops', hop'⟩ | ⟨hop, hop'⟩ |
      ⟨op, ops, ops', hne, hop, hop', htl⟩
    · -- the left run drops a `RestoreAllocator`
      obtain ⟨s1, he, hs1, ho1, hv1, he1, hvl1, hel1, hg1, hc1⟩ :=
        runLoop_restore cfg d maxCost m hsh cost hc hop
      rw [he]
      refine ih m (m' + 1) (by omega) hs1 hsh' ?_ cost
      exact ⟨hv1 ▸ h.val, he1 ▸ h.env, hvl1 ▸ h.valLen, hel1 ▸ h.envLen,
        by rw [ho1, ← h.ops, hop]; rfl, hg1 ▸ h.guards, hc1 ▸ h.ctr⟩
    · -- the right run drops a `RestoreAllocator`
      obtain ⟨s1, he, hs1, ho1, hv1, he1, hvl1, hel1, hg1, hc1⟩ :=
        runLoop_restore cfg d maxCost m' hsh' cost hc' hop'
      rw [he]
      refine ih (m + 1) m' (by omega) hsh hs1 ?_ cost
      exact ⟨hv1 ▸ h.val, he1 ▸ h.env, hvl1 ▸ h.valLen, hel1 ▸ h.envLen,
        by rw [ho1, h.ops, hop']; rfl, hg1 ▸ h.guards, hc1 ▸ h.ctr⟩
    · rw [runLoop_nil cfg d maxCost m s cost hc hop, runLoop_nil cfg d maxCost m' s' cost hc' hop']
      exact .ok ⟨rfl, h⟩
    · rw [runLoop_cons cfg d maxCost m s cost hc hop, runLoop_cons cfg d maxCost m' s' cost hc' hop', hem]
      have hst := stepOp_rel cfg hd (s := { s with opStack := ops }) (s' := { s' with opStack := ops' })
        ⟨h.val, h.env, h.valLen, h.envLen, htl, h.guards, h.ctr⟩ op hne cost (effMax maxCost s')
      have hshape : ∀ (c : Nat) (t : MState),
          stepOp cfg d { s with opStack := ops } op cost (effMax maxCost s') = .ok (c, t) → t.Shaped := by
        intro c t ht
        refine stepOp_shape (s := { s with opStack := ops }) rfl ?_ ht
        simpa [MState.Shaped, hop] using hsh
      have hshape' : ∀ (c : Nat) (t : MState),
          stepOp cfg d { s' with opStack := ops' } op cost (effMax maxCost s') = .ok (c, t) → t.Shaped := by
        intro c t ht
        refine stepOp_shape (s := { s' with opStack := ops' }) rfl ?_ ht
        simpa [MState.Shaped, hop'] using hsh'
      revert hst hshape hshape'
      generalize stepOp cfg d { s with opStack := ops } op cost (effMax maxCost s') = r
      generalize stepOp cfg d { s' with opStack := ops' } op cost (effMax maxCost s') = r'
      intro hst hshape hshape'
      cases hst with
      | ok hr =>
        rename_i a a'
        obtain ⟨c, t⟩ := a; obtain ⟨c', t'⟩ := a'
        obtain ⟨hcc, ht⟩ := hr
        simp only at hcc ht ⊢
        subst hcc
        exact ih m m' (by omega) (hshape _ _ rfl) (hshape' _ _ rfl) ht _
      | err hk => exact .err hk
      | unsupL =>
        cases r' with
        | error e => exact .unsupL
        | ok a =>
          simp only []
          cases runLoop cfg d maxCost m' a.2 (cost + a.1) with
          | none => trivial
          | some x => exact .unsupL
      | unsupR =>
        cases r with
        | error e => exact .unsupR
        | ok a =>
          simp only []
          cases runLoop cfg d maxCost m a.2 (cost + a.1) with
          | none => trivial
          | some x => exact .unsupR

/-- **C03, machine level (`eval_retag`)**: two runs of `run_program` on erase-equal well-formed
programs and environments from the same counters that both produce an answer (each with its own
fuel) produce the same answer up to representation tags — same cost, erase-equal values, equal
counters (heap size included), or the same kind of error. -/
theorem eval_retag (cfg : Cfg) {d : Dialect} (hd : DialectRepr d) (fuel fuel' : Nat) (c0 : Ctr)
    {program program' env env' : Val} (hp : Req program program') (he : Req env env') (maxCost : Nat)
    {r r' : OpRes}
    (hr : runProgram cfg d fuel c0 program env maxCost = some r)
    (hr' : runProgram cfg d fuel' c0 program' env' maxCost = some r') :
    ResEraseEq true r r' := by
  unfold runProgram at hr hr'
  simp only [] at hr hr'
  cases hg : c0.addGhostAtom 1 with
  | error e =>
    rw [hg] at hr hr'
    cases hr; cases hr'; exact rfl
  | ok c =>
    rw [hg] at hr hr'
    simp only [] at hr hr'
    have h0 : StateEraseEq ({ ctr := c } : MState) ({ ctr := c } : MState) :=
      ⟨.nil, .nil, rfl, rfl, rfl, rfl, rfl⟩
    have hev := evalPair_rel cfg hd h0 hp he
    have hi : ∀ k s, evalPair cfg d { ctr := c } program env = .ok (k, s) → s.Shaped :=
      fun k s h => initial_shaped h
    have hi' : ∀ k s, evalPair cfg d { ctr := c } program' env' = .ok (k, s) → s.Shaped :=
      fun k s h => initial_shaped h
    revert hev hr hr' hi hi'
    generalize evalPair cfg d { ctr := c } program env = x
    generalize evalPair cfg d { ctr := c } program' env' = x'
    intro hr hr' hev hi hi'
    cases hev with
    | err hk => cases hr; cases hr'; exact hk
    | unsupL => first | cases hr | cases hr'
    | unsupR => first | cases hr' | cases hr
    | ok hst =>
      rename_i a a'
      obtain ⟨k, s⟩ := a; obtain ⟨k', s'⟩ := a'
      obtain ⟨hk, hs⟩ := hst
      simp only at hk hs hr hr'
      subst hk
      have hl := runLoop_rel cfg hd (if maxCost == 0 then U64_MAX else maxCost) (fuel + fuel') fuel fuel'
        (Nat.le_refl _) (hi _ _ rfl) (hi' _ _ rfl) hs k
      revert hl hr hr'
      generalize runLoop cfg d _ fuel s k = y
      generalize runLoop cfg d _ fuel' s' k = y'
      intro hr hr' hl
      match y, y', hl with
      | none, _, _ => first | cases hr | cases hr'
      | some _, none, _ => first | cases hr' | cases hr
      | some _, some _, .err hk => cases hr; cases hr'; exact hk
      | some _, some _, .unsupL => first | cases hr | cases hr'
      | some _, some _, .unsupR => first | cases hr' | cases hr
      | some _, some _, .ok hst =>
        rename_i a a'
        obtain ⟨k1, s1⟩ := a; obtain ⟨k1', s1'⟩ := a'
        obtain ⟨hk1, hs1⟩ := hst
        simp only at hk1 hs1 hr hr'
        subst hk1
        have hpop := pop_rel hs1
        revert hpop hr hr'
        generalize s1.pop = z
        generalize s1'.pop = z'
        intro hr hr' hpop
        cases hpop with
        | err hk => cases hr; cases hr'; exact hk
        | unsupL => first | cases hr | cases hr'
        | unsupR => first | cases hr' | cases hr
        | ok hv =>
          rename_i a a'
          obtain ⟨v, s2⟩ := a; obtain ⟨v', s2'⟩ := a'
          obtain ⟨hv, hs2⟩ := hv
          simp only at hv hs2 hr hr'
          cases hr; cases hr'
          exact ⟨rfl, hv.2.2, by rw [hs2.ctr], by rw [hs2.ctr], by rw [hs2.ctr], fun _ => by rw [hs2.ctr]⟩

/-! ### instantiation: `ChiaDialect` with the `op_substr` defect region guarded -/

/-- value part of `OpWf`: results of an operator on well-formed arguments are well-formed -/
def OpValWf (f : OpFn) : Prop :=
  ∀ (flags m : Nat) (a : Val) (c : Ctr) (k : Nat) (v : Val) (c' : Ctr),
    a.wf = true → f flags m a c = .ok (k, v, c') → v.wf = true

theorem OpWf.valWf {f : OpFn} (h : OpWf f) : OpValWf f :=
  fun flags m a c k v c' hw he => (h flags m a c (k, v, c') hw he).1

/-- answer "unsupported" for the calls selected by `G` -/
def Dialect.guard (d : Dialect) (G : Val → Val → Bool) : Dialect :=
  { d with op := fun o args m ext c => if G o args then none else d.op o args m ext c }

/-- one run's side of the defect region of `op_substr`: the source atom is inline and the selected
sub-string is not a canonical small integer (`new_substr` then appends it to the heap) -/
def substrInlineDefect (args : Val) : Bool :=
  match substrParse args with
  | .ok (.atom b true, s, e) => (fitsInSmallAtom ((b.drop s).take (e - s))).isNone
  | _ => false

/-- the operator atom selects `op_substr` in `ChiaDialect::op` -/
def isSubstrOp (o : Val) : Bool :=
  match smallNumber o with
  | some op =>
    match lookupOp Gen.chiaOpTable op with
    | some (name, _) => name == "op_substr"
    | none => false
  | none => false

/-- the guarded calls: `op_substr` taking the heap-growing branch of `new_substr` -/
def substrGuard (o args : Val) : Bool := isSubstrOp o && substrInlineDefect args

theorem substrDefect_of_inline {a a' : Val} (h : Req a a')
    (h1 : substrInlineDefect a = false) (h2 : substrInlineDefect a' = false) : substrDefect a a' = false := by
  unfold substrDefect
  cases hp : substrParse a with
  | error e => rfl
  | ok p =>
    obtain ⟨a0, s, e⟩ := p
    obtain ⟨b, t, rfl, _, _⟩ := substrParse_ok hp
    obtain ⟨t', hp'⟩ := substrParse_req_atom h hp
    rw [hp']
    simp only [substrInlineDefect, hp, hp'] at h1 h2
    cases t <;> cases t' <;> simp_all

theorem opCallRel_of {r r' : OpRes} (h : ResEraseEq true r r')
    (hw : ∀ k v c, r = .ok (k, v, c) → v.wf = true) (hw' : ∀ k v c, r' = .ok (k, v, c) → v.wf = true) :
    OpCallRel (some r) (some r') := by
  cases r with
  | error e => cases r' with
    | error e' => exact h
    | ok x => exact h
  | ok x => cases r' with
    | error e' => exact h
    | ok x' =>
      obtain ⟨k, v, c⟩ := x; obtain ⟨k', v', c'⟩ := x'
      obtain ⟨h1, h2, h3, h4, h5, h6⟩ := h
      refine ⟨h1, ⟨hw _ _ _ rfl, hw' _ _ _ rfl, h2⟩, ?_⟩
      have h7 := h6 rfl
      cases c; cases c'
      simp only at h3 h4 h5 h7
      simp only [Ctr.mk.injEq]
      exact ⟨h3, h4, h7, h5⟩

theorem OpCallRel.none_right (x : Option OpRes) : OpCallRel x none := by
  cases x <;> trivial

theorem opCallRel_op {f : OpFn} (hr : OpRepr true f) (hw : OpValWf f) (flags m : Nat) {a a' : Val} (h : Req a a')
    (c : Ctr) : OpCallRel (some (f flags m a c)) (some (f flags m a' c)) :=
  opCallRel_of (hr flags m a a' c h.1 h.2.1 h.2.2) (fun k v c' e => hw flags m a c k v c' h.1 e)
    (fun k v c' e => hw flags m a' c k v c' h.2.1 e)

theorem unknownOperator_rel (hunk : ∀ op, OpWf (opUnknown op)) (ob : Bytes) (flags m : Nat) {a a' : Val}
    (h : Req a a') (c : Ctr) :
    OpCallRel (some (unknownOperator ob a flags m c)) (some (unknownOperator ob a' flags m c)) := by
  unfold unknownOperator
  split
  · exact rfl
  · exact opCallRel_op (opUnknown_repr ob) (hunk ob).valWf flags m h c

theorem op4_not_substr : ∀ e ∈ Gen.chiaOp4Table, e.2 ≠ "op_substr" := by decide

/-- **the simulation hypothesis holds for `ChiaDialect`** (every flag set, `ENABLE_GC` included) once the calls of
`op_substr` inside the defect region are guarded, given that operator results are well-formed
(`OpWf`) and that the extra (cryptographic) operators are representation independent -/
theorem chiaDialect_repr (cfg : Cfg) (extra : String → Option OpFn) (flags0 : Flags)
    (hcore : ∀ name f, coreOpByName cfg name = some f → OpWf f)
    (hunk : ∀ op, OpWf (opUnknown op))
    (hextra : ∀ name f, extra name = some f → OpRepr true f ∧ OpWf f) :
    DialectRepr ((chiaDialect cfg extra flags0).guard substrGuard) := by
  constructor
  · intro o o' args args' m ext c ho ha
    show OpCallRel (if substrGuard o args then none else (chiaDialect cfg extra flags0).op o args m ext c)
      (if substrGuard o' args' then none else (chiaDialect cfg extra flags0).op o' args' m ext c)
    by_cases hg : substrGuard o args = true
    · simp only [hg, if_true]; trivial
    by_cases hg' : substrGuard o' args' = true
    · simp only [hg', if_true]
      exact OpCallRel.none_right _
    simp only [hg, hg', if_false]
    have hg1 : substrGuard o args = false := by simpa using hg
    have hg2 : substrGuard o' args' = false := by simpa using hg'
    -- the operator table
    have call : ∀ (flags : Flags) (name : String),
        (name = "op_substr" → substrInlineDefect args = false ∧ substrInlineDefect args' = false) →
        OpCallRel
          (match coreOpByName cfg name with
            | some f => some (f flags m args c)
            | none => match extra name with
              | some f => some (f flags m args c)
              | none => none)
          (match coreOpByName cfg name with
            | some f => some (f flags m args' c)
            | none => match extra name with
              | some f => some (f flags m args' c)
              | none => none) := by
      intro flags name hname
      cases hc : coreOpByName cfg name with
      | some f =>
        simp only []
        by_cases hn : name = "op_substr"
        · have hf : f = opSubstr := by subst hn; simp [coreOpByName] at hc; exact hc.symm
          subst hf
          obtain ⟨d1, d2⟩ := hname hn
          exact opCallRel_of
            (opSubstr_repr_heap_partial flags m args args' c ha.1 ha.2.1 ha.2.2 (substrDefect_of_inline ha d1 d2))
            (fun k v c' e => (hcore name _ hc).valWf flags m args c k v c' ha.1 e)
            (fun k v c' e => (hcore name _ hc).valWf flags m args' c k v c' ha.2.1 e)
        · exact opCallRel_op (coreOps_repr cfg name f hc hn) (hcore name f hc).valWf flags m ha c
      | none =>
        simp only []
        cases he : extra name with
        | some f => exact opCallRel_op (hextra name f he).1 (hextra name f he).2.valWf flags m ha c
        | none => trivial
    show OpCallRel (chiaOp cfg extra (chiaDialect cfg extra flags0).flags o args m ext c)
      (chiaOp cfg extra (chiaDialect cfg extra flags0).flags o' args' m ext c)
    generalize (chiaDialect cfg extra flags0).flags = dflags
    unfold chiaOp
    simp only []
    generalize (dflags ||| match ext with
      | .Default => 0 | .Bls => 0 | .Keccak => Gen.FLAG_ENABLE_KECCAK_OPS_OUTSIDE_GUARD
      | .PreHardFork => Gen.FLAG_ENABLE_KECCAK_OPS_OUTSIDE_GUARD) = flags
    cases ho.cases with
    | pair _ _ _ _ _ _ => exact rfl
    | atom ob t t' _ _ =>
      simp only []
      split
      · -- four-byte opcodes
        cases hf : List.find? (fun e => e.1 == beNat ob) Gen.chiaOp4Table with
        | none => exact unknownOperator_rel hunk ob flags m ha c
        | some e =>
          obtain ⟨x, name⟩ := e
          simp only []
          exact call flags name (fun hn => absurd hn (op4_not_substr _ (List.mem_of_find?_eq_some hf)))
      · split
        · exact unknownOperator_rel hunk ob flags m ha c
        · rw [smallNumber_req ho]
          cases hsn : smallNumber (Val.atom ob t') with
          | none => exact unknownOperator_rel hunk ob flags m ha c
          | some op =>
            simp only []
            cases hl : lookupOp Gen.chiaOpTable op with
            | none => exact unknownOperator_rel hunk ob flags m ha c
            | some e =>
              obtain ⟨name, req⟩ := e
              simp only []
              split
              · exact unknownOperator_rel hunk ob flags m ha c
              · split
                · exact rfl
                · refine call flags name (fun hn => ?_)
                  have i1 : isSubstrOp (Val.atom ob t) = true := by
                    simp only [isSubstrOp, smallNumber_req ho, hsn, hl, hn, beq_self_eq_true]
                  have i2 : isSubstrOp (Val.atom ob t') = true := by
                    simp only [isSubstrOp, hsn, hl, hn, beq_self_eq_true]
                  simp only [substrGuard, i1, i2, Bool.true_and] at hg1 hg2
                  exact ⟨hg1, hg2⟩

/-! ### a guarded run that answers is a run of the unguarded dialect -/

theorem evalPair_guard (cfg : Cfg) (d : Dialect) (G : Val → Val → Bool) (s : MState) (p env : Val) :
    evalPair cfg (d.guard G) s p env = evalPair cfg d s p env := by
  cases p with
  | atom b t => rfl
  | pair o l => cases o <;> rfl

theorem guard_applyKw (d : Dialect) (G : Val → Val → Bool) : (d.guard G).applyKw = d.applyKw := rfl
theorem guard_softforkKw (d : Dialect) (G : Val → Val → Bool) : (d.guard G).softforkKw = d.softforkKw := rfl
theorem guard_flags (d : Dialect) (G : Val → Val → Bool) : (d.guard G).flags = d.flags := rfl
theorem guard_allowUnknownOps (d : Dialect) (G : Val → Val → Bool) :
    (d.guard G).allowUnknownOps = d.allowUnknownOps := rfl
theorem guard_op (d : Dialect) (G : Val → Val → Bool) (o args : Val) (m : Nat) (ext : OperatorSet) (c : Ctr) :
    (d.guard G).op o args m ext c = if G o args then none else d.op o args m ext c := rfl
theorem parseSoftforkArguments_guard (d : Dialect) (G : Val → Val → Bool) (args : Val) :
    parseSoftforkArguments (d.guard G) args = parseSoftforkArguments d args := rfl

theorem applyOpBody_guard (cfg : Cfg) (d : Dialect) (G : Val → Val → Bool) (s : MState) (o ol : Val)
    (cc mc : Nat) :
    applyOpBody cfg (d.guard G) s o ol cc mc = .error .unsupported ∨
    applyOpBody cfg (d.guard G) s o ol cc mc = applyOpBody cfg d s o ol cc mc := by
  unfold applyOpBody
  simp only [evalPair_guard, guard_applyKw, guard_softforkKw, guard_flags, guard_allowUnknownOps, guard_op,
    parseSoftforkArguments_guard]
  by_cases h1 : (smallNumber o == some d.applyKw) = true
  · right; simp only [h1, if_true]; first | done | rfl
  have h1' : (smallNumber o == some d.applyKw) = false := by simpa using h1
  by_cases h2 : (smallNumber o == some d.softforkKw) = true
  · right; simp only [h1', h2, if_true, if_false, Bool.false_eq_true]; first | done | rfl
  have h2' : (smallNumber o == some d.softforkKw) = false := by simpa using h2
  by_cases hg : G o ol = true
  · left; simp only [h1', h2', hg, if_true, if_false, Bool.false_eq_true]
  · have hg' : G o ol = false := by simpa using hg
    right; simp only [h1', h2', hg', if_false, Bool.false_eq_true]; first | done | rfl

theorem stepOp_guard (cfg : Cfg) (d : Dialect) (G : Val → Val → Bool) (s : MState) (op : Operation)
    (cost em : Nat) :
    stepOp cfg (d.guard G) s op cost em = .error .unsupported ∨
    stepOp cfg (d.guard G) s op cost em = stepOp cfg d s op cost em := by
  cases op with
  | ExitGuard => exact .inr rfl
  | Cons => exact .inr rfl
  | RestoreAllocator => exact .inr rfl
  | SwapEval =>
    simp only [stepOp, swapEvalOp, evalPair_guard]; exact .inr trivial
  | Apply =>
    simp only [stepOp, applyOp_eq_repr, bind, Except.bind]
    cases s.pop with
    | error e => exact .inr rfl
    | ok r1 =>
      obtain ⟨ol, s1⟩ := r1
      simp only []
      cases s1.pop with
      | error e => exact .inr rfl
      | ok r2 =>
        obtain ⟨o, s2⟩ := r2
        simp only []
        cases s2.envStack with
        | nil => exact .inr rfl
        | cons x envs =>
          simp only []
          exact applyOpBody_guard cfg d G _ o ol cost (em - cost)

theorem runLoop_guard (cfg : Cfg) (d : Dialect) (G : Val → Val → Bool) (mc fuel : Nat) :
    ∀ (s : MState) (cost : Nat) (x : M (Nat × MState)),
      runLoop cfg (d.guard G) mc fuel s cost = some x → x ≠ .error .unsupported →
      runLoop cfg d mc fuel s cost = some x := by
  induction fuel with
  | zero => intro s cost x h; simp [runLoop_zero] at h
  | succ n ih =>
    intro s cost x h hx
    rw [runLoop_succ] at h ⊢
    unfold loopBody at h ⊢
    split at h
    · rename_i hc; simp only [hc, if_true]; exact h
    · rename_i hc
      simp only [hc, if_false]
      cases hops : s.opStack with
      | nil => rw [hops] at h; exact h
      | cons op ops =>
        rw [hops] at h
        simp only [] at h ⊢
        rcases stepOp_guard cfg d G { s with opStack := ops } op cost (effMax mc s) with hu | he
        · rw [hu] at h; simp only [Option.some.injEq] at h; exact absurd h.symm hx
        · rw [he] at h
          cases hst : stepOp cfg d { s with opStack := ops } op cost (effMax mc s) with
          | error e => rw [hst] at h; exact h
          | ok r =>
            obtain ⟨c, s1⟩ := r
            rw [hst] at h
            simp only [] at h ⊢
            exact ih s1 (cost + c) x h hx

theorem runProgram_guard (cfg : Cfg) (d : Dialect) (G : Val → Val → Bool) (fuel : Nat) (c0 : Ctr)
    (program env : Val) (maxCost : Nat) (r : OpRes)
    (h : runProgram cfg (d.guard G) fuel c0 program env maxCost = some r) :
    runProgram cfg d fuel c0 program env maxCost = some r := by
  unfold runProgram at h ⊢
  simp only [evalPair_guard] at h ⊢
  cases hg : c0.addGhostAtom 1 with
  | error e => rw [hg] at h; exact h
  | ok c =>
    rw [hg] at h
    simp only [] at h ⊢
    cases hev : evalPair cfg d { ctr := c } program env with
    | error e =>
      rw [hev] at h
      cases e with
      | err e0 => exact h
      | unsupported => cases h
    | ok a =>
      obtain ⟨k, s⟩ := a
      rw [hev] at h
      simp only [] at h ⊢
      cases hl : runLoop cfg (d.guard G) (if maxCost == 0 then U64_MAX else maxCost) fuel s k with
      | none => rw [hl] at h; cases h
      | some x =>
        have hx : x ≠ .error .unsupported := by
          intro hx; subst hx; rw [hl] at h; cases h
        rw [runLoop_guard cfg d G _ fuel s k x hl hx]
        rw [hl] at h
        exact h

/-- **C03 for `ChiaDialect`, whole runs** (`eval_retag` instantiated; every flag set, `ENABLE_GC`
included).  If neither run applies `op_substr` to an inline source atom with a non-canonical result
(the guarded runs both answer), then the two runs of the real dialect give those answers and they
agree up to representation tags: same cost, erase-equal values, equal atom/pair counts *and* heap
size, or the same kind of error.  The two runs may need different amounts of fuel (under ENABLE_GC
`gc_candidate` accepts only an *inline* operator atom, so one run can have more `RestoreAllocator`
steps than the other).  Operator hypotheses: `OpWf`, and the operator-level shape for `extra`. -/
theorem eval_retag_chia_partial (cfg : Cfg) (extra : String → Option OpFn) (flags0 : Flags)
    (hcore : ∀ name f, coreOpByName cfg name = some f → OpWf f)
    (hunk : ∀ op, OpWf (opUnknown op))
    (hextra : ∀ name f, extra name = some f → OpRepr true f ∧ OpWf f)
    (fuel fuel' : Nat) (c0 : Ctr) (program program' env env' : Val)
    (hpw : program.wf = true) (hpw' : program'.wf = true) (hpe : program.erase = program'.erase)
    (hew : env.wf = true) (hew' : env'.wf = true) (hee : env.erase = env'.erase)
    (maxCost : Nat) (r r' : OpRes)
    (hr : runProgram cfg ((chiaDialect cfg extra flags0).guard substrGuard) fuel c0 program env maxCost = some r)
    (hr' : runProgram cfg ((chiaDialect cfg extra flags0).guard substrGuard) fuel' c0 program' env' maxCost = some r') :
    runProgram cfg (chiaDialect cfg extra flags0) fuel c0 program env maxCost = some r ∧
    runProgram cfg (chiaDialect cfg extra flags0) fuel' c0 program' env' maxCost = some r' ∧
    ResEraseEq true r r' :=
  ⟨runProgram_guard _ _ _ _ _ _ _ _ _ hr, runProgram_guard _ _ _ _ _ _ _ _ _ hr',
    eval_retag cfg (chiaDialect_repr cfg extra flags0 hcore hunk hextra) fuel fuel' c0
      ⟨hpw, hpw', hpe⟩ ⟨hew, hew', hee⟩ maxCost hr hr'⟩

/-- the full machine-level statement: no guard, heap size not compared.  Not proved: inside the
defect region the heap sizes differ (`opSubstr_repr_witness`), and a later `OutOfMemory` check can
then separate the two runs, so the statement needs "no allocator limit is hit" and a per-operator
heap-shift lemma. -/
def EvalRetagStatement : Prop :=
  ∀ (cfg : Cfg) (extra : String → Option OpFn) (flags0 : Flags),
    (∀ name f, extra name = some f → OpRepr true f ∧ OpWf f) →
    ∀ (fuel fuel' : Nat) (c0 : Ctr) (program program' env env' : Val),
      program.wf = true → program'.wf = true → program.erase = program'.erase →
      env.wf = true → env'.wf = true → env.erase = env'.erase →
      ∀ (maxCost : Nat) (r r' : OpRes),
        runProgram cfg (chiaDialect cfg extra flags0) fuel c0 program env maxCost = some r →
        runProgram cfg (chiaDialect cfg extra flags0) fuel' c0 program' env' maxCost = some r' →
        (∀ e, r ≠ .error e ∨ e ≠ .OutOfMemory) → (∀ e, r' ≠ .error e ∨ e ≠ .OutOfMemory) →
        ResEraseEq false r r'

/-! ### the cryptographic operators (`cryptoExtra`) -/

/-- a lifted tree-level operator only sees the erased argument list -/
theorem liftCrypto_repr (f : Crypto.OpFn) : OpRepr true (liftCrypto f) := opRepr_of_eq fun flags m a a' c h => by
  unfold liftCrypto; rw [h.2.2]

theorem toNTree_valid {v : Val} (h : v.wf = true) : (toNTree v).Valid := by
  induction v with
  | atom b t =>
    cases t
    · trivial
    · have := (wf_inline h).lt
      show beNat b < 2 ^ 31
      omega
  | pair l r ihl ihr =>
    simp only [Val.wf, Bool.and_eq_true] at h
    exact ⟨ihl h.1, ihr h.2⟩

theorem toNTree_erase {v : Val} (h : v.wf = true) : (toNTree v).erase = v.erase := by
  induction v with
  | atom b t =>
    cases t
    · rfl
    · have hb := wf_inline h
      show Tree.atom (smallBytes (beNat b)) = Tree.atom b
      rw [smallBytes_enc _ (by have := hb.lt; omega), ← hb.enc]
  | pair l r ihl ihr =>
    simp only [Val.wf, Bool.and_eq_true] at h
    simp only [toNTree, TreeHash.NTree.erase, Val.erase, ihl h.1, ihr h.2]

theorem treeHashCosted_req (nm : Bool) (R : Nat) {v v' : Val} (h : Req v v') :
    TreeHash.treeHashCosted nm R (toNTree v) = TreeHash.treeHashCosted nm R (toNTree v') := by
  rw [TreeHash.treeHashCosted_eq _ _ _ (toNTree_valid h.1), TreeHash.treeHashCosted_eq _ _ _ (toNTree_valid h.2.1),
    toNTree_erase h.1, toNTree_erase h.2.1, h.2.2]

theorem opSha256Tree_repr : OpRepr true opSha256Tree := opRepr_of_eq fun flags m a a' c h => by
  have key : TreeHash.opSha256Tree (newModel flags) m (toNTree a) =
      TreeHash.opSha256Tree (newModel flags) m (toNTree a') := by
    cases h.cases with
    | atom b t t' _ _ => cases t <;> cases t' <;> rfl
    | pair l r l' r' hl hr =>
      cases hr.cases with
      | pair _ _ _ _ _ _ => rfl
      | atom b t t' _ _ =>
        have e : ∀ (x : Val) (t : Bool), TreeHash.opSha256Tree (newModel flags) m (toNTree (.pair x (.atom b t))) =
            TreeHash.treeHashCosted (newModel flags) m (toNTree x) := by
          intro x t; cases t <;> rfl
        rw [e, e, treeHashCosted_req _ _ hl]
  unfold opSha256Tree; rw [key]

/-- every operator of `cryptoExtra` is representation independent -/
theorem cryptoExtra_repr (name : String) (f : OpFn) (h : cryptoExtra name = some f) : OpRepr true f := by
  unfold cryptoExtra at h
  split at h
  · cases h
  · split at h
    · cases h; exact opSha256Tree_repr
    · cases hc : Crypto.opByName name with
      | none => rw [hc] at h; cases h
      | some g => rw [hc] at h; cases h; exact liftCrypto_repr g


/-! ### non-vacuity and the machine-level witness of the defect -/

/-- `(substr (q . 0x0080) (q . 0) (q . 1))` with the quoted source atom inline / on the heap -/
def substrProg (inl : Bool) : Val :=
  .pair (.atom [12] true)
    (.pair (.pair (.atom [1] true) (.atom [0x00, 0x80] inl))
      (.pair (.pair (.atom [1] true) (.atom [] true))
        (.pair (.pair (.atom [1] true) (.atom [1] true)) Val.nil)))

/-- `(concat (q . 1) (q . 2))` with two different taggings -/
def concatProg (inl : Bool) : Val :=
  .pair (.atom [14] true)
    (.pair (.pair (.atom [1] inl) (.atom [1] true))
      (.pair (.pair (.atom [1] true) (.atom [2] inl)) Val.nil))

-- the hypotheses of `eval_retag_chia_partial` are satisfiable (both guarded runs answer) …
example : (concatProg true).wf = true ∧ (concatProg false).wf = true ∧
    (concatProg true).erase = (concatProg false).erase := by decide
example : (runProgram {} ((chiaDialect {} (fun _ => none) 0).guard substrGuard) 20 (Ctr.new 1000)
    (concatProg true) Val.nil 0).isSome = true := by rfl
example : (runProgram {} ((chiaDialect {} (fun _ => none) 0).guard substrGuard) 20 (Ctr.new 1000)
    (concatProg false) Val.nil 0).isSome = true := by rfl
-- … and the guard fires exactly in the run that takes the heap-growing branch of `new_substr`
example : runProgram {} ((chiaDialect {} (fun _ => none) 0).guard substrGuard) 20 (Ctr.new 1000)
    (substrProg true) Val.nil 0 = none := by rfl
example : (runProgram {} ((chiaDialect {} (fun _ => none) 0).guard substrGuard) 20 (Ctr.new 1000)
    (substrProg false) Val.nil 0).isSome = true := by rfl

/-- DESIGN §6-C at the level of whole runs: without the guard the two runs of
`(substr (q . 0x0080) (q . 0) (q . 1))` agree on cost, value and counts but not on the heap size -/
theorem eval_retag_heap_witness :
    (substrProg true).wf = true ∧ (substrProg false).wf = true ∧
    (substrProg true).erase = (substrProg false).erase ∧
    runProgram {} (chiaDialect {} (fun _ => none) 0) 20 (Ctr.new 1000) (substrProg true) Val.nil 0 =
      some (.ok (62, .atom [0] false, { atoms := 4, pairs := 3, heap := 2, heapLimit := 1000 })) ∧
    runProgram {} (chiaDialect {} (fun _ => none) 0) 20 (Ctr.new 1000) (substrProg false) Val.nil 0 =
      some (.ok (62, .atom [0] false, { atoms := 4, pairs := 3, heap := 1, heapLimit := 1000 })) :=
  ⟨by decide, by decide, by decide, by rfl, by rfl⟩

end Clvm.Interp
