/-
C03 (representation independence), machine level: a lock-step simulation of two runs of
`run_program` on erase-equal well-formed programs and environments.

The simulation relation `StateEraseEq` keeps the two machine states equal except for the
representation tags of the atoms on the value and environment stacks.  It is preserved by every
step as long as each operator call made by the two runs is related by `ResEraseEq true` (cost,
erased value, *all* counters) — which `Repr.lean` proves for every core operator except inside the
defect region of `op_substr` (DESIGN §6-C).  The region is excluded by a guard: `Dialect.guard G`
answers "unsupported" for the calls selected by `G`, and the theorem speaks about two guarded runs
that both produce an answer.
-/
import ClvmProofs.Lemmas.Interp.Repr
import ClvmProofs.Lemmas.Interp.MachineBase

namespace Clvm.Interp
open Clvm Clvm.Alloc

/-! ### outcomes of machine steps -/

/-- related outcomes in the machine monad; a run that stopped at a guarded (unsupported) call is
related to anything -/
inductive MR {α : Type} (R : α → α → Prop) : M α → M α → Prop where
  | ok {a a' : α} (h : R a a') : MR R (.ok a) (.ok a')
  | err {e e' : Err} (h : e.kind = e'.kind) : MR R (.error (.err e)) (.error (.err e'))
  | unsupL {y : M α} : MR R (.error .unsupported) y
  | unsupR {x : M α} : MR R x (.error .unsupported)

theorem MR.bind {α β : Type} {R : α → α → Prop} {S : β → β → Prop} {x x' : M α} {f f' : α → M β}
    (hx : MR R x x') (hf : ∀ a a', R a a' → MR S (f a) (f' a')) : MR S (x >>= f) (x' >>= f') := by
  cases hx with
  | ok h => exact hf _ _ h
  | err h => exact .err h
  | unsupL => exact .unsupL
  | unsupR => exact .unsupR

theorem MR.pure {α : Type} {R : α → α → Prop} {a a' : α} (h : R a a') : MR R (pure a : M α) (pure a') := .ok h

theorem MR.same_err {α : Type} {R : α → α → Prop} (e : Err) : MR R (.error (.err e)) (.error (.err e)) := .err rfl

theorem MR.liftE {α : Type} {R : α → α → Prop} {x x' : Except Err α} (h : ArgsRel R x x') :
    MR R (liftE x) (liftE x') := by
  cases h with
  | err e => exact .err rfl
  | ok x x' h => exact .ok h

/-! ### the simulation relation -/

/-- the two states differ only in the representation tags of the (well-formed) values on the
value and environment stacks -/
structure StateEraseEq (s s' : MState) : Prop where
  val : ListReq s.valStack s'.valStack
  env : ListReq s.envStack s'.envStack
  valLen : s.valLen = s'.valLen
  envLen : s.envLen = s'.envLen
  ops : s.opStack = s'.opStack
  guards : s.softforkStack = s'.softforkStack
  allocs : s.allocatorStack = s'.allocatorStack
  ctr : s.ctr = s'.ctr

/-- a step result: same cost, related states -/
def StepRel (r r' : Nat × MState) : Prop := r.1 = r'.1 ∧ StateEraseEq r.2 r'.2

theorem pop_rel {s s' : MState} (h : StateEraseEq s s') :
    MR (fun r r' => Req r.1 r'.1 ∧ StateEraseEq r.2 r'.2) s.pop s'.pop := by
  unfold MState.pop
  have h1 := h.val
  generalize hs : s.valStack = vs at h1 ⊢
  generalize hs' : s'.valStack = vs' at h1 ⊢
  cases h1 with
  | nil => exact .err rfl
  | cons hx ht =>
    exact .ok ⟨hx, ⟨ht, h.env, by simp [h.valLen], h.envLen, h.ops, h.guards, h.allocs, h.ctr⟩⟩

theorem push_rel {s s' : MState} (h : StateEraseEq s s') {v v' : Val} (hv : Req v v') :
    MR StateEraseEq (s.push v) (s'.push v') := by
  unfold MState.push
  rw [h.valLen]
  split
  · exact .err rfl
  · exact .ok ⟨.cons hv h.val, h.env, by simp [h.valLen], h.envLen, h.ops, h.guards, h.allocs, h.ctr⟩

theorem pushEnv_rel {s s' : MState} (h : StateEraseEq s s') {v v' : Val} (hv : Req v v') :
    MR StateEraseEq (s.pushEnv v) (s'.pushEnv v') := by
  unfold MState.pushEnv
  rw [h.envLen]
  split
  · exact .err rfl
  · exact .ok ⟨h.val, .cons hv h.env, h.valLen, by simp [h.envLen], h.ops, h.guards, h.allocs, h.ctr⟩

theorem pushOp_rel {s s' : MState} (h : StateEraseEq s s') (o : Operation) :
    StateEraseEq (s.pushOp o) (s'.pushOp o) :=
  ⟨h.val, h.env, h.valLen, h.envLen, by simp [MState.pushOp, h.ops], h.guards, h.allocs, h.ctr⟩

theorem consOp_rel {s s' : MState} (h : StateEraseEq s s') : MR StepRel (consOp s) (consOp s') := by
  unfold consOp
  refine (pop_rel h).bind ?_
  intro ⟨v1, s1⟩ ⟨v1', s1'⟩ ⟨hv1, hs1⟩
  refine (pop_rel hs1).bind ?_
  intro ⟨v2, s2⟩ ⟨v2', s2'⟩ ⟨hv2, hs2⟩
  simp only at hv1 hs1 hv2 hs2 ⊢
  rw [hs2.ctr]
  unfold allocPair
  cases s2'.ctr.newPair with
  | error e => exact .err rfl
  | ok c' =>
    refine MR.bind (R := StateEraseEq) ?_ ?_
    · exact push_rel (s := { s2 with ctr := c' }) (s' := { s2' with ctr := c' })
        ⟨hs2.val, hs2.env, hs2.valLen, hs2.envLen, hs2.ops, hs2.guards, hs2.allocs, rfl⟩ (hv1.pair hv2)
    · intro a a' ha; exact .ok ⟨rfl, ha⟩

/-! ### traversal -/

theorem walk_req (bits : List Bool) {v v' : Val} (h : Req v v') (cost : Nat) :
    ArgsRel (fun r r' => r.1 = r'.1 ∧ Req r.2 r'.2) (walk bits v cost) (walk bits v' cost) := by
  induction bits generalizing v v' cost with
  | nil => exact .ok _ _ ⟨rfl, h⟩
  | cons bit bits ih =>
    cases h.cases with
    | atom b t t' _ _ => exact .err _
    | pair l r l' r' hl hr =>
      simp only [walk]
      cases bit
      · exact ih hl _
      · exact ih hr _

theorem traversePath_req (b : Bytes) {env env' : Val} (h : Req env env') :
    ArgsRel (fun r r' => r.1 = r'.1 ∧ Req r.2 r'.2) (traversePath b env) (traversePath b env') := by
  unfold traversePath
  simp only []
  split
  · exact .ok _ _ ⟨rfl, Req.nil⟩
  · exact walk_req _ h _

/-! ### the dialect -/

/-- outcomes of one operator call in the two runs: equal cost, erase-equal well-formed values, equal
counters (heap included), or the same kind of error; a guarded call is related to anything -/
def OpCallRel : Option OpRes → Option OpRes → Prop
  | none, _ => True
  | _, none => True
  | some (.error e), some (.error e') => e.kind = e'.kind
  | some (.ok (k, v, c)), some (.ok (k', v', c')) => k = k' ∧ Req v v' ∧ c = c'
  | _, _ => False

/-- what the simulation needs from a dialect -/
structure DialectRepr (d : Dialect) : Prop where
  gc : ∀ o o', Req o o' → d.gcCandidate o = d.gcCandidate o'
  op : ∀ o o' args args' m ext c, Req o o' → Req args args' →
    OpCallRel (d.op o args m ext c) (d.op o' args' m ext c)

/-! ### `eval_pair` -/

theorem pushOperands_rel {v v' : Val} (hv : Req v v') {s s' : MState} (h : StateEraseEq s s') :
    MR (fun r r' => Req r.1 r'.1 ∧ StateEraseEq r.2 r'.2) (pushOperands v s) (pushOperands v' s') := by
  induction v generalizing v' s s' with
  | atom b t =>
    cases hv.cases with
    | atom _ _ t' _ _ => exact .ok ⟨hv, h⟩
  | pair f r _ ihr =>
    cases hv.cases with
    | pair _ _ f' r' hf hr =>
      simp only [pushOperands]
      refine (push_rel (pushOp_rel h .SwapEval) hf).bind ?_
      intro a a' ha
      exact ihr hr ha

theorem evalOpAtom_rel {d : Dialect} (hd : DialectRepr d) {s s' : MState} (h : StateEraseEq s s')
    {o o' l l' env env' : Val} (ho : Req o o') (hl : Req l l') (he : Req env env') :
    MR StepRel (evalOpAtom d s o l env) (evalOpAtom d s' o' l' env') := by
  unfold evalOpAtom
  rw [smallNumber_req ho, hd.gc o o' ho]
  split
  · refine (push_rel h hl).bind ?_
    intro a a' ha; exact .ok ⟨rfl, ha⟩
  · have hs1 : StateEraseEq
        (if d.gcCandidate o' = true then
          ({ s with allocatorStack := s.allocatorStack + 1 }.pushOp .RestoreAllocator) else s)
        (if d.gcCandidate o' = true then
          ({ s' with allocatorStack := s'.allocatorStack + 1 }.pushOp .RestoreAllocator) else s') := by
      split
      · exact pushOp_rel (s := { s with allocatorStack := s.allocatorStack + 1 })
          (s' := { s' with allocatorStack := s'.allocatorStack + 1 })
          ⟨h.val, h.env, h.valLen, h.envLen, h.ops, h.guards, by simp [h.allocs], h.ctr⟩ _
      · exact h
    refine (pushEnv_rel hs1 he).bind ?_
    intro a a' ha
    refine (push_rel (pushOp_rel ha .Apply) ho).bind ?_
    intro a1 a1' ha1
    refine (pushOperands_rel hl ha1).bind ?_
    intro ⟨t, s2⟩ ⟨t', s2'⟩ ⟨ht, hs2⟩
    simp only at ht hs2 ⊢
    cases ht.cases with
    | pair _ _ _ _ _ _ => exact .err rfl
    | atom b _ _ _ _ =>
      simp only []
      split
      · exact .err rfl
      · refine (push_rel hs2 Req.nil).bind ?_
        intro a2 a2' ha2; exact .ok ⟨rfl, ha2⟩

theorem evalPair_rel (cfg : Cfg) {d : Dialect} (hd : DialectRepr d) {s s' : MState} (h : StateEraseEq s s')
    {p p' env env' : Val} (hp : Req p p') (he : Req env env') :
    MR StepRel (evalPair cfg d s p env) (evalPair cfg d s' p' env') := by
  have key : MR StepRel (evalPair { fastpath := false } d s p env) (evalPair { fastpath := false } d s' p' env') := by
    cases hp.cases with
    | atom b t t' _ _ =>
      simp only [evalPair, Bool.false_eq_true, if_false]
      refine (MR.liftE (traversePath_req b he)).bind ?_
      intro r r' ⟨hr1, hr2⟩
      refine (push_rel h hr2).bind ?_
      intro a a' ha
      exact .ok ⟨hr1, ha⟩
    | pair o l o' l' ho hl =>
      cases ho.cases with
      | atom b t t' _ _ => exact evalOpAtom_rel hd h ho hl he
      | pair no x no' x' hno hx =>
        simp only [evalPair]
        refine (MR.liftE (getArgs1_req ho _)).bind ?_
        intro inner inner' hin
        rw [isPair_req hin]
        split
        · exact .err rfl
        · refine (pushEnv_rel h he).bind ?_
          intro a a' ha
          refine (push_rel ha hno).bind ?_
          intro a1 a1' ha1
          refine (push_rel ha1 hl).bind ?_
          intro a2 a2' ha2
          exact .ok ⟨rfl, pushOp_rel ha2 _⟩
  obtain ⟨fp⟩ := cfg
  cases fp
  · exact key
  · rw [evalPair_fastpath d s p env hp.1, evalPair_fastpath d s' p' env' hp.2.1]; exact key

theorem swapEvalOp_rel (cfg : Cfg) {d : Dialect} (hd : DialectRepr d) {s s' : MState} (h : StateEraseEq s s') :
    MR StepRel (swapEvalOp cfg d s) (swapEvalOp cfg d s') := by
  unfold swapEvalOp
  refine (pop_rel h).bind ?_
  intro ⟨v2, s1⟩ ⟨v2', s1'⟩ ⟨hv2, hs1⟩
  refine (pop_rel hs1).bind ?_
  intro ⟨p, s2⟩ ⟨p', s2'⟩ ⟨hp, hs2⟩
  simp only at hv2 hs1 hp hs2 ⊢
  have he := hs2.env
  generalize hes : s2.envStack = es at he ⊢
  generalize hes' : s2'.envStack = es' at he ⊢
  cases he with
  | nil => exact .err rfl
  | cons henv _ =>
    simp only []
    refine (push_rel hs2 hv2).bind ?_
    intro a a' ha
    exact evalPair_rel cfg hd (pushOp_rel ha .Cons) hp henv

end Clvm.Interp
