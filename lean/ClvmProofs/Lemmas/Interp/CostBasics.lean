/-
C10: basic facts used by every per-operator cost lemma — argument extraction, the sizes/values
`int_atom` reports under the representation invariant, allocation results.
-/
import ClvmModel.Interp.Machine
import ClvmModel.Spec.Cost
import ClvmProofs.Lemmas.AllocInt

namespace Clvm.Interp
open Clvm Clvm.Alloc

/-- "a successful call charges the documented cost": for every flag set, budget, well-formed argument
list and allocator state -/
def CostOK (f : OpFn) (spec : Bool → List Val → Val → Nat) : Prop :=
  ∀ (flags m : Nat) (args : Val) (c : Ctr) (cost : Nat) (v : Val) (c' : Ctr),
    args.wf = true → f flags m args c = .ok (cost, v, c') →
      cost = spec (newModel flags) (argList args) v

/-! ### argument lists -/

theorem wf_argList (args : Val) (h : args.wf = true) : ∀ v ∈ argList args, v.wf = true := by
  induction args with
  | atom b t => simp [argList]
  | pair l r ihl ihr =>
    simp only [Val.wf, Bool.and_eq_true] at h
    intro v hv
    simp only [argList, List.mem_cons] at hv
    rcases hv with rfl | hv
    · exact h.1
    · exact ihr h.2 v hv

theorem getArgs_ok (n : Nat) (args : Val) (name : String) (l : List Val)
    (h : getArgs n args name = .ok l) : argList args = l ∧ l.length = n := by
  unfold getArgs matchArgs at h
  split at h
  · rename_i l' hl
    simp only at hl
    split at hl
    · rename_i hlen
      injection hl with hl; injection h with h
      subst hl; subst h
      exact ⟨rfl, by simpa using hlen⟩
    · cases hl
  · cases h

theorem getArgs1_ok (args : Val) (name : String) (a : Val) (h : getArgs1 args name = .ok a) :
    argList args = [a] := by
  unfold getArgs1 at h
  split at h
  · rename_i x hx; injection h with h; subst h; exact (getArgs_ok _ _ _ _ hx).1
  · cases h
  · cases h

theorem getArgs2_ok (args : Val) (name : String) (a b : Val) (h : getArgs2 args name = .ok (a, b)) :
    argList args = [a, b] := by
  unfold getArgs2 at h
  split at h
  · rename_i x y hx; injection h with h; injection h with h1 h2; subst h1; subst h2
    exact (getArgs_ok _ _ _ _ hx).1
  · cases h
  · cases h

theorem getArgs3_ok (args : Val) (name : String) (a b d : Val) (h : getArgs3 args name = .ok (a, b, d)) :
    argList args = [a, b, d] := by
  unfold getArgs3 at h
  split at h
  · rename_i x y z hx; injection h with h; injection h with h1 h2; injection h2 with h2 h3
    subst h1; subst h2; subst h3
    exact (getArgs_ok _ _ _ _ hx).1
  · cases h
  · cases h

/-! ### sizes and values under the representation invariant -/

theorem inline_facts (b : Bytes) (h : (Val.atom b true).wf = true) :
    lenForValue (beNat b) = b.length ∧ ((beNat b : Nat) : Int) = decodeInt b := by
  simp only [Val.wf] at h
  obtain ⟨v, hv⟩ := Option.isSome_iff_exists.mp h
  have hcore := (fitsInSmallAtom_core b v).mp hv
  obtain ⟨hcanon, hdec, hlt, _⟩ := hcore
  have hb : b = encodeInt (v : Int) := by rw [← hdec, encodeInt_decodeInt b hcanon]
  have hbe : beNat b = v := by
    have h1 := decodeInt_eq b
    rw [hdec] at h1
    split at h1
    · have := beNat_lt b
      have hp := ipow_pos b.length
      have hc := ipow_cast b.length
      omega
    · exact_mod_cast h1.symm
  constructor
  · rw [hbe, lenForValue_enc v (by omega), ← hb]
  · rw [hbe, hdec]

theorem intAtom_ok (v : Val) (name : String) (i : Int) (l : Nat) (hwf : v.wf = true)
    (h : intAtom v name = .ok (i, l)) : l = Spec.Cost.len v ∧ i = Spec.Cost.int v := by
  cases v with
  | pair x y => simp [intAtom] at h
  | atom b t =>
    cases t with
    | false =>
      simp only [intAtom] at h
      injection h with h; injection h with h1 h2
      exact ⟨h2.symm, h1.symm⟩
    | true =>
      simp only [intAtom] at h
      injection h with h; injection h with h1 h2
      have := inline_facts b hwf
      simp only [Spec.Cost.len, Spec.Cost.int]
      exact ⟨by rw [← h2, this.1], by rw [← h1, this.2]⟩

theorem malachiteIntAtom_ok (v : Val) (name : String) (i : Int) (l : Nat) (hwf : v.wf = true)
    (h : malachiteIntAtom v name = .ok (i, l)) : l = Spec.Cost.len v ∧ i = Spec.Cost.int v := by
  cases v with
  | pair x y => simp [malachiteIntAtom, node] at h
  | atom b t =>
    cases t with
    | false =>
      simp only [malachiteIntAtom, node] at h
      injection h with h; injection h with h1 h2
      exact ⟨h2.symm, h1.symm⟩
    | true =>
      simp only [malachiteIntAtom, node] at h
      injection h with h; injection h with h1 h2
      have := inline_facts b hwf
      simp only [Spec.Cost.len, Spec.Cost.int]
      exact ⟨by rw [← h2, this.1], by rw [← h1, this.2]⟩

/-! ### allocation -/

theorem allocAtom_ok (c : Ctr) (b : Bytes) (v : Val) (c' : Ctr) (h : allocAtom c b = .ok (v, c')) :
    v = Val.mkAtom b := by
  unfold allocAtom at h
  split at h
  · cases h
  · injection h with h; injection h with h1 _; exact h1.symm

theorem len_mkAtom (b : Bytes) : Spec.Cost.len (Val.mkAtom b) = b.length := rfl
theorem int_mkAtom (b : Bytes) : Spec.Cost.int (Val.mkAtom b) = decodeInt b := rfl

theorem allocNumber_ok (c : Ctr) (i : Int) (v : Val) (c' : Ctr) (h : allocNumber c i = .ok (v, c')) :
    v = Val.mkAtom (encodeInt i) := allocAtom_ok c _ v c' h

theorem mallocCost_mkAtom (cost : Nat) (b : Bytes) :
    mallocCost cost (Val.mkAtom b) = cost + Spec.Cost.malloc (Val.mkAtom b) := by
  simp [mallocCost, Val.mkAtom, Spec.Cost.malloc, Spec.Cost.len, Spec.Cost.MALLOC_PER_BYTE,
    Gen.MALLOC_COST_PER_BYTE, Nat.mul_comm]

/-! ### `limbs` -/

theorem natBE_length (n : Nat) : (natBE n).length = Spec.Cost.byteLen n := by
  fun_induction natBE n with
  | case1 => simp [Spec.Cost.byteLen]
  | case2 n hn ih =>
    rw [Spec.Cost.byteLen]
    simp [hn, ih]

theorem limbs_eq (v : Int) : limbs v = Spec.Cost.limbs v := natBE_length _
theorem limbsI64_eq (v : Int) : limbsI64 v = Spec.Cost.limbs v := natBE_length _

end Clvm.Interp
