/-
C04, machine level: ENABLE_GC is unobservable in the machine model.

Two dialects that differ only in `gc_candidate` (and in flag bits nothing reads) run the same
program to the same answer — same value, cost, error and counters — using different amounts of
fuel: the run with `gc_candidate` takes additional `RestoreAllocator` steps, which in the model
change nothing but the operation stack and the checkpoint count.  Stuttering simulation; the
invariant `MState.Shaped` (`LiftShape.lean`) shows that a pending `RestoreAllocator` never fails.
-/
import ClvmProofs.Lemmas.Interp.ReprMachine
import ClvmProofs.Lemmas.Interp.MachineAgree

namespace Clvm.Interp
open Clvm Clvm.Alloc

/-! ### outcomes -/

/-- equal stop reasons, or related results -/
inductive GR {α : Type} (R : α → α → Prop) : M α → M α → Prop where
  | ok {a a' : α} (h : R a a') : GR R (.ok a) (.ok a')
  | same (e : Stop) : GR R (.error e) (.error e)

theorem GR.bind {α β : Type} {R : α → α → Prop} {S : β → β → Prop} {x x' : M α} {f f' : α → M β}
    (hx : GR R x x') (hf : ∀ a a', R a a' → GR S (f a) (f' a')) : GR S (x >>= f) (x' >>= f') := by
  cases hx with
  | ok h => exact hf _ _ h
  | same e => exact .same e

theorem GR.liftE_eq {α : Type} (x : Except Err α) : GR Eq (liftE x) (liftE x) := by
  cases x with
  | error e => exact .same _
  | ok a => exact .ok rfl

/-! ### the two dialects and the two states -/

/-- `d1` is `d0` with some `gc_candidate` (and possibly other values of flag bits that neither the
machine nor the operators read); `d0` has none -/
structure GcPair (d0 d1 : Dialect) : Prop where
  quoteKw : d0.quoteKw = d1.quoteKw
  applyKw : d0.applyKw = d1.applyKw
  softforkKw : d0.softforkKw = d1.softforkKw
  softforkExtension : d0.softforkExtension = d1.softforkExtension
  allowUnknownOps : d0.allowUnknownOps = d1.allowUnknownOps
  canonicalInts : hasFlag d0.flags Gen.FLAG_CANONICAL_INTS = hasFlag d1.flags Gen.FLAG_CANONICAL_INTS
  limitSoftfork : hasFlag d0.flags Gen.FLAG_LIMIT_SOFTFORK = hasFlag d1.flags Gen.FLAG_LIMIT_SOFTFORK
  newCostModel : hasFlag d0.flags Gen.FLAG_NEW_COST_MODEL = hasFlag d1.flags Gen.FLAG_NEW_COST_MODEL
  op : ∀ (o args : Val) (m : Nat) (ext : OperatorSet) (c : Ctr), d0.op o args m ext c = d1.op o args m ext c
  noGc : ∀ o, d0.gcCandidate o = false

/-- the state of the run without GC is the state of the run with GC minus the pending
`RestoreAllocator` operations (and whatever the checkpoint count is) -/
structure GcEq (s s' : MState) : Prop where
  val : s.valStack = s'.valStack
  env : s.envStack = s'.envStack
  valLen : s.valLen = s'.valLen
  envLen : s.envLen = s'.envLen
  ops : s.opStack = stripOps s'.opStack
  guards : s.softforkStack = s'.softforkStack
  ctr : s.ctr = s'.ctr

def GStepRel (r r' : Nat × MState) : Prop := r.1 = r'.1 ∧ GcEq r.2 r'.2

theorem gc_pop {s s' : MState} (h : GcEq s s') :
    GR (fun r r' => r.1 = r'.1 ∧ GcEq r.2 r'.2) s.pop s'.pop := by
  unfold MState.pop
  rw [h.val]
  cases s'.valStack with
  | nil => exact .same _
  | cons v vs => exact .ok ⟨rfl, ⟨rfl, h.env, by simp [h.valLen], h.envLen, h.ops, h.guards, h.ctr⟩⟩

theorem gc_push {s s' : MState} (h : GcEq s s') (v : Val) : GR GcEq (s.push v) (s'.push v) := by
  unfold MState.push
  rw [h.valLen]
  split
  · exact .same _
  · exact .ok ⟨by simp [h.val], h.env, by simp, h.envLen, h.ops, h.guards, h.ctr⟩

theorem gc_pushEnv {s s' : MState} (h : GcEq s s') (v : Val) : GR GcEq (s.pushEnv v) (s'.pushEnv v) := by
  unfold MState.pushEnv
  rw [h.envLen]
  split
  · exact .same _
  · exact .ok ⟨h.val, by simp [h.env], h.valLen, by simp, h.ops, h.guards, h.ctr⟩

theorem gc_pushOp {s s' : MState} (h : GcEq s s') (o : Operation) (ho : o ≠ .RestoreAllocator) :
    GcEq (s.pushOp o) (s'.pushOp o) := by
  refine ⟨h.val, h.env, h.valLen, h.envLen, ?_, h.guards, h.ctr⟩
  cases o <;> first | exact absurd rfl ho | simp [MState.pushOp, stripOps, h.ops]

theorem gc_pushOperands (v : Val) {s s' : MState} (h : GcEq s s') :
    GR (fun r r' => r.1 = r'.1 ∧ GcEq r.2 r'.2) (pushOperands v s) (pushOperands v s') := by
  induction v generalizing s s' with
  | atom b t => exact .ok ⟨rfl, h⟩
  | pair f r _ ihr =>
    simp only [pushOperands]
    refine (gc_push (gc_pushOp h .SwapEval (by simp)) f).bind ?_
    intro a a' ha
    exact ihr ha

theorem gc_evalOpAtom {d0 d1 : Dialect} (hd : GcPair d0 d1) {s s' : MState} (h : GcEq s s') (o l env : Val) :
    GR GStepRel (evalOpAtom d0 s o l env) (evalOpAtom d1 s' o l env) := by
  unfold evalOpAtom
  rw [hd.quoteKw, hd.noGc o]
  split
  · refine (gc_push h l).bind ?_
    intro a a' ha; exact .ok ⟨rfl, ha⟩
  · have hs1 : GcEq s
        (if d1.gcCandidate o = true then
          ({ s' with allocatorStack := s'.allocatorStack + 1 }.pushOp .RestoreAllocator) else s') := by
      split
      · exact ⟨h.val, h.env, h.valLen, h.envLen, h.ops, h.guards, h.ctr⟩
      · exact h
    simp only [Bool.false_eq_true, if_false]
    refine (gc_pushEnv hs1 env).bind ?_
    intro a a' ha
    refine (gc_push (gc_pushOp ha .Apply (by simp)) o).bind ?_
    intro a1 a1' ha1
    refine (gc_pushOperands l ha1).bind ?_
    intro ⟨t, s2⟩ ⟨t', s2'⟩ ⟨ht, hs2⟩
    simp only at ht hs2 ⊢
    subst ht
    cases t with
    | pair _ _ => exact .same _
    | atom b _ =>
      simp only []
      split
      · exact .same _
      · refine (gc_push hs2 Val.nil).bind ?_
        intro a2 a2' ha2; exact .ok ⟨rfl, ha2⟩

theorem gc_evalPair (cfg : Cfg) {d0 d1 : Dialect} (hd : GcPair d0 d1) {s s' : MState} (h : GcEq s s')
    (p env : Val) : GR GStepRel (evalPair cfg d0 s p env) (evalPair cfg d1 s' p env) := by
  cases p with
  | atom b t =>
    simp only [evalPair]
    refine (GR.liftE_eq _).bind ?_
    intro r r' hr
    subst hr
    refine (gc_push h r.2).bind ?_
    intro a a' ha
    exact .ok ⟨rfl, ha⟩
  | pair o l =>
    cases o with
    | atom b t => exact gc_evalOpAtom hd h _ l env
    | pair no x =>
      simp only [evalPair]
      refine (GR.liftE_eq _).bind ?_
      intro inner inner' hin
      subst hin
      split
      · exact .same _
      · refine (gc_pushEnv h env).bind ?_
        intro a a' ha
        refine (gc_push ha no).bind ?_
        intro a1 a1' ha1
        refine (gc_push ha1 l).bind ?_
        intro a2 a2' ha2
        exact .ok ⟨rfl, gc_pushOp ha2 _ (by simp)⟩

theorem gc_swapEvalOp (cfg : Cfg) {d0 d1 : Dialect} (hd : GcPair d0 d1) {s s' : MState} (h : GcEq s s') :
    GR GStepRel (swapEvalOp cfg d0 s) (swapEvalOp cfg d1 s') := by
  unfold swapEvalOp
  refine (gc_pop h).bind ?_
  intro ⟨v2, s1⟩ ⟨v2', s1'⟩ ⟨hv2, hs1⟩
  refine (gc_pop hs1).bind ?_
  intro ⟨p, s2⟩ ⟨p', s2'⟩ ⟨hp, hs2⟩
  simp only at hv2 hs1 hp hs2 ⊢
  subst hv2; subst hp
  rw [hs2.env]
  cases s2'.envStack with
  | nil => exact .same _
  | cons env _ =>
    simp only []
    refine (gc_push hs2 v2).bind ?_
    intro a a' ha
    exact gc_evalPair cfg hd (gc_pushOp ha .Cons (by simp)) p env

theorem gc_consOp {s s' : MState} (h : GcEq s s') : GR GStepRel (consOp s) (consOp s') := by
  unfold consOp
  refine (gc_pop h).bind ?_
  intro ⟨v1, s1⟩ ⟨v1', s1'⟩ ⟨hv1, hs1⟩
  refine (gc_pop hs1).bind ?_
  intro ⟨v2, s2⟩ ⟨v2', s2'⟩ ⟨hv2, hs2⟩
  simp only at hv1 hs1 hv2 hs2 ⊢
  subst hv1; subst hv2
  rw [hs2.ctr]
  refine (GR.liftE_eq _).bind ?_
  intro ⟨p, c⟩ ⟨p', c'⟩ hp
  cases hp
  refine GR.bind (R := GcEq) (gc_push ?_ p) ?_
  · exact ⟨hs2.val, hs2.env, hs2.valLen, hs2.envLen, hs2.ops, hs2.guards, rfl⟩
  · intro a a' ha; exact .ok ⟨rfl, ha⟩

theorem gc_parse {d0 d1 : Dialect} (hd : GcPair d0 d1) (args : Val) :
    parseSoftforkArguments d0 args = parseSoftforkArguments d1 args := by
  unfold parseSoftforkArguments
  rw [hd.softforkExtension]
  cases getArgs4 args "softfork" with
  | error e => rfl
  | ok q =>
    obtain ⟨a1, a2, a3, a4⟩ := q
    simp only
    rw [uintAtom_flags 4 a2 "softfork" d0.flags d1.flags hd.canonicalInts]

theorem gc_applyOpBody (cfg : Cfg) {d0 d1 : Dialect} (hd : GcPair d0 d1) {t t' : MState} (h : GcEq t t')
    (o ol : Val) (cc mc : Nat) :
    GR GStepRel (applyOpBody cfg d0 t o ol cc mc) (applyOpBody cfg d1 t' o ol cc mc) := by
  unfold applyOpBody
  simp only [hd.applyKw, hd.softforkKw, uintAtom_flags 8 _ "softfork" d0.flags d1.flags hd.canonicalInts,
    gc_parse hd, hd.allowUnknownOps, hd.limitSoftfork, hd.newCostModel, hd.op, h.guards, h.ctr]
  split
  · refine (GR.liftE_eq _).bind ?_
    intro ⟨no, env⟩ ⟨no', env'⟩ he
    cases he
    refine (gc_evalPair cfg hd h no env).bind ?_
    intro ⟨c, u⟩ ⟨c', u'⟩ ⟨hc, hu⟩
    simp only at hc hu ⊢
    subst hc
    exact .ok ⟨rfl, hu⟩
  · split
    · refine (GR.liftE_eq _).bind ?_
      intro f f' hf
      subst hf
      refine (GR.liftE_eq _).bind ?_
      intro ec ec' hec
      subst hec
      split
      · exact .same _
      · split
        · exact .same _
        · cases parseSoftforkArguments d1 ol with
          | error err =>
            simp only []
            split
            · refine (gc_push h Val.nil).bind ?_
              intro a a' ha; exact .ok ⟨rfl, ha⟩
            · exact .same _
          | ok q =>
            obtain ⟨ext, prg, env⟩ := q
            simp only []
            split
            · exact .same _
            · refine (gc_evalPair cfg hd (gc_pushOp ?_ _ (by simp)) prg env).bind ?_
              · exact ⟨h.val, h.env, h.valLen, h.envLen, h.ops, rfl, rfl⟩
              · intro ⟨c, u⟩ ⟨c', u'⟩ ⟨hc, hu⟩
                simp only at hc hu ⊢
                subst hc
                exact .ok ⟨rfl, hu⟩
    · generalize d1.op o ol mc _ t'.ctr = r
      match r with
      | none => exact .same _
      | some (.error e) => exact .same _
      | some (.ok (k, v, c)) =>
        simp only []
        refine GR.bind (R := GcEq) (gc_push ?_ v) ?_
        · exact ⟨h.val, h.env, h.valLen, h.envLen, h.ops, rfl, rfl⟩
        · intro a a' ha; exact .ok ⟨rfl, ha⟩

theorem gc_applyOp (cfg : Cfg) {d0 d1 : Dialect} (hd : GcPair d0 d1) {s s' : MState} (h : GcEq s s')
    (cc mc : Nat) : GR GStepRel (applyOp cfg d0 s cc mc) (applyOp cfg d1 s' cc mc) := by
  rw [applyOp_eq_repr, applyOp_eq_repr]
  refine (gc_pop h).bind ?_
  intro ⟨ol, s1⟩ ⟨ol', s1'⟩ ⟨hol, hs1⟩
  refine (gc_pop hs1).bind ?_
  intro ⟨o, s2⟩ ⟨o', s2'⟩ ⟨ho, hs2⟩
  simp only at hol hs1 ho hs2 ⊢
  subst hol; subst ho
  have he := hs2.env
  generalize s2.envStack = es at he ⊢
  subst he
  cases s2'.envStack with
  | nil => exact .same _
  | cons x envs =>
    simp only []
    exact gc_applyOpBody cfg hd (t := { s2 with envStack := envs, envLen := s2.envLen - 1 })
      (t' := { s2' with envStack := envs, envLen := s2'.envLen - 1 })
      ⟨hs2.val, rfl, hs2.valLen, by simp [hs2.envLen], hs2.ops, hs2.guards, hs2.ctr⟩ _ _ _ _

theorem gc_exitGuard {s s' : MState} (h : GcEq s s') (cc : Nat) :
    GR GStepRel (exitGuard s cc) (exitGuard s' cc) := by
  unfold exitGuard
  rw [h.guards]
  cases s'.softforkStack with
  | nil => exact .same _
  | cons g rest =>
    simp only []
    split
    · exact .same _
    · rw [h.val, h.ctr]
      cases s'.valStack with
      | nil => exact .same _
      | cons _ vs =>
        simp only []
        refine GR.bind (R := GcEq) (gc_push ?_ Val.nil) ?_
        · exact ⟨rfl, h.env, by simp [h.valLen], h.envLen, h.ops, rfl, rfl⟩
        · intro a a' ha; exact .ok ⟨rfl, ha⟩

/-- **every step except `RestoreAllocator` is the same step in the two runs** -/
theorem gc_stepOp (cfg : Cfg) {d0 d1 : Dialect} (hd : GcPair d0 d1) {s s' : MState} (h : GcEq s s')
    (op : Operation) (hop : op ≠ .RestoreAllocator) (cost em : Nat) :
    GR GStepRel (stepOp cfg d0 s op cost em) (stepOp cfg d1 s' op cost em) := by
  cases op with
  | Apply => exact gc_applyOp cfg hd h _ _
  | ExitGuard => exact gc_exitGuard h _
  | Cons => exact gc_consOp h
  | SwapEval => exact gc_swapEvalOp cfg hd h
  | RestoreAllocator => exact absurd rfl hop

/-! ### the loop -/

/-- `runLoop_restore`, uniformly in the fuel -/
theorem runLoop_restore_all (cfg : Cfg) (d : Dialect) (mc : Nat) {s : MState} (hs : s.Shaped) (cost : Nat)
    (hc : ¬ cost > effMax mc s) {ops : List Operation} (hop : s.opStack = .RestoreAllocator :: ops) :
    ∃ s1, (∀ n, runLoop cfg d mc (n + 1) s cost = runLoop cfg d mc n s1 cost) ∧ s1.Shaped ∧
      s1.opStack = ops ∧ s1.valStack = s.valStack ∧ s1.envStack = s.envStack ∧ s1.valLen = s.valLen ∧
      s1.envLen = s.envLen ∧ s1.softforkStack = s.softforkStack ∧ s1.ctr = s.ctr := by
  have hsh : Shape (.RestoreAllocator :: ops) (flagsOf s.valStack) s.envStack.length s.softforkStack.length
      s.allocatorStack := by simpa [MState.Shaped, hop] using hs
  obtain ⟨hne, hna, hrest⟩ := hsh
  refine ⟨{ s with opStack := ops, allocatorStack := s.allocatorStack - 1 }, ?_, ?_, rfl, rfl, rfl, rfl, rfl,
    rfl, rfl⟩
  · intro n
    rw [runLoop_cons cfg d mc n s cost hc hop]
    have h0 : (s.allocatorStack == 0) = false := by
      cases hsa : s.allocatorStack with
      | zero => omega
      | succ k => rfl
    have hv : s.valStack.isEmpty = false := by
      cases hsv : s.valStack with
      | nil => rw [hsv] at hne; exact absurd rfl hne
      | cons _ _ => rfl
    simp only [stepOp, h0, hv, Bool.false_eq_true, if_false, Nat.add_zero]
  · simpa [MState.Shaped] using hrest

/-- the head of the operation stack is not a `RestoreAllocator` -/
def HeadOk (l : List Operation) : Prop := ∀ ops, l ≠ .RestoreAllocator :: ops

theorem stripOps_nil_of_headOk {l : List Operation} (hh : HeadOk l) (h : stripOps l = []) : l = [] := by
  cases l with
  | nil => rfl
  | cons op ops => cases op <;> first | exact absurd rfl (hh _) | simp [stripOps] at h

theorem stripOps_cons_of_headOk {l : List Operation} {op : Operation} {ops : List Operation} (hh : HeadOk l)
    (h : stripOps l = op :: ops) : ∃ ops2, l = op :: ops2 ∧ stripOps ops2 = ops ∧ op ≠ .RestoreAllocator := by
  cases l with
  | nil => simp [stripOps] at h
  | cons op' ops' =>
    cases op' <;> first
      | exact absurd rfl (hh _)
      | (simp only [stripOps, List.cons.injEq] at h
         obtain ⟨rfl, rfl⟩ := h
         exact ⟨_, rfl, rfl, by simp⟩)

/-- the run with GC drops its pending `RestoreAllocator`s -/
theorem gc_flush (cfg : Cfg) (d : Dialect) (mc cost : Nat) :
    ∀ (l : List Operation) {s1 : MState}, s1.opStack = l → s1.Shaped → ¬ cost > effMax mc s1 →
      ∃ k s2, (∀ m, runLoop cfg d mc (m + k) s1 cost = runLoop cfg d mc m s2 cost) ∧ s2.Shaped ∧
        HeadOk s2.opStack ∧ stripOps s2.opStack = stripOps s1.opStack ∧
        s2.valStack = s1.valStack ∧ s2.envStack = s1.envStack ∧ s2.valLen = s1.valLen ∧
        s2.envLen = s1.envLen ∧ s2.softforkStack = s1.softforkStack ∧ s2.ctr = s1.ctr := by
  intro l
  induction l with
  | nil =>
    intro s1 hop hs _
    exact ⟨0, s1, fun _ => rfl, hs, (fun ops h => by rw [hop] at h; cases h), rfl, rfl, rfl, rfl, rfl, rfl, rfl⟩
  | cons op ops ih =>
    intro s1 hop hs hc
    by_cases hra : op = .RestoreAllocator
    · subst hra
      obtain ⟨s1', he, hs1', ho1, hv1, he1, hvl1, hel1, hg1, hc1⟩ := runLoop_restore_all cfg d mc hs cost hc hop
      have hc' : ¬ cost > effMax mc s1' := by simpa [effMax, hg1] using hc
      obtain ⟨k, s2, hk, hs2, hh2, hst2, hv2, he2, hvl2, hel2, hg2, hc2⟩ := ih ho1 hs1' hc'
      refine ⟨k + 1, s2, ?_, hs2, hh2, ?_, hv2.trans hv1, he2.trans he1, hvl2.trans hvl1, hel2.trans hel1,
        hg2.trans hg1, hc2.trans hc1⟩
      · intro m
        rw [← Nat.add_assoc, he (m + k), hk m]
      · rw [hst2, ho1, hop]; rfl
    · refine ⟨0, s1, fun _ => rfl, hs, ?_, rfl, rfl, rfl, rfl, rfl, rfl, rfl⟩
      intro ops' h
      rw [hop] at h
      cases h
      exact hra rfl

/-- what one loop iteration does from aligned states (no pending `RestoreAllocator` on the GC side) -/
theorem gc_aligned (cfg : Cfg) {d0 d1 : Dialect} (hd : GcPair d0 d1) (mc : Nat) {s s2 : MState} (h : GcEq s s2)
    (hs2 : s2.Shaped) (hh : HeadOk s2.opStack) (cost : Nat) (hc : ¬ cost > effMax mc s) :
    (∀ m m', runLoop cfg d0 mc (m + 1) s cost = some (.ok (cost, s)) ∧
      runLoop cfg d1 mc (m' + 1) s2 cost = some (.ok (cost, s2))) ∨
    (∃ e, ∀ m m', runLoop cfg d0 mc (m + 1) s cost = some (.error e) ∧
      runLoop cfg d1 mc (m' + 1) s2 cost = some (.error e)) ∨
    (∃ c t t', GcEq t t' ∧ t'.Shaped ∧ ∀ m m', runLoop cfg d0 mc (m + 1) s cost = runLoop cfg d0 mc m t (cost + c) ∧
      runLoop cfg d1 mc (m' + 1) s2 cost = runLoop cfg d1 mc m' t' (cost + c)) := by
  have hem : effMax mc s = effMax mc s2 := by simp [effMax, h.guards]
  have hc2 : ¬ cost > effMax mc s2 := hem ▸ hc
  cases hops : s.opStack with
  | nil =>
    have h2 : s2.opStack = [] := stripOps_nil_of_headOk hh (by rw [← h.ops, hops])
    exact .inl fun m m' => ⟨runLoop_nil cfg d0 mc m s cost hc hops, runLoop_nil cfg d1 mc m' s2 cost hc2 h2⟩
  | cons op ops =>
    obtain ⟨ops2, h2, htl, hne⟩ := stripOps_cons_of_headOk hh (by rw [← h.ops, hops])
    have hst := gc_stepOp cfg hd (s := { s with opStack := ops }) (s' := { s2 with opStack := ops2 })
      ⟨h.val, h.env, h.valLen, h.envLen, htl.symm, h.guards, h.ctr⟩ op hne cost (effMax mc s2)
    have hshape : ∀ (c : Nat) (t : MState),
        stepOp cfg d1 { s2 with opStack := ops2 } op cost (effMax mc s2) = .ok (c, t) → t.Shaped := by
      intro c t ht
      refine stepOp_shape (s := { s2 with opStack := ops2 }) rfl ?_ ht
      simpa [MState.Shaped, h2] using hs2
    have e0 := fun m => runLoop_cons cfg d0 mc m s cost hc hops
    have e1 := fun m' => runLoop_cons cfg d1 mc m' s2 cost hc2 h2
    rw [hem] at e0
    revert hst hshape e0 e1
    generalize stepOp cfg d0 { s with opStack := ops } op cost (effMax mc s2) = r
    generalize stepOp cfg d1 { s2 with opStack := ops2 } op cost (effMax mc s2) = r'
    intro hst hshape e0 e1
    cases hst with
    | same e => exact .inr (.inl ⟨e, fun m m' => ⟨e0 m, e1 m'⟩⟩)
    | ok hr =>
      rename_i a a'
      obtain ⟨c, t⟩ := a; obtain ⟨c', t'⟩ := a'
      obtain ⟨hcc, ht⟩ := hr
      simp only at hcc ht
      subst hcc
      exact .inr (.inr ⟨c, t, t', ht, hshape _ _ rfl, fun m m' => ⟨e0 m, e1 m'⟩⟩)

theorem gc_loop_fwd (cfg : Cfg) {d0 d1 : Dialect} (hd : GcPair d0 d1) (mc : Nat) :
    ∀ (n : Nat) {s s' : MState} (cost : Nat) (x : M (Nat × MState)), GcEq s s' → s'.Shaped →
      runLoop cfg d0 mc n s cost = some x →
      ∃ n' x', runLoop cfg d1 mc n' s' cost = some x' ∧ GR GStepRel x x' := by
  intro n
  induction n with
  | zero => intro s s' cost x _ _ h; simp [runLoop_zero] at h
  | succ m ih =>
    intro s s' cost x h hs' hx
    have hem : effMax mc s = effMax mc s' := by simp [effMax, h.guards]
    by_cases hc : cost > effMax mc s
    · rw [runLoop_over cfg d0 mc m s cost hc] at hx
      cases hx
      exact ⟨1, _, runLoop_over cfg d1 mc 0 s' cost (hem ▸ hc), .same _⟩
    · obtain ⟨k, s2, hk, hs2, hh2, hst2, hv2, he2, hvl2, hel2, hg2, hc2⟩ :=
        gc_flush cfg d1 mc cost s'.opStack rfl hs' (hem ▸ hc)
      have h2 : GcEq s s2 := ⟨h.val.trans hv2.symm, h.env.trans he2.symm, h.valLen.trans hvl2.symm,
        h.envLen.trans hel2.symm, h.ops.trans hst2.symm, h.guards.trans hg2.symm, h.ctr.trans hc2.symm⟩
      rcases gc_aligned cfg hd mc h2 hs2 hh2 cost hc with hA | ⟨e, hA⟩ | ⟨c, t, t', ht, hst', hA⟩
      · rw [(hA m 0).1] at hx; cases hx
        exact ⟨1 + k, .ok (cost, s2), by rw [hk 1]; exact (hA m 0).2, .ok ⟨rfl, h2⟩⟩
      · rw [(hA m 0).1] at hx; cases hx
        exact ⟨1 + k, .error e, by rw [hk 1]; exact (hA m 0).2, .same _⟩
      · rw [(hA m 0).1] at hx
        obtain ⟨n'', x', hr', hrel⟩ := ih (cost + c) x ht hst' hx
        exact ⟨n'' + 1 + k, x', by rw [hk (n'' + 1), (hA m n'').2]; exact hr', hrel⟩

theorem gc_loop_bwd (cfg : Cfg) {d0 d1 : Dialect} (hd : GcPair d0 d1) (mc : Nat) :
    ∀ (n' : Nat) {s s' : MState} (cost : Nat) (x' : M (Nat × MState)), GcEq s s' → s'.Shaped →
      runLoop cfg d1 mc n' s' cost = some x' →
      ∃ n x, runLoop cfg d0 mc n s cost = some x ∧ GR GStepRel x x' := by
  intro n'
  induction n' with
  | zero => intro s s' cost x _ _ h; simp [runLoop_zero] at h
  | succ m' ih =>
    intro s s' cost x' h hs' hx
    have hem : effMax mc s = effMax mc s' := by simp [effMax, h.guards]
    by_cases hc : cost > effMax mc s
    · rw [runLoop_over cfg d1 mc m' s' cost (hem ▸ hc)] at hx
      cases hx
      exact ⟨1, _, runLoop_over cfg d0 mc 0 s cost hc, .same _⟩
    · by_cases hra : ∃ ops, s'.opStack = .RestoreAllocator :: ops
      · obtain ⟨ops, hop⟩ := hra
        obtain ⟨s1, he, hs1, ho1, hv1, he1, hvl1, hel1, hg1, hc1⟩ :=
          runLoop_restore_all cfg d1 mc hs' cost (hem ▸ hc) hop
        rw [he m'] at hx
        refine ih cost x' ?_ hs1 hx
        exact ⟨h.val.trans hv1.symm, h.env.trans he1.symm, h.valLen.trans hvl1.symm, h.envLen.trans hel1.symm,
          by rw [h.ops, hop, ho1]; rfl, h.guards.trans hg1.symm, h.ctr.trans hc1.symm⟩
      · have hh : HeadOk s'.opStack := fun ops hop => hra ⟨ops, hop⟩
        rcases gc_aligned cfg hd mc h hs' hh cost hc with hA | ⟨e, hA⟩ | ⟨c, t, t', ht, hst', hA⟩
        · rw [(hA 0 m').2] at hx; cases hx
          exact ⟨1, .ok (cost, s), (hA 0 m').1, .ok ⟨rfl, h⟩⟩
        · rw [(hA 0 m').2] at hx; cases hx
          exact ⟨1, .error e, (hA 0 m').1, .same _⟩
        · rw [(hA 0 m').2] at hx
          obtain ⟨n, x, hr, hrel⟩ := ih (cost + c) x' ht hst' hx
          exact ⟨n + 1, x, by rw [(hA n m').1]; exact hr, hrel⟩

/-! ### whole runs -/

/-- the tail of `run_program` after the loop -/
def finishRun (y : Option (M (Nat × MState))) : Option OpRes :=
  match y with
  | none => none
  | some (.error (.err e)) => some (.error e)
  | some (.error .unsupported) => none
  | some (.ok (cost, s)) =>
    match s.pop with
    | .error (.err e) => some (.error e)
    | .error .unsupported => none
    | .ok (v, s) => some (.ok (cost, v, s.ctr))

theorem runProgram_eq_finish (cfg : Cfg) (d : Dialect) (fuel : Nat) (c0 : Ctr) (p env : Val) (mc : Nat) :
    runProgram cfg d fuel c0 p env mc =
      match c0.addGhostAtom 1 with
      | .error e => some (.error e)
      | .ok c =>
        match evalPair cfg d { ctr := c } p env with
        | .error (.err e) => some (.error e)
        | .error .unsupported => none
        | .ok (cost, s) => finishRun (runLoop cfg d (if mc == 0 then U64_MAX else mc) fuel s cost) := by
  unfold runProgram finishRun
  cases c0.addGhostAtom 1 with
  | error e => rfl
  | ok c =>
    simp only []
    cases evalPair cfg d { ctr := c } p env with
    | error e => cases e <;> rfl
    | ok a =>
      obtain ⟨k, s⟩ := a
      simp only []
      cases runLoop cfg d (if mc == 0 then U64_MAX else mc) fuel s k with
      | none => rfl
      | some x =>
        cases x with
        | error e => cases e <;> rfl
        | ok b => rfl

theorem finishRun_rel {x x' : M (Nat × MState)} (h : GR GStepRel x x') : finishRun (some x) = finishRun (some x') := by
  cases h with
  | same e => rfl
  | ok hr =>
    rename_i a a'
    obtain ⟨k, s⟩ := a; obtain ⟨k', s'⟩ := a'
    obtain ⟨hk, hs⟩ := hr
    simp only at hk hs
    subst hk
    unfold finishRun
    simp only []
    have hp := gc_pop hs
    revert hp
    generalize s.pop = z
    generalize s'.pop = z'
    intro hp
    cases hp with
    | same e => rfl
    | ok hv =>
      rename_i b b'
      obtain ⟨v, t⟩ := b; obtain ⟨v', t'⟩ := b'
      obtain ⟨hv1, ht⟩ := hv
      simp only at hv1 ht ⊢
      rw [hv1, ht.ctr]

theorem finishRun_some {y : Option (M (Nat × MState))} {r : OpRes} (h : finishRun y = some r) : ∃ x, y = some x := by
  cases y with
  | none => cases h
  | some x => exact ⟨x, rfl⟩

/-- **ENABLE_GC is unobservable in the machine model** (generic form): if `d1` is `d0` plus a
`gc_candidate`, every terminating run of `d0` is a terminating run of `d1` with exactly the same
outcome — value, cost, error, counters — and conversely; only the fuel differs. -/
theorem gc_unobservable_model (cfg : Cfg) {d0 d1 : Dialect} (hd : GcPair d0 d1) (c0 : Ctr) (p env : Val)
    (mc : Nat) (r : OpRes) :
    (∀ fuel, runProgram cfg d0 fuel c0 p env mc = some r → ∃ fuel', runProgram cfg d1 fuel' c0 p env mc = some r) ∧
    (∀ fuel', runProgram cfg d1 fuel' c0 p env mc = some r → ∃ fuel, runProgram cfg d0 fuel c0 p env mc = some r) := by
  have h0 : ∀ c, GcEq ({ ctr := c } : MState) ({ ctr := c } : MState) :=
    fun c => ⟨rfl, rfl, rfl, rfl, rfl, rfl, rfl⟩
  constructor
  · intro fuel h
    rw [runProgram_eq_finish] at h
    cases hg : c0.addGhostAtom 1 with
    | error e =>
      rw [hg] at h
      exact ⟨0, by rw [runProgram_eq_finish, hg]; exact h⟩
    | ok c =>
      rw [hg] at h
      simp only [] at h
      have hev := gc_evalPair cfg hd (h0 c) p env
      have hi' : ∀ k s, evalPair cfg d1 { ctr := c } p env = .ok (k, s) → s.Shaped := fun k s h => initial_shaped h
      revert hev h hi'
      generalize hx0 : evalPair cfg d0 { ctr := c } p env = x
      generalize hx1 : evalPair cfg d1 { ctr := c } p env = x'
      intro h hev hi'
      cases hev with
      | same e => exact ⟨0, by rw [runProgram_eq_finish, hg]; simp only [hx1]; cases e <;> exact h⟩
      | ok hr =>
        rename_i a a'
        obtain ⟨k, s⟩ := a; obtain ⟨k', s'⟩ := a'
        obtain ⟨hk, hs⟩ := hr
        simp only at hk hs h
        subst hk
        obtain ⟨x, hx⟩ := finishRun_some h
        obtain ⟨n', x', hr', hrel⟩ := gc_loop_fwd cfg hd _ fuel k x hs (hi' _ _ rfl) hx
        refine ⟨n', ?_⟩
        rw [runProgram_eq_finish, hg]
        simp only [hx1, hr']
        rw [← finishRun_rel hrel, ← hx]; exact h
  · intro fuel' h
    rw [runProgram_eq_finish] at h
    cases hg : c0.addGhostAtom 1 with
    | error e =>
      rw [hg] at h
      exact ⟨0, by rw [runProgram_eq_finish, hg]; exact h⟩
    | ok c =>
      rw [hg] at h
      simp only [] at h
      have hev := gc_evalPair cfg hd (h0 c) p env
      have hi' : ∀ k s, evalPair cfg d1 { ctr := c } p env = .ok (k, s) → s.Shaped := fun k s h => initial_shaped h
      revert hev h hi'
      generalize hx0 : evalPair cfg d0 { ctr := c } p env = x
      generalize hx1 : evalPair cfg d1 { ctr := c } p env = x'
      intro h hev hi'
      cases hev with
      | same e => exact ⟨0, by rw [runProgram_eq_finish, hg]; simp only [hx0]; cases e <;> exact h⟩
      | ok hr =>
        rename_i a a'
        obtain ⟨k, s⟩ := a; obtain ⟨k', s'⟩ := a'
        obtain ⟨hk, hs⟩ := hr
        simp only at hk hs h
        subst hk
        obtain ⟨x', hx'⟩ := finishRun_some h
        obtain ⟨n, x, hr0, hrel⟩ := gc_loop_bwd cfg hd _ fuel' k x' hs (hi' _ _ rfl) hx'
        refine ⟨n, ?_⟩
        rw [runProgram_eq_finish, hg]
        simp only [hx0, hr0]
        rw [finishRun_rel hrel, ← hx']; exact h

end Clvm.Interp
