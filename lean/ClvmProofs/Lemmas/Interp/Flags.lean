/-
C07 (per-operator layer): which flag bits an operator reads, and in which direction.

Every operator of `coreOpByName` and `opUnknown` reads its flags only through
`newModel flags`, `hasFlag flags FLAG_LIMITS`, `hasFlag flags FLAG_DISABLE_OP` and
`hasFlag flags FLAG_MALACHITE`; the last one is irrelevant (`malachiteIntAtom = intAtom`), and the
two limit bits can only turn a success into a failure.
-/
import ClvmProofs.Lemmas.Interp.FlagBits

namespace Clvm.Interp
open Clvm Clvm.Alloc

/-! ### malachite argument decoding is the same function (C06 core) -/

theorem malachiteIntAtom_eq (v : Val) (name : String) : malachiteIntAtom v name = intAtom v name := by
  cases v with
  | atom b inl => cases inl <;> rfl
  | pair l r => rfl

theorem malachiteIntAtom_eq' : malachiteIntAtom = intAtom := by
  funext v name; exact malachiteIntAtom_eq v name

theorem opDiv_eq (F : Nat) : opDiv F = opDivWith intAtom F := by
  funext m a c; simp only [opDiv, malachiteIntAtom_eq', ite_self]
theorem opDivmod_eq (F : Nat) : opDivmod F = opDivmodWith intAtom F := by
  funext m a c; simp only [opDivmod, malachiteIntAtom_eq', ite_self]
theorem opMod_eq (F : Nat) : opMod F = opModWith intAtom F := by
  funext m a c; simp only [opMod, malachiteIntAtom_eq', ite_self]
theorem opModpow_eq (F : Nat) : opModpow F = opModpowWith intAtom F := by
  funext m a c; simp only [opModpow, malachiteIntAtom_eq', ite_self]

/-! ### the flag view of the operators -/

/-- `F` and `G` agree on the bits the core operators look at (MALACHITE excluded: irrelevant) -/
def SameView (F G : Nat) : Prop :=
  newModel F = newModel G ∧ hasFlag F Gen.FLAG_LIMITS = hasFlag G Gen.FLAG_LIMITS ∧
  hasFlag F Gen.FLAG_DISABLE_OP = hasFlag G Gen.FLAG_DISABLE_OP

/-- `F` is at least as restrictive as `G` -/
def LeView (F G : Nat) : Prop :=
  newModel F = newModel G ∧ (hasFlag G Gen.FLAG_LIMITS = true → hasFlag F Gen.FLAG_LIMITS = true) ∧
  (hasFlag G Gen.FLAG_DISABLE_OP = true → hasFlag F Gen.FLAG_DISABLE_OP = true)

theorem SameView.le {F G : Nat} (h : SameView F G) : LeView F G :=
  ⟨h.1, fun x => h.2.1 ▸ x, fun x => h.2.2 ▸ x⟩

theorem SameView.symm {F G : Nat} (h : SameView F G) : SameView G F := ⟨h.1.symm, h.2.1.symm, h.2.2.symm⟩

theorem leView_restrict (F R : Nat) (hR : R &&& restrictionBits = R) : LeView (F ||| R) F :=
  ⟨newModel_or_restr hR F, fun h => by rw [hasFlag_or, h]; rfl, fun h => by rw [hasFlag_or, h]; rfl⟩

theorem sameView_relaxed (F : Nat) : SameView (F ||| Gen.FLAG_RELAXED_BLS) F :=
  ⟨newModel_or_relaxed F, hasFlag_or_relaxed F _ (by decide), hasFlag_or_relaxed F _ (by decide)⟩

theorem sameView_malachite (F : Nat) : SameView (F ||| Gen.FLAG_MALACHITE) F :=
  ⟨newModel_or_malachite F, hasFlag_or_malachite F _ (by decide), hasFlag_or_malachite F _ (by decide)⟩

/-! ### operators that read only `newModel` -/

section nm
variable {F G : Nat} (h : newModel F = newModel G)
include h

theorem opIf_nm : opIf F = opIf G := by funext m a c; simp only [opIf, h]
theorem opListp_nm : opListp F = opListp G := by funext m a c; simp only [opListp, h]
theorem opSha256_nm (cfg : Cfg) : opSha256 cfg F = opSha256 cfg G := by
  funext m a c; simp only [opSha256, h]
theorem opSubstr_nm : opSubstr F = opSubstr G := by funext m a c; simp only [opSubstr, h]
theorem arithCosts_nm : arithCosts F = arithCosts G := by simp only [arithCosts, h]
theorem opAdd_nm (cfg : Cfg) : opAdd cfg F = opAdd cfg G := by
  funext m a c; simp only [opAdd, h, arithCosts_nm h]
theorem opSubtract_nm (cfg : Cfg) : opSubtract cfg F = opSubtract cfg G := by
  funext m a c; simp only [opSubtract, h, arithCosts_nm h]
theorem opGr_nm (cfg : Cfg) : opGr cfg F = opGr cfg G := by funext m a c; simp only [opGr, h]
theorem binopReduction_nm (n : String) (i : Int) (f : Int → Int → Int) :
    binopReduction n i f F = binopReduction n i f G := by
  funext m a c; simp only [binopReduction, h]
theorem opUnknown_nm (op : Bytes) : opUnknown op F = opUnknown op G := by
  funext m a c; simp only [opUnknown, h]
end nm

/-! ### operators that read the limit bits -/

theorem mulLoop_same {F G : Nat} (h : SameView F G) (cfg : Cfg) (m sq : Nat) (l : List Val) :
    ∀ (cost : Nat) (total : Int) (l0 : Nat),
      mulLoop cfg F m sq l cost total l0 = mulLoop cfg G m sq l cost total l0 := by
  induction l with
  | nil => intros; rfl
  | cons a l ih =>
    intro cost total l0
    simp only [mulLoop, h.1, h.2.1, ih]

theorem opMultiply_same {F G : Nat} (h : SameView F G) (cfg : Cfg) : opMultiply cfg F = opMultiply cfg G := by
  funext m a c
  simp only [opMultiply, h.1, h.2.1, mulLoop_same h]

theorem divPrologue_same {F G : Nat} (h : SameView F G) (intA) (n e : String) (b p m : Nat) (a : Val) :
    divPrologue intA n e b p F m a = divPrologue intA n e b p G m a := by
  simp only [divPrologue, h.1, h.2.1, h.2.2]

theorem opDivWith_same {F G : Nat} (h : SameView F G) (intA) : opDivWith intA F = opDivWith intA G := by
  funext m a c; simp only [opDivWith, divPrologue_same h]
theorem opDivmodWith_same {F G : Nat} (h : SameView F G) (intA) : opDivmodWith intA F = opDivmodWith intA G := by
  funext m a c; simp only [opDivmodWith, divPrologue_same h]
theorem opModWith_same {F G : Nat} (h : SameView F G) (intA) : opModWith intA F = opModWith intA G := by
  funext m a c; simp only [opModWith, divPrologue_same h]
theorem opModpowWith_same {F G : Nat} (h : SameView F G) (intA) : opModpowWith intA F = opModpowWith intA G := by
  funext m a c; simp only [opModpowWith, h.1, h.2.1]

/-- **every core operator depends on the flags only through the view** -/
theorem coreOps_sameView {cfg : Cfg} {name : String} {f : OpFn} (hf : coreOpByName cfg name = some f)
    {F G : Nat} (h : SameView F G) : f F = f G := by
  unfold coreOpByName at hf
  split at hf <;> (try cases hf) <;> first
    | rfl
    | exact opIf_nm h.1
    | exact opListp_nm h.1
    | exact opSha256_nm h.1 _
    | exact opSubstr_nm h.1
    | exact opAdd_nm h.1 _
    | exact opSubtract_nm h.1 _
    | exact opGr_nm h.1 _
    | exact binopReduction_nm h.1 _ _ _
    | exact opMultiply_same h _
    | (rw [opDiv_eq, opDiv_eq]; exact opDivWith_same h _)
    | (rw [opDivmod_eq, opDivmod_eq]; exact opDivmodWith_same h _)
    | (rw [opMod_eq, opMod_eq]; exact opModWith_same h _)
    | (rw [opModpow_eq, opModpow_eq]; exact opModpowWith_same h _)

/-! ### monotonicity in the limit bits (C07) -/


theorem guard_mono {α : Type} (b1 b2 p : Bool) (e : Err) (x y : Except Err α) (r : α)
    (hb : b2 = true → b1 = true) (hxy : x = .ok r → y = .ok r)
    (h : (if (b1 && p) = true then Except.error e else x) = .ok r) :
    (if (b2 && p) = true then Except.error e else y) = .ok r := by
  cases b1 <;> cases b2 <;> cases p <;> simp_all

theorem mulLoop_le {F G : Nat} (h : LeView F G) (cfg : Cfg) (m sq : Nat) (l : List Val) :
    ∀ (cost : Nat) (total : Int) (l0 : Nat) (r : Nat × Int),
      mulLoop cfg F m sq l cost total l0 = .ok r → mulLoop cfg G m sq l cost total l0 = .ok r := by
  induction l with
  | nil => intro cost total l0 r hr; exact hr
  | cons a l ih =>
    intro cost total l0 r hr
    have h2 := h.2.1
    simp only [mulLoop, h.1] at hr ⊢
    generalize hasFlag F Gen.FLAG_LIMITS = bF at *
    generalize hasFlag G Gen.FLAG_LIMITS = bG at *
    generalize newModel G = nm at *
    have hb : (bG && !nm) = true → (bF && !nm) = true := by
      cases bG <;> cases bF <;> simp_all
    generalize (bF && !nm) = b1 at *
    generalize (bG && !nm) = b2 at *
    cases a with
    | pair x y => cases hfp : cfg.fastpath <;> simp [hfp, node, intAtom] at hr
    | atom b inl =>
      cases inl <;> cases hfp : cfg.fastpath <;> simp only [hfp, node, intAtom, Bool.false_eq_true, ↓reduceIte] at hr ⊢
      case true.true =>
        split at hr
        · cases hr
        · rename_i c2 t' heq
          exact guard_mono _ _ _ _ _ _ _ hb (ih _ _ _ _) hr
      all_goals
        split at hr
        · cases hr
        · rename_i c2 t' heq
          rw [guard_mono _ _ _ _ _ _ _ hb id heq]
          exact guard_mono _ _ _ _ _ _ _ hb (ih _ _ _ _) hr

theorem opMultiply_le {F G : Nat} (h : LeView F G) (cfg : Cfg) (m : Nat) (a : Val) (c : Ctr) (r) :
    opMultiply cfg F m a c = .ok r → opMultiply cfg G m a c = .ok r := by
  intro hr
  simp only [opMultiply, h.1] at hr ⊢
  have h2 := h.2.1
  have hml := mulLoop_le h cfg
  generalize hasFlag F Gen.FLAG_LIMITS = bF at *
  generalize hasFlag G Gen.FLAG_LIMITS = bG at *
  generalize newModel G = nm at *
  have hb : (bG && !nm) = true → (bF && !nm) = true := by
    cases bG <;> cases bF <;> simp_all
  generalize (bF && !nm) = b1 at *
  generalize (bG && !nm) = b2 at *
  cases hl : argList a with
  | nil => simpa only [hl] using hr
  | cons arg rest =>
    simp only [hl] at hr ⊢
    cases hi : intAtom arg "*" with
    | error e => simp [hi] at hr
    | ok tl =>
      obtain ⟨t, l0⟩ := tl
      simp only [hi] at hr ⊢
      split at hr
      · cases hr
      · rename_i cost total heq
        rw [guard_mono _ _ _ _ _ _ _ hb ?_ heq]
        · exact hr
        · intro hx
          split at hx
          · cases hx
          · exact hml _ _ _ _ _ _ _ hx

theorem divPrologue_le {F G : Nat} (h : LeView F G) (intA) (n e : String) (b p m : Nat) (a : Val) (r) :
    divPrologue intA n e b p F m a = .ok r → divPrologue intA n e b p G m a = .ok r := by
  intro hr
  simp only [divPrologue, h.1] at hr ⊢
  have h2 := h.2.1
  have h3 := h.2.2
  generalize hasFlag F Gen.FLAG_LIMITS = bF at *
  generalize hasFlag G Gen.FLAG_LIMITS = bG at *
  generalize hasFlag F Gen.FLAG_DISABLE_OP = dF at *
  generalize hasFlag G Gen.FLAG_DISABLE_OP = dG at *
  generalize newModel G = nm at *
  have hb : (bG && !nm) = true → (bF && !nm) = true := by
    cases bG <;> cases bF <;> simp_all
  have hd : (dG && !nm) = true → (dF && !nm) = true := by
    cases dG <;> cases dF <;> simp_all
  generalize (bF && !nm) = b1 at *
  generalize (bG && !nm) = b2 at *
  generalize (dF && !nm) = d1 at *
  generalize (dG && !nm) = d2 at *
  split at hr
  · cases hr
  · split at hr
    · cases hr
    · split at hr
      · cases hr
      · exact guard_mono _ _ _ _ _ _ _ hd (guard_mono _ _ _ _ _ _ _ hb id) hr

theorem opModpowWith_le {F G : Nat} (h : LeView F G) (intA) (m : Nat) (a : Val) (c : Ctr) (r) :
    opModpowWith intA F m a c = .ok r → opModpowWith intA G m a c = .ok r := by
  intro hr
  simp only [opModpowWith, h.1] at hr ⊢
  have h2 := h.2.1
  generalize hasFlag F Gen.FLAG_LIMITS = bF at *
  generalize hasFlag G Gen.FLAG_LIMITS = bG at *
  generalize newModel G = nm at *
  have hb : (bG && !nm) = true → (bF && !nm) = true := by
    cases bG <;> cases bF <;> simp_all
  generalize (bF && !nm) = b1 at *
  generalize (bG && !nm) = b2 at *
  split at hr
  · cases hr
  · split at hr
    · cases hr
    · split at hr
      · cases hr
      · split at hr
        · cases hr
        · split at hr
          · cases hr
          · split at hr
            · cases hr
            · exact guard_mono _ _ _ _ _ _ _ hb id hr

theorem opDivWith_le {F G : Nat} (h : LeView F G) (intA) (m : Nat) (a : Val) (c : Ctr) (r) :
    opDivWith intA F m a c = .ok r → opDivWith intA G m a c = .ok r := by
  intro hr
  simp only [opDivWith] at hr ⊢
  split at hr
  · cases hr
  · rename_i heq; rw [divPrologue_le h _ _ _ _ _ _ _ _ heq]; exact hr

theorem opDivmodWith_le {F G : Nat} (h : LeView F G) (intA) (m : Nat) (a : Val) (c : Ctr) (r) :
    opDivmodWith intA F m a c = .ok r → opDivmodWith intA G m a c = .ok r := by
  intro hr
  simp only [opDivmodWith] at hr ⊢
  split at hr
  · cases hr
  · rename_i heq; rw [divPrologue_le h _ _ _ _ _ _ _ _ heq]; exact hr

theorem opModWith_le {F G : Nat} (h : LeView F G) (intA) (m : Nat) (a : Val) (c : Ctr) (r) :
    opModWith intA F m a c = .ok r → opModWith intA G m a c = .ok r := by
  intro hr
  simp only [opModWith] at hr ⊢
  split at hr
  · cases hr
  · rename_i heq; rw [divPrologue_le h _ _ _ _ _ _ _ _ heq]; exact hr

/-- **every core operator is monotone in the restriction view** -/
theorem coreOps_leView {cfg : Cfg} {name : String} {f : OpFn} (hf : coreOpByName cfg name = some f)
    {F G : Nat} (h : LeView F G) (m : Nat) (a : Val) (c : Ctr) (r : Nat × Val × Ctr) :
    f F m a c = .ok r → f G m a c = .ok r := by
  unfold coreOpByName at hf
  split at hf <;> (try cases hf) <;> first
    | exact id
    | (rw [opIf_nm h.1]; exact id)
    | (rw [opListp_nm h.1]; exact id)
    | (rw [opSha256_nm h.1]; exact id)
    | (rw [opSubstr_nm h.1]; exact id)
    | (rw [opAdd_nm h.1]; exact id)
    | (rw [opSubtract_nm h.1]; exact id)
    | (rw [opGr_nm h.1]; exact id)
    | (rw [opLogand, binopReduction_nm h.1]; exact id)
    | (rw [opLogior, binopReduction_nm h.1]; exact id)
    | (rw [opLogxor, binopReduction_nm h.1]; exact id)
    | exact opMultiply_le h _ _ _ _ _
    | (rw [opDiv_eq, opDiv_eq]; exact opDivWith_le h _ _ _ _ _)
    | (rw [opDivmod_eq, opDivmod_eq]; exact opDivmodWith_le h _ _ _ _ _)
    | (rw [opMod_eq, opMod_eq]; exact opModWith_le h _ _ _ _ _)
    | (rw [opModpow_eq, opModpow_eq]; exact opModpowWith_le h _ _ _ _ _)

/-! ### C07 aggregates -/

/-- **C07**: restriction flags only remove successes, for every core operator and every build -/
theorem coreOps_restrict {cfg : Cfg} {name : String} {f : OpFn} (hf : coreOpByName cfg name = some f) :
    OpRestrict f := fun F R m args c r hR hr =>
  coreOps_leView hf (leView_restrict F R hR) m args c r hr

/-- **C07**: `RELAXED_BLS` changes no outcome (success *or* failure) of a core operator -/
theorem coreOps_relaxed_eq {cfg : Cfg} {name : String} {f : OpFn} (hf : coreOpByName cfg name = some f)
    (F : Nat) : f (F ||| Gen.FLAG_RELAXED_BLS) = f F :=
  coreOps_sameView hf (sameView_relaxed F)

theorem coreOps_relax {cfg : Cfg} {name : String} {f : OpFn} (hf : coreOpByName cfg name = some f) :
    OpRelax f := fun F m args c r hr => by rw [coreOps_relaxed_eq hf F]; exact hr

theorem opUnknown_restrict (op : Bytes) : OpRestrict (opUnknown op) := fun F R m args c r hR hr => by
  rw [opUnknown_nm (newModel_or_restr hR F)] at hr; exact hr

theorem opUnknown_relax (op : Bytes) : OpRelax (opUnknown op) := fun F m args c r hr => by
  rw [opUnknown_nm (newModel_or_relaxed F)]; exact hr

/-- `unknown_operator` (the dialect's wrapper, which reads `NO_UNKNOWN_OPS`) -/
theorem unknownOperator_restrict (op : Bytes) (args : Val) (F R m : Nat) (c : Ctr) (r : Nat × Val × Ctr)
    (hR : R &&& restrictionBits = R) (hr : unknownOperator op args (F ||| R) m c = .ok r) :
    unknownOperator op args F m c = .ok r := by
  unfold unknownOperator at hr ⊢
  rw [hasFlag_or] at hr
  cases hF : hasFlag F Gen.FLAG_NO_UNKNOWN_OPS
  · simp only [hF, Bool.false_or, Bool.false_eq_true, ↓reduceIte] at hr ⊢
    split at hr
    · cases hr
    · exact opUnknown_restrict op F R m args c r hR hr
  · simp [hF] at hr

end Clvm.Interp
