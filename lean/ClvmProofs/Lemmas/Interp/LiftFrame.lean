/-
The functions of the machine that never look at the softfork stack (`eval_pair`, `cons_op`,
`swap_eval_op`, …) commute with replacing it (`MState.setSf`) and leave it unchanged.  Used by the
relational liftings in which two runs differ only in the guards on the softfork stack (C02, C11).
-/
import ClvmProofs.Lemmas.Interp.LiftCore
namespace Clvm.Interp
open Clvm Clvm.Alloc

theorem push_setSf {s s' : MState} {v : Val} (x : List SoftforkGuard) (h : s.push v = .ok s') :
    (s.setSf x).push v = .ok (s'.setSf x) ∧ s'.softforkStack = s.softforkStack := by
  unfold MState.push at h ⊢
  split at h
  · cases h
  · rename_i hl
    cases h
    exact ⟨by simp only [MState.setSf, hl]; rfl, rfl⟩

theorem pushEnv_setSf {s s' : MState} {v : Val} (x : List SoftforkGuard) (h : s.pushEnv v = .ok s') :
    (s.setSf x).pushEnv v = .ok (s'.setSf x) ∧ s'.softforkStack = s.softforkStack := by
  unfold MState.pushEnv at h ⊢
  split at h
  · cases h
  · rename_i hl
    cases h
    exact ⟨by simp only [MState.setSf, hl]; rfl, rfl⟩

theorem pop_setSf {s s' : MState} {v : Val} (x : List SoftforkGuard) (h : s.pop = .ok (v, s')) :
    (s.setSf x).pop = .ok (v, s'.setSf x) ∧ s'.softforkStack = s.softforkStack := by
  obtain ⟨vs, hv, rfl⟩ := pop_ok h
  refine ⟨?_, rfl⟩
  unfold MState.pop
  simp only [MState.setSf, hv]

theorem pushOperands_setSf (x : List SoftforkGuard) : ∀ (ol : Val) (s : MState) (t : Val) (s' : MState),
    pushOperands ol s = .ok (t, s') →
    pushOperands ol (s.setSf x) = .ok (t, s'.setSf x) ∧ s'.softforkStack = s.softforkStack := by
  intro ol
  induction ol with
  | atom b i =>
    intro s t s' h
    simp only [pushOperands] at h ⊢
    cases M_pure_ok h
    exact ⟨rfl, rfl⟩
  | pair f r _ ihr =>
    intro s t s' h
    simp only [pushOperands] at h ⊢
    obtain ⟨s1, h1, h⟩ := M_bind_ok h
    obtain ⟨e1, f1⟩ := push_setSf x h1
    obtain ⟨e2, f2⟩ := ihr s1 t s' h
    refine ⟨?_, f2.trans f1⟩
    have : (s.setSf x).pushOp .SwapEval = (s.pushOp .SwapEval).setSf x := rfl
    rw [this, M_bind_eq e1]; exact e2

theorem evalOpAtom_setSf {d : Dialect} {s s' : MState} {o ol env : Val} {c : Nat} (x : List SoftforkGuard)
    (h : evalOpAtom d s o ol env = .ok (c, s')) :
    evalOpAtom d (s.setSf x) o ol env = .ok (c, s'.setSf x) ∧ s'.softforkStack = s.softforkStack := by
  unfold evalOpAtom at h ⊢
  split at h
  · rename_i hq
    rw [if_pos hq]
    obtain ⟨s1, h1, h⟩ := M_bind_ok h
    cases M_pure_ok h
    obtain ⟨e1, f1⟩ := push_setSf x h1
    exact ⟨by rw [M_bind_eq e1]; rfl, f1⟩
  · rename_i hq
    rw [if_neg hq]
    simp only at h ⊢
    obtain ⟨s1, h1, h⟩ := M_bind_ok h
    obtain ⟨s2, h2, h⟩ := M_bind_ok h
    obtain ⟨⟨t, s3⟩, h3, h⟩ := M_bind_ok h
    have hs0 : (if d.gcCandidate o = true
        then ({ s.setSf x with allocatorStack := (s.setSf x).allocatorStack + 1 }.pushOp .RestoreAllocator)
        else s.setSf x) =
        (if d.gcCandidate o = true
        then ({ s with allocatorStack := s.allocatorStack + 1 }.pushOp .RestoreAllocator) else s).setSf x := by
      split <;> rfl
    have hs0f : (if d.gcCandidate o = true
        then ({ s with allocatorStack := s.allocatorStack + 1 }.pushOp .RestoreAllocator) else s).softforkStack
        = s.softforkStack := by split <;> rfl
    obtain ⟨e1, f1⟩ := pushEnv_setSf x h1
    obtain ⟨e2, f2⟩ := push_setSf x h2
    obtain ⟨e3, f3⟩ := pushOperands_setSf x _ _ _ _ h3
    rw [hs0, M_bind_eq e1]
    have : (s1.setSf x).pushOp .Apply = (s1.pushOp .Apply).setSf x := rfl
    rw [this, M_bind_eq e2, M_bind_eq e3]
    simp only at h ⊢
    split at h
    · split at h
      · cases h
      · rename_i hb
        obtain ⟨s4, h4, h⟩ := M_bind_ok h
        cases M_pure_ok h
        obtain ⟨e4, f4⟩ := push_setSf x h4
        rw [if_neg hb]
        refine ⟨by rw [M_bind_eq e4]; rfl, ?_⟩
        rw [f4, f3, f2]; show s1.softforkStack = _; rw [f1, hs0f]
    · cases h

theorem evalPair_setSf {cfg : Cfg} {d : Dialect} {s s' : MState} {p env : Val} {c : Nat}
    (x : List SoftforkGuard) (h : evalPair cfg d s p env = .ok (c, s')) :
    evalPair cfg d (s.setSf x) p env = .ok (c, s'.setSf x) ∧ s'.softforkStack = s.softforkStack := by
  cases p with
  | atom b inl =>
    simp only [evalPair] at h ⊢
    obtain ⟨r, h1, h⟩ := M_bind_ok h
    obtain ⟨s1, h2, h⟩ := M_bind_ok h
    cases M_pure_ok h
    obtain ⟨e2, f2⟩ := push_setSf x h2
    exact ⟨by rw [M_bind_eq h1, M_bind_eq e2]; rfl, f2⟩
  | pair opNode opList =>
    cases opNode with
    | atom ob oi => simp only [evalPair] at h ⊢; exact evalOpAtom_setSf x h
    | pair newOperator y =>
      simp only [evalPair] at h ⊢
      obtain ⟨inner, hi, h⟩ := M_bind_ok h
      rw [M_bind_eq hi]
      split at h
      · cases h
      · rename_i hnp
        rw [if_neg hnp]
        obtain ⟨s1, h1, h⟩ := M_bind_ok h
        obtain ⟨s2, h2, h⟩ := M_bind_ok h
        obtain ⟨s3, h3, h⟩ := M_bind_ok h
        cases M_pure_ok h
        obtain ⟨e1, f1⟩ := pushEnv_setSf x h1
        obtain ⟨e2, f2⟩ := push_setSf x h2
        obtain ⟨e3, f3⟩ := push_setSf x h3
        refine ⟨by rw [M_bind_eq e1, M_bind_eq e2, M_bind_eq e3]; rfl, ?_⟩
        show s3.softforkStack = _
        rw [f3, f2, f1]

theorem consOp_setSf {s s' : MState} {c : Nat} (x : List SoftforkGuard) (h : consOp s = .ok (c, s')) :
    consOp (s.setSf x) = .ok (c, s'.setSf x) ∧ s'.softforkStack = s.softforkStack := by
  unfold consOp at h ⊢
  obtain ⟨⟨v1, s1⟩, h1, h⟩ := M_bind_ok h
  obtain ⟨⟨v2, s2⟩, h2, h⟩ := M_bind_ok h
  obtain ⟨⟨p, c'⟩, h3, h⟩ := M_bind_ok h
  obtain ⟨s3, h4, h⟩ := M_bind_ok h
  cases M_pure_ok h
  obtain ⟨e1, f1⟩ := pop_setSf x h1
  obtain ⟨e2, f2⟩ := pop_setSf x h2
  have : ({ s2 with ctr := c' } : MState).setSf x = { s2.setSf x with ctr := c' } := rfl
  obtain ⟨e4, f4⟩ := push_setSf x h4
  rw [this] at e4
  refine ⟨?_, ?_⟩
  · rw [M_bind_eq e1]
    simp only
    rw [M_bind_eq e2]
    simp only
    have : (s2.setSf x).ctr = s2.ctr := rfl
    rw [this, M_bind_eq h3]
    simp only
    rw [M_bind_eq e4]; rfl
  · rw [f4]; show s2.softforkStack = _; rw [f2, f1]

theorem swapEvalOp_setSf {cfg : Cfg} {d : Dialect} {s s' : MState} {c : Nat} (x : List SoftforkGuard)
    (h : swapEvalOp cfg d s = .ok (c, s')) :
    swapEvalOp cfg d (s.setSf x) = .ok (c, s'.setSf x) ∧ s'.softforkStack = s.softforkStack := by
  unfold swapEvalOp at h ⊢
  obtain ⟨⟨v2, s1⟩, h1, h⟩ := M_bind_ok h
  obtain ⟨⟨prog, s2⟩, h2, h⟩ := M_bind_ok h
  obtain ⟨e1, f1⟩ := pop_setSf x h1
  obtain ⟨e2, f2⟩ := pop_setSf x h2
  rw [M_bind_eq e1]
  simp only
  rw [M_bind_eq e2]
  simp only at h ⊢
  have : (s2.setSf x).envStack = s2.envStack := rfl
  rw [this]
  split at h
  · cases h
  · rename_i env envs henv
    obtain ⟨s3, h3, h⟩ := M_bind_ok h
    obtain ⟨e3, f3⟩ := push_setSf x h3
    obtain ⟨e4, f4⟩ := evalPair_setSf x h
    rw [M_bind_eq e3]
    exact ⟨e4, by rw [f4]; show s3.softforkStack = _; rw [f3, f2, f1]⟩

/-! ### softfork stacks related guard by guard -/

inductive GuardsRel (R : SoftforkGuard → SoftforkGuard → Prop) : List SoftforkGuard → List SoftforkGuard → Prop
  | nil : GuardsRel R [] []
  | cons {g g' : SoftforkGuard} {l l' : List SoftforkGuard} : R g g' → GuardsRel R l l' → GuardsRel R (g :: l) (g' :: l')

theorem GuardsRel.length_eq {R : SoftforkGuard → SoftforkGuard → Prop} {l l' : List SoftforkGuard}
    (h : GuardsRel R l l') : l.length = l'.length := by
  induction h with
  | nil => rfl
  | cons _ _ ih => simp [ih]

theorem GuardsRel.inv {R : SoftforkGuard → SoftforkGuard → Prop} {l l' : List SoftforkGuard}
    (h : GuardsRel R l l') :
    (l = [] ∧ l' = []) ∨ ∃ g g' r r', l = g :: r ∧ l' = g' :: r' ∧ R g g' ∧ GuardsRel R r r' := by
  cases h with
  | nil => exact Or.inl ⟨rfl, rfl⟩
  | cons h1 h2 => exact Or.inr ⟨_, _, _, _, rfl, rfl, h1, h2⟩

end Clvm.Interp
