/-
C02 for `op_unknown`: a sufficient condition for the no-wrap hypothesis of `opUnknown_budget_partial`
(DESIGN §6-B): the multiplier is below 2^32, so a budget below 2^32 keeps base × (multiplier + 1)
below 2^64 also in the old cost model.
-/
import ClvmProofs.Lemmas.Interp.Budget
import ClvmProofs.Lemmas.AllocInt

namespace Clvm.Interp
open Clvm Clvm.Alloc

theorem u32FromU8_lt {buf : Bytes} {v : Nat} (h : u32FromU8 buf = some v) : v < 2 ^ 32 := by
  unfold u32FromU8 u32FromU8Impl at h
  split at h
  · cases h; decide
  · rename_i b0 t
    split at h
    · cases h
    · rename_i hlen
      simp only [Bool.false_and, Bool.false_eq_true, ↓reduceIte, Option.some.injEq] at h
      subst h
      have h1 := beNat_lt (b0 :: t)
      have h2 : 256 ^ (b0 :: t).length ≤ 256 ^ 4 := Nat.pow_le_pow_right (by decide) (by omega)
      have h3 : (256 : Nat) ^ 4 = 2 ^ 32 := by decide
      omega

/-- with a budget below 2^32 the product of `op_unknown` cannot wrap -/
theorem unknownNoWrap_of_lt (op : Bytes) (flags m : Nat) (args : Val) (hm : m < 2 ^ 32)
    (hb : ∀ base, unknownBase op flags m args = .ok base → base ≤ m) : UnknownNoWrap op flags m args := by
  refine Or.inr fun base mult hbase hmult => ?_
  have h1 := hb base hbase
  have h2 := u32FromU8_lt hmult
  have : base * (mult + 1) ≤ (2 ^ 32 - 1) * 2 ^ 32 := Nat.mul_le_mul (by omega) (by omega)
  have h3 : (2 ^ 32 - 1) * 2 ^ 32 < 2 ^ 64 := by decide
  omega

/-- **C02 for `op_unknown` under a budget below 2^32** (both cost models) -/
theorem opUnknown_budget_of_lt (op : Bytes) (flags m m' : Nat) (args : Val) (c : Ctr) (r : Nat × Val × Ctr)
    (h : opUnknown op flags m args c = .ok r) (hm : m < 2 ^ 32) :
    (opUnknown op flags m' args c = .ok r ∨ opUnknown op flags m' args c = .error .CostExceeded) ∧
    (r.1 ≤ m' → opUnknown op flags m' args c = .ok r) := by
  obtain ⟨base, mult, hb, _, hle, _, _⟩ := opUnknown_budget_general op flags m args c r h
  refine opUnknown_budget_partial op flags m m' args c r h (unknownNoWrap_of_lt op flags m args hm ?_)
  intro b' hb'
  rw [hb] at hb'; cases hb'; exact hle

end Clvm.Interp
