/-
C10: cost lemmas for div / divmod / mod / modpow (num-bigint and malachite variants), ash, lsh.
-/
import ClvmProofs.Lemmas.Interp.CostOps

namespace Clvm.Interp
open Clvm Clvm.Alloc

/-- what the cost lemmas need from `int_atom` / `malachite_int_atom` -/
def IntAOK (intA : Val → String → Except Err (Int × Nat)) : Prop :=
  ∀ v name i l, v.wf = true → intA v name = .ok (i, l) → l = Spec.Cost.len v ∧ i = Spec.Cost.int v

theorem intAtom_IntAOK : IntAOK intAtom := fun v n i l h1 h2 => intAtom_ok v n i l h1 h2
theorem malachite_IntAOK : IntAOK malachiteIntAtom := fun v n i l h1 h2 => malachiteIntAtom_ok v n i l h1 h2

theorem computeNewDivCost_ok (a b cost : Nat) (h : computeNewDivCost a b = .ok cost) :
    cost = Spec.Cost.newDiv a b := by
  unfold computeNewDivCost ckMul at h
  simp only at h
  split at h
  · cases h
  · rename_i sq hsq
    split at hsq
    · cases hsq
    · injection hsq with hsq; injection h with h
      subst hsq; subst h
      simp only [Spec.Cost.newDiv, Spec.Cost.NEW_DIV_BASE, Spec.Cost.NEW_DIV_LINEAR_PER_BYTE,
        Spec.Cost.NEW_DIV_SQUARE_DIVIDER, Gen.NEW_DIV_BASE_COST, Gen.NEW_DIV_LINEAR_COST_PER_BYTE,
        Gen.NEW_DIV_SQUARE_COST_PER_BYTE_DIVIDER]
      omega

theorem divPrologue_ok (intA : Val → String → Except Err (Int × Nat)) (hA : IntAOK intA)
    (name errName : String) (oldBase oldPer flags m : Nat) (input : Val) (hwf : input.wf = true)
    (a0 a1 : Int) (cost : Nat)
    (h : divPrologue intA name errName oldBase oldPer flags m input = .ok (a0, a1, cost)) :
    ∃ v0 v1, argList input = [v0, v1] ∧
      cost = if newModel flags then Spec.Cost.newDiv (Spec.Cost.len v0) (Spec.Cost.len v1)
             else oldBase + (Spec.Cost.len v0 + Spec.Cost.len v1) * oldPer := by
  unfold divPrologue at h
  split at h
  · cases h
  · rename_i v0 v1 hargs
    have hl := getArgs2_ok _ _ _ _ hargs
    have h0 : v0.wf = true := wf_argList input hwf v0 (by rw [hl]; simp)
    have h1 : v1.wf = true := wf_argList input hwf v1 (by rw [hl]; simp)
    refine ⟨v0, v1, hl, ?_⟩
    split at h
    · cases h
    · rename_i x0 l0 hi0
      split at h
      · cases h
      · rename_i x1 l1 hi1
        rw [← (hA _ _ _ _ h0 hi0).1, ← (hA _ _ _ _ h1 hi1).1]
        simp only at h
        split at h
        · cases h
        · split at h
          · cases h
          · split at h
            · cases h
            · rename_i cost0 hcost
              split at h
              · cases h
              · split at h
                · cases h
                · simp only [Except.ok.injEq, Prod.mk.injEq] at h
                  obtain ⟨_, _, rfl⟩ := h
                  cases hnm : newModel flags
                  · simp only [hnm, Bool.false_eq_true, if_false] at hcost ⊢
                    injection hcost with hcost; exact hcost.symm
                  · simp only [hnm, if_true] at hcost ⊢
                    exact computeNewDivCost_ok _ _ _ hcost

theorem getD_two0 (a b : Val) : [a, b].getD 0 Val.nil = a := rfl
theorem getD_two1 (a b : Val) : [a, b].getD 1 Val.nil = b := rfl

theorem cost_opDivWith (intA : Val → String → Except Err (Int × Nat)) (hA : IntAOK intA) :
    CostOK (opDivWith intA) Spec.Cost.opDiv := by
  intro flags m args c cost v c' hwf h
  unfold opDivWith at h
  split at h
  · cases h
  · rename_i a0 a1 cost0 hp
    obtain ⟨v0, v1, hl, hc⟩ := divPrologue_ok intA hA _ _ _ _ _ _ _ hwf _ _ _ hp
    split at h
    · cases h
    · rename_i q c1 halloc
      simp only [Except.ok.injEq, Prod.mk.injEq] at h
      obtain ⟨rfl, rfl, _⟩ := h
      rw [allocNumber_ok _ _ _ _ halloc, mallocCost_mkAtom, hl, hc]
      simp only [Spec.Cost.opDiv, Spec.Cost.sizes2, getD_two0, getD_two1, Spec.Cost.DIV_BASE,
        Spec.Cost.DIV_PER_BYTE, Gen.DIV_BASE_COST, Gen.DIV_COST_PER_BYTE]
      cases newModel flags <;> simp <;> omega

theorem cost_opModWith (intA : Val → String → Except Err (Int × Nat)) (hA : IntAOK intA) :
    CostOK (opModWith intA) Spec.Cost.opMod := by
  intro flags m args c cost v c' hwf h
  unfold opModWith at h
  split at h
  · cases h
  · rename_i a0 a1 cost0 hp
    obtain ⟨v0, v1, hl, hc⟩ := divPrologue_ok intA hA _ _ _ _ _ _ _ hwf _ _ _ hp
    split at h
    · cases h
    · rename_i q c1 halloc
      simp only [Except.ok.injEq, Prod.mk.injEq] at h
      obtain ⟨rfl, rfl, _⟩ := h
      rw [allocNumber_ok _ _ _ _ halloc, mallocCost_mkAtom, hl, hc]
      simp only [Spec.Cost.opMod, Spec.Cost.opDiv, Spec.Cost.sizes2, getD_two0, getD_two1, Spec.Cost.DIV_BASE,
        Spec.Cost.DIV_PER_BYTE, Gen.DIV_BASE_COST, Gen.DIV_COST_PER_BYTE]
      cases newModel flags <;> simp <;> omega

theorem cost_opDivmodWith (intA : Val → String → Except Err (Int × Nat)) (hA : IntAOK intA) :
    CostOK (opDivmodWith intA) Spec.Cost.opDivmod := by
  intro flags m args c cost v c' hwf h
  unfold opDivmodWith at h
  split at h
  · cases h
  · rename_i a0 a1 cost0 hp
    obtain ⟨v0, v1, hl, hc⟩ := divPrologue_ok intA hA _ _ _ _ _ _ _ hwf _ _ _ hp
    split at h
    · cases h
    · rename_i q1 c1 halloc1
      split at h
      · cases h
      · rename_i r1 c2 halloc2
        simp only at h
        split at h
        · cases h
        · rename_i r c3 hpair
          simp only [Except.ok.injEq, Prod.mk.injEq] at h
          obtain ⟨rfl, rfl, _⟩ := h
          have hr : r = .pair q1 r1 := by
            unfold allocPair at hpair
            split at hpair
            · cases hpair
            · injection hpair with hpair; injection hpair with hp1 _; exact hp1.symm
          rw [hr, allocNumber_ok _ _ _ _ halloc1, allocNumber_ok _ _ _ _ halloc2, mallocCost_mkAtom,
            mallocCost_mkAtom, hl, hc]
          simp only [Spec.Cost.opDivmod, Spec.Cost.sizes2, getD_two0, getD_two1, Spec.Cost.DIVMOD_BASE,
            Spec.Cost.DIVMOD_PER_BYTE, Gen.DIVMOD_BASE_COST, Gen.DIVMOD_COST_PER_BYTE]
          cases newModel flags <;> simp <;> omega

theorem cost_opDiv : CostOK opDiv Spec.Cost.opDiv := by
  intro flags m args c cost v c' hwf h
  unfold opDiv at h
  split at h
  · exact cost_opDivWith _ malachite_IntAOK flags m args c cost v c' hwf h
  · exact cost_opDivWith _ intAtom_IntAOK flags m args c cost v c' hwf h

theorem cost_opMod : CostOK opMod Spec.Cost.opMod := by
  intro flags m args c cost v c' hwf h
  unfold opMod at h
  split at h
  · exact cost_opModWith _ malachite_IntAOK flags m args c cost v c' hwf h
  · exact cost_opModWith _ intAtom_IntAOK flags m args c cost v c' hwf h

theorem cost_opDivmod : CostOK opDivmod Spec.Cost.opDivmod := by
  intro flags m args c cost v c' hwf h
  unfold opDivmod at h
  split at h
  · exact cost_opDivmodWith _ malachite_IntAOK flags m args c cost v c' hwf h
  · exact cost_opDivmodWith _ intAtom_IntAOK flags m args c cost v c' hwf h

/-! ### modpow -/

set_option maxRecDepth 8000 in
theorem computeModpowCost_ok (b e m : Nat) (nm : Bool) (cost : Nat)
    (h : computeModpowCost b e m nm = .ok cost) :
    cost = if nm then Spec.Cost.MODPOW_BASE + Spec.Cost.NEW_MODPOW_EXPONENT_MULTIPLIER * e
                    * (m * m + Spec.Cost.NEW_MODPOW_PER_ITERATION) + b * m
           else Spec.Cost.MODPOW_BASE + Spec.Cost.MODPOW_PER_BYTE_BASE_VALUE * b
                + Spec.Cost.MODPOW_PER_BYTE_EXPONENT * (e * e) + Spec.Cost.MODPOW_PER_BYTE_MOD * (m * m) := by
  unfold computeModpowCost at h
  cases nm with
  | false =>
    simp only [Bool.false_eq_true, if_false] at h ⊢
    injection h with h; subst h
    simp only [Spec.Cost.MODPOW_BASE, Spec.Cost.MODPOW_PER_BYTE_BASE_VALUE, Spec.Cost.MODPOW_PER_BYTE_EXPONENT,
      Spec.Cost.MODPOW_PER_BYTE_MOD, Gen.MODPOW_BASE_COST, Gen.MODPOW_COST_PER_BYTE_BASE_VALUE,
      Gen.MODPOW_COST_PER_BYTE_EXPONENT, Gen.MODPOW_COST_PER_BYTE_MOD]
    omega
  | true =>
    simp only [if_true, ckMul, ckAdd] at h ⊢
    split at h; · cases h
    rename_i e8 h1
    split at h1; · cases h1
    injection h1 with h1; subst h1
    split at h; · cases h
    rename_i mm h2
    split at h2; · cases h2
    injection h2 with h2; subst h2
    split at h; · cases h
    rename_i it h3
    split at h3; · cases h3
    injection h3 with h3; subst h3
    split at h; · cases h
    rename_i t h4
    split at h4; · cases h4
    injection h4 with h4; subst h4
    split at h; · cases h
    rename_i c1 h5
    split at h5; · cases h5
    injection h5 with h5; subst h5
    split at h; · cases h
    rename_i bm h6
    split at h6; · cases h6
    injection h6 with h6; subst h6
    split at h; · cases h
    injection h with h; subst h
    simp only [Spec.Cost.MODPOW_BASE, Spec.Cost.NEW_MODPOW_EXPONENT_MULTIPLIER, Spec.Cost.NEW_MODPOW_PER_ITERATION,
      Gen.MODPOW_BASE_COST, Gen.NEW_MODPOW_EXPONENT_MULTIPLIER, Gen.NEW_MODPOW_PER_ITERATION_COST]
    rw [Nat.mul_comm 8 e]

theorem getD_three0 (a b d : Val) : [a, b, d].getD 0 Val.nil = a := rfl
theorem getD_three1 (a b d : Val) : [a, b, d].getD 1 Val.nil = b := rfl
theorem getD_three2 (a b d : Val) : [a, b, d].getD 2 Val.nil = d := rfl

theorem cost_opModpowWith (intA : Val → String → Except Err (Int × Nat)) (hA : IntAOK intA) :
    CostOK (opModpowWith intA) Spec.Cost.opModpow := by
  intro flags m args c cost v c' hwf h
  unfold opModpowWith at h
  simp only at h
  split at h
  · cases h
  · rename_i vb ve vm hargs
    have hl := getArgs3_ok _ _ _ _ _ hargs
    have h0 : vb.wf = true := wf_argList args hwf vb (by rw [hl]; simp)
    have h1 : ve.wf = true := wf_argList args hwf ve (by rw [hl]; simp)
    have h2 : vm.wf = true := wf_argList args hwf vm (by rw [hl]; simp)
    split at h
    · cases h
    · rename_i xb bsize hib
      split at h
      · cases h
      · rename_i xe esize hie
        split at h
        · cases h
        · rename_i xm msize him
          split at h
          · cases h
          · rename_i cost0 hcost
            split at h
            · cases h
            · split at h
              · cases h
              · split at h
                · cases h
                · split at h
                  · cases h
                  · split at h
                    · cases h
                    · rename_i r c1 halloc
                      simp only [Except.ok.injEq, Prod.mk.injEq] at h
                      obtain ⟨rfl, rfl, _⟩ := h
                      rw [allocNumber_ok _ _ _ _ halloc, mallocCost_mkAtom, hl,
                        computeModpowCost_ok _ _ _ _ _ hcost,
                        (hA _ _ _ _ h0 hib).1, (hA _ _ _ _ h1 hie).1, (hA _ _ _ _ h2 him).1]
                      simp only [Spec.Cost.opModpow, getD_three0, getD_three1, getD_three2]

theorem cost_opModpow : CostOK opModpow Spec.Cost.opModpow := by
  intro flags m args c cost v c' hwf h
  unfold opModpow at h
  split at h
  · exact cost_opModpowWith _ malachite_IntAOK flags m args c cost v c' hwf h
  · exact cost_opModpowWith _ intAtom_IntAOK flags m args c cost v c' hwf h

/-! ### shifts -/

theorem cost_opAsh : CostOK opAsh Spec.Cost.opAsh := by
  intro flags m args c cost v c' hwf h
  unfold opAsh at h
  split at h
  · cases h
  · rename_i n0 n1 hargs
    have hl := getArgs2_ok _ _ _ _ hargs
    have h0 : n0.wf = true := wf_argList args hwf n0 (by rw [hl]; simp)
    split at h
    · cases h
    · rename_i i0 l0 hi0
      split at h
      · cases h
      · rename_i a1 ha1
        split at h
        · cases h
        · simp only at h
          split at h
          · cases h
          · rename_i r c1 halloc
            simp only [Except.ok.injEq, Prod.mk.injEq] at h
            obtain ⟨rfl, rfl, _⟩ := h
            rw [allocNumber_ok _ _ _ _ halloc, mallocCost_mkAtom, hl, (intAtom_ok _ _ _ _ h0 hi0).1]
            simp only [Spec.Cost.opAsh, getD_two0, int_mkAtom, decodeInt_encodeInt, limbs_eq,
              Spec.Cost.ASHIFT_BASE, Spec.Cost.ASHIFT_PER_BYTE, Gen.ASHIFT_BASE_COST, Gen.ASHIFT_COST_PER_BYTE]
            omega

theorem cost_opLsh : CostOK opLsh Spec.Cost.opLsh := by
  intro flags m args c cost v c' hwf h
  unfold opLsh at h
  split at h
  · cases h
  · rename_i n0 n1 hargs
    have hl := getArgs2_ok _ _ _ _ hargs
    split at h
    · cases h
    · rename_i b0 hb0
      split at h
      · cases h
      · rename_i a1 ha1
        split at h
        · cases h
        · simp only at h
          split at h
          · cases h
          · rename_i r c1 halloc
            simp only [Except.ok.injEq, Prod.mk.injEq] at h
            obtain ⟨rfl, rfl, _⟩ := h
            rw [allocNumber_ok _ _ _ _ halloc, mallocCost_mkAtom, hl, atomBytes_ok _ _ _ hb0]
            simp only [Spec.Cost.opLsh, getD_two0, int_mkAtom, decodeInt_encodeInt, limbs_eq,
              Spec.Cost.LSHIFT_BASE, Spec.Cost.LSHIFT_PER_BYTE, Gen.LSHIFT_BASE_COST, Gen.LSHIFT_COST_PER_BYTE]
            omega

end Clvm.Interp
