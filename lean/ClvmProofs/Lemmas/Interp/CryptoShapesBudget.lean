/-
C02, per-operator layer for the operators outside the core table: every tree-level operator of
`Crypto.opByNameWith P` (any primitives `P`) has the budget shape `TBudget`, hence its lifting has
`OpBudget` (`liftCrypto_budget`).  The curve / pairing / hash primitives are never unfolded: the
proofs only follow the control flow (`check_cost` calls and the order of the argument checks).
-/
import ClvmProofs.Lemmas.Interp.CryptoShapesAux

namespace Clvm.Interp
open Clvm Clvm.Crypto Clvm.Crypto.Ops

/-! ### `get_args` -/

theorem matchArgs1_some {args : Tree} {l : List Tree} (h : Ops.matchArgs 1 args = some l) :
    ∃ a t, args = .pair a (.atom t) ∧ l = [a] := by
  match args, h with
  | .pair a (.atom t), h => simp [Ops.matchArgs] at h; exact ⟨a, t, rfl, h.symm⟩
  | .pair a (.pair _ _), h => simp [Ops.matchArgs] at h
  | .atom _, h => simp [Ops.matchArgs] at h

theorem matchArgs2_some {args : Tree} {l : List Tree} (h : Ops.matchArgs 2 args = some l) :
    ∃ a b t, args = .pair a (.pair b (.atom t)) ∧ l = [a, b] := by
  match args, h with
  | .pair a (.pair b (.atom t)), h => simp [Ops.matchArgs] at h; exact ⟨a, b, t, rfl, h.symm⟩
  | .pair a (.pair b (.pair _ _)), h => simp [Ops.matchArgs] at h
  | .pair a (.atom _), h => simp [Ops.matchArgs] at h
  | .atom _, h => simp [Ops.matchArgs] at h

theorem matchArgs3_some {args : Tree} {l : List Tree} (h : Ops.matchArgs 3 args = some l) :
    ∃ a b c t, args = .pair a (.pair b (.pair c (.atom t))) ∧ l = [a, b, c] := by
  match args, h with
  | .pair a (.pair b (.pair c (.atom t))), h => simp [Ops.matchArgs] at h; exact ⟨a, b, c, t, rfl, h.symm⟩
  | .pair a (.pair b (.pair c (.pair _ _))), h => simp [Ops.matchArgs] at h
  | .pair a (.pair b (.atom _)), h => simp [Ops.matchArgs] at h
  | .pair a (.atom _), h => simp [Ops.matchArgs] at h
  | .atom _, h => simp [Ops.matchArgs] at h

theorem getArgs1_cases (args : Tree) (name : String) :
    (∃ a t, args = .pair a (.atom t) ∧ Ops.getArgs 1 args name = .ok [a]) ∨
    (∃ s, Ops.getArgs 1 args name = .error (.InvalidOpArg s)) := by
  unfold Ops.getArgs
  cases hm : Ops.matchArgs 1 args with
  | none => exact Or.inr ⟨_, rfl⟩
  | some l =>
    obtain ⟨a, t, rfl, rfl⟩ := matchArgs1_some hm
    exact Or.inl ⟨a, t, rfl, rfl⟩

theorem getArgs2_cases (args : Tree) (name : String) :
    (∃ a b t, args = .pair a (.pair b (.atom t)) ∧ Ops.getArgs 2 args name = .ok [a, b]) ∨
    (∃ s, Ops.getArgs 2 args name = .error (.InvalidOpArg s)) := by
  unfold Ops.getArgs
  cases hm : Ops.matchArgs 2 args with
  | none => exact Or.inr ⟨_, rfl⟩
  | some l =>
    obtain ⟨a, b, t, rfl, rfl⟩ := matchArgs2_some hm
    exact Or.inl ⟨a, b, t, rfl, rfl⟩

theorem getArgs3_cases (args : Tree) (name : String) :
    (∃ a b c t, args = .pair a (.pair b (.pair c (.atom t))) ∧ Ops.getArgs 3 args name = .ok [a, b, c]) ∨
    (∃ s, Ops.getArgs 3 args name = .error (.InvalidOpArg s)) := by
  unfold Ops.getArgs
  cases hm : Ops.matchArgs 3 args with
  | none => exact Or.inr ⟨_, rfl⟩
  | some l =>
    obtain ⟨a, b, c, t, rfl, rfl⟩ := matchArgs3_some hm
    exact Or.inl ⟨a, b, c, t, rfl, rfl⟩

/-- `get_varargs::<2>`: zero, one or two items, or an `InvalidOpArg` -/
theorem getVarargs2_cases (args : Tree) (name : String) :
    (∃ t, args = .atom t ∧ Ops.getVarargs 2 args name = .ok []) ∨
    (∃ a t, args = .pair a (.atom t) ∧ Ops.getVarargs 2 args name = .ok [a]) ∨
    (∃ a b t, args = .pair a (.pair b (.atom t)) ∧ Ops.getVarargs 2 args name = .ok [a, b]) ∨
    (∃ s, Ops.getVarargs 2 args name = .error (.InvalidOpArg s)) := by
  match args with
  | .atom t => exact Or.inl ⟨t, rfl, rfl⟩
  | .pair a (.atom t) => exact Or.inr (Or.inl ⟨a, t, rfl, rfl⟩)
  | .pair a (.pair b (.atom t)) => exact Or.inr (Or.inr (Or.inl ⟨a, b, t, rfl, rfl⟩))
  | .pair a (.pair b (.pair _ _)) => exact Or.inr (Or.inr (Or.inr ⟨_, rfl⟩))

/-! ### tactics -/

/-- walk a `do`-block known to succeed: binds become existentials, `if` / `match` are split, the
impossible branches are closed -/
syntax "walk_ok " ident : tactic
macro_rules
  | `(tactic| walk_ok $h:ident) => `(tactic|
    repeat' (first
      | (simp only [ex_bind_ok, ex_pure, ex_throw, ex_ok_bind, ex_err_bind] at $h:ident; done)
      | (cases $h:ident; done)
      | (obtain ⟨_, _, $h:ident⟩ := $h:ident)
      | (split at $h:ident)
      | (simp only [ex_bind_ok, ex_pure, ex_throw, ex_ok_bind, ex_err_bind] at $h:ident)))

/-- after `walk_ok`: rewrite the budget-independent steps of the goal with what the walk found and
discharge the remaining chain of `check_cost` calls -/
syntax "budget_close" : tactic
macro_rules
  | `(tactic| budget_close) => `(tactic|
    (simp only [*, ex_ok_bind, ex_pure, Bool.false_eq_true, ↓reduceIte];
     first
     | exact LoopOk.pure (Nat.zero_le _)
     | exact (LoopOk.pure (by omega)).checkB (Nat.zero_le _)
     | exact ((LoopOk.pure (by omega)).checkB (by omega)).checkB (Nat.zero_le _)
     | exact (((LoopOk.pure (by omega)).checkB (by omega)).checkB (by omega)).checkB (Nat.zero_le _)))

/-! ### the loops -/

theorem cSha256Loop_ok {pa pb m : Nat} : ∀ {t : Tree} {cost : Nat} {acc : Bytes} {r : Nat × Bytes},
    Ops.sha256Loop pa pb m t cost acc = .ok r →
      LoopOk r.1 cost (fun m' => Ops.sha256Loop pa pb m' t cost acc) r := by
  intro t
  induction t with
  | atom b => intro cost acc r h; unfold Ops.sha256Loop at h ⊢; cases h; exact LoopOk.pure (Nat.le_refl _)
  | pair arg rest _ ih =>
    intro cost acc r h
    unfold Ops.sha256Loop at h ⊢
    walk_ok h
    simp only [*, ex_ok_bind]
    exact (ih h).checkB (by omega)

theorem keccakLoop_ok {pa pb m : Nat} : ∀ {t : Tree} {cost : Nat} {acc : Bytes} {r : Nat × Bytes},
    keccakLoop pa pb m t cost acc = .ok r →
      LoopOk r.1 cost (fun m' => keccakLoop pa pb m' t cost acc) r := by
  intro t
  induction t with
  | atom b => intro cost acc r h; unfold keccakLoop at h ⊢; cases h; exact LoopOk.pure (Nat.le_refl _)
  | pair arg rest _ ih =>
    intro cost acc r h
    unfold keccakLoop at h ⊢
    walk_ok h
    simp only [*, ex_ok_bind]
    exact (ih h).checkB (by omega)

theorem pointAddLoop_ok {m : Nat} : ∀ {t : Tree} {cost : Nat} {total : Bls.G1} {r : Nat × Bls.G1},
    pointAddLoop m t cost total = .ok r →
      LoopOk r.1 cost (fun m' => pointAddLoop m' t cost total) r := by
  intro t
  induction t with
  | atom b => intro cost total r h; unfold pointAddLoop at h ⊢; cases h; exact LoopOk.pure (Nat.le_refl _)
  | pair arg rest _ ih =>
    intro cost total r h
    unfold pointAddLoop at h ⊢
    walk_ok h
    simp only [*, ex_ok_bind]
    exact (ih h).checkB (by omega)

theorem g1SubtractLoop_ok {m : Nat} : ∀ {t : Tree} {cost : Nat} {total : Bls.G1} {isFirst : Bool} {r : Nat × Bls.G1},
    g1SubtractLoop m t cost total isFirst = .ok r →
      LoopOk r.1 cost (fun m' => g1SubtractLoop m' t cost total isFirst) r := by
  intro t
  induction t with
  | atom b => intro cost total f r h; unfold g1SubtractLoop at h ⊢; cases h; exact LoopOk.pure (Nat.le_refl _)
  | pair arg rest _ ih =>
    intro cost total f r h
    unfold g1SubtractLoop at h ⊢
    simp only [ex_bind_ok] at h
    obtain ⟨P, hP, _, hc, h⟩ := h
    simp only [hP, ex_ok_bind]
    exact (ih h).checkB (by omega)

theorem g2AddLoop_ok {m : Nat} : ∀ {t : Tree} {cost : Nat} {total : Bls.G2} {r : Nat × Bls.G2},
    g2AddLoop m t cost total = .ok r →
      LoopOk r.1 cost (fun m' => g2AddLoop m' t cost total) r := by
  intro t
  induction t with
  | atom b => intro cost total r h; unfold g2AddLoop at h ⊢; cases h; exact LoopOk.pure (Nat.le_refl _)
  | pair arg rest _ ih =>
    intro cost total r h
    unfold g2AddLoop at h ⊢
    simp only [ex_bind_ok] at h
    obtain ⟨P, hP, _, hc, h⟩ := h
    simp only [hP, ex_ok_bind]
    exact (ih h).checkB (by omega)

theorem g2SubtractLoop_ok {m : Nat} : ∀ {t : Tree} {cost : Nat} {total : Bls.G2} {isFirst : Bool} {r : Nat × Bls.G2},
    g2SubtractLoop m t cost total isFirst = .ok r →
      LoopOk r.1 cost (fun m' => g2SubtractLoop m' t cost total isFirst) r := by
  intro t
  induction t with
  | atom b => intro cost total f r h; unfold g2SubtractLoop at h ⊢; cases h; exact LoopOk.pure (Nat.le_refl _)
  | pair arg rest _ ih =>
    intro cost total f r h
    unfold g2SubtractLoop at h ⊢
    simp only [ex_bind_ok] at h
    obtain ⟨P, hP, _, hc, h⟩ := h
    simp only [hP, ex_ok_bind]
    exact (ih h).checkB (by omega)

theorem pairingLoop_ok {cpa m : Nat} : ∀ {fuel : Nat} {args : Tree} {cost : Nat} {items : List (Bls.G1 × Bls.G2)}
    {r : Nat × List (Bls.G1 × Bls.G2)},
    pairingLoop cpa m fuel args cost items = .ok r →
      LoopOk r.1 cost (fun m' => pairingLoop cpa m' fuel args cost items) r := by
  intro fuel
  induction fuel with
  | zero => intro args cost items r h; unfold pairingLoop at h; cases h
  | succ fuel ih =>
    intro args cost items r h
    unfold pairingLoop at h ⊢
    split at h
    · rename_i hn; cases h; simp only [hn, ↓reduceIte]; exact LoopOk.pure (Nat.le_refl _)
    · rename_i hn
      simp only [ex_bind_ok] at h
      obtain ⟨_, hc, a1, h1, g1, hg1, a2, h2, a3, h3, g2, hg2, a4, h4, h⟩ := h
      simp only [hn, Bool.false_eq_true, ↓reduceIte, h1, hg1, h2, h3, hg2, h4, ex_ok_bind]
      exact (ih h).checkB (by omega)

theorem verifyLoop_ok {cpa cpb cpd m : Nat} : ∀ {fuel : Nat} {args : Tree} {cost : Nat} {items : List (Bls.G1 × Bytes)}
    {r : Nat × List (Bls.G1 × Bytes)},
    verifyLoop cpa cpb cpd m fuel args cost items = .ok r →
      LoopOk r.1 cost (fun m' => verifyLoop cpa cpb cpd m' fuel args cost items) r := by
  intro fuel
  induction fuel with
  | zero => intro args cost items r h; unfold verifyLoop at h; cases h
  | succ fuel ih =>
    intro args cost items r h
    unfold verifyLoop at h ⊢
    split at h
    · rename_i hn; cases h; simp only [hn, ↓reduceIte]; exact LoopOk.pure (Nat.le_refl _)
    · rename_i hn
      simp only [ex_bind_ok] at h
      obtain ⟨a1, h1, pk, hpk, a2, h2, a3, h3, msg, hmsg, a4, h4, _, hc, h⟩ := h
      simp only [hn, Bool.false_eq_true, ↓reduceIte, h1, hpk, h2, h3, hmsg, h4, ex_ok_bind]
      exact (ih h).checkB (by omega)

end Clvm.Interp
