/-
C02, per-operator layer for the operators outside the core table: every tree-level operator of
`Crypto.opByNameWith P` (any primitives `P`) has the budget shape `TBudget`, hence its lifting has
`OpBudget` (`liftCrypto_budget`).  The curve / pairing / hash primitives are never unfolded: the
proofs only follow the control flow (`check_cost` calls and the order of the argument checks).
-/
import ClvmProofs.Lemmas.Interp.CryptoShapesAux

set_option linter.unusedSimpArgs false

namespace Clvm.Crypto.Ops
open Clvm Clvm.Crypto Clvm.Interp

/-! ### `get_args` -/

theorem matchArgs1_some {args : Tree} {l : List Tree} (h : matchArgs 1 args = some l) :
    ∃ a t, args = .pair a (.atom t) ∧ l = [a] := by
  match args, h with
  | .pair a (.atom t), h => simp [matchArgs] at h; exact ⟨a, t, rfl, h.symm⟩
  | .pair a (.pair _ _), h => simp [matchArgs] at h
  | .atom _, h => simp [matchArgs] at h

theorem matchArgs2_some {args : Tree} {l : List Tree} (h : matchArgs 2 args = some l) :
    ∃ a b t, args = .pair a (.pair b (.atom t)) ∧ l = [a, b] := by
  match args, h with
  | .pair a (.pair b (.atom t)), h => simp [matchArgs] at h; exact ⟨a, b, t, rfl, h.symm⟩
  | .pair a (.pair b (.pair _ _)), h => simp [matchArgs] at h
  | .pair a (.atom _), h => simp [matchArgs] at h
  | .atom _, h => simp [matchArgs] at h

theorem matchArgs3_some {args : Tree} {l : List Tree} (h : matchArgs 3 args = some l) :
    ∃ a b c t, args = .pair a (.pair b (.pair c (.atom t))) ∧ l = [a, b, c] := by
  match args, h with
  | .pair a (.pair b (.pair c (.atom t))), h => simp [matchArgs] at h; exact ⟨a, b, c, t, rfl, h.symm⟩
  | .pair a (.pair b (.pair c (.pair _ _))), h => simp [matchArgs] at h
  | .pair a (.pair b (.atom _)), h => simp [matchArgs] at h
  | .pair a (.atom _), h => simp [matchArgs] at h
  | .atom _, h => simp [matchArgs] at h

theorem getArgs1_cases (args : Tree) (name : String) :
    (∃ a t, args = .pair a (.atom t) ∧ getArgs 1 args name = .ok [a]) ∨
    (∃ s, getArgs 1 args name = .error (.InvalidOpArg s)) := by
  unfold getArgs
  cases hm : matchArgs 1 args with
  | none => exact Or.inr ⟨_, rfl⟩
  | some l =>
    obtain ⟨a, t, rfl, rfl⟩ := matchArgs1_some hm
    exact Or.inl ⟨a, t, rfl, rfl⟩

theorem getArgs2_cases (args : Tree) (name : String) :
    (∃ a b t, args = .pair a (.pair b (.atom t)) ∧ getArgs 2 args name = .ok [a, b]) ∨
    (∃ s, getArgs 2 args name = .error (.InvalidOpArg s)) := by
  unfold getArgs
  cases hm : matchArgs 2 args with
  | none => exact Or.inr ⟨_, rfl⟩
  | some l =>
    obtain ⟨a, b, t, rfl, rfl⟩ := matchArgs2_some hm
    exact Or.inl ⟨a, b, t, rfl, rfl⟩

theorem getArgs3_cases (args : Tree) (name : String) :
    (∃ a b c t, args = .pair a (.pair b (.pair c (.atom t))) ∧ getArgs 3 args name = .ok [a, b, c]) ∨
    (∃ s, getArgs 3 args name = .error (.InvalidOpArg s)) := by
  unfold getArgs
  cases hm : matchArgs 3 args with
  | none => exact Or.inr ⟨_, rfl⟩
  | some l =>
    obtain ⟨a, b, c, t, rfl, rfl⟩ := matchArgs3_some hm
    exact Or.inl ⟨a, b, c, t, rfl, rfl⟩

/-- `get_varargs::<2>`: zero, one or two items, or an `InvalidOpArg` -/
theorem getVarargs2_cases (args : Tree) (name : String) :
    (∃ t, args = .atom t ∧ getVarargs 2 args name = .ok []) ∨
    (∃ a t, args = .pair a (.atom t) ∧ getVarargs 2 args name = .ok [a]) ∨
    (∃ a b t, args = .pair a (.pair b (.atom t)) ∧ getVarargs 2 args name = .ok [a, b]) ∨
    (∃ s, getVarargs 2 args name = .error (.InvalidOpArg s)) := by
  match args with
  | .atom t => exact Or.inl ⟨t, rfl, rfl⟩
  | .pair a (.atom t) => exact Or.inr (Or.inl ⟨a, t, rfl, rfl⟩)
  | .pair a (.pair b (.atom t)) => exact Or.inr (Or.inr (Or.inl ⟨a, b, t, rfl, rfl⟩))
  | .pair a (.pair b (.pair _ _)) => exact Or.inr (Or.inr (Or.inr ⟨_, rfl⟩))

/-! ### tactics -/

/-- walk a `do`-block known to succeed: binds become existentials, `if` / `match` are split, the
impossible branches are closed -/
syntax "walk_ok " ident : tactic
macro_rules
  | `(tactic| walk_ok $h:ident) => `(tactic|
    repeat' (first
      | (simp only [ex_bind_ok, ex_pure, ex_throw, ex_ok_bind, ex_err_bind, Bool.false_eq_true, eq_self,
          ↓reduceIte, reduceCtorEq, false_and, and_false, exists_false] at $h:ident; done)
      | (refine Exists.elim $h ?_; clear $h; intro _ hx; have hl := And.left hx; have $h:ident := And.right hx;
         clear hx)
      | (simp only [Except.ok.injEq] at $h:ident; subst $h:ident)
      | (split at $h:ident)
      | (simp only [ex_bind_ok, ex_pure, ex_throw, ex_ok_bind, ex_err_bind, Bool.false_eq_true, eq_self,
          ↓reduceIte] at $h:ident)))

/-- after `walk_ok`: rewrite the budget-independent steps of the goal with what the walk found and
discharge the remaining chain of `check_cost` calls -/
syntax "budget_close" : tactic
macro_rules
  | `(tactic| budget_close) => `(tactic|
    (simp only [*, ex_ok_bind, ex_pure, Bool.false_eq_true, ↓reduceIte];
     first
     | exact LoopOk.pure (Nat.zero_le _)
     | exact (LoopOk.pure (by omega)).checkB (Nat.zero_le _)
     | exact ((LoopOk.pure (by omega)).checkB (by omega)).checkB (Nat.zero_le _)
     | exact (((LoopOk.pure (by omega)).checkB (by omega)).checkB (by omega)).checkB (Nat.zero_le _)))

/-! ### the loops -/

theorem sha256Loop_ok {pa pb m : Nat} : ∀ {t : Tree} {cost : Nat} {acc : Bytes} {r : Nat × Bytes},
    sha256Loop pa pb m t cost acc = .ok r →
      LoopOk r.1 cost (fun m' => sha256Loop pa pb m' t cost acc) r := by
  intro t
  induction t with
  | atom b => intro cost acc r h; unfold sha256Loop at h ⊢; cases h; exact LoopOk.pure (Nat.le_refl _)
  | pair arg rest _ ih =>
    intro cost acc r h
    unfold sha256Loop at h ⊢
    walk_ok h
    simp only [*, ex_ok_bind]
    exact (ih h).checkB (by omega)

theorem keccakLoop_ok {pa pb m : Nat} : ∀ {t : Tree} {cost : Nat} {acc : Bytes} {r : Nat × Bytes},
    keccakLoop pa pb m t cost acc = .ok r →
      LoopOk r.1 cost (fun m' => keccakLoop pa pb m' t cost acc) r := by
  intro t
  induction t with
  | atom b => intro cost acc r h; unfold keccakLoop at h ⊢; cases h; exact LoopOk.pure (Nat.le_refl _)
  | pair arg rest _ ih =>
    intro cost acc r h
    unfold keccakLoop at h ⊢
    walk_ok h
    simp only [*, ex_ok_bind]
    exact (ih h).checkB (by omega)

theorem pointAddLoop_ok {m : Nat} : ∀ {t : Tree} {cost : Nat} {total : Bls.G1} {r : Nat × Bls.G1},
    pointAddLoop m t cost total = .ok r →
      LoopOk r.1 cost (fun m' => pointAddLoop m' t cost total) r := by
  intro t
  induction t with
  | atom b => intro cost total r h; unfold pointAddLoop at h ⊢; cases h; exact LoopOk.pure (Nat.le_refl _)
  | pair arg rest _ ih =>
    intro cost total r h
    unfold pointAddLoop at h ⊢
    walk_ok h
    simp only [*, ex_ok_bind]
    exact (ih h).checkB (by omega)

theorem g1SubtractLoop_ok {m : Nat} : ∀ {t : Tree} {cost : Nat} {total : Bls.G1} {isFirst : Bool} {r : Nat × Bls.G1},
    g1SubtractLoop m t cost total isFirst = .ok r →
      LoopOk r.1 cost (fun m' => g1SubtractLoop m' t cost total isFirst) r := by
  intro t
  induction t with
  | atom b => intro cost total f r h; unfold g1SubtractLoop at h ⊢; cases h; exact LoopOk.pure (Nat.le_refl _)
  | pair arg rest _ ih =>
    intro cost total f r h
    cases f <;>
    · unfold g1SubtractLoop at h ⊢
      simp only [Bool.false_eq_true, eq_self, ↓reduceIte] at h ⊢
      walk_ok h
      simp only [*, ex_ok_bind, Bool.false_eq_true, ↓reduceIte]
      exact (ih h).checkB (by omega)

theorem g2AddLoop_ok {m : Nat} : ∀ {t : Tree} {cost : Nat} {total : Bls.G2} {r : Nat × Bls.G2},
    g2AddLoop m t cost total = .ok r →
      LoopOk r.1 cost (fun m' => g2AddLoop m' t cost total) r := by
  intro t
  induction t with
  | atom b => intro cost total r h; unfold g2AddLoop at h ⊢; cases h; exact LoopOk.pure (Nat.le_refl _)
  | pair arg rest _ ih =>
    intro cost total r h
    unfold g2AddLoop at h ⊢
    walk_ok h
    simp only [*, ex_ok_bind]
    exact (ih h).checkB (by omega)

theorem g2SubtractLoop_ok {m : Nat} : ∀ {t : Tree} {cost : Nat} {total : Bls.G2} {isFirst : Bool} {r : Nat × Bls.G2},
    g2SubtractLoop m t cost total isFirst = .ok r →
      LoopOk r.1 cost (fun m' => g2SubtractLoop m' t cost total isFirst) r := by
  intro t
  induction t with
  | atom b => intro cost total f r h; unfold g2SubtractLoop at h ⊢; cases h; exact LoopOk.pure (Nat.le_refl _)
  | pair arg rest _ ih =>
    intro cost total f r h
    cases f <;>
    · unfold g2SubtractLoop at h ⊢
      simp only [Bool.false_eq_true, eq_self, ↓reduceIte] at h ⊢
      walk_ok h
      simp only [*, ex_ok_bind, Bool.false_eq_true, ↓reduceIte]
      exact (ih h).checkB (by omega)

theorem pairingLoop_ok {cpa m : Nat} : ∀ {fuel : Nat} {args : Tree} {cost : Nat} {items : List (Bls.G1 × Bls.G2)}
    {r : Nat × List (Bls.G1 × Bls.G2)},
    pairingLoop cpa m fuel args cost items = .ok r →
      LoopOk r.1 cost (fun m' => pairingLoop cpa m' fuel args cost items) r := by
  intro fuel
  induction fuel with
  | zero => intro args cost items r h; unfold pairingLoop at h; cases h
  | succ fuel ih =>
    intro args cost items r h
    unfold pairingLoop at h ⊢
    split at h
    · rename_i hn; cases h; simp only [hn, ↓reduceIte]; exact LoopOk.pure (Nat.le_refl _)
    · rename_i hn
      simp only [ex_bind_ok] at h
      obtain ⟨_, hc, a1, h1, g1, hg1, a2, h2, a3, h3, g2, hg2, a4, h4, h⟩ := h
      simp only [hn, Bool.false_eq_true, ↓reduceIte, h1, hg1, h2, h3, hg2, h4, ex_ok_bind]
      exact (ih h).checkB (by omega)

theorem verifyLoop_ok {cpa cpb cpd m : Nat} : ∀ {fuel : Nat} {args : Tree} {cost : Nat} {items : List (Bls.G1 × Bytes)}
    {r : Nat × List (Bls.G1 × Bytes)},
    verifyLoop cpa cpb cpd m fuel args cost items = .ok r →
      LoopOk r.1 cost (fun m' => verifyLoop cpa cpb cpd m' fuel args cost items) r := by
  intro fuel
  induction fuel with
  | zero => intro args cost items r h; unfold verifyLoop at h; cases h
  | succ fuel ih =>
    intro args cost items r h
    unfold verifyLoop at h ⊢
    split at h
    · rename_i hn; cases h; simp only [hn, ↓reduceIte]; exact LoopOk.pure (Nat.le_refl _)
    · rename_i hn
      simp only [ex_bind_ok] at h
      obtain ⟨a1, h1, pk, hpk, a2, h2, a3, h3, msg, hmsg, a4, h4, _, hc, h⟩ := h
      simp only [hn, Bool.false_eq_true, ↓reduceIte, h1, hpk, h2, h3, hmsg, h4, ex_ok_bind]
      exact (ih h).checkB (by omega)

/-! ### the operators -/

theorem LoopOk.check1 {x b : Nat} (h : x ≤ b) : LoopOk b 0 (fun m' => checkCost x m') () :=
  ⟨Nat.zero_le _, fun m' => by
    by_cases hle : x ≤ m'
    · exact ⟨Or.inl (cCheck_of_le hle), fun _ => cCheck_of_le hle⟩
    · exact ⟨Or.inr (cCheck_of_lt (Nat.lt_of_not_le hle)), fun hh => absurd (Nat.le_trans h hh) hle⟩⟩

theorem opSha256_budget : TBudget opSha256 := by
  intro flags m args r h
  unfold opSha256 at h ⊢
  cases hnm : newCostModel flags <;>
  · simp only [hnm, Bool.false_eq_true, ↓reduceIte] at h ⊢
    split at h
    · rename_i hnil
      simp only [hnil, ↓reduceIte]
      unfold newAtomAndCost at h ⊢
      cases h; exact LoopOk.pure (Nat.zero_le _)
    · rename_i hnil
      simp only [hnil, ↓reduceIte]
      split at h
      · rename_i val hfast
        split at h
        · cases h
        · rename_i hc
          split at h
          · rename_i hh
            unfold newAtomAndCost at h
            cases h
            exact LoopOk.lift (LoopOk.check1 (Nat.le_refl _)) (Nat.le_add_right _ _)
              (fun m' hm' => by simp only [hm', hh, newAtomAndCost]) (fun m' hm' => by simp only [hm'])
          · cases h
      · rename_i hfast
        split at h
        · cases h
        · rename_i cost msg hl
          unfold newAtomAndCost at h
          cases h
          exact (LoopOk.lift (sha256Loop_ok hl) (Nat.le_add_right _ _)
            (fun m' hm' => by simp only [hm', newAtomAndCost]) (fun m' hm' => by simp only [hm'])).weaken (Nat.zero_le _)

theorem opKeccak256_budget : TBudget opKeccak256 := by
  intro flags m args r h
  unfold opKeccak256 at h ⊢
  cases hnm : newCostModel flags <;>
  · simp only [hnm, Bool.false_eq_true, ↓reduceIte] at h ⊢
    split at h
    · cases h
    · rename_i cost msg hl
      unfold newAtomAndCost at h
      cases h
      exact (LoopOk.lift (keccakLoop_ok hl) (Nat.le_add_right _ _)
        (fun m' hm' => by simp only [hm', newAtomAndCost]) (fun m' hm' => by simp only [hm'])).weaken (Nat.zero_le _)

/-- an operator that does not consult the budget -/
theorem TBudget.of_const {g : Crypto.OpFn} (hc : ∀ flags m m' args, g flags m args = g flags m' args) :
    TBudget g := fun flags m args _ h =>
  ⟨Nat.zero_le _, fun m' => ⟨Or.inl ((hc flags m' m args).trans h), fun _ => (hc flags m' m args).trans h⟩⟩

theorem opCoinid_budget : TBudget opCoinid := TBudget.of_const fun _ _ _ _ => rfl
theorem opBlsG1Negate_budget : TBudget opBlsG1Negate := TBudget.of_const fun _ _ _ _ => rfl
theorem opBlsG2Negate_budget : TBudget opBlsG2Negate := TBudget.of_const fun _ _ _ _ => rfl

theorem opPointAdd_budget : TBudget opPointAdd := by
  intro flags m args r h
  unfold opPointAdd at h ⊢
  simp only [ex_bind_ok, ex_pure] at h
  obtain ⟨⟨cost, total⟩, hl, h⟩ := h
  cases h
  exact (LoopOk.lift (pointAddLoop_ok hl) (Nat.le_add_right _ _)
    (fun m' hm' => by simp only [hm', ex_ok_bind, ex_pure])
    (fun m' hm' => by simp only [hm', ex_err_bind])).weaken (Nat.zero_le _)

theorem opBlsG1Subtract_budget : TBudget opBlsG1Subtract := by
  intro flags m args r h
  unfold opBlsG1Subtract at h ⊢
  simp only [ex_bind_ok, ex_pure] at h
  obtain ⟨_, hc, ⟨cost, total⟩, hl, h⟩ := h
  cases h
  exact (LoopOk.lift (g1SubtractLoop_ok hl) (Nat.le_add_right _ _)
    (fun m' hm' => by simp only [hm', ex_ok_bind, ex_pure])
    (fun m' hm' => by simp only [hm', ex_err_bind])).checkB (Nat.zero_le _)

theorem opBlsG2Add_budget : TBudget opBlsG2Add := by
  intro flags m args r h
  unfold opBlsG2Add at h ⊢
  simp only [ex_bind_ok, ex_pure] at h
  obtain ⟨_, hc, ⟨cost, total⟩, hl, h⟩ := h
  cases h
  exact (LoopOk.lift (g2AddLoop_ok hl) (Nat.le_add_right _ _)
    (fun m' hm' => by simp only [hm', ex_ok_bind, ex_pure])
    (fun m' hm' => by simp only [hm', ex_err_bind])).checkB (Nat.zero_le _)

theorem opBlsG2Subtract_budget : TBudget opBlsG2Subtract := by
  intro flags m args r h
  unfold opBlsG2Subtract at h ⊢
  simp only [ex_bind_ok, ex_pure] at h
  obtain ⟨_, hc, ⟨cost, total⟩, hl, h⟩ := h
  cases h
  exact (LoopOk.lift (g2SubtractLoop_ok hl) (Nat.le_add_right _ _)
    (fun m' hm' => by simp only [hm', ex_ok_bind, ex_pure])
    (fun m' hm' => by simp only [hm', ex_err_bind])).checkB (Nat.zero_le _)

theorem opPubkeyForExp_budget : TBudget opPubkeyForExp := by
  intro flags m args r h
  rcases getArgs1_cases args "pubkey_for_exp" with ⟨a, t, rfl, hg⟩ | ⟨s, hg⟩
  · unfold opPubkeyForExp at h ⊢
    simp only [hg, ex_ok_bind] at h ⊢
    walk_ok h
    budget_close
  · unfold opPubkeyForExp at h; simp only [hg, ex_err_bind] at h; cases h

theorem opBlsG1Multiply_budget : TBudget opBlsG1Multiply := by
  intro flags m args r h
  rcases getArgs2_cases args "g1_multiply" with ⟨a, b, t, rfl, hg⟩ | ⟨s, hg⟩
  · unfold opBlsG1Multiply at h ⊢
    cases hnm : newCostModel flags <;>
    · simp only [hg, hnm, ex_ok_bind, Bool.false_eq_true, ↓reduceIte] at h ⊢
      walk_ok h
      budget_close
  · unfold opBlsG1Multiply at h; simp only [hg, ex_err_bind] at h; cases h

theorem opBlsG2Multiply_budget : TBudget opBlsG2Multiply := by
  intro flags m args r h
  rcases getArgs2_cases args "g2_multiply" with ⟨a, b, t, rfl, hg⟩ | ⟨s, hg⟩
  · unfold opBlsG2Multiply at h ⊢
    cases hnm : newCostModel flags <;>
    · simp only [hg, hnm, ex_ok_bind, Bool.false_eq_true, ↓reduceIte] at h ⊢
      walk_ok h
      budget_close
  · unfold opBlsG2Multiply at h; simp only [hg, ex_err_bind] at h; cases h

set_option maxRecDepth 8000 in
theorem opSecp256r1Verify_budget : TBudget opSecp256r1Verify := by
  intro flags m args r h
  rcases getArgs3_cases args "secp256r1_verify" with ⟨a, b, c, t, rfl, hg⟩ | ⟨s, hg⟩
  · unfold opSecp256r1Verify at h ⊢
    simp only [hg, ex_ok_bind] at h ⊢
    walk_ok h
    budget_close
  · unfold opSecp256r1Verify at h; simp only [hg, ex_err_bind, ex_bind_ok] at h
    obtain ⟨_, _, h⟩ := h; cases h

set_option maxRecDepth 8000 in
theorem opSecp256k1Verify_budget : TBudget opSecp256k1Verify := by
  intro flags m args r h
  rcases getArgs3_cases args "secp256k1_verify" with ⟨a, b, c, t, rfl, hg⟩ | ⟨s, hg⟩
  · unfold opSecp256k1Verify at h ⊢
    simp only [hg, ex_ok_bind] at h ⊢
    walk_ok h
    budget_close
  · unfold opSecp256k1Verify at h; simp only [hg, ex_err_bind, ex_bind_ok] at h
    obtain ⟨_, _, h⟩ := h; cases h

/-- simp set deciding the argument-count test of `g1_map` / `g2_map` on a concrete list -/
syntax "argc_simp" (Lean.Parser.Tactic.location)? : tactic
macro_rules
  | `(tactic| argc_simp $[$loc]?) => `(tactic|
    simp only [List.length_cons, List.length_nil, Nat.zero_add, Nat.reduceAdd, Nat.reduceLeDiff, Nat.le_refl,
      decide_true, decide_false, Bool.and_true, Bool.and_false, Bool.true_and, Bool.false_and, Bool.not_true,
      Bool.not_false, Bool.false_eq_true, eq_self, ↓reduceIte, Bool.and_self] $[$loc]?)

theorem opBlsMapToG1_budget (H : Bytes → Bytes → Bls.G1) : TBudget (opBlsMapToG1 H) := by
  intro flags m args r h
  unfold opBlsMapToG1 at h ⊢
  rcases getVarargs2_cases args "g1_map" with ⟨t, rfl, hg⟩ | ⟨a, t, rfl, hg⟩ | ⟨a, b, t, rfl, hg⟩ | ⟨s, hg⟩
  · simp only [hg, ex_ok_bind] at h; argc_simp at h; simp only [ex_throw, ex_err_bind, reduceCtorEq] at h
  · cases hnm : newCostModel flags <;>
    · simp only [hg, hnm, ex_ok_bind] at h ⊢
      argc_simp at h ⊢
      walk_ok h
      budget_close
  · cases hnm : newCostModel flags <;>
    · simp only [hg, hnm, ex_ok_bind] at h ⊢
      argc_simp at h ⊢
      walk_ok h
      budget_close
  · simp only [hg, ex_err_bind, reduceCtorEq] at h

theorem opBlsMapToG2_budget (H : Bytes → Bytes → Bls.G2) : TBudget (opBlsMapToG2 H) := by
  intro flags m args r h
  unfold opBlsMapToG2 at h ⊢
  rcases getVarargs2_cases args "g2_map" with ⟨t, rfl, hg⟩ | ⟨a, t, rfl, hg⟩ | ⟨a, b, t, rfl, hg⟩ | ⟨s, hg⟩
  · simp only [hg, ex_ok_bind] at h; argc_simp at h; simp only [ex_throw, ex_err_bind, reduceCtorEq] at h
  · cases hnm : newCostModel flags <;>
    · simp only [hg, hnm, ex_ok_bind] at h ⊢
      argc_simp at h ⊢
      walk_ok h
      budget_close
  · cases hnm : newCostModel flags <;>
    · simp only [hg, hnm, ex_ok_bind] at h ⊢
      argc_simp at h ⊢
      walk_ok h
      budget_close
  · simp only [hg, ex_err_bind, reduceCtorEq] at h

theorem opBlsPairingIdentity_budget (A : List (Bls.G1 × Bls.G2) → Bool) : TBudget (opBlsPairingIdentity A) := by
  intro flags m args r h
  unfold opBlsPairingIdentity at h ⊢
  cases hnm : newCostModel flags <;>
  · simp only [hnm, Bool.false_eq_true, ↓reduceIte, ex_bind_ok] at h ⊢
    obtain ⟨_, hc, ⟨cost, items⟩, hl, h⟩ := h
    simp only at h
    split at h
    · simp only [ex_throw, reduceCtorEq] at h
    · rename_i hA
      simp only [ex_pure, Except.ok.injEq] at h
      subst h
      exact (LoopOk.lift (pairingLoop_ok hl) (Nat.le_refl _)
        (fun m' hm' => by simp only [hm', ex_ok_bind, hA, Bool.false_eq_true, ↓reduceIte, ex_pure])
        (fun m' hm' => by simp only [hm', ex_err_bind])).checkB (Nat.zero_le _)

theorem opBlsVerify_budget (A : Bls.G2 → List (Bls.G1 × Bytes) → Bool) : TBudget (opBlsVerify A) := by
  intro flags m args r h
  unfold opBlsVerify at h ⊢
  cases hnm : newCostModel flags <;>
  · simp only [hnm, Bool.false_eq_true, ↓reduceIte, ex_bind_ok] at h ⊢
    obtain ⟨_, hc, a1, h1, sig, hsig, a2, h2, ⟨cost, items⟩, hl, h⟩ := h
    simp only at h
    split at h
    · simp only [ex_throw, reduceCtorEq] at h
    · rename_i hA
      simp only [ex_pure, Except.ok.injEq] at h
      subst h
      simp only [h1, hsig, h2, ex_ok_bind]
      exact (LoopOk.lift (verifyLoop_ok hl) (Nat.le_refl _)
        (fun m' hm' => by simp only [hm', ex_ok_bind, hA, Bool.false_eq_true, ↓reduceIte, ex_pure])
        (fun m' hm' => by simp only [hm', ex_err_bind])).checkB (Nat.zero_le _)

/-- **every tree-level operator of the dispatch table has the budget shape** (any primitives) -/
theorem opByNameWith_budget (P : Primitives) {name : String} {g : Crypto.OpFn}
    (h : opByNameWith P name = some g) : TBudget g := by
  unfold opByNameWith at h
  split at h <;> first
    | (cases h; done)
    | (cases h; first
        | exact opSha256_budget | exact opKeccak256_budget | exact opCoinid_budget | exact opPointAdd_budget
        | exact opPubkeyForExp_budget | exact opBlsG1Subtract_budget | exact opBlsG1Multiply_budget
        | exact opBlsG1Negate_budget | exact opBlsG2Add_budget | exact opBlsG2Subtract_budget
        | exact opBlsG2Multiply_budget | exact opBlsG2Negate_budget | exact opBlsMapToG1_budget _
        | exact opBlsMapToG2_budget _ | exact opBlsPairingIdentity_budget _ | exact opBlsVerify_budget _
        | exact opSecp256k1Verify_budget | exact opSecp256r1Verify_budget)

end Clvm.Crypto.Ops
