/-
C03, heap history, monotone direction (machine level): a run that succeeds from the counters `c0`
succeeds with the same cost and value from every `c0'` with at least as much headroom (`Room`).
Lock-step simulation; the two states are equal except for the counters, which are related by `Room`
(also the snapshots kept by the softfork guards).
-/
import ClvmProofs.Lemmas.Interp.ReprMonoOps
import ClvmProofs.Lemmas.Interp.ReprMachine

namespace Clvm.Interp
open Clvm Clvm.Alloc

/-- if the left computation succeeds, so does the right one, with a related result -/
inductive OR {α : Type} (R : α → α → Prop) : M α → M α → Prop where
  | ok {a a' : α} (h : R a a') : OR R (.ok a) (.ok a')
  | err (e : Stop) (y : M α) : OR R (.error e) y

theorem OR.bind {α β : Type} {R : α → α → Prop} {S : β → β → Prop} {x x' : M α} {f f' : α → M β}
    (hx : OR R x x') (hf : ∀ a a', R a a' → OR S (f a) (f' a')) : OR S (x >>= f) (x' >>= f') := by
  cases hx with
  | ok h => exact hf _ _ h
  | err e y => exact .err e _

theorem OR.liftE_eq {α : Type} (x : Except Err α) : OR Eq (liftE x) (liftE x) := by
  cases x with
  | error e => exact .err _ _
  | ok a => exact .ok rfl

/-- guard stacks that agree except for the counter snapshots, which are related by `Room` -/
inductive GuardsMono (L L' : Nat) : List SoftforkGuard → List SoftforkGuard → Prop where
  | nil : GuardsMono L L' [] []
  | cons {g g' : SoftforkGuard} {l l' : List SoftforkGuard} (he : g.expectedCost = g'.expectedCost)
      (ho : g.operatorSet = g'.operatorSet) (hc : Room L L' g.allocatorState g'.allocatorState)
      (t : GuardsMono L L' l l') : GuardsMono L L' (g :: l) (g' :: l')

theorem GuardsMono.length_eq {L L' : Nat} {l l' : List SoftforkGuard} (h : GuardsMono L L' l l') :
    l.length = l'.length := by
  induction h with
  | nil => rfl
  | cons _ _ _ _ ih => simp [ih]

/-- equal states except for the counters: the right one has at least as much headroom -/
structure MonoEq (L L' : Nat) (s s' : MState) : Prop where
  val : s.valStack = s'.valStack
  env : s.envStack = s'.envStack
  valLen : s.valLen = s'.valLen
  envLen : s.envLen = s'.envLen
  ops : s.opStack = s'.opStack
  guards : GuardsMono L L' s.softforkStack s'.softforkStack
  allocs : s.allocatorStack = s'.allocatorStack
  ctr : Room L L' s.ctr s'.ctr

def MStepRel (L L' : Nat) (r r' : Nat × MState) : Prop := r.1 = r'.1 ∧ MonoEq L L' r.2 r'.2

variable {L L' : Nat}

theorem mono_pop {s s' : MState} (h : MonoEq L L' s s') :
    OR (fun r r' => r.1 = r'.1 ∧ MonoEq L L' r.2 r'.2) s.pop s'.pop := by
  unfold MState.pop
  rw [h.val]
  cases hv : s'.valStack with
  | nil => exact .err _ _
  | cons v vs =>
    exact .ok ⟨rfl, ⟨rfl, h.env, by simp [h.valLen], h.envLen, h.ops, h.guards, h.allocs, h.ctr⟩⟩

theorem mono_push {s s' : MState} (h : MonoEq L L' s s') (v : Val) : OR (MonoEq L L') (s.push v) (s'.push v) := by
  unfold MState.push
  rw [h.valLen]
  split
  · exact .err _ _
  · exact .ok ⟨by simp [h.val], h.env, by simp, h.envLen, h.ops, h.guards, h.allocs, h.ctr⟩

theorem mono_pushEnv {s s' : MState} (h : MonoEq L L' s s') (v : Val) : OR (MonoEq L L') (s.pushEnv v) (s'.pushEnv v) := by
  unfold MState.pushEnv
  rw [h.envLen]
  split
  · exact .err _ _
  · exact .ok ⟨h.val, by simp [h.env], h.valLen, by simp, h.ops, h.guards, h.allocs, h.ctr⟩

theorem mono_pushOp {s s' : MState} (h : MonoEq L L' s s') (o : Operation) : MonoEq L L' (s.pushOp o) (s'.pushOp o) :=
  ⟨h.val, h.env, h.valLen, h.envLen, by simp [MState.pushOp, h.ops], h.guards, h.allocs, h.ctr⟩

theorem mono_pushOperands (v : Val) {s s' : MState} (h : MonoEq L L' s s') :
    OR (fun r r' => r.1 = r'.1 ∧ MonoEq L L' r.2 r'.2) (pushOperands v s) (pushOperands v s') := by
  induction v generalizing s s' with
  | atom b t => exact .ok ⟨rfl, h⟩
  | pair f r _ ihr =>
    simp only [pushOperands]
    refine (mono_push (mono_pushOp h .SwapEval) f).bind ?_
    intro a a' ha
    exact ihr ha

theorem mono_evalOpAtom (d : Dialect) {s s' : MState} (h : MonoEq L L' s s') (o l env : Val) :
    OR (MStepRel L L') (evalOpAtom d s o l env) (evalOpAtom d s' o l env) := by
  unfold evalOpAtom
  split
  · refine (mono_push h l).bind ?_
    intro a a' ha; exact .ok ⟨rfl, ha⟩
  · have hs1 : MonoEq L L'
        (if d.gcCandidate o = true then
          ({ s with allocatorStack := s.allocatorStack + 1 }.pushOp .RestoreAllocator) else s)
        (if d.gcCandidate o = true then
          ({ s' with allocatorStack := s'.allocatorStack + 1 }.pushOp .RestoreAllocator) else s') := by
      split
      · exact mono_pushOp (s := { s with allocatorStack := s.allocatorStack + 1 })
          (s' := { s' with allocatorStack := s'.allocatorStack + 1 })
          ⟨h.val, h.env, h.valLen, h.envLen, h.ops, h.guards, by simp [h.allocs], h.ctr⟩ _
      · exact h
    refine (mono_pushEnv hs1 env).bind ?_
    intro a a' ha
    refine (mono_push (mono_pushOp ha .Apply) o).bind ?_
    intro a1 a1' ha1
    refine (mono_pushOperands l ha1).bind ?_
    intro ⟨t, s2⟩ ⟨t', s2'⟩ ⟨ht, hs2⟩
    simp only at ht hs2 ⊢
    subst ht
    cases t with
    | pair _ _ => exact .err _ _
    | atom b _ =>
      simp only []
      split
      · exact .err _ _
      · refine (mono_push hs2 Val.nil).bind ?_
        intro a2 a2' ha2; exact .ok ⟨rfl, ha2⟩

theorem mono_evalPair (cfg : Cfg) (d : Dialect) {s s' : MState} (h : MonoEq L L' s s') (p env : Val) :
    OR (MStepRel L L') (evalPair cfg d s p env) (evalPair cfg d s' p env) := by
  cases p with
  | atom b t =>
    simp only [evalPair]
    refine (OR.liftE_eq _).bind ?_
    intro r r' hr
    subst hr
    refine (mono_push h r.2).bind ?_
    intro a a' ha
    exact .ok ⟨rfl, ha⟩
  | pair o l =>
    cases o with
    | atom b t => exact mono_evalOpAtom d h _ l env
    | pair no x =>
      simp only [evalPair]
      refine (OR.liftE_eq _).bind ?_
      intro inner inner' hin
      subst hin
      split
      · exact .err _ _
      · refine (mono_pushEnv h env).bind ?_
        intro a a' ha
        refine (mono_push ha no).bind ?_
        intro a1 a1' ha1
        refine (mono_push ha1 l).bind ?_
        intro a2 a2' ha2
        exact .ok ⟨rfl, mono_pushOp ha2 _⟩

theorem mono_swapEvalOp (cfg : Cfg) (d : Dialect) {s s' : MState} (h : MonoEq L L' s s') :
    OR (MStepRel L L') (swapEvalOp cfg d s) (swapEvalOp cfg d s') := by
  unfold swapEvalOp
  refine (mono_pop h).bind ?_
  intro ⟨v2, s1⟩ ⟨v2', s1'⟩ ⟨hv2, hs1⟩
  refine (mono_pop hs1).bind ?_
  intro ⟨p, s2⟩ ⟨p', s2'⟩ ⟨hp, hs2⟩
  simp only at hv2 hs1 hp hs2 ⊢
  subst hv2; subst hp
  rw [hs2.env]
  cases s2'.envStack with
  | nil => exact .err _ _
  | cons env _ =>
    simp only []
    refine (mono_push hs2 v2).bind ?_
    intro a a' ha
    exact mono_evalPair cfg d (mono_pushOp ha .Cons) p env


theorem mono_allocPair {c c' : Ctr} (hr : Room L L' c c') (l r : Val) :
    OR (fun x x' => x.1 = x'.1 ∧ Room L L' x.2 x'.2) (liftE (allocPair c l r)) (liftE (allocPair c' l r)) := by
  unfold allocPair
  cases h : c.newPair with
  | error e => exact .err _ _
  | ok c1 =>
    have h1 := newPair_ok_iff.1 h
    have h2 : c'.newPair = .ok { c' with pairs := c'.pairs + 1 } :=
      newPair_ok_iff.2 ⟨by unfold Room at hr; omega, rfl⟩
    rw [h2]
    refine .ok ⟨rfl, ?_⟩
    simp only [h1.2]
    unfold Room at hr ⊢
    simp only
    omega

theorem mono_consOp {s s' : MState} (h : MonoEq L L' s s') : OR (MStepRel L L') (consOp s) (consOp s') := by
  unfold consOp
  refine (mono_pop h).bind ?_
  intro ⟨v1, s1⟩ ⟨v1', s1'⟩ ⟨hv1, hs1⟩
  refine (mono_pop hs1).bind ?_
  intro ⟨v2, s2⟩ ⟨v2', s2'⟩ ⟨hv2, hs2⟩
  simp only at hv1 hs1 hv2 hs2 ⊢
  subst hv1; subst hv2
  refine (mono_allocPair hs2.ctr v1 v2).bind ?_
  intro ⟨p, c⟩ ⟨p', c'⟩ ⟨hp, hc⟩
  simp only at hp hc ⊢
  subst hp
  refine OR.bind (R := MonoEq L L') (mono_push ?_ p) ?_
  · exact ⟨hs2.val, hs2.env, hs2.valLen, hs2.envLen, hs2.ops, hs2.guards, hs2.allocs, hc⟩
  · intro a a' ha; exact .ok ⟨rfl, ha⟩

/-- outcomes of one operator call from counters with more headroom -/
def OpCallMono (L L' : Nat) : Option OpRes → Option OpRes → Prop
  | none, _ => True
  | some r, some r' => MonoRes L L' r r'
  | some _, none => False

/-- what the simulation needs from a dialect -/
def DialectMono (d : Dialect) : Prop :=
  ∀ L L' o args m ext c c', Room L L' c c' → OpCallMono L L' (d.op o args m ext c) (d.op o args m ext c')

theorem mono_effMax (mc : Nat) {s s' : MState} (h : MonoEq L L' s s') : effMax mc s = effMax mc s' := by
  unfold effMax
  have hg := h.guards
  generalize s.softforkStack = gs at hg ⊢
  generalize s'.softforkStack = gs' at hg ⊢
  cases hg with
  | nil => rfl
  | cons he _ _ _ => exact he

theorem mono_applyOpBody (cfg : Cfg) {d : Dialect} (hd : DialectMono d) {t t' : MState} (h : MonoEq L L' t t')
    (o ol : Val) (cc mc : Nat) :
    OR (MStepRel L L') (applyOpBody cfg d t o ol cc mc) (applyOpBody cfg d t' o ol cc mc) := by
  unfold applyOpBody
  simp only []
  have hg := h.guards
  generalize t.softforkStack = gs at hg ⊢
  generalize t'.softforkStack = gs' at hg ⊢
  split
  · refine (OR.liftE_eq _).bind ?_
    intro ⟨no, env⟩ ⟨no', env'⟩ he
    cases he
    refine (mono_evalPair cfg d h no env).bind ?_
    intro ⟨c, u⟩ ⟨c', u'⟩ ⟨hc, hu⟩
    simp only at hc hu ⊢
    subst hc
    exact .ok ⟨rfl, hu⟩
  · split
    · refine (OR.liftE_eq _).bind ?_
      intro f f' hf
      subst hf
      refine (OR.liftE_eq _).bind ?_
      intro ec ec' hec
      subst hec
      split
      · exact .err _ _
      · split
        · exact .err _ _
        · cases parseSoftforkArguments d ol with
          | error err =>
            simp only []
            split
            · refine (mono_push h Val.nil).bind ?_
              intro a a' ha; exact .ok ⟨rfl, ha⟩
            · exact .err _ _
          | ok q =>
            obtain ⟨ext, prg, env⟩ := q
            simp only []
            rw [hg.length_eq]
            split
            · exact .err _ _
            · have hgo : ∀ (x y : SoftforkGuard), x.expectedCost = y.expectedCost → x.operatorSet = y.operatorSet →
                  Room L L' x.allocatorState y.allocatorState →
                  OR (MStepRel L L')
                    (do
                      let __x ← evalPair cfg d ({ t with softforkStack := x :: gs }.pushOp .ExitGuard) prg env
                      pure (__x.fst + if hasFlag d.flags Gen.FLAG_NEW_COST_MODEL = true then Gen.NEW_GUARD_COST
                        else Gen.GUARD_COST, __x.snd))
                    (do
                      let __x ← evalPair cfg d ({ t' with softforkStack := y :: gs' }.pushOp .ExitGuard) prg env
                      pure (__x.fst + if hasFlag d.flags Gen.FLAG_NEW_COST_MODEL = true then Gen.NEW_GUARD_COST
                        else Gen.GUARD_COST, __x.snd)) := by
                intro x y hxy hxy' hxa
                refine (mono_evalPair (L := L) (L' := L') cfg d (mono_pushOp ?_ _) prg env).bind ?_
                · exact ⟨h.val, h.env, h.valLen, h.envLen, h.ops, .cons hxy hxy' hxa hg, h.allocs, h.ctr⟩
                · intro ⟨c, u⟩ ⟨c', u'⟩ ⟨hc, hu⟩
                  simp only at hc hu ⊢
                  subst hc
                  exact .ok ⟨rfl, hu⟩
              cases hg with
              | nil => exact hgo _ _ rfl rfl h.ctr
              | cons he _ _ _ => exact hgo _ _ (by simp only [he]) rfl h.ctr
    · have hcall : ∃ ext, OpCallMono L L'
          (d.op o ol mc (match gs with | sf :: _ => sf.operatorSet | [] => OperatorSet.Default) t.ctr)
          (d.op o ol mc (match gs' with | sf :: _ => sf.operatorSet | [] => OperatorSet.Default) t'.ctr) ∧
          ext = (match gs' with | sf :: _ => sf.operatorSet | [] => OperatorSet.Default) := by
        cases hg with
        | nil => exact ⟨_, hd L L' o ol mc _ t.ctr t'.ctr h.ctr, rfl⟩
        | cons _ ho _ _ => exact ⟨_, by simp only [ho]; exact hd L L' o ol mc _ t.ctr t'.ctr h.ctr, rfl⟩
      obtain ⟨_, hcall, _⟩ := hcall
      revert hcall
      generalize d.op o ol mc _ t.ctr = r
      generalize d.op o ol mc _ t'.ctr = r'
      intro hcall
      match r, r', hcall with
      | none, _, _ => exact .err _ _
      | some (.error e), _, _ => exact .err _ _
      | some (.ok (k, v, c)), some (.ok (k', v', c')), ⟨hk, hv, hc⟩ =>
        subst hk; subst hv
        simp only []
        refine OR.bind (R := MonoEq L L') (mono_push ?_ v) ?_
        · exact ⟨h.val, h.env, h.valLen, h.envLen, h.ops, hg, h.allocs, hc⟩
        · intro a a' ha; exact .ok ⟨rfl, ha⟩
      | some (.ok _), some (.error _), hf => exact hf.elim
      | some (.ok _), none, hf => exact hf.elim

theorem mono_applyOp (cfg : Cfg) {d : Dialect} (hd : DialectMono d) {s s' : MState} (h : MonoEq L L' s s')
    (cc mc : Nat) : OR (MStepRel L L') (applyOp cfg d s cc mc) (applyOp cfg d s' cc mc) := by
  rw [applyOp_eq_repr, applyOp_eq_repr]
  refine (mono_pop h).bind ?_
  intro ⟨ol, s1⟩ ⟨ol', s1'⟩ ⟨hol, hs1⟩
  refine (mono_pop hs1).bind ?_
  intro ⟨o, s2⟩ ⟨o', s2'⟩ ⟨ho, hs2⟩
  simp only at hol hs1 ho hs2 ⊢
  subst hol; subst ho
  have he := hs2.env
  generalize s2.envStack = es at he ⊢
  subst he
  cases s2'.envStack with
  | nil => exact .err _ _
  | cons x envs =>
    simp only []
    exact mono_applyOpBody cfg hd (t := { s2 with envStack := envs, envLen := s2.envLen - 1 })
      (t' := { s2' with envStack := envs, envLen := s2'.envLen - 1 })
      ⟨hs2.val, rfl, hs2.valLen, by simp [hs2.envLen], hs2.ops, hs2.guards, hs2.allocs, hs2.ctr⟩ _ _ _ _

theorem mono_exitGuard {s s' : MState} (h : MonoEq L L' s s') (cc : Nat) :
    OR (MStepRel L L') (exitGuard s cc) (exitGuard s' cc) := by
  unfold exitGuard
  have hg := h.guards
  generalize s.softforkStack = gs at hg ⊢
  generalize s'.softforkStack = gs' at hg ⊢
  cases hg with
  | nil => exact .err _ _
  | @cons g g' rest rest' he ho hgc ht =>
    simp only [SoftforkGuard.costExempt, he, ho]
    by_cases hcnd : (!g'.operatorSet == OperatorSet.PreHardFork && cc != g'.expectedCost) = true
    · simp only [hcnd, if_true]; exact .err _ _
    · simp only [hcnd, if_false, Bool.false_eq_true]
      rw [h.val]
      cases s'.valStack with
      | nil => exact .err _ _
      | cons _ vs =>
        simp only []
        refine OR.bind (R := MonoEq L L') (mono_push ?_ Val.nil) ?_
        · refine ⟨rfl, h.env, by simp [h.valLen], h.envLen, h.ops, ht, h.allocs, ?_⟩
          have hc := h.ctr
          unfold Room at hgc hc ⊢
          simp only
          omega
        · intro a a' ha; exact .ok ⟨rfl, ha⟩

theorem mono_stepOp (cfg : Cfg) {d : Dialect} (hd : DialectMono d) {s s' : MState} (h : MonoEq L L' s s')
    (op : Operation) (cost em : Nat) :
    OR (MStepRel L L') (stepOp cfg d s op cost em) (stepOp cfg d s' op cost em) := by
  cases op with
  | Apply => exact mono_applyOp cfg hd h _ _
  | ExitGuard => exact mono_exitGuard h _
  | Cons => exact mono_consOp h
  | SwapEval => exact mono_swapEvalOp cfg d h
  | RestoreAllocator =>
    simp only [stepOp]
    rw [h.allocs, h.val]
    split
    · exact .err _ _
    · split
      · exact .err _ _
      · exact .ok ⟨rfl, ⟨rfl, h.env, h.valLen, h.envLen, h.ops, h.guards, rfl, h.ctr⟩⟩


/-- if the left loop answers with a success, so does the right one (same fuel), with a related state -/
def MLoopRel (L L' : Nat) : Option (M (Nat × MState)) → Option (M (Nat × MState)) → Prop
  | some (.ok r), y => ∃ r', y = some (.ok r') ∧ MStepRel L L' r r'
  | _, _ => True

theorem mono_runLoop (cfg : Cfg) {d : Dialect} (hd : DialectMono d) (maxCost fuel : Nat) :
    ∀ {s s' : MState}, MonoEq L L' s s' → ∀ cost : Nat,
      MLoopRel L L' (runLoop cfg d maxCost fuel s cost) (runLoop cfg d maxCost fuel s' cost) := by
  induction fuel with
  | zero => intro s s' _ cost; simp [runLoop_zero, MLoopRel]
  | succ n ih =>
    intro s s' h cost
    rw [runLoop_succ, runLoop_succ, mono_effMax maxCost h]
    unfold loopBody
    split
    · trivial
    · rw [h.ops]
      cases hops : s'.opStack with
      | nil => exact ⟨_, rfl, rfl, h⟩
      | cons op ops =>
        simp only []
        have hst := mono_stepOp cfg hd (s := { s with opStack := ops }) (s' := { s' with opStack := ops })
          ⟨h.val, h.env, h.valLen, h.envLen, rfl, h.guards, h.allocs, h.ctr⟩ op cost (effMax maxCost s')
        revert hst
        generalize stepOp cfg d { s with opStack := ops } op cost (effMax maxCost s') = r
        generalize stepOp cfg d { s' with opStack := ops } op cost (effMax maxCost s') = r'
        intro hst
        cases hst with
        | ok hr =>
          rename_i a a'
          obtain ⟨c, t⟩ := a; obtain ⟨c', t'⟩ := a'
          obtain ⟨hc, ht⟩ := hr
          simp only at hc ht ⊢
          subst hc
          exact ih ht _
        | err e y => trivial

theorem addGhostAtom_mono {c c' c1 : Ctr} {n : Nat} (hr : Room L L' c c') (h : c.addGhostAtom n = .ok c1) :
    ∃ c1', c'.addGhostAtom n = .ok c1' ∧ Room L L' c1 c1' := by
  unfold Ctr.addGhostAtom at h ⊢
  unfold Room at hr ⊢
  generalize Gen.maxNumAtoms = M at h hr ⊢
  by_cases h1 : M - c.atoms < n
  · simp [h1] at h
  · simp only [h1, if_false] at h
    cases h
    have h2 : ¬ M - c'.atoms < n := by omega
    refine ⟨{ c' with atoms := c'.atoms + n }, by simp only [h2, if_false], ?_⟩
    simp only
    omega

/-- **C03, heap history, monotone in the headroom (machine level)**: a run that succeeds from `c0`
succeeds, with the same fuel, the same cost and the same value, from every `c0'` with at least as
much headroom in the three counters; and the final counters are again related by `Room`. -/
theorem run_history_mono (cfg : Cfg) {d : Dialect} (hd : DialectMono d) (fuel : Nat) (c0 c0' : Ctr)
    (hr : Room L L' c0 c0') (program env : Val) (maxCost : Nat) {k : Nat} {v : Val} {c1 : Ctr}
    (h : runProgram cfg d fuel c0 program env maxCost = some (.ok (k, v, c1))) :
    ∃ c1', runProgram cfg d fuel c0' program env maxCost = some (.ok (k, v, c1')) ∧ Room L L' c1 c1' := by
  unfold runProgram at h ⊢
  simp only [] at h ⊢
  cases hg : c0.addGhostAtom 1 with
  | error e => rw [hg] at h; cases h
  | ok c =>
    obtain ⟨c', hg', hrc⟩ := addGhostAtom_mono hr hg
    rw [hg] at h
    rw [hg']
    simp only [] at h ⊢
    have h0 : MonoEq L L' ({ ctr := c } : MState) ({ ctr := c' } : MState) :=
      ⟨rfl, rfl, rfl, rfl, rfl, .nil, rfl, hrc⟩
    have hev := mono_evalPair cfg d h0 program env
    revert hev h
    generalize evalPair cfg d { ctr := c } program env = x
    generalize evalPair cfg d { ctr := c' } program env = x'
    intro h hev
    cases hev with
    | err e y => cases e <;> cases h
    | ok hst =>
      rename_i a a'
      obtain ⟨k0, s⟩ := a; obtain ⟨k0', s'⟩ := a'
      obtain ⟨hk, hs⟩ := hst
      simp only at hk hs h ⊢
      subst hk
      have hl := mono_runLoop cfg hd (if maxCost == 0 then U64_MAX else maxCost) fuel hs k0
      revert hl h
      generalize runLoop cfg d _ fuel s k0 = y
      generalize runLoop cfg d _ fuel s' k0 = y'
      intro h hl
      match y, hl with
      | none, _ => cases h
      | some (.error e), _ => cases e <;> cases h
      | some (.ok (k1, s1)), ⟨⟨k1', s1'⟩, hy', hk1, hs1⟩ =>
        simp only at hk1 hs1 h
        subst hk1
        rw [hy']
        simp only []
        have hpop := mono_pop hs1
        revert hpop h
        generalize s1.pop = z
        generalize s1'.pop = z'
        intro h hpop
        cases hpop with
        | err e y => cases e <;> cases h
        | ok hv =>
          rename_i a a'
          obtain ⟨v0, s2⟩ := a; obtain ⟨v0', s2'⟩ := a'
          obtain ⟨hv, hs2⟩ := hv
          simp only at hv hs2 h ⊢
          subst hv
          cases h
          exact ⟨_, rfl, hs2.ctr⟩

/-! ### `ChiaDialect` -/

theorem chiaDialect_mono (cfg : Cfg) (extra : String → Option OpFn) (F : Flags)
    (hextra : ∀ name f, extra name = some f → OpCtrMono f) : DialectMono (chiaDialect cfg extra F) := by
  intro L L' o args m ext c c' hr
  show OpCallMono L L' (chiaOp cfg extra (chiaDialect cfg extra F).flags o args m ext c)
    (chiaOp cfg extra (chiaDialect cfg extra F).flags o args m ext c')
  generalize (chiaDialect cfg extra F).flags = dflags
  have call : ∀ (flags : Flags) (name : String),
      OpCallMono L L'
        (match coreOpByName cfg name with
          | some f => some (f flags m args c)
          | none => match extra name with
            | some f => some (f flags m args c)
            | none => none)
        (match coreOpByName cfg name with
          | some f => some (f flags m args c')
          | none => match extra name with
            | some f => some (f flags m args c')
            | none => none) := by
    intro flags name
    cases hc : coreOpByName cfg name with
    | some f => exact coreOps_mono cfg name f hc L L' flags m args c c' hr
    | none =>
      simp only []
      cases he : extra name with
      | some f => exact hextra name f he L L' flags m args c c' hr
      | none => trivial
  have unk : ∀ (ob : Bytes) (flags : Flags),
      OpCallMono L L' (some (unknownOperator ob args flags m c)) (some (unknownOperator ob args flags m c')) := by
    intro ob flags
    unfold unknownOperator
    split
    · trivial
    · exact opUnknown_mono ob L L' flags m args c c' hr
  unfold chiaOp
  simp only []
  generalize (dflags ||| match ext with
    | .Default => 0 | .Bls => 0 | .Keccak => Gen.FLAG_ENABLE_KECCAK_OPS_OUTSIDE_GUARD
    | .PreHardFork => Gen.FLAG_ENABLE_KECCAK_OPS_OUTSIDE_GUARD) = flags
  cases o with
  | pair _ _ => trivial
  | atom ob t =>
    simp only []
    split
    · cases List.find? (fun e => e.1 == beNat ob) Gen.chiaOp4Table with
      | none => exact unk ob _
      | some e => exact call _ e.2
    · split
      · exact unk ob _
      · cases smallNumber (Val.atom ob t) with
        | none => exact unk ob _
        | some op =>
          simp only []
          cases lookupOp Gen.chiaOpTable op with
          | none => exact unk ob _
          | some e =>
            obtain ⟨name, req⟩ := e
            simp only []
            split
            · exact unk ob _
            · split
              · trivial
              · exact call _ name


theorem runProgram_ok_atoms {cfg : Cfg} {d : Dialect} {fuel : Nat} {c0 : Ctr} {p env : Val} {mc : Nat} {r : Nat × Val × Ctr}
    (h : runProgram cfg d fuel c0 p env mc = some (.ok r)) : c0.atoms ≤ Gen.maxNumAtoms := by
  unfold runProgram at h
  simp only [] at h
  cases hg : c0.addGhostAtom 1 with
  | error e => rw [hg] at h; cases h
  | ok c =>
    unfold Ctr.addGhostAtom at hg
    generalize Gen.maxNumAtoms = M at hg ⊢
    by_cases h1 : M - c0.atoms < 1
    · simp [h1] at hg
    · omega

/-- **C03, heap history, monotone in the headroom, `ChiaDialect` with every operator and flag set**:
a run that succeeds from the counters `c0` succeeds — same fuel, same cost, same value — from every
`c0'` with at least as much headroom: not more atoms, not more pairs, at least the same heap slack
(`heapLimit - heap`, stated without subtraction). -/
theorem chia_run_history_monotone (cfg : Cfg) (F : Flags) (fuel : Nat) (c0 c0' : Ctr) (program env : Val)
    (maxCost : Nat) (k : Nat) (v : Val) (c1 : Ctr)
    (hatoms : c0'.atoms ≤ c0.atoms) (hpairs : c0'.pairs ≤ c0.pairs)
    (hheap : c0'.heap + c0.heapLimit ≤ c0'.heapLimit + c0.heap)
    (h : runProgram cfg (chiaDialect cfg cryptoExtra F) fuel c0 program env maxCost = some (.ok (k, v, c1))) :
    ∃ c1', runProgram cfg (chiaDialect cfg cryptoExtra F) fuel c0' program env maxCost = some (.ok (k, v, c1')) ∧
      c1'.atoms ≤ c1.atoms ∧ c1'.pairs ≤ c1.pairs ∧ c1'.heap + c0.heapLimit ≤ c0'.heapLimit + c1.heap := by
  have hr : Room c0.heapLimit c0'.heapLimit c0 c0' :=
    ⟨rfl, rfl, hheap, hatoms, runProgram_ok_atoms h, hpairs⟩
  obtain ⟨c1', h1, h2⟩ := run_history_mono cfg (chiaDialect_mono cfg cryptoExtra F cryptoExtra_mono) fuel c0 c0' hr
    program env maxCost h
  exact ⟨c1', h1, h2.2.2.2.1, h2.2.2.2.2.2, h2.2.2.1⟩

-- satisfiable: a fresh allocator has more headroom than one with a past
example : ∃ r, runProgram {} (chiaDialect {} cryptoExtra 0) 10
    { atoms := 57, pairs := 23, heap := 400, heapLimit := 1000 } (concatProg true) Val.nil 0 = some (.ok r) :=
  ⟨_, rfl⟩

end Clvm.Interp
