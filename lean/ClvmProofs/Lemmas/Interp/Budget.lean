/-
C02, per-operator layer: `OpBudget f` and `OpBudgetErr f` for every operator of `coreOpByName` and for
`opUnknown` (the latter outside the wrap-around of the old cost model, DESIGN §6-B).
-/
import ClvmProofs.Lemmas.Interp.BudgetAux

namespace Clvm.Interp
open Clvm Clvm.Alloc

/-! ### generic reductions -/

theorem OpBudget.of_loopOk {f : OpFn}
    (h : ∀ flags m args c r, f flags m args c = .ok r → LoopOk r.1 0 (fun m' => f flags m' args c) r) :
    OpBudget f :=
  fun flags m m' args c r hr => (h flags m args c r hr).2 m'

/-- an operator that does not look at its budget -/
theorem OpBudget.of_indep {f : OpFn} (h : ∀ flags m m' args c, f flags m args c = f flags m' args c) :
    OpBudget f :=
  fun flags m m' args c _ hr => ⟨Or.inl (h flags m m' args c ▸ hr), fun _ => h flags m m' args c ▸ hr⟩

theorem OpBudgetErr.of_indep {f : OpFn} (h : ∀ flags m m' args c, f flags m args c = f flags m' args c) :
    OpBudgetErr f :=
  fun flags m m' args c _ he _ _ => h flags m m' args c ▸ he

theorem ok_ne_ce {α} {a : α} : (Except.ok a : Except Err α) ≠ .error .CostExceeded := fun h => nomatch h

theorem err_ne_ce {α} {e : Err} (h : e ≠ .CostExceeded) : (Except.error e : Except Err α) ≠ .error .CostExceeded :=
  fun hh => h (Except.error.inj hh)

theorem le_mallocCost (cost : Nat) (v : Val) : cost ≤ mallocCost cost v := by
  unfold mallocCost; split <;> omega

/-! ### operators that ignore the budget -/

theorem opIf_budget : OpBudget opIf := .of_indep fun _ _ _ _ _ => rfl
theorem opIf_budgetErr : OpBudgetErr opIf := .of_indep fun _ _ _ _ _ => rfl
theorem opCons_budget : OpBudget opCons := .of_indep fun _ _ _ _ _ => rfl
theorem opCons_budgetErr : OpBudgetErr opCons := .of_indep fun _ _ _ _ _ => rfl
theorem opFirst_budget : OpBudget opFirst := .of_indep fun _ _ _ _ _ => rfl
theorem opFirst_budgetErr : OpBudgetErr opFirst := .of_indep fun _ _ _ _ _ => rfl
theorem opRest_budget : OpBudget opRest := .of_indep fun _ _ _ _ _ => rfl
theorem opRest_budgetErr : OpBudgetErr opRest := .of_indep fun _ _ _ _ _ => rfl
theorem opListp_budget : OpBudget opListp := .of_indep fun _ _ _ _ _ => rfl
theorem opListp_budgetErr : OpBudgetErr opListp := .of_indep fun _ _ _ _ _ => rfl
theorem opRaise_budget : OpBudget opRaise := .of_indep fun _ _ _ _ _ => rfl
theorem opRaise_budgetErr : OpBudgetErr opRaise := .of_indep fun _ _ _ _ _ => rfl
theorem opEq_budget : OpBudget opEq := .of_indep fun _ _ _ _ _ => rfl
theorem opEq_budgetErr : OpBudgetErr opEq := .of_indep fun _ _ _ _ _ => rfl
theorem opGr_budget (cfg : Cfg) : OpBudget (opGr cfg) := .of_indep fun _ _ _ _ _ => rfl
theorem opGr_budgetErr (cfg : Cfg) : OpBudgetErr (opGr cfg) := .of_indep fun _ _ _ _ _ => rfl
theorem opGrBytes_budget : OpBudget opGrBytes := .of_indep fun _ _ _ _ _ => rfl
theorem opGrBytes_budgetErr : OpBudgetErr opGrBytes := .of_indep fun _ _ _ _ _ => rfl
theorem opStrlen_budget : OpBudget opStrlen := .of_indep fun _ _ _ _ _ => rfl
theorem opStrlen_budgetErr : OpBudgetErr opStrlen := .of_indep fun _ _ _ _ _ => rfl
theorem opSubstr_budget : OpBudget opSubstr := .of_indep fun _ _ _ _ _ => rfl
theorem opSubstr_budgetErr : OpBudgetErr opSubstr := .of_indep fun _ _ _ _ _ => rfl
theorem opAsh_budget : OpBudget opAsh := .of_indep fun _ _ _ _ _ => rfl
theorem opAsh_budgetErr : OpBudgetErr opAsh := .of_indep fun _ _ _ _ _ => rfl
theorem opLsh_budget : OpBudget opLsh := .of_indep fun _ _ _ _ _ => rfl
theorem opLsh_budgetErr : OpBudgetErr opLsh := .of_indep fun _ _ _ _ _ => rfl
theorem opLognot_budget : OpBudget opLognot := .of_indep fun _ _ _ _ _ => rfl
theorem opLognot_budgetErr : OpBudgetErr opLognot := .of_indep fun _ _ _ _ _ => rfl
theorem opNot_budget : OpBudget opNot := .of_indep fun _ _ _ _ _ => rfl
theorem opNot_budgetErr : OpBudgetErr opNot := .of_indep fun _ _ _ _ _ => rfl

/-! ### operators built on one loop -/

/-- one case of `fun_cases op …` for an operator of the form "loop, then budget-free allocation":
`op_ok_loop op (loop_ok ‹_›) h` -/
syntax "op_ok_loop " ident term:max ident : tactic
macro_rules
  | `(tactic| op_ok_loop $op:ident $lem:term $h:ident) => `(tactic|
    first
    | (cases $h:ident; done)
    | (cases $h:ident; loop_prep <;>
       exact (LoopOk.weaken $lem (Nat.zero_le _)).lift
         (by first | exact Nat.le_refl _ | exact le_mallocCost _ _ | exact Nat.le_add_right _ _ | cost_omega)
         (fun m' hm => by simp only [$op:ident, hm, *])
         (fun m' hm => by simp only [$op:ident, hm, *])))

/-- one case of `fun_cases op …` for the failure lemma of such an operator -/
syntax "op_err_loop " ident term:max ident ident ident : tactic
macro_rules
  | `(tactic| op_err_loop $op:ident $lem:term $hne:ident $hle:ident $h:ident) => `(tactic|
    first
    | (cases $h:ident; done)
    | (cases $h:ident; loop_prep <;>
       (simp only [$op:ident, *,
          ($lem (by first | exact err_ne_ce $hne | exact ok_ne_ce) $hle)];
        done)))

theorem opConcat_budget : OpBudget opConcat := by
  refine .of_loopOk fun flags m args c r h => ?_
  revert h
  fun_cases opConcat flags m args c <;> intro h <;> op_ok_loop opConcat (concatLoop_ok ‹_›) h

theorem opConcat_budgetErr : OpBudgetErr opConcat := by
  intro flags m m' args c e h hne hle
  revert h
  fun_cases opConcat flags m args c <;> intro h <;> op_err_loop opConcat (concatLoop_mono ‹_›) hne hle h

theorem opAny_budget : OpBudget opAny := by
  refine .of_loopOk fun flags m args c r h => ?_
  revert h
  fun_cases opAny flags m args c <;> intro h <;> op_ok_loop opAny (boolLoop_ok ‹_›) h

theorem opAny_budgetErr : OpBudgetErr opAny := by
  intro flags m m' args c e h hne hle
  revert h
  fun_cases opAny flags m args c <;> intro h <;> op_err_loop opAny (boolLoop_mono ‹_›) hne hle h

theorem opAll_budget : OpBudget opAll := by
  refine .of_loopOk fun flags m args c r h => ?_
  revert h
  fun_cases opAll flags m args c <;> intro h <;> op_ok_loop opAll (boolLoop_ok ‹_›) h

theorem opAll_budgetErr : OpBudgetErr opAll := by
  intro flags m m' args c e h hne hle
  revert h
  fun_cases opAll flags m args c <;> intro h <;> op_err_loop opAll (boolLoop_mono ‹_›) hne hle h

theorem binopReduction_budget (name : String) (init : Int) (f : Int → Int → Int) :
    OpBudget (binopReduction name init f) := by
  refine .of_loopOk fun flags m args c r h => ?_
  revert h
  fun_cases binopReduction name init f flags m args c <;> intro h <;>
    op_ok_loop binopReduction (binopLoop_ok ‹_›) h

theorem binopReduction_budgetErr (name : String) (init : Int) (f : Int → Int → Int) :
    OpBudgetErr (binopReduction name init f) := by
  intro flags m m' args c e h hne hle
  revert h
  fun_cases binopReduction name init f flags m args c <;> intro h <;>
    op_err_loop binopReduction (binopLoop_mono ‹_›) hne hle h

theorem opLogand_budget : OpBudget opLogand := binopReduction_budget _ _ _
theorem opLogand_budgetErr : OpBudgetErr opLogand := binopReduction_budgetErr _ _ _
theorem opLogior_budget : OpBudget opLogior := binopReduction_budget _ _ _
theorem opLogior_budgetErr : OpBudgetErr opLogior := binopReduction_budgetErr _ _ _
theorem opLogxor_budget : OpBudget opLogxor := binopReduction_budget _ _ _
theorem opLogxor_budgetErr : OpBudgetErr opLogxor := binopReduction_budgetErr _ _ _


/-! ### `op_sha256` -/

theorem newAtomAndCost_le {c : Ctr} {cost : Nat} {buf : Bytes} {r : Nat × Val × Ctr}
    (h : newAtomAndCost c cost buf = .ok r) : cost ≤ r.1 := by
  unfold newAtomAndCost at h
  split at h
  · cases h
  · cases h; exact Nat.le_add_right _ _

/-- the fast path of `op_sha256` as a function of the budget -/
def sha256Fast (cfg : Cfg) (c : Ctr) (input : Val) (base cpa cpb maxCost : Nat) :
    Option (Except Err (Nat × Val × Ctr)) :=
  if cfg.fastpath then
    match matchArgs 2 input with
    | some [v0, v1] =>
      if smallNumber v0 == some 1 then
        match smallNumber v1 with
        | some val =>
          if val < Gen.thPrecomputedHashes.length then
            let numBytes := if val > 0 then 2 else 1
            let cost := base + numBytes * cpb + 2 * cpa
            some (match checkCost cost maxCost with
              | .error e => .error e
              | .ok () => newAtomAndCost c cost (precomputedHash val))
          else none
        | none => none
      else none
    | _ => none
  else none

def sha256Costs (flags : Flags) : Nat × Nat × Nat :=
  if newModel flags then (Gen.NEW_SHA256_BASE_COST, Gen.NEW_SHA256_COST_PER_ARG, Gen.NEW_SHA256_COST_PER_BYTE)
  else (Gen.SHA256_BASE_COST, Gen.SHA256_COST_PER_ARG, Gen.SHA256_COST_PER_BYTE)

theorem opSha256_eq (cfg : Cfg) (flags maxCost : Nat) (input : Val) (c : Ctr) :
    opSha256 cfg flags maxCost input c =
    if input.isNilPtr then newAtomAndCost c (sha256Costs flags).1 (Hash.sha256 [])
    else
      match sha256Fast cfg c input (sha256Costs flags).1 (sha256Costs flags).2.1 (sha256Costs flags).2.2 maxCost with
      | some r => r
      | none =>
        match sha256Loop (sha256Costs flags).2.1 (sha256Costs flags).2.2 maxCost (argList input) (sha256Costs flags).1 [] with
        | .error e => .error e
        | .ok (cost, data) => newAtomAndCost c cost (Hash.sha256 data) := rfl

theorem sha256Fast_cases (cfg : Cfg) (c : Ctr) (input : Val) (base cpa cpb : Nat) :
    (∀ m, sha256Fast cfg c input base cpa cpb m = none) ∨
    (∃ cost val, ∀ m, sha256Fast cfg c input base cpa cpb m =
      some (match checkCost cost m with
            | .error e => .error e
            | .ok () => newAtomAndCost c cost (precomputedHash val))) := by
  unfold sha256Fast
  split
  · split
    · split
      · split
        · split
          · exact Or.inr ⟨_, _, fun _ => rfl⟩
          · exact Or.inl fun _ => rfl
        · exact Or.inl fun _ => rfl
      · exact Or.inl fun _ => rfl
    · exact Or.inl fun _ => rfl
  · exact Or.inl fun _ => rfl

theorem opSha256_budget (cfg : Cfg) : OpBudget (opSha256 cfg) := by
  refine .of_loopOk fun flags m args c r h => ?_
  simp only [opSha256_eq] at h ⊢
  generalize sha256Costs flags = p at h ⊢
  obtain ⟨base, cpa, cpb⟩ := p
  by_cases hnil : args.isNilPtr = true
  · simp only [hnil, ↓reduceIte] at h ⊢
    simp only [h]
    exact LoopOk.pure (Nat.zero_le _)
  · simp only [hnil, ↓reduceIte, Bool.false_eq_true] at h ⊢
    rcases sha256Fast_cases cfg c args base cpa cpb with hf | ⟨cost, val, hf⟩
    · simp only [hf] at h ⊢
      cases hl : sha256Loop cpa cpb m (argList args) base [] with
      | error e => simp only [hl] at h; cases h
      | ok p =>
        obtain ⟨cost, data⟩ := p
        simp only [hl] at h
        exact ((sha256Loop_ok hl).weaken (Nat.zero_le _)).lift (newAtomAndCost_le h)
          (fun m' hm => by simp only [hm, h]) (fun m' hm => by simp only [hm])
    · simp only [hf] at h ⊢
      split at h
      · cases h
      · simp only [h]
        exact (LoopOk.pure (newAtomAndCost_le h)).check (Nat.zero_le _)

theorem opSha256_budgetErr (cfg : Cfg) : OpBudgetErr (opSha256 cfg) := by
  intro flags m m' args c e h hne hle
  simp only [opSha256_eq] at h ⊢
  generalize sha256Costs flags = p at h ⊢
  obtain ⟨base, cpa, cpb⟩ := p
  by_cases hnil : args.isNilPtr = true
  · simp only [hnil, ↓reduceIte] at h ⊢
    exact h
  · simp only [hnil, ↓reduceIte, Bool.false_eq_true] at h ⊢
    rcases sha256Fast_cases cfg c args base cpa cpb with hf | ⟨cost, val, hf⟩
    · simp only [hf] at h ⊢
      cases hl : sha256Loop cpa cpb m (argList args) base [] with
      | error e' =>
        simp only [hl] at h; cases h
        simp only [sha256Loop_mono hl (err_ne_ce hne) hle]
      | ok p =>
        simp only [hl] at h
        simp only [sha256Loop_mono hl ok_ne_ce hle]
        exact h
    · simp only [hf] at h ⊢
      split at h
      · rename_i hc; cases h; exact absurd (checkCost_err hc) hne
      · rename_i hc; simp only [checkCost_mono hle hc]; exact h

/-! ### `op_multiply` -/

theorem ne_ce_of_err_ne {α} {e : Err} (h : (Except.error e : Except Err α) ≠ .error .CostExceeded) :
    e ≠ .CostExceeded := fun hh => h (hh ▸ rfl)

/-- the charge for the first argument of `op_multiply` (new cost model only) -/
def mulFirstCost (nm : Bool) (cost0 l0 maxCost : Nat) : Except Err Nat :=
  if nm then
    let c1 := cost0 + l0 * Gen.MUL_LINEAR_COST_PER_BYTE
    match checkCost c1 maxCost with
    | .error e => .error e
    | .ok () => .ok c1
  else .ok cost0

/-- `op_multiply` up to the product: the first argument and the loop -/
def mulBody (cfg : Cfg) (flags : Flags) (maxCost : Nat) (input : Val) : Except Err (Nat × Int) :=
  let nm := newModel flags
  let cost0 := if nm then Gen.NEW_MUL_BASE_COST else Gen.MUL_BASE_COST
  let sqDiv := if nm then Gen.NEW_MUL_SQUARE_COST_PER_BYTE_DIVIDER else Gen.MUL_SQUARE_COST_PER_BYTE_DIVIDER
  match argList input with
  | [] => .ok (cost0, 1)
  | arg :: rest =>
    match intAtom arg "*" with
    | .error e => .error e
    | .ok (total, l0) =>
      if hasFlag flags Gen.FLAG_LIMITS && !nm && l0 > 256 then .error (.InvalidOpArg "*")
      else
        match mulFirstCost nm cost0 l0 maxCost with
        | .error e => .error e
        | .ok c1 => mulLoop cfg flags maxCost sqDiv rest c1 total l0

theorem opMultiply_eq (cfg : Cfg) (flags maxCost : Nat) (input : Val) (c : Ctr) :
    opMultiply cfg flags maxCost input c =
    match mulBody cfg flags maxCost input with
    | .error e => .error e
    | .ok (cost, total) =>
      match allocNumber c total with
      | .error e => .error e
      | .ok (v, c') => .ok (mallocCost cost v, v, c') := rfl

theorem mulFirstCost_ok {nm : Bool} {cost0 l0 m r : Nat} (h : mulFirstCost nm cost0 l0 m = .ok r) :
    LoopOk r 0 (fun m' => mulFirstCost nm cost0 l0 m') r := by
  revert h
  fun_cases mulFirstCost nm cost0 l0 m <;> intro h <;> step_ok_core mulFirstCost h

theorem mulFirstCost_mono {nm : Bool} {cost0 l0 m : Nat} {x : Except Err Nat} (h : mulFirstCost nm cost0 l0 m = x)
    (hne : x ≠ .error .CostExceeded) {m' : Nat} (hle : m ≤ m') : mulFirstCost nm cost0 l0 m' = x := by
  revert h
  fun_cases mulFirstCost nm cost0 l0 m <;> intro h <;> loop_mono_core mulFirstCost hne hle h

theorem mulBody_ok {cfg : Cfg} {flags m : Nat} {args : Val} {r : Nat × Int}
    (h : mulBody cfg flags m args = .ok r) : LoopOk r.1 0 (fun m' => mulBody cfg flags m' args) r := by
  revert h
  fun_cases mulBody cfg flags m args <;> intro h <;>
  first
  | (cases h; done)
  | (cases h; loop_prep <;> (simp only [mulBody, *]; exact LoopOk.pure (Nat.zero_le _)))
  | (loop_prep <;> exact (mulFirstCost_ok ‹_›).bind (mulLoop_ok h)
        (fun m' hm => by simp only [mulBody, *, ↓reduceIte, Bool.false_eq_true])
        (fun m' hm => by simp only [mulBody, *, ↓reduceIte, Bool.false_eq_true]))

theorem mulBody_mono {cfg : Cfg} {flags m : Nat} {args : Val} {x : Except Err (Nat × Int)}
    (h : mulBody cfg flags m args = x) (hne : x ≠ .error .CostExceeded) {m' : Nat} (hle : m ≤ m') :
    mulBody cfg flags m' args = x := by
  revert h
  fun_cases mulBody cfg flags m args <;> intro h
  · subst h; loop_prep; simp only [mulBody, *]
  · subst h; simp only [mulBody, *]
  · subst h; loop_prep; simp only [mulBody, *, ↓reduceIte]
  · rename_i hf
    subst h; loop_prep
    simp only [mulBody, *, mulFirstCost_mono hf (err_ne_ce (ne_ce_of_err_ne hne)) hle, ↓reduceIte, Bool.false_eq_true]
  · rename_i hf
    loop_prep
    simp only [mulBody, *, mulFirstCost_mono hf ok_ne_ce hle, mulLoop_mono h hne hle, ↓reduceIte,
      Bool.false_eq_true]

theorem opMultiply_budget (cfg : Cfg) : OpBudget (opMultiply cfg) := by
  refine .of_loopOk fun flags m args c r h => ?_
  simp only [opMultiply_eq] at h ⊢
  cases hb : mulBody cfg flags m args with
  | error e => simp only [hb] at h; cases h
  | ok p =>
    obtain ⟨cost, total⟩ := p
    simp only [hb] at h
    cases ha : allocNumber c total with
    | error e => simp only [ha] at h; cases h
    | ok q =>
      obtain ⟨v, c'⟩ := q
      simp only [ha] at h; cases h
      exact (mulBody_ok hb).lift (le_mallocCost _ _)
        (fun m' hm => by simp only [hm, ha]) (fun m' hm => by simp only [hm])

theorem opMultiply_budgetErr (cfg : Cfg) : OpBudgetErr (opMultiply cfg) := by
  intro flags m m' args c e h hne hle
  simp only [opMultiply_eq] at h ⊢
  cases hb : mulBody cfg flags m args with
  | error e' =>
    simp only [hb] at h; cases h
    simp only [mulBody_mono hb (err_ne_ce hne) hle]
  | ok p =>
    simp only [hb] at h
    simp only [mulBody_mono hb ok_ne_ce hle]
    exact h

/-! ### `op_add`, `op_subtract` -/

theorem LoopOk.relo {α} {b lo lo' : Nat} {g : Nat → Except Err α} {r : α} (h : LoopOk b lo g r) (h' : lo' ≤ b) :
    LoopOk b lo' g r := ⟨h', h.2⟩

/-- the fast path of `op_add` as a function of the budget -/
def addFastSel (cfg : Cfg) (nm : Bool) (cpa cpb maxCost : Nat) (args : List Val) (base : Nat) :
    Except Err (Option (Nat × Nat)) :=
  if cfg.fastpath then addFast nm cpa cpb maxCost args base 0 else .ok none

theorem opAdd_eq (cfg : Cfg) (flags maxCost : Nat) (input : Val) (c : Ctr) :
    opAdd cfg flags maxCost input c =
    match addFastSel cfg (newModel flags) (arithCosts flags).2.1 (arithCosts flags).2.2 maxCost (argList input)
        (arithCosts flags).1 with
    | .error e => .error e
    | .ok (some (cost, total)) =>
      (match allocAtom c (u64Bytes total) with
      | .error e => .error e
      | .ok (v, c') => .ok (mallocCost cost v, v, c'))
    | .ok none =>
      match addGeneric (newModel flags) (arithCosts flags).2.1 (arithCosts flags).2.2 maxCost (argList input)
          (arithCosts flags).1 0 0 with
      | .error e => .error e
      | .ok (cost, total) =>
        match allocNumber c total with
        | .error e => .error e
        | .ok (v, c') => .ok (mallocCost cost v, v, c') := rfl

theorem addFastSel_some {cfg : Cfg} {nm : Bool} {cpa cpb m : Nat} {l : List Val} {base : Nat} {r : Nat × Nat}
    (h : addFastSel cfg nm cpa cpb m l base = .ok (some r)) :
    LoopOk r.1 base (fun m' => addFastSel cfg nm cpa cpb m' l base) (some r) := by
  unfold addFastSel at h ⊢
  split at h
  · rename_i hc; simp only [hc, ↓reduceIte]; exact addFast_ok h
  · cases h

theorem addFastSel_none {cfg : Cfg} {nm : Bool} {cpa cpb m : Nat} {l : List Val} {base : Nat} {r : Nat × Int}
    (h : addFastSel cfg nm cpa cpb m l base = .ok none)
    (hg : addGeneric nm cpa cpb m l base 0 0 = .ok r) :
    LoopOk r.1 base (fun m' => addFastSel cfg nm cpa cpb m' l base) none := by
  unfold addFastSel at h ⊢
  split at h
  · rename_i hc; simp only [hc, ↓reduceIte]; exact addFast_none (total := 0) h hg
  · rename_i hc; simp only [hc]; exact LoopOk.pure (addGeneric_ok hg).1

theorem addFastSel_mono {cfg : Cfg} {nm : Bool} {cpa cpb m : Nat} {l : List Val} {base : Nat}
    {x : Except Err (Option (Nat × Nat))} (h : addFastSel cfg nm cpa cpb m l base = x)
    (hne : x ≠ .error .CostExceeded) {m' : Nat} (hle : m ≤ m') : addFastSel cfg nm cpa cpb m' l base = x := by
  unfold addFastSel at h ⊢
  split
  · rename_i hc; simp only [hc, ↓reduceIte] at h; exact addFast_mono h hne hle
  · rename_i hc; simp only [hc] at h; exact h

theorem opAdd_budget (cfg : Cfg) : OpBudget (opAdd cfg) := by
  refine .of_loopOk fun flags m args c r h => ?_
  simp only [opAdd_eq] at h ⊢
  generalize arithCosts flags = p at h ⊢
  obtain ⟨base, cpa, cpb⟩ := p
  simp only at h ⊢
  cases hf : addFastSel cfg (newModel flags) cpa cpb m (argList args) base with
  | error e => simp only [hf] at h; cases h
  | ok o =>
    cases o with
    | some p =>
      obtain ⟨cost, total⟩ := p
      simp only [hf] at h
      cases ha : allocAtom c (u64Bytes total) with
      | error e => simp only [ha] at h; cases h
      | ok q =>
        obtain ⟨v, c'⟩ := q
        simp only [ha] at h; cases h
        exact ((addFastSel_some hf).weaken (Nat.zero_le _)).lift (le_mallocCost _ _)
          (fun m' hm => by simp only [hm, ha]) (fun m' hm => by simp only [hm])
    | none =>
      simp only [hf] at h
      cases hg : addGeneric (newModel flags) cpa cpb m (argList args) base 0 0 with
      | error e => simp only [hg] at h; cases h
      | ok p =>
        obtain ⟨cost, total⟩ := p
        simp only [hg] at h
        cases ha : allocNumber c total with
        | error e => simp only [ha] at h; cases h
        | ok q =>
          obtain ⟨v, c'⟩ := q
          simp only [ha] at h; cases h
          have hG : LoopOk (mallocCost cost v) cost
              (fun m' => match addGeneric (newModel flags) cpa cpb m' (argList args) base 0 0 with
                | .error e => .error e
                | .ok (cost, total) =>
                  match allocNumber c total with
                  | .error e => .error e
                  | .ok (v, c') => .ok (mallocCost cost v, v, c')) (mallocCost cost v, v, c') :=
            ((addGeneric_ok hg).lift (le_mallocCost _ _)
              (fun m' hm => by simp only [hm, ha]) (fun m' hm => by simp only [hm])).relo (le_mallocCost _ _)
          exact ((addFastSel_none hf hg).weaken (Nat.zero_le _)).bind hG
            (fun m' hm => by simp only [hm]) (fun m' hm => by simp only [hm])

theorem opAdd_budgetErr (cfg : Cfg) : OpBudgetErr (opAdd cfg) := by
  intro flags m m' args c e h hne hle
  simp only [opAdd_eq] at h ⊢
  generalize arithCosts flags = p at h ⊢
  obtain ⟨base, cpa, cpb⟩ := p
  simp only at h ⊢
  cases hf : addFastSel cfg (newModel flags) cpa cpb m (argList args) base with
  | error e' =>
    simp only [hf] at h; cases h
    simp only [addFastSel_mono hf (err_ne_ce hne) hle]
  | ok o =>
    simp only [hf] at h
    simp only [addFastSel_mono hf ok_ne_ce hle]
    cases o with
    | some p => exact h
    | none =>
      simp only at h ⊢
      cases hg : addGeneric (newModel flags) cpa cpb m (argList args) base 0 0 with
      | error e' =>
        simp only [hg] at h; cases h
        simp only [addGeneric_mono hg (err_ne_ce hne) hle]
      | ok p =>
        simp only [hg] at h
        simp only [addGeneric_mono hg ok_ne_ce hle]
        exact h

/-- the fast path of `op_subtract` as a function of the budget -/
def subFastSel (cfg : Cfg) (nm : Bool) (cpa cpb maxCost : Nat) (args : List Val) (base : Nat) :
    Except Err (Option (Nat × Int)) :=
  if cfg.fastpath then subFast nm cpa cpb maxCost args base 0 true else .ok none

theorem opSubtract_eq (cfg : Cfg) (flags maxCost : Nat) (input : Val) (c : Ctr) :
    opSubtract cfg flags maxCost input c =
    match subFastSel cfg (newModel flags) (arithCosts flags).2.1 (arithCosts flags).2.2 maxCost (argList input)
        (arithCosts flags).1 with
    | .error e => .error e
    | .ok (some (cost, total)) =>
      (match allocAtom c (i64Bytes total) with
      | .error e => .error e
      | .ok (v, c') => .ok (mallocCost cost v, v, c'))
    | .ok none =>
      match subGeneric (newModel flags) (arithCosts flags).2.1 (arithCosts flags).2.2 maxCost (argList input)
          (arithCosts flags).1 0 0 true with
      | .error e => .error e
      | .ok (cost, total) =>
        match allocNumber c total with
        | .error e => .error e
        | .ok (v, c') => .ok (mallocCost cost v, v, c') := rfl

theorem subFastSel_some {cfg : Cfg} {nm : Bool} {cpa cpb m : Nat} {l : List Val} {base : Nat} {r : Nat × Int}
    (h : subFastSel cfg nm cpa cpb m l base = .ok (some r)) :
    LoopOk r.1 base (fun m' => subFastSel cfg nm cpa cpb m' l base) (some r) := by
  unfold subFastSel at h ⊢
  split at h
  · rename_i hc; simp only [hc, ↓reduceIte]; exact subFast_ok h
  · cases h

theorem subFastSel_none {cfg : Cfg} {nm : Bool} {cpa cpb m : Nat} {l : List Val} {base : Nat} {r : Nat × Int}
    (h : subFastSel cfg nm cpa cpb m l base = .ok none)
    (hg : subGeneric nm cpa cpb m l base 0 0 true = .ok r) :
    LoopOk r.1 base (fun m' => subFastSel cfg nm cpa cpb m' l base) none := by
  unfold subFastSel at h ⊢
  split at h
  · rename_i hc; simp only [hc, ↓reduceIte]; exact subFast_none h hg (fun _ => rfl)
  · rename_i hc; simp only [hc]; exact LoopOk.pure (subGeneric_ok hg).1

theorem subFastSel_mono {cfg : Cfg} {nm : Bool} {cpa cpb m : Nat} {l : List Val} {base : Nat}
    {x : Except Err (Option (Nat × Int))} (h : subFastSel cfg nm cpa cpb m l base = x)
    (hne : x ≠ .error .CostExceeded) {m' : Nat} (hle : m ≤ m') : subFastSel cfg nm cpa cpb m' l base = x := by
  unfold subFastSel at h ⊢
  split
  · rename_i hc; simp only [hc, ↓reduceIte] at h; exact subFast_mono h hne hle
  · rename_i hc; simp only [hc] at h; exact h

theorem opSubtract_budget (cfg : Cfg) : OpBudget (opSubtract cfg) := by
  refine .of_loopOk fun flags m args c r h => ?_
  simp only [opSubtract_eq] at h ⊢
  generalize arithCosts flags = p at h ⊢
  obtain ⟨base, cpa, cpb⟩ := p
  simp only at h ⊢
  cases hf : subFastSel cfg (newModel flags) cpa cpb m (argList args) base with
  | error e => simp only [hf] at h; cases h
  | ok o =>
    cases o with
    | some p =>
      obtain ⟨cost, total⟩ := p
      simp only [hf] at h
      cases ha : allocAtom c (i64Bytes total) with
      | error e => simp only [ha] at h; cases h
      | ok q =>
        obtain ⟨v, c'⟩ := q
        simp only [ha] at h; cases h
        exact ((subFastSel_some hf).weaken (Nat.zero_le _)).lift (le_mallocCost _ _)
          (fun m' hm => by simp only [hm, ha]) (fun m' hm => by simp only [hm])
    | none =>
      simp only [hf] at h
      cases hg : subGeneric (newModel flags) cpa cpb m (argList args) base 0 0 true with
      | error e => simp only [hg] at h; cases h
      | ok p =>
        obtain ⟨cost, total⟩ := p
        simp only [hg] at h
        cases ha : allocNumber c total with
        | error e => simp only [ha] at h; cases h
        | ok q =>
          obtain ⟨v, c'⟩ := q
          simp only [ha] at h; cases h
          have hG : LoopOk (mallocCost cost v) cost
              (fun m' => match subGeneric (newModel flags) cpa cpb m' (argList args) base 0 0 true with
                | .error e => .error e
                | .ok (cost, total) =>
                  match allocNumber c total with
                  | .error e => .error e
                  | .ok (v, c') => .ok (mallocCost cost v, v, c')) (mallocCost cost v, v, c') :=
            ((subGeneric_ok hg).lift (le_mallocCost _ _)
              (fun m' hm => by simp only [hm, ha]) (fun m' hm => by simp only [hm])).relo (le_mallocCost _ _)
          exact ((subFastSel_none hf hg).weaken (Nat.zero_le _)).bind hG
            (fun m' hm => by simp only [hm]) (fun m' hm => by simp only [hm])

theorem opSubtract_budgetErr (cfg : Cfg) : OpBudgetErr (opSubtract cfg) := by
  intro flags m m' args c e h hne hle
  simp only [opSubtract_eq] at h ⊢
  generalize arithCosts flags = p at h ⊢
  obtain ⟨base, cpa, cpb⟩ := p
  simp only at h ⊢
  cases hf : subFastSel cfg (newModel flags) cpa cpb m (argList args) base with
  | error e' =>
    simp only [hf] at h; cases h
    simp only [subFastSel_mono hf (err_ne_ce hne) hle]
  | ok o =>
    simp only [hf] at h
    simp only [subFastSel_mono hf ok_ne_ce hle]
    cases o with
    | some p => exact h
    | none =>
      simp only at h ⊢
      cases hg : subGeneric (newModel flags) cpa cpb m (argList args) base 0 0 true with
      | error e' =>
        simp only [hg] at h; cases h
        simp only [subGeneric_mono hg (err_ne_ce hne) hle]
      | ok p =>
        simp only [hg] at h
        simp only [subGeneric_mono hg ok_ne_ce hle]
        exact h

/-! ### `op_div`, `op_divmod`, `op_mod` -/

theorem divPrologue_ok {intA : Val → String → Except Err (Int × Nat)} {name errName : String} {ob opb flags m : Nat}
    {input : Val} {r : Int × Int × Nat}
    (h : divPrologue intA name errName ob opb flags m input = .ok r) :
    LoopOk r.2.2 0 (fun m' => divPrologue intA name errName ob opb flags m' input) r := by
  revert h
  fun_cases divPrologue intA name errName ob opb flags m input <;> intro h <;> step_ok_core divPrologue h

theorem divPrologue_mono {intA : Val → String → Except Err (Int × Nat)} {name errName : String} {ob opb flags m : Nat}
    {input : Val} {x : Except Err (Int × Int × Nat)}
    (h : divPrologue intA name errName ob opb flags m input = x) (hne : x ≠ .error .CostExceeded)
    {m' : Nat} (hle : m ≤ m') : divPrologue intA name errName ob opb flags m' input = x := by
  revert h
  fun_cases divPrologue intA name errName ob opb flags m input <;> intro h <;> loop_mono_core divPrologue hne hle h

theorem opDivWith_budget (intA : Val → String → Except Err (Int × Nat)) : OpBudget (opDivWith intA) := by
  refine .of_loopOk fun flags m args c r h => ?_
  revert h
  fun_cases opDivWith intA flags m args c <;> intro h <;> op_ok_loop opDivWith (divPrologue_ok ‹_›) h

theorem opDivWith_budgetErr (intA : Val → String → Except Err (Int × Nat)) : OpBudgetErr (opDivWith intA) := by
  intro flags m m' args c e h hne hle
  revert h
  fun_cases opDivWith intA flags m args c <;> intro h <;> op_err_loop opDivWith (divPrologue_mono ‹_›) hne hle h

theorem opModWith_budget (intA : Val → String → Except Err (Int × Nat)) : OpBudget (opModWith intA) := by
  refine .of_loopOk fun flags m args c r h => ?_
  revert h
  fun_cases opModWith intA flags m args c <;> intro h <;> op_ok_loop opModWith (divPrologue_ok ‹_›) h

theorem opModWith_budgetErr (intA : Val → String → Except Err (Int × Nat)) : OpBudgetErr (opModWith intA) := by
  intro flags m m' args c e h hne hle
  revert h
  fun_cases opModWith intA flags m args c <;> intro h <;> op_err_loop opModWith (divPrologue_mono ‹_›) hne hle h

theorem opDivmodWith_budget (intA : Val → String → Except Err (Int × Nat)) : OpBudget (opDivmodWith intA) := by
  refine .of_loopOk fun flags m args c r h => ?_
  revert h
  fun_cases opDivmodWith intA flags m args c <;> intro h <;> op_ok_loop opDivmodWith (divPrologue_ok ‹_›) h

theorem opDivmodWith_budgetErr (intA : Val → String → Except Err (Int × Nat)) : OpBudgetErr (opDivmodWith intA) := by
  intro flags m m' args c e h hne hle
  revert h
  fun_cases opDivmodWith intA flags m args c <;> intro h <;>
    op_err_loop opDivmodWith (divPrologue_mono ‹_›) hne hle h

/-- an operator that dispatches on a flag between two operators -/
theorem OpBudget.ite {f g : OpFn} (bit : Nat) (hf : OpBudget f) (hg : OpBudget g) :
    OpBudget (fun flags m a c => if hasFlag flags bit then f flags m a c else g flags m a c) := by
  intro flags m m' args c r h
  by_cases hb : hasFlag flags bit = true
  · simp only [hb, ↓reduceIte] at h ⊢; exact hf flags m m' args c r h
  · simp only [hb, ↓reduceIte, Bool.false_eq_true] at h ⊢; exact hg flags m m' args c r h

theorem OpBudgetErr.ite {f g : OpFn} (bit : Nat) (hf : OpBudgetErr f) (hg : OpBudgetErr g) :
    OpBudgetErr (fun flags m a c => if hasFlag flags bit then f flags m a c else g flags m a c) := by
  intro flags m m' args c e h hne hle
  by_cases hb : hasFlag flags bit = true
  · simp only [hb, ↓reduceIte] at h ⊢; exact hf flags m m' args c e h hne hle
  · simp only [hb, ↓reduceIte, Bool.false_eq_true] at h ⊢; exact hg flags m m' args c e h hne hle

theorem opDiv_budget : OpBudget opDiv := OpBudget.ite _ (opDivWith_budget _) (opDivWith_budget _)
theorem opDiv_budgetErr : OpBudgetErr opDiv := OpBudgetErr.ite _ (opDivWith_budgetErr _) (opDivWith_budgetErr _)
theorem opMod_budget : OpBudget opMod := OpBudget.ite _ (opModWith_budget _) (opModWith_budget _)
theorem opMod_budgetErr : OpBudgetErr opMod := OpBudgetErr.ite _ (opModWith_budgetErr _) (opModWith_budgetErr _)
theorem opDivmod_budget : OpBudget opDivmod := OpBudget.ite _ (opDivmodWith_budget _) (opDivmodWith_budget _)
theorem opDivmod_budgetErr : OpBudgetErr opDivmod :=
  OpBudgetErr.ite _ (opDivmodWith_budgetErr _) (opDivmodWith_budgetErr _)

/-! ### `op_modpow` -/

theorem OpBudgetErr.of_mono {f : OpFn}
    (h : ∀ flags m m' args c x, f flags m args c = x → x ≠ .error .CostExceeded → m ≤ m' → f flags m' args c = x) :
    OpBudgetErr f :=
  fun flags m m' args c _ he hne hle => h flags m m' args c _ he (err_ne_ce hne) hle

theorem opModpowWith_budget (intA : Val → String → Except Err (Int × Nat)) : OpBudget (opModpowWith intA) := by
  refine .of_loopOk fun flags m args c r h => ?_
  revert h
  fun_cases opModpowWith intA flags m args c <;> intro h <;>
  first
  | (cases h; done)
  | (loop_prep <;>
      (cases h
       simp only [opModpowWith, *, ↓reduceIte, Bool.false_eq_true]
       exact (LoopOk.pure (le_mallocCost _ _)).check (Nat.zero_le _)))

theorem opModpowWith_budgetErr (intA : Val → String → Except Err (Int × Nat)) : OpBudgetErr (opModpowWith intA) := by
  refine .of_mono fun flags m m' args c x h hne hle => ?_
  revert h
  fun_cases opModpowWith intA flags m args c <;> intro h <;> loop_mono_core opModpowWith hne hle h

theorem opModpow_budget : OpBudget opModpow := OpBudget.ite _ (opModpowWith_budget _) (opModpowWith_budget _)
theorem opModpow_budgetErr : OpBudgetErr opModpow :=
  OpBudgetErr.ite _ (opModpowWith_budgetErr _) (opModpowWith_budgetErr _)

/-! ### `op_unknown` -/

/-- `op_unknown`: is the opcode reserved -/
def unknownReserved (op : Bytes) : Bool :=
  match op with
  | [] => true
  | b0 :: b1 :: _ => b0.toNat == 0xff && b1.toNat == 0xff
  | _ => false

/-- `op_unknown`: the cost multiplier encoded in the opcode (`none` = `Invalid`) -/
def unknownMult (op : Bytes) : Option Nat := u32FromU8 (op.take (op.length - 1))

/-- `op_unknown`: the base cost computed by cost function number `k` -/
def unknownBaseK (k : Nat) (flags : Flags) (maxCost : Nat) (args : Val) : Except Err Nat :=
  let nm := newModel flags
  let args := argList args
  match k with
  | 0 => .ok 1
  | 1 => unknownArith nm maxCost args Gen.ARITH_BASE_COST 0
  | 2 => unknownMul nm maxCost
           (if nm then Gen.NEW_MUL_SQUARE_COST_PER_BYTE_DIVIDER else Gen.MUL_SQUARE_COST_PER_BYTE_DIVIDER)
           args (if nm then Gen.NEW_MUL_BASE_COST else Gen.MUL_BASE_COST) 0 true
  | 3 => unknownConcat maxCost args Gen.CONCAT_BASE_COST
  | _ => .ok 1

/-- `op_unknown`: the cost function number encoded in the opcode -/
def unknownCostFunction (op : Bytes) : Nat := (((op.getLast?.map UInt8.toNat).getD 0) &&& 0xc0) >>> 6

/-- `op_unknown`: the base cost -/
def unknownBase (op : Bytes) (flags : Flags) (maxCost : Nat) (args : Val) : Except Err Nat :=
  unknownBaseK (unknownCostFunction op) flags maxCost args

/-- `op_unknown`: base cost × multiplier (wrapping in the old cost model) and the 32-bit bound -/
def unknownFinish (flags : Flags) (cost mult : Nat) (c : Ctr) : Except Err (Nat × Val × Ctr) :=
  let total : Except Err Nat :=
    if newModel flags then ckMul cost (mult + 1)
    else .ok ((cost * (mult + 1)) % 2 ^ 64)
  match total with
  | .error e => .error e
  | .ok cost' =>
    if cost' > 2 ^ 32 - 1 then .error .Invalid
    else .ok (cost', Val.nil, c)

theorem opUnknown_eq_parts (op : Bytes) (flags maxCost : Nat) (args : Val) (c : Ctr) :
    opUnknown op flags maxCost args c =
    if unknownReserved op then .error .Reserved
    else
      match unknownMult op with
      | none => .error .Invalid
      | some mult =>
        match unknownBase op flags maxCost args with
        | .error e => .error e
        | .ok cost =>
          if cost == 0 then .error (.Panic "assert!(cost > 0)")
          else
            match checkCost cost maxCost with
            | .error e => .error e
            | .ok () => unknownFinish flags cost mult c := rfl

theorem unknownBaseK_ok {k flags m : Nat} {args : Val} {b : Nat}
    (h : unknownBaseK k flags m args = .ok b) : LoopOk b 0 (fun m' => unknownBaseK k flags m' args) b := by
  match k with
  | 0 => cases h; exact LoopOk.pure (Nat.zero_le _)
  | 1 => exact (unknownArith_ok h).weaken (Nat.zero_le _)
  | 2 => exact (unknownMul_ok h).weaken (Nat.zero_le _)
  | 3 => exact (unknownConcat_ok h).weaken (Nat.zero_le _)
  | n + 4 => cases h; exact LoopOk.pure (Nat.zero_le _)

theorem unknownBaseK_mono {k flags m : Nat} {args : Val} {x : Except Err Nat}
    (h : unknownBaseK k flags m args = x) (hne : x ≠ .error .CostExceeded) {m' : Nat} (hle : m ≤ m') :
    unknownBaseK k flags m' args = x := by
  match k with
  | 0 => exact h
  | 1 => exact unknownArith_mono h hne hle
  | 2 => exact unknownMul_mono h hne hle
  | 3 => exact unknownConcat_mono h hne hle
  | n + 4 => exact h

theorem unknownBase_ok {op : Bytes} {flags m : Nat} {args : Val} {b : Nat}
    (h : unknownBase op flags m args = .ok b) : LoopOk b 0 (fun m' => unknownBase op flags m' args) b :=
  unknownBaseK_ok h

theorem unknownBase_mono {op : Bytes} {flags m : Nat} {args : Val} {x : Except Err Nat}
    (h : unknownBase op flags m args = x) (hne : x ≠ .error .CostExceeded) {m' : Nat} (hle : m ≤ m') :
    unknownBase op flags m' args = x :=
  unknownBaseK_mono h hne hle

/-- **`op_unknown`, general form**: after a success with base cost `base` and charged cost `r.1`, the
outcome under another budget is the same or `CostExceeded`, and the same as soon as the budget
covers *both* `base` and `r.1` (in the old cost model the product wraps modulo 2^64, so `r.1` alone
is not enough: DESIGN §6-B). -/
theorem opUnknown_budget_general (op : Bytes) (flags m : Nat) (args : Val) (c : Ctr) (r : Nat × Val × Ctr)
    (h : opUnknown op flags m args c = .ok r) :
    ∃ base mult, unknownBase op flags m args = .ok base ∧ unknownMult op = some mult ∧ base ≤ m ∧
      unknownFinish flags base mult c = .ok r ∧
      LoopOk (max base r.1) 0 (fun m' => opUnknown op flags m' args c) r := by
  simp only [opUnknown_eq_parts] at h ⊢
  by_cases hres : unknownReserved op = true
  · simp only [hres, ↓reduceIte] at h; cases h
  · simp only [hres, ↓reduceIte, Bool.false_eq_true] at h ⊢
    cases hm : unknownMult op with
    | none => simp only [hm] at h; cases h
    | some mult =>
      simp only [hm] at h ⊢
      cases hb : unknownBase op flags m args with
      | error e => simp only [hb] at h; cases h
      | ok base =>
        simp only [hb] at h
        by_cases hz : (base == 0) = true
        · simp only [hz, ↓reduceIte] at h; cases h
        · simp only [hz, ↓reduceIte, Bool.false_eq_true] at h
          cases hc : checkCost base m with
          | error e => simp only [hc] at h; cases h
          | ok u =>
            simp only [hc] at h
            refine ⟨base, mult, rfl, rfl, checkCost_ok_iff.1 hc, h, ?_⟩
            have hG : LoopOk (max base r.1) base
                (fun m' => match checkCost base m' with
                  | .error e => .error e
                  | .ok () => unknownFinish flags base mult c) r := by
              simp only [h]
              exact (LoopOk.pure (Nat.le_max_left _ _)).check (Nat.le_refl _)
            exact (unknownBase_ok hb).bind hG
              (fun m' hm' => by simp only [hm', hz, ↓reduceIte, Bool.false_eq_true])
              (fun m' hm' => by simp only [hm'])

/-- `op_unknown`: same outcome or `CostExceeded` under any other budget (both cost models) -/
theorem opUnknown_budget_dichotomy (op : Bytes) (flags m m' : Nat) (args : Val) (c : Ctr) (r : Nat × Val × Ctr)
    (h : opUnknown op flags m args c = .ok r) :
    opUnknown op flags m' args c = .ok r ∨ opUnknown op flags m' args c = .error .CostExceeded := by
  obtain ⟨_, _, _, _, _, _, hl⟩ := opUnknown_budget_general op flags m args c r h
  exact (hl.2 m').1

/-- the product `base × (multiplier + 1)` of `op_unknown` does not wrap: always so in the new cost
model (`checked_mul`), an explicit hypothesis in the old one (`wrapping_mul`) -/
def UnknownNoWrap (op : Bytes) (flags m : Nat) (args : Val) : Prop :=
  newModel flags = true ∨
    ∀ base mult, unknownBase op flags m args = .ok base → unknownMult op = some mult →
      base * (mult + 1) < 2 ^ 64

theorem unknownFinish_le {flags base mult : Nat} {c : Ctr} {r : Nat × Val × Ctr}
    (h : unknownFinish flags base mult c = .ok r)
    (hw : newModel flags = true ∨ base * (mult + 1) < 2 ^ 64) : base ≤ r.1 := by
  have hmul : base ≤ base * (mult + 1) := Nat.le_mul_of_pos_right _ (Nat.succ_pos _)
  unfold unknownFinish at h
  by_cases hnm : newModel flags = true
  · simp only [hnm, ↓reduceIte] at h
    cases hk : ckMul base (mult + 1) with
    | error e => simp only [hk] at h; cases h
    | ok t =>
      simp only [hk] at h
      split at h
      · cases h
      · cases h; rw [ckMul_ok hk]; exact hmul
  · simp only [hnm, ↓reduceIte, Bool.false_eq_true] at h
    split at h
    · cases h
    · cases h
      rcases hw with hw | hw
      · exact absurd hw hnm
      · show base ≤ base * (mult + 1) % 2 ^ 64
        rw [Nat.mod_eq_of_lt hw]; exact hmul

/-- **C02 for `op_unknown`, outside the wrap-around of the old cost model** -/
theorem opUnknown_budget_partial (op : Bytes) (flags m m' : Nat) (args : Val) (c : Ctr) (r : Nat × Val × Ctr)
    (h : opUnknown op flags m args c = .ok r) (hw : UnknownNoWrap op flags m args) :
    (opUnknown op flags m' args c = .ok r ∨ opUnknown op flags m' args c = .error .CostExceeded) ∧
    (r.1 ≤ m' → opUnknown op flags m' args c = .ok r) := by
  obtain ⟨base, mult, hb, hm, _, hf, hl⟩ := opUnknown_budget_general op flags m args c r h
  refine ⟨(hl.2 m').1, fun hh => (hl.2 m').2 ?_⟩
  have : base ≤ r.1 := unknownFinish_le hf (hw.imp id (fun hw => hw base mult hb hm))
  exact Nat.max_le.2 ⟨Nat.le_trans this hh, hh⟩

/-- `OpBudget` for `op_unknown` under the new cost model -/
theorem opUnknown_budget_newModel (op : Bytes) (flags : Nat) (hnm : newModel flags = true)
    (m m' : Nat) (args : Val) (c : Ctr) (r : Nat × Val × Ctr) (h : opUnknown op flags m args c = .ok r) :
    (opUnknown op flags m' args c = .ok r ∨ opUnknown op flags m' args c = .error .CostExceeded) ∧
    (r.1 ≤ m' → opUnknown op flags m' args c = .ok r) :=
  opUnknown_budget_partial op flags m m' args c r h (Or.inl hnm)

theorem opUnknown_budgetErr (op : Bytes) : OpBudgetErr (opUnknown op) := by
  refine .of_mono fun flags m m' args c x h hne hle => ?_
  simp only [opUnknown_eq_parts] at h ⊢
  by_cases hres : unknownReserved op = true
  · simp only [hres, ↓reduceIte] at h ⊢; exact h
  · simp only [hres, ↓reduceIte, Bool.false_eq_true] at h ⊢
    cases hm : unknownMult op with
    | none => simp only [hm] at h ⊢; exact h
    | some mult =>
      simp only [hm] at h ⊢
      cases hb : unknownBase op flags m args with
      | error e =>
        simp only [hb] at h; subst h
        simp only [unknownBase_mono hb (err_ne_ce (ne_ce_of_err_ne hne)) hle]
      | ok base =>
        simp only [hb] at h
        simp only [unknownBase_mono hb ok_ne_ce hle]
        by_cases hz : (base == 0) = true
        · simp only [hz, ↓reduceIte] at h ⊢; exact h
        · simp only [hz, ↓reduceIte, Bool.false_eq_true] at h ⊢
          cases hc : checkCost base m with
          | error e =>
            simp only [hc] at h; subst h
            exact absurd (congrArg Except.error (checkCost_err hc)) hne
          | ok u =>
            simp only [hc] at h
            simp only [checkCost_mono hle hc]
            exact h

/-! ### the wrap-around of the old cost model is real (DESIGN §6-B) -/

/-- the opcode `3fffffffc0`: cost function 3 (concat), multiplier 2^30 − 1 -/
def wrapOp : Bytes := [0x3f, 0xff, 0xff, 0xff, 0xc0]

theorem wrap_base (b : Bytes) (hb : b.length = 5726622969) (m : Nat) :
    unknownBase wrapOp 0 m (.pair (.atom b false) Val.nil) =
      match checkCost (2 ^ 34) m with
      | .error e => .error e
      | .ok () => .ok (2 ^ 34) := by
  have h3 : unknownCostFunction wrapOp = 3 := by decide
  unfold unknownBase
  rw [h3]
  show unknownConcat m (argList (.pair (.atom b false) Val.nil)) Gen.CONCAT_BASE_COST = _
  simp only [argList, Val.nil, unknownConcat, atomLen, hb]
  have : Gen.CONCAT_BASE_COST + Gen.CONCAT_COST_PER_ARG + Gen.CONCAT_COST_PER_BYTE * 5726622969 = 2 ^ 34 := by decide
  rw [this]
  cases checkCost (2 ^ 34) m <;> rfl

/-- **DESIGN §6-B as a theorem**: in the old cost model the opcode `3fffffffc0` applied to one
argument of 5 726 622 969 bytes has base cost 2^34 and multiplier 2^30; the product wraps to 0.  The call
succeeds under budget 2^34 with charged cost 0 … -/
theorem opUnknown_wrap_ok (b : Bytes) (hb : b.length = 5726622969) (c : Ctr) :
    opUnknown wrapOp 0 (2 ^ 34) (.pair (.atom b false) Val.nil) c = .ok (0, Val.nil, c) := by
  have hr : unknownReserved wrapOp = false := by decide
  have hm : unknownMult wrapOp = some (2 ^ 30 - 1) := by decide
  have hnm : newModel 0 = false := by decide
  simp only [opUnknown_eq_parts, hr, hm, wrap_base b hb, checkCost_of_le (Nat.le_refl _), Bool.false_eq_true, ↓reduceIte]
  have hz : ((2 : Nat) ^ 34 == 0) = false := by decide
  simp only [hz, Bool.false_eq_true, ↓reduceIte, unknownFinish, hnm]
  have hw : (2 : Nat) ^ 34 * (2 ^ 30 - 1 + 1) % 2 ^ 64 = 0 := by decide
  simp only [hw]
  rfl

/-- … and fails with `CostExceeded` under budget 0, although the charged cost 0 is within that budget. -/
theorem opUnknown_wrap_fail (b : Bytes) (hb : b.length = 5726622969) (c : Ctr) :
    opUnknown wrapOp 0 0 (.pair (.atom b false) Val.nil) c = .error .CostExceeded := by
  have hr : unknownReserved wrapOp = false := by decide
  have hm : unknownMult wrapOp = some (2 ^ 30 - 1) := by decide
  simp only [opUnknown_eq_parts, hr, hm, wrap_base b hb, checkCost_of_lt (show 0 < 2 ^ 34 by decide), Bool.false_eq_true,
    ↓reduceIte]

/-- `OpBudget (opUnknown op)` is **false** for `op = 3fffffffc0` (old cost model, `wrapping_mul`) -/
theorem opUnknown_budget_witness : ¬ OpBudget (opUnknown wrapOp) := by
  intro h
  have hlen : (List.replicate 5726622969 (0 : UInt8)).length = 5726622969 := List.length_replicate
  have h1 := opUnknown_wrap_ok _ hlen default
  have h2 := opUnknown_wrap_fail _ hlen default
  have h3 := (h 0 (2 ^ 34) 0 _ default _ h1).2 (Nat.le_refl 0)
  rw [h2] at h3
  cases h3


/-! ### aggregates -/

/-- **C02, per-operator layer**: every operator of the core table satisfies `OpBudget` -/
theorem coreOps_budget (cfg : Cfg) (name : String) (f : OpFn) (h : coreOpByName cfg name = some f) :
    OpBudget f := by
  unfold coreOpByName at h
  split at h <;> (try cases h) <;> first
    | exact opIf_budget | exact opCons_budget | exact opFirst_budget | exact opRest_budget
    | exact opListp_budget | exact opRaise_budget | exact opEq_budget | exact opGrBytes_budget
    | exact opSha256_budget _ | exact opSubstr_budget | exact opStrlen_budget | exact opConcat_budget
    | exact opAdd_budget _ | exact opSubtract_budget _ | exact opMultiply_budget _ | exact opDiv_budget
    | exact opDivmod_budget | exact opGr_budget _ | exact opAsh_budget | exact opLsh_budget
    | exact opLogand_budget | exact opLogior_budget | exact opLogxor_budget | exact opLognot_budget
    | exact opNot_budget | exact opAny_budget | exact opAll_budget | exact opModpow_budget
    | exact opMod_budget

/-- every operator of the core table satisfies `OpBudgetErr` -/
theorem coreOps_budgetErr (cfg : Cfg) (name : String) (f : OpFn) (h : coreOpByName cfg name = some f) :
    OpBudgetErr f := by
  unfold coreOpByName at h
  split at h <;> (try cases h) <;> first
    | exact opIf_budgetErr | exact opCons_budgetErr | exact opFirst_budgetErr | exact opRest_budgetErr
    | exact opListp_budgetErr | exact opRaise_budgetErr | exact opEq_budgetErr | exact opGrBytes_budgetErr
    | exact opSha256_budgetErr _ | exact opSubstr_budgetErr | exact opStrlen_budgetErr | exact opConcat_budgetErr
    | exact opAdd_budgetErr _ | exact opSubtract_budgetErr _ | exact opMultiply_budgetErr _ | exact opDiv_budgetErr
    | exact opDivmod_budgetErr | exact opGr_budgetErr _ | exact opAsh_budgetErr | exact opLsh_budgetErr
    | exact opLogand_budgetErr | exact opLogior_budgetErr | exact opLogxor_budgetErr | exact opLognot_budgetErr
    | exact opNot_budgetErr | exact opAny_budgetErr | exact opAll_budgetErr | exact opModpow_budgetErr
    | exact opMod_budgetErr

end Clvm.Interp
