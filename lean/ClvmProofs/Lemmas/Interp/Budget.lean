/-
C02, per-operator layer: `OpBudget f` and `OpBudgetErr f` for every operator of `coreOpByName` and for
`opUnknown` (the latter outside the wrap-around of the old cost model, DESIGN §6-B).
-/
import ClvmProofs.Lemmas.Interp.BudgetAux

namespace Clvm.Interp
open Clvm Clvm.Alloc

/-! ### generic reductions -/

theorem OpBudget.of_loopOk {f : OpFn}
    (h : ∀ flags m args c r, f flags m args c = .ok r → LoopOk r.1 0 (fun m' => f flags m' args c) r) :
    OpBudget f :=
  fun flags m m' args c r hr => (h flags m args c r hr).2 m'

/-- an operator that does not look at its budget -/
theorem OpBudget.of_indep {f : OpFn} (h : ∀ flags m m' args c, f flags m args c = f flags m' args c) :
    OpBudget f :=
  fun flags m m' args c r hr => ⟨Or.inl (h flags m m' args c ▸ hr), fun _ => h flags m m' args c ▸ hr⟩

theorem OpBudgetErr.of_indep {f : OpFn} (h : ∀ flags m m' args c, f flags m args c = f flags m' args c) :
    OpBudgetErr f :=
  fun flags m m' args c e he _ _ => h flags m m' args c ▸ he

theorem ok_ne_ce {α} {a : α} : (Except.ok a : Except Err α) ≠ .error .CostExceeded := fun h => nomatch h

theorem err_ne_ce {α} {e : Err} (h : e ≠ .CostExceeded) : (Except.error e : Except Err α) ≠ .error .CostExceeded :=
  fun hh => h (Except.error.inj hh)

theorem le_mallocCost (cost : Nat) (v : Val) : cost ≤ mallocCost cost v := by
  unfold mallocCost; split <;> omega

/-! ### operators that ignore the budget -/

theorem opIf_budget : OpBudget opIf := .of_indep fun _ _ _ _ _ => rfl
theorem opIf_budgetErr : OpBudgetErr opIf := .of_indep fun _ _ _ _ _ => rfl
theorem opCons_budget : OpBudget opCons := .of_indep fun _ _ _ _ _ => rfl
theorem opCons_budgetErr : OpBudgetErr opCons := .of_indep fun _ _ _ _ _ => rfl
theorem opFirst_budget : OpBudget opFirst := .of_indep fun _ _ _ _ _ => rfl
theorem opFirst_budgetErr : OpBudgetErr opFirst := .of_indep fun _ _ _ _ _ => rfl
theorem opRest_budget : OpBudget opRest := .of_indep fun _ _ _ _ _ => rfl
theorem opRest_budgetErr : OpBudgetErr opRest := .of_indep fun _ _ _ _ _ => rfl
theorem opListp_budget : OpBudget opListp := .of_indep fun _ _ _ _ _ => rfl
theorem opListp_budgetErr : OpBudgetErr opListp := .of_indep fun _ _ _ _ _ => rfl
theorem opRaise_budget : OpBudget opRaise := .of_indep fun _ _ _ _ _ => rfl
theorem opRaise_budgetErr : OpBudgetErr opRaise := .of_indep fun _ _ _ _ _ => rfl
theorem opEq_budget : OpBudget opEq := .of_indep fun _ _ _ _ _ => rfl
theorem opEq_budgetErr : OpBudgetErr opEq := .of_indep fun _ _ _ _ _ => rfl
theorem opGr_budget (cfg : Cfg) : OpBudget (opGr cfg) := .of_indep fun _ _ _ _ _ => rfl
theorem opGr_budgetErr (cfg : Cfg) : OpBudgetErr (opGr cfg) := .of_indep fun _ _ _ _ _ => rfl
theorem opGrBytes_budget : OpBudget opGrBytes := .of_indep fun _ _ _ _ _ => rfl
theorem opGrBytes_budgetErr : OpBudgetErr opGrBytes := .of_indep fun _ _ _ _ _ => rfl
theorem opStrlen_budget : OpBudget opStrlen := .of_indep fun _ _ _ _ _ => rfl
theorem opStrlen_budgetErr : OpBudgetErr opStrlen := .of_indep fun _ _ _ _ _ => rfl
theorem opSubstr_budget : OpBudget opSubstr := .of_indep fun _ _ _ _ _ => rfl
theorem opSubstr_budgetErr : OpBudgetErr opSubstr := .of_indep fun _ _ _ _ _ => rfl
theorem opAsh_budget : OpBudget opAsh := .of_indep fun _ _ _ _ _ => rfl
theorem opAsh_budgetErr : OpBudgetErr opAsh := .of_indep fun _ _ _ _ _ => rfl
theorem opLsh_budget : OpBudget opLsh := .of_indep fun _ _ _ _ _ => rfl
theorem opLsh_budgetErr : OpBudgetErr opLsh := .of_indep fun _ _ _ _ _ => rfl
theorem opLognot_budget : OpBudget opLognot := .of_indep fun _ _ _ _ _ => rfl
theorem opLognot_budgetErr : OpBudgetErr opLognot := .of_indep fun _ _ _ _ _ => rfl
theorem opNot_budget : OpBudget opNot := .of_indep fun _ _ _ _ _ => rfl
theorem opNot_budgetErr : OpBudgetErr opNot := .of_indep fun _ _ _ _ _ => rfl

/-! ### operators built on one loop -/

/-- one case of `fun_cases op …` for an operator of the form "loop, then budget-free allocation":
`op_ok_loop op (loop_ok ‹_›) h` -/
syntax "op_ok_loop " ident term:max ident : tactic
macro_rules
  | `(tactic| op_ok_loop $op:ident $lem:term $h:ident) => `(tactic|
    first
    | (cases $h:ident; done)
    | (cases $h:ident; loop_prep <;>
       exact (LoopOk.weaken $lem (Nat.zero_le _)).lift
         (by first | exact Nat.le_refl _ | exact le_mallocCost _ _ | cost_omega)
         (fun m' hm => by simp only [$op:ident, hm, *])
         (fun m' hm => by simp only [$op:ident, hm, *])))

/-- one case of `fun_cases op …` for the failure lemma of such an operator -/
syntax "op_err_loop " ident term:max ident ident ident : tactic
macro_rules
  | `(tactic| op_err_loop $op:ident $lem:term $hne:ident $hle:ident $h:ident) => `(tactic|
    first
    | (cases $h:ident; done)
    | (cases $h:ident; loop_prep <;>
       (simp only [$op:ident, *,
          ($lem (by first | exact err_ne_ce $hne | exact ok_ne_ce) $hle)];
        done)))

theorem opConcat_budget : OpBudget opConcat := by
  refine .of_loopOk fun flags m args c r h => ?_
  revert h
  fun_cases opConcat flags m args c <;> intro h <;> op_ok_loop opConcat (concatLoop_ok ‹_›) h

theorem opConcat_budgetErr : OpBudgetErr opConcat := by
  intro flags m m' args c e h hne hle
  revert h
  fun_cases opConcat flags m args c <;> intro h <;> op_err_loop opConcat (concatLoop_mono ‹_›) hne hle h

theorem opAny_budget : OpBudget opAny := by
  refine .of_loopOk fun flags m args c r h => ?_
  revert h
  fun_cases opAny flags m args c <;> intro h <;> op_ok_loop opAny (boolLoop_ok ‹_›) h

theorem opAny_budgetErr : OpBudgetErr opAny := by
  intro flags m m' args c e h hne hle
  revert h
  fun_cases opAny flags m args c <;> intro h <;> op_err_loop opAny (boolLoop_mono ‹_›) hne hle h

theorem opAll_budget : OpBudget opAll := by
  refine .of_loopOk fun flags m args c r h => ?_
  revert h
  fun_cases opAll flags m args c <;> intro h <;> op_ok_loop opAll (boolLoop_ok ‹_›) h

theorem opAll_budgetErr : OpBudgetErr opAll := by
  intro flags m m' args c e h hne hle
  revert h
  fun_cases opAll flags m args c <;> intro h <;> op_err_loop opAll (boolLoop_mono ‹_›) hne hle h

theorem binopReduction_budget (name : String) (init : Int) (f : Int → Int → Int) :
    OpBudget (binopReduction name init f) := by
  refine .of_loopOk fun flags m args c r h => ?_
  revert h
  fun_cases binopReduction name init f flags m args c <;> intro h <;>
    op_ok_loop binopReduction (binopLoop_ok ‹_›) h

theorem binopReduction_budgetErr (name : String) (init : Int) (f : Int → Int → Int) :
    OpBudgetErr (binopReduction name init f) := by
  intro flags m m' args c e h hne hle
  revert h
  fun_cases binopReduction name init f flags m args c <;> intro h <;>
    op_err_loop binopReduction (binopLoop_mono ‹_›) hne hle h

theorem opLogand_budget : OpBudget opLogand := binopReduction_budget _ _ _
theorem opLogand_budgetErr : OpBudgetErr opLogand := binopReduction_budgetErr _ _ _
theorem opLogior_budget : OpBudget opLogior := binopReduction_budget _ _ _
theorem opLogior_budgetErr : OpBudgetErr opLogior := binopReduction_budgetErr _ _ _
theorem opLogxor_budget : OpBudget opLogxor := binopReduction_budget _ _ _
theorem opLogxor_budgetErr : OpBudgetErr opLogxor := binopReduction_budgetErr _ _ _


/-! ### `op_sha256` -/

theorem newAtomAndCost_le {c : Ctr} {cost : Nat} {buf : Bytes} {r : Nat × Val × Ctr}
    (h : newAtomAndCost c cost buf = .ok r) : cost ≤ r.1 := by
  unfold newAtomAndCost at h
  split at h
  · cases h
  · cases h; exact Nat.le_add_right _ _

/-- the fast path of `op_sha256` as a function of the budget -/
def sha256Fast (cfg : Cfg) (c : Ctr) (input : Val) (base cpa cpb maxCost : Nat) :
    Option (Except Err (Nat × Val × Ctr)) :=
  if cfg.fastpath then
    match matchArgs 2 input with
    | some [v0, v1] =>
      if smallNumber v0 == some 1 then
        match smallNumber v1 with
        | some val =>
          if val < Gen.thPrecomputedHashes.length then
            let numBytes := if val > 0 then 2 else 1
            let cost := base + numBytes * cpb + 2 * cpa
            some (match checkCost cost maxCost with
              | .error e => .error e
              | .ok () => newAtomAndCost c cost (precomputedHash val))
          else none
        | none => none
      else none
    | _ => none
  else none

def sha256Costs (flags : Flags) : Nat × Nat × Nat :=
  if newModel flags then (Gen.NEW_SHA256_BASE_COST, Gen.NEW_SHA256_COST_PER_ARG, Gen.NEW_SHA256_COST_PER_BYTE)
  else (Gen.SHA256_BASE_COST, Gen.SHA256_COST_PER_ARG, Gen.SHA256_COST_PER_BYTE)

theorem opSha256_eq (cfg : Cfg) (flags maxCost : Nat) (input : Val) (c : Ctr) :
    opSha256 cfg flags maxCost input c =
    if input.isNilPtr then newAtomAndCost c (sha256Costs flags).1 (Hash.sha256 [])
    else
      match sha256Fast cfg c input (sha256Costs flags).1 (sha256Costs flags).2.1 (sha256Costs flags).2.2 maxCost with
      | some r => r
      | none =>
        match sha256Loop (sha256Costs flags).2.1 (sha256Costs flags).2.2 maxCost (argList input) (sha256Costs flags).1 [] with
        | .error e => .error e
        | .ok (cost, data) => newAtomAndCost c cost (Hash.sha256 data) := rfl

theorem sha256Fast_cases (cfg : Cfg) (c : Ctr) (input : Val) (base cpa cpb : Nat) :
    (∀ m, sha256Fast cfg c input base cpa cpb m = none) ∨
    (∃ cost val, ∀ m, sha256Fast cfg c input base cpa cpb m =
      some (match checkCost cost m with
            | .error e => .error e
            | .ok () => newAtomAndCost c cost (precomputedHash val))) := by
  unfold sha256Fast
  split
  · split
    · split
      · split
        · split
          · exact Or.inr ⟨_, _, fun _ => rfl⟩
          · exact Or.inl fun _ => rfl
        · exact Or.inl fun _ => rfl
      · exact Or.inl fun _ => rfl
    · exact Or.inl fun _ => rfl
  · exact Or.inl fun _ => rfl

theorem opSha256_budget (cfg : Cfg) : OpBudget (opSha256 cfg) := by
  refine .of_loopOk fun flags m args c r h => ?_
  simp only [opSha256_eq] at h ⊢
  generalize sha256Costs flags = p at h ⊢
  obtain ⟨base, cpa, cpb⟩ := p
  by_cases hnil : args.isNilPtr = true
  · simp only [hnil, ↓reduceIte] at h ⊢
    simp only [h]
    exact LoopOk.pure (Nat.zero_le _)
  · simp only [hnil, ↓reduceIte, Bool.false_eq_true] at h ⊢
    rcases sha256Fast_cases cfg c args base cpa cpb with hf | ⟨cost, val, hf⟩
    · simp only [hf] at h ⊢
      cases hl : sha256Loop cpa cpb m (argList args) base [] with
      | error e => simp only [hl] at h; cases h
      | ok p =>
        obtain ⟨cost, data⟩ := p
        simp only [hl] at h
        exact ((sha256Loop_ok hl).weaken (Nat.zero_le _)).lift (newAtomAndCost_le h)
          (fun m' hm => by simp only [hm, h]) (fun m' hm => by simp only [hm])
    · simp only [hf] at h ⊢
      split at h
      · cases h
      · simp only [h]
        exact (LoopOk.pure (newAtomAndCost_le h)).check (Nat.zero_le _)

theorem opSha256_budgetErr (cfg : Cfg) : OpBudgetErr (opSha256 cfg) := by
  intro flags m m' args c e h hne hle
  simp only [opSha256_eq] at h ⊢
  generalize sha256Costs flags = p at h ⊢
  obtain ⟨base, cpa, cpb⟩ := p
  by_cases hnil : args.isNilPtr = true
  · simp only [hnil, ↓reduceIte] at h ⊢
    exact h
  · simp only [hnil, ↓reduceIte, Bool.false_eq_true] at h ⊢
    rcases sha256Fast_cases cfg c args base cpa cpb with hf | ⟨cost, val, hf⟩
    · simp only [hf] at h ⊢
      cases hl : sha256Loop cpa cpb m (argList args) base [] with
      | error e' =>
        simp only [hl] at h; cases h
        simp only [sha256Loop_mono hl (err_ne_ce hne) hle]
      | ok p =>
        simp only [hl] at h
        simp only [sha256Loop_mono hl ok_ne_ce hle]
        exact h
    · simp only [hf] at h ⊢
      split at h
      · rename_i hc; cases h; exact absurd (checkCost_err hc) hne
      · rename_i hc; simp only [checkCost_mono hle hc]; exact h

/-! ### `op_multiply` -/

theorem ne_ce_of_err_ne {α} {e : Err} (h : (Except.error e : Except Err α) ≠ .error .CostExceeded) :
    e ≠ .CostExceeded := fun hh => h (hh ▸ rfl)

/-- the charge for the first argument of `op_multiply` (new cost model only) -/
def mulFirstCost (nm : Bool) (cost0 l0 maxCost : Nat) : Except Err Nat :=
  if nm then
    let c1 := cost0 + l0 * Gen.MUL_LINEAR_COST_PER_BYTE
    match checkCost c1 maxCost with
    | .error e => .error e
    | .ok () => .ok c1
  else .ok cost0

/-- `op_multiply` up to the product: the first argument and the loop -/
def mulBody (cfg : Cfg) (flags : Flags) (maxCost : Nat) (input : Val) : Except Err (Nat × Int) :=
  let nm := newModel flags
  let cost0 := if nm then Gen.NEW_MUL_BASE_COST else Gen.MUL_BASE_COST
  let sqDiv := if nm then Gen.NEW_MUL_SQUARE_COST_PER_BYTE_DIVIDER else Gen.MUL_SQUARE_COST_PER_BYTE_DIVIDER
  match argList input with
  | [] => .ok (cost0, 1)
  | arg :: rest =>
    match intAtom arg "*" with
    | .error e => .error e
    | .ok (total, l0) =>
      if hasFlag flags Gen.FLAG_LIMITS && !nm && l0 > 256 then .error (.InvalidOpArg "*")
      else
        match mulFirstCost nm cost0 l0 maxCost with
        | .error e => .error e
        | .ok c1 => mulLoop cfg flags maxCost sqDiv rest c1 total l0

theorem opMultiply_eq (cfg : Cfg) (flags maxCost : Nat) (input : Val) (c : Ctr) :
    opMultiply cfg flags maxCost input c =
    match mulBody cfg flags maxCost input with
    | .error e => .error e
    | .ok (cost, total) =>
      match allocNumber c total with
      | .error e => .error e
      | .ok (v, c') => .ok (mallocCost cost v, v, c') := rfl

theorem mulFirstCost_ok {nm : Bool} {cost0 l0 m r : Nat} (h : mulFirstCost nm cost0 l0 m = .ok r) :
    LoopOk r 0 (fun m' => mulFirstCost nm cost0 l0 m') r := by
  revert h
  fun_cases mulFirstCost nm cost0 l0 m <;> intro h <;> step_ok_core mulFirstCost h

theorem mulFirstCost_mono {nm : Bool} {cost0 l0 m : Nat} {x : Except Err Nat} (h : mulFirstCost nm cost0 l0 m = x)
    (hne : x ≠ .error .CostExceeded) {m' : Nat} (hle : m ≤ m') : mulFirstCost nm cost0 l0 m' = x := by
  revert h
  fun_cases mulFirstCost nm cost0 l0 m <;> intro h <;> loop_mono_core mulFirstCost hne hle h

theorem mulBody_ok {cfg : Cfg} {flags m : Nat} {args : Val} {r : Nat × Int}
    (h : mulBody cfg flags m args = .ok r) : LoopOk r.1 0 (fun m' => mulBody cfg flags m' args) r := by
  revert h
  fun_cases mulBody cfg flags m args <;> intro h <;>
  first
  | (cases h; done)
  | (cases h; loop_prep <;> (simp only [mulBody, *]; exact LoopOk.pure (Nat.zero_le _)))
  | (loop_prep <;> exact (mulFirstCost_ok ‹_›).bind (mulLoop_ok h)
        (fun m' hm => by simp only [mulBody, *, ↓reduceIte, Bool.false_eq_true])
        (fun m' hm => by simp only [mulBody, *, ↓reduceIte, Bool.false_eq_true]))

theorem mulBody_mono {cfg : Cfg} {flags m : Nat} {args : Val} {x : Except Err (Nat × Int)}
    (h : mulBody cfg flags m args = x) (hne : x ≠ .error .CostExceeded) {m' : Nat} (hle : m ≤ m') :
    mulBody cfg flags m' args = x := by
  revert h
  fun_cases mulBody cfg flags m args <;> intro h
  · subst h; loop_prep; simp only [mulBody, *]
  · subst h; simp only [mulBody, *]
  · subst h; loop_prep; simp only [mulBody, *, ↓reduceIte]
  · rename_i hf
    subst h; loop_prep
    simp only [mulBody, *, mulFirstCost_mono hf (err_ne_ce (ne_ce_of_err_ne hne)) hle, ↓reduceIte, Bool.false_eq_true]
  · rename_i hf
    loop_prep
    simp only [mulBody, *, mulFirstCost_mono hf ok_ne_ce hle, mulLoop_mono h hne hle, ↓reduceIte,
      Bool.false_eq_true]

theorem opMultiply_budget (cfg : Cfg) : OpBudget (opMultiply cfg) := by
  refine .of_loopOk fun flags m args c r h => ?_
  simp only [opMultiply_eq] at h ⊢
  cases hb : mulBody cfg flags m args with
  | error e => simp only [hb] at h; cases h
  | ok p =>
    obtain ⟨cost, total⟩ := p
    simp only [hb] at h
    cases ha : allocNumber c total with
    | error e => simp only [ha] at h; cases h
    | ok q =>
      obtain ⟨v, c'⟩ := q
      simp only [ha] at h; cases h
      exact (mulBody_ok hb).lift (le_mallocCost _ _)
        (fun m' hm => by simp only [hm, ha]) (fun m' hm => by simp only [hm])

theorem opMultiply_budgetErr (cfg : Cfg) : OpBudgetErr (opMultiply cfg) := by
  intro flags m m' args c e h hne hle
  simp only [opMultiply_eq] at h ⊢
  cases hb : mulBody cfg flags m args with
  | error e' =>
    simp only [hb] at h; cases h
    simp only [mulBody_mono hb (err_ne_ce hne) hle]
  | ok p =>
    simp only [hb] at h
    simp only [mulBody_mono hb ok_ne_ce hle]
    exact h

/-! ### `op_add`, `op_subtract` -/

theorem LoopOk.relo {α} {b lo lo' : Nat} {g : Nat → Except Err α} {r : α} (h : LoopOk b lo g r) (h' : lo' ≤ b) :
    LoopOk b lo' g r := ⟨h', h.2⟩

/-- the fast path of `op_add` as a function of the budget -/
def addFastSel (cfg : Cfg) (nm : Bool) (cpa cpb maxCost : Nat) (args : List Val) (base : Nat) :
    Except Err (Option (Nat × Nat)) :=
  if cfg.fastpath then addFast nm cpa cpb maxCost args base 0 else .ok none

theorem opAdd_eq (cfg : Cfg) (flags maxCost : Nat) (input : Val) (c : Ctr) :
    opAdd cfg flags maxCost input c =
    match addFastSel cfg (newModel flags) (arithCosts flags).2.1 (arithCosts flags).2.2 maxCost (argList input)
        (arithCosts flags).1 with
    | .error e => .error e
    | .ok (some (cost, total)) =>
      (match allocAtom c (u64Bytes total) with
      | .error e => .error e
      | .ok (v, c') => .ok (mallocCost cost v, v, c'))
    | .ok none =>
      match addGeneric (newModel flags) (arithCosts flags).2.1 (arithCosts flags).2.2 maxCost (argList input)
          (arithCosts flags).1 0 0 with
      | .error e => .error e
      | .ok (cost, total) =>
        match allocNumber c total with
        | .error e => .error e
        | .ok (v, c') => .ok (mallocCost cost v, v, c') := rfl

theorem addFastSel_some {cfg : Cfg} {nm : Bool} {cpa cpb m : Nat} {l : List Val} {base : Nat} {r : Nat × Nat}
    (h : addFastSel cfg nm cpa cpb m l base = .ok (some r)) :
    LoopOk r.1 base (fun m' => addFastSel cfg nm cpa cpb m' l base) (some r) := by
  unfold addFastSel at h ⊢
  split at h
  · rename_i hc; simp only [hc, ↓reduceIte]; exact addFast_ok h
  · cases h

theorem addFastSel_none {cfg : Cfg} {nm : Bool} {cpa cpb m : Nat} {l : List Val} {base : Nat} {r : Nat × Int}
    (h : addFastSel cfg nm cpa cpb m l base = .ok none)
    (hg : addGeneric nm cpa cpb m l base 0 0 = .ok r) :
    LoopOk r.1 base (fun m' => addFastSel cfg nm cpa cpb m' l base) none := by
  unfold addFastSel at h ⊢
  split at h
  · rename_i hc; simp only [hc, ↓reduceIte]; exact addFast_none (total := 0) h hg
  · rename_i hc; simp only [hc]; exact LoopOk.pure (addGeneric_ok hg).1

theorem addFastSel_mono {cfg : Cfg} {nm : Bool} {cpa cpb m : Nat} {l : List Val} {base : Nat}
    {x : Except Err (Option (Nat × Nat))} (h : addFastSel cfg nm cpa cpb m l base = x)
    (hne : x ≠ .error .CostExceeded) {m' : Nat} (hle : m ≤ m') : addFastSel cfg nm cpa cpb m' l base = x := by
  unfold addFastSel at h ⊢
  split
  · rename_i hc; simp only [hc, ↓reduceIte] at h; exact addFast_mono h hne hle
  · rename_i hc; simp only [hc] at h; exact h

theorem opAdd_budget (cfg : Cfg) : OpBudget (opAdd cfg) := by
  refine .of_loopOk fun flags m args c r h => ?_
  simp only [opAdd_eq] at h ⊢
  generalize arithCosts flags = p at h ⊢
  obtain ⟨base, cpa, cpb⟩ := p
  simp only at h ⊢
  cases hf : addFastSel cfg (newModel flags) cpa cpb m (argList args) base with
  | error e => simp only [hf] at h; cases h
  | ok o =>
    cases o with
    | some p =>
      obtain ⟨cost, total⟩ := p
      simp only [hf] at h
      cases ha : allocAtom c (u64Bytes total) with
      | error e => simp only [ha] at h; cases h
      | ok q =>
        obtain ⟨v, c'⟩ := q
        simp only [ha] at h; cases h
        exact ((addFastSel_some hf).weaken (Nat.zero_le _)).lift (le_mallocCost _ _)
          (fun m' hm => by simp only [hm, ha]) (fun m' hm => by simp only [hm])
    | none =>
      simp only [hf] at h
      cases hg : addGeneric (newModel flags) cpa cpb m (argList args) base 0 0 with
      | error e => simp only [hg] at h; cases h
      | ok p =>
        obtain ⟨cost, total⟩ := p
        simp only [hg] at h
        cases ha : allocNumber c total with
        | error e => simp only [ha] at h; cases h
        | ok q =>
          obtain ⟨v, c'⟩ := q
          simp only [ha] at h; cases h
          have hG : LoopOk (mallocCost cost v) cost
              (fun m' => match addGeneric (newModel flags) cpa cpb m' (argList args) base 0 0 with
                | .error e => .error e
                | .ok (cost, total) =>
                  match allocNumber c total with
                  | .error e => .error e
                  | .ok (v, c') => .ok (mallocCost cost v, v, c')) (mallocCost cost v, v, c') :=
            ((addGeneric_ok hg).lift (le_mallocCost _ _)
              (fun m' hm => by simp only [hm, ha]) (fun m' hm => by simp only [hm])).relo (le_mallocCost _ _)
          exact ((addFastSel_none hf hg).weaken (Nat.zero_le _)).bind hG
            (fun m' hm => by simp only [hm]) (fun m' hm => by simp only [hm])

theorem opAdd_budgetErr (cfg : Cfg) : OpBudgetErr (opAdd cfg) := by
  intro flags m m' args c e h hne hle
  simp only [opAdd_eq] at h ⊢
  generalize arithCosts flags = p at h ⊢
  obtain ⟨base, cpa, cpb⟩ := p
  simp only at h ⊢
  cases hf : addFastSel cfg (newModel flags) cpa cpb m (argList args) base with
  | error e' =>
    simp only [hf] at h; cases h
    simp only [addFastSel_mono hf (err_ne_ce hne) hle]
  | ok o =>
    simp only [hf] at h
    simp only [addFastSel_mono hf ok_ne_ce hle]
    cases o with
    | some p => exact h
    | none =>
      simp only at h ⊢
      cases hg : addGeneric (newModel flags) cpa cpb m (argList args) base 0 0 with
      | error e' =>
        simp only [hg] at h; cases h
        simp only [addGeneric_mono hg (err_ne_ce hne) hle]
      | ok p =>
        simp only [hg] at h
        simp only [addGeneric_mono hg ok_ne_ce hle]
        exact h

/-- the fast path of `op_subtract` as a function of the budget -/
def subFastSel (cfg : Cfg) (nm : Bool) (cpa cpb maxCost : Nat) (args : List Val) (base : Nat) :
    Except Err (Option (Nat × Int)) :=
  if cfg.fastpath then subFast nm cpa cpb maxCost args base 0 true else .ok none

theorem opSubtract_eq (cfg : Cfg) (flags maxCost : Nat) (input : Val) (c : Ctr) :
    opSubtract cfg flags maxCost input c =
    match subFastSel cfg (newModel flags) (arithCosts flags).2.1 (arithCosts flags).2.2 maxCost (argList input)
        (arithCosts flags).1 with
    | .error e => .error e
    | .ok (some (cost, total)) =>
      (match allocAtom c (i64Bytes total) with
      | .error e => .error e
      | .ok (v, c') => .ok (mallocCost cost v, v, c'))
    | .ok none =>
      match subGeneric (newModel flags) (arithCosts flags).2.1 (arithCosts flags).2.2 maxCost (argList input)
          (arithCosts flags).1 0 0 true with
      | .error e => .error e
      | .ok (cost, total) =>
        match allocNumber c total with
        | .error e => .error e
        | .ok (v, c') => .ok (mallocCost cost v, v, c') := rfl

theorem subFastSel_some {cfg : Cfg} {nm : Bool} {cpa cpb m : Nat} {l : List Val} {base : Nat} {r : Nat × Int}
    (h : subFastSel cfg nm cpa cpb m l base = .ok (some r)) :
    LoopOk r.1 base (fun m' => subFastSel cfg nm cpa cpb m' l base) (some r) := by
  unfold subFastSel at h ⊢
  split at h
  · rename_i hc; simp only [hc, ↓reduceIte]; exact subFast_ok h
  · cases h

theorem subFastSel_none {cfg : Cfg} {nm : Bool} {cpa cpb m : Nat} {l : List Val} {base : Nat} {r : Nat × Int}
    (h : subFastSel cfg nm cpa cpb m l base = .ok none)
    (hg : subGeneric nm cpa cpb m l base 0 0 true = .ok r) :
    LoopOk r.1 base (fun m' => subFastSel cfg nm cpa cpb m' l base) none := by
  unfold subFastSel at h ⊢
  split at h
  · rename_i hc; simp only [hc, ↓reduceIte]; exact subFast_none h hg (fun _ => rfl)
  · rename_i hc; simp only [hc]; exact LoopOk.pure (subGeneric_ok hg).1

theorem subFastSel_mono {cfg : Cfg} {nm : Bool} {cpa cpb m : Nat} {l : List Val} {base : Nat}
    {x : Except Err (Option (Nat × Int))} (h : subFastSel cfg nm cpa cpb m l base = x)
    (hne : x ≠ .error .CostExceeded) {m' : Nat} (hle : m ≤ m') : subFastSel cfg nm cpa cpb m' l base = x := by
  unfold subFastSel at h ⊢
  split
  · rename_i hc; simp only [hc, ↓reduceIte] at h; exact subFast_mono h hne hle
  · rename_i hc; simp only [hc] at h; exact h

theorem opSubtract_budget (cfg : Cfg) : OpBudget (opSubtract cfg) := by
  refine .of_loopOk fun flags m args c r h => ?_
  simp only [opSubtract_eq] at h ⊢
  generalize arithCosts flags = p at h ⊢
  obtain ⟨base, cpa, cpb⟩ := p
  simp only at h ⊢
  cases hf : subFastSel cfg (newModel flags) cpa cpb m (argList args) base with
  | error e => simp only [hf] at h; cases h
  | ok o =>
    cases o with
    | some p =>
      obtain ⟨cost, total⟩ := p
      simp only [hf] at h
      cases ha : allocAtom c (i64Bytes total) with
      | error e => simp only [ha] at h; cases h
      | ok q =>
        obtain ⟨v, c'⟩ := q
        simp only [ha] at h; cases h
        exact ((subFastSel_some hf).weaken (Nat.zero_le _)).lift (le_mallocCost _ _)
          (fun m' hm => by simp only [hm, ha]) (fun m' hm => by simp only [hm])
    | none =>
      simp only [hf] at h
      cases hg : subGeneric (newModel flags) cpa cpb m (argList args) base 0 0 true with
      | error e => simp only [hg] at h; cases h
      | ok p =>
        obtain ⟨cost, total⟩ := p
        simp only [hg] at h
        cases ha : allocNumber c total with
        | error e => simp only [ha] at h; cases h
        | ok q =>
          obtain ⟨v, c'⟩ := q
          simp only [ha] at h; cases h
          have hG : LoopOk (mallocCost cost v) cost
              (fun m' => match subGeneric (newModel flags) cpa cpb m' (argList args) base 0 0 true with
                | .error e => .error e
                | .ok (cost, total) =>
                  match allocNumber c total with
                  | .error e => .error e
                  | .ok (v, c') => .ok (mallocCost cost v, v, c')) (mallocCost cost v, v, c') :=
            ((subGeneric_ok hg).lift (le_mallocCost _ _)
              (fun m' hm => by simp only [hm, ha]) (fun m' hm => by simp only [hm])).relo (le_mallocCost _ _)
          exact ((subFastSel_none hf hg).weaken (Nat.zero_le _)).bind hG
            (fun m' hm => by simp only [hm]) (fun m' hm => by simp only [hm])

theorem opSubtract_budgetErr (cfg : Cfg) : OpBudgetErr (opSubtract cfg) := by
  intro flags m m' args c e h hne hle
  simp only [opSubtract_eq] at h ⊢
  generalize arithCosts flags = p at h ⊢
  obtain ⟨base, cpa, cpb⟩ := p
  simp only at h ⊢
  cases hf : subFastSel cfg (newModel flags) cpa cpb m (argList args) base with
  | error e' =>
    simp only [hf] at h; cases h
    simp only [subFastSel_mono hf (err_ne_ce hne) hle]
  | ok o =>
    simp only [hf] at h
    simp only [subFastSel_mono hf ok_ne_ce hle]
    cases o with
    | some p => exact h
    | none =>
      simp only at h ⊢
      cases hg : subGeneric (newModel flags) cpa cpb m (argList args) base 0 0 true with
      | error e' =>
        simp only [hg] at h; cases h
        simp only [subGeneric_mono hg (err_ne_ce hne) hle]
      | ok p =>
        simp only [hg] at h
        simp only [subGeneric_mono hg ok_ne_ce hle]
        exact h

end Clvm.Interp
