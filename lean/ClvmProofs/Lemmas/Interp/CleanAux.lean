/-
C25, per-operator layer, auxiliary lemmas: the error kinds of the primitives of `op_utils.rs` and of
the allocator-level helpers, well-formedness of what they return, and monotonicity of the counters.
-/
import ClvmProofs.Lemmas.Interp.BudgetAux

namespace Clvm.Interp
open Clvm Clvm.Alloc

/-! ### counters only grow -/

/-- counters grew (weakly) and the heap limit is unchanged -/
abbrev CtrLe (c c' : Ctr) : Prop :=
  c.atoms ≤ c'.atoms ∧ c.pairs ≤ c'.pairs ∧ c.heap ≤ c'.heap ∧ c'.heapLimit = c.heapLimit

theorem CtrLe.refl (c : Ctr) : CtrLe c c := ⟨Nat.le_refl _, Nat.le_refl _, Nat.le_refl _, rfl⟩

theorem CtrLe.trans {a b c : Ctr} (h : CtrLe a b) (h' : CtrLe b c) : CtrLe a c :=
  ⟨Nat.le_trans h.1 h'.1, Nat.le_trans h.2.1 h'.2.1, Nat.le_trans h.2.2.1 h'.2.2.1, h'.2.2.2.trans h.2.2.2⟩

/-! ### well-formed values -/

theorem Val.wf_mkAtom (b : Bytes) : (Val.mkAtom b).wf = true := by
  unfold Val.mkAtom
  cases h : Val.newAtomTag b
  · rfl
  · simpa [Val.wf, Val.newAtomTag] using h

theorem Val.wf_nil : Val.nil.wf = true := by decide
theorem Val.wf_one : Val.one.wf = true := by decide

theorem Val.wf_pair {l r : Val} : (Val.pair l r).wf = true ↔ l.wf = true ∧ r.wf = true := by
  simp [Val.wf]

theorem Val.wf_heap (b : Bytes) : (Val.atom b false).wf = true := rfl

theorem wf_bool (b : Bool) : (if b then Val.one else Val.nil).wf = true := by
  cases b <;> decide

theorem argList_all_wf {v : Val} (h : v.wf = true) : ∀ a ∈ argList v, a.wf = true := by
  induction v with
  | atom b i => intro a ha; simp [argList] at ha
  | pair l r _ ihr =>
    intro a ha
    have := Val.wf_pair.1 h
    simp only [argList, List.mem_cons] at ha
    rcases ha with rfl | ha
    · exact this.1
    · exact ihr this.2 a ha

/-! ### allocation -/

theorem newAtom_le {c c' : Ctr} {n : Nat} (h : c.newAtom n = .ok c') : CtrLe c c' := by
  unfold Ctr.newAtom at h
  split at h
  · cases h
  · split at h
    · cases h
    · cases h; exact ⟨Nat.le_succ _, Nat.le_refl _, Nat.le_add_right _ _, rfl⟩

theorem allocAtom_wf {c c' : Ctr} {b : Bytes} {v : Val} (h : allocAtom c b = .ok (v, c')) :
    v.wf = true ∧ CtrLe c c' := by
  unfold allocAtom at h
  split at h
  · cases h
  · rename_i hn; cases h; exact ⟨Val.wf_mkAtom _, newAtom_le hn⟩

theorem allocNumber_wf {c c' : Ctr} {n : Int} {v : Val} (h : allocNumber c n = .ok (v, c')) :
    v.wf = true ∧ CtrLe c c' := allocAtom_wf h

theorem allocPair_wf {c c' : Ctr} {l r v : Val} (h : allocPair c l r = .ok (v, c')) :
    v = .pair l r ∧ CtrLe c c' := by
  unfold allocPair Ctr.newPair at h
  split at h
  · cases h
  · rename_i hn
    split at hn
    · cases hn
    · cases hn; cases h; exact ⟨rfl, Nat.le_refl _, Nat.le_succ _, Nat.le_refl _, rfl⟩

theorem newAtomAndCost_wf {c : Ctr} {cost : Nat} {b : Bytes} {r : Nat × Val × Ctr}
    (h : newAtomAndCost c cost b = .ok r) : r.2.1.wf = true ∧ CtrLe c r.2.2 := by
  unfold newAtomAndCost at h
  split at h
  · cases h
  · rename_i ha; cases h; exact allocAtom_wf ha

/-! ### error kinds of the primitives: never `Panic` / `InternalError` / `Abort` -/

theorem checkCost_clean {x m : Nat} {e : Err} (h : checkCost x m = .error e) : Err.isInternal e = false := by
  rw [checkCost_err h]; rfl

theorem ckAdd_clean {a b : Nat} {e : Err} (h : ckAdd a b = .error e) : Err.isInternal e = false := by
  rw [ckAdd_err h]; rfl

theorem ckMul_clean {a b : Nat} {e : Err} (h : ckMul a b = .error e) : Err.isInternal e = false := by
  rw [ckMul_err h]; rfl

theorem atomLen_clean {v : Val} {n : String} {e : Err} (h : atomLen v n = .error e) : Err.isInternal e = false := by
  unfold atomLen at h; split at h <;> cases h; rfl

theorem atomBytes_clean {v : Val} {n : String} {e : Err} (h : atomBytes v n = .error e) :
    Err.isInternal e = false := by
  unfold atomBytes at h; split at h <;> cases h; rfl

theorem intAtom_clean {v : Val} {n : String} {e : Err} (h : intAtom v n = .error e) : Err.isInternal e = false := by
  unfold intAtom at h; split at h <;> cases h; rfl

theorem malachiteIntAtom_clean {v : Val} {n : String} {e : Err} (h : malachiteIntAtom v n = .error e) :
    Err.isInternal e = false := by
  unfold malachiteIntAtom at h; split at h <;> cases h; rfl

theorem i32Atom_clean {v : Val} {n : String} {e : Err} (h : i32Atom v n = .error e) : Err.isInternal e = false := by
  unfold i32Atom at h
  split at h
  · split at h <;> cases h; rfl
  · cases h
  · cases h; rfl

theorem first_clean {v : Val} {e : Err} (h : first v = .error e) : Err.isInternal e = false := by
  unfold first at h; split at h <;> cases h; rfl

theorem rest_clean {v : Val} {e : Err} (h : rest v = .error e) : Err.isInternal e = false := by
  unfold rest at h; split at h <;> cases h; rfl

theorem newAtom_clean {c : Ctr} {n : Nat} {e : Err} (h : c.newAtom n = .error e) : Err.isInternal e = false := by
  unfold Ctr.newAtom Ctr.checkAtomLimit at h
  split at h
  · cases h; rfl
  · split at h
    · rename_i hc; split at hc <;> cases hc; cases h; rfl
    · cases h

theorem allocAtom_clean {c : Ctr} {b : Bytes} {e : Err} (h : allocAtom c b = .error e) :
    Err.isInternal e = false := by
  unfold allocAtom at h
  split at h
  · rename_i hn; cases h; exact newAtom_clean hn
  · cases h

theorem allocNumber_clean {c : Ctr} {n : Int} {e : Err} (h : allocNumber c n = .error e) :
    Err.isInternal e = false := allocAtom_clean h

theorem allocPair_clean {c : Ctr} {l r : Val} {e : Err} (h : allocPair c l r = .error e) :
    Err.isInternal e = false := by
  unfold allocPair Ctr.newPair at h
  split at h
  · rename_i hn; cases h; split at hn <;> cases hn; rfl
  · cases h

theorem newAtomAndCost_clean {c : Ctr} {cost : Nat} {b : Bytes} {e : Err}
    (h : newAtomAndCost c cost b = .error e) : Err.isInternal e = false := by
  unfold newAtomAndCost at h
  split at h
  · rename_i ha; cases h; exact allocAtom_clean ha
  · cases h

/-! ### `get_args` -/

theorem getArgs_spec (n : Nat) (args : Val) (name : String) :
    (getArgs n args name = .ok (argList args) ∧ (argList args).length = n) ∨
    (∃ s, getArgs n args name = .error (.InvalidOpArg s)) := by
  unfold getArgs matchArgs
  by_cases h : ((argList args).length == n) = true
  · simp only [h, ↓reduceIte]; exact Or.inl ⟨trivial, by simpa using h⟩
  · simp only [h, ↓reduceIte, Bool.false_eq_true]; exact Or.inr ⟨_, rfl⟩

theorem getArgs1_spec (args : Val) (name : String) :
    (∃ a, getArgs1 args name = .ok a ∧ argList args = [a]) ∨
    (∃ s, getArgs1 args name = .error (.InvalidOpArg s)) := by
  unfold getArgs1
  rcases getArgs_spec 1 args name with ⟨h, hl⟩ | ⟨s, h⟩
  · rw [h]
    match hv : argList args, hl with
    | [a], _ => exact Or.inl ⟨a, rfl, rfl⟩
  · rw [h]; exact Or.inr ⟨s, rfl⟩

theorem getArgs2_spec (args : Val) (name : String) :
    (∃ a b, getArgs2 args name = .ok (a, b) ∧ argList args = [a, b]) ∨
    (∃ s, getArgs2 args name = .error (.InvalidOpArg s)) := by
  unfold getArgs2
  rcases getArgs_spec 2 args name with ⟨h, hl⟩ | ⟨s, h⟩
  · rw [h]
    match hv : argList args, hl with
    | [a, b], _ => exact Or.inl ⟨a, b, rfl, rfl⟩
  · rw [h]; exact Or.inr ⟨s, rfl⟩

theorem getArgs3_spec (args : Val) (name : String) :
    (∃ a b c, getArgs3 args name = .ok (a, b, c) ∧ argList args = [a, b, c]) ∨
    (∃ s, getArgs3 args name = .error (.InvalidOpArg s)) := by
  unfold getArgs3
  rcases getArgs_spec 3 args name with ⟨h, hl⟩ | ⟨s, h⟩
  · rw [h]
    match hv : argList args, hl with
    | [a, b, c], _ => exact Or.inl ⟨a, b, c, rfl, rfl⟩
  · rw [h]; exact Or.inr ⟨s, rfl⟩

theorem getArgs1_clean {args : Val} {name : String} {e : Err} (h : getArgs1 args name = .error e) :
    Err.isInternal e = false := by
  rcases getArgs1_spec args name with ⟨a, h', _⟩ | ⟨s, h'⟩ <;> rw [h'] at h <;> cases h; rfl

theorem getArgs2_clean {args : Val} {name : String} {e : Err} (h : getArgs2 args name = .error e) :
    Err.isInternal e = false := by
  rcases getArgs2_spec args name with ⟨a, b, h', _⟩ | ⟨s, h'⟩ <;> rw [h'] at h <;> cases h; rfl

theorem getArgs3_clean {args : Val} {name : String} {e : Err} (h : getArgs3 args name = .error e) :
    Err.isInternal e = false := by
  rcases getArgs3_spec args name with ⟨a, b, c, h', _⟩ | ⟨s, h'⟩ <;> rw [h'] at h <;> cases h; rfl

theorem getArgs1_args_wf {args : Val} {name : String} {a : Val} (hw : args.wf = true)
    (h : getArgs1 args name = .ok a) : a.wf = true := by
  rcases getArgs1_spec args name with ⟨a', h', hl⟩ | ⟨s, h'⟩ <;> rw [h'] at h <;> cases h
  exact argList_all_wf hw _ (by rw [hl]; simp)

theorem getArgs2_args_wf {args : Val} {name : String} {a b : Val} (hw : args.wf = true)
    (h : getArgs2 args name = .ok (a, b)) : a.wf = true ∧ b.wf = true := by
  rcases getArgs2_spec args name with ⟨a', b', h', hl⟩ | ⟨s, h'⟩ <;> rw [h'] at h <;> cases h
  exact ⟨argList_all_wf hw _ (by rw [hl]; simp), argList_all_wf hw _ (by rw [hl]; simp)⟩

theorem getArgs3_args_wf {args : Val} {name : String} {a b c : Val} (hw : args.wf = true)
    (h : getArgs3 args name = .ok (a, b, c)) : a.wf = true ∧ b.wf = true ∧ c.wf = true := by
  rcases getArgs3_spec args name with ⟨a', b', c', h', hl⟩ | ⟨s, h'⟩ <;> rw [h'] at h <;> cases h
  exact ⟨argList_all_wf hw _ (by rw [hl]; simp), argList_all_wf hw _ (by rw [hl]; simp), argList_all_wf hw _ (by rw [hl]; simp)⟩

theorem getVarargs_clean {n : Nat} {args : Val} {name : String} {e : Err} (h : getVarargs n args name = .error e) :
    Err.isInternal e = false := by
  simp only [getVarargs] at h; split at h <;> cases h; rfl

theorem getVarargs_ok {n : Nat} {args : Val} {name : String} {l : List Val} (h : getVarargs n args name = .ok l) :
    l = argList args := by
  simp only [getVarargs] at h; split at h <;> cases h; rfl

/-! ### the loops never fail internally -/

/-- the error of a failed primitive is not internal -/
macro "clean_prim" : tactic =>
  `(tactic| first
    | exact checkCost_clean ‹_› | exact ckAdd_clean ‹_› | exact ckMul_clean ‹_›
    | exact atomLen_clean ‹_› | exact atomBytes_clean ‹_› | exact intAtom_clean ‹_›
    | exact malachiteIntAtom_clean ‹_› | exact i32Atom_clean ‹_› | exact first_clean ‹_› | exact rest_clean ‹_›
    | exact allocAtom_clean ‹_› | exact allocNumber_clean ‹_› | exact allocPair_clean ‹_›
    | exact newAtomAndCost_clean ‹_› | exact getArgs1_clean ‹_› | exact getArgs2_clean ‹_›
    | exact getArgs3_clean ‹_› | exact getVarargs_clean ‹_›)

/-- one case of the induction of a `…_clean` loop lemma -/
syntax "loop_clean_core " ident ident : tactic
macro_rules
  | `(tactic| loop_clean_core $ih:ident $h:ident) => `(tactic|
    first
    | (cases $h:ident; done)
    | (cases $h:ident; rfl)
    | (cases $h:ident; clean_prim)
    | exact $ih $h)

theorem sha256Loop_clean {cpa cpb m : Nat} {l : List Val} {cost : Nat} {acc : Bytes} {e : Err}
    (h : sha256Loop cpa cpb m l cost acc = .error e) : Err.isInternal e = false := by
  revert h
  fun_induction sha256Loop cpa cpb m l cost acc <;> intro h <;> rename_i ih <;> loop_clean_core ih h

theorem unknownArith_clean {nm : Bool} {m : Nat} {l : List Val} {cost sz : Nat} {e : Err}
    (h : unknownArith nm m l cost sz = .error e) : Err.isInternal e = false := by
  revert h
  fun_induction unknownArith nm m l cost sz <;> intro h <;> rename_i ih <;> loop_clean_core ih h

theorem unknownConcat_clean {m : Nat} {l : List Val} {cost : Nat} {e : Err}
    (h : unknownConcat m l cost = .error e) : Err.isInternal e = false := by
  revert h
  fun_induction unknownConcat m l cost <;> intro h <;> rename_i ih <;> loop_clean_core ih h

set_option maxRecDepth 4000 in
theorem unknownMul_clean {nm : Bool} {m d : Nat} {l : List Val} {cost l0 : Nat} {fi : Bool} {e : Err}
    (h : unknownMul nm m d l cost l0 fi = .error e) : Err.isInternal e = false := by
  revert h
  cases nm
  · induction l, cost, l0, fi using unknownMul.induct (nm := false) (maxCost := m) (sqDiv := d) <;>
      intro h <;> rename_i ih <;> loop_prep <;>
      simp only [unknownMul_nil_eq, unknownMul_cons_eq, *, ↓reduceIte, Bool.false_eq_true] at h <;>
      loop_clean_core ih h
  · induction l, cost, l0, fi using unknownMul.induct (nm := true) (maxCost := m) (sqDiv := d) <;>
      intro h <;> rename_i ih <;> loop_prep <;>
      simp only [unknownMul_nil_eq, unknownMul_cons_eq, *, ↓reduceIte, Bool.false_eq_true] at h <;>
      loop_clean_core ih h

theorem addFast_clean {nm : Bool} {cpa cpb m : Nat} {l : List Val} {cost total : Nat} {e : Err}
    (h : addFast nm cpa cpb m l cost total = .error e) : Err.isInternal e = false := by
  revert h
  fun_induction addFast nm cpa cpb m l cost total <;> intro h <;> rename_i ih <;> loop_clean_core ih h

theorem addGeneric_clean {nm : Bool} {cpa cpb m : Nat} {l : List Val} {cost : Nat} {acc sa : Int} {e : Err}
    (h : addGeneric nm cpa cpb m l cost acc sa = .error e) : Err.isInternal e = false := by
  revert h
  fun_induction addGeneric nm cpa cpb m l cost acc sa <;> intro h <;> rename_i ih <;> loop_clean_core ih h

theorem subFast_clean {nm : Bool} {cpa cpb m : Nat} {l : List Val} {cost : Nat} {total : Int} {fi : Bool} {e : Err}
    (h : subFast nm cpa cpb m l cost total fi = .error e) : Err.isInternal e = false := by
  revert h
  fun_induction subFast nm cpa cpb m l cost total fi <;> intro h <;> rename_i ih <;> loop_clean_core ih h

theorem subGeneric_clean {nm : Bool} {cpa cpb m : Nat} {l : List Val} {cost : Nat} {acc sa : Int} {fi : Bool}
    {e : Err} (h : subGeneric nm cpa cpb m l cost acc sa fi = .error e) : Err.isInternal e = false := by
  revert h
  fun_induction subGeneric nm cpa cpb m l cost acc sa fi <;> intro h <;> rename_i ih <;> loop_clean_core ih h

theorem binopLoop_clean {name : String} {nm : Bool} {f : Int → Int → Int} {m : Nat} {l : List Val} {cost : Nat}
    {pa na : Int} {e : Err} (h : binopLoop name nm f m l cost pa na = .error e) : Err.isInternal e = false := by
  revert h
  fun_induction binopLoop name nm f m l cost pa na <;> intro h <;> rename_i ih <;> loop_clean_core ih h

theorem boolLoop_clean {m : Nat} {isAny : Bool} {l : List Val} {cost : Nat} {acc : Bool} {e : Err}
    (h : boolLoop m isAny l cost acc = .error e) : Err.isInternal e = false := by
  revert h
  fun_induction boolLoop m isAny l cost acc <;> intro h <;> rename_i ih <;> loop_clean_core ih h

theorem concatLoop_clean {m : Nat} {l : List Val} {cost ts : Nat} {terms : List Val} {e : Err}
    (h : concatLoop m l cost ts terms = .error e) : Err.isInternal e = false := by
  revert h
  fun_induction concatLoop m l cost ts terms <;> intro h <;> rename_i ih <;> loop_clean_core ih h

theorem mulStep_clean {cfg : Cfg} {flags m d : Nat} {arg : Val} {cost : Nat} {total : Int} {l0 : Nat} {e : Err}
    (h : mulStep cfg flags m d arg cost total l0 = .error e) : Err.isInternal e = false := by
  revert h
  fun_cases mulStep cfg flags m d arg cost total l0 <;> intro h <;> rename_i ih <;> loop_clean_core ih h

theorem mulLoop_clean {cfg : Cfg} {flags m d : Nat} {l : List Val} {cost : Nat} {total : Int} {l0 : Nat} {e : Err}
    (h : mulLoop cfg flags m d l cost total l0 = .error e) : Err.isInternal e = false := by
  induction l generalizing cost total l0 with
  | nil => cases h
  | cons arg rest ih =>
    rw [mulLoop_cons] at h
    cases hs : mulStep cfg flags m d arg cost total l0 with
    | error e' => simp only [hs] at h; cases h; exact mulStep_clean hs
    | ok p =>
      simp only [hs] at h
      split at h
      · cases h; rfl
      · exact ih h

/-! ### `new_substr` -/

theorem checkAtomLimit_clean {c : Ctr} {e : Err} (h : c.checkAtomLimit = .error e) : Err.isInternal e = false := by
  unfold Ctr.checkAtomLimit at h; split at h <;> cases h; rfl

theorem newSubstr_clean {c : Ctr} {b : Bytes} {i : Bool} {s e : Nat} {err : Err}
    (h : newSubstr c (.atom b i) s e = .error err) : Err.isInternal err = false := by
  unfold newSubstr at h
  split at h
  · cases h; exact checkAtomLimit_clean ‹_›
  · cases i <;> simp only at h <;> (repeat' (split at h)) <;>
      first
      | (cases h; done)
      | (cases h; rfl)

theorem newSubstr_wf {c c' : Ctr} {node v : Val} {s e : Nat}
    (h : newSubstr c node s e = .ok (v, c')) : v.wf = true ∧ CtrLe c c' := by
  revert h
  fun_cases newSubstr c node s e <;> intro h <;>
    first
    | (cases h; done)
    | (cases h; exact ⟨rfl, Nat.le_succ _, Nat.le_refl _, Nat.le_refl _, rfl⟩)
    | (cases h; exact ⟨rfl, Nat.le_succ _, Nat.le_refl _, Nat.le_add_right _ _, rfl⟩)
    | (cases h
       refine ⟨?_, Nat.le_succ _, Nat.le_refl _, Nat.le_refl _, rfl⟩
       simp only [Val.wf, *, Option.isSome_some])

/-! ### `concatLoop` / `new_concat` -/

/-- byte length of a term of a concatenation (0 for a pair, which never occurs) -/
def termLen : Val → Nat
  | .atom b _ => b.length
  | .pair _ _ => 0

/-- what `op_concat` hands to `new_concat`: atoms only, well-formed, and their exact total size -/
def ConcatInv (ts : Nat) (terms : List Val) : Prop :=
  (∀ t ∈ terms, t.isPair = false ∧ t.wf = true) ∧ ts = (terms.map termLen).sum

theorem ConcatInv.nil : ConcatInv 0 [] := ⟨fun _ h => by simp at h, rfl⟩

theorem ConcatInv.cons {ts : Nat} {terms : List Val} {b : Bytes} {i : Bool} (h : ConcatInv ts terms)
    (hw : (Val.atom b i).wf = true) : ConcatInv (ts + b.length) (.atom b i :: terms) := by
  refine ⟨fun t ht => ?_, ?_⟩
  · simp only [List.mem_cons] at ht
    rcases ht with rfl | ht
    · exact ⟨rfl, hw⟩
    · exact h.1 t ht
  · simp only [List.map_cons, List.sum_cons, termLen, h.2]; omega

theorem ConcatInv.reverse {ts : Nat} {terms : List Val} (h : ConcatInv ts terms) : ConcatInv ts terms.reverse := by
  refine ⟨fun t ht => h.1 t (List.mem_reverse.1 ht), ?_⟩
  rw [h.2, List.map_reverse, List.sum_reverse]

theorem concatLoop_inv {m : Nat} {l : List Val} {cost ts : Nat} {terms : List Val} {r : Nat × Nat × List Val}
    (h : concatLoop m l cost ts terms = .ok r) (hl : ∀ a ∈ l, a.wf = true) (hi : ConcatInv ts terms) :
    ConcatInv r.2.1 r.2.2 := by
  revert h hl hi
  fun_induction concatLoop m l cost ts terms <;> intro h hl hi
  · cases h; exact hi.reverse
  · cases h
  · cases h
  · rename_i ih
    exact ih h (fun a ha => hl a (List.mem_cons_of_mem _ ha)) (hi.cons (hl _ (List.mem_cons_self ..)))
  · rename_i ih
    exact ih h (fun a ha => hl a (List.mem_cons_of_mem _ ha)) hi

theorem concat_foldl {f : Except Err Bytes → Val → Except Err Bytes} {nodes : List Val} {a : Bytes}
    {res : Except Err Bytes} (hfold : nodes.foldl f (.ok a) = res)
    (hf : ∀ a b i, f (.ok a) (.atom b i) = .ok (a ++ b)) (hn : ∀ t ∈ nodes, t.isPair = false) :
    ∃ bs, res = .ok bs ∧ bs.length = a.length + (nodes.map termLen).sum := by
  induction nodes generalizing a with
  | nil => exact ⟨a, hfold.symm, by simp⟩
  | cons n rest ih =>
    cases n with
    | pair l r => exact absurd (hn _ (List.mem_cons_self ..)).symm (by simp [Val.isPair])
    | atom b i =>
      rw [List.foldl_cons, hf] at hfold
      obtain ⟨bs, h1, h2⟩ := ih hfold (fun t ht => hn t (List.mem_cons_of_mem _ ht))
      refine ⟨bs, h1, ?_⟩
      simp only [List.map_cons, List.sum_cons, termLen, h2, List.length_append]; omega

theorem newConcat_spec {c : Ctr} {newSize : Nat} {nodes : List Val} (hi : ConcatInv newSize nodes) :
    (∃ e, newConcat c newSize nodes = .error e ∧ Err.isInternal e = false) ∨
    (∃ v c', newConcat c newSize nodes = .ok (v, c') ∧ v.wf = true ∧ CtrLe c c') := by
  unfold newConcat
  split
  · rename_i e he; exact Or.inl ⟨e, rfl, checkAtomLimit_clean he⟩
  · split
    · exact Or.inl ⟨_, rfl, rfl⟩
    · split
      · -- no term
        have : newSize = 0 := hi.2
        subst this
        exact Or.inr ⟨_, _, rfl, Val.wf_nil, Nat.le_succ _, Nat.le_refl _, Nat.le_refl _, rfl⟩
      · -- one term
        rename_i n
        have hn := hi.1 n (List.mem_cons_self ..)
        cases n with
        | pair l r => exact absurd hn.1 (by simp [Val.isPair])
        | atom b i =>
          have : newSize = b.length := by simpa [termLen] using hi.2
          subst this
          simp only [bne_self_eq_false, Bool.false_eq_true, ↓reduceIte]
          exact Or.inr ⟨_, _, rfl, hn.2, Nat.le_succ _, Nat.le_refl _, Nat.le_add_right _ _, rfl⟩
      · -- several terms
        generalize hfold : List.foldl _ (Except.ok ([] : Bytes)) nodes = res
        obtain ⟨bs, rfl, h2⟩ := concat_foldl hfold (fun _ _ _ => rfl) (fun t ht => (hi.1 t ht).1)
        simp only
        have : bs.length = newSize := by rw [h2, hi.2]; simp
        subst this
        simp only [bne_self_eq_false, Bool.false_eq_true, ↓reduceIte]
        exact Or.inr ⟨_, _, rfl, rfl, Nat.le_succ _, Nat.le_refl _, Nat.le_add_right _ _, rfl⟩

theorem newConcat_clean {c : Ctr} {newSize : Nat} {nodes : List Val} {e : Err} (hi : ConcatInv newSize nodes)
    (h : newConcat c newSize nodes = .error e) : Err.isInternal e = false := by
  rcases newConcat_spec (c := c) hi with ⟨e', h', hc⟩ | ⟨v, c', h', _⟩ <;> rw [h'] at h <;> cases h
  exact hc

theorem newConcat_wf {c c' : Ctr} {newSize : Nat} {nodes : List Val} {v : Val} (hi : ConcatInv newSize nodes)
    (h : newConcat c newSize nodes = .ok (v, c')) : v.wf = true ∧ CtrLe c c' := by
  rcases newConcat_spec (c := c) hi with ⟨e', h', _⟩ | ⟨v', c'', h', hw⟩ <;> rw [h'] at h <;> cases h
  exact hw

end Clvm.Interp
